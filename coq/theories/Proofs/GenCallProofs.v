(** Lemmas for C03 (Model/GenCall.v). *)
From Coq Require Import ZArith List Bool Lia.
From FV Require Import Base.Res Base.Bytes Base.GoSem Model.Headers Model.Receivers Model.ThriftBin Model.ThriftCompact Model.GenCall
     Proofs.BytesProofs Proofs.HeadersProofs Proofs.ThriftBinProofs Proofs.ThriftBinGoProofs Proofs.ThriftCompactProofs.
Import ListNotations.
Open Scope Z_scope.

Lemma bytes_eqb_refl b : ThriftBin.bytes_eqb b b = true.
Proof. induction b as [|x b IH]; [reflexivity|]. cbn. rewrite Z.eqb_refl. exact IH. Qed.

Lemma bytes_eqb_eq a : forall b, ThriftBin.bytes_eqb a b = true -> a = b.
Proof.
  induction a as [|x a IH]; intros [|y b] H; cbn in H; try discriminate; [reflexivity|].
  apply andb_prop in H. destruct H as [H1 H2]. apply Z.eqb_eq in H1. subst. f_equal. apply IH. exact H2.
Qed.

(** * Message header *)

Lemma read_int_be_any n z r :
  read_int n (be_n n z ++ r) = Ok (signed n (z mod 256 ^ Z.of_nat n), r).
Proof.
  unfold read_int. rewrite read_n_app by apply be_n_length.
  cbn [bind]. rewrite un_be_be_n. reflexivity.
Qed.

Lemma msg_begin_roundtrip nm typ seq rest :
  0 <= typ < 256 -> zlen nm < 2147483648 -> in_range 4 seq ->
  msg_begin_dec (msg_begin_enc nm typ seq ++ rest) = Ok (nm, typ, seq, rest).
Proof.
  intros Ht Hn Hs. unfold msg_begin_dec, msg_begin_enc.
  rewrite <- !app_assoc. rewrite read_int_be_any. cbn [bind].
  change (256 ^ Z.of_nat 4) with 4294967296.
  rewrite Z.mod_small by lia.
  unfold signed. change (256 ^ Z.of_nat 4) with 4294967296. change (4294967296 / 2) with 2147483648.
  destruct (2147549184 + typ <? 2147483648) eqn:E; [apply Z.ltb_lt in E; lia|].
  destruct (2147549184 + typ - 4294967296 <? 0) eqn:E2; [|apply Z.ltb_ge in E2; lia].
  replace (2147549184 + typ - 4294967296 + 4294967296) with (2147549184 + typ) by lia.
  assert (Hq : (2147549184 + typ) / 65536 = 32769).
  { symmetry. apply Z.div_unique with (r := typ); lia. }
  rewrite Hq. cbn [Z.eqb negb Pos.eqb].
  rewrite read_blob_be by assumption. cbn [bind].
  rewrite read_int_be; [|lia|assumption]. cbn [bind].
  assert (Hm : (2147549184 + typ) mod 256 = typ).
  { symmetry. apply Z.mod_unique with (q := 8388864); lia. }
  rewrite Hm. reflexivity.
Qed.

(** * TApplicationException *)

Lemma appexc_roundtrip kind text rest fuel :
  (3 <= fuel)%nat -> zlen text < 2147483648 -> in_range 4 kind ->
  appexc_dec fuel (appexc_enc kind text ++ rest) [] 0 = Ok (text, kind, rest).
Proof.
  intros Hf Ht Hk. unfold appexc_enc.
  destruct fuel as [|[|[|f]]]; try lia.
  assert (Htail : forall msg0 k0 g, 
             appexc_dec (S (S g)) ((8 :: be_n 2 2 ++ be_n 4 kind ++ [0]) ++ rest) msg0 k0 = Ok (msg0, kind, rest)).
  { intros msg0 k0 g. cbn [appexc_dec app].
    rewrite read_int_1 by lia. cbn [bind]. change (8 =? 0) with false. cbv iota.
    rewrite <- !app_assoc.
    rewrite read_int_be; [|lia|apply in_range_2; lia]. cbn [bind].
    change ((2 =? 1) && (8 =? 11)) with false. change ((2 =? 2) && (8 =? 8)) with true. cbv iota.
    rewrite read_int_be; [|lia|assumption]. cbn [bind app].
    rewrite read_int_1 by lia. cbn [bind]. reflexivity. }
  destruct text as [|c text].
  - cbn [app]. apply (Htail [] 0 (S f)).
  - remember (c :: text) as msg eqn:Em.
    change (appexc_dec (S (S (S f))) (((11 :: be_n 2 1 ++ be_n 4 (zlen msg) ++ msg) ++ 8 :: be_n 2 2 ++ be_n 4 kind ++ [0]) ++ rest) [] 0 = Ok (msg, kind, rest)).
    cbn [appexc_dec app].
    rewrite read_int_1 by lia. cbn [bind]. change (11 =? 0) with false. cbv iota.
    rewrite <- !app_assoc.
    rewrite read_int_be; [|lia|apply in_range_2; lia]. cbn [bind].
    change ((1 =? 1) && (11 =? 11)) with true. cbv iota.
    rewrite read_blob_be by assumption. cbn [bind].
    apply (Htail msg 0 f).
Qed.

(** * Frames *)
Lemma unframe_frame p : unframe (frame_of p) = Ok p.
Proof.
  unfold unframe, frame_of. rewrite zlen_app. unfold zlen at 1. rewrite be_n_length.
  pose proof (zlen_nonneg p).
  destruct (Z.of_nat 4 + zlen p <? 4) eqn:E; [apply Z.ltb_lt in E; lia|].
  rewrite skipn_app, be_n_length.
  rewrite skipn_all2 by (rewrite be_n_length; lia). reflexivity.
Qed.

(** * What the call needs of a protocol: the four round trips *)
Record codec_ok (cd : codec) : Prop := mkCodecOk {
  ok_msg : forall nm typ seq rest,
    0 <= typ < 8 -> zlen nm < 2147483648 -> in_range 4 seq ->
    cd_msg_dec cd (cd_msg_enc cd nm typ seq ++ rest) = Ok (nm, typ, seq, rest);
  ok_exc : forall kind text rest fuel,
    (3 <= fuel)%nat -> zlen text < 2147483648 -> in_range 4 kind ->
    cd_exc_dec cd fuel (cd_exc_enc cd kind text ++ rest) = Ok (text, kind, rest);
  ok_struct : forall e t v rest,
    gwf e t v ->
    exists b fuel0, cd_write cd e t v = Ok b /\
                    forall fuel, (fuel0 <= fuel)%nat -> cd_read cd fuel e t (b ++ rest) = Ok (v, rest);
  ok_skip : forall e t args,
    gwf e t (VStruct args) ->
    (forall w, to_wire e t (VStruct args) = Ok w -> wdepth w <= 64) ->
    exists b fuel0, cd_write cd e t (VStruct args) = Ok b /\
                    forall fuel, (fuel0 <= fuel)%nat -> cd_skip_struct cd fuel b = Ok [] }.

Section WithCodec.
Variable cd : codec.
Hypothesis cd_ok : codec_ok cd.

(** * Server: request header, dispatch, argument decoding *)

Lemma read_request_header_marshal hdrs opid rest :
  header_size hdrs < 2147483648 -> Headers.lookup opid_header hdrs = Some opid ->
  read_request_header (marshal hdrs ++ rest) = Ok (hdrs, opid, rest).
Proof.
  intros Hs Ho. unfold read_request_header. rewrite stream_roundtrip by assumption.
  cbn [bind]. rewrite Ho. reflexivity.
Qed.

Definition wire_type (m : method) : Z := if m_oneway m then T_ONEWAY else T_CALL.

Lemma wire_type_range m : 0 <= wire_type m < 8.
Proof. unfold wire_type, T_ONEWAY, T_CALL. destruct (m_oneway m); lia. Qed.

(** the request the generated client method hands to the transport, and what the generated
    processor does with it up to the handler's return *)
Lemma server_on_request e pm h m hdrs opid args :
  plookup (m_wire m) pm = Some m ->
  header_size hdrs < 2147483648 -> Headers.lookup opid_header hdrs = Some opid ->
  zlen (m_wire m) < 2147483648 ->
  gwf e (TRef (m_args m)) (VStruct args) ->
  exists req fuel0,
    client_prepare_c cd e m hdrs args = Ok req /\
    forall fuel, (fuel0 <= fuel)%nat ->
      server_process_c cd fuel e pm h req =
      do o <- respond_c cd e (response_headers (to_map hdrs) opid) m (h (m_wire m) args);
      Ok (o, [(m_wire m, args)]).
Proof.
  intros Hpm Hs Ho Hn Hwf.
  destruct (ok_struct cd cd_ok e (TRef (m_args m)) (VStruct args) [] Hwf) as (b & fuel0 & Hw & Hr).
  exists (marshal hdrs ++ cd_msg_enc cd (m_wire m) (wire_type m) 0 ++ b), fuel0. split.
  - unfold client_prepare_c. rewrite Hw. reflexivity.
  - intros fuel Hf. unfold server_process_c.
    rewrite (read_request_header_marshal hdrs opid) by assumption. cbn [bind].
    rewrite (ok_msg cd cd_ok); [|apply wire_type_range|assumption|apply in_range_4; lia].
    cbn [bind]. rewrite Hpm. unfold method_process_c.
    specialize (Hr fuel Hf). rewrite app_nil_r in Hr. rewrite Hr. reflexivity.
Qed.

(** * Client: the reply *)

Lemma first_thrown_none e ts : first_thrown e ts (map (fun _ => None) ts) = None.
Proof. induction ts as [|f ts IH]; [reflexivity|]. cbn. exact IH. Qed.

Lemma find_throw_spec e n ts f :
  find_throw e n ts = Some f -> In f ts /\ resolve e (fty f) = TRef n.
Proof.
  induction ts as [|g ts IH]; cbn [find_throw]; [discriminate|].
  destruct (resolve e (fty g)) eqn:E; try (intros H; destruct (IH H); split; [right|]; assumption).
  destruct (n0 =? n) eqn:En.
  - intros H. injection H as <-. apply Z.eqb_eq in En. subst. split; [left; reflexivity|assumption].
  - intros H; destruct (IH H); split; [right|]; assumption.
Qed.

Lemma first_thrown_some e n v f ts :
  NoDup (map fid ts) -> In f ts -> resolve e (fty f) = TRef n ->
  first_thrown e ts (map (fun g => if fid g =? fid f then Some v else None) ts) = Some (n, v).
Proof.
  intros Hnd Hin Hres. induction ts as [|g ts IH]; [destruct Hin|].
  cbn [map first_thrown]. inversion Hnd as [|x l Hnotin Hnd' Heq]; subst.
  destruct Hin as [->|Hin].
  - rewrite Z.eqb_refl. rewrite Hres. reflexivity.
  - destruct (fid g =? fid f) eqn:E.
    + apply Z.eqb_eq in E. exfalso. apply Hnotin. rewrite E. apply in_map. exact Hin.
    + apply IH; assumption.
Qed.

Lemma result_outcome_ret e m ov :
  result_outcome e m (result_slots m ov None) =
  CRet (match m_ret m with Some t => get_success e t ov | None => None end).
Proof.
  unfold result_outcome, result_slots. destruct (m_ret m) as [t|]; cbn [app].
  - rewrite first_thrown_none. reflexivity.
  - rewrite first_thrown_none. reflexivity.
Qed.

Lemma result_outcome_thrown e m n v f :
  NoDup (map fid (m_throws m)) -> find_throw e n (m_throws m) = Some f ->
  result_outcome e m (result_slots m None (Some (fid f, v))) = CDeclared n v.
Proof.
  intros Hnd Hf. destruct (find_throw_spec _ _ _ _ Hf) as [Hin Hres].
  unfold result_outcome, result_slots. destruct (m_ret m) as [t|]; cbn [app];
    rewrite (first_thrown_some e n v f) by assumption; reflexivity.
Qed.

(** what the handler's outcome has to satisfy: values of the declared types, texts and type ids
    that fit their wire fields *)
Definition outcome_ok (e : env) (m : method) (o : houtcome) : Prop :=
  match o with
  | HRet ov => m_oneway m = false -> gwf e (TRef (m_result m)) (VStruct (result_slots m ov None))
  | HDeclared n v text =>
    match (if m_oneway m then None else find_throw e n (m_throws m)) with
    | Some f => gwf e (TRef (m_result m)) (VStruct (result_slots m None (Some (fid f, v))))
                /\ NoDup (map fid (m_throws m))
    | None => zlen (s_internal_error ++ m_wire m ++ s_colon ++ text) < 2147483648
    end
  | HAppExc kind text => in_range 4 kind /\ zlen text < 2147483648
  | HOther text => zlen (s_internal_error ++ m_wire m ++ s_colon ++ text) < 2147483648
  end.

Lemma exception_reply_read e m rh kind text fuel :
  header_size rh < 2147483648 -> zlen (m_wire m) < 2147483648 ->
  in_range 4 kind -> zlen text < 2147483648 -> (3 <= fuel)%nat ->
  process_reply_c cd fuel e m (exception_msg_c cd rh (m_wire m) kind text) =
  if kind =? AE_RESPONSE_TOO_LARGE then CTransport TE_RESPONSE_TOO_LARGE text else CAppExc kind text.
Proof.
  intros Hrh Hn Hk Ht Hf. unfold process_reply_c, exception_msg_c.
  rewrite stream_roundtrip by assumption.
  rewrite (ok_msg cd cd_ok); [|unfold T_EXCEPTION; lia|assumption|apply in_range_4; lia].
  rewrite bytes_eqb_refl. cbn [negb]. change (T_EXCEPTION =? T_EXCEPTION) with true. cbv iota.
  rewrite <- (app_nil_r (cd_exc_enc cd kind text)).
  rewrite (ok_exc cd cd_ok) by assumption. reflexivity.
Qed.

(** two-way methods: the reply the processor writes is read by the client as the handler's outcome *)
Lemma respond_then_reply e m rh o :
  m_oneway m = false ->
  header_size rh < 2147483648 -> zlen (m_wire m) < 2147483648 ->
  outcome_ok e m o ->
  exists reply fuel0,
    respond_c cd e rh m o = Ok (Some reply) /\
    (exists payload, reply = marshal rh ++ payload) /\
    forall fuel, (fuel0 <= fuel)%nat -> process_reply_c cd fuel e m reply = map_outcome e m o.
Proof.
  intros Hw Hrh Hn Hok.
  assert (Hexc : forall kind text, in_range 4 kind -> zlen text < 2147483648 ->
            exists reply fuel0,
              Ok (Some (exception_msg_c cd rh (m_wire m) kind text)) = Ok (Some reply) /\
              (exists payload, reply = marshal rh ++ payload) /\
              forall fuel, (fuel0 <= fuel)%nat -> process_reply_c cd fuel e m reply =
                if kind =? AE_RESPONSE_TOO_LARGE then CTransport TE_RESPONSE_TOO_LARGE text else CAppExc kind text).
  { intros kind text Hk Ht. exists (exception_msg_c cd rh (m_wire m) kind text), 3%nat.
    split; [reflexivity|]. split; [eexists; reflexivity|].
    intros fuel Hf. apply exception_reply_read; assumption. }
  assert (Hrep : forall slots, gwf e (TRef (m_result m)) (VStruct slots) ->
            exists reply fuel0,
              (do b <- cd_write cd e (TRef (m_result m)) (VStruct slots);
               Ok (Some (marshal rh ++ cd_msg_enc cd (m_wire m) T_REPLY 0 ++ b))) = Ok (Some reply) /\
              (exists payload, reply = marshal rh ++ payload) /\
              forall fuel, (fuel0 <= fuel)%nat -> process_reply_c cd fuel e m reply = result_outcome e m slots).
  { intros slots Hwf.
    destruct (ok_struct cd cd_ok e (TRef (m_result m)) (VStruct slots) [] Hwf) as (b & fuel0 & Hwr & Hr).
    exists (marshal rh ++ cd_msg_enc cd (m_wire m) T_REPLY 0 ++ b), fuel0.
    rewrite Hwr. split; [reflexivity|]. split; [eexists; reflexivity|].
    intros fuel Hf. unfold process_reply_c.
    rewrite stream_roundtrip by assumption.
    rewrite (ok_msg cd cd_ok); [|unfold T_REPLY; lia|assumption|apply in_range_4; lia].
    rewrite bytes_eqb_refl. cbn [negb]. change (T_REPLY =? T_EXCEPTION) with false.
    change (T_REPLY =? T_REPLY) with true. cbn [negb]. cbv iota.
    specialize (Hr fuel Hf). rewrite app_nil_r in Hr. rewrite Hr. reflexivity. }
  assert (H6 : in_range 4 AE_INTERNAL_ERROR) by (apply in_range_4; unfold AE_INTERNAL_ERROR; lia).
  destruct o as [ov|n v text|kind text|text]; unfold respond_c, map_outcome; cbn [outcome_ok] in Hok.
  - rewrite Hw. rewrite <- result_outcome_ret. apply Hrep. apply Hok. exact Hw.
  - rewrite Hw in *. destruct (find_throw e n (m_throws m)) as [f|] eqn:Ef.
    + destruct Hok as [Hwf Hnd]. rewrite <- (result_outcome_thrown e m n v f Hnd Ef). apply Hrep. exact Hwf.
    + apply (Hexc AE_INTERNAL_ERROR _ H6 Hok).
  - destruct Hok as [Hk Ht]. apply Hexc; assumption.
  - apply (Hexc AE_INTERNAL_ERROR _ H6 Hok).
Qed.

(** * The registry finds the caller: the reply starts with the response headers, which hold the
    caller's op id *)
Lemma response_opid hm opid : lookup_default opid_header (response_headers hm opid) = opid.
Proof.
  unfold response_headers, lookup_default.
  destruct (match Headers.lookup cid_hdr hm with Some v => v | None => [] end) as [|c cid]; reflexivity.
Qed.

Lemma drop_be4 x r : drop 4 (be_n 4 x ++ r) = r.
Proof. cbn. reflexivity. Qed.

Lemma reply_dispatched hdrs hm opid n payload :
  lookup_default opid_header hdrs = opid -> parse_uint64 opid = Some n ->
  zlen (marshal (response_headers hm opid) ++ payload) < 2147483648 ->
  reply_reaches_caller true hdrs (marshal (response_headers hm opid) ++ payload) = true.
Proof.
  intros Hl Hp Hz. unfold reply_reaches_caller, execute_frame.
  set (reply := marshal (response_headers hm opid) ++ payload) in *.
  unfold frame_of. rewrite zlen_app. unfold zlen at 1. rewrite be_n_length.
  pose proof (zlen_nonneg reply).
  destruct (Z.of_nat 4 + zlen reply <? 4) eqn:E; [apply Z.ltb_lt in E; lia|].
  unfold GoSem.slice_from. rewrite zlen_app. unfold zlen at 1. rewrite be_n_length.
  replace ((0 <=? 4) && (4 <=? Z.of_nat 4 + zlen reply)) with true
    by (symmetry; apply andb_true_intro; split; apply Z.leb_le; lia).
  cbn [bind]. change (Z.to_nat 4) with 4%nat. rewrite drop_be4.
  unfold registry_execute, reply.
  rewrite frame_roundtrip.
  - cbn [bind]. rewrite response_opid, Hl, Hp. apply Z.eqb_refl.
  - unfold reply in Hz. rewrite zlen_app in Hz.
    pose proof (C04_layout (response_headers hm opid)) as (_ & Hlen & _). lia.
Qed.

(** * The call, end to end *)

Theorem call_faithful e pm h registry m hdrs opid args :
  plookup (m_wire m) pm = Some m ->
  m_oneway m = false ->
  header_size hdrs < 2147483648 -> Headers.lookup opid_header hdrs = Some opid ->
  header_size (response_headers (to_map hdrs) opid) < 2147483648 ->
  zlen (m_wire m) < 2147483648 ->
  gwf e (TRef (m_args m)) (VStruct args) ->
  outcome_ok e m (h (m_wire m) args) ->
  (registry = true ->
   (exists n, parse_uint64 opid = Some n) /\
   forall reply, respond_c cd e (response_headers (to_map hdrs) opid) m (h (m_wire m) args) = Ok (Some reply) ->
                 zlen reply < 2147483648) ->
  exists fuel0, forall fuel, (fuel0 <= fuel)%nat ->
    exists reply,
      rpc_call_c cd fuel e pm h registry m hdrs args =
      Ok (map_outcome e m (h (m_wire m) args), [(m_wire m, args)], Some reply).
Proof.
  intros Hpm Hw Hs Ho Hrh Hn Hwf Hok Hreg.
  destruct (server_on_request e pm h m hdrs opid args Hpm Hs Ho Hn Hwf) as (req & f1 & Hreq & Hsrv).
  destruct (respond_then_reply e m (response_headers (to_map hdrs) opid) (h (m_wire m) args) Hw Hrh Hn Hok)
    as (reply & f2 & Hresp & (payload & Hshape) & Hcli).
  exists (f1 + f2)%nat. intros fuel Hf. exists reply.
  unfold rpc_call_c. rewrite Hreq. cbn [bind]. rewrite unframe_frame. cbn [bind].
  rewrite Hsrv by lia. rewrite Hresp. cbn [bind]. rewrite Hw.
  assert (Hreach : reply_reaches_caller registry hdrs reply = true).
  { destruct registry; [|reflexivity].
    destruct (Hreg eq_refl) as [[n Hp] Hsz]. rewrite Hshape.
    apply reply_dispatched with (n := n).
    - unfold lookup_default. rewrite Ho. reflexivity.
    - exact Hp.
    - rewrite <- Hshape. apply Hsz. exact Hresp. }
  rewrite Hreach. rewrite Hcli by lia. reflexivity.
Qed.

(** oneway: the caller gets nil once the frame is handed over, the handler runs exactly once on the
    arguments, and a handler that returns nil makes the processor write nothing *)
Theorem oneway_no_reply e pm h registry m hdrs opid args :
  plookup (m_wire m) pm = Some m ->
  m_oneway m = true ->
  header_size hdrs < 2147483648 -> Headers.lookup opid_header hdrs = Some opid ->
  zlen (m_wire m) < 2147483648 ->
  gwf e (TRef (m_args m)) (VStruct args) ->
  exists fuel0, forall fuel, (fuel0 <= fuel)%nat ->
    exists out,
      rpc_call_c cd fuel e pm h registry m hdrs args = Ok (CRet None, [(m_wire m, args)], out) /\
      (forall ov, h (m_wire m) args = HRet ov -> out = None).
Proof.
  intros Hpm Hw Hs Ho Hn Hwf.
  destruct (server_on_request e pm h m hdrs opid args Hpm Hs Ho Hn Hwf) as (req & f1 & Hreq & Hsrv).
  exists f1. intros fuel Hf.
  assert (Hresp : exists out, respond_c cd e (response_headers (to_map hdrs) opid) m (h (m_wire m) args) = Ok out /\
                              (forall ov, h (m_wire m) args = HRet ov -> out = None)).
  { unfold respond_c. rewrite Hw. destruct (h (m_wire m) args) as [ov|n v text|kind text|text];
      eexists; (split; [reflexivity|]); intros ov' H; try discriminate H; reflexivity. }
  destruct Hresp as (out & Hresp & Hnone). exists out. split; [|exact Hnone].
  unfold rpc_call_c. rewrite Hreq. cbn [bind]. rewrite unframe_frame. cbn [bind].
  rewrite Hsrv by lia. rewrite Hresp. cbn [bind]. rewrite Hw. reflexivity.
Qed.

(** a method the processor does not serve: UNKNOWN_METHOD, the handler is not invoked *)
Theorem unknown_method_rejected e pm h m hdrs opid args :
  plookup (m_wire m) pm = None ->
  m_oneway m = false ->
  header_size hdrs < 2147483648 -> Headers.lookup opid_header hdrs = Some opid ->
  header_size (response_headers (to_map hdrs) opid) < 2147483648 ->
  zlen (s_unknown_function ++ m_wire m) < 2147483648 ->
  gwf e (TRef (m_args m)) (VStruct args) ->
  (forall w, to_wire e (TRef (m_args m)) (VStruct args) = Ok w -> wdepth w <= 64) ->
  exists fuel0, forall fuel, (fuel0 <= fuel)%nat ->
    exists reply,
      rpc_call_c cd fuel e pm h false m hdrs args =
      Ok (CAppExc AE_UNKNOWN_METHOD (s_unknown_function ++ m_wire m), [], Some reply).
Proof.
  intros Hpm Hw Hs Ho Hrh Hn Hwf Hdepth.
  destruct (ok_skip cd cd_ok e (TRef (m_args m)) args Hwf Hdepth) as (b & f0 & Hwr & Hsk).
  assert (Hnm : zlen (m_wire m) < 2147483648).
  { rewrite zlen_app in Hn. pose proof (zlen_nonneg s_unknown_function). lia. }
  exists (f0 + 3)%nat. intros fuel Hf.
  eexists. unfold rpc_call_c, client_prepare_c. rewrite Hwr. cbn [bind].
  rewrite unframe_frame. cbn [bind]. unfold server_process_c.
  rewrite (read_request_header_marshal hdrs opid) by assumption. cbn [bind].
  rewrite (ok_msg cd cd_ok); [|rewrite Hw; unfold T_CALL; lia|assumption|apply in_range_4; lia].
  cbn [bind]. rewrite Hpm.
  rewrite Hsk by lia. cbn [bind]. rewrite Hw.
  change (reply_reaches_caller false hdrs ?x) with true. cbv iota.
  fold (exception_msg_c cd (response_headers (to_map hdrs) opid) (m_wire m) AE_UNKNOWN_METHOD (s_unknown_function ++ m_wire m)).
  rewrite exception_reply_read; [|assumption|assumption|apply in_range_4; unfold AE_UNKNOWN_METHOD; lia|assumption|lia].
  reflexivity.
Qed.

(** the caller rejects a reply under another method name or of a type that is neither REPLY nor
    EXCEPTION, whatever follows *)
Theorem wrong_reply_rejected e m fuel reply hs r1 nm typ seq r2 :
  read_header reply = Ok (hs, r1) -> cd_msg_dec cd r1 = Ok (nm, typ, seq, r2) ->
  (nm <> m_wire m -> process_reply_c cd fuel e m reply = CAppExc AE_WRONG_METHOD_NAME (m_wire m ++ s_wrong_method)) /\
  (nm = m_wire m -> typ <> T_EXCEPTION -> typ <> T_REPLY ->
   process_reply_c cd fuel e m reply = CAppExc AE_INVALID_MESSAGE_TYPE (m_wire m ++ s_invalid_type)).
Proof.
  intros Hh Hm. unfold process_reply_c. rewrite Hh, Hm. split.
  - intros Hne. destruct (ThriftBin.bytes_eqb nm (m_wire m)) eqn:E; [|reflexivity].
    apply bytes_eqb_eq in E. contradiction.
  - intros -> H3 H2. rewrite bytes_eqb_refl. cbn [negb].
    destruct (typ =? T_EXCEPTION) eqn:E3; [apply Z.eqb_eq in E3; contradiction|].
    destruct (typ =? T_REPLY) eqn:E2; [apply Z.eqb_eq in E2; contradiction|]. reflexivity.
Qed.

(** * Inheritance: whatever method the generated client resolves (own or promoted from the embedded
    base client) is in the processor's map under its wire name *)
Lemma client_resolve_in fuel : forall ss s go m,
  client_resolve fuel ss s go = Some m -> In (m_wire m, m) (proc_entries fuel ss s).
Proof.
  induction fuel as [|f IH]; intros ss s go m; cbn [client_resolve proc_entries]; [discriminate|].
  destruct (slookup ss s) as [sv|]; [|discriminate].
  destruct (find (fun m0 => ThriftBin.bytes_eqb (m_go m0) go) (s_methods sv)) as [m0|] eqn:Ef.
  - intros H. injection H as <-. apply find_some in Ef. destruct Ef as [Hin _].
    apply in_or_app. right. apply in_map_iff. exists m0. split; [reflexivity|assumption].
  - destruct (s_extends sv) as [p|]; [|discriminate].
    intros H. apply in_or_app. left. apply (IH ss p go m H).
Qed.

Lemma plookup_some_in k : forall l m, plookup k l = Some m -> In k (map fst l).
Proof.
  induction l as [|[k2 m3] l IH]; intros m E; cbn [plookup] in E; [discriminate|].
  cbn [map fst]. destruct (plookup k l) as [m4|] eqn:E2.
  - right. apply (IH m4). reflexivity.
  - destruct (ThriftBin.bytes_eqb k k2) eqn:E3; [|discriminate].
    apply bytes_eqb_eq in E3. subst. left. reflexivity.
Qed.

Lemma plookup_nodup l : NoDup (map fst l) -> forall k m, In (k, m) l -> plookup k l = Some m.
Proof.
  induction l as [|[k' m'] l IH]; intros Hnd k m Hin; [destruct Hin|].
  inversion Hnd as [|x y Hnotin Hnd' Heq]; subst. cbn [plookup].
  destruct Hin as [Heq|Hin].
  - injection Heq as -> ->.
    destruct (plookup k l) as [m2|] eqn:E.
    + exfalso. apply Hnotin. apply (plookup_some_in k l m2 E).
    + rewrite bytes_eqb_refl. reflexivity.
  - rewrite (IH Hnd' k m Hin). reflexivity.
Qed.

Theorem inherited_served fuel ss s go m :
  NoDup (map fst (proc_entries fuel ss s)) ->
  client_resolve fuel ss s go = Some m ->
  plookup (m_wire m) (proc_entries fuel ss s) = Some m.
Proof.
  intros Hnd Hc. apply plookup_nodup; [assumption|]. apply (client_resolve_in fuel ss s go m Hc).
Qed.

(** a call through the generated client of a service, own method or inherited, against the
    generated processor of the same service *)
Corollary service_call_faithful fuel_s ss s go e h registry m hdrs opid args :
  NoDup (map fst (proc_entries fuel_s ss s)) ->
  client_resolve fuel_s ss s go = Some m ->
  m_oneway m = false ->
  header_size hdrs < 2147483648 -> Headers.lookup opid_header hdrs = Some opid ->
  header_size (response_headers (to_map hdrs) opid) < 2147483648 ->
  zlen (m_wire m) < 2147483648 ->
  gwf e (TRef (m_args m)) (VStruct args) ->
  outcome_ok e m (h (m_wire m) args) ->
  (registry = true ->
   (exists n, parse_uint64 opid = Some n) /\
   forall reply, respond_c cd e (response_headers (to_map hdrs) opid) m (h (m_wire m) args) = Ok (Some reply) ->
                 zlen reply < 2147483648) ->
  exists fuel0, forall fuel, (fuel0 <= fuel)%nat ->
    exists reply,
      rpc_call_c cd fuel e (proc_entries fuel_s ss s) h registry m hdrs args =
      Ok (map_outcome e m (h (m_wire m) args), [(m_wire m, args)], Some reply).
Proof.
  intros Hnd Hc. apply call_faithful. apply (inherited_served fuel_s ss s go m Hnd Hc).
Qed.

End WithCodec.

(** * TBinaryProtocol satisfies the laws *)
Theorem bin_codec_ok : codec_ok bin_codec.
Proof.
  constructor; cbn [bin_codec cd_msg_enc cd_msg_dec cd_exc_enc cd_exc_dec cd_write cd_read cd_skip_struct].
  - intros nm typ seq rest Ht Hn Hs. apply msg_begin_roundtrip; [lia|assumption|assumption].
  - intros kind text rest fuel. apply appexc_roundtrip.
  - intros e t v rest. apply write_read_roundtrip.
  - intros e t args Hwf Hdepth.
    destruct (go_struct_roundtrip e t (VStruct args) Hwf) as (w & Htw & Hwwt & _).
    exists (wenc e t w), (wsize w). split; [unfold gwrite; rewrite Htw; reflexivity|].
    intros fuel Hf. unfold skip_default. rewrite <- (app_nil_r (wenc e t w)).
    replace 12 with (wtype e t).
    + apply skip_wenc; [assumption|lia|apply Hdepth; assumption].
    + inversion Hwf; subst. unfold wtype.
      match goal with H : shape_of _ _ = SStruct _ _ |- _ => rewrite H end. reflexivity.
Qed.

(** * TCompactProtocol: message header, TApplicationException, and the laws *)

Local Notation P32 := 4294967296.
Local Notation P64 := 18446744073709551616.

Lemma c_varint32_any pb n rest : in_range 4 n ->
  c_varint32 (pb, varint32 n ++ rest) = Ok (n, (pb, rest)).
Proof.
  intros H. apply (proj1 (in_range_4 _)) in H.
  unfold c_varint32, varint32.
  assert (Hm : 0 <= n mod P32 < P32) by (apply Z.mod_pos_bound; lia).
  rewrite c_varint64_ok by lia. cbn [bind].
  rewrite Z.mod_mod by lia.
  unfold signed. change (256 ^ Z.of_nat 4) with P32. change (P32 / 2) with 2147483648.
  destruct (Z_lt_le_dec n 0) as [Hneg|Hpos].
  - assert (Hn : n mod P32 = n + P32) by (symmetry; apply Z.mod_unique with (q := -1); lia).
    rewrite Hn. destruct (n + P32 <? 2147483648) eqn:E; [apply Z.ltb_lt in E; lia|].
    do 2 f_equal. lia.
  - rewrite Z.mod_small by lia.
    destruct (n <? 2147483648) eqn:E; [reflexivity|apply Z.ltb_ge in E; lia].
Qed.

Lemma cmsg_begin_roundtrip nm typ seq rest :
  0 <= typ < 8 -> zlen nm < 2147483648 -> in_range 4 seq ->
  cmsg_begin_dec (cmsg_begin_enc nm typ seq ++ rest) = Ok (nm, typ, seq, rest).
Proof.
  intros Ht Hn Hs. unfold cmsg_begin_dec, cmsg_begin_enc.
  rewrite (Z.mod_small typ 8) by lia.
  cbn [app c_byte snd fst bind]. cbn [Z.eqb Pos.eqb negb].
  replace ((1 + 32 * typ) mod 32) with 1 by lia. cbn [Z.eqb Pos.eqb negb].
  rewrite <- !app_assoc. rewrite c_varint32_any by assumption. cbn [bind].
  rewrite c_blob_ok by assumption. cbn [bind snd].
  replace ((1 + 32 * typ) / 32 mod 8) with typ by lia. reflexivity.
Qed.

Lemma in_range_2_lit z : -32768 <= z < 32768 -> in_range 2 z.
Proof. intros H. apply in_range_2. exact H. Qed.

Lemma cappexc_enc_nonempty kind msg : msg <> [] ->
  cappexc_enc kind msg =
  (cfield_hdr 0 1 8 ++ varint32 (zlen msg) ++ msg) ++ cfield_hdr 1 2 5 ++ varint32 (zigzag32 kind) ++ [0].
Proof. intros H. destruct msg; [contradiction|reflexivity]. Qed.

Lemma cappexc_roundtrip kind text rest fuel :
  (3 <= fuel)%nat -> zlen text < 2147483648 -> in_range 4 kind ->
  cappexc_dec fuel (cappexc_enc kind text ++ rest) = Ok (text, kind, rest).
Proof.
  intros Hf Ht Hk. unfold cappexc_dec.
  destruct fuel as [|[|[|f]]]; try lia.
  assert (Htail : forall last msg0 k0 g, last = 0 \/ last = 1 ->
             cappexc_dec_from (S (S g)) last (None, (cfield_hdr last 2 5 ++ varint32 (zigzag32 kind) ++ [0]) ++ rest) msg0 k0
             = Ok (msg0, kind, (None, rest))).
  { intros last msg0 k0 g Hl. cbn [cappexc_dec_from].
    rewrite <- !app_assoc.
    rewrite (c_field_hdr_ok None last 2 5 8); [|destruct Hl; subst; apply in_range_2_lit; lia|apply in_range_2_lit; lia|lia|reflexivity].
    cbn [bind]. change ((5 =? 1) || (5 =? 2)) with false. cbv iota.
    change (8 =? 0) with false. cbv iota.
    change ((2 =? 1) && (8 =? 11)) with false. change ((2 =? 2) && (8 =? 8)) with true. cbv iota.
    rewrite c_i32_ok by assumption. cbn [bind].
    change ([0] ++ rest) with (0 :: rest). unfold c_field_hdr at 1. unfold c_byte. cbn [snd fst bind].
    change (0 mod 16 =? 0) with true. cbv iota. reflexivity. }
  destruct text as [|c text].
  - unfold cappexc_enc. cbn [app]. pose proof (Htail 0 [] 0 (S f) (or_introl eq_refl)) as H0.
    match goal with |- bind ?X _ = _ => replace X with (Ok (@nil Z, kind, (@None bool, rest))) by (symmetry; exact H0) end.
    reflexivity.
  - fold (cappexc_enc kind (c :: text)).
    rewrite (cappexc_enc_nonempty kind (c :: text)) by discriminate.
    set (msg := c :: text) in *.
    cbn [cappexc_dec_from]. rewrite <- !app_assoc.
    rewrite (c_field_hdr_ok None 0 1 8 11); [|apply in_range_2_lit; lia|apply in_range_2_lit; lia|lia|reflexivity].
    cbn [bind]. change ((8 =? 1) || (8 =? 2)) with false. cbv iota.
    change (11 =? 0) with false. cbv iota.
    change ((1 =? 1) && (11 =? 11)) with true. cbv iota.
    rewrite c_blob_ok by assumption. cbn [bind].
    pose proof (Htail 1 msg 0 f (or_intror eq_refl)) as H1. rewrite <- !app_assoc in H1.
    match goal with |- bind ?X _ = _ => replace X with (Ok (msg, kind, (@None bool, rest))) by (symmetry; exact H1) end.
    reflexivity.
Qed.

Theorem compact_codec_ok : codec_ok compact_codec.
Proof.
  constructor; cbn [compact_codec cd_msg_enc cd_msg_dec cd_exc_enc cd_exc_dec cd_write cd_read cd_skip_struct].
  - exact cmsg_begin_roundtrip.
  - exact cappexc_roundtrip.
  - intros e t v rest. apply compact_write_read_roundtrip.
  - intros e t args Hwf Hdepth.
    destruct (go_struct_roundtrip e t (VStruct args) Hwf) as (w & Htw & Hwwt & _).
    exists (cenc e t w), (wsize w). split; [unfold gcwrite; rewrite Htw; reflexivity|].
    intros fuel Hf. unfold cskip_default. rewrite <- (app_nil_r (cenc e t w)).
    replace 12 with (wtype e t).
    + rewrite compact_skip_exact; [reflexivity|assumption|lia|apply Hdepth; assumption].
    + inversion Hwf; subst. unfold wtype.
      match goal with H : shape_of _ _ = SStruct _ _ |- _ => rewrite H end. reflexivity.
Qed.
