(** Lemmas about the parser model (C10). *)
From Coq Require Import ZArith List Bool String Lia.
From FV Require Import Model.PegSyntax Model.Peg Model.PegWf Model.ParserStrings Model.ParserAst Model.ParserActions
     Model.Parser Model.ParserFiles Gen.Grammar Proofs.PegProofs.
Import ListNotations.
Open Scope Z_scope.

(** ** Enum numbering *)

(** Apache Thrift, t_enum::resolve_values: an explicit value is kept; a value without one is the
    previous value plus one; the first implicit value is 0.  [prev] is the previous value. *)
Fixpoint thrift_numbering (vs : list (option Z)) (prev : Z) : list Z :=
  match vs with
  | [] => []
  | Some x :: t => x :: thrift_numbering t x
  | None :: t => (prev + 1) :: thrift_numbering t (prev + 1)
  end.

Definition declared_value (p : enum_value * bool) : option Z :=
  if snd p then Some (ev_value (fst p)) else None.

(** [wrap_int64] is the identity on the 64-bit range *)
Lemma wrap_int64_id : forall x, - 9223372036854775808 <= x <= 9223372036854775807 -> wrap_int64 x = x.
Proof.
  intros x Hx. unfold wrap_int64.
  rewrite Z.mod_small by lia. lia.
Qed.

(** no step of the numbering leaves the range in which Go's [int] addition is exact: every number
    Apache Thrift assigns is a 64-bit integer below the largest one *)
Definition numbering_in_range (vs : list (option Z)) (prev : Z) : Prop :=
  Forall (fun v => - 9223372036854775808 <= v < 9223372036854775807) (thrift_numbering vs prev).

Lemma enum_number_spec : forall evs next,
  numbering_in_range (map declared_value evs) (next - 1) ->
  map ev_value (enum_number evs next) = thrift_numbering (map declared_value evs) (next - 1).
Proof.
  induction evs as [|[ev ex] t IH]; intros next Hr; cbn [enum_number map thrift_numbering declared_value fst snd] in *.
  - reflexivity.
  - unfold numbering_in_range in Hr. destruct ex; cbn [map ev_value thrift_numbering] in *.
    + inversion Hr as [|? ? Hv Hrest]; subst. rewrite (wrap_int64_id (ev_value ev + 1)) by lia.
      rewrite IH; replace (ev_value ev + 1 - 1) with (ev_value ev) by lia; [reflexivity | exact Hrest].
    + inversion Hr as [|? ? Hv Hrest]; subst. replace (next - 1 + 1) with next in * by lia.
      rewrite (wrap_int64_id (next + 1)) by lia.
      rewrite IH; replace (next + 1 - 1) with next by lia; [reflexivity | exact Hrest].
Qed.

Lemma enum_number_keeps : forall evs next,
  map ev_name (enum_number evs next) = map (fun p => ev_name (fst p)) evs
  /\ map ev_comment (enum_number evs next) = map (fun p => ev_comment (fst p)) evs
  /\ map ev_anns (enum_number evs next) = map (fun p => ev_anns (fst p)) evs.
Proof.
  induction evs as [|[ev ex] t IH]; intros next; cbn [enum_number map fst].
  - repeat split.
  - destruct (IH (wrap_int64 ((if ex then ev_value ev else next) + 1))) as (H1 & H2 & H3).
    cbn [ev_name ev_comment ev_anns]. rewrite H1, H2, H3. repeat split.
Qed.

Lemma enum_numbering_full : forall evs,
  numbering_in_range (map declared_value evs) (-1) ->
  map ev_value (enum_number evs 0) = thrift_numbering (map declared_value evs) (-1)
  /\ map ev_name (enum_number evs 0) = map (fun p => ev_name (fst p)) evs
  /\ map ev_comment (enum_number evs 0) = map (fun p => ev_comment (fst p)) evs
  /\ map ev_anns (enum_number evs 0) = map (fun p => ev_anns (fst p)) evs.
Proof.
  intros evs Hr. split; [exact (enum_number_spec evs 0 Hr) | exact (enum_number_keeps evs 0)].
Qed.

(** names, comments and annotations are kept whatever the numbers *)
Lemma enum_numbering_keeps_full : forall evs,
  map ev_name (enum_number evs 0) = map (fun p => ev_name (fst p)) evs
  /\ map ev_comment (enum_number evs 0) = map (fun p => ev_comment (fst p)) evs
  /\ map ev_anns (enum_number evs 0) = map (fun p => ev_anns (fst p)) evs.
Proof. intros evs. exact (enum_number_keeps evs 0). Qed.

(** *** the whole 64-bit range (after the repair of C10-F22)
    The Enum action returns an error exactly when Apache Thrift's numbering leaves the 64-bit range
    (an implicit value after 9223372036854775807), and otherwise assigns exactly Thrift's numbers. *)
Definition in64 (z : Z) : Prop := - 9223372036854775808 <= z <= 9223372036854775807.
Definition explicit_in64 (evs : list (enum_value * bool)) : Prop :=
  Forall (fun p => snd p = true -> in64 (ev_value (fst p))) evs.

Lemma wrap_int64_max : wrap_int64 (9223372036854775807 + 1) = - 9223372036854775808.
Proof. reflexivity. Qed.

(** the state of the Go loop after a value [prev]: next = prev + 1 (wrapped), overflow = next < prev *)
Lemma enum_loop_exact : forall evs prev,
  in64 prev -> explicit_in64 evs ->
  (Forall in64 (thrift_numbering (map declared_value evs) prev) ->
     enum_overflow evs (wrap_int64 (prev + 1)) (wrap_int64 (prev + 1) <? prev) = None
     /\ map ev_value (enum_number evs (wrap_int64 (prev + 1))) = thrift_numbering (map declared_value evs) prev)
  /\ (~ Forall in64 (thrift_numbering (map declared_value evs) prev) ->
      exists v, enum_overflow evs (wrap_int64 (prev + 1)) (wrap_int64 (prev + 1) <? prev) = Some v).
Proof.
  induction evs as [|[ev ex] t IH]; intros prev Hp He.
  - cbn. split; [intros _; split; reflexivity | intros Hn; exfalso; apply Hn; constructor].
  - inversion He as [|? ? Hev Het]; subst. cbn [fst snd] in Hev.
    cbn [enum_overflow enum_number map thrift_numbering declared_value fst snd]. destruct ex.
    + specialize (Hev eq_refl). cbn [negb andb map ev_value thrift_numbering].
      destruct (IH (ev_value ev) Hev Het) as [IH1 IH2]. split.
      * intros Hf. inversion Hf as [|? ? _ Hrest]; subst. destruct (IH1 Hrest) as [Ho Hv].
        split; [exact Ho | rewrite Hv; reflexivity].
      * intros Hn. apply IH2. intros Hrest. apply Hn. constructor; [exact Hev | exact Hrest].
    + cbn [negb andb map ev_value thrift_numbering].
      destruct (Z.eq_dec prev 9223372036854775807) as [Hmax|Hne].
      * subst prev. rewrite wrap_int64_max. change (-9223372036854775808 <? 9223372036854775807) with true.
        split.
        -- intros Hf. inversion Hf as [|? ? Hbad _]; subst. unfold in64 in Hbad. lia.
        -- intros _. eexists. reflexivity.
      * assert (Hp' : in64 (prev + 1)) by (unfold in64 in *; lia).
        rewrite (wrap_int64_id (prev + 1)) by (unfold in64 in *; lia).
        assert (Hlt : (prev + 1 <? prev) = false) by (apply Z.ltb_ge; lia). rewrite Hlt.
        destruct (IH (prev + 1) Hp' Het) as [IH1 IH2]. split.
        -- intros Hf. inversion Hf as [|? ? _ Hrest]; subst. destruct (IH1 Hrest) as [Ho Hv].
           split; [exact Ho | rewrite Hv; reflexivity].
        -- intros Hn. apply IH2. intros Hrest. apply Hn. constructor; [exact Hp' | exact Hrest].
Qed.

Lemma enum_numbering_exact : forall evs,
  explicit_in64 evs ->
  (Forall in64 (thrift_numbering (map declared_value evs) (-1)) ->
     enum_overflow evs 0 false = None
     /\ map ev_value (enum_number evs 0) = thrift_numbering (map declared_value evs) (-1))
  /\ (~ Forall in64 (thrift_numbering (map declared_value evs) (-1)) ->
      exists v, enum_overflow evs 0 false = Some v).
Proof.
  intros evs He. assert (Hp : in64 (-1)) by (unfold in64; lia).
  exact (enum_loop_exact evs (-1) Hp He).
Qed.

(** the former witness: after  A = 9223372036854775807  a value without a number is an error (it was
    numbered -9223372036854775808), as Thrift's previous + 1 = 9223372036854775808 is no 64-bit value *)
Lemma enum_numbering_overflow : forall ev1 ev2,
  enum_overflow [(mkev None ev1 9223372036854775807 [], true); (mkev None ev2 (-1) [], false)] 0 false = Some ev2
  /\ thrift_numbering [Some 9223372036854775807; None] (-1) = [9223372036854775807; 9223372036854775808].
Proof. intros. split; reflexivity. Qed.

(** ** The generated grammar is what the translator says it read, and the model knows every
    action and rule it mentions *)
Lemma grammar_selfcheck :
  rules_size grammar_rules = grammar_node_count
  /\ Z.of_nat (List.length grammar_rules) = grammar_rule_count
  /\ compiled_grammar = Some rules
  /\ List.length rules = List.length grammar_rules.
Proof. vm_compute. repeat split; reflexivity. Qed.

(** ** Well-formedness of the generated grammar and termination of the parser model *)
Lemma grammar_check_wf : check_wf rules nullable_tbl rank_tbl = true.
Proof. vm_compute. reflexivity. Qed.

Lemma depth_unit_small : (depth_unit rules rank_tbl <=? 4000)%nat = true.
Proof. vm_compute. reflexivity. Qed.

Lemma parser_never_out_of_fuel : forall input : bytes, parse_text input <> PFuel.
Proof.
  intros input. unfold parse_text, parse_with, p_parse.
  apply (wf_parse_total action val aerr VNil VBytes VList run_action rules nullable_tbl rank_tbl grammar_check_wf).
  pose proof depth_unit_small as Hd. apply Nat.leb_le in Hd.
  unfold fuel_for, depth_per_byte.
  assert (Z.to_nat ((Z.of_nat (List.length input) + 1) * 4000) = (S (List.length input) * 4000)%nat) as -> by lia.
  nia.
Qed.

Lemma grammar_wf_and_total :
  check_wf rules nullable_tbl rank_tbl = true /\ forall input : bytes, parse_idl input <> PNoFuel.
Proof.
  split; [exact grammar_check_wf|].
  intros input. unfold parse_idl. pose proof (parser_never_out_of_fuel input) as H.
  destruct (parse_text input) as [[v|es]|]; cbn; [destruct v; discriminate | discriminate | congruence].
Qed.

(** ** Instances: Thrift-valid texts that the pinned grammar rejected or misread (repaired defects
    C10-F8a..e, F17..F20) and what the model of the repaired grammar returns for them; and one that is
    still rejected (C10-F16) *)
Definition idl (s : string) : bytes := app (bytes_of_string s) [10].
Definition cat (l : list bytes) : bytes := List.concat l.
Definition tname (t : ptype) : bytes := match t with PType n _ _ _ => n end.
Definition is_rejected (o : parse_outcome) : bool := match o with PErr _ => true | _ => false end.

Open Scope string_scope.

Lemma w_basetype_prefix :
  (exists f, parse_idl (idl "typedef i32x T") = POk f
             /\ map (fun t => tname (td_type t)) (fr_typedefs f) = [bytes_of_string "i32x"])
  /\ (exists f, parse_idl (idl "struct S { 1: stringList names }") = POk f
                /\ map (fun s => map (fun fl => tname (f_type fl)) (s_fields s)) (fr_structs f)
                   = [[bytes_of_string "stringList"]])
  /\ (exists f, parse_idl (idl "service S { binary_data get() }") = POk f
                /\ map (fun s => map (fun m => option_map tname (m_return m)) (sv_methods s)) (fr_services f)
                   = [[Some (bytes_of_string "binary_data")]]).
Proof. repeat split; eexists; vm_compute; split; reflexivity. Qed.

Lemma w_modifier_prefix :
  exists f, parse_idl (idl "struct S { 1: optionalThing x, 2: optional Thing y }") = POk f
            /\ map (fun s => map (fun fl => (f_mod fl, tname (f_type fl))) (s_fields s)) (fr_structs f)
               = [[(m_default, bytes_of_string "optionalThing"); (m_optional, bytes_of_string "Thing")]].
Proof. eexists. vm_compute. split; reflexivity. Qed.

Lemma w_oneway_prefix :
  exists f, parse_idl (idl "service S { onewayTicket get(), oneway void put() }") = POk f
            /\ map (fun s => map (fun m => (m_oneway m, option_map tname (m_return m))) (sv_methods s)) (fr_services f)
               = [[(false, Some (bytes_of_string "onewayTicket")); (true, None)]].
Proof. eexists. vm_compute. split; reflexivity. Qed.

Lemma w_void_prefix :
  exists f, parse_idl (idl "service S { voidable get(), void put() }") = POk f
            /\ map (fun s => map (fun m => option_map tname (m_return m)) (sv_methods s)) (fr_services f)
               = [[Some (bytes_of_string "voidable"); None]].
Proof. eexists. vm_compute. split; reflexivity. Qed.

Lemma w_bool_prefix :
  (exists f, parse_idl (idl "const bool y = trueValue") = POk f
             /\ map c_value (fr_constants f) = [CIdent (bytes_of_string "trueValue")])
  /\ exists f, parse_idl (idl "const list<bool> y = [trueValue, true, falsey]") = POk f
               /\ map c_value (fr_constants f)
                  = [CList [CIdent (bytes_of_string "trueValue"); CBool true; CIdent (bytes_of_string "falsey")]].
Proof. split; eexists; vm_compute; split; reflexivity. Qed.

Lemma w_newline_inside_declaration :
  is_rejected (parse_idl (cat [bytes_of_string "typedef"; [10]; bytes_of_string "  i32 T"; [10]])) = true.
Proof. vm_compute. reflexivity. Qed.

Lemma w_comment_in_prefix :
  exists f, parse_idl (idl "scope S prefix /* topic */ foo.{user}.bar {}") = POk f
            /\ map (fun s => (p_string (sc_prefix s), p_vars (sc_prefix s))) (fr_scopes f)
               = [(bytes_of_string "foo.{user}.bar", [bytes_of_string "user"])].
Proof. eexists. vm_compute. split; reflexivity. Qed.

Lemma w_const_map_semicolon :
  exists f, parse_idl (idl "const map<i32,i32> m = {1:2; 3:4, 5:6 7:8;}") = POk f
            /\ map c_value (fr_constants f)
               = [CMap [(CInt 1, CInt 2); (CInt 3, CInt 4); (CInt 5, CInt 6); (CInt 7, CInt 8)]].
Proof. eexists. vm_compute. split; reflexivity. Qed.

(** "a\\" : a string literal whose value ends in a backslash; "it\'s" : an escaped apostrophe inside double
    quotes; 'say \"hi\"' : escaped double quotes inside apostrophes *)
Lemma w_literals :
  (exists f, parse_idl (cat [bytes_of_string "const string s = "; [34; 97; 92; 92; 34; 10]]) = POk f
             /\ map c_value (fr_constants f) = [CStr [97; 92]])
  /\ (exists f, parse_idl (cat [bytes_of_string "const string s = "; [34; 105; 116; 92; 39; 115; 34; 10]]) = POk f
                /\ map c_value (fr_constants f) = [CStr [105; 116; 39; 115]])
  /\ (exists f, parse_idl (cat [bytes_of_string "const string s = "; [39; 92; 34; 104; 105; 92; 34; 39; 10]]) = POk f
                /\ map c_value (fr_constants f) = [CStr [34; 104; 105; 34]]).
Proof. repeat split; eexists; vm_compute; split; reflexivity. Qed.

(** ParseFrugal: a top-level constant naming an enum member is accepted (since the repair of
    validateConstant), as the same reference is as a field default; circular typedefs are rejected *)
Definition is_ferr (r : fres) : bool := match r with FErr => true | _ => false end.
Definition is_fok (r : fres) : bool := match r with FOk _ => true | _ => false end.
Definition main_frugal : path := [bytes_of_string "main.frugal"].

Lemma w_enum_ref_constant :
  is_fok (parse_program [(main_frugal, cat [idl "enum Color { RED, GREEN }"; idl "const Color c = Color.GREEN"])] main_frugal) = true
  /\ is_fok (parse_program [(main_frugal, cat [idl "enum Color { RED, GREEN }";
                                                idl "struct S { 1: Color c = Color.GREEN }"])] main_frugal) = true
  /\ is_ferr (parse_program [(main_frugal, cat [idl "typedef B A"; idl "typedef A B"])] main_frugal) = true.
Proof. vm_compute. repeat split; reflexivity. Qed.

(** include resolution: names, relative paths, the circular-include check *)
Lemma w_includes :
  is_fok (parse_program [(main_frugal, idl "include ""sub/inc.thrift""");
                         ([bytes_of_string "sub"; bytes_of_string "inc.thrift"], idl "include ""../base.frugal""");
                         ([bytes_of_string "base.frugal"], idl "typedef i32 T")] main_frugal) = true
  /\ is_ferr (parse_program [(main_frugal, idl "include ""a.frugal""");
                             ([bytes_of_string "a.frugal"], idl "include ""main.frugal""")] main_frugal) = true.
Proof. vm_compute. split; reflexivity. Qed.

Close Scope string_scope.
