(** Lemmas about the parser model (C10). *)
From Coq Require Import ZArith List Bool String Lia.
From FV Require Import Model.PegSyntax Model.Peg Model.PegWf Model.ParserStrings Model.ParserAst Model.ParserActions
     Model.Parser Gen.Grammar Proofs.PegProofs.
Import ListNotations.
Open Scope Z_scope.

(** ** Enum numbering *)

(** Apache Thrift, t_enum::resolve_values: an explicit value is kept; a value without one is the
    previous value plus one; the first implicit value is 0.  [prev] is the previous value. *)
Fixpoint thrift_numbering (vs : list (option Z)) (prev : Z) : list Z :=
  match vs with
  | [] => []
  | Some x :: t => x :: thrift_numbering t x
  | None :: t => (prev + 1) :: thrift_numbering t (prev + 1)
  end.

Definition declared_value (p : enum_value * bool) : option Z :=
  if snd p then Some (ev_value (fst p)) else None.

Lemma enum_number_spec : forall evs next,
  map ev_value (enum_number evs next) = thrift_numbering (map declared_value evs) (next - 1).
Proof.
  induction evs as [|[ev ex] t IH]; intros next; cbn [enum_number map thrift_numbering declared_value fst snd].
  - reflexivity.
  - destruct ex; cbn [map ev_value].
    + rewrite IH. replace (ev_value ev + 1 - 1) with (ev_value ev) by lia. reflexivity.
    + rewrite IH. replace (next - 1 + 1) with next by lia.
      replace (next + 1 - 1) with next by lia. reflexivity.
Qed.

Lemma enum_number_keeps : forall evs next,
  map ev_name (enum_number evs next) = map (fun p => ev_name (fst p)) evs
  /\ map ev_comment (enum_number evs next) = map (fun p => ev_comment (fst p)) evs
  /\ map ev_anns (enum_number evs next) = map (fun p => ev_anns (fst p)) evs.
Proof.
  induction evs as [|[ev ex] t IH]; intros next; cbn [enum_number map fst].
  - repeat split.
  - destruct (IH ((if ex then ev_value ev else next) + 1)) as (H1 & H2 & H3).
    cbn [ev_name ev_comment ev_anns]. rewrite H1, H2, H3. repeat split.
Qed.

Lemma enum_numbering_full : forall evs,
  map ev_value (enum_number evs 0) = thrift_numbering (map declared_value evs) (-1)
  /\ map ev_name (enum_number evs 0) = map (fun p => ev_name (fst p)) evs
  /\ map ev_comment (enum_number evs 0) = map (fun p => ev_comment (fst p)) evs
  /\ map ev_anns (enum_number evs 0) = map (fun p => ev_anns (fst p)) evs.
Proof.
  intros evs. split; [exact (enum_number_spec evs 0) | exact (enum_number_keeps evs 0)].
Qed.

(** ** The generated grammar is what the translator says it read, and the model knows every
    action and rule it mentions *)
Lemma grammar_selfcheck :
  rules_size grammar_rules = grammar_node_count
  /\ Z.of_nat (List.length grammar_rules) = grammar_rule_count
  /\ compiled_grammar = Some rules
  /\ List.length rules = List.length grammar_rules.
Proof. vm_compute. repeat split; reflexivity. Qed.

(** ** Well-formedness of the generated grammar and termination of the parser model *)
Lemma grammar_check_wf : check_wf rules nullable_tbl rank_tbl = true.
Proof. vm_compute. reflexivity. Qed.

Lemma depth_unit_small : (depth_unit rules rank_tbl <=? 4000)%nat = true.
Proof. vm_compute. reflexivity. Qed.

Lemma parser_never_out_of_fuel : forall input : bytes, parse_text input <> PFuel.
Proof.
  intros input. unfold parse_text, parse_with, p_parse.
  apply (wf_parse_total action val aerr VNil VBytes VList run_action rules nullable_tbl rank_tbl grammar_check_wf).
  pose proof depth_unit_small as Hd. apply Nat.leb_le in Hd.
  unfold fuel_for, depth_per_byte.
  assert (Z.to_nat ((Z.of_nat (List.length input) + 1) * 4000) = (S (List.length input) * 4000)%nat) as -> by lia.
  nia.
Qed.

Lemma grammar_wf_and_total :
  check_wf rules nullable_tbl rank_tbl = true /\ forall input : bytes, parse_idl input <> PNoFuel.
Proof.
  split; [exact grammar_check_wf|].
  intros input. unfold parse_idl. pose proof (parser_never_out_of_fuel input) as H.
  destruct (parse_text input) as [[v|es]|]; cbn; [destruct v; discriminate | discriminate | congruence].
Qed.
