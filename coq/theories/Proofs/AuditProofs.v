(** Proofs relating Model/Audit.v (transcription of audit.go) to the declarative catalogue
    Proofs/AuditSpec.v. *)
From Coq Require Import ZArith List Bool Lia.
From FV Require Import Base.Bytes Model.Audit Proofs.AuditSpec.
Import ListNotations.
Open Scope Z_scope.

(** * Basics *)
Lemma beqb_true_iff a b : beqb a b = true <-> a = b.
Proof.
  revert b; induction a as [|x a IH]; intros [|y b]; cbn [beqb]; split; intro H; try discriminate; auto.
  - apply andb_true_iff in H as [H1 H2]. apply Z.eqb_eq in H1. apply IH in H2. congruence.
  - inversion H; subst. apply andb_true_iff; split; [apply Z.eqb_refl | apply IH; reflexivity].
Qed.
Lemma beqb_refl a : beqb a a = true.
Proof. apply beqb_true_iff; reflexivity. Qed.
Lemma beqb_false_iff a b : beqb a b = false <-> a <> b.
Proof.
  split; intro H.
  - intro E. apply beqb_true_iff in E. congruence.
  - destruct (beqb a b) eqn:E; auto. apply beqb_true_iff in E. contradiction.
Qed.
Lemma zeqb_true_iff (a b : Z) : (a =? b) = true <-> a = b.
Proof. apply Z.eqb_eq. Qed.

Lemma has_error_app a b : has_error (a ++ b) = has_error a || has_error b.
Proof. apply existsb_app. Qed.
Lemma converged_app a b : converged (a ++ b) = converged a && converged b.
Proof. apply forallb_app. Qed.
Lemma has_error_flat_map {A} (f : A -> list diag) l :
  has_error (flat_map f l) = true <-> exists x, In x l /\ has_error (f x) = true.
Proof.
  induction l as [|y l IH]; cbn [flat_map].
  - split; [discriminate | intros (x & [] & _)].
  - rewrite has_error_app, orb_true_iff, IH. split.
    + intros [H | (x & Hx & H)]; [exists y | exists x]; split; auto; [left | right]; auto.
    + intros (x & [-> | Hx] & H); [left | right]; eauto.
Qed.
Lemma converged_flat_map {A} (f : A -> list diag) l :
  converged (flat_map f l) = true <-> forall x, In x l -> converged (f x) = true.
Proof.
  induction l as [|y l IH]; cbn [flat_map].
  - split; [intros _ x [] | reflexivity].
  - rewrite converged_app, andb_true_iff, IH. split.
    + intros [H1 H2] x [-> | Hx]; auto.
    + intros H; split; [apply H; left; reflexivity | intros x Hx; apply H; right; exact Hx].
Qed.

(** * Keyed lookups against [Denotes] / [Absent] *)
Section KeyedProofs.
  Context {A K : Type} (keqb : K -> K -> bool) (key : A -> K).
  Hypothesis keqb_spec : forall a b, keqb a b = true <-> a = b.

  Lemma keqb_false a b : keqb a b = false <-> a <> b.
  Proof.
    split; intro H.
    - intro E. apply keqb_spec in E. congruence.
    - destruct (keqb a b) eqn:E; auto. apply keqb_spec in E. contradiction.
  Qed.

  Lemma lookup_last_None l k : lookup_last keqb key l k = None <-> Absent key l k.
  Proof.
    unfold Absent. induction l as [|x l IH]; cbn [lookup_last].
    - split; auto.
    - destruct (lookup_last keqb key l k) eqn:E.
      + split; [discriminate|]. intro H. inversion H; subst. apply IH in H3. discriminate.
      + destruct (keqb (key x) k) eqn:Ek.
        * split; [discriminate|]. intro H. inversion H; subst. apply keqb_spec in Ek. contradiction.
        * split; auto. intros _. constructor; [apply keqb_false; exact Ek | apply IH; reflexivity].
  Qed.

  Lemma lookup_last_Some l k x : lookup_last keqb key l k = Some x <-> Denotes key l k x.
  Proof.
    unfold Denotes. revert x. induction l as [|y l IH]; intro x; cbn [lookup_last].
    - split; [discriminate|]. intros (l1 & l2 & H & _). destruct l1; discriminate.
    - destruct (lookup_last keqb key l k) as [z|] eqn:E.
      + split.
        * intro H; inversion H; subst. destruct (proj1 (IH x) eq_refl) as (l1 & l2 & -> & Hk & Hf).
          exists (y :: l1), l2. auto.
        * intros (l1 & l2 & H & Hk & Hf). destruct l1 as [|y' l1]; cbn in H; inversion H; subst.
          -- apply lookup_last_None in Hf. congruence.
          -- apply (proj2 (IH x)). exists l1, l2. auto.
      + destruct (keqb (key y) k) eqn:Ek.
        * split.
          -- intro H; inversion H; subst. exists [], l. split; [reflexivity|]. split; [apply keqb_spec; exact Ek|].
             apply lookup_last_None. exact E.
          -- intros (l1 & l2 & H & Hk & Hf). destruct l1 as [|y' l1]; cbn in H; inversion H; subst; auto.
             apply lookup_last_None in E. unfold Absent in E. rewrite Forall_app in E. destruct E as [_ E].
             inversion E; subst. contradiction.
        * split; [discriminate|]. intros (l1 & l2 & H & Hk & Hf).
          destruct l1 as [|y' l1]; cbn in H; inversion H; subst.
          -- apply keqb_false in Ek. contradiction.
          -- apply lookup_last_None in E. unfold Absent in E. rewrite Forall_app in E. destruct E as [_ E].
             inversion E; subst. contradiction.
  Qed.

  Lemma existsb_key_false l k : existsb (fun y => keqb (key y) k) l = false <-> Absent key l k.
  Proof.
    unfold Absent. induction l as [|y l IH]; cbn [existsb].
    - split; auto.
    - rewrite orb_false_iff, IH, keqb_false. split.
      + intros [H1 H2]; constructor; auto.
      + intro H; inversion H; auto.
  Qed.

  Lemma In_dedup_last l x : In x (dedup_last keqb key l) <-> Denotes key l (key x) x.
  Proof.
    unfold Denotes. induction l as [|y l IH]; cbn [dedup_last].
    - split; [intros [] | intros (l1 & l2 & H & _); destruct l1; discriminate].
    - destruct (existsb (fun z => keqb (key z) (key y)) l) eqn:E.
      + rewrite IH. split.
        * intros (l1 & l2 & -> & Hk & Hf). exists (y :: l1), l2. auto.
        * intros (l1 & l2 & H & Hk & Hf). destruct l1 as [|y' l1]; cbn in H; inversion H; subst.
          -- apply existsb_key_false in Hf. congruence.
          -- exists l1, l2. auto.
      + cbn [In]. rewrite IH. split.
        * intros [-> | (l1 & l2 & -> & Hk & Hf)].
          -- exists [], l. split; [reflexivity|]. split; [reflexivity|]. apply existsb_key_false. exact E.
          -- exists (y :: l1), l2. auto.
        * intros (l1 & l2 & H & Hk & Hf). destruct l1 as [|y' l1]; cbn in H; inversion H; subst; auto.
          right. exists l1, l2. auto.
  Qed.

  Lemma Denotes_In l k x : Denotes key l k x -> In x l.
  Proof. intros (l1 & l2 & -> & _). apply in_or_app. right. left. reflexivity. Qed.

  Lemma Denotes_fun l k x y : Denotes key l k x -> Denotes key l k y -> x = y.
  Proof. intros H1 H2. apply lookup_last_Some in H1, H2. congruence. Qed.

  Lemma Denotes_or_Absent l k : (exists x, Denotes key l k x) \/ Absent key l k.
  Proof.
    destruct (lookup_last keqb key l k) eqn:E.
    - left. eexists. apply lookup_last_Some. exact E.
    - right. apply lookup_last_None. exact E.
  Qed.

  Lemma Denotes_not_Absent l k x : Denotes key l k x -> Absent key l k -> False.
  Proof. intros H1 H2. apply lookup_last_Some in H1. apply lookup_last_None in H2. congruence. Qed.

  (** the shape of every "for old in olds { if new, ok := newMap[key old] ... }" loop *)
  Lemma keyed_loop_error (olds news : list A) (found : A -> A -> list diag) (missing : A -> list diag) :
    has_error (flat_map (fun o => match lookup_last keqb key news (key o) with
                                  | Some n => found o n | None => missing o end) olds) = true
    <-> exists o, In o olds /\
          ((exists n, Denotes key news (key o) n /\ has_error (found o n) = true)
           \/ (Absent key news (key o) /\ has_error (missing o) = true)).
  Proof.
    rewrite has_error_flat_map. split; intros (o & Ho & H); exists o; split; auto.
    - destruct (lookup_last keqb key news (key o)) as [n|] eqn:E.
      + left. exists n. split; auto. apply lookup_last_Some; exact E.
      + right. split; auto. apply lookup_last_None; exact E.
    - destruct H as [(n & Hn & H) | (Ha & H)].
      + apply lookup_last_Some in Hn. rewrite Hn. exact H.
      + apply lookup_last_None in Ha. rewrite Ha. exact H.
  Qed.

  Lemma keyed_loop_converged (olds news : list A) (found : A -> A -> list diag) (missing : A -> list diag) :
    converged (flat_map (fun o => match lookup_last keqb key news (key o) with
                                  | Some n => found o n | None => missing o end) olds) = true
    <-> forall o, In o olds ->
          (forall n, Denotes key news (key o) n -> converged (found o n) = true)
          /\ (Absent key news (key o) -> converged (missing o) = true).
  Proof.
    rewrite converged_flat_map. split; intros H o Ho; specialize (H o Ho).
    - split.
      + intros n Hn. apply lookup_last_Some in Hn. rewrite Hn in H. exact H.
      + intros Ha. apply lookup_last_None in Ha. rewrite Ha in H. exact H.
    - destruct H as [H1 H2]. destruct (lookup_last keqb key news (key o)) as [n|] eqn:E.
      + apply H1. apply lookup_last_Some; exact E.
      + apply H2. apply lookup_last_None; exact E.
  Qed.
End KeyedProofs.

(** * Types *)
Lemma typedef_step_spec P sc n d body :
  typedef_step P sc n = Some (d, body) <-> TypedefOf P sc n d body.
Proof.
  unfold typedef_step, declaring. split.
  - destruct (include_name n) as [|c inc] eqn:Ei; cbn [is_empty].
    + destruct (get_file P sc) as [f|] eqn:Ef; [|discriminate].
      destruct (lookup_last beqb fst (fl_typedefs f) (param_name n)) as [[m b]|] eqn:El; [|discriminate].
      intro H; inversion H; subst. apply (lookup_last_Some beqb fst beqb_true_iff) in El.
      assert (m = param_name n) by (destruct El as (? & ? & _ & Hk & _); exact Hk). subst m.
      eapply TO_local; eauto.
    + destruct (get_file P sc) as [f|] eqn:Ef; [|discriminate].
      destruct (lookup_last beqb fst (fl_includes f) (c :: inc)) as [[m i]|] eqn:El; cbn [option_map]; [|discriminate].
      cbn [snd]. destruct (get_file P i) as [g|] eqn:Eg; [|discriminate].
      destruct (lookup_last beqb fst (fl_typedefs g) (param_name n)) as [[m' b]|] eqn:El'; [|discriminate].
      intro H; inversion H; subst.
      apply (lookup_last_Some beqb fst beqb_true_iff) in El, El'.
      assert (m = c :: inc) by (destruct El as (? & ? & _ & Hk & _); exact Hk). subst m.
      assert (m' = param_name n) by (destruct El' as (? & ? & _ & Hk & _); exact Hk). subst m'.
      eapply TO_include; eauto; rewrite Ei; auto. discriminate.
  - intros [f b Hi Hf Hd | f d' g b Hi Hf Hd Hg Hd'].
    + rewrite Hi. cbn [is_empty]. rewrite Hf.
      apply (lookup_last_Some beqb fst beqb_true_iff) in Hd. rewrite Hd. reflexivity.
    + destruct (include_name n) as [|c inc] eqn:Ei; [contradiction|]. cbn [is_empty]. rewrite Hf.
      apply (lookup_last_Some beqb fst beqb_true_iff) in Hd, Hd'. rewrite Hd. cbn [option_map snd].
      rewrite Hg, Hd'. reflexivity.
Qed.

Lemma typedef_step_None P sc n :
  typedef_step P sc n = None <-> (forall d body, ~ TypedefOf P sc n d body).
Proof.
  split.
  - intros H d body HT. apply typedef_step_spec in HT. congruence.
  - intro H. destruct (typedef_step P sc n) as [[d body]|] eqn:E; auto.
    apply typedef_step_spec in E. exfalso. eapply H; eauto.
Qed.

Lemma Resolves_alias_inv P sc n k v d body r :
  typedef_step P sc n = Some (d, body) ->
  Resolves P sc (Ty n k v) r -> body <> TNil /\ Resolves P d body r.
Proof.
  intros Hs HR. inversion HR; subst.
  - match goal with H : TypedefOf _ _ _ _ _ |- _ => apply typedef_step_spec in H; rewrite H in Hs end.
    inversion Hs; subst. auto.
  - match goal with H : forall d body, ~ TypedefOf _ _ _ d body |- _ => apply typedef_step_None in H end.
    congruence.
Qed.

Lemma Resolves_base_inv P sc n k v r :
  typedef_step P sc n = None ->
  Resolves P sc (Ty n k v) r ->
  exists rk rv, r = Ty (qualified_name P sc n) rk rv /\ Resolves P sc k rk /\ Resolves P sc v rv.
Proof.
  intros Hs HR. inversion HR; subst.
  - match goal with H : TypedefOf _ _ _ _ _ |- _ => apply typedef_step_spec in H end. congruence.
  - eauto.
Qed.

(** the loop of underlyingScopedType stops at a name that is not a typedef, and the type it
    stops at has the same normal forms as the type it started from *)
Lemma underlying_spec fuel : forall P sc t sc' n' k' v',
  underlying fuel P sc t = Some (sc', Ty n' k' v') ->
  typedef_step P sc' n' = None /\ (forall r, Resolves P sc t r <-> Resolves P sc' (Ty n' k' v') r).
Proof.
  induction fuel as [|f IH]; intros P sc t sc' n' k' v' H; destruct t as [|n k v]; cbn [underlying] in H;
    try discriminate.
  - destruct (typedef_step P sc n) as [[d body]|] eqn:E; [discriminate|].
    inversion H; subst. split; [exact E | intro r; reflexivity].
  - destruct (typedef_step P sc n) as [[d body]|] eqn:E.
    + destruct (IH _ _ _ _ _ _ _ H) as [Hn Hr]. split; [exact Hn|]. intro r. rewrite <- Hr. split.
      * intro HR. eapply Resolves_alias_inv; eauto.
      * intro HR. eapply R_alias; [apply typedef_step_spec; exact E | | exact HR].
        intro Hb; subst body. destruct f; cbn in H; discriminate.
    + inversion H; subst. split; [exact E | intro r; reflexivity].
Qed.

Lemma Resolves_nil_inv P sc r : Resolves P sc TNil r -> r = TNil.
Proof. intro H; inversion H; reflexivity. Qed.

(** every diagnostic of checkScopedType is a mismatch at the requested level, or the fuel marker *)
Lemma check_type_levels fuel : forall po pn so ot sn nt warn ctx d,
  In d (check_type fuel po pn so ot sn nt warn ctx) ->
  d_level d = LAbort \/ d_level d = (if warn then LWarning else LError).
Proof.
  induction fuel as [|f IH]; intros po pn so ot sn nt warn ctx d H;
    destruct ot as [|on ok ov], nt as [|nn nk nv]; cbn [check_type] in H;
    try (destruct H as [<-|[]]; destruct warn; cbn; auto; fail); try contradiction.
  destruct (underlying f po so (Ty on ok ov)) as [[so' [|on' ok' ov']]|];
    try (destruct H as [<-|[]]; cbn; auto; fail).
  destruct (underlying f pn sn (Ty nn nk nv)) as [[sn' [|nn' nk' nv']]|];
    try (destruct H as [<-|[]]; cbn; auto; fail).
  destruct (negb (beqb (qualified_name po so' on') (qualified_name pn sn' nn'))).
  - destruct H as [<-|[]]; destruct warn; cbn; auto.
  - apply in_app_or in H as [H|H]; eapply IH; eauto.
Qed.

Lemma Resolves_nonnil P sc n k v : ~ Resolves P sc (Ty n k v) TNil.
Proof.
  intro H. remember (Ty n k v) as t eqn:Et. remember TNil as r eqn:Er. revert n k v Et.
  induction H; intros; try discriminate. destruct body; [contradiction|]. eapply IHResolves; eauto.
Qed.

Section TypeProofs.
  Variables po pn : program.

  Definition Common (so : nat) (ot : ty) (sn : nat) (nt : ty) : Prop :=
    exists r, Resolves po so ot r /\ Resolves pn sn nt r.

  Lemma check_type_sound fuel : forall so ot sn nt warn ctx,
    check_type fuel po pn so ot sn nt warn ctx = [] -> Common so ot sn nt.
  Proof.
    induction fuel as [|f IH]; intros so ot sn nt warn ctx H;
      destruct ot as [|on ok ov], nt as [|nn nk nv]; cbn [check_type] in H; try discriminate;
      try (exists TNil; split; constructor; fail).
    destruct (underlying f po so (Ty on ok ov)) as [[so' [|on' ok' ov']]|] eqn:Eo; try discriminate.
    destruct (underlying f pn sn (Ty nn nk nv)) as [[sn' [|nn' nk' nv']]|] eqn:En; try discriminate.
    destruct (beqb (qualified_name po so' on') (qualified_name pn sn' nn')) eqn:Eq; cbn [negb] in H;
      [|discriminate].
    apply app_eq_nil in H as [Hk Hv].
    apply IH in Hk as (rk & Hk1 & Hk2). apply IH in Hv as (rv & Hv1 & Hv2).
    apply underlying_spec in Eo as [Eo1 Eo2]. apply underlying_spec in En as [En1 En2].
    apply beqb_true_iff in Eq.
    exists (Ty (qualified_name po so' on') rk rv). split.
    - apply Eo2. apply R_base; auto. apply typedef_step_None; exact Eo1.
    - apply En2. rewrite Eq. apply R_base; auto. apply typedef_step_None; exact En1.
  Qed.

  Lemma check_type_complete fuel : forall so ot sn nt warn ctx,
    converged (check_type fuel po pn so ot sn nt warn ctx) = true ->
    Common so ot sn nt -> check_type fuel po pn so ot sn nt warn ctx = [].
  Proof.
    induction fuel as [|f IH]; intros so ot sn nt warn ctx Hc (r & Ho & Hn);
      destruct ot as [|on ok ov], nt as [|nn nk nv]; cbn [check_type] in *; try reflexivity;
      try (apply Resolves_nil_inv in Ho; subst r; exfalso; eapply Resolves_nonnil; eauto; fail);
      try (apply Resolves_nil_inv in Hn; subst r; exfalso; eapply Resolves_nonnil; eauto; fail).
    - cbn in Hc. discriminate.
    - destruct (underlying f po so (Ty on ok ov)) as [[so' [|on' ok' ov']]|] eqn:Eo;
        try (cbn in Hc; discriminate).
      destruct (underlying f pn sn (Ty nn nk nv)) as [[sn' [|nn' nk' nv']]|] eqn:En;
        try (cbn in Hc; discriminate).
      apply underlying_spec in Eo as [Eo1 Eo2]. apply underlying_spec in En as [En1 En2].
      apply Eo2 in Ho. apply En2 in Hn.
      apply (Resolves_base_inv _ _ _ _ _ _ Eo1) in Ho as (rk & rv & -> & Hok & Hov).
      apply (Resolves_base_inv _ _ _ _ _ _ En1) in Hn as (rk' & rv' & E & Hnk & Hnv).
      inversion E as [[E1 E2 E3]]; subst rk' rv'. rewrite E1, beqb_refl in *. cbn [negb] in *.
      rewrite converged_app in Hc. apply andb_true_iff in Hc as [Hc1 Hc2].
      rewrite (IH _ _ _ _ _ _ Hc1), (IH _ _ _ _ _ _ Hc2); [reflexivity | |]; eexists; eauto.
  Qed.

  (** checkType with warn = false logs an error iff the two types have no common normal form *)
  Lemma check_type_error fuel so ot sn nt ctx :
    converged (check_type fuel po pn so ot sn nt false ctx) = true ->
    (has_error (check_type fuel po pn so ot sn nt false ctx) = true <-> ~ Common so ot sn nt).
  Proof.
    intro Hc. split.
    - intros He HC. rewrite (check_type_complete _ _ _ _ _ _ _ Hc HC) in He. discriminate.
    - intro HC. destruct (check_type fuel po pn so ot sn nt false ctx) as [|d l] eqn:E.
      + exfalso. apply HC. eapply check_type_sound; eauto.
      + assert (Hd : In d (check_type fuel po pn so ot sn nt false ctx)) by (rewrite E; left; reflexivity).
        apply check_type_levels in Hd. cbn [has_error existsb]. unfold is_error at 1.
        destruct Hd as [Hd|Hd]; rewrite Hd.
        * cbn [converged forallb] in Hc. unfold is_abort in Hc. rewrite Hd in Hc. discriminate.
        * reflexivity.
  Qed.

  Lemma check_type_warn_no_error fuel so ot sn nt ctx :
    has_error (check_type fuel po pn so ot sn nt true ctx) = false.
  Proof.
    unfold has_error. apply not_true_is_false. intro H. apply existsb_exists in H as (d & Hd & He).
    apply check_type_levels in Hd. unfold is_error in He. destruct Hd as [Hd|Hd]; rewrite Hd in He; discriminate.
  Qed.
End TypeProofs.

(** * Scope prefixes *)
Lemma split_dot_nonempty s : split_dot s <> [].
Proof.
  destruct s as [|c r]; cbn [split_dot]; [discriminate|].
  destruct (c =? 46); [discriminate|]. destruct (split_dot r); discriminate.
Qed.

Lemma join_split s : join_dot (split_dot s) = s.
Proof.
  induction s as [|c r IH]; cbn [split_dot]; [reflexivity|].
  destruct (c =? 46) eqn:Ec.
  - apply Z.eqb_eq in Ec; subst c. destruct (split_dot r) as [|q qs] eqn:E.
    + exfalso; eapply split_dot_nonempty; eauto.
    + cbn [join_dot app]. cbn [join_dot] in IH. rewrite IH. reflexivity.
  - destruct (split_dot r) as [|p ps] eqn:E.
    + exfalso; eapply split_dot_nonempty; eauto.
    + destruct ps as [|q qs]; cbn [join_dot] in *.
      * subst; reflexivity.
      * rewrite <- IH. reflexivity.
Qed.

Lemma split_dot_single p : DotFree p -> split_dot p = [p].
Proof.
  unfold DotFree. induction p as [|c p IH]; intro H; cbn [split_dot]; [reflexivity|].
  destruct (c =? 46) eqn:Ec.
  - apply Z.eqb_eq in Ec. exfalso. apply H. left. auto.
  - rewrite IH; [reflexivity|]. intro Hi. apply H. right. exact Hi.
Qed.

Lemma split_dot_app p rest : DotFree p -> split_dot (p ++ 46 :: rest) = p :: split_dot rest.
Proof.
  unfold DotFree. induction p as [|c p IH]; intro H; cbn [split_dot app].
  - reflexivity.
  - destruct (c =? 46) eqn:Ec.
    + apply Z.eqb_eq in Ec. exfalso. apply H. left. auto.
    + rewrite IH; [reflexivity|]. intro Hi. apply H. right. exact Hi.
Qed.

Lemma split_join l : l <> [] -> Forall DotFree l -> split_dot (join_dot l) = l.
Proof.
  induction l as [|p l IH]; intros Hne Hf; [contradiction|].
  inversion Hf as [|? ? Hp Hl]; subst. destruct l as [|q qs].
  - cbn [join_dot]. apply split_dot_single; exact Hp.
  - change (join_dot (p :: q :: qs)) with (p ++ 46 :: join_dot (q :: qs)).
    rewrite split_dot_app by exact Hp. rewrite IH; [reflexivity | discriminate | exact Hl].
Qed.

Lemma split_dot_dotfree s : Forall DotFree (split_dot s).
Proof.
  unfold DotFree. induction s as [|c r IH]; cbn [split_dot].
  - constructor; [intros [] | constructor].
  - destruct (c =? 46) eqn:Ec.
    + constructor; [intros [] | exact IH].
    + destruct (split_dot r) as [|p ps]; [constructor; [|constructor]|].
      * intros [H|[]]. apply Z.eqb_neq in Ec. auto.
      * inversion IH; subst. constructor; auto. intros [H|H]; [apply Z.eqb_neq in Ec; auto | auto].
Qed.

Lemma last_cons_ne {A} (x : A) l d : l <> [] -> last (x :: l) d = last l d.
Proof. destruct l; [contradiction | reflexivity]. Qed.

Lemma is_var_spec p : is_var p = true <-> IsVar p.
Proof.
  unfold IsVar. destruct p as [|c q]; cbn [is_var].
  - split; [discriminate | intros (m & H); discriminate].
  - rewrite andb_true_iff, !Z.eqb_eq. split.
    + intros [-> Hl]. destruct q as [|y q'] eqn:Eq; [cbn in Hl; discriminate|].
      rewrite last_cons_ne in Hl by discriminate.
      exists (removelast (y :: q')). f_equal. rewrite <- Hl. apply app_removelast_last. discriminate.
    + intros (m & H). inversion H; subst. split; [reflexivity|].
      change (123 :: m ++ [125]) with ((123 :: m) ++ [125]). apply last_last.
Qed.

Definition np (p : bytes) : bytes := if is_var p then [123; 125] else p.

Lemma np_dotfree p : DotFree p -> DotFree (np p).
Proof.
  unfold np, DotFree. destruct (is_var p); auto. intros _ [H|[H|[]]]; discriminate.
Qed.

Lemma np_eq a b : np a = np b <-> PieceEquiv a b.
Proof.
  unfold np, PieceEquiv. destruct (is_var a) eqn:Ea, (is_var b) eqn:Eb.
  - split; auto. intros _. right. split; apply is_var_spec; assumption.
  - split.
    + intro H. subst b. cbn in Eb. discriminate.
    + intros [H | [_ H]]; [subst; congruence | apply is_var_spec in H; congruence].
  - split.
    + intro H. subst a. cbn in Ea. discriminate.
    + intros [H | [H _]]; [subst; congruence | apply is_var_spec in H; congruence].
  - split; auto. intros [H | [H _]]; [exact H | apply is_var_spec in H; congruence].
Qed.

Lemma map_np_eq l1 l2 : map np l1 = map np l2 <-> Forall2 PieceEquiv l1 l2.
Proof.
  revert l2; induction l1 as [|a l1 IH]; intros [|b l2]; cbn [map]; split; intro H;
    try discriminate; try constructor; try (inversion H; fail).
  - inversion H. apply np_eq; assumption.
  - inversion H. apply IH; assumption.
  - inversion H; subst. f_equal; [apply np_eq | apply IH]; assumption.
Qed.

Lemma normalize_eq a b :
  normalize_prefix a = normalize_prefix b <-> Forall2 PieceEquiv (split_dot a) (split_dot b).
Proof.
  assert (E : forall s, normalize_prefix s = join_dot (map np (split_dot s))) by reflexivity.
  rewrite !E. clear E. rewrite <- map_np_eq. split; [|intros ->; reflexivity].
  assert (S : forall s, split_dot (join_dot (map np (split_dot s))) = map np (split_dot s)).
  { intro s. apply split_join.
    - intro E. apply map_eq_nil in E. eapply split_dot_nonempty; eauto.
    - apply Forall_map. eapply Forall_impl; [|apply split_dot_dotfree]. apply np_dotfree. }
  intro H. apply (f_equal split_dot) in H. rewrite !S in H. exact H.
Qed.

Lemma PrefixEquiv_spec a b : PrefixEquiv a b <-> normalize_prefix a = normalize_prefix b.
Proof.
  rewrite normalize_eq. unfold PrefixEquiv. split.
  - intros (pa & pb & -> & -> & Ha & Hb & Hfa & Hfb & H). rewrite !split_join; auto.
  - intro H. exists (split_dot a), (split_dot b). rewrite !join_split.
    repeat split; auto using split_dot_nonempty, split_dot_dotfree.
Qed.

Lemma check_scope_prefix_error o n ctx :
  has_error (check_scope_prefix o n ctx) = true <-> ~ PrefixEquiv o n.
Proof.
  rewrite PrefixEquiv_spec. unfold check_scope_prefix.
  destruct (beqb (normalize_prefix o) (normalize_prefix n)) eqn:E; cbn.
  - apply beqb_true_iff in E. split; [discriminate | contradiction].
  - apply beqb_false_iff in E. split; auto.
Qed.

Lemma check_scope_prefix_converged o n ctx : converged (check_scope_prefix o n ctx) = true.
Proof. unfold check_scope_prefix. destruct (negb _); reflexivity. Qed.

(** * Small facts about single diagnostics *)
Lemma has_error_if_err (c : bool) r m : has_error (if c then [err r m] else []) = c.
Proof. destruct c; reflexivity. Qed.
Lemma has_error_if_warning (c : bool) r m : has_error (if c then [warning r m] else []) = false.
Proof. destruct c; reflexivity. Qed.
Lemma converged_if_err (c : bool) r m : converged (if c then [err r m] else []) = true.
Proof. destruct c; reflexivity. Qed.
Lemma converged_if_warning (c : bool) r m : converged (if c then [warning r m] else []) = true.
Proof. destruct c; reflexivity. Qed.

Lemma requiredness_differs o n :
  negb (Bool.eqb (is_required o) (is_required n)) = true
  <-> ~ (f_mod o = Required <-> f_mod n = Required).
Proof.
  unfold is_required. destruct (f_mod o), (f_mod n); cbn; split; intro H; try discriminate;
    try reflexivity; try (exfalso; apply H; split; intro; (reflexivity || discriminate)).
  - intros [H1 _]. specialize (H1 eq_refl). discriminate.
  - intros [H1 _]. specialize (H1 eq_refl). discriminate.
  - intros [_ H1]. specialize (H1 eq_refl). discriminate.
  - intros [_ H1]. specialize (H1 eq_refl). discriminate.
Qed.

Lemma not_optional o : negb (is_optional o) = true <-> f_mod o <> Optional.
Proof. unfold is_optional. destruct (f_mod o); cbn; split; intro H; try discriminate; try reflexivity; try contradiction. Qed.
Lemma required_iff n : is_required n = true <-> f_mod n = Required.
Proof. unfold is_required. destruct (f_mod n); split; intro; try discriminate; reflexivity. Qed.

(** * Fields *)
Section FieldProofs.
  Variables po pn : program.

  Lemma Common_SameType t t' : Common po pn 0 t 0 t' <-> SameType po pn t t'.
  Proof. reflexivity. Qed.

  Lemma check_fields_error fuel olds news ctx :
    converged (check_fields fuel po pn olds news ctx) = true ->
    (has_error (check_fields fuel po pn olds news ctx) = true <-> FieldsBreak po pn olds news).
  Proof.
    unfold check_fields. intro Hc. rewrite converged_app, andb_true_iff in Hc. destruct Hc as [Hc _].
    rewrite converged_flat_map in Hc.
    rewrite has_error_app, orb_true_iff, !has_error_flat_map. split.
    - intros [(o & Ho & He) | (n & Hn & He)].
      + apply (In_dedup_last Z.eqb f_id zeqb_true_iff) in Ho. specialize (Hc o (proj2 (In_dedup_last Z.eqb f_id zeqb_true_iff olds o) Ho)).
        destruct (lookup_last Z.eqb f_id news (f_id o)) as [n|] eqn:El.
        * apply (lookup_last_Some Z.eqb f_id zeqb_true_iff) in El.
          rewrite !has_error_app, has_error_if_err, !has_error_if_warning, !orb_false_r, orb_true_iff in He.
          rewrite converged_app, andb_true_iff in Hc. destruct Hc as [Hc _].
          destruct He as [He | He].
          -- eapply FB_retyped; eauto. apply (check_type_error _ _ _ _ _ _ _ _ Hc). exact He.
          -- eapply FB_requiredness; eauto. apply requiredness_differs. exact He.
        * apply (lookup_last_None Z.eqb f_id zeqb_true_iff) in El.
          rewrite has_error_if_err in He. eapply FB_removed; eauto. apply not_optional; exact He.
      + apply (In_dedup_last Z.eqb f_id zeqb_true_iff) in Hn.
        destruct (lookup_last Z.eqb f_id olds (f_id n)) as [o|] eqn:El; [discriminate|].
        apply (lookup_last_None Z.eqb f_id zeqb_true_iff) in El.
        rewrite has_error_app, has_error_if_warning, has_error_if_err in He. cbn [orb] in He.
        eapply FB_added_required; eauto. apply required_iff; exact He.
    - intros [o n Ho Hn Ht | o n Ho Hn Hr | o Ho Ha Hm | n Hn Ha Hm].
      + left. exists o. pose proof (proj2 (In_dedup_last Z.eqb f_id zeqb_true_iff olds o) Ho) as Hi.
        split; [exact Hi|]. specialize (Hc o Hi).
        apply (lookup_last_Some Z.eqb f_id zeqb_true_iff) in Hn. rewrite Hn in *.
        rewrite converged_app, andb_true_iff in Hc. destruct Hc as [Hc _].
        rewrite has_error_app. apply orb_true_iff. left.
        apply (check_type_error _ _ _ _ _ _ _ _ Hc). exact Ht.
      + left. exists o. split; [apply (In_dedup_last Z.eqb f_id zeqb_true_iff); exact Ho|].
        apply (lookup_last_Some Z.eqb f_id zeqb_true_iff) in Hn. rewrite Hn.
        rewrite !has_error_app, has_error_if_err. apply requiredness_differs in Hr. rewrite Hr.
        rewrite orb_true_r. reflexivity.
      + left. exists o. split; [apply (In_dedup_last Z.eqb f_id zeqb_true_iff); exact Ho|].
        apply (lookup_last_None Z.eqb f_id zeqb_true_iff) in Ha. rewrite Ha.
        rewrite has_error_if_err. apply not_optional; exact Hm.
      + right. exists n. split; [apply (In_dedup_last Z.eqb f_id zeqb_true_iff); exact Hn|].
        apply (lookup_last_None Z.eqb f_id zeqb_true_iff) in Ha. rewrite Ha.
        rewrite has_error_app, has_error_if_warning, has_error_if_err. apply required_iff; exact Hm.
  Qed.
End FieldProofs.

(** * Scopes, enums, structs, services *)
Lemma is_nil_iff t : is_nil t = true <-> t = TNil.
Proof. destruct t; cbn; split; intro; try discriminate; reflexivity. Qed.
Lemma is_empty_list_iff {A} (l : list A) : is_empty_list l = true <-> l = [].
Proof. destruct l; cbn; split; intro; try discriminate; reflexivity. Qed.
Lemma not_empty_list_iff {A} (l : list A) : negb (is_empty_list l) = true <-> l <> [].
Proof. destruct l; cbn; split; intro H; try discriminate; try reflexivity; try contradiction. Qed.
Lemma is_empty_iff (b : bytes) : is_empty b = true <-> b = [].
Proof. destruct b; cbn; split; intro; try discriminate; reflexivity. Qed.
Lemma bool_neq_iff (a b : bool) : negb (Bool.eqb a b) = true <-> a <> b.
Proof. destruct a, b; cbn; split; intro H; try discriminate; try reflexivity; try contradiction. Qed.

Section DeclProofs.
  Variables po pn : program.

  Notation LS := (lookup_last_Some beqb _ beqb_true_iff).
  Notation LN := (lookup_last_None beqb _ beqb_true_iff).
  Notation ZLS := (lookup_last_Some Z.eqb _ zeqb_true_iff).
  Notation ZLN := (lookup_last_None Z.eqb _ zeqb_true_iff).

  Lemma check_operations_error fuel olds news ctx :
    converged (check_operations fuel po pn olds news ctx) = true ->
    (has_error (check_operations fuel po pn olds news ctx) = true <->
     exists o, In o olds /\
       (Absent o_name news (o_name o)
        \/ exists o', Denotes o_name news (o_name o) o' /\ ~ SameType po pn (o_type o) (o_type o'))).
  Proof.
    unfold check_operations. intro Hc. rewrite converged_flat_map in Hc. rewrite has_error_flat_map.
    split; intros (o & Ho & H); exists o; (split; [exact Ho|]); specialize (Hc o Ho).
    - destruct (lookup_last beqb o_name news (o_name o)) as [n|] eqn:El.
      + apply LS in El. right. exists n. split; auto.
        apply (check_type_error _ _ _ _ _ _ _ _ Hc); exact H.
      + left. apply LN in El; exact El.
    - destruct H as [Ha | (n & Hn & Ht)].
      + apply LN in Ha. rewrite Ha. reflexivity.
      + apply LS in Hn. rewrite Hn in *. apply (check_type_error _ _ _ _ _ _ _ _ Hc). exact Ht.
  Qed.

  Lemma check_scopes_error fuel :
    converged (check_scopes fuel po pn) = true ->
    (has_error (check_scopes fuel po pn) = true <-> ScopesBreak po pn).
  Proof.
    unfold check_scopes. intro Hc. rewrite converged_flat_map in Hc. rewrite has_error_flat_map. split.
    - intros (s & Hs & H). specialize (Hc s Hs).
      destruct (lookup_last beqb sc_name (p_scopes pn) (sc_name s)) as [s'|] eqn:El.
      + apply LS in El. rewrite has_error_app, orb_true_iff in H.
        rewrite converged_app, andb_true_iff in Hc. destruct Hc as [_ Hc]. destruct H as [H|H].
        * eapply SB_prefix; eauto. eapply check_scope_prefix_error; eauto.
        * apply (check_operations_error _ _ _ _ Hc) in H as (o & Ho & [Ha | (o' & Ho' & Ht)]).
          -- eapply SB_operation_removed; eauto.
          -- eapply SB_operation_retyped; eauto.
      + apply LN in El. eapply SB_scope_removed; eauto.
    - intros [s Hs Ha | s s' Hs Hd Hp | s s' o Hs Hd Ho Ha | s s' o o' Hs Hd Ho Ho' Ht];
        exists s; (split; [exact Hs|]); specialize (Hc s Hs).
      + apply LN in Ha. rewrite Ha. reflexivity.
      + apply LS in Hd. rewrite Hd. rewrite has_error_app. apply orb_true_iff. left.
        apply check_scope_prefix_error. exact Hp.
      + apply LS in Hd. rewrite Hd in *. rewrite has_error_app. apply orb_true_iff. right.
        rewrite converged_app, andb_true_iff in Hc. destruct Hc as [_ Hc].
        apply (check_operations_error _ _ _ _ Hc). exists o. split; auto.
      + apply LS in Hd. rewrite Hd in *. rewrite has_error_app. apply orb_true_iff. right.
        rewrite converged_app, andb_true_iff in Hc. destruct Hc as [_ Hc].
        apply (check_operations_error _ _ _ _ Hc). exists o. split; auto. right. exists o'. auto.
  Qed.

  Lemma check_namespaces_no_error : has_error (check_namespaces po pn) = false.
  Proof.
    unfold check_namespaces. apply not_true_is_false. rewrite has_error_flat_map.
    intros (o & _ & H). destruct (lookup_last _ _ _ _); [|discriminate].
    rewrite has_error_if_warning in H. discriminate.
  Qed.
  Lemma check_namespaces_converged : converged (check_namespaces po pn) = true.
  Proof.
    unfold check_namespaces. apply converged_flat_map. intros o _.
    destruct (lookup_last _ _ _ _); [apply converged_if_warning | reflexivity].
  Qed.

  Lemma check_constants_no_error fuel : has_error (check_constants fuel po pn) = false.
  Proof.
    unfold check_constants. apply not_true_is_false. rewrite has_error_flat_map.
    intros (o & _ & H). destruct (lookup_last _ _ _ _); [|discriminate].
    rewrite has_error_app, check_type_warn_no_error, has_error_if_warning in H. discriminate.
  Qed.

  Lemma check_enum_values_error olds news ctx :
    has_error (check_enum_values olds news ctx) = true <->
    exists v, In v olds /\ Absent ev_value news (ev_value v).
  Proof.
    unfold check_enum_values. rewrite has_error_flat_map.
    split; intros (v & Hv & H); exists v; (split; [exact Hv|]).
    - destruct (lookup_last Z.eqb ev_value news (ev_value v)) as [n|] eqn:El.
      + rewrite has_error_if_warning in H. discriminate.
      + apply ZLN in El. exact El.
    - apply ZLN in H. rewrite H. reflexivity.
  Qed.
  Lemma check_enum_values_converged olds news ctx : converged (check_enum_values olds news ctx) = true.
  Proof.
    unfold check_enum_values. apply converged_flat_map. intros o _.
    destruct (lookup_last _ _ _ _); [apply converged_if_warning | reflexivity].
  Qed.

  Lemma check_enums_error : has_error (check_enums po pn) = true <-> EnumsBreak po pn.
  Proof.
    unfold check_enums. rewrite has_error_flat_map. split.
    - intros (e & He & H). destruct (lookup_last beqb e_name (p_enums pn) (e_name e)) as [e'|] eqn:El;
        [|discriminate].
      apply LS in El. apply check_enum_values_error in H as (v & Hv & Ha). eapply EB_value_removed; eauto.
    - intros [e e' v He Hd Hv Ha]. exists e. split; [exact He|]. apply LS in Hd. rewrite Hd.
      apply check_enum_values_error. eauto.
  Qed.
  Lemma check_enums_converged : converged (check_enums po pn) = true.
  Proof.
    unfold check_enums. apply converged_flat_map. intros o _.
    destruct (lookup_last _ _ _ _); [apply check_enum_values_converged | reflexivity].
  Qed.

  Lemma check_struct_like_error fuel k :
    converged (check_struct_like fuel po pn (structs_of k po) (structs_of k pn)) = true ->
    (has_error (check_struct_like fuel po pn (structs_of k po) (structs_of k pn)) = true
     <-> StructsBreak po pn k).
  Proof.
    unfold check_struct_like. intro Hc. rewrite converged_flat_map in Hc. rewrite has_error_flat_map. split.
    - intros (s & Hs & H). specialize (Hc s Hs).
      destruct (lookup_last beqb s_name (structs_of k pn) (s_name s)) as [s'|] eqn:El.
      + apply LS in El. eapply STB_fields; eauto. apply (check_fields_error _ _ _ _ _ _ Hc). exact H.
      + apply LN in El. eapply STB_removed; eauto.
    - intros [s Hs Ha | s s' Hs Hd Hf]; exists s; (split; [exact Hs|]); specialize (Hc s Hs).
      + apply LN in Ha. rewrite Ha. reflexivity.
      + apply LS in Hd. rewrite Hd in *. apply (check_fields_error _ _ _ _ _ _ Hc). exact Hf.
  Qed.

  Lemma check_method_error fuel o n mctx :
    converged (check_method fuel po pn o n mctx) = true ->
    (has_error (check_method fuel po pn o n mctx) = true <-> MethodBreak po pn o n).
  Proof.
    unfold check_method. intro Hc.
    rewrite !converged_app, !andb_true_iff in Hc. destruct Hc as (_ & Hr & Ha & He & _ & _).
    rewrite !has_error_app, !has_error_if_err, !orb_true_iff, !andb_true_iff.
    rewrite bool_neq_iff, !is_nil_iff, !is_empty_list_iff, !not_empty_list_iff.
    rewrite (check_type_error _ _ _ _ _ _ _ _ Hr), (check_fields_error _ _ _ _ _ _ Ha),
      (check_fields_error _ _ _ _ _ _ He).
    split.
    - intros [H | [H | [H | [H | [[[H1 H2] H3] | [[H1 H2] H3]]]]]].
      + apply MB_oneway; exact H.
      + apply MB_return; exact H.
      + apply MB_arguments; exact H.
      + apply MB_exceptions; exact H.
      + apply MB_exceptions_added_to_void; assumption.
      + apply MB_exceptions_removed_from_void; assumption.
    - intros [H | H | H | H | H1 H2 H3 | H1 H2 H3]; tauto.
  Qed.

  Lemma check_service_methods_error fuel olds news ctx :
    converged (check_service_methods fuel po pn olds news ctx) = true ->
    (has_error (check_service_methods fuel po pn olds news ctx) = true <->
     exists m, In m olds /\
       (Absent m_name news (m_name m)
        \/ exists m', Denotes m_name news (m_name m) m' /\ MethodBreak po pn m m')).
  Proof.
    unfold check_service_methods. intro Hc. rewrite converged_flat_map in Hc. rewrite has_error_flat_map.
    split; intros (m & Hm & H); exists m; (split; [exact Hm|]); specialize (Hc m Hm).
    - destruct (lookup_last beqb m_name news (m_name m)) as [m'|] eqn:El.
      + apply LS in El. right. exists m'. split; auto. apply (check_method_error _ _ _ _ Hc); exact H.
      + left. apply LN in El; exact El.
    - destruct H as [Ha | (m' & Hd & Hb)].
      + apply LN in Ha. rewrite Ha. reflexivity.
      + apply LS in Hd. rewrite Hd in *. apply (check_method_error _ _ _ _ Hc). exact Hb.
  Qed.

  Lemma extends_changed_iff o n :
    negb (is_empty (sv_extends o)) && negb (beqb (sv_extends o) (sv_extends n)) = true
    <-> sv_extends o <> [] /\ sv_extends o <> sv_extends n.
  Proof.
    rewrite andb_true_iff, !negb_true_iff, beqb_false_iff.
    destruct (sv_extends o); cbn [is_empty]; split; intros [H1 H2]; split; auto; try discriminate.
    contradiction.
  Qed.

  Lemma check_services_error fuel :
    converged (check_services fuel po pn) = true ->
    (has_error (check_services fuel po pn) = true <-> ServicesBreak po pn).
  Proof.
    unfold check_services. intro Hc. rewrite converged_flat_map in Hc. rewrite has_error_flat_map. split.
    - intros (s & Hs & H). specialize (Hc s Hs).
      destruct (lookup_last beqb sv_name (p_services pn) (sv_name s)) as [s'|] eqn:El.
      + apply LS in El. rewrite has_error_app, has_error_if_err, orb_true_iff in H.
        rewrite converged_app, andb_true_iff in Hc. destruct Hc as [_ Hc]. destruct H as [H|H].
        * apply extends_changed_iff in H as [H1 H2]. eapply SVB_extends; eauto.
        * apply (check_service_methods_error _ _ _ _ Hc) in H as (m & Hm & [Ha | (m' & Hd & Hb)]).
          -- eapply SVB_method_removed; eauto.
          -- eapply SVB_method; eauto.
      + apply LN in El. eapply SVB_removed; eauto.
    - intros [s Hs Ha | s s' Hs Hd H1 H2 | s s' m Hs Hd Hm Ha | s s' m m' Hs Hd Hm Hd' Hb];
        exists s; (split; [exact Hs|]); specialize (Hc s Hs).
      + apply LN in Ha. rewrite Ha. reflexivity.
      + apply LS in Hd. rewrite Hd. rewrite has_error_app, has_error_if_err. apply orb_true_iff. left.
        apply extends_changed_iff. auto.
      + apply LS in Hd. rewrite Hd in *. rewrite has_error_app. apply orb_true_iff. right.
        rewrite converged_app, andb_true_iff in Hc. destruct Hc as [_ Hc].
        apply (check_service_methods_error _ _ _ _ Hc). exists m. split; auto.
      + apply LS in Hd. rewrite Hd in *. rewrite has_error_app. apply orb_true_iff. right.
        rewrite converged_app, andb_true_iff in Hc. destruct Hc as [_ Hc].
        apply (check_service_methods_error _ _ _ _ Hc). exists m. split; auto. right. exists m'. auto.
  Qed.

  (** * The audit fails iff the new program contains a documented breaking change *)
  Theorem audit_fails_iff_breaking fuel :
    converged (audit fuel po pn) = true ->
    (audit_fails fuel po pn = true <-> Breaking po pn).
  Proof.
    unfold audit_fails, audit. intro Hc.
    rewrite !converged_app, !andb_true_iff in Hc.
    destruct Hc as (Hsc & _ & _ & _ & Hst & Hex & Hun & Hsv).
    rewrite !has_error_app, check_namespaces_no_error, check_constants_no_error. cbn [orb].
    rewrite !orb_true_iff.
    rewrite (check_scopes_error _ Hsc), check_enums_error,
      (check_struct_like_error _ KStruct Hst), (check_struct_like_error _ KException Hex),
      (check_struct_like_error _ KUnion Hun), (check_services_error _ Hsv).
    split.
    - intros [H | [H | [H | [H | [H | H]]]]].
      + apply B_scopes; exact H.
      + apply B_enums; exact H.
      + eapply B_structs; exact H.
      + eapply B_structs; exact H.
      + eapply B_structs; exact H.
      + apply B_services; exact H.
    - intros [H | H | k H | H]; [tauto | tauto | destruct k; tauto | tauto].
  Qed.
End DeclProofs.
