(** Findings triage (dfx): the repaired UnderlyingType (Model/DfxGoGenPlan.v) against the IDL's
    meaning of a typedef chain (Model/GoGenPlan.v [underlying_idl]). *)
From Coq Require Import ZArith List Bool Lia.
From FV Require Import Model.GoGenPlan Model.DfxGoGenPlan Proofs.GoGenPlanProofs.
Import ListNotations.
Open Scope Z_scope.

(** the witnesses of F15 (chain through an include continued in the wrong scope) are resolved
    correctly by the repaired function *)
Lemma f15_fixed :
  wire_idl 10 f15_prog 1 (PName (Some 7) 2) = 8 /\ wire_go_fixed 10 f15_prog 1 (PName (Some 7) 2) = 8
  /\ wire_go 10 f15_prog 1 (PName (Some 7) 2) = 12
  /\ wire_idl 10 f15_prog_enum 1 (PName (Some 7) 2) = 8
  /\ wire_go_fixed 10 f15_prog_enum 1 (PName (Some 7) 2) = 8
  /\ wire_go 10 f15_prog_enum 1 (PName (Some 7) 2) = 12.
Proof. vm_compute. repeat split; reflexivity. Qed.

(** Side condition under which the repaired function is right for file [cur]: the target of every
    typedef of a file that [cur] includes does not name a declaration of a further include
    (it may be a base type, a container of anything, or a name of its own file: an enum, a
    struct, another typedef).  This is weaker than [includes_closed], which the pinned function
    needed (no name at all). *)
Definition includes_local (p : pprogram) (cur : Z) : Prop :=
  forall i fid n t', assoc (pf_includes (file_of p cur)) i = Some fid ->
                     assoc (pf_typedefs (file_of p fid)) n = Some t' -> top_local t' = true.

(** inside a file whose typedef targets are all local the chain never leaves the file and the two
    resolutions coincide *)
Lemma local_chain p fid :
  (forall n t', assoc (pf_typedefs (file_of p fid)) n = Some t' -> top_local t' = true) ->
  forall fuel t, top_local t = true ->
    underlying_idl fuel p fid t = (fid, underlying_go_fixed fuel p fid t)
    /\ top_local (underlying_go_fixed fuel p fid t) = true.
Proof.
  intros Hl. induction fuel as [|f IH]; intros t Ht.
  - destruct t as [b|a|a|k v|[i|] n]; try (split; reflexivity); try discriminate.
    cbn [underlying_go_fixed underlying_idl].
    destruct (assoc (pf_typedefs (file_of p fid)) n); split; reflexivity.
  - destruct t as [b|a|a|k v|[i|] n]; try (split; reflexivity); try discriminate.
    cbn [underlying_go_fixed underlying_idl].
    destruct (assoc (pf_typedefs (file_of p fid)) n) as [t'|] eqn:Et; [|split; reflexivity].
    apply IH. exact (Hl _ _ Et).
Qed.

Lemma wire_qualify p cur i fid u :
  assoc (pf_includes (file_of p cur)) i = Some fid -> top_local u = true ->
  wire_of p cur (qualify i u) = wire_of p fid u.
Proof.
  intros Ei Hu. destruct u as [b|a|a|k v|[j|] n]; try reflexivity; try discriminate.
  cbn [qualify wire_of is_enum_in]. rewrite Ei. reflexivity.
Qed.

Lemma underlying_fixed_agree p cur :
  includes_local p cur ->
  forall fuel t, wire_go_fixed fuel p cur t = wire_idl fuel p cur t.
Proof.
  intros Hc. unfold wire_go_fixed, wire_idl.
  induction fuel as [|f IH]; intros t.
  - destruct t as [b|a|a|k v|[i|] n]; try reflexivity; cbn [underlying_go_fixed underlying_idl].
    + destruct (assoc (pf_includes (file_of p cur)) i) as [fid|]; [|reflexivity].
      destruct (assoc (pf_typedefs (file_of p fid)) n); reflexivity.
    + destruct (assoc (pf_typedefs (file_of p cur)) n); reflexivity.
  - destruct t as [b|a|a|k v|[i|] n]; try reflexivity; cbn [underlying_go_fixed underlying_idl].
    + destruct (assoc (pf_includes (file_of p cur)) i) as [fid|] eqn:Ei; [|reflexivity].
      destruct (assoc (pf_typedefs (file_of p fid)) n) as [t'|] eqn:Et; [|reflexivity].
      pose proof (Hc _ _ _ _ Ei Et) as Ht'.
      destruct (local_chain p fid (fun n0 t0 => Hc i fid n0 t0 Ei) f t' Ht') as [-> Hu].
      apply wire_qualify; assumption.
    + destruct (assoc (pf_typedefs (file_of p cur)) n) as [t'|]; [apply IH|reflexivity].
Qed.

(** what is still false (known findings C11-K2 ... K11): file 1 (root) includes file 2 as "mid"
    (name 7) only; file 2 includes file 3 as "far" (name 8) and declares typedef far.E T (name 1,
    E = name 5, an enum of file 3).  root's field of type mid.T is an enum (I32, 8) by the IDL;
    the Go function returns far.E, which in root names no include: taken for a struct (12) *)
Definition far_prog : pprogram :=
  [ (1, mkFile [(7, 2)] [] []);
    (2, mkFile [(8, 3)] [(1, PName (Some 8) 5)] []);
    (3, mkFile [] [] [5]) ].

Lemma transitive_include_refuted :
  exists p cur t fuel, wire_idl fuel p cur t = 8 /\ wire_go_fixed fuel p cur t = 12.
Proof. exists far_prog, 1, (PName (Some 7) 1), 10%nat. vm_compute. split; reflexivity. Qed.

(** the side condition is satisfiable by a program with chains, enums and containers behind an include *)
Definition local_prog : pprogram :=
  [ (1, mkFile [(7, 2)] [(3, PName (Some 7) 2)] []);
    (2, mkFile [] [(1, PName None 5); (2, PName None 1); (4, PList (PName None 5))] [5]) ].
Lemma includes_local_nonvacuous :
  includes_local local_prog 1
  /\ wire_go_fixed 10 local_prog 1 (PName None 3) = 8
  /\ wire_go 10 local_prog 1 (PName None 3) = 12
  /\ wire_go_fixed 10 local_prog 1 (PName (Some 7) 4) = 15.
Proof.
  split; [|vm_compute; repeat split; reflexivity].
  intros i fid n t' Hi Ht.
  assert (Hf : fid = 2).
  { change (assoc [(7, 2)] i = Some fid) in Hi. cbn [assoc] in Hi. destruct (7 =? i); congruence. }
  subst fid.
  change (assoc [(1, PName None 5); (2, PName None 1); (4, PList (PName None 5))] n = Some t') in Ht.
  cbn [assoc] in Ht.
  destruct (1 =? n); [injection Ht as <-; reflexivity|].
  destruct (2 =? n); [injection Ht as <-; reflexivity|].
  destruct (4 =? n); [injection Ht as <-; reflexivity|discriminate].
Qed.
