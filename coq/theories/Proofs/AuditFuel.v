(** C18: the fuel of the model is enough for every pair of programs whose typedefs are acyclic.
    [ResolvesH] is [Resolves] with the height of the derivation; a run of checkScopedType on two
    types of heights h and h' converges with any fuel >= h + h'. *)
From Coq Require Import ZArith List Bool Lia PeanoNat.
From FV Require Import Base.Bytes Model.Audit Proofs.AuditSpec Proofs.AuditProofs Proofs.AuditCompat.
Import ListNotations.
Local Open Scope nat_scope.

Inductive ResolvesH (P : program) : nat -> ty -> ty -> nat -> Prop :=
| RH_nil sc : ResolvesH P sc TNil TNil 0%nat
| RH_alias sc n k v d body r h :
    TypedefOf P sc n d body -> body <> TNil -> ResolvesH P d body r h ->
    ResolvesH P sc (Ty n k v) r (S h)
| RH_base sc n k v rk rv hk hv :
    (forall d body, ~ TypedefOf P sc n d body) ->
    ResolvesH P sc k rk hk -> ResolvesH P sc v rv hv ->
    ResolvesH P sc (Ty n k v) (Ty (qualified_name P sc n) rk rv) (S (Nat.max hk hv)).

Lemma Resolves_height P sc t r : Resolves P sc t r -> exists h, ResolvesH P sc t r h.
Proof.
  induction 1 as [sc | sc n k v d body r HT Hb HR [h IH] | sc n k v rk rv HN Hk [hk IHk] Hv [hv IHv]].
  - exists 0. constructor.
  - exists (S h). econstructor; eauto.
  - exists (S (Nat.max hk hv)). constructor; auto.
Qed.

Lemma ResolvesH_Ty_pos P sc n k v r h : ResolvesH P sc (Ty n k v) r h -> 1 <= h.
Proof. intro H; inversion H; lia. Qed.

(** with fuel g >= h - 1 the typedef loop reaches the base type, whose children are lower *)
Lemma underlying_height P : forall h sc n k v r g,
  ResolvesH P sc (Ty n k v) r h -> h <= S g ->
  exists sc' n' k' v' rk rv hk hv,
    underlying g P sc (Ty n k v) = Some (sc', Ty n' k' v')
    /\ ResolvesH P sc' k' rk hk /\ ResolvesH P sc' v' rv hv /\ hk < h /\ hv < h.
Proof.
  induction h as [|h IH]; intros sc n k v r g H Hg; [apply ResolvesH_Ty_pos in H; lia|].
  inversion H as [| ? ? ? ? d body ? h0 HT Hb HR | ? ? ? ? rk rv hk hv HN Hk Hv]; subst.
  - (* alias *)
    apply typedef_step_spec in HT. destruct body as [|bn bk bv]; [contradiction|].
    pose proof (ResolvesH_Ty_pos _ _ _ _ _ _ _ HR) as Hpos.
    destruct g as [|g]; [lia|].
    destruct (IH _ _ _ _ _ g HR ltac:(lia)) as (sc' & n' & k' & v' & rk & rv & hk & hv & Hu & H1 & H2 & H3 & H4).
    exists sc', n', k', v', rk, rv, hk, hv. cbn [underlying]. rewrite HT.
    repeat split; auto; lia.
  - (* base *)
    apply typedef_step_None in HN.
    exists sc, n, k, v, rk, rv, hk, hv.
    split; [destruct g; cbn [underlying]; rewrite HN; reflexivity|].
    repeat split; auto; lia.
Qed.

Lemma check_type_converges po pn : forall f so ot sn nt r r' h h' warn ctx,
  ResolvesH po so ot r h -> ResolvesH pn sn nt r' h' -> h + h' <= f ->
  converged (check_type f po pn so ot sn nt warn ctx) = true.
Proof.
  induction f as [|f IH]; intros so ot sn nt r r' h h' warn ctx Ho Hn Hf;
    destruct ot as [|on ok ov], nt as [|nn nk nv]; cbn [check_type];
    try reflexivity; try (destruct warn; reflexivity).
  - apply ResolvesH_Ty_pos in Ho. lia.
  - pose proof (ResolvesH_Ty_pos _ _ _ _ _ _ _ Ho) as Po. pose proof (ResolvesH_Ty_pos _ _ _ _ _ _ _ Hn) as Pn.
    destruct (underlying_height po _ _ _ _ _ _ f Ho ltac:(lia))
      as (so' & on' & ok' & ov' & ork & orv & ohk & ohv & Eo & Ho1 & Ho2 & Ho3 & Ho4).
    destruct (underlying_height pn _ _ _ _ _ _ f Hn ltac:(lia))
      as (sn' & nn' & nk' & nv' & nrk & nrv & nhk & nhv & En & Hn1 & Hn2 & Hn3 & Hn4).
    rewrite Eo, En. destruct (negb (beqb _ _)); [destruct warn; reflexivity|].
    rewrite converged_app. apply andb_true_iff. split.
    + eapply IH; eauto. lia.
    + eapply IH; eauto. lia.
Qed.

(** * "for every fuel large enough" *)
Definition Eventually (Q : nat -> Prop) : Prop := exists f0, forall f, f0 <= f -> Q f.

Lemma Eventually_const (Q : Prop) : Q -> Eventually (fun _ => Q).
Proof. intro H. exists 0. auto. Qed.

Lemma Eventually_and Q R : Eventually Q -> Eventually R -> Eventually (fun f => Q f /\ R f).
Proof.
  intros (a & Ha) (b & Hb). exists (Nat.max a b). intros f Hf. split; [apply Ha | apply Hb]; lia.
Qed.

Lemma Eventually_impl (Q R : nat -> Prop) : (forall f, Q f -> R f) -> Eventually Q -> Eventually R.
Proof. intros H (a & Ha). exists a. auto. Qed.

Lemma Eventually_list {A} (Q : nat -> A -> Prop) (l : list A) :
  (forall x, In x l -> Eventually (fun f => Q f x)) -> Eventually (fun f => forall x, In x l -> Q f x).
Proof.
  induction l as [|y l IH]; intro H.
  - exists 0. intros f _ x [].
  - destruct (H y (or_introl eq_refl)) as (a & Ha).
    destruct IH as (b & Hb); [intros x Hx; apply H; right; exact Hx|].
    exists (Nat.max a b). intros f Hf x [<-|Hx]; [apply Ha | apply Hb]; auto; lia.
Qed.

Notation Conv F := (Eventually (fun f => converged (F f) = true)).

Lemma Conv_app (F G : nat -> list diag) : Conv F -> Conv G -> Conv (fun f => F f ++ G f).
Proof.
  intros HF HG. eapply Eventually_impl; [|apply (Eventually_and _ _ HF HG)].
  intros f [H1 H2]. cbv beta. rewrite converged_app, H1, H2. reflexivity.
Qed.

Lemma Conv_const (l : list diag) : converged l = true -> Conv (fun _ => l).
Proof. intro H. exists 0. auto. Qed.

Lemma Conv_flat_map {A} (F : nat -> A -> list diag) (l : list A) :
  (forall x, In x l -> Conv (fun f => F f x)) -> Conv (fun f => flat_map (F f) l).
Proof.
  intro H. eapply Eventually_impl; [|apply (Eventually_list (fun f x => converged (F f x) = true) l H)].
  intros f Hf. apply converged_flat_map. exact Hf.
Qed.

Section Converges.
  Variables po pn : program.
  Hypothesis Hno : Normalizing po.
  Hypothesis Hnn : Normalizing pn.

  Lemma check_type_conv so ot sn nt warn ctx :
    Conv (fun f => check_type f po pn so ot sn nt warn ctx).
  Proof.
    destruct (Hno so ot) as (r & Hr). destruct (Hnn sn nt) as (r' & Hr').
    apply Resolves_height in Hr as (h & Hr). apply Resolves_height in Hr' as (h' & Hr').
    exists (h + h'). intros f Hf. eapply check_type_converges; eauto.
  Qed.

  Lemma check_fields_conv olds news ctx : Conv (fun f => check_fields f po pn olds news ctx).
  Proof.
    unfold check_fields. apply Conv_app.
    - apply Conv_flat_map. intros o _. destruct (lookup_last Z.eqb f_id news (f_id o)) as [n|].
      + apply Conv_app; [apply check_type_conv|]. apply Conv_const.
        rewrite !converged_app, converged_if_err, !converged_if_warning. reflexivity.
      + apply Conv_const. apply converged_if_err.
    - apply Conv_const. apply converged_flat_map. intros n _.
      destruct (lookup_last Z.eqb f_id olds (f_id n)); [reflexivity|].
      rewrite converged_app, converged_if_warning, converged_if_err. reflexivity.
  Qed.

  Lemma check_struct_like_conv olds news : Conv (fun f => check_struct_like f po pn olds news).
  Proof.
    unfold check_struct_like. apply Conv_flat_map. intros o _.
    destruct (lookup_last beqb s_name news (s_name o)); [apply check_fields_conv | apply Conv_const; reflexivity].
  Qed.

  Lemma check_scopes_conv : Conv (fun f => check_scopes f po pn).
  Proof.
    unfold check_scopes. apply Conv_flat_map. intros o _.
    destruct (lookup_last beqb sc_name (p_scopes pn) (sc_name o)) as [n|]; [|apply Conv_const; reflexivity].
    apply Conv_app; [apply Conv_const; apply check_scope_prefix_converged|].
    unfold check_operations. apply Conv_flat_map. intros op _.
    destruct (lookup_last beqb o_name (sc_ops n) (o_name op)); [apply check_type_conv | apply Conv_const; reflexivity].
  Qed.

  Lemma check_constants_conv : Conv (fun f => check_constants f po pn).
  Proof.
    unfold check_constants. apply Conv_flat_map. intros o _.
    destruct (lookup_last beqb c_name (p_constants pn) (c_name o)); [|apply Conv_const; reflexivity].
    apply Conv_app; [apply check_type_conv | apply Conv_const; apply converged_if_warning].
  Qed.

  Lemma check_services_conv : Conv (fun f => check_services f po pn).
  Proof.
    unfold check_services. apply Conv_flat_map. intros o _.
    destruct (lookup_last beqb sv_name (p_services pn) (sv_name o)) as [n|]; [|apply Conv_const; reflexivity].
    apply Conv_app; [apply Conv_const; apply converged_if_err|].
    unfold check_service_methods. apply Conv_flat_map. intros m _.
    destruct (lookup_last beqb m_name (sv_methods n) (m_name m)) as [m'|]; [|apply Conv_const; reflexivity].
    unfold check_method.
    apply Conv_app; [apply Conv_const; apply converged_if_err|].
    apply Conv_app; [apply check_type_conv|].
    apply Conv_app; [apply check_fields_conv|].
    apply Conv_app; [apply check_fields_conv|].
    apply Conv_app; apply Conv_const; apply converged_if_err.
  Qed.

  Theorem audit_converges : Conv (fun f => audit f po pn).
  Proof.
    unfold audit.
    apply Conv_app; [apply check_scopes_conv|].
    apply Conv_app; [apply Conv_const; apply check_namespaces_converged|].
    apply Conv_app; [apply check_constants_conv|].
    apply Conv_app; [apply Conv_const; apply check_enums_converged|].
    apply Conv_app; [apply check_struct_like_conv|].
    apply Conv_app; [apply check_struct_like_conv|].
    apply Conv_app; [apply check_struct_like_conv|].
    apply check_services_conv.
  Qed.

  (** for acyclic typedefs the fuel is no restriction: with every fuel large enough the model
      converges and fails exactly on the breaking changes *)
  Theorem audit_fails_iff_breaking_normalizing :
    exists f0, forall f, f0 <= f ->
      converged (audit f po pn) = true /\ (audit_fails f po pn = true <-> Breaking po pn).
  Proof.
    destruct audit_converges as (f0 & H). exists f0. intros f Hf. specialize (H f Hf).
    split; [exact H | apply audit_fails_iff_breaking; exact H].
  Qed.
End Converges.

Lemma Normalizing_files P P' : p_files P = p_files P' -> Normalizing P -> Normalizing P'.
Proof.
  intros E H sc t. destruct (H sc t) as (r & Hr). exists r. eapply Resolves_files; eauto.
Qed.

(** programs that differ only by documented compatible edits pass, with every fuel large enough *)
Theorem renamed_passes_eventually po pn :
  Renamed po pn -> WfNames po -> Normalizing po ->
  exists f0, forall f, f0 <= f -> converged (audit f po pn) = true /\ audit_fails f po pn = false.
Proof.
  intros HR Hw Hn.
  pose proof (Normalizing_files _ _ (rn_files _ _ HR) Hn) as Hn'.
  destruct (audit_fails_iff_breaking_normalizing po pn Hn Hn') as (f0 & H).
  exists f0. intros f Hf. destruct (H f Hf) as [Hc Hiff]. split; [exact Hc|].
  apply not_true_is_false. intro E. apply Hiff in E. eapply renamed_not_breaking; eauto.
Qed.
