(** C14 over bounded outputs — lemmas about Model/ProcessorBounded.v:
    the write-by-write runs leave exactly what the table by sizes says; the unbounded model of
    Model/Processor.v is the instance limit = None. *)
From Coq Require Import ZArith List Bool Lia.
From FV Require Import Base.Res Base.Bytes Model.Headers Model.ThriftBin Model.Processor Model.ProcessorBounded.
From FV Require Import Proofs.BytesProofs Proofs.HeadersProofs Proofs.HeadersMapProofs Proofs.ThriftBinProofs
                       Proofs.ProcessorProofs Proofs.ProcessorReplyProofs.
Import ListNotations.
Open Scope Z_scope.

Ltac Zify.zify_post_hook ::= Z.div_mod_to_equations.

Definition chunk_ok (chunk : bytes -> list bytes) : Prop := forall b, concat (chunk b) = b.

(** * The size test *)
Lemma exceeds_mono lim n n' len : n <= n' -> exceeds lim n len = true -> exceeds lim n' len = true.
Proof.
  unfold exceeds. destruct lim as [l|]; [|discriminate]. intros Hle H.
  apply andb_true_iff in H. destruct H as [H1 H2]. apply andb_true_iff. split; [exact H1|].
  apply Z.ltb_lt in H2. apply Z.ltb_lt. lia.
Qed.

Lemma exceeds_shift lim a (d w : bytes) :
  exceeds lim a (4 + zlen (d ++ w)) = exceeds lim (zlen w + a) (4 + zlen d).
Proof.
  unfold exceeds. destruct lim as [l|]; [|reflexivity]. rewrite zlen_app.
  f_equal. f_equal. lia.
Qed.

Lemma exceeds_none n len : exceeds None n len = false.
Proof. reflexivity. Qed.

Lemma fits_iff lim n :
  fits lim n = true <-> match lim with Some l => l <= 0 \/ n + 4 <= l | None => True end.
Proof.
  unfold fits, exceeds. destruct lim as [l|]; [|split; [intros _; exact I|reflexivity]].
  rewrite negb_true_iff, andb_false_iff, !Z.ltb_ge. reflexivity.
Qed.

Lemma fits_mono lim n n' : n <= n' -> fits lim n' = true -> fits lim n = true.
Proof.
  intros Hle H. destruct (fits lim n) eqn:E; [reflexivity|]. unfold fits in *.
  apply negb_false_iff in E. rewrite (exceeds_mono lim n n' 4 Hle E) in H. discriminate H.
Qed.

(** * A run of writes: by total size *)
Definition flushes (t : list bev) : nat :=
  length (filter (fun e => match e with BFlush => true | _ => false end) t).

Lemma flushes_app a b : flushes (a ++ b) = (flushes a + flushes b)%nat.
Proof. unfold flushes. rewrite filter_app, app_length. reflexivity. Qed.

Lemma bwrites_cons lim s w r :
  bwrites lim s (w :: r) = let '(s1, ok) := bwrite lim s w in if ok then bwrites lim s1 r else (s1, false).
Proof. reflexivity. Qed.

Lemma bwrite_eq lim d t w :
  bwrite lim (mkbo d t) w =
  if exceeds lim (zlen w) (4 + zlen d) then (mkbo [] (t ++ [BW w false]), false)
  else (mkbo (d ++ w) (t ++ [BW w true]), true).
Proof. reflexivity. Qed.

Lemma bwrites_spec lim : forall r w d t,
  snd (bwrites lim (mkbo d t) (w :: r)) = negb (exceeds lim (zlen (concat (w :: r))) (4 + zlen d)) /\
  bo_data (fst (bwrites lim (mkbo d t) (w :: r))) =
    (if exceeds lim (zlen (concat (w :: r))) (4 + zlen d) then [] else d ++ concat (w :: r)) /\
  flushes (bo_trace (fst (bwrites lim (mkbo d t) (w :: r)))) = flushes t.
Proof.
  induction r as [|w2 r IH]; intros w d t.
  - rewrite bwrites_cons, bwrite_eq. cbn [concat]. rewrite app_nil_r.
    destruct (exceeds lim (zlen w) (4 + zlen d)); cbn [bwrites fst snd bo_data bo_trace];
      rewrite flushes_app; cbn; repeat split; lia.
  - rewrite bwrites_cons, bwrite_eq.
    destruct (exceeds lim (zlen w) (4 + zlen d)) eqn:E.
    + cbn [fst snd bo_data bo_trace].
      assert (Hx : exceeds lim (zlen (concat (w :: w2 :: r))) (4 + zlen d) = true).
      { apply (exceeds_mono lim (zlen w)); [|exact E]. cbn [concat]. rewrite zlen_app.
        pose proof (zlen_nonneg (w2 ++ concat r)). lia. }
      rewrite Hx. rewrite flushes_app. cbn. repeat split; lia.
    + destruct (IH w2 (d ++ w) (t ++ [BW w true])) as (H1 & H2 & H3).
      rewrite H1, H2, H3. rewrite exceeds_shift.
      replace (zlen w + zlen (concat (w2 :: r))) with (zlen (concat (w :: w2 :: r)))
        by (cbn [concat]; rewrite !zlen_app; lia).
      rewrite flushes_app. cbn [concat]. rewrite <- app_assoc.
      repeat split; cbn; lia.
Qed.

(** with no limit every write is accepted: the trace is the list of writes *)
Lemma bwrites_none : forall ws d t,
  bwrites None (mkbo d t) ws = (mkbo (d ++ concat ws) (t ++ map (fun w => BW w true) ws), true).
Proof.
  induction ws as [|w r IH]; intros d t.
  - cbn. rewrite !app_nil_r. reflexivity.
  - rewrite bwrites_cons, bwrite_eq, exceeds_none.
    rewrite IH. cbn [concat map]. rewrite <- !app_assoc. reflexivity.
Qed.

(** * The pieces make up the messages of Model/Processor.v *)
Lemma concat_begin_writes name mt : concat (begin_writes name mt) = write_message_begin name mt 0.
Proof. unfold begin_writes, write_message_begin. cbn [concat]. rewrite app_nil_r. reflexivity. Qed.

Lemma concat_app_exception_writes kind msg :
  concat (app_exception_writes kind msg) = write_app_exception kind msg.
Proof.
  unfold app_exception_writes, write_app_exception.
  destruct (exc_text kind msg) as [|c cs]; cbn [concat app]; reflexivity.
Qed.

Lemma concat_message_writes hdrs name mt body :
  concat (message_writes hdrs name mt body) = msg_bytes hdrs name mt (concat body).
Proof.
  unfold message_writes, msg_bytes. cbn [concat]. rewrite concat_app, concat_begin_writes. reflexivity.
Qed.

Lemma msg_bytes_length hdrs name mt body :
  zlen (msg_bytes hdrs name mt body) = 17 + header_size hdrs + zlen name + zlen body.
Proof.
  unfold msg_bytes. rewrite !zlen_app, marshal_length, write_message_begin_length. lia.
Qed.

Lemma msg_bytes_nonempty hdrs name mt body : msg_bytes hdrs name mt body <> [].
Proof.
  intros E. pose proof (msg_bytes_length hdrs name mt body) as H. rewrite E in H.
  pose proof (header_size_nonneg hdrs). pose proof (zlen_nonneg name). pose proof (zlen_nonneg body).
  change (zlen (@nil Z)) with 0 in H. lia.
Qed.

(** * writeException, sendError, SendReply on an empty buffer: by sizes *)
(** invariant of the states the model passes around *)
Definition tidy (s : bout) : Prop := bo_data s = [] /\ flushes (bo_trace s) = 0%nat.

(** what a finished run looks like: nothing in the buffer and nothing flushed, or exactly one Flush, which
    is the last thing that happened, and a non-empty buffer *)
Definition closed_out (s : bout) : Prop :=
  (bo_data s = [] /\ flushes (bo_trace s) = 0%nat) \/
  (bo_data s <> [] /\ exists tr, bo_trace s = tr ++ [BFlush] /\ flushes tr = 0%nat).

Lemma tidy_bo0 : tidy bo0.
Proof. split; reflexivity. Qed.

Lemma tidy_breset s : flushes (bo_trace s) = 0%nat -> tidy (breset s).
Proof.
  intros H. split; [reflexivity|]. unfold breset. cbn [bo_trace]. rewrite flushes_app, H. reflexivity.
Qed.

Lemma bwrites_message lim s hdrs name mt body :
  tidy s ->
  let m := msg_bytes hdrs name mt (concat body) in
  let r := bwrites lim s (message_writes hdrs name mt body) in
  snd r = fits lim (zlen m) /\
  bo_data (fst r) = (if fits lim (zlen m) then m else []) /\
  flushes (bo_trace (fst r)) = 0%nat.
Proof.
  intros [Hd Hf]. destruct s as [d t]. cbn [bo_data bo_trace] in *. subst d.
  unfold message_writes.
  destruct (bwrites_spec lim (begin_writes name mt ++ body) (marshal hdrs) [] t) as (H1 & H2 & H3).
  fold (message_writes hdrs name mt body) in *. rewrite concat_message_writes in *.
  change (4 + zlen (@nil Z)) with 4 in *. cbv zeta. rewrite H1, H2, H3. unfold fits.
  destruct (exceeds lim _ 4); cbn [negb app]; repeat split; assumption.
Qed.

Lemma write_exception_spec lim s hdrs name kind msg :
  tidy s ->
  let m := exc_bytes hdrs name kind msg in
  let r := write_exception lim s hdrs name kind msg in
  snd r = fits lim (zlen m) /\
  bo_data (fst r) = (if fits lim (zlen m) then m else []) /\
  (if fits lim (zlen m) then closed_out (fst r) /\ bo_data (fst r) <> [] else tidy (fst r)).
Proof.
  intros Ht. cbv zeta. unfold write_exception, exc_bytes.
  destruct (bwrites_message lim s hdrs name mt_exception (app_exception_writes kind msg) Ht) as (H1 & H2 & H3).
  rewrite concat_app_exception_writes in *.
  destruct (bwrites lim s (message_writes hdrs name mt_exception (app_exception_writes kind msg))) as [s1 ok].
  cbn [fst snd] in *. subst ok.
  destruct (fits lim (zlen (msg_bytes hdrs name mt_exception (write_app_exception kind msg)))).
  - cbn [fst snd bflush bo_data]. repeat split; try assumption.
    + right. cbn [bflush bo_data bo_trace]. split.
      * rewrite H2. apply msg_bytes_nonempty.
      * exists (bo_trace s1). split; [reflexivity|exact H3].
    + rewrite H2. apply msg_bytes_nonempty.
  - cbn [fst snd]. repeat split; assumption.
Qed.

Lemma write_exception_fallback_spec lim s rh name kind msg :
  tidy s ->
  let r := write_exception_fallback lim s rh name kind msg in
  bo_data (fst r) = spec_error lim rh name kind msg /\
  snd r = (match spec_error lim rh name kind msg with [] => false | _ => true end) /\
  closed_out (fst r).
Proof.
  intros Ht. cbv zeta. unfold write_exception_fallback, spec_error.
  destruct (write_exception_spec lim s rh name kind msg Ht) as (H1 & H2 & H3).
  destruct (write_exception lim s rh name kind msg) as [s1 ok]. cbn [fst snd] in *. subst ok.
  destruct (fits lim (zlen (exc_bytes rh name kind msg))).
  - cbn [fst snd]. destruct H3 as [Hc Hn]. rewrite <- H2.
    repeat split; try assumption. destruct (bo_data s1); [contradiction|reflexivity].
  - destruct (write_exception_spec lim s1 (opid_only rh) name kind msg H3) as (G1 & G2 & G3).
    destruct (write_exception lim s1 (opid_only rh) name kind msg) as [s2 ok2]. cbn [fst snd] in *. subst ok2.
    destruct (fits lim (zlen (exc_bytes (opid_only rh) name kind msg))).
    + destruct G3 as [Gc Gn]. rewrite <- G2. repeat split; try assumption.
      destruct (bo_data s2); [contradiction|reflexivity].
    + repeat split; try assumption. left. exact G3.
Qed.

Lemma send_error_spec lim s rh name kind msg :
  tidy s ->
  bo_data (send_error lim s rh name kind msg) = spec_error lim rh name kind msg /\
  closed_out (send_error lim s rh name kind msg).
Proof.
  intros Ht. unfold send_error.
  destruct (write_exception_fallback_spec lim s rh name kind msg Ht) as (H1 & _ & H3). split; assumption.
Qed.

Lemma send_reply_spec lim chunk etext s rh name rb wok :
  chunk_ok chunk -> tidy s ->
  bo_data (send_reply lim chunk true etext s rh name rb wok) =
    snd (spec_plan lim true etext (PReply rh name rb wok)) /\
  closed_out (send_reply lim chunk true etext s rh name rb wok).
Proof.
  intros Hc Ht. unfold send_reply, spec_plan. cbn [snd].
  destruct (bwrites_message lim s rh name mt_reply (chunk rb) Ht) as (H1 & H2 & H3).
  rewrite Hc in *.
  destruct (bwrites lim s (message_writes rh name mt_reply (chunk rb))) as [s1 ok]. cbn [fst snd] in *. subst ok.
  destruct (fits lim (zlen (msg_bytes rh name mt_reply rb))).
  - destruct wok.
    + cbn [bflush bo_data]. split; [exact H2|].
      right. cbn [bflush bo_data bo_trace]. split; [rewrite H2; apply msg_bytes_nonempty|].
      exists (bo_trace s1). split; [reflexivity|exact H3].
    + apply send_error_spec. apply tidy_breset. exact H3.
  - apply send_error_spec. split; assumption.
Qed.

(** * Process: the write-by-write run leaves exactly what the table by sizes says *)
Theorem run_plan_spec lim chunk etext p :
  chunk_ok chunk ->
  fst (run_plan lim chunk true etext p) = fst (spec_plan lim true etext p) /\
  bo_data (snd (run_plan lim chunk true etext p)) = snd (spec_plan lim true etext p) /\
  closed_out (snd (run_plan lim chunk true etext p)).
Proof.
  intros Hc. destruct p as [| |rh name|rh name kind msg|rh name rb wok]; cbn [run_plan].
  - cbn. repeat split. left. split; reflexivity.
  - cbn. repeat split. left. split; reflexivity.
  - destruct (write_exception_fallback_spec lim bo0 rh name ex_unknown_method (unknown_function ++ name) tidy_bo0)
      as (H1 & H2 & H3).
    destruct (write_exception_fallback lim bo0 rh name ex_unknown_method (unknown_function ++ name)) as [s ok].
    cbn [fst snd spec_plan] in *. subst ok. rewrite H1.
    destruct (spec_error lim rh name ex_unknown_method (unknown_function ++ name)); repeat split; assumption.
  - cbn [fst snd spec_plan]. destruct (send_error_spec lim bo0 rh name kind msg tidy_bo0) as [H1 H2].
    repeat split; assumption.
  - cbn [fst snd]. destruct (send_reply_spec lim chunk etext bo0 rh name rb wok Hc tidy_bo0) as [H1 H2].
    repeat split; assumption.
Qed.

(** * Refinement: Model/Processor.v is the instance limit = None *)
Lemma process_plan svc h can_reset etext frame :
  process svc h can_reset etext frame = plan_events can_reset etext (plan_of svc h etext frame).
Proof.
  unfold process, plan_of.
  destruct (read_header frame) as [[hdrs r1]| | |]; try reflexivity.
  destruct (Headers.lookup opid_header (to_map hdrs)) as [opid|]; [|reflexivity].
  destruct (read_message_begin r1) as [[[[name mt] seq] r2]| | |]; try reflexivity.
  destruct (find_method svc name) as [md|]; [|reflexivity].
  destruct (md_read md r2) as [[args rest]| | |]; try reflexivity.
  destruct (h name (remove_key opid_header (to_map hdrs)) args) as [extra o].
  destruct o as [rb wok|kind msg|text]; try reflexivity.
  destruct (md_oneway md); reflexivity.
Qed.

(** two event lists no output transport of the model can tell apart *)
Definition same_output (a b : list oev) : Prop :=
  (forall s, framed_run s a = framed_run s b) /\ (forall d, fold_left mem_ev a d = fold_left mem_ev b d).

Lemma same_output_refl a : same_output a a.
Proof. split; reflexivity. Qed.

Lemma framed_run_writes ws : forall s rest,
  framed_run s (map OW ws ++ rest) = framed_run (mkfs (f_pending s ++ concat ws) (f_sent s)) rest.
Proof.
  induction ws as [|w r IH]; intros s rest.
  - cbn [map app concat]. rewrite app_nil_r. destruct s; reflexivity.
  - cbn [map app concat]. unfold framed_run in *. cbn [fold_left framed_ev]. rewrite IH.
    cbn [f_pending f_sent]. rewrite <- app_assoc. reflexivity.
Qed.

Lemma mem_run_writes ws : forall d rest,
  fold_left mem_ev (map OW ws ++ rest) d = fold_left mem_ev rest (d ++ concat ws).
Proof.
  induction ws as [|w r IH]; intros d rest.
  - cbn [map app concat]. rewrite app_nil_r. reflexivity.
  - cbn [map app concat fold_left mem_ev]. rewrite IH. rewrite <- app_assoc. reflexivity.
Qed.

Lemma erase_app a b : erase (a ++ b) = erase a ++ erase b.
Proof. apply map_app. Qed.

Lemma erase_writes ws : erase (map (fun w => BW w true) ws) = map OW ws.
Proof. unfold erase. rewrite map_map. reflexivity. Qed.

(** one message written piece by piece and flushed = the three events of Model/Processor.v *)
Lemma message_same_output pre hdrs name mt body rest1 rest2 :
  same_output rest1 rest2 ->
  same_output (pre ++ map OW (message_writes hdrs name mt body) ++ rest1)
              (pre ++ [OW (marshal hdrs); OW (write_message_begin name mt 0 ++ concat body)] ++ rest2).
Proof.
  intros [Hf Hm].
  set (two := [marshal hdrs; write_message_begin name mt 0 ++ concat body]).
  change [OW (marshal hdrs); OW (write_message_begin name mt 0 ++ concat body)] with (map OW two).
  assert (Hcc : concat (message_writes hdrs name mt body) = concat two).
  { rewrite concat_message_writes. unfold two, msg_bytes. cbn [concat]. rewrite app_nil_r. reflexivity. }
  split.
  - intros s. rewrite (framed_run_app s pre (map OW (message_writes hdrs name mt body) ++ rest1)).
    rewrite (framed_run_app s pre (map OW two ++ rest2)).
    rewrite !framed_run_writes. rewrite Hcc, Hf. reflexivity.
  - intros d. rewrite (fold_left_app mem_ev pre (map OW (message_writes hdrs name mt body) ++ rest1)).
    rewrite (fold_left_app mem_ev pre (map OW two ++ rest2)).
    rewrite !mem_run_writes. rewrite Hcc. apply Hm.
Qed.

Lemma write_exception_none d t hdrs name kind msg :
  write_exception None (mkbo d t) hdrs name kind msg =
  (mkbo (d ++ exc_bytes hdrs name kind msg)
        (t ++ map (fun w => BW w true) (message_writes hdrs name mt_exception (app_exception_writes kind msg))
           ++ [BFlush]), true).
Proof.
  unfold write_exception. rewrite bwrites_none. unfold bflush. cbn [bo_data bo_trace].
  rewrite concat_message_writes, concat_app_exception_writes, <- app_assoc. reflexivity.
Qed.

Lemma exception_same_output pre hdrs name kind msg :
  same_output (pre ++ map OW (message_writes hdrs name mt_exception (app_exception_writes kind msg)) ++ [OFlush])
              (pre ++ exception_events hdrs name kind msg).
Proof.
  unfold exception_events, message_events.
  pose proof (message_same_output pre hdrs name mt_exception (app_exception_writes kind msg) [OFlush] [OFlush]
                (same_output_refl _)) as H.
  rewrite concat_app_exception_writes in H. exact H.
Qed.

Theorem run_plan_none chunk can_reset etext p :
  chunk_ok chunk ->
  fst (run_plan None chunk can_reset etext p) = fst (plan_events can_reset etext p) /\
  same_output (erase (bo_trace (snd (run_plan None chunk can_reset etext p)))) (snd (plan_events can_reset etext p)) /\
  bo_data (snd (run_plan None chunk can_reset etext p)) = mem_run (snd (plan_events can_reset etext p)).
Proof.
  intros Hc.
  assert (Hmem : forall a b, same_output a b -> fold_left mem_ev a [] = fold_left mem_ev b []).
  { intros a b [_ H]. apply H. }
  destruct p as [| |rh name|rh name kind msg|rh name rb wok]; cbn [run_plan plan_events fst snd].
  - split; [reflexivity|]. split; [apply same_output_refl|reflexivity].
  - split; [reflexivity|]. split; [apply same_output_refl|reflexivity].
  - unfold write_exception_fallback, bo0. rewrite write_exception_none. cbn [fst snd bo_data bo_trace negb app].
    pose proof (exception_same_output [] rh name ex_unknown_method (unknown_function ++ name)) as Hs.
    cbn [app] in Hs. rewrite erase_app, erase_writes. cbn [erase map].
    split; [reflexivity|]. split; [exact Hs|].
    unfold mem_run. rewrite <- (Hmem _ _ Hs). rewrite mem_run_writes. cbn [fold_left mem_ev app].
    rewrite concat_message_writes, concat_app_exception_writes. reflexivity.
  - unfold send_error, write_exception_fallback, bo0. rewrite write_exception_none.
    cbn [fst snd bo_data bo_trace app].
    pose proof (exception_same_output [] rh name kind msg) as Hs.
    cbn [app] in Hs. rewrite erase_app, erase_writes. cbn [erase map].
    split; [reflexivity|]. split; [exact Hs|].
    unfold mem_run. rewrite <- (Hmem _ _ Hs). rewrite mem_run_writes. cbn [fold_left mem_ev app].
    rewrite concat_message_writes, concat_app_exception_writes. reflexivity.
  - unfold send_reply, bo0. rewrite bwrites_none. cbn [app].
    destruct wok.
    + unfold bflush. cbn [bo_data bo_trace].
      pose proof (message_same_output [] rh name mt_reply (chunk rb) [OFlush] [OFlush] (same_output_refl _)) as Hs.
      rewrite Hc in Hs. cbn [app] in Hs. unfold message_events.
      rewrite erase_app, erase_writes. cbn [erase map].
      split; [reflexivity|]. split; [exact Hs|].
      unfold mem_run. rewrite <- (Hmem _ _ Hs). rewrite mem_run_writes. cbn [fold_left mem_ev app].
      rewrite concat_message_writes, Hc. reflexivity.
    + destruct can_reset.
      * unfold send_error, write_exception_fallback, breset. cbn [bo_data bo_trace].
        rewrite write_exception_none. cbn [fst snd bo_data bo_trace app].
        rewrite !erase_app, !erase_writes. cbn [erase map app].
        pose proof (message_same_output [] rh name mt_reply (chunk rb)
                      (OReset :: map OW (message_writes rh name mt_exception (app_exception_writes ex_internal_error etext)) ++ [OFlush])
                      (OReset :: exception_events rh name ex_internal_error etext)) as Hs.
        rewrite Hc in Hs. cbn [app] in Hs.
        assert (Hr : same_output
                       (OReset :: map OW (message_writes rh name mt_exception (app_exception_writes ex_internal_error etext)) ++ [OFlush])
                       (OReset :: exception_events rh name ex_internal_error etext)).
        { exact (exception_same_output [OReset] rh name ex_internal_error etext). }
        specialize (Hs Hr). rewrite <- app_assoc. cbn [app].
        split; [reflexivity|]. split; [exact Hs|].
        unfold mem_run. rewrite <- (Hmem _ _ Hs). rewrite mem_run_writes. cbn [fold_left mem_ev].
        rewrite mem_run_writes. cbn [fold_left mem_ev app].
        rewrite concat_message_writes, concat_app_exception_writes. reflexivity.
      * cbn [bo_data bo_trace]. rewrite erase_writes.
        pose proof (message_same_output [] rh name mt_reply (chunk rb) [] [] (same_output_refl _)) as Hs.
        rewrite Hc in Hs. cbn [app] in Hs. rewrite !app_nil_r in Hs.
        split; [reflexivity|]. split; [exact Hs|].
        rewrite concat_message_writes, Hc. reflexivity.
Qed.

Theorem process_b_refines chunk svc h can_reset etext frame :
  chunk_ok chunk ->
  fst (process_b None chunk svc h can_reset etext frame) = fst (process svc h can_reset etext frame) /\
  same_output (erase (bo_trace (snd (process_b None chunk svc h can_reset etext frame))))
              (snd (process svc h can_reset etext frame)) /\
  bo_data (snd (process_b None chunk svc h can_reset etext frame)) = mem_run (snd (process svc h can_reset etext frame)).
Proof.
  intros Hc. unfold process_b. rewrite process_plan. apply run_plan_none. exact Hc.
Qed.

(** * What is left in the output is a well-formed answer carrying the request's op id *)
Definition plan_wf (opid : bytes) (p : plan) : Prop :=
  match p with
  | PFail | PSilent => True
  | PUnknown rh _ | PReply rh _ _ _ => NoDup (keys rh) /\ Headers.lookup opid_header rh = Some opid
  | PError rh _ kind _ => NoDup (keys rh) /\ Headers.lookup opid_header rh = Some opid /\ in_range 4 kind
  end.

(** everything whose length goes into an int32 is below 2 GiB *)
Definition plan_small (etext : bytes) (p : plan) : Prop :=
  match p with
  | PFail | PSilent => True
  | PUnknown rh name => header_size rh < 2147483648 /\ zlen name < 2147483648 - 46
  | PError rh name kind msg => header_size rh < 2147483648 /\ zlen name < 2147483648 /\ zlen msg < 2147483648 - 29
  | PReply rh name _ _ => header_size rh < 2147483648 /\ zlen name < 2147483648 /\ zlen etext < 2147483648 - 29
  end.

Lemma default_text_le k : zlen (default_text k) <= 29.
Proof.
  unfold default_text.
  repeat match goal with |- context [if ?c then _ else _] => destruct c; [apply Z.leb_le; reflexivity|] end.
  apply Z.leb_le; reflexivity.
Qed.

Lemma exc_text_bound kind msg : zlen (exc_text kind msg) <= zlen msg + 29.
Proof.
  unfold exc_text. destruct msg as [|c cs].
  - pose proof (default_text_le kind). change (zlen (@nil Z)) with 0. lia.
  - lia.
Qed.

Lemma header_size_in p l : In p l -> pair_size p <= header_size l.
Proof.
  induction l as [|q l IH]; intros H; [destruct H|]. cbn [header_size].
  pose proof (header_size_nonneg l).
  assert (0 <= pair_size q) by (unfold pair_size; pose proof (zlen_nonneg (fst q)); pose proof (zlen_nonneg (snd q)); lia).
  destruct H as [->|H]; [lia|]. specialize (IH H). lia.
Qed.

Lemma opid_only_facts rh opid :
  Headers.lookup opid_header rh = Some opid ->
  opid_only rh = [(opid_header, opid)] /\
  header_size (opid_only rh) = 13 + zlen opid /\
  header_size (opid_only rh) <= header_size rh /\
  Headers.lookup opid_header (to_map (opid_only rh)) = Some opid.
Proof.
  intros H. unfold opid_only, opid_of. rewrite H. split; [reflexivity|].
  assert (Hs : header_size [(opid_header, opid)] = 13 + zlen opid).
  { cbn [header_size]. unfold pair_size. cbn [fst snd]. change (zlen opid_header) with 5. lia. }
  split; [exact Hs|]. split.
  - rewrite Hs. apply lookup_some_in in H. apply header_size_in in H. unfold pair_size in H. cbn [fst snd] in H.
    change (zlen opid_header) with 5 in H. lia.
  - reflexivity.
Qed.

Lemma exc_bytes_length hdrs name kind msg :
  zlen (exc_bytes hdrs name kind msg) = 17 + header_size hdrs + zlen name + zlen (write_app_exception kind msg).
Proof. apply msg_bytes_length. Qed.

Lemma min_error_frame_eq rh opid name kind msg :
  Headers.lookup opid_header rh = Some opid ->
  zlen (exc_bytes (opid_only rh) name kind msg) + 4 = min_error_frame opid name kind msg.
Proof.
  intros H. destruct (opid_only_facts rh opid H) as (_ & Hs & _ & _).
  rewrite exc_bytes_length, Hs. unfold min_error_frame. lia.
Qed.

Lemma classify_exc_bytes hdrs name kind msg opid :
  header_size hdrs < 2147483648 -> zlen name < 2147483648 -> in_range 4 kind ->
  zlen msg < 2147483648 - 29 ->
  Headers.lookup opid_header (to_map hdrs) = Some opid ->
  classify_reply (exc_bytes hdrs name kind msg) = Some (opid, Some kind).
Proof.
  intros Hh Hn Hk Hm Ho. apply classify_reply_exception; try assumption.
  pose proof (exc_text_bound kind msg). lia.
Qed.

(** sendError's outcome: the exception with all response headers if that fits, else the one with the op id
    only if that fits, else nothing; whatever is there carries the request's op id and the kind asked for *)
Lemma spec_error_cases lim rh name kind msg opid :
  NoDup (keys rh) -> Headers.lookup opid_header rh = Some opid ->
  header_size rh < 2147483648 -> zlen name < 2147483648 -> in_range 4 kind -> zlen msg < 2147483648 - 29 ->
  let out := spec_error lim rh name kind msg in
  (fits lim (zlen (exc_bytes rh name kind msg)) = true -> out = exc_bytes rh name kind msg) /\
  (fits lim (min_error_frame opid name kind msg - 4) = true -> classify_reply out = Some (opid, Some kind)) /\
  (fits lim (min_error_frame opid name kind msg - 4) = false -> out = []).
Proof.
  intros Hnd Ho Hh Hn Hk Hm. cbv zeta.
  destruct (opid_only_facts rh opid Ho) as (_ & Hs1 & Hs2 & Ho2).
  pose proof (min_error_frame_eq rh opid name kind msg Ho) as Hmin.
  replace (min_error_frame opid name kind msg - 4) with (zlen (exc_bytes (opid_only rh) name kind msg)) by lia.
  assert (Hle : zlen (exc_bytes (opid_only rh) name kind msg) <= zlen (exc_bytes rh name kind msg))
    by (rewrite !exc_bytes_length; lia).
  assert (Hc1 : classify_reply (exc_bytes rh name kind msg) = Some (opid, Some kind)).
  { apply classify_exc_bytes; try assumption. rewrite to_map_id by exact Hnd. exact Ho. }
  assert (Hc2 : classify_reply (exc_bytes (opid_only rh) name kind msg) = Some (opid, Some kind)).
  { apply classify_exc_bytes; try assumption. lia. }
  unfold spec_error.
  destruct (fits lim (zlen (exc_bytes rh name kind msg))) eqn:E1.
  - rewrite (fits_mono lim _ _ Hle E1).
    split; [intros _; reflexivity|]. split; [intros _; exact Hc1|]. intros H; discriminate H.
  - destruct (fits lim (zlen (exc_bytes (opid_only rh) name kind msg))) eqn:E2.
    + split; [intros H; discriminate H|]. split; [intros _; exact Hc2|]. intros H; discriminate H.
    + split; [intros H; discriminate H|]. split; [intros H; discriminate H|]. intros _; reflexivity.
Qed.

(** * The table of the property over a bounded output, plan by plan *)
(** SendError (arguments not decodable, TApplicationException, other error) *)
Theorem bounded_error lim chunk etext rh name kind msg opid :
  chunk_ok chunk ->
  plan_wf opid (PError rh name kind msg) -> plan_small etext (PError rh name kind msg) ->
  let r := run_plan lim chunk true etext (PError rh name kind msg) in
  let out := bo_data (snd r) in
  fst r = false /\
  (fits lim (zlen (exc_bytes rh name kind msg)) = true -> out = exc_bytes rh name kind msg) /\
  (fits lim (min_error_frame opid name kind msg - 4) = true -> classify_reply out = Some (opid, Some kind)) /\
  (fits lim (min_error_frame opid name kind msg - 4) = false -> out = []).
Proof.
  intros Hc (Hnd & Ho & Hk) (Hh & Hn & Hm). cbv zeta.
  destruct (run_plan_spec lim chunk etext (PError rh name kind msg) Hc) as (H1 & H2 & _).
  rewrite H1, H2. cbn [spec_plan fst snd]. split; [reflexivity|].
  apply spec_error_cases; assumption.
Qed.

(** the unknown-method answer; Process returns an error exactly when nothing could be left *)
Theorem bounded_unknown lim chunk etext rh name opid :
  chunk_ok chunk ->
  plan_wf opid (PUnknown rh name) -> plan_small etext (PUnknown rh name) ->
  let r := run_plan lim chunk true etext (PUnknown rh name) in
  let out := bo_data (snd r) in
  let msg := unknown_function ++ name in
  (fst r = true <-> out = []) /\
  (fits lim (zlen (exc_bytes rh name ex_unknown_method msg)) = true -> out = exc_bytes rh name ex_unknown_method msg) /\
  (fits lim (min_error_frame opid name ex_unknown_method msg - 4) = true ->
   classify_reply out = Some (opid, Some ex_unknown_method)) /\
  (fits lim (min_error_frame opid name ex_unknown_method msg - 4) = false -> out = []).
Proof.
  intros Hc (Hnd & Ho) (Hh & Hn). cbv zeta.
  destruct (run_plan_spec lim chunk etext (PUnknown rh name) Hc) as (H1 & H2 & _).
  rewrite H1, H2. cbn [spec_plan fst snd]. split.
  - destruct (spec_error lim rh name ex_unknown_method (unknown_function ++ name)); split; intros H; try reflexivity; discriminate H.
  - apply spec_error_cases; try assumption.
    + lia.
    + apply in_range_const. unfold ex_unknown_method. lia.
    + rewrite zlen_app. change (zlen unknown_function) with 17. lia.
Qed.

(** SendReply: the normal reply iff it fits; otherwise RESPONSE_TOO_LARGE (INTERNAL_ERROR for a result whose
    Write fails before the limit is reached), with all headers, or with the op id only, or nothing *)
Theorem bounded_reply lim chunk etext rh name rb wok opid :
  chunk_ok chunk ->
  plan_wf opid (PReply rh name rb wok) -> plan_small etext (PReply rh name rb wok) ->
  let r := run_plan lim chunk true etext (PReply rh name rb wok) in
  let out := bo_data (snd r) in
  let normal := msg_bytes rh name mt_reply rb in
  let kind := if fits lim (zlen normal) then ex_internal_error else ex_response_too_large in
  fst r = false /\
  (fits lim (zlen normal) = true -> wok = true -> out = normal /\ classify_reply out = Some (opid, None)) /\
  (fits lim (zlen normal) = false \/ wok = false ->
     (fits lim (zlen (exc_bytes rh name kind etext)) = true -> out = exc_bytes rh name kind etext) /\
     (fits lim (min_error_frame opid name kind etext - 4) = true -> classify_reply out = Some (opid, Some kind)) /\
     (fits lim (min_error_frame opid name kind etext - 4) = false -> out = [])).
Proof.
  intros Hc (Hnd & Ho) (Hh & Hn & Hm). cbv zeta.
  destruct (run_plan_spec lim chunk etext (PReply rh name rb wok) Hc) as (H1 & H2 & _).
  rewrite H1, H2. cbn [spec_plan fst snd]. split; [reflexivity|]. split.
  - intros Hf Hw. rewrite Hf, Hw. split; [reflexivity|].
    apply classify_reply_reply; try assumption. rewrite to_map_id by exact Hnd. exact Ho.
  - intros Hcase. destruct (fits lim (zlen (msg_bytes rh name mt_reply rb))) eqn:Hf.
    + destruct Hcase as [Hx|Hw]; [discriminate Hx|]. rewrite Hw.
      apply spec_error_cases; try assumption. apply in_range_const. unfold ex_internal_error. lia.
    + apply spec_error_cases; try assumption. apply in_range_const. unfold ex_response_too_large. lia.
Qed.

(** in every case: at most one Flush, the last thing that happens, and what is then in the buffer is one
    well-formed REPLY or EXCEPTION with the op id of the plan; otherwise the buffer is empty *)
Theorem bounded_wellformed lim chunk etext p opid :
  chunk_ok chunk -> plan_wf opid p -> plan_small etext p ->
  let s := snd (run_plan lim chunk true etext p) in
  closed_out s /\ (bo_data s = [] \/ exists k, classify_reply (bo_data s) = Some (opid, k)).
Proof.
  intros Hc Hwf Hsm. cbv zeta. split; [apply run_plan_spec; exact Hc|].
  destruct p as [| |rh name|rh name kind msg|rh name rb wok].
  - left. reflexivity.
  - left. reflexivity.
  - destruct (bounded_unknown lim chunk etext rh name opid Hc Hwf Hsm) as (_ & _ & H3 & H4).
    destruct (fits lim (min_error_frame opid name ex_unknown_method (unknown_function ++ name) - 4)).
    + right. eexists. apply H3. reflexivity.
    + left. apply H4. reflexivity.
  - destruct (bounded_error lim chunk etext rh name kind msg opid Hc Hwf Hsm) as (_ & _ & H3 & H4).
    destruct (fits lim (min_error_frame opid name kind msg - 4)).
    + right. eexists. apply H3. reflexivity.
    + left. apply H4. reflexivity.
  - destruct (bounded_reply lim chunk etext rh name rb wok opid Hc Hwf Hsm) as (_ & H2 & H3).
    destruct (fits lim (zlen (msg_bytes rh name mt_reply rb))) eqn:Hf.
    + destruct wok.
      * right. eexists. apply H2; reflexivity.
      * destruct (H3 (or_intror eq_refl)) as (_ & G2 & G3).
        destruct (fits lim (min_error_frame opid name ex_internal_error etext - 4)).
        -- right. eexists. apply G2. reflexivity.
        -- left. apply G3. reflexivity.
    + destruct (H3 (or_introl eq_refl)) as (_ & G2 & G3).
      destruct (fits lim (min_error_frame opid name ex_response_too_large etext - 4)).
      * right. eexists. apply G2. reflexivity.
      * left. apply G3. reflexivity.
Qed.

(** * From requests to plans: the plan of a request with decodable headers and envelope is well-formed
      with the REQUEST's op id, and answers as the table of Model/Processor.v says *)
Definition plan_answer (p : plan) : answer :=
  match p with
  | PFail | PSilent => ANone
  | PUnknown _ _ => AExc ex_unknown_method
  | PError _ _ kind _ => AExc kind
  | PReply _ _ _ wok => if wok then AReply else AExc ex_internal_error
  end.

Lemma response_wf hm opid extra :
  Headers.lookup opid_header extra = None ->
  NoDup (keys (Processor.assign_all (response_headers hm opid) extra)) /\
  Headers.lookup opid_header (Processor.assign_all (response_headers hm opid) extra) = Some opid.
Proof.
  intros He. rewrite assign_all_same. split.
  - apply assign_all_nodup, response_headers_nodup.
  - rewrite lookup_assign_all by apply response_headers_nodup. rewrite He. apply response_headers_opid.
Qed.

Theorem plan_of_request svc h etext frame opid a :
  handler_ok h ->
  expected_answer svc h frame = Some (opid, a) ->
  plan_wf opid (plan_of svc h etext frame) /\ plan_answer (plan_of svc h etext frame) = a /\
  plan_of svc h etext frame <> PFail.
Proof.
  intros Hh He. unfold expected_answer in He. unfold plan_of.
  destruct (read_header frame) as [[hdrs r1]| | |]; try discriminate.
  destruct (Headers.lookup opid_header (to_map hdrs)) as [op|] eqn:Hop; [|discriminate].
  destruct (read_message_begin r1) as [[[[name mt] seq] r2]| | |]; try discriminate.
  inversion He; subst op; clear He. subst a.
  pose proof (response_wf (to_map hdrs) opid [] eq_refl) as [Hnd0 Ho0]. cbn in Hnd0, Ho0.
  assert (Hpe : in_range 4 ex_protocol_error) by (apply in_range_const; unfold ex_protocol_error; lia).
  assert (Hie : in_range 4 ex_internal_error) by (apply in_range_const; unfold ex_internal_error; lia).
  destruct (find_method svc name) as [md|].
  - destruct (md_read md r2) as [[args rest]| | |].
    + destruct (Hh name (remove_key opid_header (to_map hdrs)) args) as [Hx Hk].
      destruct (h name (remove_key opid_header (to_map hdrs)) args) as [extra o]. cbn [fst snd] in *.
      destruct (response_wf (to_map hdrs) opid extra Hx) as [Hnd Ho].
      destruct o as [rb wok|kind msg|text]; cbv beta iota in Hk.
      * destruct (md_oneway md); cbn [plan_wf plan_answer].
        -- split; [exact I|]. split; [reflexivity|discriminate].
        -- split; [split; assumption|]. split; [reflexivity|discriminate].
      * cbn [plan_wf plan_answer]. split; [split; [assumption|split; assumption]|]. split; [reflexivity|discriminate].
      * cbn [plan_wf plan_answer]. split; [split; [assumption|split; assumption]|]. split; [reflexivity|discriminate].
    + cbn [plan_wf plan_answer]. split; [split; [assumption|split; assumption]|]. split; [reflexivity|discriminate].
    + cbn [plan_wf plan_answer]. split; [split; [assumption|split; assumption]|]. split; [reflexivity|discriminate].
    + cbn [plan_wf plan_answer]. split; [split; [assumption|split; assumption]|]. split; [reflexivity|discriminate].
  - cbn [plan_wf plan_answer]. split; [split; assumption|]. split; [reflexivity|discriminate].
Qed.

(** the headline: for EVERY limit, service, handler, error text, cutting of the result and request with
    decodable headers and envelope, Process over a bounded output ends with at most one flushed message, and
    what it leaves is empty or one well-formed REPLY / EXCEPTION carrying the REQUEST's op id *)
Theorem process_b_wellformed lim chunk svc h etext frame opid a :
  chunk_ok chunk -> handler_ok h ->
  expected_answer svc h frame = Some (opid, a) ->
  plan_small etext (plan_of svc h etext frame) ->
  let s := snd (process_b lim chunk svc h true etext frame) in
  closed_out s /\ (bo_data s = [] \/ exists k, classify_reply (bo_data s) = Some (opid, k)).
Proof.
  intros Hc Hh He Hs. destruct (plan_of_request svc h etext frame opid a Hh He) as (Hwf & _ & _).
  unfold process_b. apply bounded_wellformed; assumption.
Qed.

(** for ANY frame whatsoever: at most one Flush, it is the last event, and the buffer is non-empty iff it
    happened *)
Theorem process_b_closed lim chunk svc h etext frame :
  chunk_ok chunk -> closed_out (snd (process_b lim chunk svc h true etext frame)).
Proof. intros Hc. unfold process_b. apply run_plan_spec. exact Hc. Qed.

(** Process returns an error only for frames it cannot read, or when no answer to an unknown method fits *)
Theorem process_b_error lim chunk svc h etext frame opid a :
  chunk_ok chunk -> handler_ok h ->
  expected_answer svc h frame = Some (opid, a) ->
  fst (process_b lim chunk svc h true etext frame) = true ->
  a = AExc ex_unknown_method /\ bo_data (snd (process_b lim chunk svc h true etext frame)) = [].
Proof.
  intros Hc Hh He. destruct (plan_of_request svc h etext frame opid a Hh He) as (_ & Ha & Hnf).
  unfold process_b.
  destruct (run_plan_spec lim chunk etext (plan_of svc h etext frame) Hc) as (H1 & H2 & _).
  rewrite H1, H2. destruct (plan_of svc h etext frame) as [| |rh name|rh name kind msg|rh name rb wok];
    cbn [spec_plan fst snd plan_answer] in *; try discriminate.
  - contradiction.
  - intros H. split; [symmetry; exact Ha|].
    destruct (spec_error lim rh name ex_unknown_method (unknown_function ++ name)); [reflexivity|discriminate H].
Qed.

(** * Servers *)
(** FNatsServer publishes exactly what is left in the 1 MiB buffer, if anything: an empty buffer means
    nothing is published and the caller's Request runs into its timeout *)
Theorem nats_frame_b_spec chunk svc h etext frame :
  chunk_ok chunk ->
  nats_frame_b chunk svc h etext frame =
  match bo_data (snd (process_b (Some nats_max) chunk svc h true etext frame)) with [] => None | d => Some d end.
Proof.
  intros Hc. unfold nats_frame_b, process_b.
  destruct (run_plan_spec (Some nats_max) chunk etext (plan_of svc h etext frame) Hc) as (H1 & H2 & _).
  destruct (run_plan (Some nats_max) chunk true etext (plan_of svc h etext frame)) as [err s].
  cbn [fst snd] in *. rewrite H1, H2.
  destruct (plan_of svc h etext frame) as [| |rh name|rh name kind msg|rh name rb wok]; cbn [spec_plan fst snd];
    try reflexivity.
  destruct (spec_error (Some nats_max) rh name ex_unknown_method (unknown_function ++ name)); reflexivity.
Qed.

(** the HTTP handler buffers without bound and compares afterwards: the unbounded answer, or 413 *)
Theorem http_frame_b_spec limit chunk svc h etext frame :
  chunk_ok chunk ->
  http_frame_b limit chunk svc h etext frame =
  match http_frame svc h etext frame with
  | H500 => HB500
  | H200 body => if (0 <? limit) && (limit <? zlen body) then HB413 else HB200 body
  end.
Proof.
  intros Hc. unfold http_frame_b, http_frame.
  destruct (process_b_refines chunk svc h true etext frame Hc) as (H1 & _ & H3).
  destruct (process_b None chunk svc h true etext frame) as [err s].
  destruct (process svc h true etext frame) as [err' evs]. cbn [fst snd] in *. subst err'. rewrite H3.
  destruct err; reflexivity.
Qed.

(** * every cutting by sizes is a cutting *)
Lemma split_sizes_concat sizes : forall b, concat (split_sizes sizes b) = b.
Proof.
  induction sizes as [|n r IH]; intros b; cbn [split_sizes].
  - destruct b; cbn [concat]; rewrite ?app_nil_r; reflexivity.
  - cbn [concat]. rewrite IH. apply firstn_skipn.
Qed.

Lemma split_sizes_ok sizes : chunk_ok (split_sizes sizes).
Proof. intros b. apply split_sizes_concat. Qed.

(** * Corollary: the reply is the normal one iff it fits; the kind is RESPONSE_TOO_LARGE exactly when it
      does not *)
Theorem bounded_reply_iff lim chunk etext rh name rb opid :
  chunk_ok chunk ->
  plan_wf opid (PReply rh name rb true) -> plan_small etext (PReply rh name rb true) ->
  let out := bo_data (snd (run_plan lim chunk true etext (PReply rh name rb true))) in
  let normal := msg_bytes rh name mt_reply rb in
  (classify_reply out = Some (opid, None) <-> fits lim (zlen normal) = true) /\
  (out = normal <-> fits lim (zlen normal) = true) /\
  (out <> [] -> (classify_reply out = Some (opid, Some ex_response_too_large) <-> fits lim (zlen normal) = false)).
Proof.
  intros Hc Hwf Hsm. cbv zeta.
  destruct (bounded_reply lim chunk etext rh name rb true opid Hc Hwf Hsm) as (_ & H2 & H3).
  cbv zeta in H2, H3.
  destruct (fits lim (zlen (msg_bytes rh name mt_reply rb))) eqn:Hf.
  - destruct (H2 eq_refl eq_refl) as [E C]. rewrite E in *. split; [|split].
    + split; intros _; [reflexivity|exact C].
    + split; intros _; reflexivity.
    + intros _. rewrite C. split; intros H; discriminate H.
  - destruct (H3 (or_introl eq_refl)) as (_ & G2 & G3).
    destruct (fits lim (min_error_frame opid name ex_response_too_large etext - 4)) eqn:Hm.
    + specialize (G2 eq_refl). split; [|split].
      * rewrite G2. split; intros H; discriminate H.
      * split; [|intros H; discriminate H]. intros E. rewrite E in G2.
        destruct Hwf as [Hnd Ho]. destruct Hsm as (Hh & Hn & _).
        unfold msg_bytes in G2. rewrite (classify_reply_reply rh name rb opid Hh Hn) in G2; [discriminate G2|].
        rewrite to_map_id by exact Hnd. exact Ho.
      * intros _. split; intros _; [reflexivity|exact G2].
    + specialize (G3 eq_refl). rewrite G3. split; [|split].
      * split; intros H; discriminate H.
      * split; [|intros H; discriminate H]. intros E. symmetry in E.
        exfalso. exact (msg_bytes_nonempty _ _ _ _ E).
      * intros H. contradiction.
Qed.
