(** A computable check of the hypotheses of the round-trip theorem of ParserRoundTripFile.v, and its
    soundness: [fragment_okb w0 ds = true] implies the hypotheses, hence
    parse_idl (w0 ++ render_file ds) = POk (frugal_of ds).  The judge Judge/JParserFragment.v runs
    this check on generated fragment descriptions, so that an accepted case is an instance of the
    theorem -- and compares [frugal_of ds] with what the real parser returned on [render_file ds]. *)
From Coq Require Import ZArith List Bool Arith Lia String.
From FV Require Import Model.PegSyntax Model.Peg Model.ParserStrings Model.ParserAst Model.ParserActions Model.Parser
     Proofs.ParserLexProofs Proofs.ParserEvals Proofs.ParserRoundTrip Proofs.ParserRoundTripEnum
     Proofs.ParserRoundTripStruct Proofs.ParserRoundTripConst Proofs.ParserRoundTripService Proofs.ParserRoundTripFile.
Import ListNotations.
Local Open Scope Z_scope.

Definition asciib (c : Z) : bool := (0 <=? c) && (c <? 128).
Definition run_ofb (p : Z -> bool) (w : bytes) : bool := forallb (fun c => asciib c && p c) w.
Definition int64b (z : Z) : bool := (- 9223372036854775808 <=? z) && (z <=? 9223372036854775807).
Definition is_baseb (b : bytes) : bool := existsb (beqb b) base_lits.
Definition is_sepb (c : Z) : bool := (c =? 44) || (c =? 59).
Definition nilb (w : bytes) : bool := match w with [] => true | _ => false end.
Definition identb (c : Z) (t : bytes) : bool := asciib c && p_start c && run_ofb p_cont t.

Lemma asciib_ok : forall c, asciib c = true -> ascii c.
Proof. intros c H. unfold asciib in H. apply andb_true_iff in H. destruct H as [H1 H2]. apply Z.leb_le in H1. apply Z.ltb_lt in H2. split; assumption. Qed.

Lemma run_ofb_ok : forall p w, run_ofb p w = true -> run_of p w.
Proof.
  intros p w H. unfold run_ofb in H. rewrite forallb_forall in H. apply Forall_forall. intros c Hc.
  specialize (H c Hc). apply andb_true_iff in H. destruct H as [Ha Hp]. split; [exact (asciib_ok c Ha) | exact Hp].
Qed.

Lemma int64b_ok : forall z, int64b z = true -> int64 z.
Proof. intros z H. unfold int64b in H. apply andb_true_iff in H. destruct H as [H1 H2]. apply Z.leb_le in H1, H2. split; assumption. Qed.

Lemma beqb_eq : forall a b, beqb a b = true -> a = b.
Proof.
  induction a as [|x a IH]; intros [|y b] H; cbn [beqb] in H; try discriminate; [reflexivity|].
  apply andb_true_iff in H. destruct H as [Hx Hr]. apply Z.eqb_eq in Hx. subst y. f_equal. exact (IH b Hr).
Qed.

Lemma is_baseb_ok : forall b, is_baseb b = true -> is_base b.
Proof.
  intros b H. unfold is_baseb in H. apply existsb_exists in H. destruct H as (l & Hin & Heq).
  apply beqb_eq in Heq. subst l. exact Hin.
Qed.

Lemma is_sepb_ok : forall c, is_sepb c = true -> is_sep c.
Proof. intros c H. unfold is_sepb in H. apply orb_true_iff in H. destruct H as [H|H]; apply Z.eqb_eq in H; [left | right]; exact H. Qed.

Lemma nilb_imp : forall (w : bytes) (b : bool), (nilb w = true -> b = true) -> (w = [] -> b = true).
Proof. intros w b H ->. exact (H eq_refl). Qed.

Lemma identb_ok : forall c t, identb c t = true -> ascii c /\ p_start c = true /\ run_of p_cont t.
Proof.
  intros c t H. unfold identb in H. apply andb_true_iff in H. destruct H as [H Ht]. apply andb_true_iff in H.
  destruct H as [Hc Hp]. split; [exact (asciib_ok c Hc)|]. split; [exact Hp | exact (run_ofb_ok _ _ Ht)].
Qed.

Ltac band H := repeat match type of H with (_ && _) = true => let H2 := fresh H in apply andb_true_iff in H; destruct H as [H H2] end.

Definition nonnilb (w : bytes) : bool := negb (nilb w).
Lemma nonnilb_ok : forall w, nonnilb w = true -> w <> [].
Proof. intros [|c w] H; [discriminate | discriminate]. Qed.

Ltac fin_ok := repeat match goal with |- _ /\ _ => split end; try assumption; try (apply run_ofb_ok; assumption); try (apply is_baseb_ok; assumption);
  try (apply is_sepb_ok; assumption); try (apply int64b_ok; assumption); try (apply nonnilb_ok; assumption).

(** ** typedefs and enums *)
Definition td_okb (d : td_spec) : bool :=
  run_ofb p_blank (td_g1 d) && is_baseb (td_base d) && run_ofb p_blank (td_g2 d) && nonnilb (td_g2 d)
  && identb (td_c d) (td_t d) && run_ofb p_blank (td_g3 d) && run_ofb p_wsnl (td_w d).

Lemma td_okb_ok : forall d, td_okb d = true -> td_ok d.
Proof.
  intros d H. unfold td_okb in H. apply andb_true_iff in H. destruct H as [H Hw]. apply andb_true_iff in H.
  destruct H as [H Hg3]. apply andb_true_iff in H. destruct H as [H Hid]. apply andb_true_iff in H.
  destruct H as [H Hg2n]. apply andb_true_iff in H.
  destruct H as [H Hg2]. apply andb_true_iff in H. destruct H as [Hg1 Hb].
  destruct (identb_ok _ _ Hid) as (Hc & Hp & Ht). unfold td_ok. fin_ok.
Qed.

Definition tail_okb_l (t : ev_tail) (last : bool) : bool :=
  match t with
  | T_plain W => run_ofb p_wsnl W && (negb (nilb W) || last)
  | T_sep g sep W => run_ofb p_blank g && is_sepb sep && run_ofb p_wsnl W
  | T_val g1 g z W => run_ofb p_blank g1 && run_ofb p_blank g && int64b z && run_ofb p_wsnl W
  | T_val_sep g1 g z g2 sep W =>
    run_ofb p_blank g1 && run_ofb p_blank g && int64b z && run_ofb p_blank g2 && is_sepb sep && run_ofb p_wsnl W
  end.
Definition ev_okb_l (v : ev_spec) (last : bool) : bool := identb (v_c v) (v_t v) && tail_okb_l (v_tail v) last.
Fixpoint evs_okb (vs : list ev_spec) : bool :=
  match vs with
  | [] => true
  | v :: r => ev_okb_l v (match r with [] => true | _ => false end) && evs_okb r
  end.

Lemma plain_last : forall (W : bytes) (last : bool), negb (nilb W) || last = true -> W = [] -> last = true.
Proof. intros W last H ->. exact H. Qed.

Lemma tail_okb_l_ok : forall t last, tail_okb_l t last = true -> tail_ok_l t last.
Proof.
  intros [W|g sep W|g1 g z W|g1 g z g2 sep W] last H; cbn [tail_okb_l tail_ok_l tail_ok] in *; band H.
  - split; [exact (run_ofb_ok _ _ H) | exact (plain_last W last H0)].
  - fin_ok.
  - fin_ok.
  - fin_ok.
Qed.

Lemma evs_okb_ok : forall vs, evs_okb vs = true -> evs_ok vs.
Proof.
  induction vs as [|v r IH]; intros H; [exact I|]. cbn [evs_okb evs_ok] in *. band H. split; [|exact (IH H0)].
  unfold ev_okb_l in H. band H. destruct (identb_ok _ _ H) as (Hc & Hp & Ht).
  unfold ev_ok_l. fin_ok. apply tail_okb_l_ok; assumption.
Qed.

Definition en_okb (e : en_spec) : bool :=
  run_ofb p_blank (e_g1 e) && identb (e_c e) (e_t e) && run_ofb p_wsnl (e_w1 e) && run_ofb p_wsnl (e_w2 e)
  && evs_okb (e_vs e) && run_ofb p_blank (e_g3 e) && run_ofb p_wsnl (e_w e)
  && match enum_overflow (map ev_pair (e_vs e)) 0 false with None => true | Some _ => false end.

Lemma en_okb_ok : forall e, en_okb e = true -> en_ok e.
Proof.
  intros e H. unfold en_okb in H. band H.
  match goal with Hid : identb _ _ = true |- _ => destruct (identb_ok _ _ Hid) as (Hc & Hp & Ht) end.
  unfold en_ok. fin_ok; try (apply evs_okb_ok; assumption).
  match goal with Hov : match enum_overflow _ _ _ with None => true | Some _ => false end = true |- _ =>
    destruct (enum_overflow (map ev_pair (e_vs e)) 0 false); [discriminate Hov | reflexivity] end.
Qed.

(** ** types, fields, struct-likes *)
Fixpoint ty_okb (t : ty_spec) : bool :=
  match t with
  | T_base b g => is_baseb b && run_ofb p_blank g
  | T_list w1 t g | T_set w1 t g => run_ofb p_blank w1 && ty_okb t && run_ofb p_blank g
  | T_map w1 k w2 v g => run_ofb p_blank w1 && ty_okb k && run_ofb p_blank w2 && ty_okb v && run_ofb p_blank g
  end.

Lemma ty_okb_ok : forall t, ty_okb t = true -> ty_ok t.
Proof.
  induction t as [b g|w1 t IH g|w1 t IH g|w1 k IHk w2 v IHv g]; intros H; cbn [ty_okb ty_ok] in *; band H;
    fin_ok; auto.
Qed.

Definition ty_tightb (t : ty_spec) : bool := match t with T_base _ g => nonnilb g | _ => true end.
Lemma ty_tightb_ok : forall t, ty_tightb t = true -> ty_tight t.
Proof. intros [b g|? ? ?|? ? ?|? ? ? ? ?] H; cbn in *; try exact I. exact (nonnilb_ok g H). Qed.
Definition mod_sepb (m : fmod_spec) : bool := match m with M_default => true | _ => nonnilb (mod_gap m) end.
Lemma mod_sepb_ok : forall m, mod_sepb m = true -> match m with M_default => True | _ => mod_gap m <> [] end.
Proof. intros [|g|g] H; cbn in *; [exact I | exact (nonnilb_ok g H) | exact (nonnilb_ok g H)]. Qed.

Definition fd_tail_okb_l (tl : fd_tail) (last : bool) : bool :=
  match tl with
  | FT_plain W => run_ofb p_wsnl W && (negb (nilb W) || last)
  | FT_sep W sep W' => run_ofb p_wsnl W && is_sepb sep && run_ofb p_wsnl W'
  end.
Definition fd_okb_l (f : fd_spec) (last : bool) : bool :=
  int64b (fd_id f) && run_ofb p_blank (fd_g1 f) && run_ofb p_blank (fd_g2 f) && run_ofb p_blank (mod_gap (fd_mod f))
  && mod_sepb (fd_mod f) && ty_okb (fd_ty f) && ty_tightb (fd_ty f) && identb (fd_c f) (fd_t f) && fd_tail_okb_l (fd_tl f) last.
Fixpoint fds_okb (fs : list fd_spec) : bool :=
  match fs with
  | [] => true
  | f :: r => fd_okb_l f (match r with [] => true | _ => false end) && fds_okb r
  end.

Lemma fds_okb_ok : forall fs, fds_okb fs = true -> fds_ok fs.
Proof.
  induction fs as [|f r IH]; intros H; [exact I|]. cbn [fds_okb fds_ok] in *. band H. split; [|exact (IH H0)].
  unfold fd_okb_l in H. band H.
  match goal with Hid : identb _ _ = true |- _ => destruct (identb_ok _ _ Hid) as (Hc & Hp & Ht) end.
  unfold fd_ok_l, mod_ok. fin_ok; try (apply ty_okb_ok; assumption); try (apply ty_tightb_ok; assumption);
    try (apply mod_sepb_ok; assumption).
  match goal with Htl : fd_tail_okb_l _ _ = true |- _ => rename Htl into Htail end.
  destruct (fd_tl f) as [W|W sep W']; cbn [fd_tail_okb_l fd_tail_ok_l fd_tail_ok] in *; band Htail.
  - split; [apply run_ofb_ok; assumption | eapply plain_last; eassumption].
  - fin_ok.
Qed.

Definition sl_okb (s : sl_spec) : bool :=
  identb (sl_c s) (sl_t s) && run_ofb p_wsnl (sl_w1 s) && run_ofb p_wsnl (sl_w2 s) && fds_okb (sl_fs s)
  && run_ofb p_blank (sl_g3 s) && run_ofb p_wsnl (sl_w s).
Definition st_okb (d : st_spec) : bool := run_ofb p_blank (st_g1 d) && sl_okb (st_sl d).

Lemma st_okb_ok : forall d, st_okb d = true -> st_ok d.
Proof.
  intros d H. unfold st_okb, sl_okb in H.
  repeat match goal with H : (_ && _) = true |- _ => apply andb_true_iff in H; destruct H end.
  match goal with Hid : identb _ _ = true |- _ => destruct (identb_ok _ _ Hid) as (Hc & Hp & Ht) end.
  unfold st_ok, sl_ok. fin_ok. apply fds_okb_ok; assumption.
Qed.

(** ** constants *)
Definition cv_okb (v : cv_spec) : bool := match v with CV_int z => int64b z | CV_str c => run_ofb p_strch c end.
Definition cn_okb (d : cn_spec) : bool :=
  run_ofb p_blank (cn_g1 d) && ty_okb (cn_ty d) && ty_tightb (cn_ty d) && identb (cn_c d) (cn_t d) && run_ofb p_blank (cn_g2 d)
  && run_ofb p_blank (cn_g3 d) && cv_okb (cn_v d) && run_ofb p_blank (cn_g4 d) && run_ofb p_wsnl (cn_w d).

Lemma cn_okb_ok : forall d, cn_okb d = true -> cn_ok d.
Proof.
  intros d H. unfold cn_okb in H. band H.
  match goal with Hid : identb _ _ = true |- _ => destruct (identb_ok _ _ Hid) as (Hc & Hp & Ht) end.
  unfold cn_ok. fin_ok; try (apply ty_okb_ok; assumption); try (apply ty_tightb_ok; assumption).
  match goal with Hv : cv_okb _ = true |- _ => rename Hv into Hcv end.
  destruct (cn_v d); cbn [cv_okb cv_ok] in *; [exact (int64b_ok _ Hcv) | exact (run_ofb_ok _ _ Hcv)].
Qed.

(** ** services *)
Definition nl_ledb (w : bytes) : bool := match w with [] => true | d :: _ => d =? 10 end.
Lemma nl_ledb_ok : forall w, nl_ledb w = true -> nl_led w.
Proof. intros [|d w] H; [exact I|]. cbn in *. apply Z.eqb_eq in H. exact H. Qed.

Definition ow_okb (ow : ow_spec) : bool :=
  match ow with OW_none => true | OW_oneway W => run_ofb p_wsnl W && nonnilb W end.
Definition ret_okb (r : ret_spec) : bool :=
  match r with
  | R_void W => run_ofb p_wsnl W && nonnilb W
  | R_type t W => ty_okb t && run_ofb p_wsnl W && nl_ledb W && (ty_tightb t || nonnilb W)
  end.
Definition fn_tail_okb (tl : fn_tail) : bool :=
  match tl with
  | FN_plain W2 => run_ofb p_wsnl W2
  | FN_sep W2 sep W3 => run_ofb p_wsnl W2 && is_sepb sep && run_ofb p_wsnl W3
  | FN_throws W2 W4 W5 fs g sep W3 =>
    run_ofb p_wsnl W2 && run_ofb p_wsnl W4 && run_ofb p_wsnl W5 && fds_okb fs && run_ofb p_blank g
    && match sep with Some s => is_sepb s | None => nl_ledb W3 end && run_ofb p_wsnl W3
  end.
Definition fn_okb (f : fn_spec) : bool :=
  ow_okb (fn_ow f) && ret_okb (fn_ret f) && identb (fn_c f) (fn_t f) && run_ofb p_blank (fn_g f)
  && run_ofb p_wsnl (fn_w f) && fds_okb (fn_args f) && fn_tail_okb (fn_tl f).
Definition sv_okb (s : sv_spec) : bool :=
  run_ofb p_blank (v_g1 s) && identb (sv_c s) (sv_t s) && run_ofb p_wsnl (sv_w1 s) && run_ofb p_wsnl (sv_w2 s)
  && forallb fn_okb (sv_fns s) && run_ofb p_blank (sv_g3 s) && run_ofb p_wsnl (sv_w s).

Ltac band_all := repeat match goal with H : (_ && _) = true |- _ => apply andb_true_iff in H; destruct H end.

Lemma fn_okb_ok : forall f, fn_okb f = true -> fn_ok f.
Proof.
  intros f H. unfold fn_okb in H. band_all.
  match goal with Hid : identb _ _ = true |- _ => destruct (identb_ok _ _ Hid) as (Hc & Hp & Ht) end.
  unfold fn_ok. fin_ok; try (apply fds_okb_ok; assumption).
  - destruct (fn_ow f); cbn [ow_okb ow_ok] in *; [exact I | band_all; fin_ok].
  - destruct (fn_ret f); cbn [ret_okb ret_ok] in *; band_all; fin_ok;
      try (apply ty_okb_ok; assumption); try (apply nl_ledb_ok; assumption).
    match goal with Hor : (ty_tightb _ || nonnilb _) = true |- _ => apply orb_true_iff in Hor; destruct Hor as [Ho|Ho];
      [left; exact (ty_tightb_ok _ Ho) | right; exact (nonnilb_ok _ Ho)] end.
  - destruct (fn_tl f) as [W2|W2 sep W3|W2 W4 W5 fs g sep W3]; cbn [fn_tail_okb fn_tail_ok] in *; band_all; fin_ok;
      try (apply fds_okb_ok; assumption).
    destruct sep; [apply is_sepb_ok | apply nl_ledb_ok]; assumption.
Qed.

Lemma sv_okb_ok : forall s, sv_okb s = true -> sv_ok s.
Proof.
  intros s H. unfold sv_okb in H. band_all.
  match goal with Hid : identb _ _ = true |- _ => destruct (identb_ok _ _ Hid) as (Hc & Hp & Ht) end.
  unfold sv_ok. fin_ok.
  match goal with Hf : forallb fn_okb _ = true |- _ => rewrite forallb_forall in Hf; apply Forall_forall; intros f Hin;
    exact (fn_okb_ok f (Hf f Hin)) end.
Qed.

(** ** files *)
Definition xdecl_okb (d : xdecl) : bool :=
  match d with X_typedef t => td_okb t | X_enum e => en_okb e | X_struct s => st_okb s | X_const c => cn_okb c
  | X_service v => sv_okb v end.
Definition fragment_okb (w0 : bytes) (ds : list xdecl) : bool := run_ofb p_wsnl w0 && forallb xdecl_okb ds.

Lemma xdecl_okb_ok : forall d, xdecl_okb d = true -> xdecl_ok d.
Proof.
  intros [t|e|s|c|v] H; cbn [xdecl_okb xdecl_ok] in *; auto using td_okb_ok, en_okb_ok, st_okb_ok, cn_okb_ok, sv_okb_ok.
Qed.

Theorem fragment_check_sound : forall w0 ds,
  fragment_okb w0 ds = true -> parse_idl (w0 ++ render_file ds) = POk (frugal_of ds).
Proof.
  intros w0 ds H. unfold fragment_okb in H. apply andb_true_iff in H. destruct H as [Hw Hds].
  apply roundtrip_file; [exact (run_ofb_ok _ _ Hw)|].
  rewrite forallb_forall in Hds. apply Forall_forall. intros d Hd. exact (xdecl_okb_ok d (Hds d Hd)).
Qed.
