From Coq Require Import List Bool Arith Lia.
From FV Require Import Gen.CtxLockSites Model.LockPaths.
Import ListNotations.

Definition is_w (t : thread) : bool := match t_held t with HWrite => true | _ => false end.
Definition is_r (t : thread) : bool := match t_held t with HRead => true | _ => false end.
Definition count (f : thread -> bool) (l : list thread) : nat := length (filter f l).
Arguments count : simpl never.

Definition thread_ok (t : thread) : Prop := path_ok (t_held t) (t_def t) (t_rest t) = true.

Record minv (s : mstate) : Prop := {
  m_ok : Forall thread_ok (threads s);
  m_w : count is_w (threads s) = if writer s then 1 else 0;
  m_r : count is_r (threads s) = readers s;
  m_excl : writer s = true -> readers s = 0
}.

Lemma count_set l i t t' f :
  nth_error l i = Some t -> count f (set_thread l i t') + (if f t then 1 else 0) = count f l + (if f t' then 1 else 0).
Proof.
  revert i; induction l as [|x l IH]; intros [|i] H; simpl in H; try discriminate.
  - injection H as ->. unfold count. simpl. destruct (f t), (f t'); simpl; lia.
  - specialize (IH i H). unfold count in *. simpl. destruct (f x); simpl; lia.
Qed.

Lemma Forall_set l i (t' : thread) (P : thread -> Prop) : Forall P l -> P t' -> Forall P (set_thread l i t').
Proof.
  revert i; induction l as [|x l IH]; intros i Hl Ht; [destruct i; constructor|].
  inversion Hl; subst. destruct i; simpl; constructor; auto.
Qed.

Lemma init_inv paths : forallb (path_ok HNone false) paths = true -> minv (minit paths).
Proof.
  intros H. split; cbn.
  - rewrite forallb_forall in H. apply Forall_forall. intros t Hin. apply in_map_iff in Hin.
    destruct Hin as (p & <- & Hp). unfold thread_ok. cbn. now apply H.
  - induction paths as [|p ps IH]; [reflexivity|]. cbn in *. apply andb_prop in H. unfold count in *. cbn. apply IH. tauto.
  - induction paths as [|p ps IH]; [reflexivity|]. cbn in *. apply andb_prop in H. unfold count in *. cbn. apply IH. tauto.
  - discriminate.
Qed.

Lemma step_inv s i s' : minv s -> mstep s i = Some s' -> minv s'.
Proof.
  intros [Hok Hw Hr Hex] H. unfold mstep in H.
  destruct (nth_error (threads s) i) as [t|] eqn:Et; [|discriminate].
  assert (Ht : thread_ok t) by (rewrite Forall_forall in Hok; apply Hok; eapply nth_error_In; eassumption).
  unfold thread_ok in Ht.
  pose proof (count_set (threads s) i t) as CW.
  destruct (tstep (writer s) (readers s) t) as [[[w r] t']|] eqn:Es; [|discriminate]. injection H as <-.
  unfold tstep in Es.
  destruct t as [h d rest]. cbn [t_held t_def t_rest] in *.
  destruct rest as [|e rest].
  - (* return with a deferred unlock *)
    destruct h; try discriminate; destruct d; try discriminate; injection Es as <- <- <-.
    + split; cbn.
      * apply Forall_set; auto; try reflexivity.
      * specialize (CW {| t_held := HNone; t_def := false; t_rest := [] |} is_w Et). cbn in CW. destruct (writer s); lia.
      * specialize (CW {| t_held := HNone; t_def := false; t_rest := [] |} is_r Et). cbn in CW. destruct (writer s); lia.
      * intros Hwt. specialize (Hex Hwt). lia.
    + assert (Hwr : writer s = true).
      { specialize (CW {| t_held := HNone; t_def := false; t_rest := [] |} is_w Et). cbn in CW.
        destruct (writer s); [reflexivity|lia]. }
      split; cbn.
      * apply Forall_set; auto; try reflexivity.
      * specialize (CW {| t_held := HNone; t_def := false; t_rest := [] |} is_w Et). cbn in CW. destruct (writer s); lia.
      * specialize (CW {| t_held := HNone; t_def := false; t_rest := [] |} is_r Et). cbn in CW.
        specialize (Hex Hwr). lia.
      * discriminate.
  - destruct e; cbn [path_ok] in Ht.
    + (* CLock *)
      destruct h; try discriminate.
      destruct (negb (writer s) && Nat.eqb (readers s) 0) eqn:En; [|discriminate]. injection Es as <- <- <-.
      apply andb_prop in En. destruct En as [En1 En2]. apply Nat.eqb_eq in En2.
      destruct (writer s) eqn:Ew; [discriminate|].
      split; cbn.
      * apply Forall_set; auto.
      * specialize (CW {| t_held := HWrite; t_def := false; t_rest := rest |} is_w Et). cbn in CW. destruct (writer s); lia.
      * specialize (CW {| t_held := HWrite; t_def := false; t_rest := rest |} is_r Et). cbn in CW. destruct (writer s); lia.
      * intros _. exact En2.
    + (* CRLock *)
      destruct h; try discriminate.
      destruct (negb (writer s)) eqn:En; [|discriminate]. injection Es as <- <- <-.
      destruct (writer s) eqn:Ew; [discriminate|].
      split; cbn.
      * apply Forall_set; auto.
      * specialize (CW {| t_held := HRead; t_def := false; t_rest := rest |} is_w Et). cbn in CW. destruct (writer s); lia.
      * specialize (CW {| t_held := HRead; t_def := false; t_rest := rest |} is_r Et). cbn in CW. destruct (writer s); lia.
      * discriminate.
    + (* CUnlock *)
      destruct h; try discriminate. destruct d; [discriminate|]. injection Es as <- <- <-.
      assert (Hwr : writer s = true).
      { specialize (CW {| t_held := HNone; t_def := false; t_rest := rest |} is_w Et). cbn in CW.
        destruct (writer s); [reflexivity|lia]. }
      split; cbn.
      * apply Forall_set; auto.
      * specialize (CW {| t_held := HNone; t_def := false; t_rest := rest |} is_w Et). cbn in CW. rewrite Hwr in Hw. lia.
      * specialize (CW {| t_held := HNone; t_def := false; t_rest := rest |} is_r Et). cbn in CW. destruct (writer s); lia.
      * discriminate.
    + (* CRUnlock *)
      destruct h; try discriminate. destruct d; [discriminate|]. injection Es as <- <- <-.
      split; cbn.
      * apply Forall_set; auto.
      * specialize (CW {| t_held := HNone; t_def := false; t_rest := rest |} is_w Et). cbn in CW. destruct (writer s); lia.
      * specialize (CW {| t_held := HNone; t_def := false; t_rest := rest |} is_r Et). cbn in CW. destruct (writer s); lia.
      * intros Hwt. specialize (Hex Hwt).
        specialize (CW {| t_held := HNone; t_def := false; t_rest := rest |} is_r Et). cbn in CW. destruct (writer s); lia.
    + (* CDeferUnlock *)
      destruct h; try discriminate. injection Es as <- <- <-.
      split; cbn; auto.
      * apply Forall_set; auto.
      * specialize (CW {| t_held := HWrite; t_def := true; t_rest := rest |} is_w Et). cbn in CW. destruct (writer s); lia.
      * specialize (CW {| t_held := HWrite; t_def := true; t_rest := rest |} is_r Et). cbn in CW. destruct (writer s); lia.
    + (* CDeferRUnlock *)
      destruct h; try discriminate. injection Es as <- <- <-.
      split; cbn; auto.
      * apply Forall_set; auto.
      * specialize (CW {| t_held := HRead; t_def := true; t_rest := rest |} is_w Et). cbn in CW. destruct (writer s); lia.
      * specialize (CW {| t_held := HRead; t_def := true; t_rest := rest |} is_r Et). cbn in CW. destruct (writer s); lia.
    + (* CRead *)
      injection Es as <- <- <-. destruct h; try discriminate;
        (split; cbn; auto;
         [ apply Forall_set; auto
         | match goal with |- context [set_thread _ _ ?t'] => specialize (CW t' is_w Et); cbn in CW; destruct (writer s); lia end
         | match goal with |- context [set_thread _ _ ?t'] => specialize (CW t' is_r Et); cbn in CW; destruct (writer s); lia end ]).
    + (* CWrite *)
      injection Es as <- <- <-. destruct h; try discriminate;
        (split; cbn; auto;
         [ apply Forall_set; auto
         | match goal with |- context [set_thread _ _ ?t'] => specialize (CW t' is_w Et); cbn in CW; destruct (writer s); lia end
         | match goal with |- context [set_thread _ _ ?t'] => specialize (CW t' is_r Et); cbn in CW; destruct (writer s); lia end ]).
    + (* CCallLocking *)
      injection Es as <- <- <-. destruct h; try discriminate.
      split; cbn; auto.
      * apply Forall_set; auto.
      * specialize (CW {| t_held := HNone; t_def := false; t_rest := rest |} is_w Et). cbn in CW. destruct (writer s); lia.
      * specialize (CW {| t_held := HNone; t_def := false; t_rest := rest |} is_r Et). cbn in CW. destruct (writer s); lia.
Qed.

Lemma run_inv sched : forall s s', minv s -> mrun s sched = Some s' -> minv s'.
Proof.
  induction sched as [|i r IH]; intros s s' Hi H; cbn [mrun] in H.
  - injection H as <-. exact Hi.
  - destruct (mstep s i) as [s1|] eqn:E; [|discriminate]. eapply IH; [|exact H]. eapply step_inv; eassumption.
Qed.

(** what a thread is about to do *)
Definition about_to (t : thread) (e : clev) : Prop := exists r, t_rest t = e :: r.

(** with the discipline, a write is never concurrent with any other access *)
Lemma count_zero_all f l : count f l = 0 -> forall t, In t l -> f t = false.
Proof.
  unfold count. induction l as [|x l IH]; intros H t Hin; [contradiction|].
  simpl in H. destruct (f x) eqn:E; [simpl in H; lia|]. destruct Hin as [<-|Hin]; auto.
Qed.

Lemma count_one_unique f l i j ti tj :
  count f l = 1 -> nth_error l i = Some ti -> nth_error l j = Some tj -> f ti = true -> f tj = true -> i = j.
Proof.
  unfold count. revert i j. induction l as [|x l IH]; intros i j H Hi Hj Fi Fj; [destruct i; discriminate|].
  simpl in H. destruct i as [|i], j as [|j]; simpl in Hi, Hj; try reflexivity.
  - injection Hi as ->. rewrite Fi in H. simpl in H.
    assert (Hz : count f l = 0) by (unfold count; lia).
    apply nth_error_In in Hj. rewrite (count_zero_all f l Hz tj Hj) in Fj. discriminate.
  - injection Hj as ->. rewrite Fj in H. simpl in H.
    assert (Hz : count f l = 0) by (unfold count; lia).
    apply nth_error_In in Hi. rewrite (count_zero_all f l Hz ti Hi) in Fi. discriminate.
  - f_equal. destruct (f x); simpl in H.
    + assert (Hz : count f l = 0) by (unfold count; lia).
      apply nth_error_In in Hi. rewrite (count_zero_all f l Hz ti Hi) in Fi. discriminate.
    + eapply IH; eauto.
Qed.

Lemma no_conflicting_access paths sched s i j ti tj :
  forallb (path_ok HNone false) paths = true ->
  mrun (minit paths) sched = Some s ->
  nth_error (threads s) i = Some ti -> nth_error (threads s) j = Some tj -> i <> j ->
  about_to ti CWrite -> ~ about_to tj CWrite /\ ~ about_to tj CRead.
Proof.
  intros Hg Hrun Hi Hj Hne [ri Ei].
  pose proof (run_inv sched _ _ (init_inv paths Hg) Hrun) as [Hok Hw Hr Hex].
  rewrite Forall_forall in Hok.
  pose proof (Hok ti (nth_error_In _ _ Hi)) as Oi. pose proof (Hok tj (nth_error_In _ _ Hj)) as Oj.
  unfold thread_ok in Oi, Oj. rewrite Ei in Oi. cbn [path_ok] in Oi.
  assert (Wi : is_w ti = true) by (unfold is_w; destruct (t_held ti); try discriminate; reflexivity).
  (* a writer exists, hence the mutex is write-held, there are no readers, and it is the only writer *)
  assert (Hwr : writer s = true).
  { destruct (writer s); [reflexivity|]. exfalso.
    apply nth_error_In in Hi. rewrite (count_zero_all is_w _ Hw ti Hi) in Wi. discriminate. }
  rewrite Hwr in Hw. specialize (Hex Hwr).
  assert (Nj_w : is_w tj = false).
  { destruct (is_w tj) eqn:E; [|reflexivity]. exfalso. apply Hne. eapply (count_one_unique is_w); eauto. }
  assert (Nj_r : is_r tj = false).
  { rewrite Hex in Hr. apply (count_zero_all is_r _ Hr). eapply nth_error_In; eassumption. }
  assert (Hn : t_held tj = HNone) by (unfold is_w, is_r in *; destruct (t_held tj); try discriminate; reflexivity).
  split; intros [rj Ej]; rewrite Ej, Hn in Oj; cbn in Oj; discriminate.
Qed.

(** ** the foreign-operation checker means what it says: at every foreign operation of an accepted
    path the mutex is not held *)
Lemma foreign_ok_spec : forall p h, foreign_ok h p = true ->
  forall pre post, p = pre ++ FForeign :: post -> fheld h pre = false.
Proof.
  induction p as [|e p IH]; intros h Hok pre post Heq.
  - destruct pre; discriminate.
  - destruct pre as [|e' pre].
    + simpl in Heq. inversion Heq; subst. simpl in Hok.
      apply andb_prop in Hok. destruct Hok as [Hh _]. simpl. destruct h; [discriminate|reflexivity].
    + simpl in Heq. inversion Heq; subst.
      destruct e'; simpl in Hok |- *.
      * eapply IH; eauto.
      * eapply IH; eauto.
      * eapply IH; eauto.
      * apply andb_prop in Hok. destruct Hok as [_ Hok]. eapply IH; eauto.
Qed.

Lemma all_foreign_ok_spec ms : all_foreign_ok ms = true ->
  forall name paths p pre post, In (name, paths) ms -> In p paths -> p = pre ++ FForeign :: post ->
  fheld false pre = false.
Proof.
  unfold all_foreign_ok. intros H name paths p pre post Hin Hp Heq.
  rewrite forallb_forall in H. specialize (H _ Hin). simpl in H.
  rewrite forallb_forall in H. specialize (H _ Hp).
  eapply foreign_ok_spec; eauto.
Qed.
