(** The catalogue of breaking changes of the IDL audit (C18), stated declaratively: every rule is
    an existential statement over a *site* (a declaration of the old program and the declaration
    the same key denotes in the new one), independent of the order in which audit.go visits
    things, of its maps, its early returns and its fuel.  DESIGN.md appendix A.4; the rules are
    the ones in the doc comments of audit.go (the only documentation of the audit).

    What "the declaration named k" means when a key is repeated (the parser accepts repeated
    struct/enum/typedef names, repeated enum numbers and repeated exception ids): the last one,
    as in Thrift/Frugal's own symbol tables. [Denotes] says exactly that. *)
From Coq Require Import ZArith List Bool.
From FV Require Import Base.Bytes Model.Audit.
Import ListNotations.
Open Scope Z_scope.

Section Keyed.
  Context {A K : Type} (key : A -> K).
  (** [x] is what key [k] denotes in [l]: it carries the key and no later declaration does *)
  Definition Denotes (l : list A) (k : K) (x : A) : Prop :=
    exists l1 l2, l = l1 ++ x :: l2 /\ key x = k /\ Forall (fun y => key y <> k) l2.
  (** no declaration of [l] carries key [k] *)
  Definition Absent (l : list A) (k : K) : Prop := Forall (fun y => key y <> k) l.
End Keyed.

(** * Types: normal forms through typedefs, each typedef read in the file that declares it *)

(** name [n], written in file [sc] of program [P], is a typedef declared in file [d] with target
    [body].  A name "inc.m" refers to the file that [sc] includes as "inc"; a name without include
    part refers to [sc] itself. *)
Inductive TypedefOf (P : program) (sc : nat) (n : bytes) : nat -> ty -> Prop :=
| TO_local f body :
    include_name n = [] ->
    get_file P sc = Some f ->
    Denotes fst (fl_typedefs f) (param_name n) (param_name n, body) ->
    TypedefOf P sc n sc body
| TO_include f d g body :
    include_name n <> [] ->
    get_file P sc = Some f ->
    Denotes fst (fl_includes f) (include_name n) (include_name n, d) ->
    get_file P d = Some g ->
    Denotes fst (fl_typedefs g) (param_name n) (param_name n, body) ->
    TypedefOf P sc n d body.

(** [Resolves P sc t r]: the type expression [t] written in file [sc] has normal form [r]: no
    typedef name is left at any depth, and every name of a type declared in an included file
    carries that file's name ([qualified_name]).  Cyclic typedefs have no normal form. *)
Inductive Resolves (P : program) : nat -> ty -> ty -> Prop :=
| R_nil sc : Resolves P sc TNil TNil
| R_alias sc n k v d body r :
    TypedefOf P sc n d body -> body <> TNil -> Resolves P d body r ->
    Resolves P sc (Ty n k v) r
| R_base sc n k v rk rv :
    (forall d body, ~ TypedefOf P sc n d body) ->
    Resolves P sc k rk -> Resolves P sc v rv ->
    Resolves P sc (Ty n k v) (Ty (qualified_name P sc n) rk rv).

(** * Scope prefixes: equal up to the names of the variables *)
(** a piece "{...}" *)
Definition IsVar (p : bytes) : Prop := exists m, p = 123 :: m ++ [125].
Definition PieceEquiv (a b : bytes) : Prop := a = b \/ (IsVar a /\ IsVar b).
Definition DotFree (p : bytes) : Prop := ~ In 46 p.
(** both prefixes are sequences of dot-separated pieces that agree piece by piece *)
Definition PrefixEquiv (a b : bytes) : Prop :=
  exists pa pb, a = join_dot pa /\ b = join_dot pb /\ pa <> [] /\ pb <> []
                /\ Forall DotFree pa /\ Forall DotFree pb /\ Forall2 PieceEquiv pa pb.

Inductive skind := KStruct | KException | KUnion.
Definition structs_of (k : skind) (p : program) : list strct :=
  match k with KStruct => p_structs p | KException => p_exceptions p | KUnion => p_unions p end.

Section Catalogue.
  Variables po pn : program.

  (** the two type expressions (written in the root files) have a common normal form *)
  Definition SameType (t t' : ty) : Prop := exists r, Resolves po 0 t r /\ Resolves pn 0 t' r.

  (** fields, arguments and declared exceptions, keyed by field id *)
  Inductive FieldsBreak (olds news : list field) : Prop :=
  | FB_retyped o n :
      Denotes f_id olds (f_id o) o -> Denotes f_id news (f_id o) n ->
      ~ SameType (f_type o) (f_type n) -> FieldsBreak olds news
  | FB_requiredness o n :
      Denotes f_id olds (f_id o) o -> Denotes f_id news (f_id o) n ->
      ~ (f_mod o = Required <-> f_mod n = Required) -> FieldsBreak olds news
  | FB_removed o :
      Denotes f_id olds (f_id o) o -> Absent f_id news (f_id o) ->
      f_mod o <> Optional -> FieldsBreak olds news
  | FB_added_required n :
      Denotes f_id news (f_id n) n -> Absent f_id olds (f_id n) ->
      f_mod n = Required -> FieldsBreak olds news.

  Inductive ScopesBreak : Prop :=
  | SB_scope_removed s :
      In s (p_scopes po) -> Absent sc_name (p_scopes pn) (sc_name s) -> ScopesBreak
  | SB_prefix s s' :
      In s (p_scopes po) -> Denotes sc_name (p_scopes pn) (sc_name s) s' ->
      ~ PrefixEquiv (sc_prefix s) (sc_prefix s') -> ScopesBreak
  | SB_operation_removed s s' o :
      In s (p_scopes po) -> Denotes sc_name (p_scopes pn) (sc_name s) s' ->
      In o (sc_ops s) -> Absent o_name (sc_ops s') (o_name o) -> ScopesBreak
  | SB_operation_retyped s s' o o' :
      In s (p_scopes po) -> Denotes sc_name (p_scopes pn) (sc_name s) s' ->
      In o (sc_ops s) -> Denotes o_name (sc_ops s') (o_name o) o' ->
      ~ SameType (o_type o) (o_type o') -> ScopesBreak.

  (** an enum that still exists lost one of its numbers (removing a whole enum is a warning) *)
  Inductive EnumsBreak : Prop :=
  | EB_value_removed e e' v :
      In e (p_enums po) -> Denotes e_name (p_enums pn) (e_name e) e' ->
      In v (e_values e) -> Absent ev_value (e_values e') (ev_value v) -> EnumsBreak.

  Inductive StructsBreak (k : skind) : Prop :=
  | STB_removed s :
      In s (structs_of k po) -> Absent s_name (structs_of k pn) (s_name s) -> StructsBreak k
  | STB_fields s s' :
      In s (structs_of k po) -> Denotes s_name (structs_of k pn) (s_name s) s' ->
      FieldsBreak (s_fields s) (s_fields s') -> StructsBreak k.

  Inductive MethodBreak (o n : method) : Prop :=
  | MB_oneway : m_oneway o <> m_oneway n -> MethodBreak o n
  | MB_return : ~ SameType (m_ret o) (m_ret n) -> MethodBreak o n
  | MB_arguments : FieldsBreak (m_args o) (m_args n) -> MethodBreak o n
  | MB_exceptions : FieldsBreak (m_excs o) (m_excs n) -> MethodBreak o n
  | MB_exceptions_added_to_void :
      m_ret o = TNil -> m_excs o = [] -> m_excs n <> [] -> MethodBreak o n
  | MB_exceptions_removed_from_void :
      m_ret n = TNil -> m_excs n = [] -> m_excs o <> [] -> MethodBreak o n.

  Inductive ServicesBreak : Prop :=
  | SVB_removed sv :
      In sv (p_services po) -> Absent sv_name (p_services pn) (sv_name sv) -> ServicesBreak
  | SVB_extends sv sv' :
      In sv (p_services po) -> Denotes sv_name (p_services pn) (sv_name sv) sv' ->
      sv_extends sv <> [] -> sv_extends sv <> sv_extends sv' -> ServicesBreak
  | SVB_method_removed sv sv' m :
      In sv (p_services po) -> Denotes sv_name (p_services pn) (sv_name sv) sv' ->
      In m (sv_methods sv) -> Absent m_name (sv_methods sv') (m_name m) -> ServicesBreak
  | SVB_method sv sv' m m' :
      In sv (p_services po) -> Denotes sv_name (p_services pn) (sv_name sv) sv' ->
      In m (sv_methods sv) -> Denotes m_name (sv_methods sv') (m_name m) m' ->
      MethodBreak m m' -> ServicesBreak.

  (** the new program contains at least one documented breaking change relative to the old one *)
  Inductive Breaking : Prop :=
  | B_scopes : ScopesBreak -> Breaking
  | B_enums : EnumsBreak -> Breaking
  | B_structs k : StructsBreak k -> Breaking
  | B_services : ServicesBreak -> Breaking.
End Catalogue.
