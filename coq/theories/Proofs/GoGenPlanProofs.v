From Coq Require Import ZArith List Bool Lia.
From FV Require Import Model.GoGenPlan.
Import ListNotations.
Open Scope Z_scope.

(** F15: file 1 (main) includes file 2 as "inc" (name 7); file 2: typedef i32 T (name 1);
    typedef T U (name 2).  main's field of type inc.U is an i32 on the wire by the IDL, a STRUCT
    by the Go function (it looks T up in main, finds nothing, and what is left is a struct name). *)
Definition f15_prog : pprogram :=
  [ (1, mkFile [(7, 2)] [] []);
    (2, mkFile [] [(1, PBase 3); (2, PName None 1)] []) ].

Lemma f15_refuted :
  exists p cur t fuel, wire_idl fuel p cur t = 8 /\ wire_go fuel p cur t = 12.
Proof. exists f15_prog, 1, (PName (Some 7) 2), 10%nat. vm_compute. split; reflexivity. Qed.

(** the same through a typedef of an enum of the included file *)
Definition f15_prog_enum : pprogram :=
  [ (1, mkFile [(7, 2)] [] []);
    (2, mkFile [] [(2, PName None 5)] [5]) ].
Lemma f15_enum_refuted :
  wire_idl 10 f15_prog_enum 1 (PName (Some 7) 2) = 8 /\ wire_go 10 f15_prog_enum 1 (PName (Some 7) 2) = 12.
Proof. vm_compute. split; reflexivity. Qed.

(** Side condition under which the Go function is right: every typedef reached through an
    include has a target that mentions no name.  Then the two resolutions coincide. *)
Definition includes_closed (p : pprogram) (cur : Z) : Prop :=
  forall i fid n t', assoc (pf_includes (file_of p cur)) i = Some fid ->
                     assoc (pf_typedefs (file_of p fid)) n = Some t' -> closed t' = true.

Lemma closed_not_name t : closed t = true -> forall f p c, underlying_go f p c t = t /\ underlying_idl f p c t = (c, t).
Proof. destruct t; cbn; intros H f p c; try (split; destruct f; reflexivity). discriminate. Qed.

Lemma closed_wire p s s' t : closed t = true -> wire_of p s t = wire_of p s' t.
Proof. destruct t; cbn; intros H; try reflexivity. discriminate. Qed.

Lemma underlying_agree p cur :
  includes_closed p cur ->
  forall fuel t, wire_go fuel p cur t = wire_idl fuel p cur t.
Proof.
  intros Hc. unfold wire_go, wire_idl.
  induction fuel as [|f IH]; intros t.
  - destruct t as [b|a|a|k v|inc n]; try reflexivity.
    cbn [underlying_go underlying_idl].
    destruct inc as [i|].
    + destruct (assoc (pf_includes (file_of p cur)) i) as [fid|]; [|reflexivity].
      destruct (assoc (pf_typedefs (file_of p fid)) n); reflexivity.
    + destruct (assoc (pf_typedefs (file_of p cur)) n); reflexivity.
  - destruct t as [b|a|a|k v|inc n]; try reflexivity.
    cbn [underlying_go underlying_idl].
    destruct inc as [i|].
    + destruct (assoc (pf_includes (file_of p cur)) i) as [fid|] eqn:Ei; [|reflexivity].
      destruct (assoc (pf_typedefs (file_of p fid)) n) as [t'|] eqn:Et; [|reflexivity].
      pose proof (Hc _ _ _ _ Ei Et) as Hcl.
      destruct (closed_not_name t' Hcl f p cur) as [-> _].
      destruct (closed_not_name t' Hcl f p fid) as [_ ->].
      apply closed_wire; assumption.
    + destruct (assoc (pf_typedefs (file_of p cur)) n) as [t'|]; [apply IH|reflexivity].
Qed.
