(** Round trip through the whole parser model for service declarations with methods: oneway or not,
    void or a (base / container) return type, arguments, throws -- with every separator style and
    blanks / line breaks wherever the grammar allows them.  C10 stage 5, continued. *)
From Coq Require Import ZArith List Bool Arith Lia String.
From FV Require Import Model.PegSyntax Model.Peg Model.PegWf Model.ParserStrings Model.ParserAst
     Model.ParserActions Model.Parser Proofs.PegProofs Proofs.ParserProofs Proofs.ParserLexProofs
     Proofs.ParserEvals Proofs.ParserRoundTrip Proofs.ParserRoundTripEnum Proofs.ParserRoundTripStruct.
Import ListNotations.
Local Open Scope Z_scope.

Definition lit_service : list Z := [115; 101; 114; 118; 105; 99; 101].
Definition lit_extends : list Z := [101; 120; 116; 101; 110; 100; 115].
Definition lit_oneway : list Z := [111; 110; 101; 119; 97; 121].
Definition lit_void : list Z := [118; 111; 105; 100].
Definition lit_throws : list Z := [116; 104; 114; 111; 119; 115].
Definition oneway_opt : cexpr action := CLabel "oneway" (COpt (CSeq [CLit lit_oneway; kw_guard; CRef 55])).
Definition extends_opt : cexpr action := CLabel "extends" (COpt (CSeq [CLit lit_extends; CRef 55; CRef 45; CRef 55])).

Lemma service_shapes :
  nth_error rules 17 = Some (CAct AService1 (CSeq [CLit lit_service; CRef 56; CLabel "name" (CRef 45); CRef 56; extends_opt;
                                                   CRef 55; CLit [123]; CRef 55;
                                                   CLabel "methods" (CStar (CSeq [CRef 19; CRef 55]));
                                                   CChoice [CLit [125]; CRef 18]; CRef 56; anns_opt; CRef 60]))
  /\ nth_error rules 19 = Some (CAct AFunction1 (CSeq [doc_opt; oneway_opt; CLabel "typ" (CRef 20); CRef 55;
                                                       CLabel "name" (CRef 45); CRef 56; CLit [40]; CRef 55;
                                                       CLabel "arguments" (CRef 14); CLit [41]; CRef 55;
                                                       CLabel "exceptions" (COpt (CRef 21)); CRef 56; anns_opt;
                                                       COpt (CRef 46)]))
  /\ nth_error rules 20 = Some (CAct AFunctionType1 (CLabel "typ" (CChoice [CSeq [CLit lit_void; kw_guard]; CRef 22])))
  /\ nth_error rules 21 = Some (CAct AThrows1 (CSeq [CLit lit_throws; CRef 55; CLit [40]; CRef 55;
                                                     CLabel "exceptions" (CRef 14); CLit [41]])).
Proof. repeat (split; [vm_compute; reflexivity|]). vm_compute; reflexivity. Qed.

(** ** FieldType (22) fails in place on a character that starts neither a type keyword nor a name *)
Definition no_type_start (s : bytes) : Prop :=
  match s with [] => True | d :: _ => ascii d /\ p_start d = false end.

Lemma no_type_start_head : forall s cs, no_type_start s ->
  Forall (fun c => p_start c = true) cs -> head_not cs s.
Proof.
  intros [|d s] cs Hs Hcs; [exact I|]. destruct Hs as [Hd Hp]. split; [exact Hd|].
  rewrite Forall_forall in *. intros c Hc Heq. subst c. specialize (Hcs d Hc). congruence.
Qed.

Ltac starts := repeat constructor.

Lemma field_type_fails : forall s cr o es fr,
  no_type_start s -> evals (CRef 22) cr (st_of s o es) fr (Done false VNil (st_of s o es) fr).
Proof.
  intros s cr o es fr Hs. destruct shapes as (_ & _ & _ & _ & H22 & H23 & H24 & _).
  destruct struct_shapes as (_ & _ & _ & _ & _ & _ & _ & H25 & _ & _ & H28 & _).
  assert (Hh : head_not [98; 105; 100; 115; 108; 109; 99] s) by (apply no_type_start_head; [exact Hs | starts]).
  (* BaseType *)
  assert (Hbase : evals (CRef 23) 22 (st_of s o es) [] (Done false VNil (st_of s o es) [])).
  { assert (Hall : Forall (fun b => lit_ascii_ok b s /\ Forall ascii b) base_lits).
    { unfold base_lits. destruct s as [|d s']; [repeat (constructor; [split; [exact I | all_ascii]|]); constructor|].
      destruct Hh as [Hd Hf]. rewrite Forall_forall in Hf.
      repeat (constructor; [split; [cbn [lit_ascii_ok]; split; [exact Hd|]; intros E; exfalso; refine (Hf _ _ E); cbn; tauto
                                   | all_ascii]|]); constructor. }
    pose proof (choice_lits base_lits 24 s o es [] Hall) as Hc.
    assert (Hfind : find (fun b => has_prefix b s) base_lits = None).
    { destruct s as [|d s']; [reflexivity|]. destruct Hh as [_ Hf]. rewrite Forall_forall in Hf.
      unfold base_lits. cbn [find has_prefix].
      repeat match goal with |- context [?c =? d] => destruct (Z.eqb_spec c d) as [E|_];
               [exfalso; apply (Hf c ltac:(cbn; tauto)); symmetry; exact E|]; cbn [andb] end.
      reflexivity. }
    rewrite Hfind in Hc.
    assert (Hname : evals (CLabel "name" (CRef 24)) 23 (st_of s o es) [] (Done false VNil (st_of s o es) [])).
    { apply E_label_fail with (fr1 := []). eapply E_ref; [exact H24|]. apply E_act_fail. apply E_seq.
      exact (S_fail 24 _ _ _ _ _ _ _ _ _ (E_choice _ _ _ _ _ Hc)). }
    eapply E_ref; [exact H23|]. apply E_act_fail. apply E_seq. exact (S_fail 23 _ _ _ _ _ _ _ _ _ Hname). }
  (* ContainerType *)
  assert (Hcont : evals (CRef 25) 22 (st_of s o es) [] (Done false VNil (st_of s o es) [])).
  { eapply E_ref; [exact H25|]. apply E_act_fail. apply E_label_fail with (fr1 := []). apply E_choice.
    eapply C_next; [apply map_type_fails; sub_head Hh|].
    eapply C_next; [apply set_type_fails; sub_head Hh|].
    eapply C_next; [|apply C_nil].
    assert (H108 : head_not [108] s) by sub_head Hh.
    eapply E_ref; [exact H28|]. apply E_act_fail. apply E_seq.
    exact (S_fail 28 _ _ _ _ _ _ _ _ _ (lit_fails 108 [105; 115; 116; 60] 28 s o es [] ltac:(all_ascii) H108)). }
  eapply E_ref; [exact H22|]. apply E_act_fail. apply E_label_fail with (fr1 := []). apply E_choice.
  eapply C_next; [exact Hbase|].
  eapply C_next; [exact Hcont|].
  eapply C_next; [apply identifier_fails; exact Hs | apply C_nil].
Qed.

(** ** functions *)
Inductive ow_spec := OW_none | OW_oneway (W : bytes).
Inductive ret_spec := R_void (W : bytes) | R_type (t : ty_spec) (W : bytes).
Inductive fn_tail :=
| FN_plain (W2 : bytes)                                       (* ) W2              *)
| FN_sep (W2 : bytes) (sep : Z) (W3 : bytes)                  (* ) W2 sep W3       *)
| FN_throws (W2 W4 W5 : bytes) (fs : list fd_spec) (g : bytes) (sep : option Z) (W3 : bytes).
                                                              (* ) W2 throws W4 ( W5 fields ) g [sep] W3 *)
Record fn_spec := mk_fn { fn_ow : ow_spec; fn_ret : ret_spec; fn_c : Z; fn_t : bytes; fn_g : bytes; fn_w : bytes;
                          fn_args : list fd_spec; fn_tl : fn_tail }.

Definition render_ow (ow : ow_spec) (rst : bytes) : bytes :=
  match ow with OW_none => rst | OW_oneway W => lit_oneway ++ W ++ rst end.
Definition render_ret (r : ret_spec) (rst : bytes) : bytes :=
  match r with R_void W => lit_void ++ W ++ rst | R_type t W => render_ty t (W ++ rst) end.
Definition fn_tail_text (tl : fn_tail) (more : bytes) : bytes :=
  match tl with
  | FN_plain W2 => W2 ++ more
  | FN_sep W2 sep W3 => W2 ++ sep :: W3 ++ more
  | FN_throws W2 W4 W5 fs g sep W3 =>
    W2 ++ lit_throws ++ W4 ++ 40 :: W5 ++ render_fds fs (41 :: g ++ at_sep sep (W3 ++ more))
  end.
Definition render_fn (f : fn_spec) (more : bytes) : bytes :=
  render_ow (fn_ow f)
    (render_ret (fn_ret f)
       ((fn_c f :: fn_t f) ++ fn_g f ++ 40 :: fn_w f
        ++ render_fds (fn_args f) (41 :: fn_tail_text (fn_tl f) more))).

(** the keywords oneway and void end at a word boundary (since the repairs of C10-F8c / F8d  onewayTicket  and
    voidable  are type names): something must separate them from what follows; likewise a base-type keyword
    and the method name *)
Definition ow_ok (ow : ow_spec) : Prop :=
  match ow with OW_none => True | OW_oneway W => run_of p_wsnl W /\ W <> [] end.
Definition ret_ok (r : ret_spec) : Prop :=
  match r with
  | R_void W => run_of p_wsnl W /\ W <> []
  | R_type t W => ty_ok t /\ run_of p_wsnl W /\ nl_led W /\ (ty_tight t \/ W <> [])
  end.

Lemma wsnl_stop : forall W s, run_of p_wsnl W -> W <> [] -> stops p_cont (W ++ s).
Proof.
  intros [|d W] s HW Hne; [congruence|]. inversion HW as [|? ? [Hd Hp] _]; subst. cbn [app stops].
  split; [exact Hd | exact (wsnl_not_cont d Hp)].
Qed.

Definition fn_tail_ok (tl : fn_tail) : Prop :=
  match tl with
  | FN_plain W2 => run_of p_wsnl W2
  | FN_sep W2 sep W3 => run_of p_wsnl W2 /\ is_sep sep /\ run_of p_wsnl W3
  | FN_throws W2 W4 W5 fs g sep W3 =>
    run_of p_wsnl W2 /\ run_of p_wsnl W4 /\ run_of p_wsnl W5 /\ fds_ok fs /\ run_of p_blank g
    /\ match sep with Some s => is_sep s | None => nl_led W3 end /\ run_of p_wsnl W3
  end.
Definition fn_ok (f : fn_spec) : Prop :=
  ow_ok (fn_ow f) /\ ret_ok (fn_ret f) /\ ascii (fn_c f) /\ p_start (fn_c f) = true /\ run_of p_cont (fn_t f)
  /\ run_of p_blank (fn_g f) /\ run_of p_wsnl (fn_w f) /\ fds_ok (fn_args f) /\ fn_tail_ok (fn_tl f).

Definition fn_throws (tl : fn_tail) : list fd_spec := match tl with FN_throws _ _ _ fs _ _ _ => fs | _ => [] end.
Definition method_of (f : fn_spec) : method :=
  mkmethod None (fn_c f :: fn_t f)
           (match fn_ow f with OW_none => false | OW_oneway _ => true end)
           (match fn_ret f with R_void _ => None | R_type t _ => Some (ty_of t) end)
           (map field_of (fn_args f))
           (map (set_mod m_optional) (map field_of (fn_throws (fn_tl f)))) [].

(** what may follow a function: the next one (oneway / void / a type) or the closing brace *)
Definition fn_start (d : Z) : Prop := d = 111 \/ d = 118 \/ ty_start d.
Definition fn_follow (more : bytes) : Prop := exists d r, more = d :: r /\ (d = 125 \/ fn_start d).
Definition fnbig : list Z := [32; 9; 13; 10; 47; 35; 40; 44; 59; 116; 61].

Lemma fn_follow_big : forall more, fn_follow more -> head_not fnbig more.
Proof.
  intros more (d & r & -> & Hk). unfold fnbig, fn_start, ty_start in *. split; [unfold ascii; lia|]. repeat constructor; lia.
Qed.

Lemma throws_opt_none : forall cr s o es fr,
  head_not [116] s ->
  evals (CLabel "exceptions" (COpt (CRef 21))) cr (st_of s o es) fr
        (Done true VNil (st_of s o es) (("exceptions"%string, VNil) :: fr)).
Proof.
  intros cr s o es fr Hs. apply E_label_ok with (fr1 := []). eapply E_opt.
  refine (keyword_rule_fails 21 116 [104; 114; 111; 119; 115] cr s o es [] _ Hs).
  eexists; eexists; split; [vm_compute; reflexivity | all_ascii].
Qed.

Lemma paren_head_not : forall x cs, Forall (fun c => 40 <> c) cs -> head_not cs (40 :: x).
Proof. intros. split; [unfold ascii; lia | assumption]. Qed.

(** Throws (21) *)
Lemma throws_rule : forall W4 W5 fs x cr o es fr,
  run_of p_wsnl W4 -> run_of p_wsnl W5 -> fds_ok fs -> ascii_next x ->
  exists o', evals (CRef 21) cr (st_of (lit_throws ++ W4 ++ 40 :: W5 ++ render_fds fs (41 :: x)) o es) fr
                   (Done true (VFields (map field_of fs)) (st_of x o' es) fr).
Proof.
  intros W4 W5 fs x cr o es fr HW4 HW5 Hfs Hx. destruct service_shapes as (_ & _ & _ & H21).
  set (body := render_fds fs (41 :: x)).
  assert (Hbody : close_or_id body) by exact (render_fds_head fs 41 x Hfs (or_intror eq_refl)).
  pose proof (close_or_id_big body Hbody) as Hbig. unfold fbig in Hbig.
  assert (Hb6 : head_not [32; 9; 13; 10; 47; 35] body) by sub_head Hbig.
  destruct (field_list_rule fs 41 x 21 (o + Z.of_nat (List.length lit_throws) + Z.of_nat (List.length W4) + 1
                                          + Z.of_nat (List.length W5)) es [] Hfs (or_intror eq_refl)) as [o1 Hfl].
  eexists. eapply E_ref; [exact H21|]. eapply E_act_ok.
  - apply E_seq.
    eapply S_ok; [refine (lit_here lit_throws _ 21 o es [] ltac:(all_ascii) _);
                  apply (run_app_ascii_next p_wsnl W4 _ HW4); cbn; unfold ascii; lia|].
    eapply S_ok; [exact (gap_free W4 (40 :: W5 ++ body) 21 _ es _ HW4
                           (paren_head_not _ [32; 9; 13; 10; 47; 35] ltac:(repeat constructor; lia)))|].
    eapply S_ok; [refine (char_lit_ok 40 21 (W5 ++ body) _ es _ ltac:(unfold ascii; lia) _);
                  exact (run_app_ascii_next p_wsnl W5 body HW5 (head_not_ascii_next _ body Hbig))|].
    eapply S_ok; [exact (gap_free W5 body 21 _ es _ HW5 Hb6)|].
    eapply S_ok; [apply E_label_ok with (fr1 := []); exact Hfl|].
    eapply S_ok; [exact (char_lit_ok 41 21 x o1 es _ ltac:(unfold ascii; lia) Hx)|].
    apply S_nil.
  - reflexivity.
Qed.

(** the part of the Function rule after the ')' of the arguments *)
Definition fn_suffix : list (cexpr action) :=
  [CRef 55; CLabel "exceptions" (COpt (CRef 21)); CRef 56; anns_opt; COpt (CRef 46)].
Definition throws_val (tl : fn_tail) : val :=
  match tl with FN_throws _ _ _ fs _ _ _ => VFields (map field_of fs) | _ => VNil end.

Lemma nl_led_head : forall W more cs, nl_led W -> run_of p_wsnl W -> head_not cs more -> Forall (fun c => 10 <> c) cs ->
  head_not cs (W ++ more).
Proof.
  intros [|d W] more cs Hl HW Hm Hcs; cbn [app]; [exact Hm|]. cbn in Hl. subst d. split; [unfold ascii; lia | exact Hcs].
Qed.

Lemma fn_close : forall tl more cr st0 o es fr acc,
  fn_tail_ok tl -> fn_follow more ->
  exists o' W' v, run_of p_wsnl W'
    /\ seqs cr st0 fn_suffix (st_of (fn_tail_text tl more) o es) fr acc
            (Done true v (st_of (W' ++ more) o' es)
                  (("annotations"%string, VNil) :: ("exceptions"%string, throws_val tl) :: fr)).
Proof.
  intros tl more cr st0 o es fr acc Htl Hm. pose proof (fn_follow_big more Hm) as Hbig. unfold fnbig in Hbig.
  destruct tl as [W2|W2 sep W3|W2 W4 W5 fs g sep W3]; cbn [fn_tail_ok fn_tail_text throws_val] in *.
  - exists (o + Z.of_nat (List.length W2) + Z.of_nat (@List.length Z [])), []. eexists. split; [constructor|].
    unfold fn_suffix. cbn [app].
    eapply S_ok; [refine (gap_free W2 more cr o es fr Htl _); sub_head Hbig|].
    eapply S_ok; [refine (throws_opt_none cr more _ es fr _); sub_head Hbig|].
    eapply S_ok; [refine (gap_inline [] more cr _ es _ ltac:(constructor) _); sub_head Hbig|].
    eapply S_ok; [refine (anns_opt_nil cr more _ es _ _); sub_head Hbig|].
    eapply S_ok; [refine (sep_opt_none cr more _ es _ _); sub_head Hbig|].
    apply S_nil.
  - destruct Htl as (HW2 & Hsep & HW3). destruct (sep_facts sep (W3 ++ more) Hsep) as (Hsa & Hsc & Hsd & Hs5 & Hs61).
    assert (Hs6 : head_not [32; 9; 13; 10; 47; 35; 116] (sep :: W3 ++ more)).
    { split; [exact Hsa|]. destruct Hsep as [-> | ->]; repeat constructor; lia. }
    assert (Hn : ascii_next (W3 ++ more)).
    { apply (run_app_ascii_next p_wsnl W3 more HW3). exact (head_not_ascii_next _ more Hbig). }
    exists (o + Z.of_nat (List.length W2) + Z.of_nat (@List.length Z []) + 1), W3. eexists. split; [exact HW3|].
    unfold fn_suffix.
    eapply S_ok; [refine (gap_free W2 (sep :: W3 ++ more) cr o es fr HW2 _); sub_head Hs6|].
    eapply S_ok; [refine (throws_opt_none cr (sep :: W3 ++ more) _ es fr _); sub_head Hs6|].
    eapply S_ok; [refine (gap_inline [] (sep :: W3 ++ more) cr _ es _ ltac:(constructor) _); sub_head Hs5|].
    eapply S_ok; [refine (anns_opt_nil cr (sep :: W3 ++ more) _ es _ _); sub_head Hs5|].
    eapply S_ok; [exact (sep_opt_some sep cr (W3 ++ more) _ es _ Hsep Hn)|].
    apply S_nil.
  - destruct Htl as (HW2 & HW4 & HW5 & Hfs & Hg & Hsep & HW3).
    set (after := at_sep sep (W3 ++ more)).
    assert (Hn3 : ascii_next (W3 ++ more)).
    { apply (run_app_ascii_next p_wsnl W3 more HW3). exact (head_not_ascii_next _ more Hbig). }
    assert (Hafter : head_not [32; 9; 13; 47; 40] after).
    { unfold after. destruct sep as [s|]; cbn [at_sep].
      - destruct (sep_facts s (W3 ++ more) Hsep) as (_ & _ & _ & Hs5 & _). exact Hs5.
      - apply nl_led_head; [exact Hsep | exact HW3 | sub_head Hbig | repeat constructor; lia]. }
    assert (Hx : ascii_next (g ++ after)) by exact (run_app_ascii_next p_blank g after Hg (head_not_ascii_next _ _ Hafter)).
    destruct (throws_rule W4 W5 fs (g ++ after) cr (o + Z.of_nat (List.length W2)) es [] HW4 HW5 Hfs Hx) as [o1 Hth].
    assert (Ht6 : head_not [32; 9; 13; 10; 47; 35] (lit_throws ++ W4 ++ 40 :: W5 ++ render_fds fs (41 :: g ++ after))).
    { unfold lit_throws. cbn [app]. split; [unfold ascii; lia | repeat constructor; lia]. }
    destruct sep as [s|]; cbn [at_sep] in *.
    + exists (o1 + Z.of_nat (List.length g) + 1), W3. eexists. split; [exact HW3|]. unfold fn_suffix.
      eapply S_ok; [exact (gap_free W2 _ cr o es fr HW2 Ht6)|].
      eapply S_ok; [apply E_label_ok with (fr1 := []); eapply E_opt; exact Hth|].
      eapply S_ok; [refine (gap_inline g (s :: W3 ++ more) cr o1 es _ Hg _); sub_head Hafter|].
      eapply S_ok; [refine (anns_opt_nil cr (s :: W3 ++ more) _ es _ _); sub_head Hafter|].
      eapply S_ok; [exact (sep_opt_some s cr (W3 ++ more) _ es _ Hsep Hn3)|].
      apply S_nil.
    + exists (o1 + Z.of_nat (List.length g)), W3. eexists. split; [exact HW3|]. unfold fn_suffix.
      eapply S_ok; [exact (gap_free W2 _ cr o es fr HW2 Ht6)|].
      eapply S_ok; [apply E_label_ok with (fr1 := []); eapply E_opt; exact Hth|].
      eapply S_ok; [refine (gap_inline g (W3 ++ more) cr o1 es _ Hg _); sub_head Hafter|].
      eapply S_ok; [refine (anns_opt_nil cr (W3 ++ more) _ es _ _); sub_head Hafter|].
      eapply S_ok; [refine (sep_opt_none cr (W3 ++ more) _ es _ _);
                    apply nl_led_head; [exact Hsep | exact HW3 | sub_head Hbig | repeat constructor; lia]|].
      apply S_nil.
Qed.

(** ** FunctionType (20) *)
Definition ret_val (r : ret_spec) : val :=
  match r with R_void _ => VType (PType lit_void None None []) | R_type t _ => VType (ty_of t) end.
Definition ret_gap (r : ret_spec) : bytes := match r with R_void W | R_type _ W => W end.

Lemma wsnl_start_head : forall W c x cs, run_of p_wsnl W -> ascii c -> p_start c = true ->
  Forall (fun d => p_start d = false /\ p_wsnl d = false) cs -> head_not cs (W ++ c :: x).
Proof.
  intros [|d W] c x cs HW Hc Hp Hcs; cbn [app].
  - split; [exact Hc|]. rewrite Forall_forall in *. intros e He Heq. subst e. destruct (Hcs c He) as [H1 _]. congruence.
  - inversion HW as [|? ? [Hd Hpd] _]; subst. split; [exact Hd|]. rewrite Forall_forall in *. intros e He Heq. subst e.
    destruct (Hcs d He) as [_ H2]. congruence.
Qed.

Lemma function_type_rule : forall r c x cr o es fr,
  ret_ok r -> ascii c -> p_start c = true ->
  exists o', evals (CRef 20) cr (st_of (render_ret r (c :: x)) o es) fr
                   (Done true (ret_val r) (st_of (ret_gap r ++ c :: x) o' es) fr).
Proof.
  intros r c x cr o es fr Hr Hc Hp. destruct service_shapes as (_ & _ & H20 & _).
  destruct r as [W|t W]; cbn [render_ret ret_ok ret_val ret_gap] in *.
  - destruct Hr as [Hr HWn].
    assert (Hn : ascii_next (W ++ c :: x)) by exact (run_app_ascii_next p_wsnl W (c :: x) Hr Hc).
    eexists. eapply E_ref; [exact H20|]. eapply E_act_ok.
    + apply E_label_ok with (fr1 := []). apply E_choice. eapply C_ok. apply E_seq.
      eapply S_ok; [exact (lit_here lit_void (W ++ c :: x) 20 o es [] ltac:(all_ascii) Hn)|].
      eapply S_ok; [exact (kw_guard_ok 20 (W ++ c :: x) _ es [] (wsnl_stop W (c :: x) Hr HWn))|]. apply S_nil.
    + unfold finish_action. cbn [rest off]. unfold run_action, run_action_opt.
      replace (o + Z.of_nat (List.length lit_void) - o) with (Z.of_nat (List.length lit_void)) by lia.
      rewrite takeZ_app_exact. reflexivity.
  - destruct Hr as (Hty & HW & Hnl & Hor).
    assert (Hm : head_not [32; 9; 13; 47; 40] (W ++ c :: x)).
    { destruct W as [|d W']; cbn [app]; [exact (start_head_not c x Hc Hp)|]. cbn in Hnl. subst d.
      apply nl_head_not. repeat constructor; lia. }
    assert (Hsep : ty_sep t (W ++ c :: x)).
    { destruct t as [b g|? ? ?|? ? ?|? ? ? ? ?]; cbn [ty_sep]; try exact I.
      destruct Hty as [_ Hg]. destruct g as [|c0 g]; cbn [app].
      - destruct Hor as [Ht|HWn]; [cbn in Ht; congruence|]. exact (wsnl_stop W (c :: x) HW HWn).
      - exact (blanks_stop (c0 :: g) (W ++ c :: x) Hg ltac:(discriminate)). }
    destruct (field_type_rule t Hty (W ++ c :: x) 20%nat o es [] Hm Hsep) as [o' Hft].
    exists o'. eapply E_ref; [exact H20|]. eapply E_act_ok.
    + apply E_label_ok with (fr1 := []). apply E_choice.
      eapply C_next; [apply E_seq; refine (S_fail 20 _ _ _ _ _ _ _ _ _ (lit_fails 118 [111; 105; 100] 20 _ o es [] ltac:(all_ascii) _));
                      apply ty_head_not; [exact Hty | not_ty_start]|].
      eapply C_ok. exact Hft.
    + reflexivity.
Qed.

Lemma render_ret_head : forall r rst, ret_ok r -> exists d q, render_ret r rst = d :: q /\ (d = 118 \/ ty_start d).
Proof.
  intros [W|t W] rst Hr; cbn [render_ret ret_ok] in *.
  - unfold lit_void. cbn [app]. eexists; eexists. split; [reflexivity | left; reflexivity].
  - destruct Hr as (Hty & _). destruct (render_ty_head t (W ++ rst) Hty) as (d & q & -> & Hd).
    eexists; eexists. split; [reflexivity | right; exact Hd].
Qed.

Lemma ret_head_not : forall r rst cs, ret_ok r -> Forall (fun c => ~ (c = 118 \/ ty_start c)) cs ->
  head_not cs (render_ret r rst).
Proof.
  intros r rst cs Hr Hcs. destruct (render_ret_head r rst Hr) as (d & q & -> & Hd). split.
  - unfold ty_start, ascii in *. lia.
  - rewrite Forall_forall in *. intros c Hc Heq. subst c. exact (Hcs d Hc Hd).
Qed.

Ltac not_ret_start := repeat constructor; unfold ty_start; lia.

(** the optional oneway *)
Definition ow_val (ow : ow_spec) : val :=
  match ow with OW_none => VNil | OW_oneway W => VList [VBytes lit_oneway; VNil; VList (bytes_vals W)] end.

Lemma oneway_rule : forall ow r rst cr o es fr,
  ow_ok ow -> ret_ok r ->
  exists o', evals oneway_opt cr (st_of (render_ow ow (render_ret r rst)) o es) fr
                   (Done true (ow_val ow) (st_of (render_ret r rst) o' es) (("oneway"%string, ow_val ow) :: fr)).
Proof.
  intros ow r rst cr o es fr How Hr. destruct ow as [|W]; cbn [render_ow ow_ok ow_val] in *.
  - exists o. apply E_label_ok with (fr1 := []). eapply E_opt. apply E_seq.
    assert (H111 : head_not [111] (render_ret r rst)) by (apply ret_head_not; [exact Hr | not_ret_start]).
    exact (S_fail cr _ _ _ _ _ _ _ _ _ (lit_fails 111 [110; 101; 119; 97; 121] cr _ o es [] ltac:(all_ascii) H111)).
  - destruct How as [How HWn].
    assert (H6 : head_not [32; 9; 13; 10; 47; 35] (render_ret r rst)) by (apply ret_head_not; [exact Hr | not_ret_start]).
    eexists. apply E_label_ok with (fr1 := []). eapply E_opt. apply E_seq.
    eapply S_ok; [refine (lit_here lit_oneway _ cr o es [] ltac:(all_ascii) _);
                  exact (run_app_ascii_next p_wsnl W _ How (head_not_ascii_next _ _ H6))|].
    eapply S_ok; [exact (kw_guard_ok cr _ _ es [] (wsnl_stop W _ How HWn))|].
    eapply S_ok; [exact (gap_free W _ cr _ es _ How H6)|].
    apply S_nil.
Qed.

Lemma ty_not_void : forall t, ty_ok t -> match ty_of t with PType nm _ _ _ => beqb nm void_name = false end.
Proof.
  intros [b g|w1 t g|w1 t g|w1 k w2 v g] Hok; cbn [ty_of]; try reflexivity.
  destruct Hok as [Hb _]. unfold is_base, base_lits in Hb. cbn [In] in Hb.
  destruct Hb as [<-|[<-|[<-|[<-|[<-|[<-|[<-|[<-|[]]]]]]]]]; reflexivity.
Qed.

(** ** Function (19) *)
Lemma fn_render_head : forall f more, fn_ok f -> exists d q, render_fn f more = d :: q /\ fn_start d.
Proof.
  intros f more (How & Hr & _). unfold render_fn. destruct (fn_ow f) as [|W]; cbn [render_ow].
  - destruct (render_ret_head (fn_ret f) ((fn_c f :: fn_t f) ++ fn_g f ++ 40 :: fn_w f
                 ++ render_fds (fn_args f) (41 :: fn_tail_text (fn_tl f) more)) Hr) as (d & q & -> & Hd).
    eexists; eexists. split; [reflexivity|]. unfold fn_start. tauto.
  - unfold lit_oneway. cbn [app]. eexists; eexists. split; [reflexivity | left; reflexivity].
Qed.

Lemma function_rule : forall f more cr o es fr,
  fn_ok f -> fn_follow more ->
  exists o' W', run_of p_wsnl W'
    /\ evals (CRef 19) cr (st_of (render_fn f more) o es) fr
             (Done true (VMethod (method_of f)) (st_of (W' ++ more) o' es) fr).
Proof.
  intros f more cr o es fr Hf Hm. pose proof (fn_render_head f more Hf) as Hhead.
  destruct f as [ow r c t g w args tl]. destruct Hf as (How & Hr & Hc & Hp & Ht & Hg & Hw & Hargs & Htl).
  unfold render_fn, method_of in *. cbn [fn_ow fn_ret fn_c fn_t fn_g fn_w fn_args fn_tl] in *.
  destruct service_shapes as (_ & H19 & _).
  set (tailtxt := fn_tail_text tl more) in *.
  set (argstxt := render_fds args (41 :: tailtxt)) in *.
  set (parened := g ++ 40 :: w ++ argstxt) in *.
  assert (Hargtxt : close_or_id argstxt) by exact (render_fds_head args 41 tailtxt Hargs (or_intror eq_refl)).
  pose proof (close_or_id_big argstxt Hargtxt) as Habig. unfold fbig in Habig.
  assert (Hdoc : head_not [47] (render_ow ow (render_ret r ((c :: t) ++ parened)))).
  { destruct Hhead as (d & q & -> & Hd). unfold fn_start, ty_start in Hd. split; [unfold ascii; lia | repeat constructor; lia]. }
  assert (Hstop : stops p_cont parened).
  { unfold parened. apply blank_led_stops; [exact Hg | exact blank_not_cont | split; [unfold ascii; lia | reflexivity]]. }
  assert (Hntail : ascii_next tailtxt).
  { pose proof (fn_follow_big more Hm) as Hb. unfold tailtxt.
    destruct tl as [W2|W2 sep W3|W2 W4 W5 fs g' sep W3]; cbn [fn_tail_text fn_tail_ok] in *.
    - exact (run_app_ascii_next p_wsnl W2 more Htl (head_not_ascii_next _ more Hb)).
    - destruct Htl as (HW2 & Hsep & _). apply (run_app_ascii_next p_wsnl W2 _ HW2). cbn. destruct Hsep as [-> | ->]; unfold ascii; lia.
    - destruct Htl as (HW2 & _). apply (run_app_ascii_next p_wsnl W2 _ HW2). cbn. unfold ascii; lia. }
  destruct (oneway_rule ow r ((c :: t) ++ parened) 19 o es [("docstr"%string, VNil)] How Hr) as [o1 How1].
  destruct (function_type_rule r c (t ++ parened) 19 o1 es [] Hr Hc Hp) as [o2 Hft].
  destruct (field_list_rule args 41 tailtxt 19
              (o2 + Z.of_nat (List.length (ret_gap r)) + Z.of_nat (List.length (c :: t)) + Z.of_nat (List.length g) + 1
               + Z.of_nat (List.length w)) es [] Hargs (or_intror eq_refl)) as [o3 Hfl].
  destruct (fn_close tl more 19 (st_of (render_ow ow (render_ret r ((c :: t) ++ parened))) o es) (o3 + 1) es
              [("arguments"%string, VFields (map field_of args)); ("name"%string, VIdent (c :: t));
               ("typ"%string, ret_val r); ("oneway"%string, ow_val ow); ("docstr"%string, VNil)]
              [VBytes [41]; VFields (map field_of args); VList (bytes_vals w); VBytes [40]; VList (bytes_vals g);
               VIdent (c :: t); VList (bytes_vals (ret_gap r)); ret_val r; ow_val ow; VNil]
              Htl Hm) as (o4 & W' & v & HW' & Hclose).
  exists o4, W'. split; [exact HW'|].
  eapply E_ref with (fr1 := [("annotations"%string, VNil); ("exceptions"%string, throws_val tl);
                             ("arguments"%string, VFields (map field_of args)); ("name"%string, VIdent (c :: t));
                             ("typ"%string, ret_val r); ("oneway"%string, ow_val ow); ("docstr"%string, VNil)]);
    [exact H19|]. eapply E_act_ok.
  - apply E_seq.
    eapply S_ok; [exact (doc_opt_nil 19 _ o es [] Hdoc)|].
    eapply S_ok; [exact How1|].
    eapply S_ok; [apply E_label_ok with (fr1 := []); exact Hft|].
    eapply S_ok.
    { refine (gap_free (ret_gap r) ((c :: t) ++ parened) 19 o2 es _ _ _).
      - destruct r; cbn [ret_gap ret_ok] in *; tauto.
      - pose proof (start_head_not c (t ++ parened) Hc Hp) as Hs. apply p_start_range in Hp.
        split; [exact Hc | repeat constructor; lia]. }
    eapply S_ok; [apply E_label_ok with (fr1 := []); apply (E_of_bound (List.length t + 12)); intros f Hf;
                  exact (identifier_rule c t parened f 19%nat _ es [] Hc Hp Ht Hstop Hf)|].
    eapply S_ok; [exact (gap_inline g (40 :: w ++ argstxt) 19 _ es _ Hg
                           (paren_head_not _ [32; 9; 13; 47] ltac:(repeat constructor; lia)))|].
    eapply S_ok; [refine (char_lit_ok 40 19 (w ++ argstxt) _ es _ ltac:(unfold ascii; lia) _);
                  exact (run_app_ascii_next p_wsnl w argstxt Hw (head_not_ascii_next _ _ Habig))|].
    eapply S_ok; [refine (gap_free w argstxt 19 _ es _ Hw _); sub_head Habig|].
    eapply S_ok; [apply E_label_ok with (fr1 := []); exact Hfl|].
    eapply S_ok; [exact (char_lit_ok 41 19 tailtxt o3 es _ ltac:(unfold ascii; lia) Hntail)|].
    exact Hclose.
  - unfold finish_action, run_action, run_action_opt.
    cbn [fget find fst snd String.eqb Ascii.eqb Bool.eqb as_ident to_anns doc_comment obind].
    destruct r as [W|ty W]; cbn [ret_val as_type obind].
    + destruct ow; destruct tl; reflexivity.
    + destruct Hr as (Hty & _). pose proof (ty_not_void ty Hty) as Hnv. destruct (ty_of ty) as [nm k vv an] eqn:Ety.
      rewrite Hnv. destruct ow; destruct tl; reflexivity.
Qed.

(** ** the methods of a service:  (Function __)*  up to the closing brace *)
Fixpoint render_fns (fs : list fn_spec) (tail : bytes) : bytes :=
  match fs with [] => tail | f :: r => render_fn f (render_fns r tail) end.

Lemma render_fns_head : forall fs x, Forall fn_ok fs -> fn_follow (render_fns fs (125 :: x)).
Proof.
  intros [|f r] x Hok; cbn [render_fns].
  - exists 125, x. split; [reflexivity | left; reflexivity].
  - inversion Hok as [|? ? Hf _]; subst. destruct (fn_render_head f (render_fns r (125 :: x)) Hf) as (d & q & -> & Hd).
    exists d, q. split; [reflexivity | right; exact Hd].
Qed.

Lemma function_fails_at_brace : forall x cr o es fr,
  evals (CRef 19) cr (st_of (125 :: x) o es) fr (Done false VNil (st_of (125 :: x) o es) fr).
Proof.
  intros x cr o es fr. destruct service_shapes as (_ & H19 & H20 & _).
  assert (Hh : forall cs, Forall (fun c => 125 <> c) cs -> head_not cs (125 :: x)) by (intros; split; [unfold ascii; lia | assumption]).
  assert (How : evals oneway_opt 19 (st_of (125 :: x) o es) [("docstr"%string, VNil)]
                      (Done true VNil (st_of (125 :: x) o es) [("oneway"%string, VNil); ("docstr"%string, VNil)])).
  { apply E_label_ok with (fr1 := []). eapply E_opt. apply E_seq.
    exact (S_fail 19 _ _ _ _ _ _ _ _ _ (lit_fails 111 [110; 101; 119; 97; 121] 19 _ o es [] ltac:(all_ascii)
                                           (Hh [111] ltac:(repeat constructor; lia)))). }
  assert (Hty : evals (CLabel "typ" (CRef 20)) 19 (st_of (125 :: x) o es) [("oneway"%string, VNil); ("docstr"%string, VNil)]
                      (Done false VNil (st_of (125 :: x) o es) [("oneway"%string, VNil); ("docstr"%string, VNil)])).
  { apply E_label_fail with (fr1 := []). eapply E_ref; [exact H20|]. apply E_act_fail.
    apply E_label_fail with (fr1 := []). apply E_choice.
    eapply C_next; [apply E_seq; exact (S_fail 20 _ _ _ _ _ _ _ _ _
                      (lit_fails 118 [111; 105; 100] 20 _ o es [] ltac:(all_ascii) (Hh [118] ltac:(repeat constructor; lia))))|].
    eapply C_next; [apply field_type_fails; split; [unfold ascii; lia | reflexivity] | apply C_nil]. }
  eapply E_ref; [exact H19|]. apply E_act_fail. apply E_seq.
  eapply S_ok; [exact (doc_opt_nil 19 (125 :: x) o es [] (Hh [47] ltac:(repeat constructor; lia)))|].
  eapply S_ok; [exact How|].
  exact (S_fail 19 _ _ _ _ _ _ _ _ _ Hty).
Qed.

Lemma methods_loop : forall fs x o es fr acc,
  Forall fn_ok fs ->
  exists o' lvs,
    map first_of lvs = map (fun f => Some (VMethod (method_of f))) fs
    /\ loops (CSeq [CRef 19; CRef 55]) 17 (st_of (render_fns fs (125 :: x)) o es) fr acc
             (Done true (VList (rev acc ++ lvs)) (st_of (125 :: x) o' es) fr).
Proof.
  induction fs as [|f r IH]; intros x o es fr acc Hok.
  - exists o, []. split; [reflexivity|]. cbn [render_fns]. rewrite app_nil_r.
    eapply L_stop. apply E_seq.
    exact (S_fail 17 _ _ _ _ _ _ _ _ _ (function_fails_at_brace x 17 o es [])).
  - inversion Hok as [|? ? Hf Hr]; subst. cbn [render_fns].
    assert (Hmore : fn_follow (render_fns r (125 :: x))) by exact (render_fns_head r x Hr).
    destruct (function_rule f (render_fns r (125 :: x)) 17 o es [] Hf Hmore) as (o1 & W' & HW' & Hval).
    assert (Hf6 : head_not [32; 9; 13; 10; 47; 35] (render_fns r (125 :: x))).
    { pose proof (fn_follow_big _ Hmore) as Hb. unfold fnbig in Hb. sub_head Hb. }
    destruct (IH x (o1 + Z.of_nat (List.length W')) es fr
                 (VList [VMethod (method_of f); VList (bytes_vals W')] :: acc) Hr)
      as (o' & lvs & Hmap & Hloop).
    exists o', (VList [VMethod (method_of f); VList (bytes_vals W')] :: lvs). split.
    + cbn [map first_of as_list idx nth_error obind]. rewrite Hmap. reflexivity.
    + eapply L_step.
      * apply E_seq. eapply S_ok; [exact Hval|].
        eapply S_ok; [exact (gap_free W' _ 17 o1 es [] HW' Hf6)|]. apply S_nil.
      * cbn [rev] in Hloop. rewrite <- app_assoc in Hloop. exact Hloop.
Qed.

Lemma collect_methods : forall fs lvs,
  map first_of lvs = map (fun f => Some (VMethod (method_of f))) fs ->
  omap (fun v => let? x := first_of v in match x with VMethod m => Some m | _ => None end) lvs
  = Some (map method_of fs).
Proof.
  induction fs as [|f r IH]; intros [|lv lvs] Hm; try discriminate Hm; [reflexivity|].
  cbn [map] in Hm. injection Hm as Hf Hr. cbn [omap]. rewrite Hf. cbn [obind].
  rewrite (IH lvs Hr). reflexivity.
Qed.

(** ** Service (17):  service g1 name w1 '{' w2 functions '}' g3 LF  (no extends) *)
Record sv_spec := mk_sv { v_g1 : bytes; sv_c : Z; sv_t : bytes; sv_w1 : bytes; sv_w2 : bytes; sv_fns : list fn_spec;
                          sv_g3 : bytes; sv_w : bytes }.
Definition sv_ok (s : sv_spec) : Prop :=
  run_of p_blank (v_g1 s) /\ ascii (sv_c s) /\ p_start (sv_c s) = true /\ run_of p_cont (sv_t s)
  /\ run_of p_wsnl (sv_w1 s) /\ run_of p_wsnl (sv_w2 s) /\ Forall fn_ok (sv_fns s)
  /\ run_of p_blank (sv_g3 s) /\ run_of p_wsnl (sv_w s).
Definition render_sv (s : sv_spec) (more : bytes) : bytes :=
  lit_service ++ v_g1 s ++ (sv_c s :: sv_t s) ++ sv_w1 s ++ 123 :: sv_w2 s
  ++ render_fns (sv_fns s) (125 :: sv_g3 s ++ 10 :: sv_w s ++ more).
Definition service_of (s : sv_spec) : service :=
  mkservice None (sv_c s :: sv_t s) [] (map method_of (sv_fns s)) [].

Lemma service_rule : forall s more cr o es fr,
  sv_ok s -> decl_follow more ->
  exists o', evals (CRef 17) cr (st_of (render_sv s more) o es) fr
                   (Done true (VService (service_of s)) (st_of (sv_w s ++ more) o' es) fr).
Proof.
  intros [g1 c t w1 w2 fns g3 w] more cr o es fr (Hg1 & Hc & Hp & Ht & Hw1 & Hw2 & Hfns & Hg3 & Hw) Hm.
  unfold render_sv, service_of. cbn [v_g1 sv_c sv_t sv_w1 sv_w2 sv_fns sv_g3 sv_w] in *.
  destruct service_shapes as (H17 & _).
  destruct (split_wsnl w1 Hw1) as (b & w1' & -> & Hb & Hw1' & Hnl).
  set (tail := g3 ++ 10 :: w ++ more).
  set (body := render_fns fns (125 :: tail)).
  assert (Hbody : fn_follow body) by exact (render_fns_head fns tail Hfns).
  pose proof (fn_follow_big body Hbody) as Hbig. unfold fnbig in Hbig.
  assert (Hb6 : head_not [32; 9; 13; 10; 47; 35] body) by sub_head Hbig.
  assert (H123 : forall cs, Forall (fun c => 123 <> c) cs -> head_not cs (123 :: w2 ++ body))
    by (intros; split; [unfold ascii; lia | assumption]).
  assert (Hopen : forall cs, Forall (fun c => 123 <> c /\ 10 <> c) cs -> head_not cs (w1' ++ 123 :: w2 ++ body)).
  { intros cs Hcs. destruct w1' as [|d w1'']; cbn [app].
    - apply H123. eapply Forall_impl; [|exact Hcs]. cbn. tauto.
    - cbn in Hnl. subst d. split; [unfold ascii; lia|]. eapply Forall_impl; [|exact Hcs]. cbn. tauto. }
  assert (Hn2 : ascii_next (w2 ++ body)) by exact (run_app_ascii_next p_wsnl w2 body Hw2 (head_not_ascii_next _ body Hbig)).
  assert (Hn3 : ascii_next tail).
  { unfold tail. apply (run_app_ascii_next p_blank g3 _ Hg3). cbn. unfold ascii; lia. }
  assert (Hstop : stops p_cont ((b ++ w1') ++ 123 :: w2 ++ body)).
  { destruct (b ++ w1') as [|d ww] eqn:E; cbn [app]; [split; [unfold ascii; lia | reflexivity]|].
    inversion Hw1 as [|? ? [Hd Hpd] _]; subst. split; [exact Hd | exact (wsnl_not_cont d Hpd)]. }
  destruct (methods_loop fns tail (o + Z.of_nat (List.length lit_service) + Z.of_nat (List.length g1)
                                   + Z.of_nat (List.length (c :: t)) + Z.of_nat (List.length b)
                                   + Z.of_nat (List.length w1') + 1 + Z.of_nat (List.length w2)) es [] [] Hfns)
    as (o1 & lvs & Hmap & Hloop).
  rewrite <- (app_assoc b w1') in *.
  eexists. eapply E_ref; [exact H17|]. eapply E_act_ok.
  - apply E_seq.
    eapply S_ok; [refine (lit_here lit_service _ 17 o es [] ltac:(all_ascii) _);
                  exact (run_app_ascii_next p_blank g1 ((c :: t) ++ b ++ w1' ++ 123 :: w2 ++ body) Hg1 Hc)|].
    eapply S_ok.
    { refine (gap_inline g1 ((c :: t) ++ b ++ w1' ++ 123 :: w2 ++ body) 17 _ es _ Hg1 _).
      pose proof (start_head_not c (t ++ b ++ w1' ++ 123 :: w2 ++ body) Hc Hp) as Hs. sub_head Hs. }
    eapply S_ok; [apply E_label_ok with (fr1 := []); apply (E_of_bound (List.length t + 12)); intros f Hf;
                  exact (identifier_rule c t (b ++ w1' ++ 123 :: w2 ++ body) f 17%nat _ es [] Hc Hp Ht Hstop Hf)|].
    eapply S_ok; [refine (gap_inline b (w1' ++ 123 :: w2 ++ body) 17 _ es _ Hb _);
                  apply Hopen; repeat constructor; lia|].
    eapply S_ok.
    { apply E_label_ok with (fr1 := []). eapply E_opt. apply E_seq.
      refine (S_fail 17 _ _ _ _ _ _ _ _ _ (lit_fails 101 [120; 116; 101; 110; 100; 115] 17 _ _ es [] ltac:(all_ascii) _)).
      apply Hopen; repeat constructor; lia. }
    eapply S_ok; [refine (gap_free w1' (123 :: w2 ++ body) 17 _ es _ Hw1' _); apply H123; repeat constructor; lia|].
    eapply S_ok; [exact (char_lit_ok 123 17 (w2 ++ body) _ es _ ltac:(unfold ascii; lia) Hn2)|].
    eapply S_ok; [exact (gap_free w2 body 17 _ es _ Hw2 Hb6)|].
    eapply S_ok; [apply E_label_ok with (fr1 := []); apply E_star; exact Hloop|].
    eapply S_ok; [apply E_choice; eapply C_ok; exact (char_lit_ok 125 17 tail _ es [] ltac:(unfold ascii; lia) Hn3)|].
    eapply S_ok; [exact (gap_inline g3 (10 :: w ++ more) 17 _ es _ Hg3 (nl_head_not _ [32; 9; 13; 47] ltac:(repeat constructor; lia)))|].
    eapply S_ok; [exact (anns_opt_nil 17 (10 :: w ++ more) _ es _ (nl_head_not _ [40] ltac:(repeat constructor; lia)))|].
    eapply S_ok; [exact (eos_newline w more 17 _ es _ Hw Hm)|].
    apply S_nil.
  - unfold finish_action, run_action, run_action_opt.
    cbn [fget find fst snd String.eqb Ascii.eqb Bool.eqb as_list as_ident to_anns obind app rev].
    rewrite (collect_methods fns lvs Hmap). reflexivity.
Qed.

(** ** Statement (2) on a service declaration *)
Lemma statement_service : forall s more cr o es fr,
  sv_ok s -> decl_follow more ->
  exists o', evals (CRef 2) cr (st_of (render_sv s more) o es) fr
                   (Done true (VWrapper None (VService (service_of s))) (st_of (sv_w s ++ more) o' es) fr).
Proof.
  intros s more cr o es fr Hs Hm.
  destruct shapes as (_ & H2 & H3 & _).
  destruct keyword_rules as (K4 & K5 & K6 & K7 & K9 & K10 & K11 & K12 & _).
  destruct (service_rule s more 3 o es [] Hs Hm) as [o' Hsv].
  exists o'.
  assert (Hk : forall c, 115 <> c -> head_not [c] (render_sv s more)).
  { intros c Hne. unfold render_sv, lit_service. cbn [app]. split; [unfold ascii; lia | repeat constructor; exact Hne]. }
  eapply E_ref; [exact H2|]. eapply E_act_ok.
  - apply E_seq.
    eapply S_ok; [exact (doc_opt_nil 2 _ o es [] (Hk 47 ltac:(lia)))|].
    eapply S_ok.
    { apply E_label_ok with (fr1 := []). eapply E_ref; [exact H3|]. apply E_choice.
      eapply C_next; [exact (keyword_rule_fails 4 _ _ 3 _ o es [] K4 (Hk 105 ltac:(lia)))|].
      eapply C_next; [exact (keyword_rule_fails 5 _ _ 3 _ o es [] K5 (Hk 110 ltac:(lia)))|].
      eapply C_next; [exact (keyword_rule_fails 6 _ _ 3 _ o es [] K6 (Hk 99 ltac:(lia)))|].
      eapply C_next; [exact (keyword_rule_fails 7 _ _ 3 _ o es [] K7 (Hk 101 ltac:(lia)))|].
      eapply C_next; [exact (keyword_rule_fails 9 _ _ 3 _ o es [] K9 (Hk 116 ltac:(lia)))|].
      eapply C_next; [refine (keyword_rule_fails_np 10 _ _ 3 _ o es [] K10 _ _);
                      [unfold render_sv, lit_service; cbn [app lit_ascii_ok]; lit_ok I | reflexivity]|].
      eapply C_next; [exact (keyword_rule_fails 11 _ _ 3 _ o es [] K11 (Hk 101 ltac:(lia)))|].
      eapply C_next; [exact (keyword_rule_fails 12 _ _ 3 _ o es [] K12 (Hk 117 ltac:(lia)))|].
      eapply C_ok. exact Hsv. }
    apply S_nil.
  - reflexivity.
Qed.
