(** C19 — every map-iteration site of compiler/** that can reach generated output
    (Gen/MapSites.v, regenerated from the source on every run) falls in a class whose loop
    schema is order-free. *)
From Coq Require Import String List ZArith Bool Permutation.
From FV Require Import Model.MapOrder Proofs.MapOrderProofs Gen.MapSites.
Import ListNotations.

(** comparators of sort.Interface types the model has transcribed, with the Go source of the
    Less method they were transcribed from (compared with the regenerated source text) *)
Definition modelled_sorts : list (string * string * (module -> module -> bool)) :=
  [ ("html.Modules"%string,
     "{ if m[i].Name != m[j].Name { return m[i].Name < m[j].Name } return m[i].File < m[j].File }"%string,
     modules_less) ].

(** library functions that iterate maps themselves and are documented to do so in sorted key
    order: encoding/json ("map keys are sorted"), yaml.v2 (sorts keys, keyList), text/template
    and html/template (range over a map visits keys in sorted order).  This list is the
    assumption made about them. *)
Definition trusted_sorted_libs : list string :=
  [ "encoding/json.Marshal"; "encoding/json.MarshalIndent"; "(*encoding/json.Encoder).Encode";
    "gopkg.in/yaml.v2.Marshal"; "(*gopkg.in/yaml.v2.Encoder).Encode";
    "(*text/template.Template).Execute"; "(*text/template.Template).ExecuteTemplate";
    "(*html/template.Template).Execute"; "(*html/template.Template).ExecuteTemplate" ]%string.

(** what "order-free" means for a site of each class *)
Definition site_order_free (s : map_site) : Prop :=
  match ms_class s with
  | CSortedKeys =>
      forall V (iter iter' : list (str * V)),
        Permutation iter iter' -> sorted_keys_loop iter = sorted_keys_loop iter'
  | CSortedValues =>
      exists src less,
        In (ms_sortkey s, src, less) modelled_sorts /\ In (ms_sortkey s, src) sort_less_sources /\
        forall iter iter' : gomap module,
          keyed_by_file iter -> NoDup (map fst iter) -> Permutation iter iter' ->
          sorted_values_loop less iter = sorted_values_loop less iter'
  | CSetInsert =>
      (forall V W keep (vf : str * V -> W) iter iter' t0,
          NoDup (map fst iter) -> Permutation iter iter' ->
          map_equiv (set_insert_loop keep fst vf iter t0) (set_insert_loop keep fst vf iter' t0)) /\
      (forall V W keep kf (c : W) (iter iter' : list (str * V)) t0,
          Permutation iter iter' ->
          map_equiv (set_insert_loop keep kf (fun _ => c) iter t0) (set_insert_loop keep kf (fun _ => c) iter' t0))
  | CRecInsert =>
      forall fuel m acc out1 out2,
        file_functional fuel m -> trec_any fuel m acc out1 -> trec_any fuel m acc out2 -> map_equiv out1 out2
  | CLibSorted => In (ms_sortkey s) trusted_sorted_libs
  | CEarlyExit | COther | CUntyped => False
  end.

Definition pair_eqb (a b : string * string) : bool := String.eqb (fst a) (fst b) && String.eqb (snd a) (snd b).

Definition site_ok (s : map_site) : bool :=
  negb (ms_reach s) ||
  match ms_class s with
  | CSortedKeys | CSetInsert | CRecInsert => true
  | CSortedValues =>
      existsb (fun t => String.eqb (fst (fst t)) (ms_sortkey s) &&
                        existsb (pair_eqb (fst t)) sort_less_sources) modelled_sorts
  | CLibSorted => existsb (String.eqb (ms_sortkey s)) trusted_sorted_libs
  | CEarlyExit | COther | CUntyped => false
  end.

Lemma modelled_sorts_strict : forall key src less,
  In (key, src, less) modelled_sorts ->
  forall iter iter' : gomap module,
    keyed_by_file iter -> NoDup (map fst iter) -> Permutation iter iter' ->
    sorted_values_loop less iter = sorted_values_loop less iter'.
Proof.
  intros key src less [E | []]. injection E as _ _ <-.
  exact html_modules_order_free.
Qed.

Lemma site_ok_sound (s : map_site) : site_ok s = true -> ms_reach s = true -> site_order_free s.
Proof.
  unfold site_ok, site_order_free. intros Hok Hreach. rewrite Hreach in Hok. cbn [negb orb] in Hok.
  destruct (ms_class s).
  - intros V. exact (@sorted_keys_order_free V).
  - apply existsb_exists in Hok as ([[key src] less] & Hin & Hk).
    cbn [fst snd] in Hk. apply andb_true_iff in Hk as [Hkey Hsrc].
    apply String.eqb_eq in Hkey. subst key.
    apply existsb_exists in Hsrc as ([k2 s2] & Hin2 & Hp).
    unfold pair_eqb in Hp. cbn [fst snd] in Hp. apply andb_true_iff in Hp as [E1 E2].
    apply String.eqb_eq in E1, E2. subst k2 s2.
    exists src, less. repeat split; auto. eapply modelled_sorts_strict; eauto.
  - split.
    + intros V W keep vf iter iter' t0. apply set_insert_at_key_order_free.
    + intros V W keep kf c iter iter' t0. apply set_insert_const_order_free.
  - exact rec_insert_order_free.
  - discriminate.
  - discriminate.
  - discriminate.
  - apply existsb_exists in Hok as (x & Hin & E). apply String.eqb_eq in E. now subst.
Qed.

Lemma all_sites_ok : forallb site_ok map_sites = true.
Proof. vm_compute. reflexivity. Qed.

Theorem sites_order_free : Forall (fun s => ms_reach s = true -> site_order_free s) map_sites.
Proof.
  apply Forall_forall. intros s Hin. apply site_ok_sound.
  pose proof all_sites_ok as H. rewrite forallb_forall in H. now apply H.
Qed.

(** the type checker of the translator saw every operand (no untyped `range`) *)
Lemma sites_fully_typed : map_sites_typecheck_diagnostics = 0%Z /\
                          forallb (fun s => negb (class_eqb (ms_class s) CUntyped)) map_sites = true.
Proof. vm_compute. split; reflexivity. Qed.

(* ------------------------------------------------------------------------------------------ *)
(** * Global state, read off the source: the only package-level variables of compiler/** that
      any function assigns are those of package globals, and Reset() restores each of them to
      its declared initial value *)

Definition zero_literals : list string := [""""""; "false"; "0"; "nil"]%string.

Definition restores (d : string * string) (reset : list (string * string)) : bool :=
  existsb (fun r => String.eqb (fst r) (fst d) &&
                    (String.eqb (snd r) (snd d) ||
                     (String.eqb (snd d) "" && existsb (String.eqb (snd r)) zero_literals))) reset.

Definition globals_prefix : string := "compiler/globals."%string.

Definition mutable_is_reset (mg : string * string) : bool :=
  existsb (fun d => String.eqb (fst mg) (globals_prefix ++ fst d)%string && restores d globals_reset) globals_decl.

Lemma globals_reset_complete :
  forallb (fun d => restores d globals_reset) globals_decl = true /\
  forallb mutable_is_reset mutable_globals = true.
Proof. vm_compute. split; reflexivity. Qed.
