(** Keywords end at a word boundary (C10 stage 2, after the repairs of C10-F8a..e): for every guarded
    keyword of the regenerated grammar -- the eight base-type names, required / optional, oneway, void,
    true / false -- the keyword followed by a character that can continue an identifier is NOT the
    keyword, and a name that begins with a base-type keyword is, as a field type, that name. *)
From Coq Require Import ZArith List Bool Arith Lia String.
From FV Require Import Model.PegSyntax Model.Peg Model.PegWf Model.ParserStrings Model.ParserAst
     Model.ParserActions Model.Parser Proofs.PegProofs Proofs.ParserProofs Proofs.ParserLexProofs
     Proofs.ParserEvals Proofs.ParserRoundTrip Proofs.ParserRoundTripEnum Proofs.ParserRoundTripStruct
     Proofs.ParserRoundTripConst Proofs.ParserRoundTripService.
Import ListNotations.
Local Open Scope Z_scope.

(** a literal that is not a prefix of the input fails in place *)
Lemma lit_mismatch : forall l cr s o es fr,
  lit_ascii_ok l s -> Forall ascii l -> has_prefix l s = false ->
  evals (CLit l) cr (st_of s o es) fr (Done false VNil (st_of s o es) fr).
Proof. intros l cr s o es fr Hok Hl Hp. pose proof (E_lit_at l cr s o es fr Hok Hl) as H. rewrite Hp in H. exact H. Qed.

(** a guarded keyword  kw ![A-Za-z0-9._]  on  kw d ...  with d an identifier character: the sequence fails in place *)
Lemma guarded_keyword_fails : forall kw cr d s o es fr acc rest,
  Forall ascii kw -> ascii d -> p_cont d = true -> ascii_next s ->
  seqs cr (st_of (kw ++ d :: s) o es) (CLit kw :: kw_guard :: rest) (st_of (kw ++ d :: s) o es) fr acc
       (Done false VNil (st_of (kw ++ d :: s) o es) fr).
Proof.
  intros kw cr d s o es fr acc rest Hkw Hd Hp Hs.
  eapply S_ok; [exact (lit_here kw (d :: s) cr o es fr Hkw Hd)|].
  exact (S_fail cr _ _ _ _ _ _ _ _ _ (kw_guard_fails cr d s (o + Z.of_nat (List.length kw)) es fr Hd Hp Hs)).
Qed.

(** ** BaseTypeName (24) *)
Lemma base_type_name_boundary : forall base d s cr o es fr,
  is_base base -> ascii d -> p_cont d = true -> ascii_next s ->
  evals (CRef 24) cr (st_of (base ++ d :: s) o es) fr (Done false VNil (st_of (base ++ d :: s) o es) fr).
Proof.
  intros base d s cr o es fr Hb Hd Hp Hs. destruct shapes as (_ & _ & _ & _ & _ & _ & H24 & _).
  assert (Hn : ascii_next (d :: s)) by exact Hd.
  assert (Hall : Forall (fun l => lit_ascii_ok l (base ++ d :: s) /\ Forall ascii l) base_lits).
  { unfold is_base, base_lits in Hb. cbn [In] in Hb.
    destruct Hb as [<-|[<-|[<-|[<-|[<-|[<-|[<-|[<-|[]]]]]]]]];
      repeat (constructor; [split; [cbn [lit_ascii_ok app]; lit_ok Hn | repeat constructor; unfold ascii; lia]|]);
      constructor. }
  pose proof (choice_lits base_lits 24 (base ++ d :: s) o es [] Hall) as Hc.
  assert (Hfind : find (fun l => has_prefix l (base ++ d :: s)) base_lits = Some base).
  { unfold is_base, base_lits in Hb. cbn [In] in Hb.
    destruct Hb as [<-|[<-|[<-|[<-|[<-|[<-|[<-|[<-|[]]]]]]]]]; reflexivity. }
  rewrite Hfind in Hc. rewrite skipn_self in Hc.
  eapply E_ref; [exact H24|]. apply E_act_fail. apply E_seq.
  eapply S_ok; [apply E_choice; exact Hc|].
  exact (S_fail 24 _ _ _ _ _ _ _ _ _ (kw_guard_fails 24 d s (o + Z.of_nat (List.length base)) es [] Hd Hp Hs)).
Qed.

(** ** FieldModifier (16), BoolConstant (33) *)
Lemma field_modifier_boundary : forall kw d s cr o es fr,
  kw = lit_required \/ kw = lit_optional -> ascii d -> p_cont d = true -> ascii_next s ->
  evals (CRef 16) cr (st_of (kw ++ d :: s) o es) fr (Done false VNil (st_of (kw ++ d :: s) o es) fr).
Proof.
  intros kw d s cr o es fr Hkw Hd Hp Hs. destruct struct_shapes as (_ & _ & _ & _ & _ & _ & H16 & _).
  eapply E_ref; [exact H16|]. apply E_act_fail. apply E_seq.
  destruct Hkw as [-> | ->].
  - eapply S_ok; [apply E_choice; eapply C_ok; exact (lit_here lit_required (d :: s) 16 o es [] ltac:(all_ascii) Hd)|].
    exact (S_fail 16 _ _ _ _ _ _ _ _ _ (kw_guard_fails 16 d s (o + Z.of_nat (List.length lit_required)) es [] Hd Hp Hs)).
  - eapply S_ok.
    { apply E_choice.
      eapply C_next; [refine (lit_fails 114 [101; 113; 117; 105; 114; 101; 100] 16 (lit_optional ++ d :: s) o es [] ltac:(all_ascii) _);
                      unfold lit_optional; cbn [app]; split; [unfold ascii; lia | repeat constructor; lia]|].
      eapply C_ok. exact (lit_here lit_optional (d :: s) 16 o es [] ltac:(all_ascii) Hd). }
    exact (S_fail 16 _ _ _ _ _ _ _ _ _ (kw_guard_fails 16 d s (o + Z.of_nat (List.length lit_optional)) es [] Hd Hp Hs)).
Qed.

Lemma bool_constant_boundary : forall kw d s cr o es fr,
  kw = lit_true \/ kw = lit_false -> ascii d -> p_cont d = true -> ascii_next s ->
  evals (CRef 33) cr (st_of (kw ++ d :: s) o es) fr (Done false VNil (st_of (kw ++ d :: s) o es) fr).
Proof.
  intros kw d s cr o es fr Hkw Hd Hp Hs. destruct const_shapes as (_ & _ & H33 & _).
  eapply E_ref; [exact H33|]. apply E_act_fail. apply E_seq.
  destruct Hkw as [-> | ->].
  - eapply S_ok; [apply E_choice; eapply C_ok; exact (lit_here lit_true (d :: s) 33 o es [] ltac:(all_ascii) Hd)|].
    exact (S_fail 33 _ _ _ _ _ _ _ _ _ (kw_guard_fails 33 d s (o + Z.of_nat (List.length lit_true)) es [] Hd Hp Hs)).
  - eapply S_ok.
    { apply E_choice.
      eapply C_next; [refine (lit_fails 116 [114; 117; 101] 33 (lit_false ++ d :: s) o es [] ltac:(all_ascii) _);
                      unfold lit_false; cbn [app]; split; [unfold ascii; lia | repeat constructor; lia]|].
      eapply C_ok. exact (lit_here lit_false (d :: s) 33 o es [] ltac:(all_ascii) Hd). }
    exact (S_fail 33 _ _ _ _ _ _ _ _ _ (kw_guard_fails 33 d s (o + Z.of_nat (List.length lit_false)) es [] Hd Hp Hs)).
Qed.

(** and they are the keyword when nothing that continues a word follows *)
Lemma bool_constant_rule : forall (b : bool) follow cr o es fr,
  stops p_cont follow ->
  evals (CRef 33) cr (st_of ((if b then lit_true else lit_false) ++ follow) o es) fr
        (Done true (VBool b) (st_of follow (o + Z.of_nat (List.length (if b then lit_true else lit_false))) es) fr).
Proof.
  intros b follow cr o es fr Hst. pose proof (stops_ascii_next p_cont follow Hst) as Hn.
  destruct const_shapes as (_ & _ & H33 & _).
  eapply E_ref; [exact H33|]. destruct b.
  - eapply E_act_ok.
    + apply E_seq.
      eapply S_ok; [apply E_choice; eapply C_ok; exact (lit_here lit_true follow 33 o es [] ltac:(all_ascii) Hn)|].
      eapply S_ok; [exact (kw_guard_ok 33 follow _ es [] Hst)|]. apply S_nil.
    + unfold finish_action. cbn [rest off]. unfold run_action, run_action_opt.
      replace (o + Z.of_nat (List.length lit_true) - o) with (Z.of_nat (List.length lit_true)) by lia.
      rewrite takeZ_app_exact. reflexivity.
  - eapply E_act_ok.
    + apply E_seq.
      eapply S_ok.
      { apply E_choice.
        eapply C_next; [refine (lit_fails 116 [114; 117; 101] 33 (lit_false ++ follow) o es [] ltac:(all_ascii) _);
                        unfold lit_false; cbn [app]; split; [unfold ascii; lia | repeat constructor; lia]|].
        eapply C_ok. exact (lit_here lit_false follow 33 o es [] ltac:(all_ascii) Hn). }
      eapply S_ok; [exact (kw_guard_ok 33 follow _ es [] Hst)|]. apply S_nil.
    + unfold finish_action. cbn [rest off]. unfold run_action, run_action_opt.
      replace (o + Z.of_nat (List.length lit_false) - o) with (Z.of_nat (List.length lit_false)) by lia.
      rewrite takeZ_app_exact. reflexivity.
Qed.

(** ** the optional oneway of Function (19) and the void alternative of FunctionType (20) *)
Lemma oneway_boundary : forall d s cr o es fr,
  ascii d -> p_cont d = true -> ascii_next s ->
  evals oneway_opt cr (st_of (lit_oneway ++ d :: s) o es) fr
        (Done true VNil (st_of (lit_oneway ++ d :: s) o es) (("oneway"%string, VNil) :: fr)).
Proof.
  intros d s cr o es fr Hd Hp Hs. unfold oneway_opt. apply E_label_ok with (fr1 := []). eapply E_opt. apply E_seq.
  exact (guarded_keyword_fails lit_oneway cr d s o es [] [] [CRef 55] ltac:(all_ascii) Hd Hp Hs).
Qed.

Lemma void_boundary : forall d s cr o es fr,
  ascii d -> p_cont d = true -> ascii_next s ->
  evals (CSeq [CLit lit_void; kw_guard]) cr (st_of (lit_void ++ d :: s) o es) fr
        (Done false VNil (st_of (lit_void ++ d :: s) o es) fr).
Proof.
  intros d s cr o es fr Hd Hp Hs. apply E_seq.
  exact (guarded_keyword_fails lit_void cr d s o es fr [] [] ltac:(all_ascii) Hd Hp Hs).
Qed.

(** ** FieldType (22) on a name that begins with a base-type keyword: the name *)
Lemma cont_run_app : forall a b, run_of p_cont a -> run_of p_cont b -> run_of p_cont (a ++ b).
Proof. intros a b Ha Hb. unfold run_of in *. apply Forall_app. split; assumption. Qed.

Lemma base_is_word : forall base, is_base base ->
  exists c t, base = c :: t /\ ascii c /\ p_start c = true /\ run_of p_cont t
              /\ (c = 98 \/ c = 105 \/ c = 100 \/ c = 115).
Proof.
  intros base Hb. unfold is_base, base_lits in Hb. cbn [In] in Hb.
  destruct Hb as [<-|[<-|[<-|[<-|[<-|[<-|[<-|[<-|[]]]]]]]]];
    (eexists; eexists; split; [reflexivity|]; split; [unfold ascii; lia|]; split; [reflexivity|];
     split; [repeat constructor; unfold ascii; lia | lia]).
Qed.

Lemma set_lit_mismatch : forall base x, is_base base -> has_prefix lit_set (base ++ x) = false.
Proof.
  intros base x Hb. unfold is_base, base_lits in Hb. cbn [In] in Hb.
  destruct Hb as [<-|[<-|[<-|[<-|[<-|[<-|[<-|[<-|[]]]]]]]]]; reflexivity.
Qed.

Theorem field_type_keyword_prefixed_name : forall base d t follow cr o es fr,
  is_base base -> ascii d -> p_cont d = true -> run_of p_cont t -> stops p_cont follow ->
  evals (CRef 22) cr (st_of ((base ++ d :: t) ++ follow) o es) fr
        (Done true (VType (PType (base ++ d :: t) None None []))
              (st_of follow (o + Z.of_nat (List.length (base ++ d :: t))) es) fr).
Proof.
  intros base d t follow cr o es fr Hb Hd Hp Ht Hst.
  destruct shapes as (_ & _ & _ & _ & H22 & H23 & _).
  destruct struct_shapes as (_ & _ & _ & _ & _ & _ & _ & H25 & _ & H27 & H28 & _).
  destruct (base_is_word base Hb) as (c & bt & Hbase & Hc & Hps & Hbt & Hc4).
  pose proof (stops_ascii_next p_cont follow Hst) as Hfn.
  assert (Hn : ascii_next (t ++ follow)) by exact (run_app_ascii_next p_cont t follow Ht Hfn).
  set (input := (base ++ d :: t) ++ follow).
  assert (Hinput : input = base ++ d :: (t ++ follow)).
  { unfold input. rewrite <- app_assoc. reflexivity. }
  assert (Hhead : input = c :: (bt ++ d :: t) ++ follow).
  { unfold input. rewrite Hbase. reflexivity. }
  assert (Hh : forall cs, Forall (fun x => x <> 98 /\ x <> 105 /\ x <> 100 /\ x <> 115) cs -> head_not cs input).
  { intros cs Hcs. rewrite Hhead. split; [exact Hc|]. rewrite Forall_forall in *. intros x Hx Heq. subst x.
    specialize (Hcs c Hx). lia. }
  (* BaseType: the keyword is there, the word boundary is not *)
  assert (Hbasef : evals (CRef 23) 22 (st_of input o es) [] (Done false VNil (st_of input o es) [])).
  { eapply E_ref; [exact H23|]. apply E_act_fail. apply E_seq.
    assert (Hname : evals (CLabel "name" (CRef 24)) 23 (st_of input o es) [] (Done false VNil (st_of input o es) [])).
    { apply E_label_fail with (fr1 := []). rewrite Hinput. exact (base_type_name_boundary base d (t ++ follow) 23 o es [] Hb Hd Hp Hn). }
    exact (S_fail 23 _ _ _ _ _ _ _ _ _ Hname). }
  (* ContainerType: none of map< set< list< *)
  assert (Hcont : evals (CRef 25) 22 (st_of input o es) [] (Done false VNil (st_of input o es) [])).
  { eapply E_ref; [exact H25|]. apply E_act_fail. apply E_label_fail with (fr1 := []). apply E_choice.
    eapply C_next; [apply map_type_fails; apply Hh; repeat constructor; lia|].
    eapply C_next.
    { eapply E_ref; [exact H27|]. apply E_act_fail. apply E_seq.
      eapply S_ok; [apply cpp_type_opt_none; apply Hh; repeat constructor; lia|].
      refine (S_fail 27 _ _ _ _ _ _ _ _ _ (lit_mismatch lit_set 27 input o es [] _ ltac:(all_ascii) _)).
      - rewrite Hhead. unfold lit_set. cbn [lit_ascii_ok]. split; [exact Hc|]. intros _.
        destruct (bt ++ d :: t) as [|c2 r2] eqn:Er; cbn [app].
        + destruct bt; discriminate Er.
        + assert (Hc2 : ascii c2).
          { destruct bt as [|b0 bt']; cbn [app] in Er; injection Er as <- _; [exact Hd|].
            inversion Hbt as [|? ? [Hb0 _] _]; subst. exact Hb0. }
          split; [exact Hc2|]. intros ->. (* c2 = 'e': only "set<"'s second letter; the third then differs or not: settle by the base *)
          destruct (r2 ++ follow) as [|c3 r3] eqn:Er3; [exact I|].
          assert (Hc3 : ascii c3).
          { assert (Hrun : run_of p_cont ((bt ++ d :: t))) by (apply cont_run_app; [exact Hbt | constructor; [split; assumption | exact Ht]]).
            rewrite Er in Hrun. inversion Hrun as [|? ? _ Hr2]; subst.
            destruct r2 as [|x r2']; cbn [app] in Er3.
            - subst follow. exact (proj1 Hst).
            - injection Er3 as <- _. inversion Hr2 as [|? ? [Hx _] _]; subst. exact Hx. }
          split; [exact Hc3|]. intros ->.
          destruct r3 as [|c4 r4]; [exact I|]. cbn [lit_ascii_ok].
          (* the input would begin with  ?et : no base-type keyword does *)
          exfalso. clear - Hb Hbase Er. unfold is_base, base_lits in Hb. cbn [In] in Hb.
          destruct Hb as [<-|[<-|[<-|[<-|[<-|[<-|[<-|[<-|[]]]]]]]]]; injection Hbase as <- <-; cbn [app] in Er; discriminate Er.
      - rewrite Hinput. exact (set_lit_mismatch base _ Hb). }
    eapply C_next; [|apply C_nil].
    eapply E_ref; [exact H28|]. apply E_act_fail. apply E_seq.
    refine (S_fail 28 _ _ _ _ _ _ _ _ _ (lit_fails 108 [105; 115; 116; 60] 28 input o es [] ltac:(all_ascii) _)).
    apply Hh. repeat constructor; lia. }
  (* Identifier: the whole word *)
  assert (Hword : run_of p_cont (bt ++ d :: t)) by (apply cont_run_app; [exact Hbt | constructor; [split; assumption | exact Ht]]).
  assert (Hid : evals (CRef 45) 22 (st_of input o es) []
                      (Done true (VIdent (base ++ d :: t)) (st_of follow (o + Z.of_nat (List.length (base ++ d :: t))) es) [])).
  { rewrite Hbase. rewrite Hhead. apply (E_of_bound (List.length (bt ++ d :: t) + 12)). intros f Hf.
    exact (identifier_rule c (bt ++ d :: t) follow f 22%nat o es [] Hc Hps Hword Hst Hf). }
  eapply E_ref; [exact H22|]. eapply E_act_ok.
  - apply E_label_ok with (fr1 := []). apply E_choice.
    eapply C_next; [exact Hbasef|]. eapply C_next; [exact Hcont|]. eapply C_ok. exact Hid.
  - reflexivity.
Qed.
