From Coq Require Import ZArith List Lia Bool.
From FV Require Import Base.Res Base.Bytes Base.GoSem Model.Headers Model.Receivers
  Proofs.BytesProofs Proofs.HeadersProofs Proofs.HeadersMapProofs.
Import ListNotations.
Open Scope Z_scope.
Ltac Zify.zify_post_hook ::= Z.div_mod_to_equations.

Definition wf_msg (m : bytes) : Prop := bytes_ok m /\ zlen m < 2147483648.

Lemma graceful_bind {A B} (r : res A) (f : A -> res B) :
  graceful r -> (forall a, r = Ok a -> graceful (f a)) -> graceful (bind r f).
Proof. destruct r; simpl; intros H1 H2; auto. Qed.

Lemma registry_execute_graceful f : wf_msg f -> graceful (registry_execute f).
Proof.
  intros [Hok Hlen]. unfold registry_execute. apply graceful_bind.
  - now apply frame_graceful.
  - intros hs _. destruct (parse_uint64 _); exact I.
Qed.

Lemma slice_from_graceful b lo : 0 <= lo <= zlen b ->
  exists s, slice_from b lo = Ok s /\ s = drop (Z.to_nat lo) b.
Proof.
  intros H. unfold slice_from.
  replace ((0 <=? lo) && (lo <=? zlen b)) with true by (symmetry; rewrite andb_true_iff; split; lia).
  eauto.
Qed.

Lemma drop_wf n m : wf_msg m -> wf_msg (drop n m).
Proof.
  intros [Hok Hlen]. split; [now apply drop_ok|].
  unfold zlen in *. rewrite drop_length. lia.
Qed.

Lemma execute_frame_graceful m : wf_msg m -> graceful (execute_frame m).
Proof.
  intros Hwf. unfold execute_frame. pose proof (zlen_nonneg m).
  destruct (zlen m <? 4) eqn:E; [exact I|]. apply Z.ltb_ge in E.
  destruct (slice_from_graceful m 4) as [s [Es Ed]]; [lia|]. rewrite Es. cbn [bind].
  apply registry_execute_graceful. subst s. now apply drop_wf.
Qed.

Lemma read_request_header_graceful src : wf_msg src -> graceful (read_request_header src).
Proof.
  intros [Hok Hlen]. unfold read_request_header. apply graceful_bind.
  - now apply stream_graceful.
  - intros [hs rest] _. destruct (lookup opid_header hs); exact I.
Qed.

Section WithThrift.
  Variable thrift_layer : bytes -> res unit.
  Hypothesis thrift_total : forall b, graceful (thrift_layer b).

  Lemma process_request_graceful p : wf_msg p -> graceful (process_request thrift_layer p).
  Proof.
    intros Hwf. unfold process_request. apply graceful_bind.
    - now apply read_request_header_graceful.
    - intros [[hs op] rest] _. apply thrift_total.
  Qed.

  Lemma of_res_continue {A} (r : res A) : graceful r -> exists o, of_res r = Continue o.
  Proof. destruct r; simpl; intros H; try contradiction; eauto. Qed.

  Lemma nats_client_continues m : wf_msg m -> exists o, nats_client_body m = Continue o.
  Proof. intros H. apply of_res_continue. now apply execute_frame_graceful. Qed.

  Lemma prefixed_body_continues m : wf_msg m -> exists o, nats_server_body thrift_layer m = Continue o.
  Proof.
    intros Hwf. unfold nats_server_body. pose proof (zlen_nonneg m).
    destruct (zlen m <? 4) eqn:E; [eauto|]. apply Z.ltb_ge in E.
    destruct (slice_from_graceful m 4) as [s [Es Ed]]; [lia|]. rewrite Es.
    apply of_res_continue. apply process_request_graceful. subst s. now apply drop_wf.
  Qed.

  Lemma scope_continues m : wf_msg m -> exists o, scope_body thrift_layer m = Continue o.
  Proof. exact (prefixed_body_continues m). Qed.

  Lemma http_continues m : wf_msg m -> exists o, http_body thrift_layer m = Continue o.
  Proof.
    intros Hwf. unfold http_body.
    destruct (read_full m 4) as [[a rest]|e|p|] eqn:E; eauto;
      try (pose proof (read_full_graceful m 4) as G; rewrite E in G; contradiction).
    apply of_res_continue. apply process_request_graceful.
    apply read_full_inv in E. destruct E as (Em & La & _). subst m.
    destruct Hwf as [Hok Hlen]. apply bytes_ok_app_inv in Hok. rewrite zlen_app in Hlen.
    pose proof (zlen_nonneg a). split; [tauto | lia].
  Qed.

  (** a loop whose body always continues serves every message, each judged on its own *)
  Lemma run_loop_all_served (body : bytes -> step_result) ms :
    (forall m, In m ms -> exists o, body m = Continue o) ->
    run_loop body ms = map body ms.
  Proof.
    induction ms as [|m ms IH]; intros H; [reflexivity|]. cbn [run_loop map].
    destruct (H m (or_introl eq_refl)) as [o Eo]. rewrite Eo. f_equal.
    apply IH. intros m' Hin. apply H. now right.
  Qed.

  (** well-formed messages are handled *)
  Lemma process_request_wellformed l op payload :
    header_size l < 2147483648 -> lookup opid_header l = Some op ->
    process_request thrift_layer (marshal l ++ payload) = thrift_layer payload.
  Proof.
    intros Hs Hop. unfold process_request, read_request_header.
    rewrite stream_roundtrip by assumption. cbn [bind]. rewrite Hop. reflexivity.
  Qed.

  (** adapter read loop never crashes; with fuel > length it always ends in a closed state *)
  Lemma adapter_read_loop_safe fuel : forall stream,
    bytes_ok stream -> zlen stream < 2147483648 -> (length stream < fuel)%nat ->
    match adapter_read_loop fuel stream with
    | ClosedClean | ClosedWith _ => True
    | ConnCrash | ConnFuel => False
    end.
  Proof.
    induction fuel as [|fuel IH]; intros stream Hok Hlen Hf; [lia|].
    cbn [adapter_read_loop]. destruct stream as [|x s]; [exact I|].
    set (st := x :: s) in *.
    destruct (read_full st 4) as [[sb s1]|e|p|] eqn:E1;
      try (pose proof (read_full_graceful st 4) as G; rewrite E1 in G; contradiction); [|exact I].
    apply read_full_inv in E1. destruct E1 as (Est & Lsb & _).
    assert (Hok1 : bytes_ok sb /\ bytes_ok s1) by (apply bytes_ok_app_inv; now rewrite <- Est).
    destruct (max_frame <? un_be32 sb) eqn:Em; [exact I|].
    destruct (read_full s1 (un_be32 sb)) as [[frame s2]|e|p|] eqn:E2;
      try (pose proof (read_full_graceful s1 (un_be32 sb)) as G; rewrite E2 in G; contradiction);
      [|exact I].
    apply read_full_inv in E2. destruct E2 as (Es1 & Lfr & Hnn).
    assert (Hok2 : bytes_ok frame /\ bytes_ok s2) by (apply bytes_ok_app_inv; rewrite <- Es1; tauto).
    assert (Hlens : zlen st = 4 + zlen frame + zlen s2).
    { rewrite Est, Es1, !zlen_app. lia. }
    pose proof (zlen_nonneg frame). pose proof (zlen_nonneg s2).
    pose proof (registry_execute_graceful frame) as G.
    destruct (registry_execute frame) as [op|e|p|]; try exact I;
      try (apply G; split; [tauto | lia]).
    apply IH; [tauto | lia |].
    unfold zlen in *. lia.
  Qed.
End WithThrift.
