(** Lemmas about Model/ThriftCompact.v: zigzag and varint codecs, headers, round trip of the compact
    wire codec (with the reader's pending-bool state), skipping, unknown fields, and the round trip
    of the generated Write / Read under the compact protocol. *)
From Coq Require Import ZArith List Bool Lia.
From FV Require Import Base.Res Base.Bytes Model.ThriftBin Model.ThriftCompact
  Proofs.BytesProofs Proofs.ThriftBinProofs Proofs.ThriftBinGoProofs.
Import ListNotations.
Open Scope Z_scope.

Ltac Zify.zify_post_hook ::= Z.div_mod_to_equations.

Local Notation P32 := 4294967296.
Local Notation P64 := 18446744073709551616.

(** * Zigzag *)
Lemma zigzag32_spec n : -2147483648 <= n < 2147483648 ->
  zigzag32 n = if n <? 0 then -2 * n - 1 else 2 * n.
Proof.
  intros H. unfold zigzag32. rewrite Z.shiftl_mul_pow2, Z.shiftr_div_pow2 by lia.
  change (2 ^ 1) with 2. change (2 ^ 31) with 2147483648.
  destruct (n <? 0) eqn:E.
  - apply Z.ltb_lt in E. replace (n / 2147483648) with (-1) by lia.
    rewrite Z.lxor_m1_r. unfold Z.lnot. lia.
  - apply Z.ltb_ge in E. replace (n / 2147483648) with 0 by lia.
    rewrite Z.lxor_0_r. lia.
Qed.

Lemma zigzag64_spec n : -9223372036854775808 <= n < 9223372036854775808 ->
  zigzag64 n = if n <? 0 then -2 * n - 1 else 2 * n.
Proof.
  intros H. unfold zigzag64. rewrite Z.shiftl_mul_pow2, Z.shiftr_div_pow2 by lia.
  change (2 ^ 1) with 2. change (2 ^ 63) with 9223372036854775808.
  destruct (n <? 0) eqn:E.
  - apply Z.ltb_lt in E. replace (n / 9223372036854775808) with (-1) by lia.
    rewrite Z.lxor_m1_r. unfold Z.lnot. lia.
  - apply Z.ltb_ge in E. replace (n / 9223372036854775808) with 0 by lia.
    rewrite Z.lxor_0_r. lia.
Qed.

Lemma zigzag32_range n : -2147483648 <= n < 2147483648 -> 0 <= zigzag32 n < P32.
Proof. intros H. rewrite zigzag32_spec by lia. destruct (n <? 0) eqn:E; lia. Qed.
Lemma zigzag64_range n : -9223372036854775808 <= n < 9223372036854775808 -> 0 <= zigzag64 n < P64.
Proof. intros H. rewrite zigzag64_spec by lia. destruct (n <? 0) eqn:E; lia. Qed.

Lemma unzig_spec u : 0 <= u ->
  Z.lxor (Z.shiftr u 1) (- (u mod 2)) = if u mod 2 =? 0 then u / 2 else - (u / 2) - 1.
Proof.
  intros H. rewrite Z.shiftr_div_pow2 by lia. change (2 ^ 1) with 2.
  destruct (u mod 2 =? 0) eqn:E.
  - apply Z.eqb_eq in E. rewrite E. cbn [Z.opp]. apply Z.lxor_0_r.
  - apply Z.eqb_neq in E. replace (u mod 2) with 1 by lia. change (- (1)) with (-1).
    rewrite Z.lxor_m1_r. unfold Z.lnot. lia.
Qed.

Lemma unzigzag32_zigzag32 n : -2147483648 <= n < 2147483648 -> unzigzag32 (zigzag32 n) = n.
Proof.
  intros H. pose proof (zigzag32_range n H) as Hr. unfold unzigzag32. cbv zeta.
  rewrite Z.mod_small by lia. rewrite unzig_spec by lia.
  rewrite zigzag32_spec by lia. destruct (n <? 0) eqn:E.
  - apply Z.ltb_lt in E. destruct ((-2 * n - 1) mod 2 =? 0) eqn:E2; [apply Z.eqb_eq in E2|]; lia.
  - apply Z.ltb_ge in E. destruct ((2 * n) mod 2 =? 0) eqn:E2; [|apply Z.eqb_neq in E2]; lia.
Qed.

Lemma unzigzag64_zigzag64 n : -9223372036854775808 <= n < 9223372036854775808 ->
  unzigzag64 (zigzag64 n) = n.
Proof.
  intros H. pose proof (zigzag64_range n H) as Hr. unfold unzigzag64. cbv zeta.
  rewrite Z.mod_small by lia. rewrite unzig_spec by lia.
  rewrite zigzag64_spec by lia. destruct (n <? 0) eqn:E.
  - apply Z.ltb_lt in E. destruct ((-2 * n - 1) mod 2 =? 0) eqn:E2; [apply Z.eqb_eq in E2|]; lia.
  - apply Z.ltb_ge in E. destruct ((2 * n) mod 2 =? 0) eqn:E2; [|apply Z.eqb_neq in E2]; lia.
Qed.

(** zigzag is onto the unsigned range: every u is the image of its decoding *)
Lemma zigzag32_unzigzag32 u : 0 <= u < P32 -> zigzag32 (unzigzag32 u) = u.
Proof.
  intros H. unfold unzigzag32. cbv zeta. rewrite Z.mod_small by lia. rewrite unzig_spec by lia.
  destruct (u mod 2 =? 0) eqn:E; [apply Z.eqb_eq in E|apply Z.eqb_neq in E].
  - rewrite zigzag32_spec by lia. destruct (u / 2 <? 0) eqn:E2; [apply Z.ltb_lt in E2|]; lia.
  - rewrite zigzag32_spec by lia. destruct (- (u / 2) - 1 <? 0) eqn:E2; [|apply Z.ltb_ge in E2]; lia.
Qed.

(** small values get small codes: |n| < 64 is one varint byte *)
Lemma zigzag32_small n : -64 <= n < 64 -> 0 <= zigzag32 n < 128.
Proof. intros H. rewrite zigzag32_spec by lia. destruct (n <? 0) eqn:E; [apply Z.ltb_lt in E|apply Z.ltb_ge in E]; lia. Qed.

(** * Varints *)
Lemma pow128_S n : 128 ^ Z.of_nat (S n) = 128 * 128 ^ Z.of_nat n.
Proof. rewrite Nat2Z.inj_succ, Z.pow_succ_r by lia. reflexivity. Qed.
Lemma pow128_pos n : 0 < 128 ^ Z.of_nat n.
Proof. apply Z.pow_pos_nonneg; lia. Qed.

Lemma read_varint_go_varint f : forall u shift acc rest,
  0 <= u < 128 ^ Z.of_nat (S f) -> 0 <= shift ->
  read_varint_go (varint_fuel f u ++ rest) shift acc = Ok ((acc + u * 2 ^ shift) mod P64, rest).
Proof.
  induction f as [|f IH]; intros u shift acc rest Hu Hs.
  - change (128 ^ Z.of_nat 1) with 128 in Hu.
    cbn [varint_fuel app read_varint_go]. rewrite Z.mod_mod by lia. rewrite (Z.mod_small u 128) by lia.
    destruct (u <? 128) eqn:E; [|apply Z.ltb_ge in E; lia].
    rewrite Z.shiftl_mul_pow2 by lia. reflexivity.
  - rewrite pow128_S in Hu. cbn [varint_fuel].
    destruct (u <? 128) eqn:E.
    + apply Z.ltb_lt in E. cbn [app read_varint_go]. rewrite (Z.mod_small u 128) by lia.
      destruct (u <? 128) eqn:E2; [|apply Z.ltb_ge in E2; lia].
      rewrite Z.shiftl_mul_pow2 by lia. reflexivity.
    + apply Z.ltb_ge in E. cbn [app read_varint_go].
      destruct (u mod 128 + 128 <? 128) eqn:E2; [apply Z.ltb_lt in E2; lia|].
      replace ((u mod 128 + 128) mod 128) with (u mod 128) by lia.
      rewrite IH by lia. rewrite Z.shiftl_mul_pow2 by lia.
      rewrite Z.pow_add_r by lia. change (2 ^ 7) with 128.
      f_equal. f_equal.
      pose proof (Z.div_mod u 128 ltac:(lia)) as Hdm.
      set (q := u / 128) in *. set (r := u mod 128) in *. clearbody q r. subst u. f_equal. ring.
Qed.

Theorem varint_roundtrip u rest : 0 <= u < P64 -> read_varint (varint u ++ rest) = Ok (u, rest).
Proof.
  intros H. unfold read_varint, varint.
  rewrite read_varint_go_varint; [|change (128 ^ Z.of_nat 10) with 1180591620717411303424; lia|lia].
  change (2 ^ 0) with 1. rewrite Z.mul_1_r, Z.add_0_l, Z.mod_small by lia. reflexivity.
Qed.

Lemma varint_fuel_length f u : (1 <= length (varint_fuel f u) <= S f)%nat.
Proof.
  revert u; induction f as [|f IH]; intro u; cbn [varint_fuel]; [cbn; lia|].
  destruct (u <? 128); cbn [length]; [lia|]. specialize (IH (u / 128)). lia.
Qed.
(** 1..10 bytes; one byte below 128 *)
Lemma varint_length u : (1 <= length (varint u) <= 10)%nat.
Proof. apply varint_fuel_length. Qed.
Lemma varint_small u : 0 <= u < 128 -> varint u = [u].
Proof. intros H. unfold varint. cbn [varint_fuel]. destruct (u <? 128) eqn:E; [reflexivity|apply Z.ltb_ge in E; lia]. Qed.

(** * Reader primitives on what the writer emits *)
Lemma signed4_mod u : 0 <= u < P32 -> signed 4 u mod P32 = u.
Proof.
  intros H. unfold signed. change (256 ^ Z.of_nat 4) with P32. change (P32 / 2) with 2147483648.
  destruct (u <? 2147483648) eqn:E; lia.
Qed.

Lemma c_varint64_ok pb u rest : 0 <= u < P64 ->
  c_varint64 (pb, varint u ++ rest) = Ok (u, (pb, rest)).
Proof. intros H. unfold c_varint64. cbn [fst snd]. rewrite varint_roundtrip by lia. reflexivity. Qed.

(** a non-negative int32 (sizes) *)
Lemma c_varint32_size pb n rest : 0 <= n < 2147483648 ->
  c_varint32 (pb, varint32 n ++ rest) = Ok (n, (pb, rest)).
Proof.
  intros H. unfold c_varint32, varint32. rewrite (Z.mod_small n) by lia.
  rewrite c_varint64_ok by lia. cbn [bind]. rewrite Z.mod_small by lia.
  unfold signed. change (256 ^ Z.of_nat 4) with P32. change (P32 / 2) with 2147483648.
  destruct (n <? 2147483648) eqn:E; [reflexivity|apply Z.ltb_ge in E; lia].
Qed.

Lemma c_size_ok pb n rest : 0 <= n < 2147483648 ->
  c_size (pb, varint32 n ++ rest) = Ok (n, (pb, rest)).
Proof.
  intros H. unfold c_size. rewrite c_varint32_size by lia. cbn [bind].
  destruct (n <? 0) eqn:E; [apply Z.ltb_lt in E; lia|reflexivity].
Qed.

Lemma c_i32_ok pb z rest : in_range 4 z ->
  c_i32 (pb, varint32 (zigzag32 z) ++ rest) = Ok (z, (pb, rest)).
Proof.
  intros H. apply (proj1 (in_range_4 z)) in H. pose proof (zigzag32_range z H) as Hr.
  unfold c_i32, c_varint32, varint32. rewrite (Z.mod_small (zigzag32 z)) by lia.
  rewrite c_varint64_ok by lia. cbn [bind]. rewrite (Z.mod_small (zigzag32 z)) by lia.
  f_equal. f_equal.
  unfold unzigzag32 at 1. cbv zeta. rewrite signed4_mod by lia.
  pose proof (unzigzag32_zigzag32 z H) as Hu. unfold unzigzag32 in Hu. cbv zeta in Hu.
  rewrite Z.mod_small in Hu by lia. exact Hu.
Qed.

Lemma c_i16_ok pb z rest : in_range 2 z ->
  c_i16 (pb, varint32 (zigzag32 z) ++ rest) = Ok (z, (pb, rest)).
Proof.
  intros H. unfold c_i16.
  assert (H4 : in_range 4 z) by (apply in_range_4; apply (proj1 (in_range_2 z)) in H; lia).
  rewrite c_i32_ok by exact H4.
  cbn [bind]. change 65536 with (256 ^ Z.of_nat 2). rewrite signed_mod by (assumption || lia).
  reflexivity.
Qed.

Lemma c_i8_ok pb z rest : in_range 1 z ->
  c_i8 (pb, [z mod 256] ++ rest) = Ok (z, (pb, rest)).
Proof.
  intros H. unfold c_i8, c_byte. cbn [snd fst app bind]. rewrite Z.mod_mod by lia.
  change 256 with (256 ^ Z.of_nat 1). rewrite signed_mod by (assumption || lia). reflexivity.
Qed.

Lemma in_range_8 z : in_range 8 z <-> -9223372036854775808 <= z < 9223372036854775808.
Proof. unfold in_range. change (256 ^ Z.of_nat 8 / 2) with 9223372036854775808. lia. Qed.

Lemma c_i64_ok pb z rest : in_range 8 z ->
  c_i64 (pb, varint64 (zigzag64 z) ++ rest) = Ok (z, (pb, rest)).
Proof.
  intros H. apply (proj1 (in_range_8 z)) in H. pose proof (zigzag64_range z H) as Hr.
  unfold c_i64, varint64. rewrite (Z.mod_small (zigzag64 z)) by lia.
  rewrite c_varint64_ok by lia. cbn [bind]. rewrite unzigzag64_zigzag64 by lia. reflexivity.
Qed.

Lemma un_be_rev_le n z : un_be (rev (le_n n z)) = z mod 256 ^ Z.of_nat n.
Proof. unfold le_n. rewrite rev_involutive. apply un_be_be_n. Qed.

Lemma c_double_ok pb b rest : 0 <= b < 2 ^ 64 ->
  c_double (pb, le_n 8 b ++ rest) = Ok (b, (pb, rest)).
Proof.
  intros H. unfold c_double. cbn [snd fst].
  rewrite read_n_app by (unfold le_n; rewrite rev_length; apply be_n_length). cbn [bind].
  rewrite un_be_rev_le. change (256 ^ Z.of_nat 8) with (2 ^ 64). rewrite Z.mod_small by lia.
  reflexivity.
Qed.

Lemma c_blob_ok pb b rest : zlen b < 2147483648 ->
  c_blob (pb, varint32 (zlen b) ++ b ++ rest) = Ok (b, (pb, rest)).
Proof.
  intros H. pose proof (zlen_nonneg b) as Hz. pose proof (zlen_nonneg rest) as Hz2.
  unfold c_blob. rewrite c_size_ok by lia. cbn [bind snd fst].
  rewrite zlen_app. destruct (zlen b <=? zlen b + zlen rest) eqn:E; [|apply Z.leb_gt in E; lia].
  unfold zlen. rewrite Nat2Z.id.
  rewrite firstn_app, Nat.sub_diag, firstn_all, skipn_app, Nat.sub_diag, skipn_all.
  cbn. rewrite app_nil_r. reflexivity.
Qed.

(** * Type nibbles *)
Lemma ttype_of_ctype_wtype e t : ttype_of_ctype (ctype e t) = Some (wtype e t).
Proof.
  unfold ctype, wtype. destruct (shape_of e t); cbn [wtype_of_shape]; try reflexivity.
  destruct nbytes as [|[|[|[|[|?]]]]]; reflexivity.
Qed.
Lemma ctype_range e t : 0 <= ctype e t <= 12.
Proof.
  unfold ctype, wtype. destruct (shape_of e t); cbn [wtype_of_shape]; try (cbn; lia).
  destruct nbytes as [|[|[|[|[|?]]]]]; cbn; lia.
Qed.
(** a value that is not a bool has a type nibble from 3 (BYTE) to 12 (STRUCT) *)
Lemma ctype_nonbool e t v : wwt e t v -> (forall b, v <> VBool b) -> 3 <= ctype e t <= 12.
Proof.
  intros Hw Hnb. unfold ctype, wtype.
  destruct v; cbn [wwt] in Hw; try (exfalso; eapply Hnb; reflexivity);
    destruct (shape_of e t) eqn:E; cbn [wtype_of_shape]; try contradiction;
    try (destruct Hw as [Hw _]; try discriminate Hw; try (destruct Hw as [Hw|Hw]; discriminate Hw));
    try (cbn; lia).
  destruct nbytes as [|[|[|[|[|?]]]]]; cbn; lia.
Qed.

(** * Headers *)
Lemma c_list_hdr_ok pb e et n rest : 0 <= n < 2147483648 ->
  c_list_hdr (pb, ccoll_hdr (ctype e et) n ++ rest) = Ok ((wtype e et, n), (pb, rest)).
Proof.
  intros H. pose proof (ctype_range e et) as Hc. pose proof (ttype_of_ctype_wtype e et) as Ht.
  unfold c_list_hdr, ccoll_hdr. destruct (n <=? 14) eqn:E.
  - apply Z.leb_le in E. unfold c_byte. cbn [app snd fst bind].
    replace ((n * 16 + ctype e et) / 16 mod 16) with n by lia.
    replace ((n * 16 + ctype e et) mod 16) with (ctype e et) by lia.
    destruct (n =? 15) eqn:E2; [apply Z.eqb_eq in E2; lia|]. cbn [bind].
    destruct (n <? 0) eqn:E3; [apply Z.ltb_lt in E3; lia|]. rewrite Ht. reflexivity.
  - apply Z.leb_gt in E. unfold c_byte. cbn [app snd fst bind].
    replace ((240 + ctype e et) / 16 mod 16) with 15 by lia.
    replace ((240 + ctype e et) mod 16) with (ctype e et) by lia.
    cbn [Z.eqb Pos.eqb]. rewrite c_varint32_size by lia. cbn [bind].
    destruct (n <? 0) eqn:E3; [apply Z.ltb_lt in E3; lia|]. rewrite Ht. reflexivity.
Qed.

Lemma c_map_hdr_ok pb e kt vt n rest : 0 <= n < 2147483648 ->
  exists k v, c_map_hdr (pb, cmap_hdr (ctype e kt) (ctype e vt) n ++ rest) = Ok ((k, v, n), (pb, rest))
              /\ (0 < n -> k = wtype e kt /\ v = wtype e vt).
Proof.
  intros H. pose proof (ctype_range e kt) as Hk. pose proof (ctype_range e vt) as Hv.
  unfold c_map_hdr, cmap_hdr. destruct (n =? 0) eqn:E.
  - apply Z.eqb_eq in E. subst n. exists 0, 0. split; [|lia].
    change [0] with (varint32 0). rewrite c_size_ok by lia. reflexivity.
  - apply Z.eqb_neq in E. exists (wtype e kt), (wtype e vt). split; [|tauto].
    rewrite <- app_assoc. rewrite c_size_ok by lia. cbn [bind]. rewrite (proj2 (Z.eqb_neq n 0) E).
    unfold c_byte. cbn [app snd fst bind].
    replace ((ctype e kt * 16 + ctype e vt) / 16 mod 16) with (ctype e kt) by lia.
    replace ((ctype e kt * 16 + ctype e vt) mod 16) with (ctype e vt) by lia.
    unfold ttype_or_stop. rewrite !ttype_of_ctype_wtype. reflexivity.
Qed.

(** the field header written from lastFieldId [last] is read back from the same [last]; a type
    nibble 1 / 2 leaves the bool pending *)
Lemma c_field_hdr_ok pb last id ct wt rest :
  in_range 2 last -> in_range 2 id -> 1 <= ct <= 13 -> ttype_of_ctype ct = Some wt ->
  c_field_hdr last (pb, cfield_hdr last id ct ++ rest) =
  Ok ((wt, id), (if (ct =? 1) || (ct =? 2) then Some (ct =? 1) else pb, rest)).
Proof.
  intros Hl Hi Hc Ht. pose proof Hl as Hl'. pose proof Hi as Hi'.
  apply (proj1 (in_range_2 _)) in Hl'. apply (proj1 (in_range_2 _)) in Hi'.
  unfold c_field_hdr, cfield_hdr. destruct ((last <? id) && (id - last <=? 15)) eqn:E.
  - apply andb_true_iff in E. destruct E as [E1 E2]. apply Z.ltb_lt in E1. apply Z.leb_le in E2.
    unfold c_byte. cbn [app snd fst bind].
    replace (((id - last) * 16 + ct) mod 16) with ct by lia.
    replace (((id - last) * 16 + ct) / 16 mod 16) with (id - last) by lia.
    destruct (ct =? 0) eqn:E3; [apply Z.eqb_eq in E3; lia|].
    destruct (id - last =? 0) eqn:E4; [apply Z.eqb_eq in E4; lia|]. cbn [bind].
    replace (last + (id - last)) with id by lia.
    change 65536 with (256 ^ Z.of_nat 2). rewrite signed_mod by (assumption || lia).
    rewrite Ht. reflexivity.
  - unfold c_byte. cbn [app snd fst bind].
    replace (ct mod 16) with ct by lia. replace (ct / 16 mod 16) with 0 by lia.
    destruct (ct =? 0) eqn:E3; [apply Z.eqb_eq in E3; lia|].
    cbn [Z.eqb]. rewrite c_i16_ok by assumption. cbn [bind]. rewrite Ht. reflexivity.
Qed.

(** the short form is one byte exactly when 0 < id - last <= 15 *)
Lemma cfield_hdr_short last id ct : 0 < id - last <= 15 -> cfield_hdr last id ct = [(id - last) * 16 + ct].
Proof.
  intros H. unfold cfield_hdr.
  destruct (last <? id) eqn:E1; [|apply Z.ltb_ge in E1; lia].
  destruct (id - last <=? 15) eqn:E2; [reflexivity|apply Z.leb_gt in E2; lia].
Qed.
Lemma cfield_hdr_long last id ct : id - last <= 0 \/ 15 < id - last ->
  cfield_hdr last id ct = ct :: varint32 (zigzag32 id).
Proof.
  intros H. unfold cfield_hdr.
  destruct (last <? id) eqn:E1; destruct (id - last <=? 15) eqn:E2; try reflexivity.
  apply Z.ltb_lt in E1. apply Z.leb_le in E2. lia.
Qed.

(** * The nested loops of [cenc] are the stand-alone ones *)
Lemma cenc_list_eq e t l :
  cenc e t (VList l) =
  ccoll_hdr (ctype e (elem_ty (shape_of e t))) (zlen l) ++ cenc_seq e (elem_ty (shape_of e t)) l.
Proof.
  cbn [cenc]. cbv zeta. f_equal.
  induction l as [|x r IH]; [reflexivity|]. cbn [cenc_seq]. rewrite <- IH. reflexivity.
Qed.
Lemma cenc_set_eq e t l :
  cenc e t (VSet l) =
  ccoll_hdr (ctype e (elem_ty (shape_of e t))) (zlen l) ++ cenc_seq e (elem_ty (shape_of e t)) l.
Proof.
  cbn [cenc]. cbv zeta. f_equal.
  induction l as [|x r IH]; [reflexivity|]. cbn [cenc_seq]. rewrite <- IH. reflexivity.
Qed.
Lemma cenc_map_eq e t l :
  cenc e t (VMap l) =
  cmap_hdr (ctype e (key_ty (shape_of e t))) (ctype e (mval_ty (shape_of e t))) (zlen l) ++
  cenc_pairs e (key_ty (shape_of e t)) (mval_ty (shape_of e t)) l.
Proof.
  cbn [cenc]. cbv zeta. f_equal.
  induction l as [|[k x] r IH]; [reflexivity|]. cbn [cenc_pairs]. rewrite <- IH. reflexivity.
Qed.
Lemma cenc_rec_eq e t l :
  cenc e t (VRec l) = cenc_fields e (ftyp_of (struct_fields (shape_of e t))) l 0.
Proof.
  cbn [cenc]. cbv zeta.
  match goal with |- ?g l 0 = _ =>
    assert (Hg : forall last, g l last = cenc_fields e (ftyp_of (struct_fields (shape_of e t))) l last);
      [|apply Hg] end.
  induction l as [|[i x] r IH]; intro last; [reflexivity|]. cbn [cenc_fields].
  destruct (ftyp_of (struct_fields (shape_of e t)) i); rewrite <- IH; reflexivity.
Qed.

(** * Fields: header, then the value read from the state the header leaves *)
Definition field_st (e : env) (ft : ty) (x : val) (rest : bytes) : cst :=
  match x with VBool b => (Some b, rest) | _ => (None, cenc e ft x ++ rest) end.

Lemma wwt_bool_wtype e t b : wwt e t (VBool b) -> wtype e t = 2.
Proof. cbn [wwt]. intros H. unfold wtype. rewrite H. reflexivity. Qed.

Lemma c_field_hdr_field e ft x last id rest :
  wwt e ft x -> in_range 2 last -> in_range 2 id ->
  c_field_hdr last (None, cenc_field e last id ft x ++ rest) = Ok ((wtype e ft, id), field_st e ft x rest).
Proof.
  intros Hw Hl Hi.
  assert (Hgen : (forall b, x <> VBool b) ->
                 c_field_hdr last (None, (cfield_hdr last id (ctype e ft) ++ cenc e ft x) ++ rest) =
                 Ok ((wtype e ft, id), (None, cenc e ft x ++ rest))).
  { intros Hnb. pose proof (ctype_nonbool e ft x Hw Hnb) as Hc.
    rewrite <- app_assoc.
    rewrite (c_field_hdr_ok None last id (ctype e ft) (wtype e ft)); try assumption;
      [|lia|apply ttype_of_ctype_wtype].
    destruct (ctype e ft =? 1) eqn:E1; [apply Z.eqb_eq in E1; lia|].
    destruct (ctype e ft =? 2) eqn:E2; [apply Z.eqb_eq in E2; lia|]. reflexivity. }
  destruct x; try (apply Hgen; discriminate).
  (* bool: folded into the header *)
  rewrite (wwt_bool_wtype e ft b Hw). cbn [cenc_field field_st].
    rewrite (c_field_hdr_ok None last id (if b then 1 else 2) 2); try assumption;
      destruct b; try reflexivity; lia.
Qed.

(** * Round trip of the compact wire codec *)
Definition crt_ok (e : env) (w : val) : Prop :=
  forall t fuel rest, wwt e t w -> (wsize w <= fuel)%nat ->
  cdec fuel e t (None, cenc e t w ++ rest) = Ok (w, (None, rest)).

Lemma cdec_field_st e ft x fuel rest :
  crt_ok e x -> wwt e ft x -> (wsize x <= fuel)%nat ->
  cdec fuel e ft (field_st e ft x rest) = Ok (x, (None, rest)).
Proof.
  intros Hrt Hw Hf. destruct x; try (apply Hrt; assumption).
  cbn [field_st]. cbn [wwt] in Hw. destruct fuel as [|f]; [cbn in Hf; lia|].
  cbn [cdec]. rewrite Hw. reflexivity.
Qed.

Lemma cdec_seq_ok e et l :
  Forall (crt_ok e) l -> Forall (wwt e et) l ->
  forall fuel rest, (size_seq l <= fuel)%nat ->
  cdec_seq fuel e et (zlen l) (None, cenc_seq e et l ++ rest) = Ok (l, (None, rest)).
Proof.
  intros Hrt Hwt. induction l as [|x r IH]; intros fuel rest Hf.
  - destruct fuel; reflexivity.
  - inversion Hrt as [|? ? Hx Hr]; subst. inversion Hwt as [|? ? Wx Wr]; subst.
    cbn [size_seq] in Hf. destruct fuel as [|f]; [lia|].
    cbn [cdec_seq]. rewrite zlen_cons.
    pose proof (zlen_nonneg r) as Hz.
    destruct (1 + zlen r <=? 0) eqn:E; [apply Z.leb_le in E; lia|].
    cbn [cenc_seq]. rewrite <- app_assoc.
    rewrite (Hx et f _ Wx) by lia. cbn [bind].
    replace (1 + zlen r - 1) with (zlen r) by lia.
    rewrite (IH Hr Wr f rest) by lia. reflexivity.
Qed.

Lemma cdec_pairs_ok e kt vt l :
  Forall (fun kv => crt_ok e (fst kv) /\ crt_ok e (snd kv)) l ->
  Forall (fun kv => wwt e kt (fst kv) /\ wwt e vt (snd kv)) l ->
  forall fuel rest, (size_pairs l <= fuel)%nat ->
  cdec_pairs fuel e kt vt (zlen l) (None, cenc_pairs e kt vt l ++ rest) = Ok (l, (None, rest)).
Proof.
  intros Hrt Hwt. induction l as [|[a b] r IH]; intros fuel rest Hf.
  - destruct fuel; reflexivity.
  - inversion Hrt as [|? ? [Ha Hb] Hr]; subst. inversion Hwt as [|? ? [Wa Wb] Wr]; subst.
    cbn [fst snd] in *.
    cbn [size_pairs] in Hf. destruct fuel as [|f]; [lia|].
    cbn [cdec_pairs]. rewrite zlen_cons.
    pose proof (zlen_nonneg r) as Hz.
    destruct (1 + zlen r <=? 0) eqn:E; [apply Z.leb_le in E; lia|].
    cbn [cenc_pairs]. rewrite <- !app_assoc.
    rewrite (Ha kt f _ Wa) by lia. cbn [bind].
    rewrite (Hb vt f _ Wb) by lia. cbn [bind].
    replace (1 + zlen r - 1) with (zlen r) by lia.
    rewrite (IH Hr Wr f rest) by lia. reflexivity.
Qed.

Lemma in_range_2_0 : in_range 2 0.
Proof. apply in_range_2. lia. Qed.

Lemma wtype_pos e t v : wwt e t v -> (wtype e t =? 0) = false.
Proof. intros H. pose proof (wwt_wtype _ _ _ H). apply Z.eqb_neq. lia. Qed.

Lemma c_field_hdr_stop pb last rest : c_field_hdr last (pb, [0] ++ rest) = Ok ((0, 0), (pb, rest)).
Proof. reflexivity. Qed.

Lemma cdec_fields_ok e decls l :
  Forall (fun ix => crt_ok e (snd ix)) l -> Forall (wwt_entry e decls) l ->
  forall fuel last rest, in_range 2 last -> (size_fields l <= fuel)%nat ->
  cdec_fields fuel e decls last (None, cenc_fields e (ftyp_of decls) l last ++ rest) = Ok (l, (None, rest)).
Proof.
  intros Hrt Hwt. induction l as [|[i x] r IH]; intros fuel last rest Hl Hf.
  - cbn [size_fields] in Hf. destruct fuel as [|f]; [lia|].
    cbn [cdec_fields cenc_fields]. rewrite c_field_hdr_stop. reflexivity.
  - inversion Hrt as [|? ? Hx Hr]; subst. inversion Hwt as [|? ? [Wi Wx] Wr]; subst.
    cbn [fst snd] in *.
    cbn [size_fields] in Hf. destruct fuel as [|f]; [lia|].
    destruct (ftyp_of decls i) as [ft|] eqn:Eft; [|contradiction].
    cbn [cdec_fields cenc_fields]. rewrite Eft. rewrite <- app_assoc.
    rewrite c_field_hdr_field by assumption. cbn [bind].
    rewrite (wtype_pos _ _ _ Wx). rewrite Eft.
    rewrite cdec_field_st by (assumption || lia). cbn [bind].
    match goal with |- bind ?X _ = _ =>
      assert (HX : X = Ok (r, (None, rest))) by (apply IH; assumption || lia); rewrite HX end.
    reflexivity.
Qed.

Lemma cdec_cenc e : forall w, crt_ok e w.
Proof.
  induction w using val_ind'; unfold crt_ok; intros t fuel rest Hwt Hf.
  - (* bool in a container: one byte, 1 = true, 2 = false *)
    cbn [wwt] in Hwt. destruct fuel as [|f]; [cbn in Hf; lia|].
    cbn [cdec cenc]. rewrite Hwt. destruct b; reflexivity.
  - (* int *)
    cbn [wwt] in Hwt. destruct fuel as [|f]; [cbn in Hf; lia|].
    cbn [cdec cenc]. cbv zeta. destruct (shape_of e t) eqn:E; try contradiction.
    + destruct Hwt as [Hn Hr].
      destruct Hn as [-> | [-> | [-> | ->]]]; cbn [cenc_int cdec_int].
      * rewrite c_i8_ok by assumption. reflexivity.
      * rewrite c_i16_ok by assumption. reflexivity.
      * rewrite c_i32_ok by assumption. reflexivity.
      * rewrite c_i64_ok by assumption. reflexivity.
    + cbn [cenc_int]. rewrite c_i32_ok by assumption. reflexivity.
  - (* double *)
    cbn [wwt] in Hwt. destruct Hwt as [Hs Hr]. destruct fuel as [|f]; [cbn in Hf; lia|].
    cbn [cdec cenc]. rewrite Hs. rewrite c_double_ok by assumption. reflexivity.
  - (* bytes *)
    cbn [wwt] in Hwt. destruct Hwt as [Hs Hl]. destruct fuel as [|f]; [cbn in Hf; lia|].
    cbn [cdec cenc]. rewrite <- app_assoc.
    destruct Hs as [-> | ->]; rewrite c_blob_ok by assumption; reflexivity.
  - (* list *)
    apply wwt_list in Hwt. destruct Hwt as [et [Hs [Hl Hall]]].
    rewrite wsize_list in Hf. destruct fuel as [|f]; [lia|].
    rewrite cenc_list_eq. cbn [cdec]. rewrite Hs. cbn [elem_ty].
    pose proof (zlen_nonneg l) as Hz.
    rewrite <- app_assoc. rewrite c_list_hdr_ok by lia. cbn [bind snd].
    rewrite (cdec_seq_ok e et l H Hall f) by lia. reflexivity.
  - (* set *)
    apply wwt_set in Hwt. destruct Hwt as [et [Hs [Hl Hall]]].
    rewrite wsize_set in Hf. destruct fuel as [|f]; [lia|].
    rewrite cenc_set_eq. cbn [cdec]. rewrite Hs. cbn [elem_ty].
    pose proof (zlen_nonneg l) as Hz.
    rewrite <- app_assoc. rewrite c_list_hdr_ok by lia. cbn [bind snd].
    rewrite (cdec_seq_ok e et l H Hall f) by lia. reflexivity.
  - (* map *)
    apply wwt_map in Hwt. destruct Hwt as [kt [vt [Hs [Hl Hall]]]].
    rewrite wsize_map in Hf. destruct fuel as [|f]; [lia|].
    rewrite cenc_map_eq. cbn [cdec]. rewrite Hs. cbn [key_ty mval_ty].
    pose proof (zlen_nonneg l) as Hz.
    rewrite <- app_assoc.
    destruct (c_map_hdr_ok None e kt vt (zlen l) (cenc_pairs e kt vt l ++ rest) ltac:(lia)) as [k [v [Hh _]]].
    rewrite Hh. cbn [bind snd].
    rewrite (cdec_pairs_ok e kt vt l H Hall f) by lia. reflexivity.
  - (* Go struct: not a wire value *)
    cbn [wwt] in Hwt. contradiction.
  - (* wire struct *)
    apply wwt_rec in Hwt. destruct Hwt as [k [decls [Hs Hall]]].
    rewrite wsize_rec in Hf. destruct fuel as [|f]; [lia|].
    rewrite cenc_rec_eq. cbn [cdec]. rewrite Hs. cbn [struct_fields].
    rewrite (cdec_fields_ok e decls l H Hall f 0 rest in_range_2_0) by lia. reflexivity.
Qed.

Theorem compact_codec_roundtrip e t w fuel rest :
  wwt e t w -> (wsize w <= fuel)%nat ->
  cdec fuel e t (None, cenc e t w ++ rest) = Ok (w, (None, rest)).
Proof. intros; apply cdec_cenc; assumption. Qed.

(** the generated Read applied to what the generated Write produced under the compact protocol
    returns the value and leaves the following bytes untouched *)
Theorem compact_write_read_roundtrip e t v rest :
  gwf e t v ->
  exists b fuel0, gcwrite e t v = Ok b /\
                  forall fuel, (fuel0 <= fuel)%nat -> gcread fuel e t (b ++ rest) = Ok (v, rest).
Proof.
  intros H. destruct (go_struct_roundtrip e t v H) as [w [Htw [Hww Hfw]]].
  exists (cenc e t w), (wsize w). unfold gcwrite, gcread. rewrite Htw. cbn [bind]. split; [reflexivity|].
  intros fuel Hf. pose proof (compact_codec_roundtrip e t w fuel rest Hww Hf) as Hc.
  match goal with |- bind ?X _ = _ => replace X with (Ok (w, (@None bool, rest))) by (symmetry; exact Hc) end.
  cbn [bind]. rewrite Hfw. reflexivity.
Qed.

(** binary and compact carry the same wire value *)
Theorem compact_binary_same_value e t w fuel r1 r2 :
  wwt e t w -> (wsize w <= fuel)%nat ->
  exists s, cdec fuel e t (None, cenc e t w ++ r1) = Ok (w, s) /\ wdec fuel e t (wenc e t w ++ r2) = Ok (w, r2).
Proof.
  intros Hw Hf. eexists. split; [apply compact_codec_roundtrip; assumption|apply codec_roundtrip; assumption].
Qed.

(** field rules under compact: the same written fields as under binary, laid out as compact field
    headers from lastFieldId 0 *)
Lemma gcwrite_struct e t ovs b :
  gcwrite e t (VStruct ovs) = Ok b ->
  exists k decls l,
    shape_of e t = SStruct k decls /\
    (is_union k = true -> count_set e decls ovs = 1) /\
    written_spec e decls ovs l /\ map fst l = written_ids e decls ovs /\
    b = cenc_fields e (ftyp_of decls) l 0.
Proof.
  unfold gcwrite. rewrite to_wire_struct_eq. intros H.
  destruct (shape_of e t) eqn:Es; cbn [bind] in H; try discriminate.
  destruct (is_union k && negb (count_set e fs ovs =? 1)) eqn:Eu; cbn [bind] in H; [discriminate|].
  destruct (tw_fields e fs ovs) as [l| | |] eqn:El; cbn [bind] in H; try discriminate.
  injection H as <-. exists k, fs, l.
  pose proof (tw_fields_spec _ _ _ _ El) as Hsp.
  repeat split; try assumption.
  - intros Hk. rewrite Hk in Eu. cbn [andb] in Eu.
    destruct (count_set e fs ovs =? 1) eqn:E1; [apply Z.eqb_eq in E1; exact E1|discriminate].
  - apply written_spec_ids; assumption.
  - change (cenc e t (VRec l) = cenc_fields e (ftyp_of fs) l 0).
    rewrite cenc_rec_eq, Es. reflexivity.
Qed.

(** * Skipping: thrift.Skip over the compact protocol consumes exactly the encoding of any
      well-typed value, and leaves no bool pending *)
Definition csk_ok (e : env) (w : val) : Prop :=
  forall t fuel depth rest, wwt e t w -> (wsize w <= fuel)%nat -> wdepth w <= depth ->
  cskip fuel depth (wtype e t) (None, cenc e t w ++ rest) = Ok (None, rest).

Lemma cskip_field_st e ft x fuel depth rest :
  csk_ok e x -> wwt e ft x -> (wsize x <= fuel)%nat -> wdepth x <= depth ->
  cskip fuel depth (wtype e ft) (field_st e ft x rest) = Ok (None, rest).
Proof.
  intros Hsk Hw Hf Hd. destruct x; try (apply Hsk; assumption).
  cbn [field_st]. rewrite (wwt_bool_wtype e ft b Hw).
  destruct fuel as [|f]; [cbn in Hf; lia|]. cbn [wdepth] in Hd.
  cbn [cskip]. destruct (depth <=? 0) eqn:E; [apply Z.leb_le in E; lia|]. reflexivity.
Qed.

Lemma cskip_seq_ok e et l :
  Forall (csk_ok e) l -> Forall (wwt e et) l ->
  forall fuel depth rest, (size_seq l <= fuel)%nat -> depth_seq l <= depth ->
  cskip_seq fuel depth (wtype e et) (zlen l) (None, cenc_seq e et l ++ rest) = Ok (None, rest).
Proof.
  intros Hsk Hwt. induction l as [|x r IH]; intros fuel depth rest Hf Hd.
  - destruct fuel; reflexivity.
  - inversion Hsk as [|? ? Hx Hr]; subst. inversion Hwt as [|? ? Wx Wr]; subst.
    cbn [size_seq] in Hf. cbn [depth_seq] in Hd. destruct fuel as [|f]; [lia|].
    cbn [cskip_seq]. rewrite zlen_cons.
    pose proof (zlen_nonneg r) as Hz.
    destruct (1 + zlen r <=? 0) eqn:E; [apply Z.leb_le in E; lia|].
    cbn [cenc_seq]. rewrite <- app_assoc.
    rewrite (Hx et f depth _ Wx) by lia. cbn [bind].
    replace (1 + zlen r - 1) with (zlen r) by lia.
    apply (IH Hr Wr f depth rest); lia.
Qed.

Lemma cskip_pairs_ok e kt vt l :
  Forall (fun kv => csk_ok e (fst kv) /\ csk_ok e (snd kv)) l ->
  Forall (fun kv => wwt e kt (fst kv) /\ wwt e vt (snd kv)) l ->
  forall fuel depth rest, (size_pairs l <= fuel)%nat -> depth_pairs l <= depth ->
  cskip_pairs fuel depth (wtype e kt) (wtype e vt) (zlen l) (None, cenc_pairs e kt vt l ++ rest) = Ok (None, rest).
Proof.
  intros Hsk Hwt. induction l as [|[a b] r IH]; intros fuel depth rest Hf Hd.
  - destruct fuel; reflexivity.
  - inversion Hsk as [|? ? [Ha Hb] Hr]; subst. inversion Hwt as [|? ? [Wa Wb] Wr]; subst.
    cbn [fst snd] in *.
    cbn [size_pairs] in Hf. cbn [depth_pairs] in Hd. destruct fuel as [|f]; [lia|].
    cbn [cskip_pairs]. rewrite zlen_cons.
    pose proof (zlen_nonneg r) as Hz.
    destruct (1 + zlen r <=? 0) eqn:E; [apply Z.leb_le in E; lia|].
    cbn [cenc_pairs]. rewrite <- !app_assoc.
    rewrite (Ha kt f depth _ Wa) by lia. cbn [bind].
    rewrite (Hb vt f depth _ Wb) by lia. cbn [bind].
    replace (1 + zlen r - 1) with (zlen r) by lia.
    apply (IH Hr Wr f depth rest); lia.
Qed.

Lemma cskip_fields_ok e ftyp l :
  Forall (fun ix => csk_ok e (snd ix)) l -> Forall (wwt_entry_by e ftyp) l ->
  forall fuel depth last rest, in_range 2 last -> (size_fields l <= fuel)%nat -> depth_fields l <= depth ->
  cskip_fields fuel depth last (None, cenc_fields e ftyp l last ++ rest) = Ok (None, rest).
Proof.
  intros Hsk Hwt. induction l as [|[i x] r IH]; intros fuel depth last rest Hl Hf Hd.
  - cbn [size_fields] in Hf. destruct fuel as [|f]; [lia|].
    cbn [cskip_fields cenc_fields]. rewrite c_field_hdr_stop. reflexivity.
  - inversion Hsk as [|? ? Hx Hr]; subst. inversion Hwt as [|? ? [Wi Wx] Wr]; subst.
    cbn [fst snd] in *.
    cbn [size_fields] in Hf. cbn [depth_fields] in Hd. destruct fuel as [|f]; [lia|].
    destruct (ftyp i) as [ft|] eqn:Eft; [|contradiction].
    cbn [cskip_fields cenc_fields]. rewrite Eft. rewrite <- app_assoc.
    rewrite c_field_hdr_field by assumption. cbn [bind].
    rewrite (wtype_pos _ _ _ Wx).
    rewrite cskip_field_st by (assumption || lia). cbn [bind].
    apply (IH Hr Wr f depth i rest); assumption || lia.
Qed.

Lemma cskip_cenc e : forall w, csk_ok e w.
Proof.
  induction w using val_ind'; unfold csk_ok; intros t fuel depth rest Hwt Hf Hd.
  - cbn [wwt] in Hwt. destruct fuel as [|f]; [cbn in Hf; lia|].
    cbn [wdepth] in Hd. unfold wtype. rewrite Hwt. cbn [wtype_of_shape cskip cenc].
    destruct (depth <=? 0) eqn:E; [apply Z.leb_le in E; lia|].
    destruct b; reflexivity.
  - cbn [wwt] in Hwt. destruct fuel as [|f]; [cbn in Hf; lia|].
    cbn [wdepth] in Hd. unfold wtype. cbn [cenc]. cbv zeta.
    destruct (shape_of e t) eqn:E; try contradiction.
    + destruct Hwt as [Hn Hr]. cbn [wtype_of_shape cskip].
      destruct (depth <=? 0) eqn:E1; [apply Z.leb_le in E1; lia|].
      destruct Hn as [-> | [-> | [-> | ->]]]; cbn [Z.eqb Pos.eqb cenc_int].
      * rewrite c_i8_ok by assumption. reflexivity.
      * rewrite c_i16_ok by assumption. reflexivity.
      * rewrite c_i32_ok by assumption. reflexivity.
      * rewrite c_i64_ok by assumption. reflexivity.
    + cbn [wtype_of_shape cskip cenc_int].
      destruct (depth <=? 0) eqn:E1; [apply Z.leb_le in E1; lia|].
      cbn [Z.eqb Pos.eqb]. rewrite c_i32_ok by assumption. reflexivity.
  - cbn [wwt] in Hwt. destruct Hwt as [Hs Hr]. destruct fuel as [|f]; [cbn in Hf; lia|].
    cbn [wdepth] in Hd. unfold wtype. rewrite Hs. cbn [wtype_of_shape cskip cenc].
    destruct (depth <=? 0) eqn:E1; [apply Z.leb_le in E1; lia|].
    cbn [Z.eqb Pos.eqb]. rewrite c_double_ok by assumption. reflexivity.
  - cbn [wwt] in Hwt. destruct Hwt as [Hs Hl]. destruct fuel as [|f]; [cbn in Hf; lia|].
    cbn [wdepth] in Hd. unfold wtype. cbn [cenc]. rewrite <- app_assoc.
    destruct Hs as [-> | ->]; cbn [wtype_of_shape cskip];
      (destruct (depth <=? 0) eqn:E1; [apply Z.leb_le in E1; lia|]);
      cbn [Z.eqb Pos.eqb]; rewrite c_blob_ok by assumption; reflexivity.
  - apply wwt_list in Hwt. destruct Hwt as [et [Hs [Hl Hall]]].
    rewrite wsize_list in Hf. rewrite wdepth_list in Hd. destruct fuel as [|f]; [lia|].
    rewrite cenc_list_eq. unfold wtype at 1. rewrite Hs. cbn [elem_ty wtype_of_shape cskip].
    pose proof (zlen_nonneg l) as Hz.
    assert (0 <= depth_seq l) by (clear; induction l; cbn [depth_seq]; lia).
    destruct (depth <=? 0) eqn:E1; [apply Z.leb_le in E1; lia|].
    cbn [Z.eqb Pos.eqb orb]. rewrite <- app_assoc. rewrite c_list_hdr_ok by lia. cbn [bind].
    apply (cskip_seq_ok e et l H Hall f); lia.
  - apply wwt_set in Hwt. destruct Hwt as [et [Hs [Hl Hall]]].
    rewrite wsize_set in Hf. rewrite wdepth_set in Hd. destruct fuel as [|f]; [lia|].
    rewrite cenc_set_eq. unfold wtype at 1. rewrite Hs. cbn [elem_ty wtype_of_shape cskip].
    pose proof (zlen_nonneg l) as Hz.
    assert (0 <= depth_seq l) by (clear; induction l; cbn [depth_seq]; lia).
    destruct (depth <=? 0) eqn:E1; [apply Z.leb_le in E1; lia|].
    cbn [Z.eqb Pos.eqb orb]. rewrite <- app_assoc. rewrite c_list_hdr_ok by lia. cbn [bind].
    apply (cskip_seq_ok e et l H Hall f); lia.
  - apply wwt_map in Hwt. destruct Hwt as [kt [vt [Hs [Hl Hall]]]].
    rewrite wsize_map in Hf. rewrite wdepth_map in Hd. destruct fuel as [|f]; [lia|].
    rewrite cenc_map_eq. unfold wtype at 1. rewrite Hs. cbn [key_ty mval_ty wtype_of_shape cskip].
    pose proof (zlen_nonneg l) as Hz.
    assert (0 <= depth_pairs l) by (clear; induction l as [|[a b] r]; cbn [depth_pairs]; lia).
    destruct (depth <=? 0) eqn:E1; [apply Z.leb_le in E1; lia|].
    cbn [Z.eqb Pos.eqb orb]. rewrite <- app_assoc.
    destruct (c_map_hdr_ok None e kt vt (zlen l) (cenc_pairs e kt vt l ++ rest) ltac:(lia)) as [k [v [Hh Hkv]]].
    rewrite Hh. cbn [bind].
    destruct l as [|p0 r0].
    + destruct f; reflexivity.
    + rewrite zlen_cons in Hkv. destruct Hkv as [-> ->]; [pose proof (zlen_nonneg r0); lia|].
      apply (cskip_pairs_ok e kt vt (p0 :: r0) H Hall f); lia.
  - cbn [wwt] in Hwt. contradiction.
  - pose proof (wwt_rec_by _ _ _ Hwt) as Hall.
    apply wwt_rec in Hwt. destruct Hwt as [k [decls [Hs _]]].
    rewrite wsize_rec in Hf. rewrite wdepth_rec in Hd. destruct fuel as [|f]; [lia|].
    rewrite cenc_rec_eq. unfold wtype. rewrite Hs. cbn [wtype_of_shape cskip].
    assert (0 <= depth_fields l) by (clear; induction l as [|[a b] r]; cbn [depth_fields]; lia).
    destruct (depth <=? 0) eqn:E1; [apply Z.leb_le in E1; lia|].
    cbn [Z.eqb Pos.eqb orb]. rewrite Hs in Hall. cbn [struct_fields].
    apply (cskip_fields_ok e _ l H Hall f (depth - 1) 0 rest in_range_2_0); lia.
Qed.

Theorem compact_skip_exact e w t fuel depth rest :
  wwt e t w -> (wsize w <= fuel)%nat -> wdepth w <= depth ->
  cskip fuel depth (wtype e t) (None, cenc e t w ++ rest) = Ok (None, rest).
Proof. intros; apply cskip_cenc; assumption. Qed.

(** * Unknown fields are skipped under compact: a reader with declarations [decls] decodes what a
      writer with the larger schema [ftyp] wrote, dropping exactly the fields it does not declare;
      both sides keep the same lastFieldId (every header read, known or not, updates it) *)
Lemma compact_unknown_fields_skipped e decls ftyp l :
  (forall id ft, ftyp_of decls id = Some ft -> ftyp id = Some ft) ->
  Forall (wwt_entry_by e ftyp) l ->
  Forall (fun ix => wdepth (snd ix) <= 64) l ->
  forall fuel last rest, in_range 2 last -> (size_fields l <= fuel)%nat ->
  cdec_fields fuel e decls last (None, cenc_fields e ftyp l last ++ rest) = Ok (filter (known decls) l, (None, rest)).
Proof.
  intros Hagree Hwt Hdep. induction l as [|[i x] r IH]; intros fuel last rest Hl Hf.
  - cbn [size_fields] in Hf. destruct fuel as [|f]; [lia|].
    cbn [cdec_fields cenc_fields filter]. rewrite c_field_hdr_stop. reflexivity.
  - inversion Hwt as [|? ? [Wi Wx] Wr]; subst. inversion Hdep as [|? ? Dx Dr]; subst.
    cbn [fst snd] in *.
    cbn [size_fields] in Hf. destruct fuel as [|f]; [lia|].
    destruct (ftyp i) as [ft|] eqn:Eft; [|contradiction].
    cbn [cdec_fields cenc_fields]. rewrite Eft. rewrite <- app_assoc.
    rewrite c_field_hdr_field by assumption. cbn [bind].
    rewrite (wtype_pos _ _ _ Wx).
    cbn [filter]. unfold known at 1. cbn [fst].
    destruct (ftyp_of decls i) as [ft'|] eqn:Ed.
    + pose proof (Hagree _ _ Ed) as Ha. rewrite Eft in Ha. injection Ha as <-.
      rewrite cdec_field_st by (apply cdec_cenc || assumption || lia). cbn [bind].
      match goal with |- bind ?X _ = _ =>
        assert (HX : X = Ok (filter (known decls) r, (None, rest))) by (apply IH; assumption || lia); rewrite HX end.
      reflexivity.
    + unfold cskip_default.
      rewrite cskip_field_st by (apply cskip_cenc || assumption || lia). cbn [bind].
      apply (IH Wr Dr f i rest); assumption || lia.
Qed.

(** * The compact reader never panics, whatever the bytes *)
Definition np {A} (r : res A) : Prop := match r with Panic _ => False | _ => True end.

Lemma np_bind {A B} (r : res A) (f : A -> res B) : np r -> (forall a, np (f a)) -> np (bind r f).
Proof. destruct r; cbn; auto. Qed.

Lemma np_read_varint_go b : forall shift acc, np (read_varint_go b shift acc).
Proof.
  induction b as [|x r IH]; intros shift acc; cbn [read_varint_go]; [exact I|].
  destruct (x <? 128); [exact I|apply IH].
Qed.
Lemma np_read_n n b : np (read_n n b).
Proof. unfold read_n. destruct (Nat.leb n (length b)); exact I. Qed.

Lemma np_c_byte st : np (c_byte st).
Proof. unfold c_byte. destruct (snd st); exact I. Qed.
Lemma np_c_varint64 st : np (c_varint64 st).
Proof. unfold c_varint64. apply np_bind; [apply np_read_varint_go|intros [? ?]; exact I]. Qed.
Lemma np_c_varint32 st : np (c_varint32 st).
Proof. unfold c_varint32. apply np_bind; [apply np_c_varint64|intros [? ?]; exact I]. Qed.
Lemma np_c_i32 st : np (c_i32 st).
Proof. unfold c_i32. apply np_bind; [apply np_c_varint32|intros [? ?]; exact I]. Qed.
Lemma np_c_i16 st : np (c_i16 st).
Proof. unfold c_i16. apply np_bind; [apply np_c_i32|intros [? ?]; exact I]. Qed.
Lemma np_c_i8 st : np (c_i8 st).
Proof. unfold c_i8. apply np_bind; [apply np_c_byte|intros [? ?]; exact I]. Qed.
Lemma np_c_i64 st : np (c_i64 st).
Proof. unfold c_i64. apply np_bind; [apply np_c_varint64|intros [? ?]; exact I]. Qed.
Lemma np_c_double st : np (c_double st).
Proof. unfold c_double. apply np_bind; [apply np_read_n|intros [? ?]; exact I]. Qed.
Lemma np_c_uuid st : np (c_uuid st).
Proof. unfold c_uuid. apply np_bind; [apply np_read_n|intros [? ?]; exact I]. Qed.
Lemma np_c_size st : np (c_size st).
Proof. unfold c_size. apply np_bind; [apply np_c_varint32|intros [n ?]; destruct (n <? 0); exact I]. Qed.
Lemma np_c_blob st : np (c_blob st).
Proof.
  unfold c_blob. apply np_bind; [apply np_c_size|intros [n s]]. cbv zeta.
  destruct (n <=? zlen (snd s)); exact I.
Qed.
Lemma np_c_bool st : np (c_bool st).
Proof.
  unfold c_bool. destruct (fst st); [exact I|].
  apply np_bind; [apply np_c_byte|intros [? ?]; exact I].
Qed.
Lemma np_c_list_hdr st : np (c_list_hdr st).
Proof.
  unfold c_list_hdr. apply np_bind; [apply np_c_byte|intros [h s1]]. cbv zeta.
  apply np_bind.
  - destruct (h / 16 mod 16 =? 15); [apply np_c_varint32|exact I].
  - intros [size s2]. destruct (size <? 0); [exact I|]. destruct (ttype_of_ctype (h mod 16)); exact I.
Qed.
Lemma np_c_map_hdr st : np (c_map_hdr st).
Proof.
  unfold c_map_hdr. apply np_bind; [apply np_c_size|intros [size s1]].
  destruct (size =? 0); [exact I|]. apply np_bind; [apply np_c_byte|intros [? ?]; exact I].
Qed.
Lemma np_c_field_hdr last st : np (c_field_hdr last st).
Proof.
  unfold c_field_hdr. apply np_bind; [apply np_c_byte|intros [t s1]]. cbv zeta.
  destruct (t mod 16 =? 0); [exact I|]. apply np_bind.
  - destruct (t / 16 mod 16 =? 0); [apply np_c_i16|exact I].
  - intros [id s2]. destruct (ttype_of_ctype (t mod 16)); exact I.
Qed.

Lemma np_cskip_all fuel :
  (forall depth wt st, np (cskip fuel depth wt st)) /\
  (forall depth last st, np (cskip_fields fuel depth last st)) /\
  (forall depth et n st, np (cskip_seq fuel depth et n st)) /\
  (forall depth kt vt n st, np (cskip_pairs fuel depth kt vt n st)).
Proof.
  induction fuel as [|f [IH1 [IH2 [IH3 IH4]]]].
  - repeat split; intros; cbn; try exact I.
    + destruct (n <=? 0); exact I.
    + destruct (n <=? 0); exact I.
  - repeat split; intros.
    + cbn [cskip]. destruct (depth <=? 0); [exact I|].
      repeat match goal with
             | |- np (if ?c then _ else _) => destruct c
             end;
        try exact I; try apply IH2;
        try (apply np_bind; [first [apply np_c_bool|apply np_c_i8|apply np_c_i16|apply np_c_i32|apply np_c_i64
                                    |apply np_c_double|apply np_c_blob|apply np_c_uuid]|intros [? ?]; exact I]).
      * apply np_bind; [apply np_c_map_hdr|intros [[[kt vt] n] s]; apply IH4].
      * apply np_bind; [apply np_c_list_hdr|intros [[et n] s]; apply IH3].
    + cbn [cskip_fields]. apply np_bind; [apply np_c_field_hdr|intros [[wt id] s1]].
      destruct (wt =? 0); [exact I|]. apply np_bind; [apply IH1|intros s2; apply IH2].
    + cbn [cskip_seq]. destruct (n <=? 0); [exact I|].
      apply np_bind; [apply IH1|intros s; apply IH3].
    + cbn [cskip_pairs]. destruct (n <=? 0); [exact I|].
      apply np_bind; [apply IH1|intros s1]. apply np_bind; [apply IH1|intros s2; apply IH4].
Qed.

Lemma np_cdec_int s st : np (cdec_int s st).
Proof.
  destruct s; cbn [cdec_int]; try apply np_c_i32.
  destruct nbytes as [|[|[|[|[|[|[|[|[|?]]]]]]]]]; first [apply np_c_i8|apply np_c_i16|apply np_c_i32|apply np_c_i64].
Qed.

Lemma np_cdec_all fuel e :
  (forall t st, np (cdec fuel e t st)) /\
  (forall et n st, np (cdec_seq fuel e et n st)) /\
  (forall kt vt n st, np (cdec_pairs fuel e kt vt n st)) /\
  (forall decls last st, np (cdec_fields fuel e decls last st)).
Proof.
  induction fuel as [|f [IH1 [IH2 [IH3 IH4]]]].
  - repeat split; intros; cbn; try exact I; destruct (n <=? 0); exact I.
  - repeat split; intros.
    + cbn [cdec]. destruct (shape_of e t); try exact I;
        try (apply np_bind; [first [apply np_c_bool|apply np_cdec_int|apply np_c_i32|apply np_c_double|apply np_c_blob]
                            |intros [? ?]; exact I]).
      * apply np_bind; [apply np_c_list_hdr|intros [h s1]]. apply np_bind; [apply IH2|intros [? ?]; exact I].
      * apply np_bind; [apply np_c_list_hdr|intros [h s1]]. apply np_bind; [apply IH2|intros [? ?]; exact I].
      * apply np_bind; [apply np_c_map_hdr|intros [h s1]]. apply np_bind; [apply IH3|intros [? ?]; exact I].
      * apply np_bind; [apply IH4|intros [? ?]; exact I].
    + cbn [cdec_seq]. destruct (n <=? 0); [exact I|].
      apply np_bind; [apply IH1|intros [x s1]]. apply np_bind; [apply IH2|intros [? ?]; exact I].
    + cbn [cdec_pairs]. destruct (n <=? 0); [exact I|].
      apply np_bind; [apply IH1|intros [k s1]]. apply np_bind; [apply IH1|intros [x s2]].
      apply np_bind; [apply IH3|intros [? ?]; exact I].
    + cbn [cdec_fields]. apply np_bind; [apply np_c_field_hdr|intros [[wt id] s1]].
      destruct (wt =? 0); [exact I|]. destruct (ftyp_of decls id).
      * apply np_bind; [apply IH1|intros [x s2]]. apply np_bind; [apply IH4|intros [? ?]; exact I].
      * apply np_bind; [apply (proj1 (np_cskip_all f))|intros s2; apply IH4].
Qed.

Theorem compact_reader_never_panics fuel e t st : np (cdec fuel e t st).
Proof. apply (proj1 (np_cdec_all fuel e)). Qed.

(** ... nor does the generated Read that drives it *)
Lemma np_from_wire e : forall w t, np (from_wire e t w).
Proof.
  induction w using val_ind'; intro t; try exact I.
  - rewrite from_wire_list_eq. apply np_bind; [|intros; exact I].
    generalize (elem_ty (shape_of e t)) as et. intro et.
    induction H as [|x r Hx _ IH]; cbn [fw_seq]; [exact I|].
    apply np_bind; [apply Hx|intros a]. apply np_bind; [apply IH|intros; exact I].
  - rewrite from_wire_set_eq. apply np_bind; [|intros; exact I].
    generalize (elem_ty (shape_of e t)) as et. intro et.
    induction H as [|x r Hx _ IH]; cbn [fw_seq]; [exact I|].
    apply np_bind; [apply Hx|intros a]. apply np_bind; [apply IH|intros; exact I].
  - rewrite from_wire_map_eq. apply np_bind; [|intros; exact I].
    generalize (key_ty (shape_of e t)) as kt. generalize (mval_ty (shape_of e t)) as vt. intros vt kt.
    induction H as [|[k x] r [Hk Hx] _ IH]; cbn [fw_pairs]; [exact I|]. cbn [fst snd] in *.
    apply np_bind; [apply Hk|intros a]. apply np_bind; [apply Hx|intros b].
    apply np_bind; [apply IH|intros; exact I].
  - rewrite from_wire_rec_eq. destruct (shape_of e t); try exact I.
    apply np_bind.
    + generalize (new_struct e fs) as st.
      induction H as [|[i x] r Hx _ IH]; intro st; cbn [fw_fields]; [exact I|]. cbn [snd] in Hx.
      destruct (find_field fs i); [|apply IH].
      apply np_bind; [apply Hx|intros g; apply IH].
    + intros st. destruct (negb (required_seen fs (map fst l))); [exact I|].
      destruct (is_union k && negb (count_set e fs st =? 1)); exact I.
Qed.

Theorem compact_read_never_panics fuel e t b : np (gcread fuel e t b).
Proof.
  unfold gcread. apply np_bind; [apply compact_reader_never_panics|intros [w s]].
  apply np_bind; [apply np_from_wire|intros; exact I].
Qed.

Theorem compact_read_no_panic fuel e t b p : gcread fuel e t b <> Panic p.
Proof. intros H. pose proof (compact_read_never_panics fuel e t b) as Hn. rewrite H in Hn. exact Hn. Qed.
Theorem compact_reader_no_panic fuel e t st p : cdec fuel e t st <> Panic p.
Proof. intros H. pose proof (compact_reader_never_panics fuel e t st) as Hn. rewrite H in Hn. exact Hn. Qed.

(** the compact encoding determines the value: distinct well-typed wire values of a type have
    distinct encodings, and no encoding is a proper prefix of another (prefix-freeness is what lets
    fields and elements follow each other without separators) *)
Theorem compact_encoding_injective e t w1 w2 r1 r2 :
  wwt e t w1 -> wwt e t w2 -> cenc e t w1 ++ r1 = cenc e t w2 ++ r2 -> w1 = w2 /\ r1 = r2.
Proof.
  intros H1 H2 Heq.
  pose proof (compact_codec_roundtrip e t w1 (wsize w1 + wsize w2) r1 H1 ltac:(lia)) as R1.
  pose proof (compact_codec_roundtrip e t w2 (wsize w1 + wsize w2) r2 H2 ltac:(lia)) as R2.
  rewrite Heq in R1. rewrite R1 in R2. injection R2 as -> ->. split; reflexivity.
Qed.
