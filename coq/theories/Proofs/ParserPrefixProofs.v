(** Scope prefixes: newScopePrefix extracts exactly the declared variables (C10 stage 3, prefix_vars). *)
From Coq Require Import ZArith List Bool Arith Lia.
From FV Require Import Model.Peg Model.ParserStrings.
Import ListNotations.
Local Open Scope Z_scope.

(** a prefix as the IDL author writes it: words and {variables} joined by '.' *)
Inductive ptok := PV (v : bytes) | PW (w : bytes).

Definition tok_text (t : ptok) : bytes := match t with PV v => 123 :: v ++ [125] | PW w => w end.
Fixpoint render_prefix (ts : list ptok) : bytes :=
  match ts with
  | [] => []
  | [t] => tok_text t
  | t :: r => tok_text t ++ 46 :: render_prefix r
  end.
Fixpoint prefix_variables (ts : list ptok) : list bytes :=
  match ts with [] => [] | PV v :: r => v :: prefix_variables r | PW _ :: r => prefix_variables r end.

(** a variable name the two regular expressions accept: word characters only, a letter first, a
    letter or digit second; a plain word: anything without an opening brace *)
Definition good_var (v : bytes) : bool :=
  forallb is_word v && negb (bad_prefix_var v).
Definition plain_word (w : bytes) : bool := forallb (fun c => negb (c =? 123)) w.
Definition tok_ok (t : ptok) : bool := match t with PV v => good_var v | PW w => plain_word w end.

Lemma span_word_acc : forall s acc, span_word s acc = (rev acc ++ fst (span_word s []), snd (span_word s [])).
Proof.
  induction s as [|c s IH]; intros acc; cbn [span_word].
  - rewrite app_nil_r. reflexivity.
  - destruct (is_word c).
    + rewrite (IH (c :: acc)), (IH [c]). cbn [rev app fst snd]. rewrite <- app_assoc. reflexivity.
    + cbn [fst snd]. rewrite app_nil_r. reflexivity.
Qed.

Lemma span_word_run : forall v rest, forallb is_word v = true ->
  match rest with [] => True | c :: _ => is_word c = false end ->
  span_word (v ++ rest) [] = (v, rest).
Proof.
  induction v as [|c v IH]; intros rest Hv Hr; cbn [app].
  - destruct rest as [|d rest]; cbn [span_word]; [reflexivity|]. rewrite Hr. reflexivity.
  - cbn [forallb] in Hv. apply andb_true_iff in Hv. destruct Hv as [Hc Hv].
    cbn [span_word]. rewrite Hc. rewrite span_word_acc, (IH rest Hv Hr). reflexivity.
Qed.

Lemma span_word_shorter : forall s acc, (List.length (snd (span_word s acc)) <= List.length s)%nat.
Proof.
  induction s as [|c s IH]; intros acc; cbn [span_word]; [cbn; lia|].
  destruct (is_word c); [specialize (IH (c :: acc)); cbn [List.length]; lia | cbn; lia].
Qed.

(** enough fuel is enough *)
Lemma prefix_vars_fuel_irrel : forall f1 s f2,
  (List.length s < f1)%nat -> (List.length s < f2)%nat -> prefix_vars_fuel f1 s = prefix_vars_fuel f2 s.
Proof.
  induction f1 as [|f1 IH]; intros s f2 H1 H2; [lia|]. destruct f2 as [|f2]; [lia|].
  destruct s as [|c t]; [reflexivity|]. cbn [prefix_vars_fuel List.length] in *.
  assert (Hrec : forall u, (List.length u <= List.length t)%nat -> prefix_vars_fuel f1 u = prefix_vars_fuel f2 u)
    by (intros u Hu; apply IH; lia).
  destruct c as [|p|p]; try (apply Hrec; lia).
  (* is it the opening brace (123)? the definition matches on the literal *)
  destruct (Z.eq_dec (Z.pos p) 123) as [E|NE].
  - injection E as ->. destruct (span_word t []) as [w after] eqn:Hs.
    pose proof (span_word_shorter t []) as Hl. rewrite Hs in Hl. cbn [snd] in Hl.
    destruct after as [|a t']; [apply Hrec; lia|].
    destruct (Z.eq_dec a 125) as [-> | NA].
    + f_equal. apply Hrec. cbn [List.length] in Hl. lia.
    + assert (Hgo : forall (X : Type) (k1 k2 : X), (a = 125 -> False) ->
                match a with 125 => k1 | _ => k2 end = k2).
      { intros X k1 k2 Hne. destruct a as [|q|q]; try reflexivity.
        do 7 (destruct q as [q|q|]; try reflexivity). exfalso. apply Hne. reflexivity. }
      rewrite !(Hgo _ _ _ NA). apply Hrec. lia.
  - assert (Hgo : forall (X : Type) (k1 k2 : X), match Z.pos p with 123 => k1 | _ => k2 end = k2).
    { intros X k1 k2. destruct p as [q|q|]; try reflexivity.
      do 6 (destruct q as [q|q|]; try reflexivity). exfalso. apply NE. reflexivity. }
    rewrite !Hgo. apply Hrec. lia.
Qed.

Lemma step_other : forall f c t, c <> 123 -> prefix_vars_fuel (S f) (c :: t) = prefix_vars_fuel f t.
Proof.
  intros f c t Hne. cbn [prefix_vars_fuel]. destruct c as [|p|p]; try reflexivity.
  destruct p as [q|q|]; try reflexivity.
  do 6 (destruct q as [q|q|]; try reflexivity). exfalso. apply Hne. reflexivity.
Qed.

Lemma skip_char : forall f c t, c <> 123 -> (List.length (c :: t) < f)%nat ->
  prefix_vars_fuel f (c :: t) = prefix_vars_fuel f t.
Proof.
  intros f c t Hne Hf. destruct f as [|f]; [cbn in Hf; lia|]. rewrite (step_other f c t Hne).
  apply prefix_vars_fuel_irrel; cbn [List.length] in *; lia.
Qed.

Lemma skip_word : forall w rest f, plain_word w = true -> (List.length (w ++ rest) < f)%nat ->
  prefix_vars_fuel f (w ++ rest) = prefix_vars_fuel f rest.
Proof.
  induction w as [|c w IH]; intros rest f Hw Hf; [reflexivity|].
  cbn [plain_word forallb] in Hw. apply andb_true_iff in Hw. destruct Hw as [Hc Hw].
  apply negb_true_iff in Hc. apply Z.eqb_neq in Hc. cbn [app] in *.
  rewrite (skip_char f c (w ++ rest) Hc Hf). apply IH; [exact Hw | cbn [List.length] in Hf; lia].
Qed.

Lemma step_brace : forall f t,
  prefix_vars_fuel (S f) (123 :: t) =
  (let '(w, after) := span_word t [] in
   match after with
   | 125 :: t' => w :: prefix_vars_fuel f t'
   | _ => prefix_vars_fuel f t
   end).
Proof. reflexivity. Qed.

Lemma take_var : forall v rest f, forallb is_word v = true ->
  Nat.lt (List.length (123 :: v ++ 125 :: rest)) f ->
  prefix_vars_fuel f (123 :: v ++ 125 :: rest) = v :: prefix_vars_fuel f rest.
Proof.
  intros v rest f Hv Hf. unfold Nat.lt in Hf. destruct f as [|f]; [cbn in Hf; lia|].
  rewrite step_brace. rewrite (span_word_run v (125 :: rest) Hv eq_refl).
  f_equal. apply prefix_vars_fuel_irrel; cbn [List.length] in *; rewrite ?app_length in *; cbn [List.length] in *; lia.
Qed.

Lemma good_var_word : forall v, good_var v = true -> forallb is_word v = true /\ bad_prefix_var v = false.
Proof.
  intros v H. unfold good_var in H. apply andb_true_iff in H. destruct H as [H1 H2].
  apply negb_true_iff in H2. split; assumption.
Qed.

Lemma prefix_vars_render : forall ts f, forallb tok_ok ts = true ->
  (List.length (render_prefix ts) < f)%nat ->
  prefix_vars_fuel f (render_prefix ts) = prefix_variables ts.
Proof.
  induction ts as [|t r IH]; intros f Hok Hf.
  - destruct f; [cbn in Hf; lia | reflexivity].
  - cbn [forallb] in Hok. apply andb_true_iff in Hok. destruct Hok as [Ht Hr].
    destruct r as [|t2 r2].
    + (* last token *)
      cbn [render_prefix prefix_variables] in *. destruct t as [v|w]; cbn [tok_text tok_ok] in *.
      * destruct (good_var_word v Ht) as [Hw _].
        replace (123 :: v ++ [125]) with (123 :: v ++ 125 :: []) by reflexivity.
        rewrite (take_var v [] f Hw Hf). destruct f; [cbn in Hf; lia | reflexivity].
      * rewrite <- (app_nil_r w). rewrite (skip_word w [] f Ht ltac:(rewrite app_nil_r in *; exact Hf)).
        destruct f; [cbn in Hf; lia | reflexivity].
    + (* token '.' rest *)
      change (render_prefix (t :: t2 :: r2)) with (tok_text t ++ 46 :: render_prefix (t2 :: r2)) in *.
      assert (Hlen2 : (S (List.length (render_prefix (t2 :: r2))) < f)%nat).
      { rewrite app_length in Hf. cbn [List.length] in Hf. lia. }
      assert (Hlen : (List.length (render_prefix (t2 :: r2)) < f)%nat) by lia.
      destruct t as [v|w]; cbn [tok_text tok_ok prefix_variables] in *.
      * destruct (good_var_word v Ht) as [Hw _].
        replace ((123 :: v ++ [125]) ++ 46 :: render_prefix (t2 :: r2))
          with (123 :: v ++ 125 :: 46 :: render_prefix (t2 :: r2))
          by (cbn [app]; rewrite <- app_assoc; reflexivity).
        rewrite take_var; [|exact Hw|].
        -- rewrite skip_char; [|lia|cbn [List.length]; exact Hlen2]. rewrite (IH f Hr Hlen). reflexivity.
        -- cbn [List.length app] in *. rewrite !app_length in *. cbn [List.length] in *. lia.
      * rewrite (skip_word w _ f Ht Hf).
        rewrite skip_char; [|lia|cbn [List.length]; exact Hlen2]. exact (IH f Hr Hlen).
Qed.

Lemma vars_all_good : forall ts, forallb tok_ok ts = true -> find bad_prefix_var (prefix_variables ts) = None.
Proof.
  induction ts as [|[v|w] r IH]; intros Hok; cbn [forallb tok_ok prefix_variables find] in *; [reflexivity| |];
    apply andb_true_iff in Hok; destruct Hok as [Ht Hr].
  - destruct (good_var_word v Ht) as [_ Hb]. rewrite Hb. exact (IH Hr).
  - exact (IH Hr).
Qed.

(** newScopePrefix on a rendered prefix: the string as written, the variables as declared *)
Theorem new_scope_prefix_render : forall ts, forallb tok_ok ts = true ->
  new_scope_prefix (render_prefix ts) = inl (render_prefix ts, prefix_variables ts).
Proof.
  intros ts Hok. unfold new_scope_prefix, prefix_vars.
  rewrite (prefix_vars_render ts _ Hok (Nat.lt_succ_diag_r _)).
  rewrite (vars_all_good ts Hok). reflexivity.
Qed.
