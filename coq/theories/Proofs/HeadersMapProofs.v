(** Maps built by successive assignment, order-irrelevance, addHeadersToFrame. *)
From Coq Require Import ZArith List Lia Bool Permutation.
From FV Require Import Base.Res Base.Bytes Base.GoSem Model.Headers Proofs.BytesProofs Proofs.HeadersProofs.
Import ListNotations.
Open Scope Z_scope.
Ltac Zify.zify_post_hook ::= Z.div_mod_to_equations.

Lemma bytes_eqb_eq a b : bytes_eqb a b = true <-> a = b.
Proof.
  revert b; induction a as [|x a IH]; intros [|y b]; simpl; split; intros H;
    try reflexivity; try discriminate.
  - rewrite andb_true_iff in H. destruct H as [H1 H2]. apply Z.eqb_eq in H1. apply IH in H2. congruence.
  - injection H as -> ->. rewrite Z.eqb_refl. simpl. now apply IH.
Qed.
Lemma bytes_eqb_refl a : bytes_eqb a a = true.
Proof. now apply bytes_eqb_eq. Qed.
Lemma bytes_eqb_neq a b : bytes_eqb a b = false <-> a <> b.
Proof.
  split; intros H.
  - intros E. apply bytes_eqb_eq in E. congruence.
  - destruct (bytes_eqb a b) eqn:E; auto. apply bytes_eqb_eq in E. contradiction.
Qed.

Definition keys (l : list hpair) : list bytes := map fst l.

Lemma lookup_not_in k l : ~ In k (keys l) -> lookup k l = None.
Proof.
  induction l as [|[k' v] l IH]; simpl; intros H; [reflexivity|].
  rewrite IH by tauto. destruct (bytes_eqb k k') eqn:E; [|reflexivity].
  apply bytes_eqb_eq in E. subst. tauto.
Qed.

Lemma lookup_in_nodup k v l : NoDup (keys l) -> In (k, v) l -> lookup k l = Some v.
Proof.
  induction l as [|[k' v'] l IH]; simpl; intros ND H; [contradiction|].
  inversion ND as [|? ? Hnin ND']; subst.
  destruct H as [H|H].
  - injection H as -> ->. rewrite lookup_not_in by assumption. now rewrite bytes_eqb_refl.
  - rewrite (IH ND' H). reflexivity.
Qed.

Lemma lookup_some_in k v l : lookup k l = Some v -> In (k, v) l.
Proof.
  induction l as [|[k' v'] l IH]; simpl; intros H; [discriminate|].
  destruct (lookup k l) as [v''|] eqn:E.
  - injection H as ->. right. now apply IH.
  - destruct (bytes_eqb k k') eqn:Ek; [|discriminate]. injection H as ->.
    apply bytes_eqb_eq in Ek. subst. now left.
Qed.

(** Go's random map iteration order cannot matter: any two orders of the same
    distinct-key entries denote the same map *)
Lemma lookup_perm l l' : NoDup (keys l) -> Permutation l l' -> forall k, lookup k l = lookup k l'.
Proof.
  intros ND P k.
  assert (ND' : NoDup (keys l')) by (eapply Permutation_NoDup; [apply Permutation_map; exact P | exact ND]).
  destruct (lookup k l) as [v|] eqn:E.
  - symmetry. apply lookup_in_nodup; auto. eapply Permutation_in; [exact P|]. now apply lookup_some_in.
  - destruct (lookup k l') as [v'|] eqn:E'; [|reflexivity].
    apply lookup_some_in in E'. apply Permutation_sym in P.
    pose proof (Permutation_in _ P E') as Hin.
    rewrite (lookup_in_nodup _ _ _ ND Hin) in E. discriminate.
Qed.

(** assign *)
Lemma keys_assign_in m k v : In k (keys m) -> keys (assign m k v) = keys m.
Proof.
  induction m as [|[k' v'] m IH]; simpl; intros H; [contradiction|].
  destruct (bytes_eqb k k') eqn:E; simpl; [reflexivity|].
  f_equal. apply IH. destruct H as [H|H]; [|exact H].
  apply bytes_eqb_neq in E. congruence.
Qed.
Lemma keys_assign_notin m k v : ~ In k (keys m) -> keys (assign m k v) = keys m ++ [k].
Proof.
  induction m as [|[k' v'] m IH]; simpl; intros H; [reflexivity|].
  destruct (bytes_eqb k k') eqn:E.
  - apply bytes_eqb_eq in E. subst. tauto.
  - simpl. f_equal. apply IH. tauto.
Qed.
Lemma in_dec_bytes (k : bytes) (l : list bytes) : In k l \/ ~ In k l.
Proof.
  induction l as [|x l IH]; [right; intros []|].
  destruct (bytes_eqb k x) eqn:E.
  - apply bytes_eqb_eq in E. subst. left. now left.
  - apply bytes_eqb_neq in E. destruct IH as [IH|IH]; [left; now right|].
    right. intros [H|H]; congruence.
Qed.
Lemma nodup_snoc (l : list bytes) k : NoDup l -> ~ In k l -> NoDup (l ++ [k]).
Proof.
  induction l as [|x l IH]; simpl; intros ND H.
  - constructor; [intros []|constructor].
  - inversion ND as [|? ? Hx ND']; subst. constructor.
    + rewrite in_app_iff. simpl. intros [H1|[H1|[]]]; [contradiction|]. subst. tauto.
    + apply IH; tauto.
Qed.
Lemma assign_nodup m k v : NoDup (keys m) -> NoDup (keys (assign m k v)).
Proof.
  intros ND. destruct (in_dec_bytes k (keys m)) as [H|H].
  - now rewrite keys_assign_in.
  - rewrite keys_assign_notin by assumption. now apply nodup_snoc.
Qed.

Lemma lookup_assign m k v k2 : NoDup (keys m) ->
  lookup k2 (assign m k v) = if bytes_eqb k2 k then Some v else lookup k2 m.
Proof.
  induction m as [|[k' v'] m IH]; intros ND.
  - simpl. destruct (bytes_eqb k2 k); reflexivity.
  - inversion ND as [|? ? Hnin ND']; subst. cbn [assign].
    destruct (bytes_eqb k k') eqn:E.
    + apply bytes_eqb_eq in E. subst k'. cbn [lookup].
      destruct (bytes_eqb k2 k) eqn:E2.
      * apply bytes_eqb_eq in E2. subst k2. now rewrite lookup_not_in.
      * destruct (lookup k2 m); reflexivity.
    + cbn [lookup]. rewrite IH by assumption.
      destruct (bytes_eqb k2 k) eqn:E2; reflexivity.
Qed.

Definition assign_all (m hs : list hpair) : list hpair :=
  fold_left (fun m p => assign m (fst p) (snd p)) hs m.

Lemma assign_all_nodup hs : forall m, NoDup (keys m) -> NoDup (keys (assign_all m hs)).
Proof.
  induction hs as [|[k v] hs IH]; intros m ND; [exact ND|].
  apply IH. now apply assign_nodup.
Qed.

(** the merged map: entries of [hs] win (the last one for a repeated name), others are kept *)
Lemma lookup_assign_all hs : forall m k, NoDup (keys m) ->
  lookup k (assign_all m hs) = match lookup k hs with Some v => Some v | None => lookup k m end.
Proof.
  induction hs as [|[k' v'] hs IH]; intros m k ND; [reflexivity|].
  unfold assign_all. cbn [fold_left fst snd]. fold (assign_all (assign m k' v') hs).
  rewrite IH by (apply assign_nodup; exact ND).
  cbn [lookup]. destruct (lookup k hs) as [v|]; [reflexivity|].
  rewrite lookup_assign by exact ND. destruct (bytes_eqb k k'); reflexivity.
Qed.

Lemma to_map_nodup l : NoDup (keys (to_map l)).
Proof. unfold to_map. apply (assign_all_nodup l []). constructor. Qed.

Lemma assign_all_snoc l : forall m, NoDup (keys (m ++ l)) -> assign_all m l = m ++ l.
Proof.
  induction l as [|[k v] l IH]; intros m ND; [now rewrite app_nil_r|].
  unfold assign_all. cbn [fold_left fst snd]. fold (assign_all (assign m k v) l).
  assert (Hnin : ~ In k (keys m)).
  { unfold keys in *. rewrite map_app in ND. simpl in ND. apply NoDup_remove_2 in ND.
    rewrite in_app_iff in ND. tauto. }
  assert (Ea : assign m k v = m ++ [(k, v)]).
  { clear -Hnin. induction m as [|[k' v'] m IHm]; simpl in *; [reflexivity|].
    destruct (bytes_eqb k k') eqn:E.
    - apply bytes_eqb_eq in E. subst. tauto.
    - f_equal. apply IHm. tauto. }
  rewrite Ea, IH; rewrite <- app_assoc; [reflexivity | exact ND].
Qed.

Lemma to_map_id l : NoDup (keys l) -> to_map l = l.
Proof. intros ND. unfold to_map. now apply (assign_all_snoc l []). Qed.

Lemma slice_from_app (a b : bytes) lo : lo = zlen a -> slice_from (a ++ b) lo = Ok b.
Proof.
  intros ->. unfold slice_from. pose proof (zlen_nonneg a). pose proof (zlen_nonneg b).
  rewrite zlen_app.
  replace ((0 <=? zlen a) && (zlen a <=? zlen a + zlen b)) with true
    by (symmetry; rewrite andb_true_iff; split; lia).
  unfold zlen. rewrite Nat2Z.id, drop_app_exact. reflexivity.
Qed.

(** addHeadersToFrame: result is the frame for existing ∪ new (new wins), same payload,
    correct outer size *)
Lemma add_headers_spec a b c d l payload hs :
  NoDup (keys l) ->
  9 + header_size l + zlen payload < 2147483648 ->
  9 + header_size (assign_all l hs) + zlen payload < 2147483648 ->
  add_headers_to_frame ([a; b; c; d] ++ marshal l ++ payload) hs
  = Ok (be32 (as_uint32 (5 + header_size (assign_all l hs) + zlen payload))
        ++ marshal (assign_all l hs) ++ payload).
Proof.
  intros ND H1 H2. set (m := assign_all l hs) in *.
  pose proof (header_size_nonneg l) as Hl. pose proof (header_size_nonneg m) as Hm.
  pose proof (zlen_nonneg payload) as Hp.
  set (rest := (be32 (as_uint32 (header_size l)) ++ marshal_pairs l) ++ payload).
  assert (Ef : [a; b; c; d] ++ marshal l ++ payload = [a; b; c; d; 0] ++ rest) by reflexivity.
  rewrite Ef. clear Ef.
  assert (Lr : zlen rest = 4 + header_size l + zlen payload).
  { unfold rest. rewrite !zlen_app, marshal_pairs_length, be32_length. lia. }
  unfold add_headers_to_frame.
  assert (Lf : zlen ([a; b; c; d; 0] ++ rest) = 9 + header_size l + zlen payload).
  { rewrite zlen_app, Lr. change (zlen [a; b; c; d; 0]) with 5. lia. }
  rewrite Lf.
  replace (9 + header_size l + zlen payload <? 5) with false by (symmetry; apply Z.ltb_ge; lia).
  change (nth_error ([a; b; c; d; 0] ++ rest) 4) with (Some 0). cbn [Z.eqb negb].
  rewrite (slice_from_app [a; b; c; d; 0] rest 5) by reflexivity. cbn [bind].
  assert (Eun : unmarshal_headers_from_frame rest = Ok l).
  { pose proof (frame_roundtrip l payload) as R. unfold marshal in R. cbn [app get_headers_from_frame] in R.
    rewrite Z.eqb_refl in R. apply R. lia. }
  rewrite Eun. cbn [bind]. rewrite to_map_id by exact ND. fold (assign_all l hs). fold m.
  assert (Eob : slice rest 0 4 = Ok (be32 (as_uint32 (header_size l)))).
  { unfold rest. rewrite <- app_assoc.
    change (be32 (as_uint32 (header_size l)) ++ marshal_pairs l ++ payload)
      with ([] ++ be32 (as_uint32 (header_size l)) ++ (marshal_pairs l ++ payload)).
    apply slice_app_mid; reflexivity. }
  rewrite Eob. cbn [bind].
  rewrite un_be32_be32 by (rewrite as_uint32_small; lia). rewrite as_int32_uint32 by lia.
  rewrite (wrap32_id (9 + header_size l + zlen payload)) by lia.
  rewrite (wrap32_id (header_size m + (9 + header_size l + zlen payload) - header_size l)) by lia.
  unfold make_bytes.
  replace (header_size m + (9 + header_size l + zlen payload) - header_size l <? 0) with false
    by (symmetry; apply Z.ltb_ge; lia).
  cbn [bind]. rewrite (wrap32_id (9 + header_size l)) by lia.
  assert (Epl : slice_from ([a; b; c; d; 0] ++ rest) (9 + header_size l) = Ok payload).
  { unfold rest. rewrite app_assoc.
    apply slice_from_app. rewrite !zlen_app, marshal_pairs_length, be32_length.
    change (zlen [a; b; c; d; 0]) with 5. lia. }
  rewrite Epl. cbn [bind].
  replace (header_size m + (9 + header_size l + zlen payload) - header_size l - 4)
    with (5 + header_size m + zlen payload) by lia.
  reflexivity.
Qed.
