From Coq Require Import ZArith List Lia Bool.
From FV Require Import Base.Res Base.Bytes Base.GoSem.
Import ListNotations.
Open Scope Z_scope.

Ltac Zify.zify_post_hook ::= Z.div_mod_to_equations.

Lemma zlen_nonneg {A} (l : list A) : 0 <= zlen l.
Proof. unfold zlen; lia. Qed.
Lemma zlen_app {A} (a b : list A) : zlen (a ++ b) = zlen a + zlen b.
Proof. unfold zlen; rewrite app_length; lia. Qed.
Lemma zlen_cons {A} (x : A) l : zlen (x :: l) = 1 + zlen l.
Proof. unfold zlen; simpl length; lia. Qed.
Lemma zlen_nil {A} : zlen (@nil A) = 0.
Proof. reflexivity. Qed.

Lemma wrap32_id z : -2147483648 <= z < 2147483648 -> wrap32 z = z.
Proof.
  intros H. unfold wrap32, as_int32.
  destruct (z mod 4294967296 <? 2147483648) eqn:E; lia.
Qed.

Lemma as_int32_uint32 z : 0 <= z < 2147483648 -> as_int32 (as_uint32 z) = z.
Proof.
  intros H. unfold as_int32, as_uint32.
  destruct (z mod 4294967296 <? 2147483648) eqn:E; lia.
Qed.
Lemma as_uint32_small z : 0 <= z < 4294967296 -> as_uint32 z = z.
Proof. intros H; unfold as_uint32; lia. Qed.

Lemma be32_length n : zlen (be32 n) = 4.
Proof. reflexivity. Qed.
Lemma be32_length_nat n : length (be32 n) = 4%nat.
Proof. reflexivity. Qed.

Lemma un_be32_be32 n : 0 <= n < 4294967296 -> un_be32 (be32 n) = n.
Proof. intros H. unfold un_be32, be32. lia. Qed.

Lemma be32_bytes_ok n : bytes_ok (be32 n).
Proof. unfold bytes_ok, be32, byte_ok. repeat constructor; lia. Qed.

Lemma un_be32_range b : bytes_ok b -> 0 <= un_be32 b < 4294967296.
Proof.
  intros H. unfold un_be32.
  destruct b as [|a [|b0 [|c [|d [|e r]]]]]; try lia.
  inversion H as [|? ? Ha H1]; subst. inversion H1 as [|? ? Hb H2]; subst.
  inversion H2 as [|? ? Hc H3]; subst. inversion H3 as [|? ? Hd H4]; subst.
  unfold byte_ok in *. lia.
Qed.

Lemma as_int32_range u : 0 <= u < 4294967296 -> -2147483648 <= as_int32 u < 2147483648.
Proof. intros H; unfold as_int32; destruct (u <? 2147483648) eqn:E; lia. Qed.

(** take / drop *)
Lemma take_app_exact (a b : bytes) : take (length a) (a ++ b) = a.
Proof. induction a as [|x a IH]; simpl; [destruct b; reflexivity | now rewrite IH]. Qed.
Lemma drop_app_exact (a b : bytes) : drop (length a) (a ++ b) = b.
Proof. induction a as [|x a IH]; simpl; auto. Qed.
Lemma take_length n (l : bytes) : length (take n l) = Nat.min n (length l).
Proof. revert l; induction n as [|n IH]; intros [|x l]; simpl; auto. Qed.
Lemma drop_length n (l : bytes) : length (drop n l) = (length l - n)%nat.
Proof. revert l; induction n as [|n IH]; intros [|x l]; simpl; auto. Qed.
Lemma take_drop n (l : bytes) : take n l ++ drop n l = l.
Proof. revert l; induction n as [|n IH]; intros [|x l]; simpl; auto. now rewrite IH. Qed.
Lemma take_ok n (l : bytes) : bytes_ok l -> bytes_ok (take n l).
Proof.
  revert l; induction n as [|n IH]; intros [|x l] H; simpl; try constructor.
  - inversion H; auto.
  - inversion H; subst; apply IH; auto.
Qed.
Lemma drop_ok n (l : bytes) : bytes_ok l -> bytes_ok (drop n l).
Proof.
  revert l; induction n as [|n IH]; intros [|x l] H; simpl; auto.
  inversion H; subst; apply IH; auto.
Qed.
Lemma sub_ok b lo hi : bytes_ok b -> bytes_ok (sub b lo hi).
Proof. intros; unfold sub; apply take_ok, drop_ok; auto. Qed.
Lemma sub_length b lo hi : 0 <= lo -> lo <= hi -> hi <= zlen b -> zlen (sub b lo hi) = hi - lo.
Proof.
  intros H1 H2 H3. unfold sub, zlen in *. rewrite take_length, drop_length. lia.
Qed.

(** the sub-list of [pre ++ mid ++ post] at mid's position is mid *)
Lemma sub_app_mid (pre mid post : bytes) :
  sub (pre ++ mid ++ post) (zlen pre) (zlen pre + zlen mid) = mid.
Proof.
  unfold sub, zlen.
  replace (Z.to_nat (Z.of_nat (length pre) + Z.of_nat (length mid) - Z.of_nat (length pre)))
    with (length mid) by lia.
  rewrite Nat2Z.id, drop_app_exact, take_app_exact. reflexivity.
Qed.

Lemma slice_app_mid (pre mid post : bytes) lo hi :
  lo = zlen pre -> hi = zlen pre + zlen mid ->
  slice (pre ++ mid ++ post) lo hi = Ok mid.
Proof.
  intros -> ->. unfold slice.
  pose proof (zlen_nonneg pre). pose proof (zlen_nonneg mid). pose proof (zlen_nonneg post).
  rewrite !zlen_app.
  replace ((0 <=? zlen pre) && (zlen pre <=? zlen pre + zlen mid) &&
           (zlen pre + zlen mid <=? zlen pre + (zlen mid + zlen post))) with true.
  - now rewrite sub_app_mid.
  - symmetry. rewrite !andb_true_iff. repeat split; lia.
Qed.

Lemma slice_graceful b lo hi : 0 <= lo -> lo <= hi -> hi <= zlen b ->
  exists s, slice b lo hi = Ok s /\ zlen s = hi - lo.
Proof.
  intros H1 H2 H3. unfold slice.
  replace ((0 <=? lo) && (lo <=? hi) && (hi <=? zlen b)) with true.
  - eexists; split; [reflexivity | apply sub_length; auto].
  - symmetry. rewrite !andb_true_iff. repeat split; lia.
Qed.

Lemma be32_un_be32 b : bytes_ok b -> length b = 4%nat -> be32 (un_be32 b) = b.
Proof.
  intros H L.
  destruct b as [|a [|b0 [|c [|d [|e r]]]]]; try discriminate.
  inversion H as [|? ? Ha H1]; subst. inversion H1 as [|? ? Hb H2]; subst.
  inversion H2 as [|? ? Hc H3]; subst. inversion H3 as [|? ? Hd H4]; subst.
  unfold byte_ok in *. unfold un_be32, be32.
  repeat f_equal; lia.
Qed.

Lemma take_take_drop (n m : nat) (l : bytes) :
  take (n + m) l = take n l ++ take m (drop n l).
Proof.
  revert l; induction n as [|n IH]; intros l; simpl; [reflexivity|].
  destruct l as [|x l]; simpl.
  - destruct m; reflexivity.
  - now rewrite IH.
Qed.
Lemma drop_drop (n m : nat) (l : bytes) : drop m (drop n l) = drop (n + m) l.
Proof.
  revert l; induction n as [|n IH]; intros l; simpl; [reflexivity|].
  destruct l as [|x l]; simpl; [destruct m; reflexivity | apply IH].
Qed.

Lemma sub_split b lo mid hi : 0 <= lo -> lo <= mid -> mid <= hi ->
  sub b lo hi = sub b lo mid ++ sub b mid hi.
Proof.
  intros H1 H2 H3. unfold sub.
  replace (Z.to_nat (hi - lo)) with (Z.to_nat (mid - lo) + Z.to_nat (hi - mid))%nat by lia.
  rewrite take_take_drop. f_equal. rewrite drop_drop. f_equal. f_equal. lia.
Qed.
Lemma sub_empty b lo : sub b lo lo = [].
Proof. unfold sub. rewrite Z.sub_diag. reflexivity. Qed.

Lemma slice_ok_inv b lo hi s : slice b lo hi = Ok s ->
  0 <= lo /\ lo <= hi /\ hi <= zlen b /\ s = sub b lo hi.
Proof.
  unfold slice. destruct ((0 <=? lo) && (lo <=? hi) && (hi <=? zlen b)) eqn:E; [|discriminate].
  intros [= <-]. rewrite !andb_true_iff in E. destruct E as [[E1 E2] E3].
  repeat split; try lia.
Qed.
