(** Proofs about the HTTP response path and size-header parsing (Model/ReceiversHttp.v). *)
From Coq Require Import ZArith List Lia Bool.
From FV Require Import Base.Res Base.Bytes Base.GoSem Model.Receivers Model.ReceiversHttp
  Proofs.BytesProofs.
Import ListNotations.
Open Scope Z_scope.
Ltac Zify.zify_post_hook ::= Z.div_mod_to_equations.

(** * the client never crashes on a response *)
Lemma http_client_response_total status body trunc :
  http_client_response status body trunc <> HcPanic.
Proof.
  unfold http_client_response.
  destruct (status =? 413); [discriminate|]. destruct trunc; [discriminate|].
  destruct (300 <=? status); [discriminate|].
  destruct (b64_decode body) as [resp|]; [|discriminate].
  destruct (zlen resp <? 4) eqn:E4; [discriminate|]. apply Z.ltb_ge in E4.
  destruct (zlen resp =? 4); [destruct (un_be32 resp =? 0); discriminate|].
  unfold slice_from. replace ((0 <=? 4) && (4 <=? zlen resp)) with true; [discriminate|].
  symmetry. apply andb_true_iff. split; apply Z.leb_le; lia.
Qed.

(** a frame is handed to the caller exactly for a 2xx (or lower) response whose body is valid
    base64 of more than 4 bytes; the payload is everything after the 4-byte prefix *)
Lemma http_client_frame_iff status body trunc p :
  http_client_response status body trunc = HcFrame p <->
  (status <> 413 /\ trunc = false /\ status < 300 /\
   exists resp, b64_decode body = Some resp /\ 4 < zlen resp /\ p = drop 4 resp).
Proof.
  unfold http_client_response. split.
  - destruct (status =? 413) eqn:E413; [discriminate|]. apply Z.eqb_neq in E413.
    destruct trunc; [discriminate|].
    destruct (300 <=? status) eqn:E300; [discriminate|]. apply Z.leb_gt in E300.
    destruct (b64_decode body) as [resp|]; [|discriminate].
    destruct (zlen resp <? 4) eqn:E4; [discriminate|]. apply Z.ltb_ge in E4.
    destruct (zlen resp =? 4) eqn:E44; [destruct (un_be32 resp =? 0); discriminate|].
    apply Z.eqb_neq in E44. unfold slice_from.
    replace ((0 <=? 4) && (4 <=? zlen resp)) with true
      by (symmetry; apply andb_true_iff; split; apply Z.leb_le; lia).
    intros H. inversion H. repeat split; auto. exists resp. repeat split; auto. lia.
  - intros (H413 & Ht & H300 & resp & Hd & Hl & Hp). subst trunc p.
    replace (status =? 413) with false by (symmetry; now apply Z.eqb_neq).
    replace (300 <=? status) with false by (symmetry; apply Z.leb_gt; lia).
    rewrite Hd.
    replace (zlen resp <? 4) with false by (symmetry; apply Z.ltb_ge; lia).
    replace (zlen resp =? 4) with false by (symmetry; apply Z.eqb_neq; lia).
    unfold slice_from.
    replace ((0 <=? 4) && (4 <=? zlen resp)) with true
      by (symmetry; apply andb_true_iff; split; apply Z.leb_le; lia).
    reflexivity.
Qed.

(** every error status is an error, whatever the body says *)
Lemma http_client_error_status status body trunc :
  300 <= status -> exists e, http_client_response status body trunc = HcErr e.
Proof.
  intros H. unfold http_client_response. destruct (status =? 413); [eauto|].
  destruct trunc; [eauto|].
  replace (300 <=? status) with true by (symmetry; apply Z.leb_le; lia). eauto.
Qed.

(** * base64: the decoder accepts every encoding and returns the encoded bytes *)
Lemma b64_val_char v : 0 <= v < 64 -> b64_val (b64_char v) = Some v.
Proof.
  intros H. unfold b64_char.
  destruct (v <? 26) eqn:E1.
  - apply Z.ltb_lt in E1. unfold b64_val.
    replace ((65 <=? 65 + v) && (65 + v <=? 90)) with true
      by (symmetry; apply andb_true_iff; split; apply Z.leb_le; lia).
    f_equal. lia.
  - apply Z.ltb_ge in E1. destruct (v <? 52) eqn:E2.
    + apply Z.ltb_lt in E2. unfold b64_val.
      replace ((65 <=? 71 + v) && (71 + v <=? 90)) with false
        by (symmetry; apply andb_false_iff; right; apply Z.leb_gt; lia).
      replace ((97 <=? 71 + v) && (71 + v <=? 122)) with true
        by (symmetry; apply andb_true_iff; split; apply Z.leb_le; lia).
      f_equal. lia.
    + apply Z.ltb_ge in E2. destruct (v <? 62) eqn:E3.
      * apply Z.ltb_lt in E3. unfold b64_val.
        replace ((65 <=? v - 4) && (v - 4 <=? 90)) with false
          by (symmetry; apply andb_false_iff; left; apply Z.leb_gt; lia).
        replace ((97 <=? v - 4) && (v - 4 <=? 122)) with false
          by (symmetry; apply andb_false_iff; left; apply Z.leb_gt; lia).
        replace ((48 <=? v - 4) && (v - 4 <=? 57)) with true
          by (symmetry; apply andb_true_iff; split; apply Z.leb_le; lia).
        f_equal. lia.
      * apply Z.ltb_ge in E3. assert (Hv : v = 62 \/ v = 63) by lia.
        destruct Hv as [-> | ->]; reflexivity.
Qed.

Lemma b64_go_encode bs : bytes_ok bs -> forall out,
  b64_go (b64_encode bs) [] out = Some (out ++ bs).
Proof.
  (* induction three bytes at a time *)
  assert (Hind : forall n (bs : bytes), (length bs <= n)%nat -> bytes_ok bs -> forall out,
            b64_go (b64_encode bs) [] out = Some (out ++ bs)).
  { induction n as [|n IH]; intros l Hlen Hok out.
    - destruct l; [cbn; now rewrite app_nil_r | cbn in Hlen; lia].
    - destruct l as [|a [|b [|c rest]]].
      + cbn. now rewrite app_nil_r.
      + inversion Hok as [|? ? Ha _]; subst. unfold byte_ok in Ha.
        cbn [b64_encode b64_go].
        rewrite (b64_val_char (a / 4)) by lia. cbn [app].
        rewrite (b64_val_char (a mod 4 * 16)) by lia. cbn [app].
        cbn -[Z.mul Z.div Z.modulo Z.add Z.sub]. do 3 f_equal. lia.
      + inversion Hok as [|? ? Ha Hok1]; subst. inversion Hok1 as [|? ? Hb _]; subst.
        unfold byte_ok in Ha, Hb.
        cbn [b64_encode b64_go].
        rewrite (b64_val_char (a / 4)) by lia. cbn [app].
        rewrite (b64_val_char (a mod 4 * 16 + b / 16)) by lia. cbn [app].
        rewrite (b64_val_char (b mod 16 * 4)) by lia. cbn [app].
        cbn -[Z.mul Z.div Z.modulo Z.add Z.sub]. do 2 f_equal. f_equal; [lia|]. f_equal. lia.
      + inversion Hok as [|? ? Ha Hok1]; subst. inversion Hok1 as [|? ? Hb Hok2]; subst.
        inversion Hok2 as [|? ? Hc Hok3]; subst. unfold byte_ok in Ha, Hb, Hc.
        cbn [b64_encode b64_go].
        rewrite (b64_val_char (a / 4)) by lia. cbn [app].
        rewrite (b64_val_char (a mod 4 * 16 + b / 16)) by lia. cbn [app].
        rewrite (b64_val_char (b mod 16 * 4 + c / 64)) by lia. cbn [app].
        rewrite (b64_val_char (c mod 64)) by lia.
        rewrite IH by (auto; cbn in Hlen; lia).
        f_equal. rewrite <- app_assoc. f_equal. unfold quantum3. cbn [app].
        f_equal; [lia|]. f_equal; [lia|]. f_equal. lia. }
  intros Hok out. apply (Hind (length bs)); auto.
Qed.

Lemma b64_roundtrip bs : bytes_ok bs -> b64_decode (b64_encode bs) = Some bs.
Proof. intros H. unfold b64_decode. now rewrite b64_go_encode. Qed.

(** a well-formed reply (base64 of prefix ++ payload, payload non-empty) reaches the caller intact *)
Lemma http_client_wellformed status prefix payload :
  status < 300 -> bytes_ok prefix -> bytes_ok payload -> length prefix = 4%nat -> payload <> [] ->
  http_client_response status (b64_encode (prefix ++ payload)) false = HcFrame payload.
Proof.
  intros Hs Hp Hq Hl Hne. apply http_client_frame_iff. repeat split; try lia.
  exists (prefix ++ payload). split; [|split].
  - apply b64_roundtrip. unfold bytes_ok in *. apply Forall_app. tauto.
  - rewrite zlen_app. unfold zlen. rewrite Hl. destruct payload; [congruence|]. cbn [length]. lia.
  - replace 4%nat with (length prefix). now rewrite drop_app_exact.
Qed.

(** * server: the size header *)
Lemma http_server_status_cases limit clen pok prok outlen :
  let s := http_server_status limit clen pok prok outlen in
  s = 200 \/ s = 400 \/ s = 413 \/ s = 500.
Proof.
  unfold http_server_status.
  destruct (match limit with None | Some [] => Some 0 | Some s => parse_int64 s end); [|auto].
  destruct (clen <? 4); [auto|]. destruct pok; cbn [negb]; [|auto].
  destruct prok; cbn [negb]; [|auto]. destruct ((0 <? z) && (z <? outlen)); auto.
Qed.

Lemma http_server_no_limit clen pok prok outlen :
  http_server_status None clen pok prok outlen =
    if clen <? 4 then 400 else if negb pok then 400 else if negb prok then 500 else 200.
Proof. reflexivity. Qed.

(** a non-positive limit is no limit; a positive limit is enforced exactly *)
Lemma http_server_limit_exact s lim clen outlen :
  parse_int64 s = Some lim -> s <> [] -> 4 <= clen ->
  http_server_status (Some s) clen true true outlen =
    if (0 <? lim) && (lim <? outlen) then 413 else 200.
Proof.
  intros Hp Hne Hc. unfold http_server_status. destruct s as [|c s']; [congruence|].
  rewrite Hp. replace (clen <? 4) with false by (symmetry; apply Z.ltb_ge; lia). reflexivity.
Qed.

Lemma http_server_bad_limit s clen pok prok outlen :
  s <> [] -> parse_int64 s = None -> http_server_status (Some s) clen pok prok outlen = 400.
Proof.
  intros Hne Hp. unfold http_server_status. destruct s as [|c s']; [congruence|]. now rewrite Hp.
Qed.
