From Coq Require Import ZArith List Lia Bool.
From FV Require Import Base.Res Base.Bytes Base.GoSem Model.Headers Proofs.BytesProofs.
Import ListNotations.
Open Scope Z_scope.

Ltac Zify.zify_post_hook ::= Z.div_mod_to_equations.

Lemma marshal_pair_length p : zlen (marshal_pair p) = pair_size p.
Proof.
  unfold marshal_pair, pair_size. rewrite !zlen_app, !be32_length. lia.
Qed.
Lemma marshal_pairs_length l : zlen (marshal_pairs l) = header_size l.
Proof.
  induction l as [|p l IH]; [reflexivity|].
  cbn [marshal_pairs header_size].
  rewrite zlen_app, marshal_pair_length, IH. reflexivity.
Qed.
Lemma header_size_nonneg l : 0 <= header_size l.
Proof.
  induction l as [|p l IH]; cbn [header_size]; [lia|]. unfold pair_size.
  pose proof (zlen_nonneg (fst p)); pose proof (zlen_nonneg (snd p)); lia.
Qed.
Lemma marshal_length l : zlen (marshal l) = 5 + header_size l.
Proof.
  unfold marshal. rewrite zlen_cons, zlen_app, be32_length, marshal_pairs_length. lia.
Qed.

(** reading back what marshal_pairs wrote, embedded anywhere in a buffer *)
Lemma read_pairs_marshal l : forall pre post acc fuel,
  zlen pre + header_size l + zlen post < 2147483648 ->
  (length l < fuel)%nat ->
  read_pairs fuel (pre ++ marshal_pairs l ++ post) (zlen pre) (zlen pre + header_size l) acc
  = Ok (rev acc ++ l).
Proof.
  induction l as [|[k v] l IH]; intros pre post acc fuel Hsz Hfuel.
  - simpl header_size. destruct fuel; simpl;
      (replace (zlen pre <? zlen pre + 0) with false by (symmetry; apply Z.ltb_ge; lia));
      now rewrite app_nil_r.
  - destruct fuel as [|fuel]; [simpl in Hfuel; lia|].
    pose proof (zlen_nonneg pre) as Hp. pose proof (zlen_nonneg post) as Hpo.
    pose proof (zlen_nonneg k) as Hk. pose proof (zlen_nonneg v) as Hv.
    pose proof (header_size_nonneg l) as Hl.
    cbn [header_size] in *. unfold pair_size in *. cbn [fst snd] in *.
    cbn [marshal_pairs].
    unfold marshal_pair. cbn [fst snd].
    set (nk := be32 (as_uint32 (zlen k))). set (nv := be32 (as_uint32 (zlen v))).
    set (buff := pre ++ ((nk ++ k ++ nv ++ v) ++ marshal_pairs l) ++ post).
    set (end_ := zlen pre + (8 + zlen k + zlen v + header_size l)).
    cbn [read_pairs].
    replace (zlen pre <? end_) with true by (symmetry; apply Z.ltb_lt; unfold end_; lia).
    rewrite (wrap32_id (end_ - zlen pre)) by (unfold end_; lia).
    replace (end_ - zlen pre <? 4) with false by (symmetry; apply Z.ltb_ge; unfold end_; lia).
    rewrite (wrap32_id (zlen pre + 4)) by lia.
    assert (E1 : slice buff (zlen pre) (zlen pre + 4) = Ok nk).
    { unfold buff. rewrite <- !app_assoc. apply slice_app_mid; [reflexivity|].
      unfold nk; rewrite be32_length; reflexivity. }
    rewrite E1. cbn [bind].
    assert (Enk : as_int32 (un_be32 nk) = zlen k).
    { unfold nk. rewrite un_be32_be32.
      - apply as_int32_uint32; lia.
      - rewrite as_uint32_small; lia. }
    rewrite Enk.
    replace (zlen k <? 0) with false by (symmetry; apply Z.ltb_ge; lia).
    rewrite (wrap32_id (end_ - (zlen pre + 4))) by (unfold end_; lia).
    replace (end_ - (zlen pre + 4) <? zlen k) with false
      by (symmetry; apply Z.ltb_ge; unfold end_; lia).
    cbn [orb].
    rewrite (wrap32_id (zlen pre + 4 + zlen k)) by lia.
    assert (E2 : slice buff (zlen pre + 4) (zlen pre + 4 + zlen k) = Ok k).
    { unfold buff.
      replace (pre ++ ((nk ++ k ++ nv ++ v) ++ marshal_pairs l) ++ post)
        with ((pre ++ nk) ++ k ++ (nv ++ v ++ marshal_pairs l ++ post))
        by (rewrite <- !app_assoc; reflexivity).
      apply slice_app_mid; rewrite zlen_app; unfold nk; rewrite be32_length; lia. }
    rewrite E2. cbn [bind].
    rewrite (wrap32_id (end_ - (zlen pre + 4 + zlen k))) by (unfold end_; lia).
    replace (end_ - (zlen pre + 4 + zlen k) <? 4) with false
      by (symmetry; apply Z.ltb_ge; unfold end_; lia).
    rewrite (wrap32_id (zlen pre + 4 + zlen k + 4)) by lia.
    assert (E3 : slice buff (zlen pre + 4 + zlen k) (zlen pre + 4 + zlen k + 4) = Ok nv).
    { unfold buff.
      replace (pre ++ ((nk ++ k ++ nv ++ v) ++ marshal_pairs l) ++ post)
        with ((pre ++ nk ++ k) ++ nv ++ (v ++ marshal_pairs l ++ post))
        by (rewrite <- !app_assoc; reflexivity).
      apply slice_app_mid; rewrite ?zlen_app; unfold nk, nv; rewrite ?be32_length; lia. }
    rewrite E3. cbn [bind].
    assert (Env : as_int32 (un_be32 nv) = zlen v).
    { unfold nv. rewrite un_be32_be32.
      - apply as_int32_uint32; lia.
      - rewrite as_uint32_small; lia. }
    rewrite Env.
    replace (zlen v <? 0) with false by (symmetry; apply Z.ltb_ge; lia).
    rewrite (wrap32_id (end_ - (zlen pre + 4 + zlen k + 4))) by (unfold end_; lia).
    replace (end_ - (zlen pre + 4 + zlen k + 4) <? zlen v) with false
      by (symmetry; apply Z.ltb_ge; unfold end_; lia).
    cbn [orb].
    rewrite (wrap32_id (zlen pre + 4 + zlen k + 4 + zlen v)) by lia.
    assert (E4 : slice buff (zlen pre + 4 + zlen k + 4) (zlen pre + 4 + zlen k + 4 + zlen v) = Ok v).
    { unfold buff.
      replace (pre ++ ((nk ++ k ++ nv ++ v) ++ marshal_pairs l) ++ post)
        with ((pre ++ nk ++ k ++ nv) ++ v ++ (marshal_pairs l ++ post))
        by (rewrite <- !app_assoc; reflexivity).
      apply slice_app_mid; rewrite ?zlen_app; unfold nk, nv; rewrite ?be32_length; lia. }
    rewrite E4. cbn [bind].
    unfold buff.
    replace (pre ++ ((nk ++ k ++ nv ++ v) ++ marshal_pairs l) ++ post)
      with ((pre ++ nk ++ k ++ nv ++ v) ++ marshal_pairs l ++ post)
      by (rewrite <- !app_assoc; reflexivity).
    assert (Epre : zlen (pre ++ nk ++ k ++ nv ++ v) = zlen pre + 4 + zlen k + 4 + zlen v).
    { rewrite !zlen_app. unfold nk, nv; rewrite !be32_length; lia. }
    rewrite <- Epre.
    replace end_ with (zlen (pre ++ nk ++ k ++ nv ++ v) + header_size l)
      by (rewrite Epre; unfold end_; lia).
    rewrite IH.
    + cbn [rev]. rewrite <- app_assoc. reflexivity.
    + rewrite Epre; lia.
    + simpl in Hfuel; lia.
Qed.

(** ** Round trips through the Go readers *)
Lemma frame_roundtrip l payload :
  5 + header_size l + zlen payload < 2147483648 ->
  get_headers_from_frame (marshal l ++ payload) = Ok l.
Proof.
  intros Hsz. pose proof (header_size_nonneg l) as Hl. pose proof (zlen_nonneg payload) as Hp.
  unfold marshal. cbn [app get_headers_from_frame]. rewrite Z.eqb_refl.
  unfold unmarshal_headers_from_frame.
  set (sz := be32 (as_uint32 (header_size l))).
  assert (Hlen : zlen ((sz ++ marshal_pairs l) ++ payload) = 4 + header_size l + zlen payload).
  { rewrite !zlen_app, marshal_pairs_length. unfold sz; rewrite be32_length; lia. }
  rewrite Hlen.
  replace (4 + header_size l + zlen payload <? 4) with false by (symmetry; apply Z.ltb_ge; lia).
  assert (E : slice ((sz ++ marshal_pairs l) ++ payload) 0 4 = Ok sz).
  { rewrite <- app_assoc. change (sz ++ marshal_pairs l ++ payload) with ([] ++ sz ++ (marshal_pairs l ++ payload)).
    apply slice_app_mid; reflexivity. }
  rewrite E. cbn [bind].
  assert (Es : as_int32 (un_be32 sz) = header_size l).
  { unfold sz. rewrite un_be32_be32; [apply as_int32_uint32; lia | rewrite as_uint32_small; lia]. }
  rewrite Es.
  replace (header_size l <? 0) with false by (symmetry; apply Z.ltb_ge; lia).
  rewrite (wrap32_id (4 + header_size l + zlen payload - 4)) by lia.
  replace (4 + header_size l + zlen payload - 4 <? header_size l) with false
    by (symmetry; apply Z.ltb_ge; lia).
  cbn [orb]. rewrite (wrap32_id (header_size l + 4)) by lia.
  rewrite <- app_assoc.
  replace 4 with (zlen sz) at 1 by reflexivity.
  replace (header_size l + 4) with (zlen sz + header_size l) by (unfold sz; rewrite be32_length; lia).
  rewrite read_pairs_marshal; [reflexivity | unfold sz; rewrite be32_length; lia |].
  unfold pairs_fuel. rewrite !app_length.
  assert (length l <= length (marshal_pairs l))%nat.
  { clear. induction l as [|p l IH]; [simpl; lia|].
    cbn [marshal_pairs]. rewrite app_length. unfold marshal_pair. rewrite !app_length, !be32_length_nat.
    simpl length. lia. }
  lia.
Qed.

Lemma read_full_app (a b : bytes) n : n = zlen a -> read_full (a ++ b) n = Ok (a, b).
Proof.
  intros ->. unfold read_full. pose proof (zlen_nonneg a). pose proof (zlen_nonneg b).
  rewrite zlen_app.
  replace ((0 <=? zlen a) && (zlen a <=? zlen a + zlen b)) with true
    by (symmetry; rewrite andb_true_iff; split; lia).
  unfold zlen. rewrite Nat2Z.id, take_app_exact, drop_app_exact. reflexivity.
Qed.

Lemma length_le_marshal_pairs l : (length l <= length (marshal_pairs l))%nat.
Proof.
  induction l as [|p l IH]; [simpl; lia|].
  cbn [marshal_pairs]. rewrite app_length. unfold marshal_pair.
  rewrite !app_length, !be32_length_nat. simpl length. lia.
Qed.

Lemma stream_roundtrip l payload :
  header_size l < 2147483648 ->
  read_header (marshal l ++ payload) = Ok (l, payload).
Proof.
  intros Hsz. pose proof (header_size_nonneg l) as Hl.
  unfold marshal, read_header.
  change ((0 :: be32 (as_uint32 (header_size l)) ++ marshal_pairs l) ++ payload)
    with ([0] ++ (be32 (as_uint32 (header_size l)) ++ marshal_pairs l ++ payload)).
  rewrite (read_full_app [0]) by reflexivity. cbn [bind]. rewrite Z.eqb_refl.
  unfold unmarshal_headers_stream.
  rewrite read_full_app by reflexivity. cbn [bind].
  rewrite un_be32_be32 by (rewrite as_uint32_small; lia).
  rewrite as_int32_uint32 by lia.
  replace (header_size l <? 0) with false by (symmetry; apply Z.ltb_ge; lia).
  rewrite read_full_app by (symmetry; apply marshal_pairs_length). cbn [bind].
  pose proof (read_pairs_marshal l [] [] [] (pairs_fuel (marshal_pairs l))) as R.
  cbn [app] in R. rewrite app_nil_r in R.
  change (zlen (@nil Z)) with 0 in R. rewrite Z.add_0_l in R.
  rewrite R; [reflexivity | lia |].
  unfold pairs_fuel. pose proof (length_le_marshal_pairs l). lia.
Qed.

Lemma int32_nonneg_be32 b : bytes_ok b -> length b = 4%nat -> 0 <= as_int32 (un_be32 b) ->
  be32 (as_uint32 (as_int32 (un_be32 b))) = b.
Proof.
  intros Hok L Hn. pose proof (un_be32_range b Hok) as Hr.
  assert (E : as_int32 (un_be32 b) = un_be32 b).
  { unfold as_int32 in *. destruct (un_be32 b <? 2147483648) eqn:EE; lia. }
  rewrite E, as_uint32_small by lia. apply be32_un_be32; auto.
Qed.

(** ** What the loop accepts, and that it never panics (C05 core) *)
Definition pairs_spec (buff : bytes) (i end_ : Z) (acc : list hpair) (r : res (list hpair)) : Prop :=
  match r with
  | Ok l => exists ps, l = rev acc ++ ps /\ sub buff i end_ = marshal_pairs ps
  | Err EInvalidData => True
  | _ => False
  end.

Lemma read_pairs_spec fuel : forall buff i end_ acc,
  bytes_ok buff -> 0 <= i -> i <= end_ -> end_ <= zlen buff -> zlen buff < 2147483648 ->
  (Z.to_nat (end_ - i) < fuel)%nat ->
  pairs_spec buff i end_ acc (read_pairs fuel buff i end_ acc).
Proof.
  induction fuel as [|fuel IH]; intros buff i end_ acc Hok Hi Hie Hend Hlen Hfuel; [lia|].
  cbn [read_pairs].
  destruct (i <? end_) eqn:Elt.
  2:{ apply Z.ltb_ge in Elt. assert (i = end_) by lia; subst.
      exists []. rewrite app_nil_r, sub_empty. split; reflexivity. }
  apply Z.ltb_lt in Elt.
  rewrite (wrap32_id (end_ - i)) by lia.
  destruct (end_ - i <? 4) eqn:E4; [exact I|]. apply Z.ltb_ge in E4.
  rewrite (wrap32_id (i + 4)) by lia.
  destruct (slice_graceful buff i (i + 4)) as [nb [Enb Lnb]]; try lia.
  rewrite Enb. cbn [bind].
  apply slice_ok_inv in Enb. destruct Enb as (_ & _ & _ & Enb).
  assert (Hnbok : bytes_ok nb) by (subst nb; apply sub_ok; auto).
  pose proof (un_be32_range nb Hnbok) as Hr1.
  pose proof (as_int32_range _ Hr1) as Hr1'.
  set (ns := as_int32 (un_be32 nb)) in *.
  destruct (ns <? 0) eqn:En0; [exact I|]. apply Z.ltb_ge in En0.
  rewrite (wrap32_id (end_ - (i + 4))) by lia.
  destruct (end_ - (i + 4) <? ns) eqn:En1; [exact I|]. apply Z.ltb_ge in En1.
  cbn [orb].
  rewrite (wrap32_id (i + 4 + ns)) by lia.
  destruct (slice_graceful buff (i + 4) (i + 4 + ns)) as [name [Ename Lname]]; try lia.
  rewrite Ename. cbn [bind].
  apply slice_ok_inv in Ename. destruct Ename as (_ & _ & _ & Ename).
  rewrite (wrap32_id (end_ - (i + 4 + ns))) by lia.
  destruct (end_ - (i + 4 + ns) <? 4) eqn:E5; [exact I|]. apply Z.ltb_ge in E5.
  rewrite (wrap32_id (i + 4 + ns + 4)) by lia.
  destruct (slice_graceful buff (i + 4 + ns) (i + 4 + ns + 4)) as [vb [Evb Lvb]]; try lia.
  rewrite Evb. cbn [bind].
  apply slice_ok_inv in Evb. destruct Evb as (_ & _ & _ & Evb).
  assert (Hvbok : bytes_ok vb) by (subst vb; apply sub_ok; auto).
  pose proof (un_be32_range vb Hvbok) as Hr2.
  pose proof (as_int32_range _ Hr2) as Hr2'.
  set (vs := as_int32 (un_be32 vb)) in *.
  destruct (vs <? 0) eqn:Ev0; [exact I|]. apply Z.ltb_ge in Ev0.
  rewrite (wrap32_id (end_ - (i + 4 + ns + 4))) by lia.
  destruct (end_ - (i + 4 + ns + 4) <? vs) eqn:Ev1; [exact I|]. apply Z.ltb_ge in Ev1.
  cbn [orb].
  rewrite (wrap32_id (i + 4 + ns + 4 + vs)) by lia.
  destruct (slice_graceful buff (i + 4 + ns + 4) (i + 4 + ns + 4 + vs)) as [value [Eval Lval]]; try lia.
  rewrite Eval. cbn [bind].
  apply slice_ok_inv in Eval. destruct Eval as (_ & _ & _ & Eval).
  specialize (IH buff (i + 4 + ns + 4 + vs) end_ ((name, value) :: acc)).
  unfold pairs_spec in *.
  destruct (read_pairs fuel buff (i + 4 + ns + 4 + vs) end_ ((name, value) :: acc)) as [l|e|p|] eqn:ER;
    try (apply IH; auto; lia).
  - destruct IH as [ps [El Eps]]; auto; try lia.
    exists ((name, value) :: ps). split.
    + rewrite El. cbn [rev]. rewrite <- app_assoc. reflexivity.
    + cbn [marshal_pairs]. unfold marshal_pair. cbn [fst snd].
      rewrite <- Eps.
      rewrite (sub_split buff i (i + 4) end_) by lia.
      rewrite (sub_split buff (i + 4) (i + 4 + ns) end_) by lia.
      rewrite (sub_split buff (i + 4 + ns) (i + 4 + ns + 4) end_) by lia.
      rewrite (sub_split buff (i + 4 + ns + 4) (i + 4 + ns + 4 + vs) end_) by lia.
      rewrite <- Enb, <- Ename, <- Evb, <- Eval.
      assert (Eb1 : be32 (as_uint32 (zlen name)) = nb).
      { rewrite Lname. replace (i + 4 + ns - (i + 4)) with ns by lia.
        apply int32_nonneg_be32; auto. unfold zlen in Lnb; lia. }
      assert (Eb2 : be32 (as_uint32 (zlen value)) = vb).
      { rewrite Lval. replace (i + 4 + ns + 4 + vs - (i + 4 + ns + 4)) with vs by lia.
        apply int32_nonneg_be32; auto. unfold zlen in Lvb; lia. }
      rewrite Eb1, Eb2. rewrite <- !app_assoc. reflexivity.
Qed.

Lemma C04_layout l :
  marshal l = 0 :: be32 (as_uint32 (header_size l)) ++ marshal_pairs l
  /\ zlen (marshal l) = 5 + header_size l
  /\ zlen (marshal_pairs l) = header_size l.
Proof.
  split; [reflexivity|]. split; [apply marshal_length | apply marshal_pairs_length].
Qed.

(** ** Top-level readers: graceful on every byte string, and accept only what marshal writes *)
Lemma bytes_ok_cons_inv x (l : bytes) : bytes_ok (x :: l) -> byte_ok x /\ bytes_ok l.
Proof. intros H; inversion H; auto. Qed.

Definition frame_spec (b : bytes) (r : res (list hpair)) : Prop :=
  match r with
  | Ok l => exists payload, b = marshal l ++ payload
  | Err EInvalidData | Err EBadVersion => True
  | _ => False
  end.

Lemma unmarshal_headers_from_frame_spec frame :
  bytes_ok frame -> zlen frame < 2147483648 ->
  match unmarshal_headers_from_frame frame with
  | Ok l => exists payload, frame = be32 (as_uint32 (header_size l)) ++ marshal_pairs l ++ payload
  | Err EInvalidData => True
  | _ => False
  end.
Proof.
  intros Hok Hlen. unfold unmarshal_headers_from_frame.
  pose proof (zlen_nonneg frame) as Hn.
  destruct (zlen frame <? 4) eqn:E4; [exact I|]. apply Z.ltb_ge in E4.
  destruct (slice_graceful frame 0 4) as [sb [Esb Lsb]]; try lia.
  rewrite Esb. cbn [bind].
  apply slice_ok_inv in Esb. destruct Esb as (_ & _ & _ & Esb).
  assert (Hsbok : bytes_ok sb) by (subst sb; apply sub_ok; auto).
  pose proof (un_be32_range sb Hsbok) as Hr. pose proof (as_int32_range _ Hr) as Hr'.
  set (size := as_int32 (un_be32 sb)) in *.
  destruct (size <? 0) eqn:Es0; [exact I|]. apply Z.ltb_ge in Es0.
  rewrite (wrap32_id (zlen frame - 4)) by lia.
  destruct (zlen frame - 4 <? size) eqn:Es1; [exact I|]. apply Z.ltb_ge in Es1.
  cbn [orb]. rewrite (wrap32_id (size + 4)) by lia.
  pose proof (read_pairs_spec (pairs_fuel frame) frame 4 (size + 4) [] Hok) as S.
  unfold pairs_spec in S.
  destruct (read_pairs (pairs_fuel frame) frame 4 (size + 4) []) as [l|e|p|] eqn:ER;
    try (apply S; try lia; unfold pairs_fuel, zlen in *; lia).
  destruct S as [ps [El Eps]]; try lia; [unfold pairs_fuel, zlen in *; lia|].
  cbn [rev app] in El. subst ps.
  exists (sub frame (size + 4) (zlen frame)).
  assert (Ehs : header_size l = size).
  { rewrite <- marshal_pairs_length, <- Eps. rewrite sub_length; lia. }
  rewrite Ehs.
  assert (Esz : be32 (as_uint32 size) = sb).
  { unfold size. apply int32_nonneg_be32; auto. unfold zlen in Lsb; lia. }
  rewrite Esz, <- Eps, Esb.
  rewrite <- (sub_split frame 4 (size + 4) (zlen frame)) by lia.
  rewrite <- (sub_split frame 0 4 (zlen frame)) by lia.
  unfold sub. rewrite Z.sub_0_r. change (Z.to_nat 0) with 0%nat. cbn [drop].
  unfold zlen. rewrite Nat2Z.id.
  clear. induction frame as [|x f IH]; simpl; [reflexivity | now rewrite <- IH].
Qed.

Lemma frame_spec_holds b : bytes_ok b -> zlen b < 2147483648 ->
  frame_spec b (get_headers_from_frame b).
Proof.
  intros Hok Hlen. unfold get_headers_from_frame, frame_spec.
  destruct b as [|v rest]; [exact I|].
  apply bytes_ok_cons_inv in Hok. destruct Hok as [_ Hok].
  rewrite zlen_cons in Hlen. pose proof (zlen_nonneg rest).
  destruct (v =? 0) eqn:Ev; [|exact I]. apply Z.eqb_eq in Ev. subst v.
  pose proof (unmarshal_headers_from_frame_spec rest Hok) as S.
  destruct (unmarshal_headers_from_frame rest) as [l|e|p|]; try (apply S; lia).
  - destruct S as [payload E]; [lia|]. exists payload. unfold marshal. rewrite E.
    cbn [app]. f_equal.
  - destruct e; try (apply S; lia); exact I.
Qed.

Lemma frame_graceful b : bytes_ok b -> zlen b < 2147483648 -> graceful (get_headers_from_frame b).
Proof.
  intros Hok Hlen. pose proof (frame_spec_holds b Hok Hlen) as S.
  unfold frame_spec, graceful in *.
  destruct (get_headers_from_frame b) as [l|e|p|]; auto.
Qed.

Lemma read_full_inv src n a r : read_full src n = Ok (a, r) ->
  src = a ++ r /\ zlen a = n /\ 0 <= n.
Proof.
  unfold read_full. destruct ((0 <=? n) && (n <=? zlen src)) eqn:E; [|discriminate].
  intros [= <- <-]. rewrite andb_true_iff in E. destruct E as [E1 E2].
  split; [symmetry; apply take_drop|]. split; [|lia].
  unfold zlen in *. rewrite take_length. lia.
Qed.
Lemma read_full_graceful src n : graceful (read_full src n).
Proof. unfold read_full. destruct ((0 <=? n) && (n <=? zlen src)); exact I. Qed.

Definition stream_spec (b : bytes) (r : res (list hpair * bytes)) : Prop :=
  match r with
  | Ok (l, rest) => b = marshal l ++ rest
  | Err EInvalidData | Err EBadVersion | Err EEOF => True
  | _ => False
  end.

Lemma bytes_ok_app_inv (a b : bytes) : bytes_ok (a ++ b) -> bytes_ok a /\ bytes_ok b.
Proof. unfold bytes_ok. rewrite Forall_app. auto. Qed.

Lemma stream_spec_holds b : bytes_ok b -> zlen b < 2147483648 -> stream_spec b (read_header b).
Proof.
  intros Hok Hlen. unfold read_header, stream_spec.
  destruct (read_full b 1) as [[vb src1]|e|p|] eqn:E1; cbn [bind];
    try (unfold read_full in E1; destruct ((0 <=? 1) && (1 <=? zlen b)); discriminate).
  2:{ unfold read_full in E1. destruct ((0 <=? 1) && (1 <=? zlen b)); [discriminate|].
      injection E1 as <-. exact I. }
  apply read_full_inv in E1. destruct E1 as (Eb & Lvb & _).
  destruct vb as [|v [|? ?]]; try (unfold zlen in Lvb; simpl in Lvb; lia).
  destruct (v =? 0) eqn:Ev; [|exact I]. apply Z.eqb_eq in Ev. subst v.
  subst b. apply bytes_ok_app_inv in Hok. destruct Hok as [_ Hok1].
  rewrite zlen_app in Hlen. change (zlen [0]) with 1 in Hlen.
  unfold unmarshal_headers_stream.
  destruct (read_full src1 4) as [[sb src2]|e|p|] eqn:E2; cbn [bind];
    try (unfold read_full in E2; destruct ((0 <=? 4) && (4 <=? zlen src1)); discriminate).
  2:{ unfold read_full in E2. destruct ((0 <=? 4) && (4 <=? zlen src1)); [discriminate|].
      injection E2 as <-. exact I. }
  apply read_full_inv in E2. destruct E2 as (Es1 & Lsb & _).
  subst src1. apply bytes_ok_app_inv in Hok1. destruct Hok1 as [Hsbok Hok2].
  rewrite zlen_app in Hlen.
  pose proof (un_be32_range sb Hsbok) as Hr. pose proof (as_int32_range _ Hr) as Hr'.
  set (size := as_int32 (un_be32 sb)) in *.
  destruct (size <? 0) eqn:Es0; [exact I|]. apply Z.ltb_ge in Es0.
  destruct (read_full src2 size) as [[buff src3]|e|p|] eqn:E3; cbn [bind];
    try (unfold read_full in E3; destruct ((0 <=? size) && (size <=? zlen src2)); discriminate).
  2:{ unfold read_full in E3. destruct ((0 <=? size) && (size <=? zlen src2)); [discriminate|].
      injection E3 as <-. exact I. }
  apply read_full_inv in E3. destruct E3 as (Es2 & Lbuff & _).
  subst src2. apply bytes_ok_app_inv in Hok2. destruct Hok2 as [Hbok _].
  rewrite zlen_app in Hlen. pose proof (zlen_nonneg src3).
  pose proof (read_pairs_spec (pairs_fuel buff) buff 0 size [] Hbok) as S.
  unfold pairs_spec in S.
  destruct (read_pairs (pairs_fuel buff) buff 0 size []) as [l|e|p|] eqn:ER; cbn [bind];
    try (apply S; try lia; unfold pairs_fuel, zlen in *; lia).
  - destruct S as [ps [El Eps]]; try lia; [unfold pairs_fuel, zlen in *; lia|].
    cbn [rev app] in El. subst ps.
    assert (Ebuff : sub buff 0 size = buff).
    { unfold sub. rewrite Z.sub_0_r. change (Z.to_nat 0) with 0%nat. cbn [drop].
      rewrite <- Lbuff. unfold zlen. rewrite Nat2Z.id.
      clear. induction buff as [|x f IH]; simpl; [reflexivity | now rewrite IH]. }
    rewrite Ebuff in Eps.
    assert (Ehs : header_size l = size) by (rewrite <- marshal_pairs_length, <- Eps; exact Lbuff).
    unfold marshal. rewrite Ehs.
    assert (Esz : be32 (as_uint32 size) = sb).
    { unfold size. apply int32_nonneg_be32; auto. unfold zlen in Lsb; lia. }
    rewrite Esz, <- Eps. cbn [app]. f_equal. rewrite <- !app_assoc. reflexivity.
  - destruct e; try (apply S; try lia; unfold pairs_fuel, zlen in *; lia); exact I.
Qed.

Lemma stream_graceful b : bytes_ok b -> zlen b < 2147483648 -> graceful (read_header b).
Proof.
  intros Hok Hlen. pose proof (stream_spec_holds b Hok Hlen) as S.
  unfold stream_spec, graceful in *.
  destruct (read_header b) as [[l r]|e|p|]; auto.
Qed.
