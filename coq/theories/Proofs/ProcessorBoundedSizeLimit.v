(** C14 / C12 — the two models of SendReply + trapError + sendError over the NATS server's bounded buffer
    agree: Model/SizeLimit.v [server_bounded] (C12: sizes only) computes, on the sizes of the writes of
    Model/ProcessorBounded.v (C14: bytes), exactly the size and kind of what the byte model leaves. *)
From Coq Require Import ZArith List Bool Lia.
From FV Require Import Base.Res Base.Bytes Model.Headers Model.ThriftBin Model.Processor Model.ProcessorBounded.
From FV Require Model.SizeLimit Proofs.SizeLimitProofs.
From FV Require Import Proofs.BytesProofs Proofs.HeadersProofs Proofs.ProcessorBoundedProofs.
Import ListNotations.
Open Scope Z_scope.

Module SL := FV.Model.SizeLimit.
Module SLP := FV.Proofs.SizeLimitProofs.

Definition ops_of (ws : list bytes) : list SL.op := map (fun w => SL.W (zlen w)) ws.

(** the C12 view of a reply: sizes of the header blocks, the writes of the REPLY message and of the
    RESPONSE_TOO_LARGE exception *)
Definition size_view (chunk : bytes -> list bytes) (rh : list hpair) (name rb etext : bytes) : SL.reply :=
  SL.mkreply (zlen (marshal rh)) (zlen (marshal (opid_only rh)))
             (ops_of (begin_writes name mt_reply ++ chunk rb))
             (ops_of (begin_writes name mt_exception ++ app_exception_writes ex_response_too_large etext)).

Lemma ops_of_size ws : SL.ops_size (ops_of ws) = zlen (concat ws).
Proof.
  induction ws as [|w r IH]; [reflexivity|].
  cbn [ops_of map concat]. rewrite SLP.ops_size_cons. fold (ops_of r). rewrite IH, zlen_app. reflexivity.
Qed.

Lemma ops_of_nonneg ws : SL.ops_nonneg (ops_of ws).
Proof.
  induction ws as [|w r IH]; [constructor|].
  constructor; [unfold SL.op_nonneg; cbn; apply zlen_nonneg|exact IH].
Qed.

Lemma over_new l n : SLP.over (SL.new_buf l) n = exceeds (Some l) n 4.
Proof. unfold SLP.over, exceeds. cbn [SL.new_buf SL.limit SL.len]. rewrite (Z.add_comm 4 n). reflexivity. Qed.

Lemma run_msg l h ops :
  0 <= h -> SL.ops_nonneg ops ->
  SL.run_ops (SL.new_buf l) (SL.W h :: ops) =
  if exceeds (Some l) (h + SL.ops_size ops) 4 then (SL.new_buf l, false)
  else (SL.mkbuf l (4 + (h + SL.ops_size ops)), true).
Proof.
  intros Hh Ho.
  rewrite SLP.run_ops_spec; [|apply SLP.err_ops_nonneg; assumption|left; discriminate].
  rewrite SLP.ops_size_cons. cbn [SL.op_size]. rewrite over_new. reflexivity.
Qed.

Theorem server_bounded_agrees l chunk rh name rb etext :
  chunk_ok chunk ->
  SL.server_bounded l (size_view chunk rh name rb etext) =
  match snd (spec_plan (Some l) true etext (PReply rh name rb true)) with
  | [] => None
  | d => Some (if fits (Some l) (zlen (msg_bytes rh name mt_reply rb)) then SL.FReply else SL.FTooLarge, 4 + zlen d)
  end.
Proof.
  intros Hc. unfold SL.server_bounded, size_view. cbn [SL.rhdr SL.rbody].
  rewrite run_msg by (try apply zlen_nonneg; apply ops_of_nonneg).
  rewrite ops_of_size, concat_app, concat_begin_writes, Hc.
  cbn [spec_plan snd]. unfold fits at 1 2.
  assert (Em : zlen (msg_bytes rh name mt_reply rb) = zlen (marshal rh) + zlen (write_message_begin name mt_reply 0 ++ rb)).
  { unfold msg_bytes. rewrite !zlen_app. lia. }
  rewrite Em.
  destruct (exceeds (Some l) (zlen (marshal rh) + zlen (write_message_begin name mt_reply 0 ++ rb)) 4) eqn:E1; cbn [negb].
  - (* the reply does not fit *)
    unfold SL.send_error. cbn [SL.rhdr SL.mhdr SL.ebody].
    rewrite run_msg by (try apply zlen_nonneg; apply ops_of_nonneg).
    rewrite ops_of_size, concat_app, concat_begin_writes, concat_app_exception_writes.
    unfold spec_error, fits.
    assert (Ee : forall hd, zlen (exc_bytes hd name ex_response_too_large etext) =
                            zlen (marshal hd) + zlen (write_message_begin name mt_exception 0 ++
                                                      write_app_exception ex_response_too_large etext)).
    { intros hd. unfold exc_bytes, msg_bytes. rewrite !zlen_app. lia. }
    rewrite !Ee.
    set (xe := write_message_begin name mt_exception 0 ++ write_app_exception ex_response_too_large etext) in *.
    destruct (exceeds (Some l) (zlen (marshal rh) + zlen xe) 4) eqn:E2; cbn [negb].
    + rewrite run_msg by (try apply zlen_nonneg; apply ops_of_nonneg).
      rewrite ops_of_size, concat_app, concat_begin_writes, concat_app_exception_writes.
      fold xe. destruct (exceeds (Some l) (zlen (marshal (opid_only rh)) + zlen xe) 4) eqn:E3; cbn [negb andb].
      * reflexivity.
      * unfold SL.has_write_data, SL.frame_len. cbn [SL.len].
        pose proof (msg_bytes_nonempty (opid_only rh) name mt_exception (write_app_exception ex_response_too_large etext)) as Hne.
        fold (exc_bytes (opid_only rh) name ex_response_too_large etext) in Hne.
        pose proof (Ee (opid_only rh)) as Hl.
        destruct (exc_bytes (opid_only rh) name ex_response_too_large etext) as [|c cs] eqn:Ex; [contradiction|].
        assert (0 < zlen (c :: cs)) by (rewrite zlen_cons; pose proof (zlen_nonneg cs); lia).
        replace (4 <? 4 + (zlen (marshal (opid_only rh)) + _)) with true by (symmetry; apply Z.ltb_lt; lia).
        f_equal. f_equal. lia.
    + unfold SL.has_write_data, SL.frame_len. cbn [SL.len andb].
      pose proof (msg_bytes_nonempty rh name mt_exception (write_app_exception ex_response_too_large etext)) as Hne.
      fold (exc_bytes rh name ex_response_too_large etext) in Hne.
      pose proof (Ee rh) as Hl.
      destruct (exc_bytes rh name ex_response_too_large etext) as [|c cs] eqn:Ex; [contradiction|].
      assert (0 < zlen (c :: cs)) by (rewrite zlen_cons; pose proof (zlen_nonneg cs); lia).
      replace (4 <? 4 + (zlen (marshal rh) + _)) with true by (symmetry; apply Z.ltb_lt; lia).
      f_equal. f_equal. lia.
  - (* the reply fits *)
    pose proof (msg_bytes_nonempty rh name mt_reply rb) as Hne.
    destruct (msg_bytes rh name mt_reply rb) as [|c cs] eqn:Ex; [contradiction|].
    unfold SL.frame_len. cbn [SL.len]. f_equal. f_equal. lia.
Qed.
