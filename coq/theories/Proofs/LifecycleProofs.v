(** Lemmas about Model/Lifecycle.v (C15). *)
From Coq Require Import ZArith List Bool Lia Arith.
From FV Require Import Base.Res Base.Bytes Base.GoSem Model.Headers Model.Lifecycle.
Import ListNotations.
Open Scope Z_scope.

(** ** small facts *)

Lemma upd_same {A} (f : nat -> A) k v : upd f k v k = v.
Proof. unfold upd. now rewrite Nat.eqb_refl. Qed.

Lemma upd_other {A} (f : nat -> A) k v x : x <> k -> upd f k v x = f x.
Proof. intros Hne. unfold upd. destruct (Nat.eqb x k) eqn:E; [apply Nat.eqb_eq in E; contradiction | reflexivity]. Qed.

Lemma wake_not_reading l buf : wake l <> LReading buf.
Proof. destruct l; cbn; discriminate. Qed.

Lemma wake_none l : wake l = LNone <-> l = LNone.
Proof. destruct l; cbn; split; intros H; try discriminate; auto. Qed.

(** ** the invariant of the repaired code *)

Record inv (s : st) : Prop := {
  i_under : is_open s = true -> under s = true;
  i_sig : is_open s = true -> sig s (gen s) = false;
  i_pub_open : is_open s = true -> pub s (gen s) = [];
  i_pub_done : forall g, (1 <= g <= gen s)%nat ->
               (g = gen s /\ is_open s = true) \/ exists c, pub s g = [c];
  i_fresh : forall g, (gen s < g)%nat -> loops s g = LNone /\ pub s g = [] /\ sig s g = false;
  i_zero : loops s O = LNone;
  i_reading : forall g buf, loops s g = LReading buf -> g = gen s /\ is_open s = true
}.

Lemma inv_init m p : inv (init m p).
Proof.
  constructor; cbn; intros; try discriminate; auto.
  lia.
Qed.

Lemma inv_opened s : is_open s = false -> inv s -> inv (opened Fixed s).
Proof.
  intros Hc [Hu Hs Hpo Hpd Hf Hz Hr].
  constructor; cbn [opened is_open under gen sig loops pub]; intros.
  - reflexivity.
  - apply upd_same.
  - apply upd_same.
  - destruct (Nat.eq_dec g (S (gen s))) as [->|Hne]; [left; auto|right].
    rewrite upd_other by exact Hne.
    destruct (Hpd g) as [[_ Ho]|Hex]; [lia| congruence | exact Hex].
  - rewrite !upd_other by lia. apply Hf. lia.
  - rewrite upd_other by lia. exact Hz.
  - destruct (Nat.eq_dec g (S (gen s))) as [->|Hne]; [auto|].
    rewrite upd_other in H by exact Hne.
    destruct (Hr _ _ H) as [_ Ho]. congruence.
Qed.

Lemma inv_closed c s : is_open s = true -> inv s -> inv (closed_state Fixed c s).
Proof.
  intros Ho [Hu Hs Hpo Hpd Hf Hz Hr].
  constructor; cbn [closed_state is_open under gen sig loops pub sigidx]; intros; try discriminate.
  - destruct (Nat.eq_dec g (gen s)) as [->|Hne].
    + right. exists c. rewrite upd_same, (Hpo Ho). reflexivity.
    + rewrite upd_other by exact Hne.
      destruct (Hpd g H) as [[He _]|Hex]; [contradiction | right; exact Hex].
  - destruct (Hf g H) as (Hl & Hp & Hsg).
    rewrite !upd_other by lia. rewrite Hl. cbn. auto.
  - rewrite Hz. reflexivity.
  - exfalso. eapply wake_not_reading; eauto.
Qed.

Lemma inv_set_loop s g l :
  inv s -> loops s g <> LNone ->
  (forall buf, l = LReading buf -> exists b0, loops s g = LReading b0) ->
  inv (set_loop s g l).
Proof.
  intros [Hu Hs Hpo Hpd Hf Hz Hr] Hnn Hrd.
  assert (Hg : (g <= gen s)%nat).
  { destruct (le_lt_dec g (gen s)) as [|Hlt]; [assumption|]. destruct (Hf g Hlt) as (Hl & _). contradiction. }
  assert (Hg0 : g <> O) by (intros ->; contradiction).
  constructor; cbn [set_loop is_open under gen sig loops pub]; intros; auto.
  - destruct (Hf g0 H) as (Hl & Hp & Hsg). rewrite upd_other by lia. auto.
  - rewrite upd_other by auto. exact Hz.
  - destruct (Nat.eq_dec g0 g) as [->|Hne].
    + rewrite upd_same in H. destruct (Hrd _ H) as [b0 Hb0]. eapply Hr; eauto.
    + rewrite upd_other in H by exact Hne. eapply Hr; eauto.
Qed.

Lemma inv_set_sig_false s i : inv s -> inv (set_sig s i false).
Proof.
  intros [Hu Hs Hpo Hpd Hf Hz Hr].
  assert (Hupd : forall g, sig s g = false -> upd (sig s) i false g = false).
  { intros g Hg. unfold upd. destruct (Nat.eqb g i); auto. }
  constructor; cbn [set_sig is_open under gen sig loops pub]; intros; eauto.
  destruct (Hf g H) as (Hl & Hp & Hsg). repeat split; auto.
Qed.

Lemma inv_set_mon s ms m h : inv s -> inv (set_mon s ms m h).
Proof. intros [Hu Hs Hpo Hpd Hf Hz Hr]. constructor; cbn [set_mon is_open under gen sig loops pub]; eauto. Qed.

(** ** Open and close as relations *)

Lemma open_step_cases a s s' code :
  open_step Fixed a s = Some (s', code) ->
  (is_open s = true /\ a = 0 /\ s' = s /\ code = 1)
  \/ (is_open s = false /\ s' = opened Fixed s /\ code = 0 /\ ((under s = true /\ a = 3) \/ (under s = false /\ a = 1)))
  \/ (is_open s = false /\ under s = false /\ a = 2 /\ s' = s /\ code = 3).
Proof.
  unfold open_step. intros H.
  destruct (is_open s) eqn:Ho.
  - destruct (a =? 0) eqn:Ea; [|discriminate]. apply Z.eqb_eq in Ea. inversion H; subst. auto.
  - destruct (under s) eqn:Hu.
    + destruct (a =? 3) eqn:Ea; [|discriminate]. apply Z.eqb_eq in Ea. inversion H; subst. right; left. auto 10.
    + destruct (a =? 1) eqn:Ea1.
      * apply Z.eqb_eq in Ea1. inversion H; subst. right; left. auto 10.
      * destruct (a =? 2) eqn:Ea2; [|discriminate]. apply Z.eqb_eq in Ea2. inversion H; subst. right; right. auto.
Qed.

Lemma close_step_cases who c a s s' code p :
  close_step Fixed who c a s = Some (s', code, p) ->
  (a = 0 /\ s' = s /\ code = 2 /\ p = [] /\ (is_open s = false \/ stale Fixed who s = true))
  \/ (is_open s = true /\ stale Fixed who s = false /\ sig s (gen s) = false /\
      ((a = 2 /\ s' = s /\ code = 3 /\ p = [])
       \/ (a = 1 /\ s' = closed_state Fixed c s /\ code = 0 /\ p = [Z.of_nat (gen s); c]))).
Proof.
  unfold close_step. intros H. cbn [sigidx] in H.
  destruct (negb (is_open s) || stale Fixed who s) eqn:Hn.
  - destruct (a =? 0) eqn:Ea; [|discriminate]. apply Z.eqb_eq in Ea. inversion H; subst. left.
    repeat split; auto. apply orb_true_iff in Hn. destruct Hn as [Hn|Hn]; [left|right; auto].
    now apply negb_true_iff in Hn.
  - apply orb_false_iff in Hn. destruct Hn as [Hn1 Hn2]. apply negb_false_iff in Hn1.
    destruct (sig s (gen s)) eqn:Hsg; [discriminate|].
    right. repeat split; auto.
    destruct (a =? 2) eqn:Ea2.
    + apply Z.eqb_eq in Ea2. inversion H; subst. left. auto.
    + destruct (a =? 1) eqn:Ea1; [|discriminate]. apply Z.eqb_eq in Ea1. inversion H; subst. right. auto.
Qed.

(** ** every step of the repaired code preserves the invariant *)

Lemma step_inv pol s e s' o : step Fixed pol s e = Some (s', o) -> inv s -> inv s'.
Proof.
  intros H Hi. destruct e; cbn [step] in H.
  - (* Open *)
    destruct (open_step Fixed a s) as [[s1 code]|] eqn:Ho; [|discriminate]. inversion H; subst.
    apply open_step_cases in Ho. destruct Ho as [(_&_&->&_)|[(Hc&->&_)|(_&_&_&->&_)]]; auto using inv_opened.
  - (* Close *)
    destruct (close_step Fixed None 0 a s) as [[[s1 code] p]|] eqn:Hc; [|discriminate]. inversion H; subst.
    apply close_step_cases in Hc.
    destruct Hc as [(_&->&_)|(Ho&_&_&[(_&->&_)|(_&->&_)])]; auto using inv_closed.
  - inversion H; subst; auto.
  - (* feed *)
    destruct (loops s g) as [|buf| | |] eqn:Hl; try discriminate.
    destruct (drain_buf (buf ++ b)) as [[ex rest] [| |]]; inversion H; subst;
      apply inv_set_loop; auto; try congruence; intros b1 Hb1; try discriminate; eauto.
  - (* read error *)
    destruct (loops s g) as [|buf| | |] eqn:Hl; try discriminate. inversion H; subst.
    apply inv_set_loop; auto; try congruence; try (intros b1 Hb1; discriminate).
  - (* loop step *)
    destruct (loops s g) as [|buf|c|c l|] eqn:Hl; try discriminate.
    + destruct (a =? 0); [|discriminate]. cbn [sigidx] in H.
      destruct (sig s g) eqn:Hsg; inversion H; subst.
      * apply inv_set_loop; [apply inv_set_sig_false; auto | cbn; congruence | intros b1 Hb1; discriminate].
      * apply inv_set_loop; auto; try congruence; try (intros b1 Hb1; discriminate).
    + destruct (close_step Fixed (Some g) c a s) as [[[s1 code] p]|] eqn:Hc; [|discriminate]. inversion H; subst.
      apply close_step_cases in Hc.
      destruct Hc as [(_&->&_)|(Ho&_&_&[(_&->&_)|(_&->&_)])].
      * apply inv_set_loop; auto; try congruence; try (intros b1 Hb1; discriminate).
      * apply inv_set_loop; auto; try congruence; try (intros b1 Hb1; discriminate).
      * apply inv_set_loop; [apply inv_closed; auto| |intros b1 Hb1; discriminate].
        cbn [closed_state loops]. rewrite Hl. cbn. discriminate.
  - (* monitor receives *)
    destruct (mon_set s); [|discriminate].
    destruct (mon s); try discriminate. destruct (mon_sig s) as [c|]; [|discriminate].
    destruct (c =? 0); [inversion H; subst; apply inv_set_mon; auto|].
    destruct (on_closed_uncleanly pol) as [reopen w]. inversion H; subst. apply inv_set_mon; auto.
  - (* monitor reopen attempt *)
    destruct (mon_set s); [|discriminate].
    destruct (mon s) as [|prev w|]; try discriminate.
    destruct (open_step Fixed a s) as [[s1 code]|] eqn:Ho; [|discriminate].
    assert (Hi1 : inv s1).
    { apply open_step_cases in Ho. destruct Ho as [(_&_&->&_)|[(Hc&->&_)|(_&_&_&->&_)]]; auto using inv_opened. }
    destruct code; [inversion H; subst; apply inv_set_mon; auto| |];
      destruct (on_reopen_failed pol (prev + 1) w) as [reopen w']; inversion H; subst; apply inv_set_mon; auto.
Qed.

Lemma run_inv pol tr : forall s s', run Fixed pol s tr = Some s' -> inv s -> inv s'.
Proof.
  induction tr as [|e tr IH]; cbn [run]; intros s s' H Hi.
  - inversion H; subst; auto.
  - destruct (step Fixed pol s e) as [[s1 o]|] eqn:Hs; [|discriminate].
    eapply IH; eauto using step_inv.
Qed.

Lemma reachable_inv pol m p tr s : run Fixed pol (init m p) tr = Some s -> inv s.
Proof. intros H. eapply run_inv; eauto using inv_init. Qed.

(** ** exactly one cause per ended generation *)

Lemma reported_once pol m p tr s :
  run Fixed pol (init m p) tr = Some s ->
  forall g, (1 <= g <= gen s)%nat ->
    if Nat.eqb g (gen s) && is_open s then pub s g = [] else exists c, pub s g = [c].
Proof.
  intros Hrun g Hg. destruct (reachable_inv _ _ _ _ _ Hrun) as [Hu Hs Hpo Hpd Hf Hz Hr].
  destruct (Nat.eqb g (gen s)) eqn:E; cbn [andb].
  - apply Nat.eqb_eq in E. subst g. destruct (is_open s) eqn:Ho; auto.
    destruct (Hpd _ Hg) as [[_ Hx]|Hx]; [discriminate|exact Hx].
  - apply Nat.eqb_neq in E. destruct (Hpd _ Hg) as [[Hx _]|Hx]; [contradiction|exact Hx].
Qed.

(** ** Open, Close, IsOpen always return; the read loop is never blocked *)

Lemma no_deadlock pol m p tr s :
  run Fixed pol (init m p) tr = Some s ->
  step Fixed pol s EIsOpen = Some (s, [b2z (is_open s && under s)])
  /\ (if is_open s then step Fixed pol s (EOpen 0) = Some (s, [1])
      else if under s then exists s', step Fixed pol s (EOpen 3) = Some (s', [0]) /\ is_open s' = true
      else (exists s', step Fixed pol s (EOpen 1) = Some (s', [0]) /\ is_open s' = true)
           /\ step Fixed pol s (EOpen 2) = Some (s, [3]))
  /\ (if is_open s
      then (exists s', step Fixed pol s (EClose 1) = Some (s', [0; Z.of_nat (gen s); 0]) /\ is_open s' = false)
           /\ step Fixed pol s (EClose 2) = Some (s, [3])
      else step Fixed pol s (EClose 0) = Some (s, [2]))
  /\ (forall g, (exists c, loops s g = LSawErr c) \/ (exists c l, loops s g = LAtClose c l) ->
                exists a r, step Fixed pol s (ELoop g a) = Some r).
Proof.
  intros Hrun. destruct (reachable_inv _ _ _ _ _ Hrun) as [Hu Hs Hpo Hpd Hf Hz Hr].
  split; [reflexivity|]. split; [|split].
  - cbn [step]. unfold open_step. destruct (is_open s) eqn:Ho; [reflexivity|].
    destruct (under s) eqn:Hun; cbn.
    + eexists; split; reflexivity.
    + split; [eexists; split; reflexivity | reflexivity].
  - cbn [step]. unfold close_step. cbn [stale sigidx]. destruct (is_open s) eqn:Ho; cbn.
    + rewrite (Hs eq_refl). cbn. split; [eexists; split; reflexivity | reflexivity].
    + reflexivity.
  - intros g [[c Hl]|[c [l Hl]]]; cbn [step]; rewrite Hl.
    + exists 0. cbn. destruct (sig s g); eexists; reflexivity.
    + unfold close_step. cbn [stale sigidx].
      destruct (negb (is_open s) || negb (Nat.eqb g (gen s))) eqn:Hn.
      * exists 0. cbn. eexists; reflexivity.
      * apply orb_false_iff in Hn. destruct Hn as [Hn _]. apply negb_false_iff in Hn.
        rewrite (Hs Hn). exists 1. cbn. eexists; reflexivity.
Qed.

(** ** a failure seen by the current read loop closes the transport and publishes its cause *)

Lemma nat_eqb_refl' n : Nat.eqb n n = true.
Proof. apply Nat.eqb_refl. Qed.

Lemma at_close_closes pol m p tr s c l :
  run Fixed pol (init m p) tr = Some s ->
  is_open s = true -> loops s (gen s) = LAtClose c l ->
  exists s', step Fixed pol s (ELoop (gen s) 1) = Some (s', [5; Z.of_nat (gen s); c])
    /\ is_open s' = false /\ gen s' = gen s /\ pub s' (gen s) = [c] /\ loops s' (gen s) = LExited
    /\ closes s' = closes s ++ [c]
    /\ (mon_set s = true -> mon_sig s = None -> mon_sig s' = Some c).
Proof.
  intros Hrun Ho Hl. destruct (reachable_inv _ _ _ _ _ Hrun) as [Hu Hs Hpo Hpd Hf Hz Hr].
  cbn [step]. rewrite Hl. unfold close_step. cbn [stale sigidx].
  rewrite Ho, nat_eqb_refl', (Hs Ho). cbn.
  eexists; split; [reflexivity|].
  cbn [set_loop closed_state is_open gen pub loops closes mon_sig sigidx].
  rewrite !upd_same, (Hpo Ho). repeat split; auto.
  intros Hm Hn. rewrite Hn, Hm. reflexivity.
Qed.

Lemma saw_err_closes pol m p tr s c :
  run Fixed pol (init m p) tr = Some s ->
  is_open s = true -> loops s (gen s) = LSawErr c ->
  exists s1 s2 l, step Fixed pol s (ELoop (gen s) 0) = Some (s1, [l])
    /\ step Fixed pol s1 (ELoop (gen s) 1) = Some (s2, [5; Z.of_nat (gen s); c])
    /\ is_open s2 = false /\ gen s2 = gen s /\ pub s2 (gen s) = [c] /\ loops s2 (gen s) = LExited
    /\ closes s2 = closes s ++ [c]
    /\ (mon_set s = true -> mon_sig s = None -> mon_sig s2 = Some c).
Proof.
  intros Hrun Ho Hl. pose proof (reachable_inv _ _ _ _ _ Hrun) as Hi. destruct Hi as [Hu Hs Hpo Hpd Hf Hz Hr].
  set (l := if c =? 0 then 2 else 3).
  assert (H1 : step Fixed pol s (ELoop (gen s) 0) = Some (set_loop s (gen s) (LAtClose c l), [l])).
  { cbn [step]. rewrite Hl. cbn [sigidx]. rewrite (Hs Ho). reflexivity. }
  assert (Hrun1 : run Fixed pol (init m p) (tr ++ [ELoop (gen s) 0]) = Some (set_loop s (gen s) (LAtClose c l))).
  { clear -Hrun H1. revert Hrun. generalize (init m p). induction tr as [|e tr IH]; cbn [run app]; intros s0 Hrun.
    - inversion Hrun; subst. rewrite H1. reflexivity.
    - destruct (step Fixed pol s0 e) as [[s1 o]|]; [|discriminate]. auto. }
  destruct (at_close_closes pol m p _ _ c l Hrun1) as (s2 & Hst & Hc & Hg & Hp & Hlx & Hcl & Hm).
  { exact Ho. }
  { cbn [set_loop loops gen]. apply upd_same. }
  exists (set_loop s (gen s) (LAtClose c l)), s2, l.
  cbn [set_loop gen] in *. repeat split; auto.
Qed.

Lemma read_failure_closes pol m p tr s buf k :
  run Fixed pol (init m p) tr = Some s ->
  loops s (gen s) = LReading buf ->
  exists s3, run Fixed pol s [EReadErr (gen s) k; ELoop (gen s) 0; ELoop (gen s) 1] = Some s3
    /\ is_open s3 = false /\ gen s3 = gen s /\ pub s3 (gen s) = [classify (zlen buf) k]
    /\ loops s3 (gen s) = LExited
    /\ closes s3 = closes s ++ [classify (zlen buf) k]
    /\ (mon_set s = true -> mon_sig s = None -> mon_sig s3 = Some (classify (zlen buf) k)).
Proof.
  intros Hrun Hl. pose proof (reachable_inv _ _ _ _ _ Hrun) as Hi.
  destruct (i_reading _ Hi _ _ Hl) as [_ Ho].
  set (c := classify (zlen buf) k).
  set (s1 := set_loop s (gen s) (LSawErr c)).
  assert (H1 : step Fixed pol s (EReadErr (gen s) k) = Some (s1, [1])).
  { cbn [step]. rewrite Hl. reflexivity. }
  assert (Hrun1 : run Fixed pol (init m p) (tr ++ [EReadErr (gen s) k]) = Some s1).
  { clear -Hrun H1. revert Hrun. generalize (init m p). induction tr as [|e tr IH]; cbn [run app]; intros s0 Hrun.
    - inversion Hrun; subst. rewrite H1. reflexivity.
    - destruct (step Fixed pol s0 e) as [[s2 o]|]; [|discriminate]. auto. }
  destruct (saw_err_closes pol m p _ s1 c Hrun1) as (sa & sb & l & Ha & Hb & Hc & Hg & Hp & Hlx & Hcl & Hm).
  { exact Ho. }
  { subst s1. cbn [set_loop loops gen]. apply upd_same. }
  exists sb. cbn [run]. rewrite H1.
  change (gen s1) with (gen s) in *. rewrite Ha, Hb.
  repeat split; auto.
Qed.

(** ** where a nil cause can come from *)

Definition rkind_wf (k : rkind) : Prop :=
  match k with ErrRaw t | ErrTte t => 0 <= t | _ => True end.

Lemma classify_nil n k : rkind_wf k ->
  (classify n k = 0 <-> k = EofTte /\ n = 0).
Proof.
  intros Hwf. unfold classify. destruct k; cbn in Hwf.
  - destruct (4 <=? n) eqn:E; [|destruct (n =? 0)]; split; try discriminate; intros [H _]; discriminate.
  - destruct (n =? 0) eqn:E; [apply Z.eqb_eq in E | apply Z.eqb_neq in E]; split; auto; try discriminate.
    intros [_ H]; contradiction.
  - destruct (4 <=? n); split; try lia; intros [H _]; discriminate.
  - split; try lia; intros [H _]; discriminate.
  - split; try discriminate; intros [H _]; discriminate.
Qed.

(** a read error that arrives while part of a frame is pending never yields the nil cause *)
Lemma classify_inside_frame_not_nil n k : rkind_wf k -> n <> 0 -> classify n k <> 0.
Proof. intros Hwf Hn H. apply (classify_nil n k Hwf) in H. destruct H as [_ H]. contradiction. Qed.

(** before the repair every END_OF_FILE was nil, wherever it arrived *)
Lemma classify_pinned_nil_inside_frame :
  classify_pinned 2 EofTte = 0 /\ classify_pinned 5 EofRaw = 0
  /\ forall n, classify_pinned n EofTte = 0.
Proof. repeat split. Qed.

(** a step that publishes on a Closed() channel: it is the current generation's channel, the
    transport goes from open to closed, and the cause is nil for Close(), the calling read
    loop's recorded cause otherwise *)
Lemma set_loop_pub s g l : pub (set_loop s g l) = pub s.
Proof. reflexivity. Qed.

Lemma publish_provenance_inv pol s e s' o g :
  inv s -> step Fixed pol s e = Some (s', o) -> pub s' g <> pub s g ->
  g = gen s /\ is_open s = true /\ is_open s' = false /\
  exists c, pub s' g = pub s g ++ [c] /\
    ((e = EClose 1 /\ c = 0) \/ (exists l, e = ELoop g 1 /\ loops s g = LAtClose c l)).
Proof.
  intros Hi H Hne.
  assert (Hopen : forall a s1 code, open_step Fixed a s = Some (s1, code) -> pub s1 g = pub s g).
  { intros a s1 code Ho. apply open_step_cases in Ho.
    destruct Ho as [(_&_&->&_)|[(Hc&->&_)|(_&_&_&->&_)]]; auto.
    cbn [opened pub]. unfold upd. destruct (Nat.eqb g (S (gen s))) eqn:E; auto.
    apply Nat.eqb_eq in E. subst g. destruct (i_fresh _ Hi (S (gen s))) as (_ & Hp & _); [lia|]. now rewrite Hp. }
  destruct e; cbn [step] in H.
  - destruct (open_step Fixed a s) as [[s1 code]|] eqn:Ho; [|discriminate]. inversion H; subst.
    exfalso. apply Hne. eapply Hopen; eauto.
  - destruct (close_step Fixed None 0 a s) as [[[s1 code] p]|] eqn:Hc; [|discriminate]. inversion H; subst.
    apply close_step_cases in Hc.
    destruct Hc as [(_&->&_)|(Ho&_&_&[(_&->&_)|(->&->&_)])]; try contradiction.
    cbn [closed_state pub is_open] in *.
    destruct (Nat.eq_dec g (gen s)) as [->|Hg]; [|rewrite upd_other in Hne by exact Hg; contradiction].
    rewrite upd_same. repeat split; auto. exists 0. split; auto.
  - inversion H; subst. contradiction.
  - destruct (loops s g0) as [|buf| | |]; try discriminate.
    destruct (drain_buf (buf ++ b)) as [[ex rest] [| |]]; inversion H; subst; contradiction.
  - destruct (loops s g0) as [|buf| | |]; try discriminate. inversion H; subst. contradiction.
  - destruct (loops s g0) as [|buf|c|c l|] eqn:Hl; try discriminate.
    + destruct (a =? 0); [|discriminate]. destruct (sig s (sigidx Fixed g0)); inversion H; subst; contradiction.
    + destruct (close_step Fixed (Some g0) c a s) as [[[s1 code] p]|] eqn:Hc; [|discriminate]. inversion H; subst.
      rewrite set_loop_pub in *.
      apply close_step_cases in Hc.
      destruct Hc as [(_&->&_)|(Ho&Hst&_&[(_&->&_)|(->&->&_)])]; try contradiction.
      cbn [stale] in Hst. apply negb_false_iff, Nat.eqb_eq in Hst. subst g0.
      cbn [closed_state pub is_open set_loop] in *.
      destruct (Nat.eq_dec g (gen s)) as [->|Hg]; [|rewrite upd_other in Hne by exact Hg; contradiction].
      rewrite upd_same. repeat split; auto. exists c. split; auto. right. exists l. auto.
  - destruct (mon_set s); [|discriminate].
    destruct (mon s); try discriminate. destruct (mon_sig s) as [c|]; [|discriminate].
    destruct (c =? 0); [inversion H; subst; contradiction|].
    destruct (on_closed_uncleanly pol) as [reopen w]. inversion H; subst. contradiction.
  - destruct (mon_set s); [|discriminate].
    destruct (mon s) as [|prev w|]; try discriminate.
    destruct (open_step Fixed a s) as [[s1 code]|] eqn:Ho; [|discriminate].
    pose proof (Hopen _ _ _ Ho) as Hp.
    exfalso. apply Hne. rewrite <- Hp.
    destruct code; [inversion H; subst; reflexivity| |];
      destruct (on_reopen_failed pol (prev + 1) w) as [reopen w']; inversion H; subst; reflexivity.
Qed.

(** how read loops come to hold a cause: label 2 (the EOF branch, which closes with nil) exactly
    for cause 0; a loop that saw an error with cause 0 got it from [classify] *)
Definition loop_causes_ok (s : st) : Prop :=
  forall g c l, loops s g = LAtClose c l -> (c = 0 <-> l = 2).

Lemma loop_causes_step pol s e s' o :
  step Fixed pol s e = Some (s', o) -> loop_causes_ok s -> loop_causes_ok s'.
Proof.
  intros H Hok g1 c1 l1 Hl1.
  assert (Hset : forall s0 g0 l0, loop_causes_ok s0 ->
            (forall c l, l0 = LAtClose c l -> (c = 0 <-> l = 2)) ->
            loops (set_loop s0 g0 l0) g1 = LAtClose c1 l1 -> (c1 = 0 <-> l1 = 2)).
  { intros s0 g0 l0 Hok0 Hl0 Hx. cbn [set_loop loops] in Hx. unfold upd in Hx.
    destruct (Nat.eqb g1 g0); [eapply Hl0; eauto | eapply Hok0; eauto]. }
  assert (Hclosed : forall c, loop_causes_ok (closed_state Fixed c s)).
  { intros c g c' l' Hx. cbn [closed_state loops] in Hx. destruct (loops s g) eqn:E; cbn in Hx; try discriminate.
    inversion Hx; subst. eapply Hok; eauto. }
  assert (Hopened : loop_causes_ok (opened Fixed s)).
  { intros g c' l' Hx. cbn [opened loops] in Hx. unfold upd in Hx.
    destruct (Nat.eqb g (S (gen s))); [discriminate | eapply Hok; eauto]. }
  assert (Hopen : forall a s1 code, open_step Fixed a s = Some (s1, code) -> loop_causes_ok s1).
  { intros a s1 code Ho. apply open_step_cases in Ho.
    destruct Ho as [(_&_&->&_)|[(Hc&->&_)|(_&_&_&->&_)]]; auto. }
  destruct e; cbn [step] in H.
  - destruct (open_step Fixed a s) as [[s1 code]|] eqn:Ho; [|discriminate]. inversion H; subst.
    eapply Hopen; eauto.
  - destruct (close_step Fixed None 0 a s) as [[[s1 code] p]|] eqn:Hc; [|discriminate]. inversion H; subst.
    apply close_step_cases in Hc.
    destruct Hc as [(_&->&_)|(Ho&_&_&[(_&->&_)|(_&->&_)])]; eauto. eapply Hclosed; eauto.
  - inversion H; subst. eapply Hok; eauto.
  - destruct (loops s g) as [|buf| | |]; try discriminate.
    destruct (drain_buf (buf ++ b)) as [[ex rest] [| |]]; inversion H; subst;
      (eapply Hset; [exact Hok | | exact Hl1]); intros c l Hx; try discriminate.
    inversion Hx; subst. split; intros; discriminate.
  - destruct (loops s g) as [|buf| | |]; try discriminate. inversion H; subst.
    (eapply Hset; [exact Hok | | exact Hl1]); intros c l Hx; discriminate.
  - destruct (loops s g) as [|buf|c|c l|] eqn:Hl; try discriminate.
    + destruct (a =? 0); [|discriminate]. destruct (sig s (sigidx Fixed g)); inversion H; subst.
      * eapply (Hset (set_sig s (sigidx Fixed g) false)); [ | | exact Hl1]; [|intros c' l' Hx; discriminate].
        intros g' c' l' Hx. eapply Hok; eauto.
      * (eapply Hset; [exact Hok | | exact Hl1]). intros c' l' Hx. inversion Hx; subst.
        destruct (c' =? 0) eqn:E; [apply Z.eqb_eq in E | apply Z.eqb_neq in E]; split; intros; auto; try lia; discriminate.
    + destruct (close_step Fixed (Some g) c a s) as [[[s1 code] p]|] eqn:Hc; [|discriminate]. inversion H; subst.
      apply close_step_cases in Hc.
      destruct Hc as [(_&->&_)|(Ho&_&_&[(_&->&_)|(_&->&_)])];
        (eapply Hset; [ | | exact Hl1]); auto; intros c' l' Hx; discriminate.
  - destruct (mon_set s); [|discriminate].
    destruct (mon s); try discriminate. destruct (mon_sig s) as [c|]; [|discriminate].
    destruct (c =? 0); [inversion H; subst; eapply Hok; eauto|].
    destruct (on_closed_uncleanly pol) as [reopen w]. inversion H; subst. eapply Hok; eauto.
  - destruct (mon_set s); [|discriminate].
    destruct (mon s) as [|prev w|]; try discriminate.
    destruct (open_step Fixed a s) as [[s1 code]|] eqn:Ho; [|discriminate].
    pose proof (Hopen _ _ _ Ho) as Hp.
    destruct code; [inversion H; subst; eapply Hp; eauto| |];
      destruct (on_reopen_failed pol (prev + 1) w) as [reopen w']; inversion H; subst; eapply Hp; eauto.
Qed.

Lemma loop_causes_reachable pol m p tr s : run Fixed pol (init m p) tr = Some s -> loop_causes_ok s.
Proof.
  assert (G : forall tr s0 s1, run Fixed pol s0 tr = Some s1 -> loop_causes_ok s0 -> loop_causes_ok s1).
  { induction tr0 as [|e tr0 IH]; cbn [run]; intros s0 s1 H Hok.
    - inversion H; subst; auto.
    - destruct (step Fixed pol s0 e) as [[s2 o]|] eqn:Hs; [|discriminate]. eauto using loop_causes_step. }
  intros H. eapply G; eauto. intros g c l Hx. discriminate.
Qed.

(** a loop in state "saw an error, cause 0" got there by a read error classified as EOF *)
Lemma saw_nil_provenance pol s e s' o g :
  step Fixed pol s e = Some (s', o) -> loops s' g = LSawErr 0 ->
  loops s g = LSawErr 0 \/ exists buf k, e = EReadErr g k /\ loops s g = LReading buf /\ classify (zlen buf) k = 0.
Proof.
  intros H Hl.
  assert (Hset : forall s0 g0 l0, loops (set_loop s0 g0 l0) g = LSawErr 0 ->
            (g = g0 /\ l0 = LSawErr 0) \/ loops s0 g = LSawErr 0).
  { intros s0 g0 l0 Hx. cbn [set_loop loops] in Hx. unfold upd in Hx.
    destruct (Nat.eqb g g0) eqn:E; [apply Nat.eqb_eq in E; left; auto | right; auto]. }
  assert (Hclosed : forall c, loops (closed_state Fixed c s) g = LSawErr 0 -> loops s g = LSawErr 0).
  { intros c Hx. cbn [closed_state loops] in Hx. destruct (loops s g) eqn:E; cbn in Hx; try discriminate; auto. }
  assert (Hopen : forall a s1 code, open_step Fixed a s = Some (s1, code) -> loops s1 g = LSawErr 0 -> loops s g = LSawErr 0).
  { intros a s1 code Ho Hx. apply open_step_cases in Ho.
    destruct Ho as [(_&_&->&_)|[(Hc&->&_)|(_&_&_&->&_)]]; auto.
    cbn [opened loops] in Hx. unfold upd in Hx. destruct (Nat.eqb g (S (gen s))); [discriminate|auto]. }
  destruct e; cbn [step] in H.
  - destruct (open_step Fixed a s) as [[s1 code]|] eqn:Ho; [|discriminate]. inversion H; subst. left. eauto.
  - destruct (close_step Fixed None 0 a s) as [[[s1 code] p]|] eqn:Hc; [|discriminate]. inversion H; subst.
    apply close_step_cases in Hc.
    destruct Hc as [(_&->&_)|(Ho&_&_&[(_&->&_)|(_&->&_)])]; eauto.
  - inversion H; subst. auto.
  - destruct (loops s g0) as [|buf| | |] eqn:E0; try discriminate.
    destruct (drain_buf (buf ++ b)) as [[ex rest] [| |]]; inversion H; subst;
      apply Hset in Hl; destruct Hl as [[_ Hx]|Hx]; auto; discriminate.
  - destruct (loops s g0) as [|buf| | |] eqn:E0; try discriminate. inversion H; subst.
    apply Hset in Hl. destruct Hl as [[-> Hx]|Hx]; auto.
    inversion Hx. right. exists buf, k. auto.
  - destruct (loops s g0) as [|buf|c|c l|] eqn:Hl0; try discriminate.
    + destruct (a =? 0); [|discriminate]. destruct (sig s (sigidx Fixed g0)); inversion H; subst;
        apply Hset in Hl; destruct Hl as [[_ Hx]|Hx]; auto; discriminate.
    + destruct (close_step Fixed (Some g0) c a s) as [[[s1 code] p]|] eqn:Hc; [|discriminate]. inversion H; subst.
      apply Hset in Hl. destruct Hl as [[_ Hx]|Hx]; [discriminate|].
      apply close_step_cases in Hc.
      destruct Hc as [(_&->&_)|(Ho&_&_&[(_&->&_)|(_&->&_)])]; eauto.
  - destruct (mon_set s); [|discriminate].
    destruct (mon s); try discriminate. destruct (mon_sig s) as [c|]; [|discriminate].
    destruct (c =? 0); [inversion H; subst; auto|].
    destruct (on_closed_uncleanly pol) as [reopen w]. inversion H; subst. auto.
  - destruct (mon_set s); [|discriminate].
    destruct (mon s) as [|prev w|]; try discriminate.
    destruct (open_step Fixed a s) as [[s1 code]|] eqn:Ho; [|discriminate].
    left. eapply Hopen; eauto.
    destruct code; [inversion H; subst; auto| |];
      destruct (on_reopen_failed pol (prev + 1) w) as [reopen w']; inversion H; subst; auto.
Qed.

(** ** generations are independent *)

Lemma generations_independent pol s g a s' o :
  step Fixed pol s (ELoop g a) = Some (s', o) ->
  (forall i, i <> g -> sig s' i = sig s i /\ pub s' i = pub s i /\ loops s' i = wake (loops s i) \/
                       sig s' i = sig s i /\ pub s' i = pub s i /\ loops s' i = loops s i)
  /\ (is_open s' <> is_open s -> g = gen s)
  /\ gen s' = gen s.
Proof.
  intros H. cbn [step] in H.
  destruct (loops s g) as [|buf|c|c l|] eqn:Hl; try discriminate.
  - destruct (a =? 0); [|discriminate]. cbn [sigidx] in H.
    destruct (sig s g); inversion H; subst; cbn [set_loop set_sig sig pub loops is_open gen].
    + repeat split; auto; try contradiction. intros i Hi. right. rewrite !upd_other by exact Hi. auto.
    + repeat split; auto; try contradiction. intros i Hi. right. rewrite !upd_other by exact Hi. auto.
  - destruct (close_step Fixed (Some g) c a s) as [[[s1 code] p]|] eqn:Hc; [|discriminate]. inversion H; subst.
    apply close_step_cases in Hc.
    destruct Hc as [(_&->&_)|(Ho&Hst&_&[(_&->&_)|(_&->&_)])];
      cbn [set_loop closed_state sig pub loops is_open gen sigidx].
    + repeat split; auto; try contradiction. intros i Hi. right. rewrite !upd_other by exact Hi. auto.
    + repeat split; auto; try contradiction. intros i Hi. right. rewrite !upd_other by exact Hi. auto.
    + cbn [stale] in Hst. apply negb_false_iff, Nat.eqb_eq in Hst. subst g.
      repeat split; auto. intros i Hi. left. rewrite !upd_other by exact Hi. auto.
Qed.

(** ** while the transport is open a read loop is alive (when the underlying Close does not fail
    under a read loop) *)

Definition live (l : lstate) : Prop :=
  match l with LReading _ | LSawErr _ | LAtClose _ _ => True | _ => False end.

Definition live_inv (s : st) : Prop := is_open s = true -> live (loops s (gen s)).

Lemma live_step pol s e s' o :
  inv s -> loop_close_ok e = true ->
  step Fixed pol s e = Some (s', o) -> live_inv s -> live_inv s'.
Proof.
  intros Hi Hok H Hlive.
  assert (Hopen : forall a s1 code, open_step Fixed a s = Some (s1, code) -> live_inv s1).
  { intros a s1 code Ho. apply open_step_cases in Ho.
    destruct Ho as [(_&_&->&_)|[(Hc&->&_)|(_&_&_&->&_)]]; auto.
    intros _. cbn [opened loops gen]. rewrite upd_same. exact I. }
  assert (Hset : forall g l, (g = gen s -> is_open s = true -> live l) -> live_inv (set_loop s g l)).
  { intros g l Hl Ho. cbn [set_loop loops gen is_open] in *. unfold upd.
    destruct (Nat.eqb (gen s) g) eqn:E; [apply Nat.eqb_eq in E; auto | auto]. }
  destruct e; cbn [step] in H.
  - destruct (open_step Fixed a s) as [[s1 code]|] eqn:Ho; [|discriminate]. inversion H; subst. eauto.
  - destruct (close_step Fixed None 0 a s) as [[[s1 code] p]|] eqn:Hc; [|discriminate]. inversion H; subst.
    apply close_step_cases in Hc.
    destruct Hc as [(_&->&_)|(Ho&_&_&[(_&->&_)|(_&->&_)])]; auto.
    intros Hx. discriminate.
  - inversion H; subst. auto.
  - destruct (loops s g) as [|buf| | |]; try discriminate.
    destruct (drain_buf (buf ++ b)) as [[ex rest] [| |]]; inversion H; subst; apply Hset; intros; exact I.
  - destruct (loops s g) as [|buf| | |]; try discriminate. inversion H; subst. apply Hset; intros; exact I.
  - destruct (loops s g) as [|buf|c|c l|] eqn:Hl; try discriminate.
    + destruct (a =? 0); [|discriminate]. cbn [sigidx] in H.
      destruct (sig s g) eqn:Hsg; inversion H; subst.
      * intros Ho. cbn [set_loop set_sig loops gen is_open] in *.
        unfold upd. destruct (Nat.eqb (gen s) g) eqn:E; [|auto].
        apply Nat.eqb_eq in E. subst g. rewrite (i_sig _ Hi Ho) in Hsg. discriminate.
      * apply Hset; intros; exact I.
    + destruct (close_step Fixed (Some g) c a s) as [[[s1 code] p]|] eqn:Hc; [|discriminate]. inversion H; subst.
      apply close_step_cases in Hc.
      destruct Hc as [(_&->&_&_&Hx)|(Ho&Hst&_&[(->&->&_)|(_&->&_)])].
      * intros Ho. cbn [set_loop loops gen is_open] in *. unfold upd.
        destruct (Nat.eqb (gen s) g) eqn:E; [|auto].
        apply Nat.eqb_eq in E. subst g. destruct Hx as [Hx|Hx]; [congruence|].
        cbn [stale] in Hx. rewrite Nat.eqb_refl in Hx. discriminate.
      * cbn in Hok. discriminate.
      * intros Hx. discriminate.
  - destruct (mon_set s); [|discriminate].
    destruct (mon s); try discriminate. destruct (mon_sig s) as [c|]; [|discriminate].
    destruct (c =? 0); [inversion H; subst; auto|].
    destruct (on_closed_uncleanly pol) as [reopen w]. inversion H; subst. auto.
  - destruct (mon_set s); [|discriminate].
    destruct (mon s) as [|prev w|]; try discriminate.
    destruct (open_step Fixed a s) as [[s1 code]|] eqn:Ho; [|discriminate].
    pose proof (Hopen _ _ _ Ho) as Hp.
    destruct code; [inversion H; subst; auto| |];
      destruct (on_reopen_failed pol (prev + 1) w) as [reopen w']; inversion H; subst; auto.
Qed.

Lemma live_reader pol m p tr s :
  Forall (fun e => loop_close_ok e = true) tr ->
  run Fixed pol (init m p) tr = Some s ->
  is_open s = true -> live (loops s (gen s)).
Proof.
  assert (G : forall tr s0 s1, Forall (fun e => loop_close_ok e = true) tr ->
             run Fixed pol s0 tr = Some s1 -> inv s0 -> live_inv s0 -> live_inv s1).
  { induction tr0 as [|e tr0 IH]; cbn [run]; intros s0 s1 Hall H Hi Hl.
    - inversion H; subst; auto.
    - inversion Hall; subst.
      destruct (step Fixed pol s0 e) as [[s2 o]|] eqn:Hs; [|discriminate].
      eapply IH; eauto using step_inv, live_step. }
  intros Hall H. eapply G; eauto using inv_init. intros Hx. discriminate.
Qed.

Lemma generations_independent' pol s g a s' o :
  step Fixed pol s (ELoop g a) = Some (s', o) ->
  (forall i, i <> g -> sig s' i = sig s i /\ pub s' i = pub s i)
  /\ (is_open s' <> is_open s -> g = gen s)
  /\ gen s' = gen s.
Proof.
  intros H. destruct (generations_independent _ _ _ _ _ _ H) as (H1 & H2 & H3).
  repeat split; auto; destruct (H1 i H0) as [(?&?&?)|(?&?&?)]; auto.
Qed.

(** ** the monitor: attempts and waits *)

(** the runner's state changes only in its own steps *)
Lemma mon_unchanged pol s e s' o :
  step Fixed pol s e = Some (s', o) ->
  match e with EMonRecv | EMon _ => True | _ => mon s' = mon s /\ mon_set s' = mon_set s end.
Proof.
  intros H. destruct e; cbn [step] in H; auto.
  - destruct (open_step Fixed a s) as [[s1 code]|] eqn:Ho; [|discriminate]. inversion H; subst.
    apply open_step_cases in Ho. destruct Ho as [(_&_&->&_)|[(Hc&->&_)|(_&_&_&->&_)]]; auto.
  - destruct (close_step Fixed None 0 a s) as [[[s1 code] p]|] eqn:Hc; [|discriminate]. inversion H; subst.
    apply close_step_cases in Hc.
    destruct Hc as [(_&->&_)|(Ho&_&_&[(_&->&_)|(_&->&_)])]; auto.
  - inversion H; subst. auto.
  - destruct (loops s g) as [|buf| | |]; try discriminate.
    destruct (drain_buf (buf ++ b)) as [[ex rest] [| |]]; inversion H; subst; auto.
  - destruct (loops s g) as [|buf| | |]; try discriminate. inversion H; subst. auto.
  - destruct (loops s g) as [|buf|c|c l|] eqn:Hl; try discriminate.
    + destruct (a =? 0); [|discriminate]. destruct (sig s (sigidx Fixed g)); inversion H; subst; auto.
    + destruct (close_step Fixed (Some g) c a s) as [[[s1 code] p]|] eqn:Hc; [|discriminate]. inversion H; subst.
      apply close_step_cases in Hc.
      destruct Hc as [(_&->&_)|(Ho&_&_&[(_&->&_)|(_&->&_)])]; auto.
Qed.

Definition wait_of (pol : policy) (prev : Z) : Z :=
  if prev =? 0 then p_init pol else Z.min (2 ^ prev * p_init pol) (p_maxw pol).

Definition mon_inv (pol : policy) (s : st) : Prop :=
  forall prev w, mon s = MWait prev w ->
    0 <= prev < p_max pol
    /\ (prev = 0 -> w = p_init pol)
    /\ (0 < prev -> w <= p_maxw pol)
    /\ (0 <= p_init pol -> 0 <= p_maxw pol -> w = wait_of pol prev).

Lemma wait_of_next pol prev :
  0 <= prev -> 0 <= p_init pol -> 0 <= p_maxw pol ->
  Z.min (2 * wait_of pol prev) (p_maxw pol) = wait_of pol (prev + 1).
Proof.
  intros Hp Hi Hm. unfold wait_of.
  destruct (prev + 1 =? 0) eqn:E1; [apply Z.eqb_eq in E1; lia|].
  replace (2 ^ (prev + 1)) with (2 * 2 ^ prev) by (rewrite Z.pow_add_r by lia; lia).
  destruct (prev =? 0) eqn:E0.
  - apply Z.eqb_eq in E0. subst prev. cbn. lia.
  - assert (0 <= 2 ^ prev * p_init pol) by (apply Z.mul_nonneg_nonneg; [apply Z.pow_nonneg; lia | lia]).
    lia.
Qed.

Lemma mon_inv_step pol s e s' o :
  step Fixed pol s e = Some (s', o) -> mon_inv pol s -> mon_inv pol s'.
Proof.
  intros H Hm. pose proof (mon_unchanged _ _ _ _ _ H) as Hu.
  destruct e; try (destruct Hu as [Hu _]; unfold mon_inv; rewrite Hu; exact Hm); cbn [step] in H.
  - destruct (mon_set s); [|discriminate].
    destruct (mon s) eqn:Em; try discriminate. destruct (mon_sig s) as [c|]; [|discriminate].
    destruct (c =? 0).
    + inversion H; subst. intros prev w Hx. discriminate.
    + unfold on_closed_uncleanly in H. inversion H; subst. intros prev w Hx. cbn [set_mon mon] in Hx.
      destruct (0 <? p_max pol) eqn:E; [|discriminate]. apply Z.ltb_lt in E. inversion Hx; subst.
      repeat split; auto; try lia.
  - destruct (mon_set s); [|discriminate].
    destruct (mon s) as [|prev w|] eqn:Em; try discriminate.
    destruct (Hm _ _ Em) as (Hp & H0 & Hle & Hcf).
    destruct (open_step Fixed a s) as [[s1 code]|] eqn:Ho; [|discriminate].
    assert (Hfail : forall s2 o2,
              (let '(reopen, w') := on_reopen_failed pol (prev + 1) w in
               Some (set_mon s1 (mon_sig s1) (if reopen then MWait (prev + 1) w' else MDone) (handled s1),
                     [3; prev + 1; w; b2z reopen; w'])) = Some (s2, o2) -> mon_inv pol s2).
    { intros s2 o2 Hx. unfold on_reopen_failed in Hx.
      destruct (p_max pol <=? prev + 1) eqn:E; inversion Hx; subst; intros pr w2 Hy; cbn [set_mon mon] in Hy; [discriminate|].
      apply Z.leb_gt in E. inversion Hy; subst. repeat split; try lia.
      intros Hi0 Hm0. rewrite (Hcf Hi0 Hm0). apply wait_of_next; lia. }
    destruct code; [inversion H; subst; intros pr w2 Hy; discriminate | |]; eapply Hfail; eauto.
Qed.

Lemma mon_waits pol m p tr s prev w :
  run Fixed pol (init m p) tr = Some s -> mon s = MWait prev w ->
  0 <= prev < p_max pol
  /\ (prev = 0 -> w = p_init pol)
  /\ (0 < prev -> w <= p_maxw pol)
  /\ (0 <= p_init pol -> 0 <= p_maxw pol -> w = wait_of pol prev).
Proof.
  assert (G : forall tr s0 s1, run Fixed pol s0 tr = Some s1 -> mon_inv pol s0 -> mon_inv pol s1).
  { induction tr0 as [|e tr0 IH]; cbn [run]; intros s0 s1 H Hm.
    - inversion H; subst; auto.
    - destruct (step Fixed pol s0 e) as [[s2 o]|] eqn:Hs; [|discriminate]. eauto using mon_inv_step. }
  intros H Hw. eapply (G tr (init m p) s H); eauto. intros pr w2 Hx. discriminate.
Qed.

(** ** the monitor is told about every close, in order (when the user leaves reopening to it) *)

Definition pending (s : st) : list Z := match mon_sig s with Some c => [c] | None => [] end.

Definition told_inv (s : st) : Prop :=
  mon_set s = true -> mon s <> MDone ->
  handled s ++ pending s = closes s
  /\ (is_open s = true -> mon_sig s = None)
  /\ (forall prev w, mon s = MWait prev w -> is_open s = false /\ mon_sig s = None).

Lemma told_step pol s e s' o :
  polite s e = true -> step Fixed pol s e = Some (s', o) -> told_inv s -> told_inv s'.
Proof.
  intros Hpol H Ht.
  pose proof (mon_unchanged _ _ _ _ _ H) as Hu.
  assert (Hclosed : forall c, is_open s = true -> told_inv (closed_state Fixed c s)).
  { intros c Ho Hms Hmd. cbn [closed_state mon_set mon] in *. destruct (Ht Hms Hmd) as (He & Hn & Hw).
    unfold pending. cbn [closed_state handled closes mon_sig is_open].
    rewrite (Hn Ho), Hms. unfold pending in He. rewrite (Hn Ho) in He. rewrite app_nil_r in He.
    split; [now rewrite He|]. split; [discriminate|].
    intros prev w Hx. destruct (Hw _ _ Hx) as [Hc _]. congruence. }
  assert (Hset : forall s0 g l, told_inv s0 -> told_inv (set_loop s0 g l)).
  { intros s0 g l Hx. exact Hx. }
  destruct e; cbn [step] in H.
  - (* user Open: polite *)
    destruct (open_step Fixed a s) as [[s1 code]|] eqn:Ho; [|discriminate]. inversion H; subst.
    apply open_step_cases in Ho. destruct Ho as [(_&_&->&_)|[(Hc&->&_)|(_&_&_&->&_)]]; auto.
    intros Hms Hmd. cbn [opened mon_set mon] in *. destruct (Ht Hms Hmd) as (He & Hn & Hw).
    cbn [polite] in Hpol. rewrite Hms in Hpol. cbn in Hpol.
    destruct (mon s) eqn:Em; try discriminate; [|contradiction].
    destruct (mon_sig s) eqn:Es; [discriminate|].
    unfold pending in *. cbn [opened handled closes mon_sig is_open mon]. rewrite Es in *.
    split; [auto|]. split; [auto|]. intros pr w2 Hx. cbn [opened mon] in Hx. congruence.
  - destruct (close_step Fixed None 0 a s) as [[[s1 code] p]|] eqn:Hc; [|discriminate]. inversion H; subst.
    apply close_step_cases in Hc.
    destruct Hc as [(_&->&_)|(Ho&_&_&[(_&->&_)|(_&->&_)])]; auto.
  - inversion H; subst. auto.
  - destruct (loops s g) as [|buf| | |]; try discriminate.
    destruct (drain_buf (buf ++ b)) as [[ex rest] [| |]]; inversion H; subst; auto.
  - destruct (loops s g) as [|buf| | |]; try discriminate. inversion H; subst. auto.
  - destruct (loops s g) as [|buf|c|c l|] eqn:Hl; try discriminate.
    + destruct (a =? 0); [|discriminate]. destruct (sig s (sigidx Fixed g)); inversion H; subst; auto.
    + destruct (close_step Fixed (Some g) c a s) as [[[s1 code] p]|] eqn:Hc; [|discriminate]. inversion H; subst.
      apply close_step_cases in Hc.
      destruct Hc as [(_&->&_)|(Ho&_&_&[(_&->&_)|(_&->&_)])]; auto.
  - (* the runner receives *)
    destruct (mon_set s) eqn:Hms; [|discriminate].
    destruct (mon s) eqn:Em; try discriminate. destruct (mon_sig s) as [c|] eqn:Es; [|discriminate].
    assert (Hmd : mon s <> MDone) by (rewrite Em; discriminate).
    destruct (Ht Hms Hmd) as (He & Hn & Hw).
    assert (Hc : is_open s = false).
    { destruct (is_open s) eqn:Ho; auto. specialize (Hn eq_refl). congruence. }
    unfold pending in He. rewrite Es in He.
    destruct (c =? 0).
    + inversion H; subst. intros _ Hx. cbn [set_mon mon] in Hx. contradiction.
    + destruct (on_closed_uncleanly pol) as [reopen w]. inversion H; subst.
      intros _ Hx. unfold pending. cbn [set_mon mon mon_sig handled closes is_open] in *.
      rewrite app_nil_r. repeat split; auto.
  - (* the runner tries to reopen *)
    destruct (mon_set s) eqn:Hms; [|discriminate].
    destruct (mon s) as [|prev w|] eqn:Em; try discriminate.
    assert (Hmd : mon s <> MDone) by (rewrite Em; discriminate).
    destruct (Ht Hms Hmd) as (He & Hn & Hw).
    destruct (Hw _ _ Em) as [Hc Hs0].
    destruct (open_step Fixed a s) as [[s1 code]|] eqn:Ho; [|discriminate].
    apply open_step_cases in Ho.
    destruct Ho as [(Hx&_)|[(_&->&->&_)|(_&_&_&->&->)]]; [congruence| |].
    + inversion H; subst. intros _ _. unfold pending in *.
      cbn [set_mon opened mon mon_sig handled closes is_open]. rewrite Hs0 in *.
      split; [auto|]. split; [auto|]. intros pr w2 Hx. discriminate.
    + cbn in H. destruct (on_reopen_failed pol (prev + 1) w) as [reopen w']. inversion H; subst.
      intros _ Hx. unfold pending in *. cbn [set_mon mon mon_sig handled closes is_open] in *.
      repeat split; auto.
Qed.

Lemma step_mon_set pol s e s' o : step Fixed pol s e = Some (s', o) -> mon_set s' = mon_set s.
Proof.
  intros Hs. pose proof (mon_unchanged _ _ _ _ _ Hs) as Hu.
  destruct e; try (destruct Hu as [_ Hu]; exact Hu); cbn [step] in Hs.
  - destruct (mon_set s) eqn:Hms; [|discriminate]. destruct (mon s); try discriminate.
    destruct (mon_sig s) as [c|]; [|discriminate].
    destruct (c =? 0); [inversion Hs; subst; cbn; auto|].
    destruct (on_closed_uncleanly pol). inversion Hs; subst. cbn; auto.
  - destruct (mon_set s) eqn:Hms; [|discriminate]. destruct (mon s) as [|prev w|]; try discriminate.
    destruct (open_step Fixed a s) as [[s3 code]|] eqn:Ho; [|discriminate].
    assert (mon_set s3 = true).
    { apply open_step_cases in Ho. destruct Ho as [(_&_&->&_)|[(_&->&_)|(_&_&_&->&_)]]; auto. }
    destruct code; [inversion Hs; subst; cbn; auto| |];
      destruct (on_reopen_failed pol (prev + 1) w); inversion Hs; subst; cbn; auto.
Qed.

Lemma told_every_close pol p tr s :
  run_polite Fixed pol (init true p) tr = Some s ->
  mon s <> MDone ->
  handled s ++ pending s = closes s.
Proof.
  assert (G : forall tr s0 s1, run_polite Fixed pol s0 tr = Some s1 -> told_inv s0 -> told_inv s1).
  { induction tr0 as [|e tr0 IH]; cbn [run_polite]; intros s0 s1 H Ht.
    - inversion H; subst; auto.
    - destruct (polite s0 e) eqn:Hp; [|discriminate].
      destruct (step Fixed pol s0 e) as [[s2 o]|] eqn:Hs; [|discriminate]. eauto using told_step. }
  assert (G2 : forall tr s0 s1, run_polite Fixed pol s0 tr = Some s1 -> mon_set s1 = mon_set s0).
  { induction tr0 as [|e tr0 IH]; cbn [run_polite]; intros s0 s1 H0.
    - inversion H0; subst; auto.
    - destruct (polite s0 e); [|discriminate].
      destruct (step Fixed pol s0 e) as [[s2 o]|] eqn:Hs; [|discriminate].
      rewrite (IH _ _ H0). eapply step_mon_set; eauto. }
  intros H Hmd.
  assert (Hms : mon_set s = true) by (rewrite (G2 _ _ _ H); reflexivity).
  assert (Hi : told_inv (init true p)).
  { intros _ _. cbn. repeat split; auto; intros; discriminate. }
  destruct (G _ _ _ H Hi Hms Hmd) as (He & _). exact He.
Qed.

Lemma told_inv_reachable pol p tr s :
  run_polite Fixed pol (init true p) tr = Some s -> told_inv s /\ mon_set s = true.
Proof.
  assert (G : forall tr s0 s1, run_polite Fixed pol s0 tr = Some s1 ->
             told_inv s0 -> told_inv s1 /\ mon_set s1 = mon_set s0).
  { induction tr0 as [|e tr0 IH]; cbn [run_polite]; intros s0 s1 H Ht.
    - inversion H; subst; auto.
    - destruct (polite s0 e) eqn:Hp; [|discriminate].
      destruct (step Fixed pol s0 e) as [[s2 o]|] eqn:Hs; [|discriminate].
      destruct (IH _ _ H (told_step _ _ _ _ _ Hp Hs Ht)) as [H1 H2]. split; auto.
      rewrite H2. eapply step_mon_set; eauto. }
  intros H. apply (G _ _ _ H). intros _ _. cbn. repeat split; auto; intros; discriminate.
Qed.

(** ** after an unclean close the monitor can reopen, and everything is as after a first Open *)
Lemma recoverable pol p tr s c :
  run_polite Fixed pol (init true p) tr = Some s ->
  mon s = MIdle -> mon_sig s = Some c -> c <> 0 -> 0 < p_max pol ->
  exists s1 s2,
    step Fixed pol s EMonRecv = Some (s1, [2; c; 1; p_init pol])
    /\ step Fixed pol s1 (EMon (if under s then 3 else 1)) = Some (s2, [4; 0; 0; 0; 0])
    /\ is_open s2 = true /\ gen s2 = S (gen s) /\ loops s2 (gen s2) = LReading []
    /\ pub s2 (gen s2) = [] /\ mon s2 = MIdle /\ mon_sig s2 = None.
Proof.
  intros Hrun Hm Hsig Hc Hmax.
  destruct (told_inv_reachable _ _ _ _ Hrun) as [Ht Hms].
  assert (Hmd : mon s <> MDone) by (rewrite Hm; discriminate).
  destruct (Ht Hms Hmd) as (_ & Hn & _).
  assert (Hcl : is_open s = false).
  { destruct (is_open s) eqn:Ho; auto. specialize (Hn eq_refl). congruence. }
  apply Z.eqb_neq in Hc. apply Z.ltb_lt in Hmax.
  eexists. eexists. split.
  { cbn [step]. rewrite Hms, Hm, Hsig, Hc. unfold on_closed_uncleanly. rewrite Hmax. reflexivity. }
  cbn [step set_mon mon_set mon]. rewrite Hms. unfold open_step. cbn [set_mon is_open under]. rewrite Hcl.
  destruct (under s); cbn; repeat split; auto; apply upd_same.
Qed.

(** ** what the tree as found does (Pinned), and the two defects left in place *)

Definition pol0 : policy := {| p_max := 3; p_init := 5; p_maxw := 1 |}.

(** a failure, a reopen, a second failure: the second read loop takes the token the first close
    left behind for a requested close and leaves silently *)
Definition tr_silent : list ev :=
  [EOpen 1; EReadErr 1 (ErrRaw 7); ELoop 1 0; ELoop 1 1; EOpen 1; EReadErr 2 (ErrRaw 8); ELoop 2 0].

Lemma pinned_silent_second_failure :
  exists s, run Pinned pol0 (init false false) tr_silent = Some s
    /\ is_open s = true /\ loops s (gen s) = LExited /\ pub s (gen s) = [] /\ closes s = [1070].
Proof. eexists. split; [vm_compute; reflexivity|]. cbn. auto. Qed.

(** a failure, a reopen, then Close(): the send on the full close signal blocks for ever, whatever
    the underlying transport would answer *)
Definition tr_deadlock : list ev := [EOpen 1; EReadErr 1 (ErrRaw 7); ELoop 1 0; ELoop 1 1; EOpen 1].

Lemma pinned_close_deadlock :
  exists s, run Pinned pol0 (init false false) tr_deadlock = Some s
    /\ is_open s = true /\ forall a, step Pinned pol0 s (EClose a) = None.
Proof.
  eexists. split; [vm_compute; reflexivity|]. split; [reflexivity|]. intros a. reflexivity.
Qed.

(** the same two histories on the repaired code *)
Lemma fixed_second_failure_reported :
  exists s, run Fixed pol0 (init false false) (tr_silent ++ [ELoop 2 1]) = Some s
    /\ is_open s = false /\ pub s 2%nat = [1080] /\ closes s = [1070; 1080].
Proof. eexists. split; [vm_compute; reflexivity|]. cbn. auto. Qed.

Lemma fixed_close_after_reopen :
  exists s s', run Fixed pol0 (init false false) tr_deadlock = Some s
    /\ step Fixed pol0 s (EClose 1) = Some (s', [0; 2; 0]) /\ is_open s' = false.
Proof. eexists. eexists. split; [vm_compute; reflexivity|]. split; reflexivity. Qed.

(** F13: the first wait is InitialWait even when that is above MaxWait *)
Lemma first_wait_uncapped :
  exists pol tr s w, run Fixed pol (init true false) tr = Some s
    /\ mon s = MWait 0 w /\ p_maxw pol < w.
Proof.
  exists pol0, [EOpen 1; EReadErr 1 (ErrRaw 7); ELoop 1 0; ELoop 1 1; EMonRecv].
  eexists. exists 5. split; [vm_compute; reflexivity|]. split; [reflexivity|]. cbn. lia.
Qed.

(** the stream ends inside a frame (4 header bytes announcing 9, one body byte, then io.EOF; or
    two header bytes, then an END_OF_FILE exception): no Close() anywhere; the cause published is
    error 6 ("end of stream inside a frame"), the monitor is told "closed uncleanly" and goes on
    to reopen (before the repair: nil, "closed cleanly", runner stopped - C15-eof-inside-frame-clean) *)
Definition tr_cut_body : list ev :=
  [EOpen 1; EFeed 1 [0; 0; 0; 9; 0]; EReadErr 1 EofRaw; ELoop 1 0; ELoop 1 1; EMonRecv].
Definition tr_cut_header : list ev :=
  [EOpen 1; EFeed 1 [0; 0]; EReadErr 1 EofTte; ELoop 1 0; ELoop 1 1; EMonRecv].
(** the same END_OF_FILE between two frames (after one complete, well-formed frame) is a clean close *)
Definition tr_cut_boundary : list ev :=
  [EOpen 1; EFeed 1 [0; 0; 0; 19;  0;  0; 0; 0; 14;  0; 0; 0; 5;  95; 111; 112; 105; 100;  0; 0; 0; 1;  49];
   EReadErr 1 EofTte; ELoop 1 0; ELoop 1 1; EMonRecv].

Lemma eof_inside_frame_unclean :
  (exists s, run Fixed pol0 (init true false) tr_cut_body = Some s
     /\ pub s 1%nat = [6] /\ handled s = [6] /\ mon s = MWait 0 5 /\ is_open s = false)
  /\ (exists s, run Fixed pol0 (init true false) tr_cut_header = Some s
     /\ pub s 1%nat = [6] /\ handled s = [6] /\ mon s = MWait 0 5 /\ is_open s = false)
  /\ (exists s, run Fixed pol0 (init true false) tr_cut_boundary = Some s
     /\ pub s 1%nat = [0] /\ handled s = [0] /\ mon s = MDone /\ is_open s = false).
Proof. repeat split; eexists; (split; [vm_compute; reflexivity|]); cbn; auto. Qed.

(** the chain of facts behind "nil only for Close() or end of file" *)
Lemma nil_cause_chain :
  (forall n k, rkind_wf k -> (classify n k = 0 <-> k = EofTte /\ n = 0))
  /\ (forall pol m p tr s e s' o g,
        run Fixed pol (init m p) tr = Some s -> step Fixed pol s e = Some (s', o) -> pub s' g <> pub s g ->
        g = gen s /\ is_open s = true /\ is_open s' = false /\
        exists c, pub s' g = pub s g ++ [c] /\
          ((e = EClose 1 /\ c = 0) \/ (exists l, e = ELoop g 1 /\ loops s g = LAtClose c l)))
  /\ (forall pol m p tr s g c l,
        run Fixed pol (init m p) tr = Some s -> loops s g = LAtClose c l -> (c = 0 <-> l = 2))
  /\ (forall pol s e s' o g,
        step Fixed pol s e = Some (s', o) -> loops s' g = LSawErr 0 ->
        loops s g = LSawErr 0 \/
        exists buf k, e = EReadErr g k /\ loops s g = LReading buf /\ classify (zlen buf) k = 0).
Proof.
  split; [exact classify_nil|]. split; [|split].
  - intros pol m p tr s e s' o g Hrun. apply publish_provenance_inv. eapply reachable_inv; eauto.
  - intros pol m p tr s g c l Hrun. apply (loop_causes_reachable _ _ _ _ _ Hrun).
  - exact saw_nil_provenance.
Qed.
