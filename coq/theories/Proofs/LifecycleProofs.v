(** Lemmas about Model/Lifecycle.v (C15). *)
From Coq Require Import ZArith List Bool Lia Arith.
From FV Require Import Base.Res Base.Bytes Base.GoSem Model.Headers Model.Lifecycle.
Import ListNotations.
Open Scope Z_scope.

(** ** small facts *)

Lemma upd_same {A} (f : nat -> A) k v : upd f k v k = v.
Proof. unfold upd. now rewrite Nat.eqb_refl. Qed.

Lemma upd_other {A} (f : nat -> A) k v x : x <> k -> upd f k v x = f x.
Proof. intros Hne. unfold upd. destruct (Nat.eqb x k) eqn:E; [apply Nat.eqb_eq in E; contradiction | reflexivity]. Qed.

Lemma wake_not_reading l buf : wake l <> LReading buf.
Proof. destruct l; cbn; discriminate. Qed.

Lemma wake_none l : wake l = LNone <-> l = LNone.
Proof. destruct l; cbn; split; intros H; try discriminate; auto. Qed.

(** ** the invariant of the repaired code *)

Record inv (s : st) : Prop := {
  i_under : is_open s = true -> under s = true;
  i_sig : is_open s = true -> sig s (gen s) = false;
  i_pub_open : is_open s = true -> pub s (gen s) = [];
  i_pub_done : forall g, (1 <= g <= gen s)%nat ->
               (g = gen s /\ is_open s = true) \/ exists c, pub s g = [c];
  i_fresh : forall g, (gen s < g)%nat -> loops s g = LNone /\ pub s g = [] /\ sig s g = false;
  i_zero : loops s O = LNone;
  i_reading : forall g buf, loops s g = LReading buf -> g = gen s /\ is_open s = true
}.

Lemma inv_init m p : inv (init m p).
Proof.
  constructor; cbn; intros; try discriminate; auto.
  lia.
Qed.

Lemma inv_opened s : is_open s = false -> inv s -> inv (opened Fixed s).
Proof.
  intros Hc [Hu Hs Hpo Hpd Hf Hz Hr].
  constructor; cbn [opened is_open under gen sig loops pub]; intros.
  - reflexivity.
  - apply upd_same.
  - apply upd_same.
  - destruct (Nat.eq_dec g (S (gen s))) as [->|Hne]; [left; auto|right].
    rewrite upd_other by exact Hne.
    destruct (Hpd g) as [[_ Ho]|Hex]; [lia| congruence | exact Hex].
  - rewrite !upd_other by lia. apply Hf. lia.
  - rewrite upd_other by lia. exact Hz.
  - destruct (Nat.eq_dec g (S (gen s))) as [->|Hne]; [auto|].
    rewrite upd_other in H by exact Hne.
    destruct (Hr _ _ H) as [_ Ho]. congruence.
Qed.

Lemma inv_closed c s : is_open s = true -> inv s -> inv (closed_state Fixed c s).
Proof.
  intros Ho [Hu Hs Hpo Hpd Hf Hz Hr].
  constructor; cbn [closed_state is_open under gen sig loops pub sigidx]; intros; try discriminate.
  - destruct (Nat.eq_dec g (gen s)) as [->|Hne].
    + right. exists c. rewrite upd_same, (Hpo Ho). reflexivity.
    + rewrite upd_other by exact Hne.
      destruct (Hpd g H) as [[He _]|Hex]; [contradiction | right; exact Hex].
  - destruct (Hf g H) as (Hl & Hp & Hsg).
    rewrite !upd_other by lia. rewrite Hl. cbn. auto.
  - rewrite Hz. reflexivity.
  - exfalso. eapply wake_not_reading; eauto.
Qed.

Lemma inv_set_loop s g l :
  inv s -> loops s g <> LNone ->
  (forall buf, l = LReading buf -> exists b0, loops s g = LReading b0) ->
  inv (set_loop s g l).
Proof.
  intros [Hu Hs Hpo Hpd Hf Hz Hr] Hnn Hrd.
  assert (Hg : (g <= gen s)%nat).
  { destruct (le_lt_dec g (gen s)) as [|Hlt]; [assumption|]. destruct (Hf g Hlt) as (Hl & _). contradiction. }
  assert (Hg0 : g <> O) by (intros ->; contradiction).
  constructor; cbn [set_loop is_open under gen sig loops pub]; intros; auto.
  - destruct (Hf g0 H) as (Hl & Hp & Hsg). rewrite upd_other by lia. auto.
  - rewrite upd_other by auto. exact Hz.
  - destruct (Nat.eq_dec g0 g) as [->|Hne].
    + rewrite upd_same in H. destruct (Hrd _ H) as [b0 Hb0]. eapply Hr; eauto.
    + rewrite upd_other in H by exact Hne. eapply Hr; eauto.
Qed.

Lemma inv_set_sig_false s i : inv s -> inv (set_sig s i false).
Proof.
  intros [Hu Hs Hpo Hpd Hf Hz Hr].
  assert (Hupd : forall g, sig s g = false -> upd (sig s) i false g = false).
  { intros g Hg. unfold upd. destruct (Nat.eqb g i); auto. }
  constructor; cbn [set_sig is_open under gen sig loops pub]; intros; eauto.
  destruct (Hf g H) as (Hl & Hp & Hsg). repeat split; auto.
Qed.

Lemma inv_set_mon s ms m h : inv s -> inv (set_mon s ms m h).
Proof. intros [Hu Hs Hpo Hpd Hf Hz Hr]. constructor; cbn [set_mon is_open under gen sig loops pub]; eauto. Qed.

(** ** Open and close as relations *)

Lemma open_step_cases a s s' code :
  open_step Fixed a s = Some (s', code) ->
  (is_open s = true /\ a = 0 /\ s' = s /\ code = 1)
  \/ (is_open s = false /\ s' = opened Fixed s /\ code = 0 /\ ((under s = true /\ a = 3) \/ (under s = false /\ a = 1)))
  \/ (is_open s = false /\ under s = false /\ a = 2 /\ s' = s /\ code = 3).
Proof.
  unfold open_step. intros H.
  destruct (is_open s) eqn:Ho.
  - destruct (a =? 0) eqn:Ea; [|discriminate]. apply Z.eqb_eq in Ea. inversion H; subst. auto.
  - destruct (under s) eqn:Hu.
    + destruct (a =? 3) eqn:Ea; [|discriminate]. apply Z.eqb_eq in Ea. inversion H; subst. right; left. auto 10.
    + destruct (a =? 1) eqn:Ea1.
      * apply Z.eqb_eq in Ea1. inversion H; subst. right; left. auto 10.
      * destruct (a =? 2) eqn:Ea2; [|discriminate]. apply Z.eqb_eq in Ea2. inversion H; subst. right; right. auto.
Qed.

Lemma close_step_cases who c a s s' code p :
  close_step Fixed who c a s = Some (s', code, p) ->
  (a = 0 /\ s' = s /\ code = 2 /\ p = [] /\ (is_open s = false \/ stale Fixed who s = true))
  \/ (is_open s = true /\ stale Fixed who s = false /\ sig s (gen s) = false /\
      ((a = 2 /\ s' = s /\ code = 3 /\ p = [])
       \/ (a = 1 /\ s' = closed_state Fixed c s /\ code = 0 /\ p = [Z.of_nat (gen s); c]))).
Proof.
  unfold close_step. intros H. cbn [sigidx] in H.
  destruct (negb (is_open s) || stale Fixed who s) eqn:Hn.
  - destruct (a =? 0) eqn:Ea; [|discriminate]. apply Z.eqb_eq in Ea. inversion H; subst. left.
    repeat split; auto. apply orb_true_iff in Hn. destruct Hn as [Hn|Hn]; [left|right; auto].
    now apply negb_true_iff in Hn.
  - apply orb_false_iff in Hn. destruct Hn as [Hn1 Hn2]. apply negb_false_iff in Hn1.
    destruct (sig s (gen s)) eqn:Hsg; [discriminate|].
    right. repeat split; auto.
    destruct (a =? 2) eqn:Ea2.
    + apply Z.eqb_eq in Ea2. inversion H; subst. left. auto.
    + destruct (a =? 1) eqn:Ea1; [|discriminate]. apply Z.eqb_eq in Ea1. inversion H; subst. right. auto.
Qed.

(** ** every step of the repaired code preserves the invariant *)

Lemma step_inv pol s e s' o : step Fixed pol s e = Some (s', o) -> inv s -> inv s'.
Proof.
  intros H Hi. destruct e; cbn [step] in H.
  - (* Open *)
    destruct (open_step Fixed a s) as [[s1 code]|] eqn:Ho; [|discriminate]. inversion H; subst.
    apply open_step_cases in Ho. destruct Ho as [(_&_&->&_)|[(Hc&->&_)|(_&_&_&->&_)]]; auto using inv_opened.
  - (* Close *)
    destruct (close_step Fixed None 0 a s) as [[[s1 code] p]|] eqn:Hc; [|discriminate]. inversion H; subst.
    apply close_step_cases in Hc.
    destruct Hc as [(_&->&_)|(Ho&_&_&[(_&->&_)|(_&->&_)])]; auto using inv_closed.
  - inversion H; subst; auto.
  - (* feed *)
    destruct (loops s g) as [|buf| | |] eqn:Hl; try discriminate.
    destruct (drain_buf (buf ++ b)) as [[ex rest] [| |]]; inversion H; subst;
      apply inv_set_loop; auto; try congruence; intros b1 Hb1; try discriminate; eauto.
  - (* read error *)
    destruct (loops s g) as [|buf| | |] eqn:Hl; try discriminate. inversion H; subst.
    apply inv_set_loop; auto; try congruence; try (intros b1 Hb1; discriminate).
  - (* loop step *)
    destruct (loops s g) as [|buf|c|c l|] eqn:Hl; try discriminate.
    + destruct (a =? 0); [|discriminate]. cbn [sigidx] in H.
      destruct (sig s g) eqn:Hsg; inversion H; subst.
      * apply inv_set_loop; [apply inv_set_sig_false; auto | cbn; congruence | intros b1 Hb1; discriminate].
      * apply inv_set_loop; auto; try congruence; try (intros b1 Hb1; discriminate).
    + destruct (close_step Fixed (Some g) c a s) as [[[s1 code] p]|] eqn:Hc; [|discriminate]. inversion H; subst.
      apply close_step_cases in Hc.
      destruct Hc as [(_&->&_)|(Ho&_&_&[(_&->&_)|(_&->&_)])].
      * apply inv_set_loop; auto; try congruence; try (intros b1 Hb1; discriminate).
      * apply inv_set_loop; auto; try congruence; try (intros b1 Hb1; discriminate).
      * apply inv_set_loop; [apply inv_closed; auto| |intros b1 Hb1; discriminate].
        cbn [closed_state loops]. rewrite Hl. cbn. discriminate.
  - (* monitor receives *)
    destruct (mon_set s); [|discriminate].
    destruct (mon s); try discriminate. destruct (mon_sig s) as [c|]; [|discriminate].
    destruct (c =? 0); [inversion H; subst; apply inv_set_mon; auto|].
    destruct (on_closed_uncleanly pol) as [reopen w]. inversion H; subst. apply inv_set_mon; auto.
  - (* monitor reopen attempt *)
    destruct (mon_set s); [|discriminate].
    destruct (mon s) as [|prev w|]; try discriminate.
    destruct (open_step Fixed a s) as [[s1 code]|] eqn:Ho; [|discriminate].
    assert (Hi1 : inv s1).
    { apply open_step_cases in Ho. destruct Ho as [(_&_&->&_)|[(Hc&->&_)|(_&_&_&->&_)]]; auto using inv_opened. }
    destruct code; [inversion H; subst; apply inv_set_mon; auto| |];
      destruct (on_reopen_failed pol (prev + 1) w) as [reopen w']; inversion H; subst; apply inv_set_mon; auto.
Qed.

Lemma run_inv pol tr : forall s s', run Fixed pol s tr = Some s' -> inv s -> inv s'.
Proof.
  induction tr as [|e tr IH]; cbn [run]; intros s s' H Hi.
  - inversion H; subst; auto.
  - destruct (step Fixed pol s e) as [[s1 o]|] eqn:Hs; [|discriminate].
    eapply IH; eauto using step_inv.
Qed.

Lemma reachable_inv pol m p tr s : run Fixed pol (init m p) tr = Some s -> inv s.
Proof. intros H. eapply run_inv; eauto using inv_init. Qed.

(** ** exactly one cause per ended generation *)

Lemma reported_once pol m p tr s :
  run Fixed pol (init m p) tr = Some s ->
  forall g, (1 <= g <= gen s)%nat ->
    if Nat.eqb g (gen s) && is_open s then pub s g = [] else exists c, pub s g = [c].
Proof.
  intros Hrun g Hg. destruct (reachable_inv _ _ _ _ _ Hrun) as [Hu Hs Hpo Hpd Hf Hz Hr].
  destruct (Nat.eqb g (gen s)) eqn:E; cbn [andb].
  - apply Nat.eqb_eq in E. subst g. destruct (is_open s) eqn:Ho; auto.
    destruct (Hpd _ Hg) as [[_ Hx]|Hx]; [discriminate|exact Hx].
  - apply Nat.eqb_neq in E. destruct (Hpd _ Hg) as [[Hx _]|Hx]; [contradiction|exact Hx].
Qed.
