(** C14 — lemmas about Model/Processor.v *)
From Coq Require Import ZArith List Bool Lia Permutation.
From FV Require Import Base.Res Base.Bytes Model.Headers Model.ThriftBin Model.Processor.
Import ListNotations.
Open Scope Z_scope.

(** * A complete message is exactly one frame on a framed output, and leaves nothing pending *)
Lemma framed_message s hdrs name mt body :
  f_pending s = [] ->
  framed_run s (message_events hdrs name mt body) =
  mkfs [] (f_sent s ++ [marshal hdrs ++ write_message_begin name mt 0 ++ body]).
Proof.
  intros Hp. unfold message_events, framed_run. cbn [fold_left framed_ev f_pending f_sent].
  rewrite Hp. cbn [app]. reflexivity.
Qed.
