(** C14 — lemmas about Model/Processor.v *)
From Coq Require Import ZArith List Bool Lia Permutation.
From FV Require Import Base.Res Base.Bytes Model.Headers Model.ThriftBin Model.Processor.
Import ListNotations.
Open Scope Z_scope.

(** * A complete message is exactly one frame on a framed output, and leaves nothing pending *)
Lemma framed_message s hdrs name mt body :
  f_pending s = [] ->
  framed_run s (message_events hdrs name mt body) =
  mkfs [] (f_sent s ++ [marshal hdrs ++ write_message_begin name mt 0 ++ body]).
Proof.
  intros Hp. unfold message_events, framed_run. cbn [fold_left framed_ev f_pending f_sent].
  rewrite Hp. cbn [app]. reflexivity.
Qed.

(** * Framed output: the frames already sent are never touched again *)
Lemma framed_run_app s a b : framed_run s (a ++ b) = framed_run (framed_run s a) b.
Proof. unfold framed_run. apply fold_left_app. Qed.

Lemma framed_run_sent_prefix evs : forall p sent,
  framed_run (mkfs p sent) evs =
  mkfs (f_pending (framed_run (mkfs p []) evs)) (sent ++ f_sent (framed_run (mkfs p []) evs)).
Proof.
  induction evs as [|e evs IH]; intros p sent.
  - cbn. rewrite app_nil_r. reflexivity.
  - unfold framed_run in *. cbn [fold_left]. destruct e as [b| |]; cbn [framed_ev f_pending f_sent].
    + apply IH.
    + rewrite IH. rewrite (IH [] ([] ++ [p])). cbn [f_pending f_sent app].
      rewrite <- app_assoc. reflexivity.
    + apply IH.
Qed.

(** the frames a section puts on an output that has nothing pending, and whether it leaves
    nothing pending itself *)
Definition frames_of (evs : list oev) : list bytes := f_sent (framed_run fs0 evs).
Definition closed (evs : list oev) : Prop := f_pending (framed_run fs0 evs) = [].

Lemma framed_run_closed s evs :
  f_pending s = [] -> closed evs ->
  framed_run s evs = mkfs [] (f_sent s ++ frames_of evs).
Proof.
  intros Hp Hc. destruct s as [p sent]. cbn in Hp. subst p.
  rewrite framed_run_sent_prefix. unfold closed, fs0 in Hc. rewrite Hc. reflexivity.
Qed.

Lemma framed_run_concat_closed secs : Forall closed secs ->
  framed_run fs0 (concat secs) = mkfs [] (flat_map frames_of secs).
Proof.
  intros H. assert (G : forall s, f_pending s = [] ->
    framed_run s (concat secs) = mkfs [] (f_sent s ++ flat_map frames_of secs)).
  { induction H as [|sec secs Hc _ IH]; intros s Hp.
    - cbn. rewrite app_nil_r. destruct s; cbn in *; subst; reflexivity.
    - cbn [concat flat_map]. rewrite framed_run_app, (framed_run_closed s sec Hp Hc).
      rewrite IH by reflexivity. cbn [f_sent]. rewrite app_assoc. reflexivity. }
  apply (G fs0). reflexivity.
Qed.

(** * set_nth *)
Lemma set_nth_split {A} (l : list A) : forall i t x, nth_error l i = Some t ->
  exists pre post, l = pre ++ t :: post /\ set_nth i x l = pre ++ x :: post.
Proof.
  induction l as [|y l IH]; intros [|i] t x H; cbn in H; try discriminate.
  - inversion H; subst. exists [], l. split; reflexivity.
  - destruct (IH i t x H) as (pre & post & E1 & E2).
    exists (y :: pre), post. cbn. rewrite <- E1, E2. split; reflexivity.
Qed.

Lemma nth_error_set_nth_eq {A} (l : list A) : forall i t x, nth_error l i = Some t ->
  nth_error (set_nth i x l) i = Some x.
Proof.
  induction l as [|y l IH]; intros [|i] t x H; cbn in *; try discriminate; eauto.
Qed.

Lemma nth_error_set_nth_neq {A} (l : list A) : forall i j x, i <> j ->
  nth_error (set_nth i x l) j = nth_error l j.
Proof.
  induction l as [|y l IH]; intros [|i] [|j] x H; cbn; try reflexivity; try congruence.
  apply IH. congruence.
Qed.

(** * Writers sharing one framed output under the mutex *)
Definition remaining (s : wstate) : list oev :=
  match w_holder s with
  | Some i => match nth_error (w_threads s) i with
              | Some t => match t_cur t with Some es => es | None => [] end
              | None => []
              end
  | None => []
  end.

Record winv (all : list (list oev)) (s : wstate) : Prop := {
  inv_out : framed_run (w_out s) (remaining s) = framed_run fs0 (concat (w_log s));
  inv_holder : forall j t, nth_error (w_threads s) j = Some t -> t_cur t <> None -> w_holder s = Some j;
  inv_perm : Permutation (w_log s ++ concat (map t_todo (w_threads s))) all
}.

Lemma winv_init todos : winv (concat todos) (winit todos).
Proof.
  split.
  - reflexivity.
  - intros j t H C. exfalso. apply C. cbn in H. rewrite nth_error_map in H.
    destruct (nth_error todos j); cbn in H; [inversion H; reflexivity|discriminate].
  - cbn. rewrite map_map. cbn. rewrite map_id. apply Permutation_refl.
Qed.

Lemma map_todo_set_nth l : forall i t c, nth_error l i = Some t ->
  map t_todo (set_nth i (mkth c (t_todo t)) l) = map t_todo l.
Proof.
  intros i t c H. destruct (set_nth_split l i t (mkth c (t_todo t)) H) as (pre & post & E1 & E2).
  rewrite E2, E1, !map_app. reflexivity.
Qed.

Lemma winv_step all s i s' : winv all s -> wstep s i = Some s' -> winv all s'.
Proof.
  intros [Hout Hh Hp] Hs. unfold wstep in Hs.
  destruct (nth_error (w_threads s) i) as [t|] eqn:Ht; [|discriminate].
  destruct (t_cur t) as [[|e es]|] eqn:Hc.
  - (* Unlock *)
    inversion Hs; subst s'; clear Hs.
    assert (Hi : w_holder s = Some i) by (apply (Hh i t Ht); congruence).
    split; cbn [w_holder w_out w_threads w_log].
    + unfold remaining in *. cbn [w_holder]. rewrite Hi, Ht, Hc in Hout. exact Hout.
    + intros j u Hj Cj. destruct (Nat.eq_dec i j) as [->|Hn].
      * rewrite (nth_error_set_nth_eq _ _ _ _ Ht) in Hj. inversion Hj; subst u. cbn in Cj. congruence.
      * rewrite nth_error_set_nth_neq in Hj by exact Hn.
        pose proof (Hh j u Hj Cj) as E. rewrite Hi in E. congruence.
    + rewrite (map_todo_set_nth _ _ _ _ Ht). exact Hp.
  - (* one output event *)
    inversion Hs; subst s'; clear Hs.
    assert (Hi : w_holder s = Some i) by (apply (Hh i t Ht); congruence).
    split; cbn [w_holder w_out w_threads w_log].
    + unfold remaining in *. cbn [w_holder w_threads]. rewrite Hi in *.
      rewrite (nth_error_set_nth_eq _ _ _ _ Ht). cbn [t_cur].
      rewrite Ht, Hc in Hout. exact Hout.
    + intros j u Hj Cj. destruct (Nat.eq_dec i j) as [->|Hn]; [exact Hi|].
      rewrite nth_error_set_nth_neq in Hj by exact Hn. exact (Hh j u Hj Cj).
    + rewrite (map_todo_set_nth _ _ _ _ Ht). exact Hp.
  - (* Lock *)
    destruct (t_todo t) as [|sec rest] eqn:Htd; [discriminate|].
    destruct (w_holder s) as [k|] eqn:Hk; [discriminate|].
    inversion Hs; subst s'; clear Hs.
    split; cbn [w_holder w_out w_threads w_log].
    + unfold remaining in *. cbn [w_holder w_threads]. rewrite Hk in Hout.
      rewrite (nth_error_set_nth_eq _ _ _ _ Ht). cbn [t_cur].
      assert (Ho : w_out s = framed_run fs0 (concat (w_log s))) by exact Hout.
      rewrite concat_app. cbn [concat]. rewrite app_nil_r, framed_run_app, <- Ho. reflexivity.
    + intros j u Hj Cj. destruct (Nat.eq_dec i j) as [->|Hn]; [reflexivity|].
      rewrite nth_error_set_nth_neq in Hj by exact Hn.
      pose proof (Hh j u Hj Cj) as E. discriminate.
    + destruct (set_nth_split _ i t (mkth (Some sec) rest) Ht) as (pre & post & E1 & E2).
      rewrite E2. rewrite E1 in Hp. rewrite !map_app, !concat_app in *. cbn [map concat t_todo] in *.
      rewrite Htd in Hp.
      eapply Permutation_trans; [|exact Hp].
      rewrite <- !app_assoc. apply Permutation_app_head.
      cbn [app].
      change (sec :: concat (map t_todo pre) ++ rest ++ concat (map t_todo post))
        with ([sec] ++ concat (map t_todo pre) ++ rest ++ concat (map t_todo post)).
      rewrite (app_assoc [sec]).
      eapply Permutation_trans; [apply Permutation_app_tail, Permutation_app_comm|].
      rewrite <- app_assoc. apply Permutation_app_head. cbn. apply Permutation_refl.
Qed.

Lemma winv_run all sched : forall s s', winv all s -> wrun s sched = Some s' -> winv all s'.
Proof.
  induction sched as [|i r IH]; intros s s' Hi Hr; cbn in Hr.
  - inversion Hr; subst; exact Hi.
  - destruct (wstep s i) as [s1|] eqn:E; [|discriminate].
    eapply IH; [eapply winv_step; eauto|exact Hr].
Qed.

Lemma all_done_spec s : all_done s = true ->
  (forall j t, nth_error (w_threads s) j = Some t -> t_cur t = None /\ t_todo t = []).
Proof.
  unfold all_done. rewrite forallb_forall. intros H j t Hj.
  apply nth_error_In in Hj. specialize (H t Hj). unfold thread_done in H.
  destruct (t_cur t), (t_todo t); try discriminate. split; reflexivity.
Qed.

Lemma concat_all_nil {A} (l : list (list A)) : (forall x, In x l -> x = []) -> concat l = [].
Proof.
  induction l as [|x l IH]; intros H; [reflexivity|].
  cbn. rewrite (H x (or_introl eq_refl)). apply IH. intros y Hy. apply H. right. exact Hy.
Qed.

(** Whatever the schedule: once every writer is done the shared output is the run of the sections
    in the order the mutex was taken, and that order is a permutation of all sections. *)
Lemma writers_linearised todos sched s :
  wrun (winit todos) sched = Some s -> all_done s = true ->
  w_out s = framed_run fs0 (concat (w_log s)) /\ Permutation (w_log s) (concat todos).
Proof.
  intros Hr Hd. pose proof (winv_run _ _ _ _ (winv_init todos) Hr) as [Hout Hh Hp].
  pose proof (all_done_spec s Hd) as Hall. split.
  - unfold remaining in Hout. destruct (w_holder s) as [i|]; [|exact Hout].
    destruct (nth_error (w_threads s) i) as [t|] eqn:Ht; [|exact Hout].
    destruct (Hall i t Ht) as [Hc _]. rewrite Hc in Hout. exact Hout.
  - assert (E : concat (map t_todo (w_threads s)) = []).
    { apply concat_all_nil. intros x Hx. apply in_map_iff in Hx. destruct Hx as (t & <- & Ht).
      apply In_nth_error in Ht. destruct Ht as [j Hj]. apply (Hall j t Hj). }
    rewrite E, app_nil_r in Hp. exact Hp.
Qed.

Lemma Forall_perm {A} (P : A -> Prop) l l' : Permutation l l' -> Forall P l' -> Forall P l.
Proof. intros Hp H. apply Permutation_sym in Hp. eapply Permutation_Forall; eauto. Qed.

Lemma flat_map_perm {A B} (f : A -> list B) l l' :
  Permutation l l' -> Permutation (flat_map f l) (flat_map f l').
Proof.
  induction 1; cbn.
  - apply Permutation_refl.
  - apply Permutation_app_head. assumption.
  - rewrite !app_assoc. apply Permutation_app_tail. apply Permutation_app_comm.
  - eapply Permutation_trans; eauto.
Qed.

(** ... hence, when every section leaves nothing pending, the shared output holds whole frames only:
    the frames of the sections, section by section, nothing pending. *)
Lemma writers_no_interleaving todos sched s :
  Forall closed (concat todos) ->
  wrun (winit todos) sched = Some s -> all_done s = true ->
  f_pending (w_out s) = [] /\
  f_sent (w_out s) = flat_map frames_of (w_log s) /\
  Permutation (w_log s) (concat todos) /\
  Permutation (f_sent (w_out s)) (flat_map frames_of (concat todos)).
Proof.
  intros Hc Hr Hd. destruct (writers_linearised _ _ _ Hr Hd) as [Ho Hp].
  assert (Hcl : Forall closed (w_log s)) by (eapply Forall_perm; eauto).
  rewrite (framed_run_concat_closed _ Hcl) in Ho. rewrite Ho. cbn [f_pending f_sent].
  repeat split; try assumption. apply flat_map_perm. exact Hp.
Qed.

(** progress: as long as somebody has work left, somebody can take a step (the mutex never wedges) *)
Record winv2 (s : wstate) : Prop := {
  inv2_holder : forall j t, nth_error (w_threads s) j = Some t -> t_cur t <> None -> w_holder s = Some j;
  inv2_held : forall i, w_holder s = Some i -> exists t, nth_error (w_threads s) i = Some t /\ t_cur t <> None
}.

Lemma winv2_init todos : winv2 (winit todos).
Proof.
  split.
  - apply (inv_holder _ _ (winv_init todos)).
  - cbn. discriminate.
Qed.

Lemma winv2_step s i s' : winv2 s -> wstep s i = Some s' -> winv2 s'.
Proof.
  intros [Hh Hheld] Hs. unfold wstep in Hs.
  destruct (nth_error (w_threads s) i) as [t|] eqn:Ht; [|discriminate].
  destruct (t_cur t) as [[|e es]|] eqn:Hc.
  - inversion Hs; subst s'; clear Hs.
    assert (Hi : w_holder s = Some i) by (apply (Hh i t Ht); congruence).
    split; cbn [w_holder w_threads]; [|discriminate].
    intros j u Hj Cj. destruct (Nat.eq_dec i j) as [->|Hn].
    + rewrite (nth_error_set_nth_eq _ _ _ _ Ht) in Hj. inversion Hj; subst u. cbn in Cj. congruence.
    + rewrite nth_error_set_nth_neq in Hj by exact Hn.
      pose proof (Hh j u Hj Cj) as E. rewrite Hi in E. congruence.
  - inversion Hs; subst s'; clear Hs.
    assert (Hi : w_holder s = Some i) by (apply (Hh i t Ht); congruence).
    split; cbn [w_holder w_threads].
    + intros j u Hj Cj. destruct (Nat.eq_dec i j) as [->|Hn]; [exact Hi|].
      rewrite nth_error_set_nth_neq in Hj by exact Hn. exact (Hh j u Hj Cj).
    + intros k Hk. rewrite Hi in Hk. inversion Hk; subst k.
      eexists. split; [apply (nth_error_set_nth_eq _ _ _ _ Ht)|cbn; discriminate].
  - destruct (t_todo t) as [|sec rest] eqn:Htd; [discriminate|].
    destruct (w_holder s) as [k|] eqn:Hk; [discriminate|].
    inversion Hs; subst s'; clear Hs.
    split; cbn [w_holder w_threads].
    + intros j u Hj Cj. destruct (Nat.eq_dec i j) as [->|Hn]; [reflexivity|].
      rewrite nth_error_set_nth_neq in Hj by exact Hn.
      pose proof (Hh j u Hj Cj) as E. discriminate.
    + intros k Hk'. inversion Hk'; subst k.
      eexists. split; [apply (nth_error_set_nth_eq _ _ _ _ Ht)|cbn; discriminate].
Qed.

Lemma winv2_run sched : forall s s', winv2 s -> wrun s sched = Some s' -> winv2 s'.
Proof.
  induction sched as [|i r IH]; intros s s' Hi Hr; cbn in Hr.
  - inversion Hr; subst; exact Hi.
  - destruct (wstep s i) as [s1|] eqn:E; [|discriminate].
    eapply IH; [eapply winv2_step; eauto|exact Hr].
Qed.

Lemma writers_progress todos sched s :
  wrun (winit todos) sched = Some s -> all_done s = false -> exists i s', wstep s i = Some s'.
Proof.
  intros Hr Hd. pose proof (winv2_run _ _ _ (winv2_init todos) Hr) as [Hh Hheld].
  destruct (w_holder s) as [i|] eqn:Hi.
  - destruct (Hheld i eq_refl) as (t & Ht & Hc). exists i. unfold wstep. rewrite Ht.
    destruct (t_cur t) as [[|e es]|]; [eauto|eauto|congruence].
  - unfold all_done in Hd.
    assert (E : exists t, In t (w_threads s) /\ thread_done t = false).
    { clear -Hd. induction (w_threads s) as [|t l IH]; cbn in Hd; [discriminate|].
      destruct (thread_done t) eqn:E; [|exists t; split; [left; reflexivity|exact E]].
      destruct (IH Hd) as (u & Hu & Eu). exists u. split; [right; exact Hu|exact Eu]. }
    destruct E as (t & Hin & Ht). apply In_nth_error in Hin. destruct Hin as [j Hj].
    exists j. unfold wstep. rewrite Hj, Hi. unfold thread_done in Ht.
    destruct (t_cur t) eqn:Hc.
    + exfalso. assert (C : t_cur t <> None) by congruence.
      pose proof (Hh j t Hj C). discriminate.
    + destruct (t_todo t); [discriminate|eauto].
Qed.
