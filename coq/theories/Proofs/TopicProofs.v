(** Lemmas for C08 (Model/Topic.v). *)
From Coq Require Import ZArith List Bool Lia String.
From FV Require Import Model.Topic.
Import ListNotations.
Open Scope Z_scope.

(** ** strings, membership *)
Lemma seqb_refl : forall a, seqb a a = true.
Proof. induction a as [|x a IH]; cbn; [reflexivity|]. rewrite Z.eqb_refl. exact IH. Qed.

Lemma seqb_eq : forall a b, seqb a b = true <-> a = b.
Proof.
  induction a as [|x a IH]; destruct b as [|y b]; cbn; split; intro H; try reflexivity; try discriminate.
  - apply andb_true_iff in H. destruct H as [H1 H2]. apply Z.eqb_eq in H1. apply IH in H2. subst. reflexivity.
  - inversion H; subst. rewrite Z.eqb_refl. apply seqb_refl.
Qed.

Lemma seqb_sym : forall a b, seqb a b = seqb b a.
Proof.
  intros a b. destruct (seqb a b) eqn:E.
  - apply seqb_eq in E. subst. symmetry. apply seqb_refl.
  - destruct (seqb b a) eqn:E2; [|reflexivity]. apply seqb_eq in E2. subst. rewrite seqb_refl in E. discriminate.
Qed.

Lemma mem_app : forall x a b, mem x (a ++ b) = mem x a || mem x b.
Proof. induction a as [|y a IH]; intros b; cbn; [reflexivity|]. rewrite IH. apply orb_assoc. Qed.

Lemma nodupb_app : forall a b, nodupb (a ++ b) = true -> nodupb a = true /\ nodupb b = true.
Proof.
  induction a as [|x a IH]; intros b H; cbn in *; [split; [reflexivity|exact H]|].
  apply andb_true_iff in H. destruct H as [H1 H2]. apply IH in H2. destruct H2 as [Ha Hb].
  rewrite mem_app in H1. apply negb_true_iff in H1. apply orb_false_iff in H1. destruct H1 as [H1 _].
  rewrite H1, Ha. split; [reflexivity|exact Hb].
Qed.

Lemma nodupb_app_notin : forall a b x, nodupb (a ++ b) = true -> mem x a = true -> mem x b = false.
Proof.
  induction a as [|y a IH]; intros b x H Hm; cbn in *; [discriminate|].
  apply andb_true_iff in H. destruct H as [H1 H2].
  apply orb_true_iff in Hm. destruct Hm as [Hm|Hm].
  - apply seqb_eq in Hm. subst y. rewrite mem_app in H1. apply negb_true_iff in H1.
    apply orb_false_iff in H1. tauto.
  - eapply IH; eassumption.
Qed.

(** ** environments *)
Lemma lookup_app_l : forall x e1 e2 v, lookup x e1 = Some v -> lookup x (e1 ++ e2) = Some v.
Proof.
  induction e1 as [|[y w] e1 IH]; intros e2 v H; cbn in *; [discriminate|].
  destruct (seqb x y); [exact H|]. apply IH. exact H.
Qed.

Lemma lookups_skip : forall xs k v en, mem k xs = false -> lookups xs ((k, v) :: en) = lookups xs en.
Proof.
  induction xs as [|x xs IH]; intros k v en H; cbn in *; [reflexivity|].
  apply orb_false_iff in H. destruct H as [H1 H2]. rewrite seqb_sym in H1. rewrite H1.
  rewrite (IH _ _ _ H2). reflexivity.
Qed.

Lemma lookups_combine : forall vars vals rest,
  nodupb vars = true -> List.length vals = List.length vars ->
  lookups vars (combine vars vals ++ rest) = Some vals.
Proof.
  induction vars as [|x vars IH]; intros vals rest Hnd Hlen; destruct vals as [|v vals]; cbn in *; try discriminate; [reflexivity|].
  apply andb_true_iff in Hnd. destruct Hnd as [H1 H2]. apply negb_true_iff in H1.
  rewrite seqb_refl. rewrite (lookups_skip _ _ _ _ H1). rewrite IH; [reflexivity|exact H2|lia].
Qed.

Lemma lookup_notin_combine : forall x vars vals rest,
  mem x vars = false -> lookup x (combine vars vals ++ rest) = lookup x rest.
Proof.
  induction vars as [|y vars IH]; intros vals rest H; cbn in *; [reflexivity|].
  destruct vals as [|v vals]; cbn; [reflexivity|].
  apply orb_false_iff in H. destruct H as [H1 H2]. rewrite H1. apply IH. exact H2.
Qed.

(** ** the prefix scan *)
Lemma render_lits : forall s, render (lits s) = s.
Proof. induction s as [|c s IH]; cbn; [reflexivity|]. unfold lits in IH. rewrite IH. reflexivity. Qed.

Lemma render_app : forall a b, render (a ++ b) = render a ++ render b.
Proof.
  induction a as [|[c|n] a IH]; intros b; cbn; [reflexivity| |]; rewrite IH; [reflexivity|].
  rewrite <- app_assoc. reflexivity.
Qed.

Lemma render_scan : forall s pend,
  render (scan s pend) = match pend with None => [] | Some acc => 123 :: rev acc end ++ s.
Proof.
  induction s as [|c s IH]; intros pend.
  - destruct pend as [acc|]; cbn [scan]; [|reflexivity].
    rewrite render_lits, app_nil_r. reflexivity.
  - destruct pend as [acc|]; cbn [scan].
    + destruct (is_word c) eqn:Hw.
      * rewrite IH. cbn [rev app]. rewrite <- app_assoc. reflexivity.
      * destruct (c =? 125) eqn:H1.
        { apply Z.eqb_eq in H1. subst c. cbn [render]. rewrite IH. cbn [app]. reflexivity. }
        destruct (c =? 123) eqn:H2.
        { apply Z.eqb_eq in H2. subst c. rewrite render_app, render_lits, IH. cbn [app rev]. rewrite <- ?app_assoc. reflexivity. }
        rewrite render_app, render_lits. cbn [render]. rewrite IH. cbn [app]. rewrite <- ?app_assoc. reflexivity.
    + destruct (c =? 123) eqn:H2.
      * apply Z.eqb_eq in H2. subst c. rewrite IH. reflexivity.
      * cbn [render]. rewrite IH. reflexivity.
Qed.

(** ScopePrefix.String is the prefix itself *)
Lemma render_segments : forall p, render (segments p) = p.
Proof. intros p. unfold segments. rewrite render_scan. reflexivity. Qed.

Lemma forallb_render_lits : forall (P : Z -> bool) g,
  forallb P (render g) = true -> forallb P (lits_of g) = true.
Proof.
  induction g as [|[c|n] g IH]; cbn; intro H; [reflexivity| |].
  - apply andb_true_iff in H. destruct H as [H1 H2]. rewrite H1. apply IH. exact H2.
  - apply andb_true_iff in H. destruct H as [_ H]. rewrite forallb_app in H.
    apply andb_true_iff in H. destruct H as [_ H]. cbn in H. apply andb_true_iff in H. apply IH. tauto.
Qed.

Lemma forallb_lits_segments : forall (P : Z -> bool) p,
  forallb P p = true -> forallb P (lits_of (segments p)) = true.
Proof. intros P p H. apply forallb_render_lits. rewrite render_segments. exact H. Qed.

(** every variable the scan finds consists of \w characters *)
Lemma vars_lits : forall s, vars_of (lits s) = [].
Proof. induction s as [|c s IH]; cbn; [reflexivity|exact IH]. Qed.

Lemma vars_of_app : forall a b, vars_of (a ++ b) = vars_of a ++ vars_of b.
Proof. induction a as [|[c|n] a IH]; intros b; cbn; [reflexivity|apply IH|rewrite IH; reflexivity]. Qed.

Lemma scan_vars_word : forall s pend,
  match pend with None => True | Some acc => forallb is_word acc = true end ->
  Forall (fun n => forallb is_word n = true) (vars_of (scan s pend)).
Proof.
  induction s as [|c s IH]; intros pend Hp.
  - destruct pend as [acc|]; cbn [scan]; [|constructor].
    change (lits (123 :: rev acc)) with (Lit 123 :: lits (rev acc)). cbn [vars_of]. rewrite vars_lits. constructor.
  - destruct pend as [acc|]; cbn [scan].
    + destruct (is_word c) eqn:Hw.
      * apply IH. cbn. rewrite Hw. exact Hp.
      * destruct (c =? 125).
        { cbn [vars_of]. constructor; [|apply IH; exact I].
          rewrite forallb_forall in *. intros x Hx. apply Hp. apply in_rev. exact Hx. }
        destruct (c =? 123).
        { rewrite vars_of_app. change (lits (123 :: rev acc)) with (Lit 123 :: lits (rev acc)).
          cbn [vars_of]. rewrite vars_lits. cbn. apply IH. reflexivity. }
        rewrite vars_of_app. change (lits (123 :: rev acc)) with (Lit 123 :: lits (rev acc)).
        cbn [vars_of]. rewrite vars_lits. cbn. apply IH. exact I.
    + destruct (c =? 123); [apply IH; reflexivity|]. cbn [vars_of]. apply IH. exact I.
Qed.

Lemma segments_vars_word : forall p, Forall (fun n => forallb is_word n = true) (vars_of (segments p)).
Proof. intros p. apply scan_vars_word. exact I. Qed.

(** without variables the template is the prefix and nothing is substituted *)
Lemma template_novars : forall r g, vars_of g = [] -> template r g = render g.
Proof. induction g as [|[c|n] g IH]; cbn; intro H; [reflexivity| |discriminate]. rewrite IH; [reflexivity|exact H]. Qed.

Lemma subst_novars : forall g vals, vars_of g = [] -> subst_pos g vals = render g.
Proof. induction g as [|[c|n] g IH]; cbn; intros vals H; [reflexivity| |discriminate]. rewrite IH; [reflexivity|exact H]. Qed.

(** ** strings.Title keeps identifier characters *)
Lemma is_word_upper : forall c, is_lower c = true -> is_word (c - 32) = true.
Proof.
  intros c H. unfold is_lower in H. apply andb_true_iff in H. destruct H as [H1 H2].
  apply Z.leb_le in H1. apply Z.leb_le in H2.
  unfold is_word, is_letter, is_upper.
  replace (65 <=? c - 32) with true by (symmetry; apply Z.leb_le; lia).
  replace (c - 32 <=? 90) with true by (symmetry; apply Z.leb_le; lia). reflexivity.
Qed.

Lemma title_from_word : forall s prev, forallb is_word s = true -> forallb is_word (title_from prev s) = true.
Proof.
  induction s as [|c s IH]; intros prev H; cbn in *; [reflexivity|].
  apply andb_true_iff in H. destruct H as [H1 H2]. rewrite (IH _ H2), andb_true_r.
  destruct (is_sep prev && is_lower c) eqn:E; [|exact H1].
  apply andb_true_iff in E. apply is_word_upper. tauto.
Qed.

Lemma title_word : forall s, forallb is_word s = true -> forallb is_word (title s) = true.
Proof. intros s. apply title_from_word. Qed.

Lemma forallb_impl : forall (P Q : Z -> bool) s,
  (forall c, P c = true -> Q c = true) -> forallb P s = true -> forallb Q s = true.
Proof.
  intros P Q s HPQ H. rewrite forallb_forall in *. intros x Hx. apply HPQ. apply H. exact Hx.
Qed.

Lemma is_word_range : forall c, is_word c = true -> (48 <= c <= 57) \/ (65 <= c <= 90) \/ c = 95 \/ (97 <= c <= 122).
Proof.
  intros c H. unfold is_word, is_letter, is_upper, is_lower, is_digit in H.
  repeat (apply orb_true_iff in H; destruct H as [H|H]);
    try (apply andb_true_iff in H; destruct H as [H1 H2]; apply Z.leb_le in H1; apply Z.leb_le in H2; lia).
  apply Z.eqb_eq in H. lia.
Qed.

Lemma word_lit_char_ok : forall q c, (q = 34 \/ q = 39) -> is_word c = true -> lit_char_ok q c = true.
Proof.
  intros q c Hq H. apply is_word_range in H. unfold lit_char_ok.
  repeat (apply andb_true_iff; split); try apply negb_true_iff; try apply Z.eqb_neq; try apply Z.leb_le; lia.
Qed.

Lemma word_not : forall k c, is_word c = true -> (k = 36 \/ k = 37 \/ k = 123 \/ k = 125) -> negb (c =? k) = true.
Proof. intros k c H Hk. apply is_word_range in H. apply negb_true_iff. apply Z.eqb_neq. lia. Qed.

(** ** the format functions on a template *)
Lemma option_map_app_cons : forall (c : Z) (s : str) (x : option str),
  option_map (cons c) (option_map (app s) x) = option_map (app (c :: s)) x.
Proof. intros c s [x|]; reflexivity. Qed.

Lemma option_map_app_app : forall (a b : str) (x : option str),
  option_map (app a) (option_map (app b) x) = option_map (app (a ++ b)) x.
Proof. intros a b [x|]; cbn; [rewrite app_assoc|]; reflexivity. Qed.

Lemma option_map_app_nil : forall (x : option str), option_map (app []) x = x.
Proof. intros [x|]; reflexivity. Qed.

Lemma no_char_cons : forall k c s, no_char k (c :: s) = true -> (c =? k) = false /\ no_char k s = true.
Proof.
  intros k c s H. unfold no_char in *. cbn in H. apply andb_true_iff in H. destruct H as [H1 H2].
  apply negb_true_iff in H1. split; assumption.
Qed.

Lemma no_char_app : forall k a b, no_char k (a ++ b) = no_char k a && no_char k b.
Proof. intros. unfold no_char. apply forallb_app. Qed.

Section GoJava.
  (** Go's and Java's format function differ only at the end of the format string *)
  Variable F : str -> bool -> list str -> option str.
  Hypothesis F_cons : forall c f vs, (c =? 37) = false -> F (c :: f) false vs = option_map (cons c) (F f false vs).
  Hypothesis F_hole : forall f v vs, F (37 :: 115 :: f) false (v :: vs) = option_map (app v) (F f false vs).

  Lemma F_lit : forall s rest vs, no_char 37 s = true ->
    F (s ++ rest) false vs = option_map (app s) (F rest false vs).
  Proof.
    induction s as [|c s IH]; intros rest vs H; cbn [app].
    - rewrite option_map_app_nil. reflexivity.
    - apply no_char_cons in H. destruct H as [H1 H2]. rewrite F_cons by exact H1.
      rewrite IH by exact H2. apply option_map_app_cons.
  Qed.

  Lemma F_template : forall g vals rest more,
    no_char 37 (lits_of g) = true -> List.length vals = List.length (vars_of g) ->
    F (template pct_s g ++ rest) false (vals ++ more) = option_map (app (subst_pos g vals)) (F rest false more).
  Proof.
    induction g as [|[c|n] g IH]; intros vals rest more Hc Hl; cbn [template subst_pos lits_of vars_of] in *.
    - destruct vals; [|discriminate]. cbn [app]. rewrite option_map_app_nil. reflexivity.
    - apply no_char_cons in Hc. destruct Hc as [H1 H2]. cbn [app]. rewrite F_cons by exact H1.
      rewrite IH by assumption. apply option_map_app_cons.
    - destruct vals as [|v vals]; [discriminate|]. cbn [List.length] in Hl.
      unfold pct_s. cbn [app]. rewrite F_hole. rewrite IH by (try assumption; lia).
      apply option_map_app_app.
  Qed.
End GoJava.

Lemma go_fmt_cons : forall c f vs, (c =? 37) = false -> go_fmt (c :: f) false vs = option_map (cons c) (go_fmt f false vs).
Proof. intros c f vs H. cbn [go_fmt]. rewrite H. reflexivity. Qed.
Lemma go_fmt_hole : forall f v vs, go_fmt (37 :: 115 :: f) false (v :: vs) = option_map (app v) (go_fmt f false vs).
Proof. intros. reflexivity. Qed.
Lemma java_fmt_cons : forall c f vs, (c =? 37) = false -> java_fmt (c :: f) false vs = option_map (cons c) (java_fmt f false vs).
Proof. intros c f vs H. cbn [java_fmt]. rewrite H. reflexivity. Qed.
Lemma java_fmt_hole : forall f v vs, java_fmt (37 :: 115 :: f) false (v :: vs) = option_map (app v) (java_fmt f false vs).
Proof. intros. reflexivity. Qed.

Definition go_fmt_lit := F_lit go_fmt go_fmt_cons.
Definition go_fmt_template := F_template go_fmt go_fmt_cons go_fmt_hole.
Definition java_fmt_lit := F_lit java_fmt java_fmt_cons.
Definition java_fmt_template := F_template java_fmt java_fmt_cons java_fmt_hole.

Lemma py_fmt_cons : forall c f vs, (c =? 123) = false -> (c =? 125) = false ->
  py_fmt (c :: f) 0 vs = option_map (cons c) (py_fmt f 0 vs).
Proof. intros c f vs H1 H2. cbn [py_fmt]. cbn. rewrite H1, H2. reflexivity. Qed.
Lemma py_fmt_hole : forall f v vs, py_fmt (123 :: 125 :: f) 0 (v :: vs) = option_map (app v) (py_fmt f 0 vs).
Proof. intros. reflexivity. Qed.

Lemma py_fmt_lit : forall s rest vs, no_char 123 s = true -> no_char 125 s = true ->
  py_fmt (s ++ rest) 0 vs = option_map (app s) (py_fmt rest 0 vs).
Proof.
  induction s as [|c s IH]; intros rest vs Ha Hb; cbn [app].
  - rewrite option_map_app_nil. reflexivity.
  - apply no_char_cons in Ha. apply no_char_cons in Hb. destruct Ha as [A1 A2]. destruct Hb as [B1 B2].
    rewrite py_fmt_cons by assumption. rewrite IH by assumption. apply option_map_app_cons.
Qed.

Lemma py_fmt_template : forall g vals rest more,
  no_char 123 (lits_of g) = true -> no_char 125 (lits_of g) = true ->
  List.length vals = List.length (vars_of g) ->
  py_fmt (template braces g ++ rest) 0 (vals ++ more) = option_map (app (subst_pos g vals)) (py_fmt rest 0 more).
Proof.
  induction g as [|[c|n] g IH]; intros vals rest more Ha Hb Hl; cbn [template subst_pos lits_of vars_of] in *.
  - destruct vals; [|discriminate]. cbn [app]. rewrite option_map_app_nil. reflexivity.
  - apply no_char_cons in Ha. apply no_char_cons in Hb. destruct Ha as [A1 A2]. destruct Hb as [B1 B2].
    cbn [app]. rewrite py_fmt_cons by assumption. rewrite IH by assumption. apply option_map_app_cons.
  - destruct vals as [|v vals]; [discriminate|]. cbn [List.length] in Hl.
    unfold braces. cbn [app]. rewrite py_fmt_hole. rewrite IH by (try assumption; lia).
    apply option_map_app_app.
Qed.

(** ** literals *)
Lemma unq_ok : forall q r, lit_ok q r = true -> unq q r = Some r.
Proof. intros q r H. unfold unq. rewrite H. reflexivity. Qed.

Lemma lit_ok_app : forall q a b, lit_ok q (a ++ b) = lit_ok q a && lit_ok q b.
Proof. intros. unfold lit_ok. apply forallb_app. Qed.

Lemma lit_ok_template : forall q r g, lit_ok q (lits_of g) = true -> lit_ok q r = true -> lit_ok q (template r g) = true.
Proof.
  induction g as [|[c|n] g IH]; cbn [template lits_of]; intros Hl Hr; [reflexivity| |].
  - unfold lit_ok in *. cbn [forallb] in *. apply andb_true_iff in Hl. destruct Hl as [H1 H2].
    rewrite H1. apply IH; assumption.
  - rewrite lit_ok_app, Hr. apply IH; assumption.
Qed.

Lemma word_lit_ok : forall q s, (q = 34 \/ q = 39) -> forallb is_word s = true -> lit_ok q s = true.
Proof. intros q s Hq H. unfold lit_ok. eapply forallb_impl; [|exact H]. intros c Hc. apply word_lit_char_ok; assumption. Qed.

Lemma word_no_char : forall k s, (k = 36 \/ k = 37 \/ k = 123 \/ k = 125) -> forallb is_word s = true -> no_char k s = true.
Proof. intros k s Hk H. unfold no_char. eapply forallb_impl; [|exact H]. intros c Hc. apply word_not; assumption. Qed.

Lemma name_ok_word : forall s, name_ok s = true -> forallb is_word s = true.
Proof. intros s H. unfold name_ok in H. apply andb_true_iff in H. tauto. Qed.

Lemma segments_nil_vars : forall pfx, pfx = [] -> vars_of (segments pfx) = [].
Proof. intros pfx ->. reflexivity. Qed.

(** the value of the prefix: what the specification prescribes *)
Definition prefix_value (delim pfx : str) (vals : list str) : str :=
  match pfx with [] => [] | _ => subst_pos (segments pfx) vals ++ delim end.

Lemma spec_topic_eq : forall delim sc op pfx vals,
  spec_topic delim sc op pfx vals = prefix_value delim pfx vals ++ title sc ++ delim ++ op.
Proof. reflexivity. Qed.

Section GoJavaPrefix.
  Variable F : str -> bool -> list str -> option str.
  Hypothesis F_cons : forall c f vs, (c =? 37) = false -> F (c :: f) false vs = option_map (cons c) (F f false vs).
  Hypothesis F_hole : forall f v vs, F (37 :: 115 :: f) false (v :: vs) = option_map (app v) (F f false vs).
  Hypothesis F_nil : F [] false [] = Some [].

  Lemma F_plain : forall s, no_char 37 s = true -> F s false [] = Some s.
  Proof.
    intros s H. rewrite <- (app_nil_r s) at 1. rewrite (F_lit F F_cons) by exact H. rewrite F_nil. cbn.
    rewrite app_nil_r. reflexivity.
  Qed.

  Lemma F_prefix : forall delim pfx vals,
    no_char 37 pfx = true -> no_char 37 delim = true ->
    List.length vals = List.length (vars_of (segments pfx)) ->
    F (template pct_s (segments pfx) ++ delim) false vals = Some (subst_pos (segments pfx) vals ++ delim).
  Proof.
    intros delim pfx vals Hp Hd Hl. rewrite <- (app_nil_r vals) at 1.
    rewrite (F_template F F_cons F_hole); [|apply forallb_lits_segments; exact Hp|exact Hl].
    rewrite F_plain by exact Hd. reflexivity.
  Qed.
End GoJavaPrefix.

Lemma go_fmt_nil : go_fmt [] false [] = Some []. Proof. reflexivity. Qed.
Lemma java_fmt_nil : java_fmt [] false [] = Some []. Proof. reflexivity. Qed.

(** evaluation of the prefix statement in Go and Java *)
Lemma eval_prefix_gj : forall l delim pfx vals en,
  (l = Go \/ l = Java) ->
  lit_ok 34 pfx = true -> lit_ok 34 delim = true ->
  (null (vars_of (segments pfx)) || (no_char 37 pfx && no_char 37 delim)) = true ->
  List.length vals = List.length (vars_of (segments pfx)) ->
  lookups (vars_of (segments pfx)) en = Some vals ->
  eval l (prefix_expr pct_s delim pfx (segments pfx)) en = Some (prefix_value delim pfx vals).
Proof.
  intros l delim pfx vals en Hl Hp Hd Hpc Hlen Hlk. unfold prefix_expr, prefix_value.
  destruct (vars_of (segments pfx)) as [|v vs] eqn:V.
  - destruct pfx as [|c p].
    + destruct Hl as [-> | ->]; reflexivity.
    + assert (E : unq 34 ((c :: p) ++ delim) = Some ((c :: p) ++ delim)).
      { apply unq_ok. rewrite lit_ok_app, Hp, Hd. reflexivity. }
      rewrite (subst_novars _ _ V), render_segments.
      destruct Hl as [-> | ->]; cbn [eval]; exact E.
  - cbn [null orb] in Hpc. apply andb_true_iff in Hpc. destruct Hpc as [Hp37 Hd37].
    assert (U : unq 34 (template pct_s (segments pfx) ++ delim) = Some (template pct_s (segments pfx) ++ delim)).
    { apply unq_ok. rewrite lit_ok_app, Hd, andb_true_r. apply lit_ok_template; [|reflexivity].
      apply forallb_lits_segments. exact Hp. }
    assert (NE : pfx <> []). { intro E. rewrite (segments_nil_vars _ E) in V. discriminate. }
    destruct pfx as [|c p]; [contradiction|].
    rewrite <- V in *.
    destruct Hl as [-> | ->]; cbn [eval]; rewrite U, Hlk.
    + apply (F_prefix go_fmt go_fmt_cons go_fmt_hole go_fmt_nil); assumption.
    + apply (F_prefix java_fmt java_fmt_cons java_fmt_hole java_fmt_nil); assumption.
Qed.

(** the topic format call *)
Lemma go_topic_fmt : forall P t delim op,
  no_char 37 t = true -> no_char 37 delim = true ->
  go_fmt (pct_s ++ t ++ delim ++ pct_s) false [P; op] = Some (P ++ t ++ delim ++ op).
Proof.
  intros P t delim op Ht Hd. unfold pct_s at 1. cbn [app]. rewrite go_fmt_hole.
  rewrite go_fmt_lit by exact Ht. rewrite go_fmt_lit by exact Hd.
  unfold pct_s. rewrite go_fmt_hole. cbn. rewrite app_nil_r. reflexivity.
Qed.

Lemma java_topic_fmt : forall P t delim op,
  no_char 37 t = true ->
  java_fmt (pct_s ++ t ++ pct_s ++ pct_s) false [P; delim; op] = Some (P ++ t ++ delim ++ op).
Proof.
  intros P t delim op Ht. unfold pct_s at 1. cbn [app]. rewrite java_fmt_hole.
  rewrite java_fmt_lit by exact Ht. unfold pct_s. cbn [app]. rewrite !java_fmt_hole. cbn.
  rewrite app_nil_r. reflexivity.
Qed.

(** ** assembling the generated method body *)
Lemma run_body_cons : forall l x e b decl en,
  run_body l ((x, e) :: b) decl en =
  match eval l e en with
  | None => None
  | Some v => if mem x decl && negb (redecl_ok l) then None else run_body l b (x :: decl) ((x, v) :: en)
  end.
Proof. reflexivity. Qed.

Lemma parse_prefix_segments : forall pfx g, parse_prefix pfx = Some g -> g = segments pfx.
Proof. intros pfx g H. unfold parse_prefix in H. destruct (forallb ident_ok (vars_of (segments pfx))); congruence. Qed.

Ltac split_and H :=
  repeat match type of H with
         | (_ && _) = true => let H1 := fresh H in apply andb_true_iff in H; destruct H as [H H1]; split_and H1
         end.

Lemma negb_mem_false : forall x l, negb (mem x l) = true -> mem x l = false.
Proof. intros. apply negb_true_iff. assumption. Qed.

Lemma topic_unfold : forall q l sd delim sc op pfx vals pr,
  parse_prefix pfx = Some (segments pfx) ->
  List.length vals = List.length (vars_of (segments pfx)) ->
  params_ok l sd op (vars_of (segments pfx)) = true ->
  emit q l sd delim sc op pfx = Some pr ->
  topic q l sd delim sc op pfx vals = run_prog l sd op pr (vars_of (segments pfx)) vals.
Proof.
  intros q l sd delim sc op pfx vals pr Hp Hl Hk He. unfold topic. rewrite Hp. cbv zeta.
  rewrite Hl, Nat.eqb_refl, Hk, He. reflexivity.
Qed.

Lemma go_matches_spec : forall sd delim sc op pfx g vals,
  parse_prefix pfx = Some g -> List.length vals = List.length (vars_of g) ->
  vars_safe Go sd op (vars_of g) = true -> in_domain Go delim sc op pfx = true ->
  topic fixed Go sd delim sc op pfx vals = Some (spec_topic delim sc op pfx vals).
Proof.
  intros sd delim sc op pfx g vals Hp Hlen Hvs Hdom.
  pose proof (parse_prefix_segments _ _ Hp) as ->.
  unfold vars_safe in Hvs. repeat rewrite andb_true_iff in Hvs. destruct Hvs as [[Hpar Hvs0] [Hvs1 Hvs2]].
  unfold in_domain in Hdom. cbv zeta in Hdom. repeat rewrite andb_true_iff in Hdom.
  destruct Hdom as [[Nsc Nop] [[[Lp Ld] Nd] Nx]].
  apply negb_mem_false in Hvs0, Hvs1, Hvs2.
  pose proof (name_ok_word _ Nsc) as Wsc. pose proof (name_ok_word _ Nop) as Wop.
  pose proof (title_word _ Wsc) as Wt.
  set (vars := vars_of (segments pfx)) in *.
  assert (Hpc : (null vars || (no_char 37 pfx && no_char 37 delim)) = true).
  { destruct (null vars); [reflexivity|]. cbn [orb] in *. rewrite Nx, Nd. reflexivity. }
  assert (Hnd : nodupb vars = true). { unfold params_ok in Hpar. apply nodupb_app in Hpar. tauto. }
  rewrite (topic_unfold fixed Go sd delim sc op pfx vals _ Hp Hlen Hpar eq_refl).
  unfold run_prog. cbn [p_consts p_body run_consts]. fold vars.
  set (en0 := combine vars vals ++ []).
  assert (Hlk : lookups vars en0 = Some vals) by (apply lookups_combine; assumption).
  assert (Uop : unq 34 op = Some op) by (apply unq_ok, word_lit_ok; [left; reflexivity|exact Wop]).
  assert (Ut : unq 34 (pct_s ++ title sc ++ delim ++ pct_s) = Some (pct_s ++ title sc ++ delim ++ pct_s)).
  { apply unq_ok. rewrite !lit_ok_app, Ld. rewrite (word_lit_ok 34 (title sc)) by (auto). reflexivity. }
  assert (T37 : no_char 37 (title sc) = true) by (apply word_no_char; auto).
  rewrite spec_topic_eq.
  destruct sd.
  - (* publisher: prefix, op, topic *)
    assert (M1 : mem n_prefix (fixed_params Go Pub op ++ vars) = false) by (rewrite mem_app, Hvs1; reflexivity).
    assert (M2 : mem n_op (n_prefix :: fixed_params Go Pub op ++ vars) = false).
    { cbn [mem]. rewrite mem_app, Hvs0. reflexivity. }
    assert (M3 : mem n_topic (n_op :: n_prefix :: fixed_params Go Pub op ++ vars) = false).
    { cbn [mem]. rewrite mem_app, Hvs2. reflexivity. }
    rewrite run_body_cons.
    rewrite (eval_prefix_gj Go delim pfx vals en0) by (auto). rewrite M1. cbn [andb].
    rewrite run_body_cons. cbn [eval]. rewrite Uop, M2. cbn [andb].
    rewrite run_body_cons. cbn [eval]. cbn [go_dot fixed]. rewrite Ut.
    replace (lookups [n_prefix; n_op] ((n_op, op) :: (n_prefix, prefix_value delim pfx vals) :: en0))
      with (Some [prefix_value delim pfx vals; op]) by reflexivity.
    rewrite go_topic_fmt by assumption. rewrite M3. cbn [andb run_body]. reflexivity.
  - (* subscriber: op, prefix, topic *)
    assert (M1 : mem n_op (fixed_params Go Sub op ++ vars) = false) by (rewrite mem_app, Hvs0; reflexivity).
    assert (M2 : mem n_prefix (n_op :: fixed_params Go Sub op ++ vars) = false).
    { cbn [mem]. rewrite mem_app, Hvs1. reflexivity. }
    assert (M3 : mem n_topic (n_prefix :: n_op :: fixed_params Go Sub op ++ vars) = false).
    { cbn [mem]. rewrite mem_app, Hvs2. reflexivity. }
    rewrite run_body_cons. cbn [eval]. rewrite Uop, M1. cbn [andb].
    rewrite run_body_cons.
    rewrite (eval_prefix_gj Go delim pfx vals ((n_op, op) :: en0)); auto;
      [|rewrite lookups_skip by exact Hvs0; exact Hlk].
    rewrite M2. cbn [andb].
    rewrite run_body_cons. cbn [eval]. cbn [go_dot fixed]. rewrite Ut.
    replace (lookups [n_prefix; n_op] ((n_prefix, prefix_value delim pfx vals) :: (n_op, op) :: en0))
      with (Some [prefix_value delim pfx vals; op]) by reflexivity.
    rewrite go_topic_fmt by assumption. rewrite M3. cbn [andb run_body]. reflexivity.
Qed.

Lemma lookups3 : forall a b c en va vb vc,
  lookup a en = Some va -> lookup b en = Some vb -> lookup c en = Some vc ->
  lookups [a; b; c] en = Some [va; vb; vc].
Proof. intros. cbn [lookups]. rewrite H, H0, H1. reflexivity. Qed.

Lemma java_matches_spec : forall sd delim sc op pfx g vals,
  parse_prefix pfx = Some g -> List.length vals = List.length (vars_of g) ->
  vars_safe Java sd op (vars_of g) = true -> in_domain Java delim sc op pfx = true ->
  topic fixed Java sd delim sc op pfx vals = Some (spec_topic delim sc op pfx vals).
Proof.
  intros sd delim sc op pfx g vals Hp Hlen Hvs Hdom.
  pose proof (parse_prefix_segments _ _ Hp) as ->.
  unfold vars_safe in Hvs. repeat rewrite andb_true_iff in Hvs. destruct Hvs as [[Hpar Hvs0] [[Hvs1 Hvs2] Hvs3]].
  unfold in_domain in Hdom. cbv zeta in Hdom. repeat rewrite andb_true_iff in Hdom.
  destruct Hdom as [[Nsc Nop] [[Lp Ld] Nx]].
  apply negb_mem_false in Hvs0, Hvs1, Hvs2, Hvs3.
  pose proof (name_ok_word _ Nsc) as Wsc. pose proof (name_ok_word _ Nop) as Wop.
  pose proof (title_word _ Wsc) as Wt.
  set (vars := vars_of (segments pfx)) in *.
  assert (Hnd : nodupb vars = true). { unfold params_ok in Hpar. apply nodupb_app in Hpar. tauto. }
  rewrite (topic_unfold fixed Java sd delim sc op pfx vals _ Hp Hlen Hpar eq_refl).
  unfold run_prog. cbn [p_consts p_body run_consts eval]. rewrite (unq_ok _ _ Ld). fold vars.
  set (en0 := combine vars vals ++ [(n_DELIMITER, delim)]).
  assert (Hlk : lookups vars en0 = Some vals) by (apply lookups_combine; assumption).
  assert (Uop : unq 34 op = Some op) by (apply unq_ok, word_lit_ok; [left; reflexivity|exact Wop]).
  assert (Ut : unq 34 (pct_s ++ title sc ++ pct_s ++ pct_s) = Some (pct_s ++ title sc ++ pct_s ++ pct_s)).
  { apply unq_ok. rewrite !lit_ok_app. rewrite (word_lit_ok 34 (title sc)) by (auto). reflexivity. }
  assert (T37 : no_char 37 (title sc) = true) by (apply word_no_char; auto).
  assert (Fx : mem n_op (fixed_params Java sd op) = false /\ mem n_prefix (fixed_params Java sd op) = false
               /\ mem n_topic (fixed_params Java sd op) = false) by (destruct sd; repeat split; reflexivity).
  destruct Fx as [F1 [F2 F3]].
  assert (M1 : mem n_op (fixed_params Java sd op ++ vars) = false) by (rewrite mem_app, Hvs0, F1; reflexivity).
  assert (M2 : mem n_prefix (n_op :: fixed_params Java sd op ++ vars) = false).
  { cbn [mem]. rewrite mem_app, Hvs1, F2. reflexivity. }
  assert (M3 : mem n_topic (n_prefix :: n_op :: fixed_params Java sd op ++ vars) = false).
  { cbn [mem]. rewrite mem_app, Hvs2, F3. reflexivity. }
  rewrite spec_topic_eq.
  rewrite run_body_cons. cbn [eval]. rewrite Uop, M1. cbn [andb].
  rewrite run_body_cons.
  rewrite (eval_prefix_gj Java delim pfx vals ((n_op, op) :: en0)); auto;
    [|rewrite lookups_skip by exact Hvs0; exact Hlk].
  rewrite M2. cbn [andb].
  rewrite run_body_cons. cbn [eval]. rewrite Ut.
  rewrite (lookups3 n_prefix n_DELIMITER n_op _ (prefix_value delim pfx vals) delim op);
    [|reflexivity| |reflexivity].
  - rewrite java_topic_fmt by assumption. rewrite M3. cbn [andb run_body]. reflexivity.
  - change (lookup n_DELIMITER en0 = Some delim). unfold en0.
    rewrite lookup_notin_combine by exact Hvs3. reflexivity.
Qed.

(** Python *)
Lemma py_fmt_plain : forall s, no_char 123 s = true -> no_char 125 s = true -> py_fmt s 0 [] = Some s.
Proof.
  intros s Ha Hb. rewrite <- (app_nil_r s) at 1. rewrite py_fmt_lit by assumption. cbn. rewrite app_nil_r. reflexivity.
Qed.

Lemma eval_prefix_py : forall delim pfx vals en,
  lit_ok 39 pfx = true -> lit_ok 39 delim = true ->
  (null (vars_of (segments pfx)) ||
   (no_char 123 (lits_of (segments pfx)) && no_char 125 (lits_of (segments pfx)) &&
    no_char 123 delim && no_char 125 delim)) = true ->
  List.length vals = List.length (vars_of (segments pfx)) ->
  lookups (vars_of (segments pfx)) en = Some vals ->
  eval Py (prefix_expr braces delim pfx (segments pfx)) en = Some (prefix_value delim pfx vals).
Proof.
  intros delim pfx vals en Hp Hd Hpc Hlen Hlk. unfold prefix_expr, prefix_value.
  destruct (vars_of (segments pfx)) as [|v vs] eqn:V.
  - destruct pfx as [|c p]; [reflexivity|].
    rewrite (subst_novars _ _ V), render_segments. cbn [eval]. apply unq_ok.
    rewrite lit_ok_app, Hp, Hd. reflexivity.
  - cbn [null orb] in Hpc. repeat rewrite andb_true_iff in Hpc. destruct Hpc as [[[A B] C] D].
    assert (U : unq 39 (template braces (segments pfx) ++ delim) = Some (template braces (segments pfx) ++ delim)).
    { apply unq_ok. rewrite lit_ok_app, Hd, andb_true_r. apply lit_ok_template; [|reflexivity].
      apply forallb_lits_segments. exact Hp. }
    assert (NE : pfx <> []). { intro E. rewrite (segments_nil_vars _ E) in V. discriminate. }
    destruct pfx as [|c p]; [contradiction|].
    rewrite <- V in *. cbn [eval]. rewrite U, Hlk.
    rewrite <- (app_nil_r vals) at 1. rewrite py_fmt_template by assumption.
    rewrite py_fmt_plain by assumption. reflexivity.
Qed.

Lemma py_topic_fmt : forall P t delim op,
  no_char 123 t = true -> no_char 125 t = true ->
  py_fmt (braces ++ t ++ braces ++ braces) 0 [P; delim; op] = Some (P ++ t ++ delim ++ op).
Proof.
  intros P t delim op Ha Hb. unfold braces at 1. cbn [app]. rewrite py_fmt_hole.
  rewrite py_fmt_lit by assumption. unfold braces. cbn [app]. rewrite !py_fmt_hole. cbn.
  rewrite app_nil_r. reflexivity.
Qed.

Lemma py_matches_spec : forall sd delim sc op pfx g vals,
  parse_prefix pfx = Some g -> List.length vals = List.length (vars_of g) ->
  vars_safe Py sd op (vars_of g) = true -> in_domain Py delim sc op pfx = true ->
  topic fixed Py sd delim sc op pfx vals = Some (spec_topic delim sc op pfx vals).
Proof.
  intros sd delim sc op pfx g vals Hp Hlen Hvs Hdom.
  pose proof (parse_prefix_segments _ _ Hp) as ->.
  unfold vars_safe in Hvs. repeat rewrite andb_true_iff in Hvs. destruct Hvs as [[Hpar Hvs0] Hvs3].
  unfold in_domain in Hdom. cbv zeta in Hdom. repeat rewrite andb_true_iff in Hdom.
  destruct Hdom as [[Nsc Nop] [[Lp Ld] Nx]].
  apply negb_mem_false in Hvs0, Hvs3.
  pose proof (name_ok_word _ Nsc) as Wsc. pose proof (name_ok_word _ Nop) as Wop.
  pose proof (title_word _ Wsc) as Wt.
  set (vars := vars_of (segments pfx)) in *.
  assert (Hnd : nodupb vars = true). { unfold params_ok in Hpar. apply nodupb_app in Hpar. tauto. }
  rewrite (topic_unfold fixed Py sd delim sc op pfx vals _ Hp Hlen Hpar eq_refl).
  unfold run_prog. cbn [p_consts p_body run_consts eval]. rewrite (unq_ok _ _ Ld). fold vars.
  set (en0 := combine vars vals ++ [(n_self_DELIMITER, delim)]).
  assert (Hlk : lookups vars en0 = Some vals) by (apply lookups_combine; assumption).
  assert (Uop : unq 39 op = Some op) by (apply unq_ok, word_lit_ok; [right; reflexivity|exact Wop]).
  assert (Ut : unq 39 (braces ++ title sc ++ braces ++ braces) = Some (braces ++ title sc ++ braces ++ braces)).
  { apply unq_ok. rewrite !lit_ok_app. rewrite (word_lit_ok 39 (title sc)) by (auto). reflexivity. }
  rewrite spec_topic_eq.
  rewrite run_body_cons. cbn [eval]. rewrite Uop. cbn [redecl_ok negb]. rewrite andb_false_r.
  rewrite run_body_cons.
  rewrite (eval_prefix_py delim pfx vals ((n_op, op) :: en0)); auto;
    [|rewrite lookups_skip by exact Hvs0; exact Hlk].
  rewrite andb_false_r.
  rewrite run_body_cons. cbn [eval py_raw fixed]. rewrite Ut.
  rewrite (lookups3 n_prefix n_self_DELIMITER n_op _ (prefix_value delim pfx vals) delim op);
    [|reflexivity| |reflexivity].
  - rewrite py_topic_fmt by (apply word_no_char; auto). rewrite andb_false_r. cbn [run_body]. reflexivity.
  - change (lookup n_self_DELIMITER en0 = Some delim). unfold en0.
    rewrite lookup_notin_combine by exact Hvs3. reflexivity.
Qed.

(** ** Dart *)
Definition dlit_ok (c : Z) : bool := lit_char_ok 39 c && negb (c =? 36).
Definition tail_ok (T : str) : Prop := match T with [] => True | c :: _ => is_word c = false end.

Lemma dart_lit : forall s T en, forallb dlit_ok s = true ->
  dart_run (s ++ T) DN en = option_map (app s) (dart_run T DN en).
Proof.
  induction s as [|c s IH]; intros T en H; cbn [app].
  - rewrite option_map_app_nil. reflexivity.
  - cbn [forallb] in H. apply andb_true_iff in H. destruct H as [H1 H2].
    unfold dlit_ok in H1. apply andb_true_iff in H1. destruct H1 as [H1 H3]. apply negb_true_iff in H3.
    cbn [dart_run]. rewrite H3, H1. rewrite IH by exact H2. apply option_map_app_cons.
Qed.

Lemma dart_DI : forall n acc T en, forallb is_word n = true -> tail_ok T ->
  dart_run (n ++ T) (DI acc) en =
  match lookup (rev acc ++ n) en, dart_run T DN en with Some v, Some r => Some (v ++ r) | _, _ => None end.
Proof.
  induction n as [|c n IH]; intros acc T en Hn HT; cbn [app].
  - rewrite app_nil_r. destruct T as [|c r].
    + cbn [dart_run]. destruct (lookup (rev acc) en); [rewrite app_nil_r|]; reflexivity.
    + cbn in HT. cbn [dart_run]. rewrite HT. reflexivity.
  - cbn [forallb] in Hn. apply andb_true_iff in Hn. destruct Hn as [H1 H2].
    cbn [dart_run]. rewrite H1. rewrite IH by assumption. cbn [rev]. rewrite <- app_assoc. reflexivity.
Qed.

Lemma ident_start_not_brace : forall c, is_ident_start c = true -> (c =? 123) = false.
Proof.
  intros c H. destruct (c =? 123) eqn:E; [|reflexivity]. apply Z.eqb_eq in E. subst c. discriminate.
Qed.

Lemma dart_var : forall c0 n T en, is_ident_start c0 = true -> forallb is_word n = true -> tail_ok T ->
  dart_run (36 :: (c0 :: n) ++ T) DN en =
  match lookup (c0 :: n) en, dart_run T DN en with Some v, Some r => Some (v ++ r) | _, _ => None end.
Proof.
  intros c0 n T en H0 Hn HT. cbn [app dart_run]. rewrite Z.eqb_refl.
  rewrite (ident_start_not_brace _ H0), H0. rewrite dart_DI by assumption. reflexivity.
Qed.

Lemma dart_brace : forall n acc T en, forallb is_word n = true ->
  dart_run (n ++ 125 :: T) (DB acc) en =
  match lookup (rev acc ++ n) en, dart_run T DN en with Some v, Some r => Some (v ++ r) | _, _ => None end.
Proof.
  induction n as [|c n IH]; intros acc T en Hn; cbn [app].
  - rewrite app_nil_r. reflexivity.
  - cbn [forallb] in Hn. apply andb_true_iff in Hn. destruct Hn as [H1 H2].
    cbn [dart_run]. assert (E : (c =? 125) = false).
    { pose proof (word_not 125 c H1) as W. apply negb_true_iff. apply W. auto. }
    rewrite E, H1. rewrite IH by assumption. cbn [rev]. rewrite <- app_assoc. reflexivity.
Qed.

Lemma ident_ok_shape : forall n, ident_ok n = true -> forallb is_word n = true ->
  exists c0 n', n = c0 :: n' /\ is_ident_start c0 = true /\ forallb is_word n' = true.
Proof.
  intros n H W. destruct n as [|c0 [|c1 n']]; try discriminate.
  exists c0, (c1 :: n'). split; [reflexivity|]. cbn [ident_ok] in H. apply andb_true_iff in H.
  destruct H as [H _]. split.
  - unfold is_ident_start. rewrite H. reflexivity.
  - cbn [forallb] in W. apply andb_true_iff in W. tauto.
Qed.

Lemma dart_args_length : forall g T, List.length (dart_args g T) = List.length (vars_of g).
Proof.
  induction g as [|[c|n] g IH]; intros T; cbn [dart_args vars_of List.length]; auto.
Qed.

Lemma dart_braced_run : forall n T en, forallb is_word n = true ->
  dart_run (dart_braced n ++ T) DN en =
  match lookup n en, dart_run T DN en with Some v, Some r => Some (v ++ r) | _, _ => None end.
Proof.
  intros n T en Hn. unfold dart_braced.
  change ((36 :: 123 :: n ++ [125]) ++ T) with (36 :: 123 :: ((n ++ [125]) ++ T)).
  rewrite <- app_assoc. cbn [app].
  change (dart_run (36 :: 123 :: n ++ 125 :: T) DN en) with (dart_run (n ++ 125 :: T) (DB []) en).
  rewrite dart_brace by exact Hn. reflexivity.
Qed.

(** each variable is emitted as $name when what follows in the literal is not an identifier
    character, as ${name} otherwise: either way it evaluates to the variable's value *)
Lemma dart_template : forall g vals T en,
  forallb dlit_ok (lits_of g) = true ->
  forallb ident_ok (vars_of g) = true ->
  Forall (fun n => forallb is_word n = true) (vars_of g) ->
  lookups (vars_of g) en = Some vals ->
  dart_run (subst_pos g (dart_args g T) ++ T) DN en
  = option_map (app (subst_pos g vals)) (dart_run T DN en).
Proof.
  induction g as [|[c|n] g IH]; intros vals T en Hl Hi Hw Hlk; cbn [subst_pos vars_of lits_of dart_args] in *.
  - cbn [app]. rewrite option_map_app_nil. reflexivity.
  - cbn [forallb] in Hl. apply andb_true_iff in Hl. destruct Hl as [L1 L2].
    change ((c :: subst_pos g (dart_args g T)) ++ T) with ([c] ++ (subst_pos g (dart_args g T) ++ T)).
    rewrite dart_lit by (cbn; rewrite L1; reflexivity).
    rewrite (IH vals T en) by assumption. apply option_map_app_cons.
  - cbn [forallb] in Hi. apply andb_true_iff in Hi. destruct Hi as [I1 I2].
    inversion Hw as [|? ? W1 W2]; subst.
    cbn [lookups] in Hlk. destruct (lookup n en) as [v|] eqn:Ln; [|discriminate].
    destruct (lookups (vars_of g) en) as [vs|] eqn:Lv; [|discriminate].
    inversion Hlk; subst vals. clear Hlk.
    set (nw := match g with
               | Lit c :: _ => is_word c
               | Var _ :: _ => false
               | [] => match T with c :: _ => is_word c | [] => false end
               end).
    destruct nw eqn:Enw.
    + rewrite <- app_assoc. rewrite dart_braced_run by exact W1.
      rewrite Ln. rewrite (IH vs T en) by assumption.
      destruct (dart_run T DN en); cbn; [rewrite app_assoc|]; reflexivity.
    + destruct (ident_ok_shape n I1 W1) as [c0 [n' [-> [S0 Wn']]]].
      unfold dollar. rewrite <- app_assoc.
      change ((36 :: c0 :: n') ++ subst_pos g (dart_args g T) ++ T)
        with (36 :: (c0 :: n') ++ (subst_pos g (dart_args g T) ++ T)).
      rewrite dart_var; [|exact S0|exact Wn'|].
      * rewrite Ln. rewrite (IH vs T en) by assumption.
        destruct (dart_run T DN en); cbn; [rewrite app_assoc|]; reflexivity.
      * subst nw. destruct g as [|[c|m] g']; cbn [subst_pos vars_of dart_args app tail_ok].
        -- destruct T; [exact I|]. exact Enw.
        -- exact Enw.
        -- destruct (match g' with Lit c :: _ => is_word c | Var _ :: _ => false
                                 | [] => match T with c :: _ => is_word c | [] => false end end);
             reflexivity.
Qed.

Lemma dart_prefix_value : forall delim pfx vals en,
  forallb ident_ok (vars_of (segments pfx)) = true ->
  lit_ok 39 pfx = true -> lit_ok 39 delim = true -> no_char 36 pfx = true -> no_char 36 delim = true ->
  (null (vars_of (segments pfx)) || (no_char 37 pfx && no_char 37 delim)) = true ->
  lookups (vars_of (segments pfx)) en = Some vals ->
  exists praw, dart_prefix_raw delim pfx (segments pfx) = Some praw /\
               dart_run praw DN en = Some (prefix_value delim pfx vals).
Proof.
  intros delim pfx vals en Hi Lp Ld Dp Dd Hpc Hlk.
  assert (DL : forall s, lit_ok 39 s = true -> no_char 36 s = true -> forallb dlit_ok s = true).
  { intros s A B. unfold lit_ok, no_char in *. rewrite forallb_forall in *. intros x Hx. unfold dlit_ok.
    rewrite (A x Hx), (B x Hx). reflexivity. }
  assert (Rd : dart_run delim DN en = Some delim).
  { rewrite <- (app_nil_r delim) at 1. rewrite dart_lit by (apply DL; assumption). cbn. rewrite app_nil_r. reflexivity. }
  unfold dart_prefix_raw, prefix_value. destruct pfx as [|c p]; [exists []; split; reflexivity|].
  set (pfx := c :: p) in *. set (g := segments pfx) in *.
  assert (R : dart_run (subst_pos g (dart_args g delim) ++ delim) DN en = Some (subst_pos g vals ++ delim)).
  { rewrite (dart_template g vals delim en); try assumption.
    - rewrite Rd. reflexivity.
    - apply forallb_lits_segments. apply DL; assumption.
    - apply segments_vars_word. }
  destruct (vars_of g) as [|v vs] eqn:V.
  - exists (template pct_s g ++ delim). split; [reflexivity|].
    rewrite (template_novars _ _ V). rewrite (subst_novars g (dart_args g delim) V) in R. exact R.
  - cbn [null orb] in Hpc. apply andb_true_iff in Hpc. destruct Hpc as [P37 D37].
    exists (subst_pos g (dart_args g delim) ++ delim). split; [|exact R].
    apply (F_prefix go_fmt go_fmt_cons go_fmt_hole go_fmt_nil); try assumption.
    fold g. rewrite dart_args_length, V. reflexivity.
Qed.

Lemma dart_topic_lit : forall t P delim op en,
  forallb is_word t = true ->
  lookup n_prefix en = Some P -> lookup n_delimiter en = Some delim -> lookup n_op en = Some op ->
  dart_run (lit "${prefix}" ++ t ++ lit "$delimiter$op") DN en = Some (P ++ t ++ delim ++ op).
Proof.
  intros t P delim op en Wt L1 L2 L3.
  change (lit "${prefix}" ++ t ++ lit "$delimiter$op")
    with (36 :: 123 :: (n_prefix ++ 125 :: (t ++ (36 :: n_delimiter ++ (36 :: n_op ++ []))))).
  change (dart_run (36 :: 123 :: (n_prefix ++ 125 :: (t ++ (36 :: n_delimiter ++ (36 :: n_op ++ []))))) DN en)
    with (dart_run (n_prefix ++ 125 :: (t ++ (36 :: n_delimiter ++ (36 :: n_op ++ [])))) (DB []) en).
  rewrite dart_brace by reflexivity. cbn [rev app]. rewrite L1.
  rewrite dart_lit.
  2:{ eapply forallb_impl; [|exact Wt]. intros c Hc. unfold dlit_ok.
      rewrite (word_lit_char_ok 39 c) by auto. rewrite (word_not 36 c) by auto. reflexivity. }
  unfold n_delimiter at 1. rewrite dart_var; [|reflexivity|reflexivity|reflexivity].
  fold n_delimiter. rewrite L2.
  unfold n_op at 1. rewrite dart_var; [|reflexivity|reflexivity|exact I].
  fold n_op. rewrite L3. cbn. rewrite !app_nil_r. reflexivity.
Qed.

Lemma parse_prefix_idents : forall pfx g, parse_prefix pfx = Some g -> forallb ident_ok (vars_of (segments pfx)) = true.
Proof. intros pfx g H. unfold parse_prefix in H. destruct (forallb ident_ok (vars_of (segments pfx))); congruence. Qed.

Lemma dart_matches_spec : forall sd delim sc op pfx g vals,
  parse_prefix pfx = Some g -> List.length vals = List.length (vars_of g) ->
  vars_safe Dart sd op (vars_of g) = true -> in_domain Dart delim sc op pfx = true ->
  topic fixed Dart sd delim sc op pfx vals = Some (spec_topic delim sc op pfx vals).
Proof.
  intros sd delim sc op pfx g vals Hp Hlen Hvs Hdom.
  pose proof (parse_prefix_idents _ _ Hp) as Hid.
  pose proof (parse_prefix_segments _ _ Hp) as ->.
  unfold vars_safe in Hvs. repeat rewrite andb_true_iff in Hvs. destruct Hvs as [[Hpar Hvs0] [[Hvs1 Hvs2] Hvs3]].
  unfold in_domain in Hdom. cbv zeta in Hdom. repeat rewrite andb_true_iff in Hdom.
  destruct Hdom as [[Nsc Nop] [[[[Lp Ld] Dp] Dd] Nx]].
  apply negb_mem_false in Hvs0, Hvs1, Hvs2, Hvs3.
  pose proof (name_ok_word _ Nsc) as Wsc. pose proof (name_ok_word _ Nop) as Wop.
  pose proof (title_word _ Wsc) as Wt.
  set (vars := vars_of (segments pfx)) in *.
  assert (Hnd : nodupb vars = true). { unfold params_ok in Hpar. apply nodupb_app in Hpar. tauto. }
  set (en0 := combine vars vals ++ [(n_delimiter, delim)]).
  assert (Hlk : lookups vars en0 = Some vals) by (apply lookups_combine; assumption).
  assert (Hlk' : lookups vars ((n_op, op) :: en0) = Some vals) by (rewrite lookups_skip by exact Hvs0; exact Hlk).
  destruct (dart_prefix_value delim pfx vals ((n_op, op) :: en0) Hid Lp Ld Dp Dd Nx Hlk') as [praw [Eraw Rraw]].
  assert (DLd : forallb dlit_ok delim = true).
  { unfold lit_ok, no_char in *. rewrite forallb_forall in *. intros x Hx. unfold dlit_ok.
    rewrite (Ld x Hx), (Dd x Hx). reflexivity. }
  assert (DLop : forallb dlit_ok op = true).
  { eapply forallb_impl; [|exact Wop]. intros c Hc. unfold dlit_ok.
    rewrite (word_lit_char_ok 39 c) by auto. rewrite (word_not 36 c) by auto. reflexivity. }
  assert (Rl : forall s en, forallb dlit_ok s = true -> dart_run s DN en = Some s).
  { intros s en H. rewrite <- (app_nil_r s) at 1. rewrite dart_lit by exact H. cbn. rewrite app_nil_r. reflexivity. }
  assert (He : emit fixed Dart sd delim sc op pfx =
               Some {| p_consts := [(n_delimiter, ELit delim)];
                       p_body := [(n_op, ELit op); (n_prefix, ELit praw);
                                  (n_topic, ELit (lit "${prefix}" ++ title sc ++ lit "$delimiter$op"))] |}).
  { unfold emit. cbv zeta. rewrite Eraw. reflexivity. }
  rewrite (topic_unfold fixed Dart sd delim sc op pfx vals _ Hp Hlen Hpar He).
  unfold run_prog. cbn [p_consts p_body run_consts eval]. rewrite (Rl delim [] DLd). fold vars. fold en0.
  assert (Fx : mem n_op (fixed_params Dart sd op) = false /\ mem n_prefix (fixed_params Dart sd op) = false
               /\ mem n_topic (fixed_params Dart sd op) = false) by (destruct sd; repeat split; reflexivity).
  destruct Fx as [F1 [F2 F3]].
  assert (M1 : mem n_op (fixed_params Dart sd op ++ vars) = false) by (rewrite mem_app, Hvs0, F1; reflexivity).
  assert (M2 : mem n_prefix (n_op :: fixed_params Dart sd op ++ vars) = false).
  { cbn [mem]. rewrite mem_app, Hvs1, F2. reflexivity. }
  assert (M3 : mem n_topic (n_prefix :: n_op :: fixed_params Dart sd op ++ vars) = false).
  { cbn [mem]. rewrite mem_app, Hvs2, F3. reflexivity. }
  rewrite spec_topic_eq.
  rewrite run_body_cons. cbn [eval]. rewrite (Rl op en0 DLop), M1. cbn [andb].
  rewrite run_body_cons. cbn [eval]. rewrite Rraw, M2. cbn [andb].
  rewrite run_body_cons. cbn [eval].
  rewrite (dart_topic_lit (title sc) (prefix_value delim pfx vals) delim op); [|exact Wt|reflexivity| |reflexivity].
  - rewrite M3. cbn [andb run_body]. reflexivity.
  - change (lookup n_delimiter en0 = Some delim). unfold en0.
    rewrite lookup_notin_combine by exact Hvs3. reflexivity.
Qed.

(** ** the property *)
Theorem matches_spec : forall l sd delim sc op pfx g vals,
  parse_prefix pfx = Some g -> List.length vals = List.length (vars_of g) ->
  vars_safe l sd op (vars_of g) = true -> in_domain l delim sc op pfx = true ->
  topic fixed l sd delim sc op pfx vals = Some (spec_topic delim sc op pfx vals).
Proof.
  intros [] sd; [apply go_matches_spec|apply java_matches_spec|apply dart_matches_spec|apply py_matches_spec].
Qed.

Theorem pub_eq_sub : forall l delim sc op pfx g vals,
  parse_prefix pfx = Some g -> List.length vals = List.length (vars_of g) ->
  vars_safe l Pub op (vars_of g) = true -> vars_safe l Sub op (vars_of g) = true ->
  in_domain l delim sc op pfx = true ->
  exists t, topic fixed l Pub delim sc op pfx vals = Some t /\ topic fixed l Sub delim sc op pfx vals = Some t.
Proof.
  intros l delim sc op pfx g vals Hp Hl Hv1 Hv2 Hd. exists (spec_topic delim sc op pfx vals).
  split; eapply matches_spec; eassumption.
Qed.

Theorem all_languages_equal : forall l1 sd1 l2 sd2 delim sc op pfx g vals,
  parse_prefix pfx = Some g -> List.length vals = List.length (vars_of g) ->
  vars_safe l1 sd1 op (vars_of g) = true -> in_domain l1 delim sc op pfx = true ->
  vars_safe l2 sd2 op (vars_of g) = true -> in_domain l2 delim sc op pfx = true ->
  exists t, topic fixed l1 sd1 delim sc op pfx vals = Some t /\ topic fixed l2 sd2 delim sc op pfx vals = Some t.
Proof.
  intros l1 sd1 l2 sd2 delim sc op pfx g vals Hp Hl Hv1 Hd1 Hv2 Hd2. exists (spec_topic delim sc op pfx vals).
  split; eapply matches_spec; eassumption.
Qed.

(** publisher and subscriber are generated from the same statements, for EVERY input *)
Theorem emitted_pub_sub_same : forall q l delim sc op pfx,
  match emit q l Pub delim sc op pfx, emit q l Sub delim sc op pfx with
  | Some a, Some b => p_consts a = p_consts b /\
                      forall s, In s (p_body a) <-> In s (p_body b)
  | None, None => True
  | _, _ => False
  end.
Proof.
  intros q [] delim sc op pfx; cbn [emit]; cbv zeta.
  - split; [reflexivity|]. intros x. cbn [p_body In]. tauto.
  - split; [reflexivity|]. intros x. tauto.
  - destruct (dart_prefix_raw delim pfx (segments pfx)); [|exact I]. split; [reflexivity|]. intros x. tauto.
  - split; [reflexivity|]. intros x. tauto.
Qed.

(** substituting every variable by its own text gives the prefix back: the specification
    replaces the variables and nothing else *)
Lemma subst_self : forall g, subst_pos g (map (fun n => 123 :: n ++ [125]) (vars_of g)) = render g.
Proof.
  induction g as [|[c|n] g IH]; cbn [subst_pos vars_of map render]; [reflexivity| |].
  - rewrite IH. reflexivity.
  - rewrite IH. cbn [app]. rewrite <- app_assoc. reflexivity.
Qed.

Theorem subst_identity : forall pfx,
  subst_pos (segments pfx) (map (fun n => 123 :: n ++ [125]) (vars_of (segments pfx))) = pfx.
Proof. intros pfx. rewrite subst_self. apply render_segments. Qed.

(** ** the two defects of the pinned generators, on the README's own example *)
Lemma pinned_go_ignores_delim :
  exists delim sc op pfx vals t1 t2,
    in_domain Go delim sc op pfx = true /\ in_domain Java delim sc op pfx = true /\
    topic pinned Go Pub delim sc op pfx vals = Some t1 /\
    topic pinned Java Sub delim sc op pfx vals = Some t2 /\ t1 <> t2.
Proof.
  exists (lit "/"), (lit "Events"), (lit "EventCreated"), (lit "foo.{user}"), [lit "bill"].
  eexists. eexists. repeat split; try (vm_compute; reflexivity). vm_compute. discriminate.
Qed.

Lemma pinned_python_case_differs :
  exists delim sc op pfx vals t1 t2,
    in_domain Py delim sc op pfx = true /\ in_domain Java delim sc op pfx = true /\
    topic pinned Py Pub delim sc op pfx vals = Some t1 /\
    topic pinned Java Sub delim sc op pfx vals = Some t2 /\ t1 <> t2.
Proof.
  exists (lit "."), (lit "events"), (lit "created"), [], [].
  eexists. eexists. repeat split; try (vm_compute; reflexivity). vm_compute. discriminate.
Qed.

(** ** the side conditions are needed: what each template does with its metacharacters *)
Lemma metachar_witnesses :
  (* Go / Java: '%' in a prefix with variables is a format verb *)
  topic fixed Go Pub (lit ".") (lit "Events") (lit "created") (lit "100%%.{user}") [lit "bob"]
    = Some (lit "100%.bob.Events.created")
  /\ spec_topic (lit ".") (lit "Events") (lit "created") (lit "100%%.{user}") [lit "bob"]
    = lit "100%%.bob.Events.created"
  /\ topic fixed Java Sub (lit ".") (lit "Events") (lit "created") (lit "100%%.{user}") [lit "bob"]
    = Some (lit "100%.bob.Events.created")
  (* ... and with a single '%' the call leaves the modelled fragment (Go prints %!.(string=bob)) *)
  /\ topic fixed Go Pub (lit ".") (lit "Events") (lit "created") (lit "100%.{user}") [lit "bob"] = None
  (* Dart: '$' in a prefix interpolates *)
  /\ topic fixed Dart Pub (lit ".") (lit "Events") (lit "created") (lit "a$user.{user}") [lit "bob"]
    = Some (lit "abob.bob.Events.created")
  (* Dart: a delimiter that continues the identifier after a trailing variable: ${user}_ *)
  /\ topic fixed Dart Pub (lit "_") (lit "Events") (lit "created") (lit "foo.{user}") [lit "bob"]
    = Some (lit "foo.bob_Events_created")
  /\ topic fixed Go Pub (lit "_") (lit "Events") (lit "created") (lit "foo.{user}") [lit "bob"]
    = Some (lit "foo.bob_Events_created")
  (* Python: a brace token that is not a variable, next to a variable, breaks str.format *)
  /\ topic fixed Py Pub (lit ".") (lit "Events") (lit "created") (lit "{a-b}.{user}") [lit "bob"] = None
  /\ topic fixed Java Pub (lit ".") (lit "Events") (lit "created") (lit "{a-b}.{user}") [lit "bob"]
    = Some (lit "{a-b}.bob.Events.created")
  (* Python: a prefix variable called op is silently replaced by the operation name;
     in Go the same scope does not compile *)
  /\ topic fixed Py Pub (lit ".") (lit "Events") (lit "created") (lit "{op}") [lit "bob"]
    = Some (lit "created.Events.created")
  /\ topic fixed Go Pub (lit ".") (lit "Events") (lit "created") (lit "{op}") [lit "bob"] = None.
Proof. repeat split; vm_compute; reflexivity. Qed.

(** ** publisher and subscriber agree whenever both are defined — no side condition on the
    prefix, the delimiter or the names, pinned or repaired generators *)
Lemma run_body_decl_indep : forall l b d1 d2 en e1 e2,
  run_body l b d1 en = Some e1 -> run_body l b d2 en = Some e2 -> e1 = e2.
Proof.
  induction b as [|[x e] b IH]; intros d1 d2 en e1 e2 H1 H2.
  - cbn in *. congruence.
  - rewrite run_body_cons in H1, H2. destruct (eval l e en) as [v|]; [|discriminate].
    destruct (mem x d1 && negb (redecl_ok l)); [discriminate|].
    destruct (mem x d2 && negb (redecl_ok l)); [discriminate|].
    eapply IH; eassumption.
Qed.

Lemma eval_prefix_env : forall h delim pfx g en en',
  lookups (vars_of g) en = lookups (vars_of g) en' ->
  eval Go (prefix_expr h delim pfx g) en = eval Go (prefix_expr h delim pfx g) en'.
Proof.
  intros h delim pfx g en en' H. unfold prefix_expr. destruct (vars_of g) as [|v vs] eqn:V.
  - destruct pfx; reflexivity.
  - cbn [eval]. rewrite H. reflexivity.
Qed.

Theorem pub_sub_agree_when_defined : forall q l delim sc op pfx vals a b,
  topic q l Pub delim sc op pfx vals = Some a ->
  topic q l Sub delim sc op pfx vals = Some b -> a = b.
Proof.
  intros q l delim sc op pfx vals a b Ha Hb. unfold topic in Ha, Hb.
  destruct (parse_prefix pfx) as [g|] eqn:PP0; [|discriminate]. cbv zeta in Ha, Hb.
  apply parse_prefix_segments in PP0. subst g.
  destruct (negb (Nat.eqb (List.length (vars_of (segments pfx))) (List.length vals))); [discriminate|].
  destruct (negb (params_ok l Pub op (vars_of (segments pfx)))); [discriminate|].
  destruct (negb (params_ok l Sub op (vars_of (segments pfx)))); [discriminate|].
  destruct l.
  - (* Go *)
    cbn [emit] in Ha, Hb. cbv zeta in Ha, Hb. unfold run_prog in Ha, Hb.
    cbn [p_consts p_body run_consts] in Ha, Hb.
    set (en0 := combine (vars_of (segments pfx)) vals ++ []) in *.
    set (ps := prefix_expr pct_s delim pfx (segments pfx)) in *.
    set (te := EFmt (pct_s ++ title sc ++ (if go_dot q then [46] else delim) ++ pct_s) [n_prefix; n_op]) in *.
    (* publisher: prefix, op, topic *)
    rewrite run_body_cons in Ha. cbn [redecl_ok negb] in Ha. rewrite andb_true_r in Ha.
    destruct (eval Go ps en0) as [P|] eqn:EP; [|discriminate].
    destruct (mem n_prefix (fixed_params Go Pub op ++ vars_of (segments pfx))); [discriminate|].
    rewrite run_body_cons in Ha. cbn [redecl_ok negb eval] in Ha. rewrite andb_true_r in Ha.
    destruct (unq 34 op) as [o|] eqn:EO; [|discriminate].
    destruct (mem n_op (n_prefix :: fixed_params Go Pub op ++ vars_of (segments pfx))) eqn:MO; [discriminate|].
    assert (MV : mem n_op (vars_of (segments pfx)) = false).
    { cbn [mem] in MO. apply orb_false_iff in MO. destruct MO as [_ MO]. rewrite mem_app in MO.
      apply orb_false_iff in MO. tauto. }
    rewrite run_body_cons in Ha. cbn [redecl_ok negb] in Ha. rewrite andb_true_r in Ha.
    unfold te in Ha. cbn [eval] in Ha.
    replace (lookups [n_prefix; n_op] ((n_op, o) :: (n_prefix, P) :: en0)) with (Some [P; o]) in Ha by reflexivity.
    (* subscriber: op, prefix, topic *)
    rewrite run_body_cons in Hb. cbn [redecl_ok negb eval] in Hb. rewrite andb_true_r in Hb. rewrite EO in Hb.
    destruct (mem n_op (fixed_params Go Sub op ++ vars_of (segments pfx))); [discriminate|].
    rewrite run_body_cons in Hb. cbn [redecl_ok negb] in Hb. rewrite andb_true_r in Hb.
    assert (PP : eval Go ps ((n_op, o) :: en0) = Some P).
    { rewrite <- EP. unfold ps. apply eval_prefix_env. apply lookups_skip. exact MV. }
    rewrite PP in Hb.
    destruct (mem n_prefix (n_op :: fixed_params Go Sub op ++ vars_of (segments pfx))); [discriminate|].
    rewrite run_body_cons in Hb. cbn [redecl_ok negb] in Hb. rewrite andb_true_r in Hb.
    unfold te in Hb. cbn [eval] in Hb.
    replace (lookups [n_prefix; n_op] ((n_prefix, P) :: (n_op, o) :: en0)) with (Some [P; o]) in Hb by reflexivity.
    destruct (match unq 34 (pct_s ++ title sc ++ (if go_dot q then [46] else delim) ++ pct_s) with
              | Some f => go_fmt f false [P; o] | None => None end) as [T|]; [|discriminate].
    destruct (mem n_topic (n_op :: n_prefix :: fixed_params Go Pub op ++ vars_of (segments pfx))); [discriminate|].
    destruct (mem n_topic (n_prefix :: n_op :: fixed_params Go Sub op ++ vars_of (segments pfx))); [discriminate|].
    cbn [run_body] in Ha, Hb.
    replace (lookup n_topic ((n_topic, T) :: (n_op, o) :: (n_prefix, P) :: en0)) with (Some T) in Ha by reflexivity.
    replace (lookup n_topic ((n_topic, T) :: (n_prefix, P) :: (n_op, o) :: en0)) with (Some T) in Hb by reflexivity.
    congruence.
  - cbn [emit] in Ha, Hb. cbv zeta in Ha, Hb. unfold run_prog in Ha, Hb. cbn [p_consts p_body] in Ha, Hb.
    destruct (run_consts Java [(n_DELIMITER, ELit delim)]) as [cs|]; [|discriminate].
    match type of Ha with context [run_body Java ?b ?d ?e] => destruct (run_body Java b d e) as [e1|] eqn:E1; [|discriminate] end.
    match type of Hb with context [run_body Java ?b ?d ?e] => destruct (run_body Java b d e) as [e2|] eqn:E2; [|discriminate] end.
    rewrite (run_body_decl_indep _ _ _ _ _ _ _ E1 E2) in Ha. congruence.
  - cbn [emit] in Ha, Hb. cbv zeta in Ha, Hb.
    destruct (dart_prefix_raw delim pfx (segments pfx)) as [pr|]; [|discriminate].
    unfold run_prog in Ha, Hb. cbn [p_consts p_body] in Ha, Hb.
    destruct (run_consts Dart [(n_delimiter, ELit delim)]) as [cs|]; [|discriminate].
    match type of Ha with context [run_body Dart ?b ?d ?e] => destruct (run_body Dart b d e) as [e1|] eqn:E1; [|discriminate] end.
    match type of Hb with context [run_body Dart ?b ?d ?e] => destruct (run_body Dart b d e) as [e2|] eqn:E2; [|discriminate] end.
    rewrite (run_body_decl_indep _ _ _ _ _ _ _ E1 E2) in Ha. congruence.
  - cbn [emit] in Ha, Hb. cbv zeta in Ha, Hb. unfold run_prog in Ha, Hb. cbn [p_consts p_body] in Ha, Hb.
    destruct (run_consts Py [(n_self_DELIMITER, ELit delim)]) as [cs|]; [|discriminate].
    match type of Ha with context [run_body Py ?b ?d ?e] => destruct (run_body Py b d e) as [e1|] eqn:E1; [|discriminate] end.
    match type of Hb with context [run_body Py ?b ?d ?e] => destruct (run_body Py b d e) as [e2|] eqn:E2; [|discriminate] end.
    rewrite (run_body_decl_indep _ _ _ _ _ _ _ E1 E2) in Ha. congruence.
Qed.

(** was known finding C08-dart-delim-after-variable (repaired): a delimiter that starts with an
    identifier character directly after a trailing prefix variable; Dart now emits ${user}_ and
    uses the specified topic like Go (and Java, Python) *)
Lemma dart_delim_after_variable_ok :
  exists delim sc op pfx vals,
    in_domain Go delim sc op pfx = true /\ in_domain Java delim sc op pfx = true /\
    in_domain Py delim sc op pfx = true /\ in_domain Dart delim sc op pfx = true /\
    dart_follow (segments pfx) delim = false /\
    vars_safe Dart Pub op (vars_of (segments pfx)) = true /\
    topic fixed Go Pub delim sc op pfx vals = Some (spec_topic delim sc op pfx vals) /\
    topic fixed Dart Pub delim sc op pfx vals = Some (spec_topic delim sc op pfx vals) /\
    topic fixed Dart Sub delim sc op pfx vals = Some (spec_topic delim sc op pfx vals).
Proof.
  exists (lit "_"), (lit "Events"), (lit "created"), (lit "foo.{user}"), [lit "bob"].
  repeat split; vm_compute; reflexivity.
Qed.

(** the prefix statement as emitted before the repair ([dart_prefix_raw_pinned]: always $name) for
    the same input reads 'foo.$user_': with user bound (and user_ not) it has no value *)
Lemma dart_delim_after_variable_pinned :
  exists delim pfx praw v,
    dart_prefix_raw_pinned delim pfx (segments pfx) = Some praw /\
    praw = lit "foo.$user_" /\
    dart_run praw DN [(lit "user", v)] = None /\
    dart_prefix_raw delim pfx (segments pfx) = Some (lit "foo.${user}_") /\
    dart_run (lit "foo.${user}_") DN [(lit "user", v)] = Some (lit "foo." ++ v ++ lit "_").
Proof.
  exists (lit "_"), (lit "foo.{user}"), (lit "foo.$user_"), (lit "bob").
  repeat split; vm_compute; reflexivity.
Qed.

(** where no variable is followed by an identifier character ([dart_follow]) the emitted prefix
    statement is the one the generator emitted before the repair *)
Lemma dart_args_follow : forall g T, dart_follow g T = true -> dart_args g T = map dollar (vars_of g).
Proof.
  induction g as [|[c|n] g IH]; intros T H; cbn [dart_follow dart_args vars_of map] in *; auto.
  apply andb_true_iff in H. destruct H as [H1 H2]. rewrite (IH T H2). f_equal.
  destruct g as [|[c|m] g']; [destruct T as [|c T']| |]; try reflexivity;
    apply negb_true_iff in H1; rewrite H1; reflexivity.
Qed.

Lemma dart_prefix_raw_unchanged : forall delim pfx,
  dart_follow (segments pfx) delim = true ->
  dart_prefix_raw delim pfx (segments pfx) = dart_prefix_raw_pinned delim pfx (segments pfx).
Proof.
  intros delim pfx H. unfold dart_prefix_raw, dart_prefix_raw_pinned.
  destruct pfx as [|c p]; [reflexivity|]. rewrite (dart_args_follow _ _ H).
  destruct (vars_of (segments (c :: p))); reflexivity.
Qed.
