(** Lemmas for C08 (Model/Topic.v). *)
From Coq Require Import ZArith List Bool Lia String.
From FV Require Import Model.Topic.
Import ListNotations.
Open Scope Z_scope.

(** ** the two defects of the pinned generators, on the README's own example *)
Lemma pinned_go_ignores_delim :
  exists delim sc op pfx vals t1 t2,
    in_domain Go delim sc op pfx = true /\ in_domain Java delim sc op pfx = true /\
    topic pinned Go Pub delim sc op pfx vals = Some t1 /\
    topic pinned Java Sub delim sc op pfx vals = Some t2 /\ t1 <> t2.
Proof.
  exists (lit "/"), (lit "Events"), (lit "EventCreated"), (lit "foo.{user}"), [lit "bill"].
  eexists. eexists. repeat split; try (vm_compute; reflexivity). vm_compute. discriminate.
Qed.

Lemma pinned_python_case_differs :
  exists delim sc op pfx vals t1 t2,
    in_domain Py delim sc op pfx = true /\ in_domain Java delim sc op pfx = true /\
    topic pinned Py Pub delim sc op pfx vals = Some t1 /\
    topic pinned Java Sub delim sc op pfx vals = Some t2 /\ t1 <> t2.
Proof.
  exists (lit "."), (lit "events"), (lit "created"), [], [].
  eexists. eexists. repeat split; try (vm_compute; reflexivity). vm_compute. discriminate.
Qed.
