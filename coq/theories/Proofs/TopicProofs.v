(** Lemmas for C08 (Model/Topic.v). *)
From Coq Require Import ZArith List Bool Lia String.
From FV Require Import Model.Topic.
Import ListNotations.
Open Scope Z_scope.

(** ** strings, membership *)
Lemma seqb_refl : forall a, seqb a a = true.
Proof. induction a as [|x a IH]; cbn; [reflexivity|]. rewrite Z.eqb_refl. exact IH. Qed.

Lemma seqb_eq : forall a b, seqb a b = true <-> a = b.
Proof.
  induction a as [|x a IH]; destruct b as [|y b]; cbn; split; intro H; try reflexivity; try discriminate.
  - apply andb_true_iff in H. destruct H as [H1 H2]. apply Z.eqb_eq in H1. apply IH in H2. subst. reflexivity.
  - inversion H; subst. rewrite Z.eqb_refl. apply seqb_refl.
Qed.

Lemma seqb_sym : forall a b, seqb a b = seqb b a.
Proof.
  intros a b. destruct (seqb a b) eqn:E.
  - apply seqb_eq in E. subst. symmetry. apply seqb_refl.
  - destruct (seqb b a) eqn:E2; [|reflexivity]. apply seqb_eq in E2. subst. rewrite seqb_refl in E. discriminate.
Qed.

Lemma mem_app : forall x a b, mem x (a ++ b) = mem x a || mem x b.
Proof. induction a as [|y a IH]; intros b; cbn; [reflexivity|]. rewrite IH. apply orb_assoc. Qed.

Lemma nodupb_app : forall a b, nodupb (a ++ b) = true -> nodupb a = true /\ nodupb b = true.
Proof.
  induction a as [|x a IH]; intros b H; cbn in *; [split; [reflexivity|exact H]|].
  apply andb_true_iff in H. destruct H as [H1 H2]. apply IH in H2. destruct H2 as [Ha Hb].
  rewrite mem_app in H1. apply negb_true_iff in H1. apply orb_false_iff in H1. destruct H1 as [H1 _].
  rewrite H1, Ha. split; [reflexivity|exact Hb].
Qed.

Lemma nodupb_app_notin : forall a b x, nodupb (a ++ b) = true -> mem x a = true -> mem x b = false.
Proof.
  induction a as [|y a IH]; intros b x H Hm; cbn in *; [discriminate|].
  apply andb_true_iff in H. destruct H as [H1 H2].
  apply orb_true_iff in Hm. destruct Hm as [Hm|Hm].
  - apply seqb_eq in Hm. subst y. rewrite mem_app in H1. apply negb_true_iff in H1.
    apply orb_false_iff in H1. tauto.
  - eapply IH; eassumption.
Qed.

(** ** environments *)
Lemma lookup_app_l : forall x e1 e2 v, lookup x e1 = Some v -> lookup x (e1 ++ e2) = Some v.
Proof.
  induction e1 as [|[y w] e1 IH]; intros e2 v H; cbn in *; [discriminate|].
  destruct (seqb x y); [exact H|]. apply IH. exact H.
Qed.

Lemma lookups_skip : forall xs k v en, mem k xs = false -> lookups xs ((k, v) :: en) = lookups xs en.
Proof.
  induction xs as [|x xs IH]; intros k v en H; cbn in *; [reflexivity|].
  apply orb_false_iff in H. destruct H as [H1 H2]. rewrite seqb_sym in H1. rewrite H1.
  rewrite (IH _ _ _ H2). reflexivity.
Qed.

Lemma lookups_combine : forall vars vals rest,
  nodupb vars = true -> List.length vals = List.length vars ->
  lookups vars (combine vars vals ++ rest) = Some vals.
Proof.
  induction vars as [|x vars IH]; intros vals rest Hnd Hlen; destruct vals as [|v vals]; cbn in *; try discriminate; [reflexivity|].
  apply andb_true_iff in Hnd. destruct Hnd as [H1 H2]. apply negb_true_iff in H1.
  rewrite seqb_refl. rewrite (lookups_skip _ _ _ _ H1). rewrite IH; [reflexivity|exact H2|lia].
Qed.

Lemma lookup_notin_combine : forall x vars vals rest,
  mem x vars = false -> lookup x (combine vars vals ++ rest) = lookup x rest.
Proof.
  induction vars as [|y vars IH]; intros vals rest H; cbn in *; [reflexivity|].
  destruct vals as [|v vals]; cbn; [reflexivity|].
  apply orb_false_iff in H. destruct H as [H1 H2]. rewrite H1. apply IH. exact H2.
Qed.

(** ** the prefix scan *)
Lemma render_lits : forall s, render (lits s) = s.
Proof. induction s as [|c s IH]; cbn; [reflexivity|]. unfold lits in IH. rewrite IH. reflexivity. Qed.

Lemma render_app : forall a b, render (a ++ b) = render a ++ render b.
Proof.
  induction a as [|[c|n] a IH]; intros b; cbn; [reflexivity| |]; rewrite IH; [reflexivity|].
  rewrite <- app_assoc. reflexivity.
Qed.

Lemma render_scan : forall s pend,
  render (scan s pend) = match pend with None => [] | Some acc => 123 :: rev acc end ++ s.
Proof.
  induction s as [|c s IH]; intros pend.
  - destruct pend as [acc|]; cbn [scan]; [|reflexivity].
    rewrite render_lits, app_nil_r. reflexivity.
  - destruct pend as [acc|]; cbn [scan].
    + destruct (is_word c) eqn:Hw.
      * rewrite IH. cbn [rev app]. rewrite <- app_assoc. reflexivity.
      * destruct (c =? 125) eqn:H1.
        { apply Z.eqb_eq in H1. subst c. cbn [render]. rewrite IH. cbn [app]. reflexivity. }
        destruct (c =? 123) eqn:H2.
        { apply Z.eqb_eq in H2. subst c. rewrite render_app, render_lits, IH. cbn [app rev]. rewrite <- ?app_assoc. reflexivity. }
        rewrite render_app, render_lits. cbn [render]. rewrite IH. cbn [app]. rewrite <- ?app_assoc. reflexivity.
    + destruct (c =? 123) eqn:H2.
      * apply Z.eqb_eq in H2. subst c. rewrite IH. reflexivity.
      * cbn [render]. rewrite IH. reflexivity.
Qed.

(** ScopePrefix.String is the prefix itself *)
Lemma render_segments : forall p, render (segments p) = p.
Proof. intros p. unfold segments. rewrite render_scan. reflexivity. Qed.

Lemma forallb_render_lits : forall (P : Z -> bool) g,
  forallb P (render g) = true -> forallb P (lits_of g) = true.
Proof.
  induction g as [|[c|n] g IH]; cbn; intro H; [reflexivity| |].
  - apply andb_true_iff in H. destruct H as [H1 H2]. rewrite H1. apply IH. exact H2.
  - apply andb_true_iff in H. destruct H as [_ H]. rewrite forallb_app in H.
    apply andb_true_iff in H. destruct H as [_ H]. cbn in H. apply andb_true_iff in H. apply IH. tauto.
Qed.

Lemma forallb_lits_segments : forall (P : Z -> bool) p,
  forallb P p = true -> forallb P (lits_of (segments p)) = true.
Proof. intros P p H. apply forallb_render_lits. rewrite render_segments. exact H. Qed.

(** every variable the scan finds consists of \w characters *)
Lemma vars_lits : forall s, vars_of (lits s) = [].
Proof. induction s as [|c s IH]; cbn; [reflexivity|exact IH]. Qed.

Lemma vars_of_app : forall a b, vars_of (a ++ b) = vars_of a ++ vars_of b.
Proof. induction a as [|[c|n] a IH]; intros b; cbn; [reflexivity|apply IH|rewrite IH; reflexivity]. Qed.

Lemma scan_vars_word : forall s pend,
  match pend with None => True | Some acc => forallb is_word acc = true end ->
  Forall (fun n => forallb is_word n = true) (vars_of (scan s pend)).
Proof.
  induction s as [|c s IH]; intros pend Hp.
  - destruct pend as [acc|]; cbn [scan]; [|constructor].
    change (lits (123 :: rev acc)) with (Lit 123 :: lits (rev acc)). cbn [vars_of]. rewrite vars_lits. constructor.
  - destruct pend as [acc|]; cbn [scan].
    + destruct (is_word c) eqn:Hw.
      * apply IH. cbn. rewrite Hw. exact Hp.
      * destruct (c =? 125).
        { cbn [vars_of]. constructor; [|apply IH; exact I].
          rewrite forallb_forall in *. intros x Hx. apply Hp. apply in_rev. exact Hx. }
        destruct (c =? 123).
        { rewrite vars_of_app. change (lits (123 :: rev acc)) with (Lit 123 :: lits (rev acc)).
          cbn [vars_of]. rewrite vars_lits. cbn. apply IH. reflexivity. }
        rewrite vars_of_app. change (lits (123 :: rev acc)) with (Lit 123 :: lits (rev acc)).
        cbn [vars_of]. rewrite vars_lits. cbn. apply IH. exact I.
    + destruct (c =? 123); [apply IH; reflexivity|]. cbn [vars_of]. apply IH. exact I.
Qed.

Lemma segments_vars_word : forall p, Forall (fun n => forallb is_word n = true) (vars_of (segments p)).
Proof. intros p. apply scan_vars_word. exact I. Qed.

(** without variables the template is the prefix and nothing is substituted *)
Lemma template_novars : forall r g, vars_of g = [] -> template r g = render g.
Proof. induction g as [|[c|n] g IH]; cbn; intro H; [reflexivity| |discriminate]. rewrite IH; [reflexivity|exact H]. Qed.

Lemma subst_novars : forall g vals, vars_of g = [] -> subst_pos g vals = render g.
Proof. induction g as [|[c|n] g IH]; cbn; intros vals H; [reflexivity| |discriminate]. rewrite IH; [reflexivity|exact H]. Qed.

(** ** strings.Title keeps identifier characters *)
Lemma is_word_upper : forall c, is_lower c = true -> is_word (c - 32) = true.
Proof.
  intros c H. unfold is_lower in H. apply andb_true_iff in H. destruct H as [H1 H2].
  apply Z.leb_le in H1. apply Z.leb_le in H2.
  unfold is_word, is_letter, is_upper.
  replace (65 <=? c - 32) with true by (symmetry; apply Z.leb_le; lia).
  replace (c - 32 <=? 90) with true by (symmetry; apply Z.leb_le; lia). reflexivity.
Qed.

Lemma title_from_word : forall s prev, forallb is_word s = true -> forallb is_word (title_from prev s) = true.
Proof.
  induction s as [|c s IH]; intros prev H; cbn in *; [reflexivity|].
  apply andb_true_iff in H. destruct H as [H1 H2]. rewrite (IH _ H2), andb_true_r.
  destruct (is_sep prev && is_lower c) eqn:E; [|exact H1].
  apply andb_true_iff in E. apply is_word_upper. tauto.
Qed.

Lemma title_word : forall s, forallb is_word s = true -> forallb is_word (title s) = true.
Proof. intros s. apply title_from_word. Qed.

Lemma forallb_impl : forall (P Q : Z -> bool) s,
  (forall c, P c = true -> Q c = true) -> forallb P s = true -> forallb Q s = true.
Proof.
  intros P Q s HPQ H. rewrite forallb_forall in *. intros x Hx. apply HPQ. apply H. exact Hx.
Qed.

Lemma is_word_range : forall c, is_word c = true -> (48 <= c <= 57) \/ (65 <= c <= 90) \/ c = 95 \/ (97 <= c <= 122).
Proof.
  intros c H. unfold is_word, is_letter, is_upper, is_lower, is_digit in H.
  repeat (apply orb_true_iff in H; destruct H as [H|H]);
    try (apply andb_true_iff in H; destruct H as [H1 H2]; apply Z.leb_le in H1; apply Z.leb_le in H2; lia).
  apply Z.eqb_eq in H. lia.
Qed.

Lemma word_lit_char_ok : forall q c, (q = 34 \/ q = 39) -> is_word c = true -> lit_char_ok q c = true.
Proof.
  intros q c Hq H. apply is_word_range in H. unfold lit_char_ok.
  repeat (apply andb_true_iff; split); try apply negb_true_iff; try apply Z.eqb_neq; try apply Z.leb_le; lia.
Qed.

Lemma word_not : forall k c, is_word c = true -> (k = 36 \/ k = 37 \/ k = 123 \/ k = 125) -> negb (c =? k) = true.
Proof. intros k c H Hk. apply is_word_range in H. apply negb_true_iff. apply Z.eqb_neq. lia. Qed.

(** ** the format functions on a template *)
Lemma option_map_app_cons : forall (c : Z) (s : str) (x : option str),
  option_map (cons c) (option_map (app s) x) = option_map (app (c :: s)) x.
Proof. intros c s [x|]; reflexivity. Qed.

Lemma option_map_app_app : forall (a b : str) (x : option str),
  option_map (app a) (option_map (app b) x) = option_map (app (a ++ b)) x.
Proof. intros a b [x|]; cbn; [rewrite app_assoc|]; reflexivity. Qed.

Lemma option_map_app_nil : forall (x : option str), option_map (app []) x = x.
Proof. intros [x|]; reflexivity. Qed.

Lemma no_char_cons : forall k c s, no_char k (c :: s) = true -> (c =? k) = false /\ no_char k s = true.
Proof.
  intros k c s H. unfold no_char in *. cbn in H. apply andb_true_iff in H. destruct H as [H1 H2].
  apply negb_true_iff in H1. split; assumption.
Qed.

Lemma no_char_app : forall k a b, no_char k (a ++ b) = no_char k a && no_char k b.
Proof. intros. unfold no_char. apply forallb_app. Qed.

Section GoJava.
  (** Go's and Java's format function differ only at the end of the format string *)
  Variable F : str -> bool -> list str -> option str.
  Hypothesis F_cons : forall c f vs, (c =? 37) = false -> F (c :: f) false vs = option_map (cons c) (F f false vs).
  Hypothesis F_hole : forall f v vs, F (37 :: 115 :: f) false (v :: vs) = option_map (app v) (F f false vs).

  Lemma F_lit : forall s rest vs, no_char 37 s = true ->
    F (s ++ rest) false vs = option_map (app s) (F rest false vs).
  Proof.
    induction s as [|c s IH]; intros rest vs H; cbn [app].
    - rewrite option_map_app_nil. reflexivity.
    - apply no_char_cons in H. destruct H as [H1 H2]. rewrite F_cons by exact H1.
      rewrite IH by exact H2. apply option_map_app_cons.
  Qed.

  Lemma F_template : forall g vals rest more,
    no_char 37 (lits_of g) = true -> List.length vals = List.length (vars_of g) ->
    F (template pct_s g ++ rest) false (vals ++ more) = option_map (app (subst_pos g vals)) (F rest false more).
  Proof.
    induction g as [|[c|n] g IH]; intros vals rest more Hc Hl; cbn [template subst_pos lits_of vars_of] in *.
    - destruct vals; [|discriminate]. cbn [app]. rewrite option_map_app_nil. reflexivity.
    - apply no_char_cons in Hc. destruct Hc as [H1 H2]. cbn [app]. rewrite F_cons by exact H1.
      rewrite IH by assumption. apply option_map_app_cons.
    - destruct vals as [|v vals]; [discriminate|]. cbn [List.length] in Hl.
      unfold pct_s. cbn [app]. rewrite F_hole. rewrite IH by (try assumption; lia).
      apply option_map_app_app.
  Qed.
End GoJava.

Lemma go_fmt_cons : forall c f vs, (c =? 37) = false -> go_fmt (c :: f) false vs = option_map (cons c) (go_fmt f false vs).
Proof. intros c f vs H. cbn [go_fmt]. rewrite H. reflexivity. Qed.
Lemma go_fmt_hole : forall f v vs, go_fmt (37 :: 115 :: f) false (v :: vs) = option_map (app v) (go_fmt f false vs).
Proof. intros. reflexivity. Qed.
Lemma java_fmt_cons : forall c f vs, (c =? 37) = false -> java_fmt (c :: f) false vs = option_map (cons c) (java_fmt f false vs).
Proof. intros c f vs H. cbn [java_fmt]. rewrite H. reflexivity. Qed.
Lemma java_fmt_hole : forall f v vs, java_fmt (37 :: 115 :: f) false (v :: vs) = option_map (app v) (java_fmt f false vs).
Proof. intros. reflexivity. Qed.

Definition go_fmt_lit := F_lit go_fmt go_fmt_cons.
Definition go_fmt_template := F_template go_fmt go_fmt_cons go_fmt_hole.
Definition java_fmt_lit := F_lit java_fmt java_fmt_cons.
Definition java_fmt_template := F_template java_fmt java_fmt_cons java_fmt_hole.

Lemma py_fmt_cons : forall c f vs, (c =? 123) = false -> (c =? 125) = false ->
  py_fmt (c :: f) 0 vs = option_map (cons c) (py_fmt f 0 vs).
Proof. intros c f vs H1 H2. cbn [py_fmt]. cbn. rewrite H1, H2. reflexivity. Qed.
Lemma py_fmt_hole : forall f v vs, py_fmt (123 :: 125 :: f) 0 (v :: vs) = option_map (app v) (py_fmt f 0 vs).
Proof. intros. reflexivity. Qed.

Lemma py_fmt_lit : forall s rest vs, no_char 123 s = true -> no_char 125 s = true ->
  py_fmt (s ++ rest) 0 vs = option_map (app s) (py_fmt rest 0 vs).
Proof.
  induction s as [|c s IH]; intros rest vs Ha Hb; cbn [app].
  - rewrite option_map_app_nil. reflexivity.
  - apply no_char_cons in Ha. apply no_char_cons in Hb. destruct Ha as [A1 A2]. destruct Hb as [B1 B2].
    rewrite py_fmt_cons by assumption. rewrite IH by assumption. apply option_map_app_cons.
Qed.

Lemma py_fmt_template : forall g vals rest more,
  no_char 123 (lits_of g) = true -> no_char 125 (lits_of g) = true ->
  List.length vals = List.length (vars_of g) ->
  py_fmt (template braces g ++ rest) 0 (vals ++ more) = option_map (app (subst_pos g vals)) (py_fmt rest 0 more).
Proof.
  induction g as [|[c|n] g IH]; intros vals rest more Ha Hb Hl; cbn [template subst_pos lits_of vars_of] in *.
  - destruct vals; [|discriminate]. cbn [app]. rewrite option_map_app_nil. reflexivity.
  - apply no_char_cons in Ha. apply no_char_cons in Hb. destruct Ha as [A1 A2]. destruct Hb as [B1 B2].
    cbn [app]. rewrite py_fmt_cons by assumption. rewrite IH by assumption. apply option_map_app_cons.
  - destruct vals as [|v vals]; [discriminate|]. cbn [List.length] in Hl.
    unfold braces. cbn [app]. rewrite py_fmt_hole. rewrite IH by (try assumption; lia).
    apply option_map_app_app.
Qed.

(** ** literals *)
Lemma unq_ok : forall q r, lit_ok q r = true -> unq q r = Some r.
Proof. intros q r H. unfold unq. rewrite H. reflexivity. Qed.

Lemma lit_ok_app : forall q a b, lit_ok q (a ++ b) = lit_ok q a && lit_ok q b.
Proof. intros. unfold lit_ok. apply forallb_app. Qed.

Lemma lit_ok_template : forall q r g, lit_ok q (lits_of g) = true -> lit_ok q r = true -> lit_ok q (template r g) = true.
Proof.
  induction g as [|[c|n] g IH]; cbn [template lits_of]; intros Hl Hr; [reflexivity| |].
  - unfold lit_ok in *. cbn [forallb] in *. apply andb_true_iff in Hl. destruct Hl as [H1 H2].
    rewrite H1. apply IH; assumption.
  - rewrite lit_ok_app, Hr. apply IH; assumption.
Qed.

Lemma word_lit_ok : forall q s, (q = 34 \/ q = 39) -> forallb is_word s = true -> lit_ok q s = true.
Proof. intros q s Hq H. unfold lit_ok. eapply forallb_impl; [|exact H]. intros c Hc. apply word_lit_char_ok; assumption. Qed.

Lemma word_no_char : forall k s, (k = 36 \/ k = 37 \/ k = 123 \/ k = 125) -> forallb is_word s = true -> no_char k s = true.
Proof. intros k s Hk H. unfold no_char. eapply forallb_impl; [|exact H]. intros c Hc. apply word_not; assumption. Qed.

Lemma name_ok_word : forall s, name_ok s = true -> forallb is_word s = true.
Proof. intros s H. unfold name_ok in H. apply andb_true_iff in H. tauto. Qed.

Lemma segments_nil_vars : forall pfx, pfx = [] -> vars_of (segments pfx) = [].
Proof. intros pfx ->. reflexivity. Qed.

(** the value of the prefix: what the specification prescribes *)
Definition prefix_value (delim pfx : str) (vals : list str) : str :=
  match pfx with [] => [] | _ => subst_pos (segments pfx) vals ++ delim end.

Lemma spec_topic_eq : forall delim sc op pfx vals,
  spec_topic delim sc op pfx vals = prefix_value delim pfx vals ++ title sc ++ delim ++ op.
Proof. reflexivity. Qed.

Section GoJavaPrefix.
  Variable F : str -> bool -> list str -> option str.
  Hypothesis F_cons : forall c f vs, (c =? 37) = false -> F (c :: f) false vs = option_map (cons c) (F f false vs).
  Hypothesis F_hole : forall f v vs, F (37 :: 115 :: f) false (v :: vs) = option_map (app v) (F f false vs).
  Hypothesis F_nil : F [] false [] = Some [].

  Lemma F_plain : forall s, no_char 37 s = true -> F s false [] = Some s.
  Proof.
    intros s H. rewrite <- (app_nil_r s) at 1. rewrite (F_lit F F_cons) by exact H. rewrite F_nil. cbn.
    rewrite app_nil_r. reflexivity.
  Qed.

  Lemma F_prefix : forall delim pfx vals,
    no_char 37 pfx = true -> no_char 37 delim = true ->
    List.length vals = List.length (vars_of (segments pfx)) ->
    F (template pct_s (segments pfx) ++ delim) false vals = Some (subst_pos (segments pfx) vals ++ delim).
  Proof.
    intros delim pfx vals Hp Hd Hl. rewrite <- (app_nil_r vals) at 1.
    rewrite (F_template F F_cons F_hole); [|apply forallb_lits_segments; exact Hp|exact Hl].
    rewrite F_plain by exact Hd. reflexivity.
  Qed.
End GoJavaPrefix.

Lemma go_fmt_nil : go_fmt [] false [] = Some []. Proof. reflexivity. Qed.
Lemma java_fmt_nil : java_fmt [] false [] = Some []. Proof. reflexivity. Qed.

(** evaluation of the prefix statement in Go and Java *)
Lemma eval_prefix_gj : forall l delim pfx vals en,
  (l = Go \/ l = Java) ->
  lit_ok 34 pfx = true -> lit_ok 34 delim = true ->
  (null (vars_of (segments pfx)) || (no_char 37 pfx && no_char 37 delim)) = true ->
  List.length vals = List.length (vars_of (segments pfx)) ->
  lookups (vars_of (segments pfx)) en = Some vals ->
  eval l (prefix_expr pct_s delim pfx (segments pfx)) en = Some (prefix_value delim pfx vals).
Proof.
  intros l delim pfx vals en Hl Hp Hd Hpc Hlen Hlk. unfold prefix_expr, prefix_value.
  destruct (vars_of (segments pfx)) as [|v vs] eqn:V.
  - destruct pfx as [|c p].
    + destruct Hl as [-> | ->]; reflexivity.
    + assert (E : unq 34 ((c :: p) ++ delim) = Some ((c :: p) ++ delim)).
      { apply unq_ok. rewrite lit_ok_app, Hp, Hd. reflexivity. }
      rewrite (subst_novars _ _ V), render_segments.
      destruct Hl as [-> | ->]; cbn [eval]; exact E.
  - cbn [null orb] in Hpc. apply andb_true_iff in Hpc. destruct Hpc as [Hp37 Hd37].
    assert (U : unq 34 (template pct_s (segments pfx) ++ delim) = Some (template pct_s (segments pfx) ++ delim)).
    { apply unq_ok. rewrite lit_ok_app, Hd, andb_true_r. apply lit_ok_template; [|reflexivity].
      apply forallb_lits_segments. exact Hp. }
    assert (NE : pfx <> []). { intro E. rewrite (segments_nil_vars _ E) in V. discriminate. }
    destruct pfx as [|c p]; [contradiction|].
    rewrite <- V in *.
    destruct Hl as [-> | ->]; cbn [eval]; rewrite U, Hlk.
    + apply (F_prefix go_fmt go_fmt_cons go_fmt_hole go_fmt_nil); assumption.
    + apply (F_prefix java_fmt java_fmt_cons java_fmt_hole java_fmt_nil); assumption.
Qed.

(** the topic format call *)
Lemma go_topic_fmt : forall P t delim op,
  no_char 37 t = true -> no_char 37 delim = true ->
  go_fmt (pct_s ++ t ++ delim ++ pct_s) false [P; op] = Some (P ++ t ++ delim ++ op).
Proof.
  intros P t delim op Ht Hd. unfold pct_s at 1. cbn [app]. rewrite go_fmt_hole.
  rewrite go_fmt_lit by exact Ht. rewrite go_fmt_lit by exact Hd.
  unfold pct_s. rewrite go_fmt_hole. cbn. rewrite app_nil_r. reflexivity.
Qed.

Lemma java_topic_fmt : forall P t delim op,
  no_char 37 t = true ->
  java_fmt (pct_s ++ t ++ pct_s ++ pct_s) false [P; delim; op] = Some (P ++ t ++ delim ++ op).
Proof.
  intros P t delim op Ht. unfold pct_s at 1. cbn [app]. rewrite java_fmt_hole.
  rewrite java_fmt_lit by exact Ht. unfold pct_s. cbn [app]. rewrite !java_fmt_hole. cbn.
  rewrite app_nil_r. reflexivity.
Qed.

(** ** assembling the generated method body *)
Lemma run_body_cons : forall l x e b decl en,
  run_body l ((x, e) :: b) decl en =
  match eval l e en with
  | None => None
  | Some v => if mem x decl && negb (redecl_ok l) then None else run_body l b (x :: decl) ((x, v) :: en)
  end.
Proof. reflexivity. Qed.

Lemma parse_prefix_segments : forall pfx g, parse_prefix pfx = Some g -> g = segments pfx.
Proof. intros pfx g H. unfold parse_prefix in H. destruct (forallb ident_ok (vars_of (segments pfx))); congruence. Qed.

Ltac split_and H :=
  repeat match type of H with
         | (_ && _) = true => let H1 := fresh H in apply andb_true_iff in H; destruct H as [H H1]; split_and H1
         end.

Lemma negb_mem_false : forall x l, negb (mem x l) = true -> mem x l = false.
Proof. intros. apply negb_true_iff. assumption. Qed.

Lemma topic_unfold : forall q l sd delim sc op pfx vals pr,
  parse_prefix pfx = Some (segments pfx) ->
  List.length vals = List.length (vars_of (segments pfx)) ->
  params_ok l sd op (vars_of (segments pfx)) = true ->
  emit q l sd delim sc op pfx = Some pr ->
  topic q l sd delim sc op pfx vals = run_prog l sd op pr (vars_of (segments pfx)) vals.
Proof.
  intros q l sd delim sc op pfx vals pr Hp Hl Hk He. unfold topic. rewrite Hp. cbv zeta.
  rewrite Hl, Nat.eqb_refl, Hk, He. reflexivity.
Qed.

Lemma go_matches_spec : forall sd delim sc op pfx g vals,
  parse_prefix pfx = Some g -> List.length vals = List.length (vars_of g) ->
  vars_safe Go sd op (vars_of g) = true -> in_domain Go delim sc op pfx = true ->
  topic fixed Go sd delim sc op pfx vals = Some (spec_topic delim sc op pfx vals).
Proof.
  intros sd delim sc op pfx g vals Hp Hlen Hvs Hdom.
  pose proof (parse_prefix_segments _ _ Hp) as ->.
  unfold vars_safe in Hvs. repeat rewrite andb_true_iff in Hvs. destruct Hvs as [[Hpar Hvs0] [Hvs1 Hvs2]].
  unfold in_domain in Hdom. cbv zeta in Hdom. repeat rewrite andb_true_iff in Hdom.
  destruct Hdom as [[Nsc Nop] [[[Lp Ld] Nd] Nx]].
  apply negb_mem_false in Hvs0, Hvs1, Hvs2.
  pose proof (name_ok_word _ Nsc) as Wsc. pose proof (name_ok_word _ Nop) as Wop.
  pose proof (title_word _ Wsc) as Wt.
  set (vars := vars_of (segments pfx)) in *.
  assert (Hpc : (null vars || (no_char 37 pfx && no_char 37 delim)) = true).
  { destruct (null vars); [reflexivity|]. cbn [orb] in *. rewrite Nx, Nd. reflexivity. }
  assert (Hnd : nodupb vars = true). { unfold params_ok in Hpar. apply nodupb_app in Hpar. tauto. }
  rewrite (topic_unfold fixed Go sd delim sc op pfx vals _ Hp Hlen Hpar eq_refl).
  unfold run_prog. cbn [p_consts p_body run_consts]. fold vars.
  set (en0 := combine vars vals ++ []).
  assert (Hlk : lookups vars en0 = Some vals) by (apply lookups_combine; assumption).
  assert (Uop : unq 34 op = Some op) by (apply unq_ok, word_lit_ok; [left; reflexivity|exact Wop]).
  assert (Ut : unq 34 (pct_s ++ title sc ++ delim ++ pct_s) = Some (pct_s ++ title sc ++ delim ++ pct_s)).
  { apply unq_ok. rewrite !lit_ok_app, Ld. rewrite (word_lit_ok 34 (title sc)) by (auto). reflexivity. }
  assert (T37 : no_char 37 (title sc) = true) by (apply word_no_char; auto).
  rewrite spec_topic_eq.
  destruct sd.
  - (* publisher: prefix, op, topic *)
    assert (M1 : mem n_prefix (fixed_params Go Pub op ++ vars) = false) by (rewrite mem_app, Hvs1; reflexivity).
    assert (M2 : mem n_op (n_prefix :: fixed_params Go Pub op ++ vars) = false).
    { cbn [mem]. rewrite mem_app, Hvs0. reflexivity. }
    assert (M3 : mem n_topic (n_op :: n_prefix :: fixed_params Go Pub op ++ vars) = false).
    { cbn [mem]. rewrite mem_app, Hvs2. reflexivity. }
    rewrite run_body_cons.
    rewrite (eval_prefix_gj Go delim pfx vals en0) by (auto). rewrite M1. cbn [andb].
    rewrite run_body_cons. cbn [eval]. rewrite Uop, M2. cbn [andb].
    rewrite run_body_cons. cbn [eval]. cbn [go_dot fixed]. rewrite Ut.
    replace (lookups [n_prefix; n_op] ((n_op, op) :: (n_prefix, prefix_value delim pfx vals) :: en0))
      with (Some [prefix_value delim pfx vals; op]) by reflexivity.
    rewrite go_topic_fmt by assumption. rewrite M3. cbn [andb run_body]. reflexivity.
  - (* subscriber: op, prefix, topic *)
    assert (M1 : mem n_op (fixed_params Go Sub op ++ vars) = false) by (rewrite mem_app, Hvs0; reflexivity).
    assert (M2 : mem n_prefix (n_op :: fixed_params Go Sub op ++ vars) = false).
    { cbn [mem]. rewrite mem_app, Hvs1. reflexivity. }
    assert (M3 : mem n_topic (n_prefix :: n_op :: fixed_params Go Sub op ++ vars) = false).
    { cbn [mem]. rewrite mem_app, Hvs2. reflexivity. }
    rewrite run_body_cons. cbn [eval]. rewrite Uop, M1. cbn [andb].
    rewrite run_body_cons.
    rewrite (eval_prefix_gj Go delim pfx vals ((n_op, op) :: en0)); auto;
      [|rewrite lookups_skip by exact Hvs0; exact Hlk].
    rewrite M2. cbn [andb].
    rewrite run_body_cons. cbn [eval]. cbn [go_dot fixed]. rewrite Ut.
    replace (lookups [n_prefix; n_op] ((n_prefix, prefix_value delim pfx vals) :: (n_op, op) :: en0))
      with (Some [prefix_value delim pfx vals; op]) by reflexivity.
    rewrite go_topic_fmt by assumption. rewrite M3. cbn [andb run_body]. reflexivity.
Qed.

Lemma lookups3 : forall a b c en va vb vc,
  lookup a en = Some va -> lookup b en = Some vb -> lookup c en = Some vc ->
  lookups [a; b; c] en = Some [va; vb; vc].
Proof. intros. cbn [lookups]. rewrite H, H0, H1. reflexivity. Qed.

Lemma java_matches_spec : forall sd delim sc op pfx g vals,
  parse_prefix pfx = Some g -> List.length vals = List.length (vars_of g) ->
  vars_safe Java sd op (vars_of g) = true -> in_domain Java delim sc op pfx = true ->
  topic fixed Java sd delim sc op pfx vals = Some (spec_topic delim sc op pfx vals).
Proof.
  intros sd delim sc op pfx g vals Hp Hlen Hvs Hdom.
  pose proof (parse_prefix_segments _ _ Hp) as ->.
  unfold vars_safe in Hvs. repeat rewrite andb_true_iff in Hvs. destruct Hvs as [[Hpar Hvs0] [[Hvs1 Hvs2] Hvs3]].
  unfold in_domain in Hdom. cbv zeta in Hdom. repeat rewrite andb_true_iff in Hdom.
  destruct Hdom as [[Nsc Nop] [[Lp Ld] Nx]].
  apply negb_mem_false in Hvs0, Hvs1, Hvs2, Hvs3.
  pose proof (name_ok_word _ Nsc) as Wsc. pose proof (name_ok_word _ Nop) as Wop.
  pose proof (title_word _ Wsc) as Wt.
  set (vars := vars_of (segments pfx)) in *.
  assert (Hnd : nodupb vars = true). { unfold params_ok in Hpar. apply nodupb_app in Hpar. tauto. }
  rewrite (topic_unfold fixed Java sd delim sc op pfx vals _ Hp Hlen Hpar eq_refl).
  unfold run_prog. cbn [p_consts p_body run_consts eval]. rewrite (unq_ok _ _ Ld). fold vars.
  set (en0 := combine vars vals ++ [(n_DELIMITER, delim)]).
  assert (Hlk : lookups vars en0 = Some vals) by (apply lookups_combine; assumption).
  assert (Uop : unq 34 op = Some op) by (apply unq_ok, word_lit_ok; [left; reflexivity|exact Wop]).
  assert (Ut : unq 34 (pct_s ++ title sc ++ pct_s ++ pct_s) = Some (pct_s ++ title sc ++ pct_s ++ pct_s)).
  { apply unq_ok. rewrite !lit_ok_app. rewrite (word_lit_ok 34 (title sc)) by (auto). reflexivity. }
  assert (T37 : no_char 37 (title sc) = true) by (apply word_no_char; auto).
  assert (Fx : mem n_op (fixed_params Java sd op) = false /\ mem n_prefix (fixed_params Java sd op) = false
               /\ mem n_topic (fixed_params Java sd op) = false) by (destruct sd; repeat split; reflexivity).
  destruct Fx as [F1 [F2 F3]].
  assert (M1 : mem n_op (fixed_params Java sd op ++ vars) = false) by (rewrite mem_app, Hvs0, F1; reflexivity).
  assert (M2 : mem n_prefix (n_op :: fixed_params Java sd op ++ vars) = false).
  { cbn [mem]. rewrite mem_app, Hvs1, F2. reflexivity. }
  assert (M3 : mem n_topic (n_prefix :: n_op :: fixed_params Java sd op ++ vars) = false).
  { cbn [mem]. rewrite mem_app, Hvs2, F3. reflexivity. }
  rewrite spec_topic_eq.
  rewrite run_body_cons. cbn [eval]. rewrite Uop, M1. cbn [andb].
  rewrite run_body_cons.
  rewrite (eval_prefix_gj Java delim pfx vals ((n_op, op) :: en0)); auto;
    [|rewrite lookups_skip by exact Hvs0; exact Hlk].
  rewrite M2. cbn [andb].
  rewrite run_body_cons. cbn [eval]. rewrite Ut.
  rewrite (lookups3 n_prefix n_DELIMITER n_op _ (prefix_value delim pfx vals) delim op);
    [|reflexivity| |reflexivity].
  - rewrite java_topic_fmt by assumption. rewrite M3. cbn [andb run_body]. reflexivity.
  - change (lookup n_DELIMITER en0 = Some delim). unfold en0.
    rewrite lookup_notin_combine by exact Hvs3. reflexivity.
Qed.

(** Python *)
Lemma py_fmt_plain : forall s, no_char 123 s = true -> no_char 125 s = true -> py_fmt s 0 [] = Some s.
Proof.
  intros s Ha Hb. rewrite <- (app_nil_r s) at 1. rewrite py_fmt_lit by assumption. cbn. rewrite app_nil_r. reflexivity.
Qed.

Lemma eval_prefix_py : forall delim pfx vals en,
  lit_ok 39 pfx = true -> lit_ok 39 delim = true ->
  (null (vars_of (segments pfx)) ||
   (no_char 123 (lits_of (segments pfx)) && no_char 125 (lits_of (segments pfx)) &&
    no_char 123 delim && no_char 125 delim)) = true ->
  List.length vals = List.length (vars_of (segments pfx)) ->
  lookups (vars_of (segments pfx)) en = Some vals ->
  eval Py (prefix_expr braces delim pfx (segments pfx)) en = Some (prefix_value delim pfx vals).
Proof.
  intros delim pfx vals en Hp Hd Hpc Hlen Hlk. unfold prefix_expr, prefix_value.
  destruct (vars_of (segments pfx)) as [|v vs] eqn:V.
  - destruct pfx as [|c p]; [reflexivity|].
    rewrite (subst_novars _ _ V), render_segments. cbn [eval]. apply unq_ok.
    rewrite lit_ok_app, Hp, Hd. reflexivity.
  - cbn [null orb] in Hpc. repeat rewrite andb_true_iff in Hpc. destruct Hpc as [[[A B] C] D].
    assert (U : unq 39 (template braces (segments pfx) ++ delim) = Some (template braces (segments pfx) ++ delim)).
    { apply unq_ok. rewrite lit_ok_app, Hd, andb_true_r. apply lit_ok_template; [|reflexivity].
      apply forallb_lits_segments. exact Hp. }
    assert (NE : pfx <> []). { intro E. rewrite (segments_nil_vars _ E) in V. discriminate. }
    destruct pfx as [|c p]; [contradiction|].
    rewrite <- V in *. cbn [eval]. rewrite U, Hlk.
    rewrite <- (app_nil_r vals) at 1. rewrite py_fmt_template by assumption.
    rewrite py_fmt_plain by assumption. reflexivity.
Qed.

Lemma py_topic_fmt : forall P t delim op,
  no_char 123 t = true -> no_char 125 t = true ->
  py_fmt (braces ++ t ++ braces ++ braces) 0 [P; delim; op] = Some (P ++ t ++ delim ++ op).
Proof.
  intros P t delim op Ha Hb. unfold braces at 1. cbn [app]. rewrite py_fmt_hole.
  rewrite py_fmt_lit by assumption. unfold braces. cbn [app]. rewrite !py_fmt_hole. cbn.
  rewrite app_nil_r. reflexivity.
Qed.

Lemma py_matches_spec : forall sd delim sc op pfx g vals,
  parse_prefix pfx = Some g -> List.length vals = List.length (vars_of g) ->
  vars_safe Py sd op (vars_of g) = true -> in_domain Py delim sc op pfx = true ->
  topic fixed Py sd delim sc op pfx vals = Some (spec_topic delim sc op pfx vals).
Proof.
  intros sd delim sc op pfx g vals Hp Hlen Hvs Hdom.
  pose proof (parse_prefix_segments _ _ Hp) as ->.
  unfold vars_safe in Hvs. repeat rewrite andb_true_iff in Hvs. destruct Hvs as [[Hpar Hvs0] Hvs3].
  unfold in_domain in Hdom. cbv zeta in Hdom. repeat rewrite andb_true_iff in Hdom.
  destruct Hdom as [[Nsc Nop] [[Lp Ld] Nx]].
  apply negb_mem_false in Hvs0, Hvs3.
  pose proof (name_ok_word _ Nsc) as Wsc. pose proof (name_ok_word _ Nop) as Wop.
  pose proof (title_word _ Wsc) as Wt.
  set (vars := vars_of (segments pfx)) in *.
  assert (Hnd : nodupb vars = true). { unfold params_ok in Hpar. apply nodupb_app in Hpar. tauto. }
  rewrite (topic_unfold fixed Py sd delim sc op pfx vals _ Hp Hlen Hpar eq_refl).
  unfold run_prog. cbn [p_consts p_body run_consts eval]. rewrite (unq_ok _ _ Ld). fold vars.
  set (en0 := combine vars vals ++ [(n_self_DELIMITER, delim)]).
  assert (Hlk : lookups vars en0 = Some vals) by (apply lookups_combine; assumption).
  assert (Uop : unq 39 op = Some op) by (apply unq_ok, word_lit_ok; [right; reflexivity|exact Wop]).
  assert (Ut : unq 39 (braces ++ title sc ++ braces ++ braces) = Some (braces ++ title sc ++ braces ++ braces)).
  { apply unq_ok. rewrite !lit_ok_app. rewrite (word_lit_ok 39 (title sc)) by (auto). reflexivity. }
  rewrite spec_topic_eq.
  rewrite run_body_cons. cbn [eval]. rewrite Uop. cbn [redecl_ok negb]. rewrite andb_false_r.
  rewrite run_body_cons.
  rewrite (eval_prefix_py delim pfx vals ((n_op, op) :: en0)); auto;
    [|rewrite lookups_skip by exact Hvs0; exact Hlk].
  rewrite andb_false_r.
  rewrite run_body_cons. cbn [eval py_raw fixed]. rewrite Ut.
  rewrite (lookups3 n_prefix n_self_DELIMITER n_op _ (prefix_value delim pfx vals) delim op);
    [|reflexivity| |reflexivity].
  - rewrite py_topic_fmt by (apply word_no_char; auto). rewrite andb_false_r. cbn [run_body]. reflexivity.
  - change (lookup n_self_DELIMITER en0 = Some delim). unfold en0.
    rewrite lookup_notin_combine by exact Hvs3. reflexivity.
Qed.
