From Coq Require Import ZArith List Lia Bool.
From FV Require Import Base.Res Base.Bytes Model.Headers Model.Receivers Model.Context
  Proofs.BytesProofs Proofs.HeadersMapProofs.
Import ListNotations.
Open Scope Z_scope.
Ltac Zify.zify_post_hook ::= Z.div_mod_to_equations.

(** ** decimal formatting round trip *)
Lemma parse_digits_fmt fuel : forall n acc a,
  0 <= n < 10 ^ Z.of_nat fuel -> a = 0 \/ True ->
  parse_digits (fmt_aux fuel n acc) 0 = parse_digits acc n.
Proof.
  induction fuel as [|fuel IH]; intros n acc a Hn _.
  - simpl in Hn. assert (n = 0) by lia. subst. reflexivity.
  - cbn [fmt_aux].
    assert (Hd : 0 <= n mod 10 < 10) by (apply Z.mod_pos_bound; lia).
    destruct (n <? 10) eqn:E.
    + apply Z.ltb_lt in E. cbn [parse_digits].
      replace ((48 <=? 48 + n mod 10) && (48 + n mod 10 <=? 57)) with true
        by (symmetry; rewrite andb_true_iff; split; lia).
      f_equal. rewrite Z.mod_small by lia. lia.
    + apply Z.ltb_ge in E. rewrite (IH (n / 10) _ 0); [| |auto].
      * cbn [parse_digits].
        replace ((48 <=? 48 + n mod 10) && (48 + n mod 10 <=? 57)) with true
          by (symmetry; rewrite andb_true_iff; split; lia).
        f_equal. lia.
      * rewrite Nat2Z.inj_succ, Z.pow_succ_r in Hn by lia. lia.
Qed.

Lemma fmt_aux_length fuel : forall n acc, (length acc <= length (fmt_aux fuel n acc))%nat.
Proof.
  induction fuel as [|fuel IH]; intros n acc; cbn [fmt_aux]; [lia|].
  destruct (n <? 10); [cbn [length]; lia|].
  specialize (IH (n / 10) ((48 + n mod 10) :: acc)). cbn [length] in IH. lia.
Qed.

Lemma fmt_aux_S f n acc :
  fmt_aux (S f) n acc = if n <? 10 then (48 + n mod 10) :: acc else fmt_aux f (n / 10) ((48 + n mod 10) :: acc).
Proof. reflexivity. Qed.
Lemma fmt_aux_S_length f n acc : (S (length acc) <= length (fmt_aux (S f) n acc))%nat.
Proof.
  rewrite fmt_aux_S. destruct (n <? 10); [cbn [length]; lia|].
  pose proof (fmt_aux_length f (n / 10) ((48 + n mod 10) :: acc)) as L. cbn [length] in L. lia.
Qed.

Lemma parse_format_uint n : 0 <= n < two64 -> parse_uint64 (format_uint n) = Some n.
Proof.
  intros H. unfold parse_uint64, format_uint.
  pose proof (parse_digits_fmt 20 n [] 0) as P. cbn [parse_digits] in P.
  assert (Hn : 0 <= n < 10 ^ Z.of_nat 20) by (unfold two64 in H; change (10 ^ Z.of_nat 20) with 100000000000000000000; lia).
  specialize (P Hn (or_introl eq_refl)).
  destruct (fmt_aux 20 n []) as [|c r] eqn:E.
  - exfalso. pose proof (fmt_aux_S_length 19 n []) as L. rewrite E in L. cbn [length] in L. lia.
  - rewrite P. unfold two64 in H. replace (n <? 18446744073709551616) with true by (symmetry; apply Z.ltb_lt; lia).
    reflexivity.
Qed.

Lemma format_uint_inj a b : 0 <= a < two64 -> 0 <= b < two64 -> format_uint a = format_uint b -> a = b.
Proof.
  intros Ha Hb E. pose proof (parse_format_uint a Ha) as Pa. pose proof (parse_format_uint b Hb) as Pb.
  rewrite E in Pa. congruence.
Qed.

(** ** heap lemmas *)
Lemma nth_set_nth_same {A} (l : list A) n x d : (n < length l)%nat -> nth n (set_nth n x l) d = x.
Proof. revert n; induction l as [|h t IH]; intros [|n] H; simpl in *; try lia; auto. apply IH; lia. Qed.
Lemma nth_set_nth_other {A} (l : list A) n m x d : n <> m -> nth m (set_nth n x l) d = nth m l d.
Proof.
  revert n m; induction l as [|h t IH]; intros [|n] [|m] H; simpl; auto; try congruence.
Qed.
Lemma length_set_nth {A} (l : list A) n x : length (set_nth n x l) = length l.
Proof. revert n; induction l as [|h t IH]; intros [|n]; simpl; auto. Qed.

Lemma get_put_same s a m : (a < length (heap s))%nat -> get (put s a m) a = m.
Proof. intros H. unfold get, put. cbn [heap]. now apply nth_set_nth_same. Qed.
Lemma get_put_other s a b m : a <> b -> get (put s a m) b = get s b.
Proof. intros H. unfold get, put. cbn [heap]. now apply nth_set_nth_other. Qed.
Lemma get_alloc_old s m a : (a < length (heap s))%nat -> get (snd (alloc s m)) a = get s a.
Proof. intros H. unfold get, alloc. cbn [snd heap]. now rewrite app_nth1. Qed.
Lemma get_alloc_new s m : get (snd (alloc s m)) (length (heap s)) = m.
Proof. unfold get, alloc. cbn [snd heap]. rewrite app_nth2 by lia. now rewrite Nat.sub_diag. Qed.
Lemma fst_alloc s m : fst (alloc s m) = length (heap s).
Proof. reflexivity. Qed.
Lemma heap_alloc s m : heap (snd (alloc s m)) = heap s ++ [m].
Proof. reflexivity. Qed.
Lemma heap_put s a m : heap (put s a m) = set_nth a m (heap s).
Proof. reflexivity. Qed.

(** the address an operation writes to, if any *)
Definition target (s : st) (o : op) : option nat :=
  match o with
  | OAdd i m _ _ => option_map (fun c => sel c m) (ctx_at s i)
  | OSetTimeout i _ => option_map c_req (ctx_at s i)
  | OMutUser u _ _ => nth_error (umaps s) u
  | OReadResp i _ => option_map c_resp (ctx_at s i)
  | _ => None
  end.

(** frame: a step changes no existing map except its target, and only appends to the registries *)
Lemma step_frame s o s' : step s o = Some s' ->
  (length (heap s) <= length (heap s'))%nat
  /\ (forall a, (a < length (heap s))%nat -> target s o <> Some a -> get s' a = get s a)
  /\ (exists l, ctxs s' = ctxs s ++ l)
  /\ (exists l, umaps s' = umaps s ++ l)
  /\ (exists l, protos s' = protos s ++ l).
Proof.
  intros H. destruct o as [cid|i m k v|i ns|i m|u k v|i| |p hdrs|i hdrs]; cbn [step] in H.
  - (* ONew *)
    injection H as <-. cbn. repeat split.
    + rewrite !app_length. simpl. lia.
    + intros a Ha _. unfold get. cbn. rewrite <- !app_assoc. now rewrite app_nth1 by lia.
    + eexists; reflexivity.
    + exists []; now rewrite app_nil_r.
    + exists []; now rewrite app_nil_r.
  - (* OAdd *)
    cbn [target]. destruct (ctx_at s i) as [c|]; [|discriminate]. injection H as <-.
    cbn [option_map]. repeat split.
    + rewrite heap_put, length_set_nth. lia.
    + intros a Ha Hne. apply get_put_other. congruence.
    + exists []; now rewrite app_nil_r.
    + exists []; now rewrite app_nil_r.
    + exists []; now rewrite app_nil_r.
  - (* OSetTimeout *)
    cbn [target]. destruct (ctx_at s i) as [c|]; [|discriminate]. injection H as <-.
    cbn [option_map]. repeat split.
    + rewrite heap_put, length_set_nth. lia.
    + intros a Ha Hne. apply get_put_other. congruence.
    + exists []; now rewrite app_nil_r.
    + exists []; now rewrite app_nil_r.
    + exists []; now rewrite app_nil_r.
  - (* OGet *)
    destruct (ctx_at s i) as [c|]; [|discriminate]. injection H as <-. cbn. repeat split.
    + rewrite app_length. simpl. lia.
    + intros a Ha _. unfold get. cbn. now rewrite app_nth1 by lia.
    + exists []; now rewrite app_nil_r.
    + eexists; reflexivity.
    + exists []; now rewrite app_nil_r.
  - (* OMutUser *)
    cbn [target]. destruct (nth_error (umaps s) u) as [a0|]; [|discriminate]. injection H as <-.
    repeat split.
    + rewrite heap_put, length_set_nth. lia.
    + intros a Ha Hne. apply get_put_other. congruence.
    + exists []; now rewrite app_nil_r.
    + exists []; now rewrite app_nil_r.
    + exists []; now rewrite app_nil_r.
  - (* OClone *)
    destruct (ctx_at s i) as [c|]; [|discriminate]. injection H as <-. cbn. repeat split.
    + rewrite !app_length. simpl. lia.
    + intros a Ha _. unfold get. cbn. rewrite <- !app_assoc. now rewrite app_nth1 by lia.
    + eexists; reflexivity.
    + exists []; now rewrite app_nil_r.
    + exists []; now rewrite app_nil_r.
  - (* ONewProto *)
    injection H as <-. cbn. repeat split.
    + rewrite app_length. simpl. lia.
    + intros a Ha _. unfold get. cbn. now rewrite app_nth1 by lia.
    + exists []; now rewrite app_nil_r.
    + exists []; now rewrite app_nil_r.
    + eexists; reflexivity.
  - (* ORecv *)
    destruct (nth_error (protos s) p) as [pe|]; [|discriminate].
    destruct (lookup opid_header (to_map hdrs)) as [opid|].
    + injection H as <-. cbn. repeat split.
      * rewrite !app_length. simpl. lia.
      * intros a Ha _. unfold get. cbn. rewrite <- !app_assoc. now rewrite app_nth1 by lia.
      * eexists; reflexivity.
      * exists []; now rewrite app_nil_r.
      * exists []; now rewrite app_nil_r.
    + injection H as <-. repeat split; auto; try (exists []; now rewrite app_nil_r).
  - (* OReadResp *)
    cbn [target]. destruct (ctx_at s i) as [c|]; [|discriminate]. injection H as <-.
    cbn [option_map]. repeat split.
    + rewrite heap_put, length_set_nth. lia.
    + intros a Ha Hne. apply get_put_other. congruence.
    + exists []; now rewrite app_nil_r.
    + exists []; now rewrite app_nil_r.
    + exists []; now rewrite app_nil_r.
Qed.

(** ** separation: every map slot (request/response/own-ephemeral map of a context, a map
    handed to the user, a protocol object's map) has its own address *)
Inductive slot := SReq (k : nat) | SResp (k : nat) | SEph (k : nat) | SUser (j : nat) | SProto (j : nat).
Definition slot_addr (s : st) (x : slot) : option nat :=
  match x with
  | SReq k => option_map c_req (nth_error (ctxs s) k)
  | SResp k => option_map c_resp (nth_error (ctxs s) k)
  | SEph k => match nth_error (ctxs s) k with
              | Some c => if c_own_eph c then Some (c_eph c) else None
              | None => None
              end
  | SUser j => nth_error (umaps s) j
  | SProto j => nth_error (protos s) j
  end.

Definition separated (s : st) : Prop :=
  (forall x a, slot_addr s x = Some a -> (a < length (heap s))%nat) /\
  (forall x1 x2 a, slot_addr s x1 = Some a -> slot_addr s x2 = Some a -> x1 = x2).

Lemma nth_error_snoc {A} (l : list A) x k y :
  nth_error (l ++ [x]) k = Some y -> nth_error l k = Some y \/ (k = length l /\ y = x).
Proof.
  intros H. destruct (Nat.lt_ge_cases k (length l)) as [Hlt|Hge].
  - left. now rewrite nth_error_app1 in H.
  - right. rewrite nth_error_app2 in H by lia.
    destruct (k - length l)%nat as [|d] eqn:E; simpl in H.
    + injection H as <-. split; [lia|reflexivity].
    + destruct d; discriminate.
Qed.

Lemma slot_addr_add_ctx s s' c :
  ctxs s' = ctxs s ++ [c] -> umaps s' = umaps s -> protos s' = protos s ->
  forall x a, slot_addr s' x = Some a ->
    slot_addr s x = Some a
    \/ (x = SReq (length (ctxs s)) /\ a = c_req c)
    \/ (x = SResp (length (ctxs s)) /\ a = c_resp c)
    \/ (x = SEph (length (ctxs s)) /\ c_own_eph c = true /\ a = c_eph c).
Proof.
  intros Hc Hu Hp x a H. destruct x as [k|k|k|j|j]; cbn [slot_addr] in *; rewrite ?Hc, ?Hu, ?Hp in H; auto.
  - destruct (nth_error (ctxs s ++ [c]) k) as [c0|] eqn:E; [|discriminate]. cbn in H. injection H as <-.
    apply nth_error_snoc in E. destruct E as [E|[-> ->]]; [left; now rewrite E|right; left; auto].
  - destruct (nth_error (ctxs s ++ [c]) k) as [c0|] eqn:E; [|discriminate]. cbn in H. injection H as <-.
    apply nth_error_snoc in E. destruct E as [E|[-> ->]]; [left; now rewrite E|right; right; left; auto].
  - destruct (nth_error (ctxs s ++ [c]) k) as [c0|] eqn:E; [|discriminate].
    apply nth_error_snoc in E. destruct E as [E|[-> ->]].
    + left. now rewrite E.
    + destruct (c_own_eph c) eqn:Eo; [|discriminate]. injection H as <-. right; right; right; auto.
Qed.

Lemma separated_add_ctx s s' c :
  separated s ->
  ctxs s' = ctxs s ++ [c] -> umaps s' = umaps s -> protos s' = protos s ->
  (length (heap s) <= c_req c < length (heap s'))%nat ->
  (length (heap s) <= c_resp c < length (heap s'))%nat ->
  c_req c <> c_resp c ->
  (c_own_eph c = true ->
   (length (heap s) <= c_eph c < length (heap s'))%nat /\ c_eph c <> c_req c /\ c_eph c <> c_resp c) ->
  separated s'.
Proof.
  intros [Hb Hinj] Hc Hu Hp Hreq Hresp Hne Heph.
  pose proof (slot_addr_add_ctx s s' c Hc Hu Hp) as Cases.
  split.
  - intros x a H. destruct (Cases x a H) as [Ho|[[-> ->]|[[-> ->]|[-> [Eo ->]]]]].
    + specialize (Hb x a Ho). lia.
    + lia.
    + lia.
    + destruct (Heph Eo) as [? _]. lia.
  - intros x1 x2 a H1 H2.
    destruct (Cases x1 a H1) as [O1|[[-> E1]|[[-> E1]|[-> [Eo1 E1]]]]];
    destruct (Cases x2 a H2) as [O2|[[-> E2]|[[-> E2]|[-> [Eo2 E2]]]]];
      try reflexivity; try (eapply Hinj; eassumption);
      try (specialize (Hb _ _ O1)); try (specialize (Hb _ _ O2));
      try (destruct (Heph Eo1) as (? & ? & ?)); try (destruct (Heph Eo2) as (? & ? & ?));
      subst; try lia; try congruence.
Qed.

Lemma separated_add_user s s' a0 :
  separated s -> ctxs s' = ctxs s -> umaps s' = umaps s ++ [a0] -> protos s' = protos s ->
  (length (heap s) <= a0 < length (heap s'))%nat -> separated s'.
Proof.
  intros [Hb Hinj] Hc Hu Hp Ha.
  assert (Cases : forall x a, slot_addr s' x = Some a ->
            slot_addr s x = Some a \/ (x = SUser (length (umaps s)) /\ a = a0)).
  { intros x a H. destruct x as [k|k|k|j|j]; cbn [slot_addr] in *; rewrite ?Hc, ?Hu, ?Hp in H; auto.
    apply nth_error_snoc in H. destruct H as [H|[-> ->]]; auto. }
  split.
  - intros x a H. destruct (Cases x a H) as [Ho|[-> ->]]; [specialize (Hb x a Ho)|]; lia.
  - intros x1 x2 a H1 H2.
    destruct (Cases x1 a H1) as [O1|[-> E1]]; destruct (Cases x2 a H2) as [O2|[-> E2]];
      try reflexivity; try (eapply Hinj; eassumption);
      try (specialize (Hb _ _ O1)); try (specialize (Hb _ _ O2)); subst; lia.
Qed.

Lemma separated_add_proto s s' a0 :
  separated s -> ctxs s' = ctxs s -> umaps s' = umaps s -> protos s' = protos s ++ [a0] ->
  (length (heap s) <= a0 < length (heap s'))%nat -> separated s'.
Proof.
  intros [Hb Hinj] Hc Hu Hp Ha.
  assert (Cases : forall x a, slot_addr s' x = Some a ->
            slot_addr s x = Some a \/ (x = SProto (length (protos s)) /\ a = a0)).
  { intros x a H. destruct x as [k|k|k|j|j]; cbn [slot_addr] in *; rewrite ?Hc, ?Hu, ?Hp in H; auto.
    apply nth_error_snoc in H. destruct H as [H|[-> ->]]; auto. }
  split.
  - intros x a H. destruct (Cases x a H) as [Ho|[-> ->]]; [specialize (Hb x a Ho)|]; lia.
  - intros x1 x2 a H1 H2.
    destruct (Cases x1 a H1) as [O1|[-> E1]]; destruct (Cases x2 a H2) as [O2|[-> E2]];
      try reflexivity; try (eapply Hinj; eassumption);
      try (specialize (Hb _ _ O1)); try (specialize (Hb _ _ O2)); subst; lia.
Qed.

Lemma separated_same s s' :
  separated s -> ctxs s' = ctxs s -> umaps s' = umaps s -> protos s' = protos s ->
  (length (heap s) <= length (heap s'))%nat -> separated s'.
Proof.
  intros [Hb Hinj] Hc Hu Hp Hl.
  assert (E : forall x, slot_addr s' x = slot_addr s x).
  { intros [k|k|k|j|j]; cbn [slot_addr]; now rewrite ?Hc, ?Hu, ?Hp. }
  split.
  - intros x a H. rewrite E in H. specialize (Hb x a H). lia.
  - intros x1 x2 a H1 H2. rewrite E in H1, H2. eapply Hinj; eassumption.
Qed.

Lemma step_separated s o s' : separated s -> step s o = Some s' -> separated s'.
Proof.
  intros Hs H. destruct o as [cid|i m k v|i ns|i m|u k v|i| |p hdrs|i hdrs]; cbn [step] in H.
  - injection H as <-.
    eapply separated_add_ctx; [exact Hs | reflexivity | reflexivity | reflexivity | | | | ]; cbn;
      rewrite ?app_length; simpl; try lia.
  - destruct (ctx_at s i) as [c|]; [|discriminate]. injection H as <-.
    eapply separated_same; [exact Hs | reflexivity..|]. rewrite heap_put, length_set_nth. lia.
  - destruct (ctx_at s i) as [c|]; [|discriminate]. injection H as <-.
    eapply separated_same; [exact Hs | reflexivity..|]. rewrite heap_put, length_set_nth. lia.
  - destruct (ctx_at s i) as [c|]; [|discriminate]. injection H as <-.
    eapply separated_add_user; [exact Hs | reflexivity..|]. cbn. rewrite app_length. simpl. lia.
  - destruct (nth_error (umaps s) u) as [a0|]; [|discriminate]. injection H as <-.
    eapply separated_same; [exact Hs | reflexivity..|]. rewrite heap_put, length_set_nth. lia.
  - destruct (ctx_at s i) as [c|]; [|discriminate]. injection H as <-.
    eapply separated_add_ctx; [exact Hs | reflexivity | reflexivity | reflexivity | | | | ]; cbn;
      rewrite ?app_length; simpl; try lia.
  - injection H as <-.
    eapply separated_add_proto; [exact Hs | reflexivity..|]. cbn. rewrite app_length. simpl. lia.
  - destruct (nth_error (protos s) p) as [pe|]; [|discriminate].
    destruct (lookup opid_header (to_map hdrs)) as [opid|]; injection H as <-; [|exact Hs].
    eapply separated_add_ctx; [exact Hs | reflexivity | reflexivity | reflexivity | | | | ]; cbn;
      rewrite ?app_length; simpl; try lia; try (intros Hf; discriminate).
  - destruct (ctx_at s i) as [c|]; [|discriminate]. injection H as <-.
    eapply separated_same; [exact Hs | reflexivity..|]. rewrite heap_put, length_set_nth. lia.
Qed.

Lemma separated_init start : separated (init start).
Proof.
  split.
  - intros [k|k|k|j|j] a H; cbn in H; destruct k || destruct j; discriminate.
  - intros [k|k|k|j|j] x2 a H; cbn in H; destruct k || destruct j; discriminate.
Qed.

Lemma run_separated ops : forall s s', separated s -> run s ops = Some s' -> separated s'.
Proof.
  induction ops as [|o ops IH]; intros s s' Hs H; cbn [run] in H.
  - injection H as <-. exact Hs.
  - destruct (step s o) as [s1|] eqn:E; [|discriminate]. eapply IH; [|exact H].
    eapply step_separated; eassumption.
Qed.

(** ** every map in the heap has distinct keys (maps are only built by assignment / copy) *)
Definition keys_ok (s : st) : Prop := Forall (fun m => NoDup (keys m)) (heap s).

Lemma Forall_set_nth {A} (P : A -> Prop) l n x : Forall P l -> P x -> Forall P (set_nth n x l).
Proof.
  revert n; induction l as [|h t IH]; intros n Hl Hx; [destruct n; constructor|].
  inversion Hl; subst. destruct n; simpl; constructor; auto.
Qed.
Lemma keys_ok_get s a : keys_ok s -> NoDup (keys (get s a)).
Proof.
  intros H. unfold get. destruct (Nat.lt_ge_cases a (length (heap s))) as [Hl|Hg].
  - unfold keys_ok in H. rewrite Forall_forall in H. apply H. now apply nth_In.
  - rewrite nth_overflow by lia. constructor.
Qed.
Lemma remove_key_keys k m : forall x, In x (keys (remove_key k m)) -> In x (keys m).
Proof.
  induction m as [|[k' v] m IH]; simpl; intros x H; [exact H|].
  destruct (bytes_eqb k k'); simpl in *; intuition.
Qed.
Lemma remove_key_nodup k m : NoDup (keys m) -> NoDup (keys (remove_key k m)).
Proof.
  induction m as [|[k' v] m IH]; simpl; intros H; [constructor|].
  inversion H; subst. destruct (bytes_eqb k k'); simpl; auto.
  constructor; auto. intros Hin. apply remove_key_keys in Hin. contradiction.
Qed.
Lemma fold_assign_filtered_nodup (f : hpair -> bool) l : forall m,
  NoDup (keys m) ->
  NoDup (keys (fold_left (fun m p => if f p then m else assign m (fst p) (snd p)) l m)).
Proof.
  induction l as [|p l IH]; intros m H; simpl; [exact H|].
  apply IH. destruct (f p); auto. now apply assign_nodup.
Qed.

Lemma step_keys_ok s o s' : keys_ok s -> step s o = Some s' -> keys_ok s'.
Proof.
  unfold keys_ok. intros Hk H.
  destruct o as [cid|i m k v|i ns|i m|u k v|i| |p hdrs|i hdrs]; cbn [step] in H.
  - injection H as <-. cbn -[assign format_uint format_int].
    rewrite !Forall_app. repeat split; auto; repeat (apply Forall_cons || apply Forall_nil);
      try (repeat apply assign_nodup; constructor);
      try (cbn; repeat constructor; cbn; intuition discriminate).
  - destruct (ctx_at s i) as [c|]; [|discriminate]. injection H as <-. rewrite heap_put.
    apply Forall_set_nth; auto. apply assign_nodup. now apply keys_ok_get.
  - destruct (ctx_at s i) as [c|]; [|discriminate]. injection H as <-. rewrite heap_put.
    apply Forall_set_nth; auto. apply assign_nodup. now apply keys_ok_get.
  - destruct (ctx_at s i) as [c|]; [|discriminate]. injection H as <-. cbn -[get]. rewrite Forall_app.
    split; auto. apply Forall_cons; [now apply keys_ok_get | apply Forall_nil].
  - destruct (nth_error (umaps s) u) as [a0|]; [|discriminate]. injection H as <-. rewrite heap_put.
    apply Forall_set_nth; auto. apply assign_nodup. now apply keys_ok_get.
  - destruct (ctx_at s i) as [c|]; [|discriminate]. injection H as <-. cbn -[assign format_uint get].
    rewrite !Forall_app. repeat split; auto; (apply Forall_cons; [|apply Forall_nil]);
      try apply assign_nodup; now apply keys_ok_get.
  - injection H as <-. cbn. rewrite Forall_app. split; auto. apply Forall_cons; [constructor | apply Forall_nil].
  - destruct (nth_error (protos s) p) as [pe|]; [|discriminate].
    destruct (lookup opid_header (to_map hdrs)) as [opid|]; injection H as <-; [|exact Hk].
    cbn -[assign format_uint remove_key to_map lookup_default without_key].
    rewrite !Forall_app. repeat split; auto; (apply Forall_cons; [|apply Forall_nil]).
    + apply assign_nodup. unfold without_key. apply remove_key_nodup, to_map_nodup.
    + destruct (lookup_default cid_header _);
        try (repeat apply assign_nodup; constructor);
        try (cbn; repeat constructor; cbn; intuition discriminate).
  - destruct (ctx_at s i) as [c|]; [|discriminate]. injection H as <-. rewrite heap_put.
    apply Forall_set_nth; auto. apply fold_assign_filtered_nodup. now apply keys_ok_get.
Qed.

(** a context whose ephemeral map is not its own uses some protocol object's map *)
Definition shared_ok (s : st) : Prop :=
  forall c, In c (ctxs s) -> c_own_eph c = false -> exists p, nth_error (protos s) p = Some (c_eph c).

Lemma nth_error_app_some {A} (l l' : list A) p x : nth_error l p = Some x -> nth_error (l ++ l') p = Some x.
Proof. intros H. rewrite nth_error_app1; auto. apply nth_error_Some. congruence. Qed.

Lemma step_shared_ok s o s' : shared_ok s -> step s o = Some s' -> shared_ok s'.
Proof.
  unfold shared_ok. intros Hs H.
  destruct o as [cid|i m k v|i ns|i m|u k v|i| |p hdrs|i hdrs]; cbn [step] in H.
  - injection H as <-. cbn. intros c Hin Ho. apply in_app_or in Hin. destruct Hin as [Hin|[<-|[]]]; auto.
    discriminate.
  - destruct (ctx_at s i) as [c0|]; [|discriminate]. injection H as <-. exact Hs.
  - destruct (ctx_at s i) as [c0|]; [|discriminate]. injection H as <-. exact Hs.
  - destruct (ctx_at s i) as [c0|]; [|discriminate]. injection H as <-. exact Hs.
  - destruct (nth_error (umaps s) u) as [a0|]; [|discriminate]. injection H as <-. exact Hs.
  - destruct (ctx_at s i) as [c0|]; [|discriminate]. injection H as <-. cbn.
    intros c Hin Ho. apply in_app_or in Hin. destruct Hin as [Hin|[<-|[]]]; auto. discriminate.
  - injection H as <-. cbn. intros c Hin Ho. destruct (Hs c Hin Ho) as [p Hp]. exists p.
    now apply nth_error_app_some.
  - destruct (nth_error (protos s) p) as [pe|] eqn:Ep; [|discriminate].
    destruct (lookup opid_header (to_map hdrs)) as [opid|]; injection H as <-; [|exact Hs].
    cbn. intros c Hin Ho. apply in_app_or in Hin. destruct Hin as [Hin|[<-|[]]]; auto.
    cbn. exists p. exact Ep.
  - destruct (ctx_at s i) as [c0|]; [|discriminate]. injection H as <-. exact Hs.
Qed.

(** ** reachable states *)
Record good (s : st) : Prop := { g_sep : separated s; g_keys : keys_ok s; g_shared : shared_ok s }.

Lemma good_init start : good (init start).
Proof. split; [apply separated_init | constructor | intros c []]. Qed.
Lemma step_good s o s' : good s -> step s o = Some s' -> good s'.
Proof.
  intros [A B C] H. split; [eapply step_separated | eapply step_keys_ok | eapply step_shared_ok]; eassumption.
Qed.
Lemma run_good ops : forall s s', good s -> run s ops = Some s' -> good s'.
Proof.
  induction ops as [|o ops IH]; intros s s' Hs H; cbn [run] in H.
  - injection H as <-. exact Hs.
  - destruct (step s o) as [s1|] eqn:E; [|discriminate]. eapply IH; [|exact H]. eapply step_good; eassumption.
Qed.

(** ** independence: an operation addressed to one context (or to a map a getter returned)
    changes no map of any other context *)
Definition addressed_to (o : op) : option nat :=
  match o with
  | OAdd i _ _ _ | OSetTimeout i _ | OReadResp i _ => Some i
  | _ => None
  end.

Lemma nth_error_In' {A} (l : list A) n x : nth_error l n = Some x -> In x l.
Proof. apply nth_error_In. Qed.

Lemma slot_of_target s o j a :
  good s -> addressed_to o = Some j -> target s o = Some a ->
  slot_addr s (SReq j) = Some a \/ slot_addr s (SResp j) = Some a
  \/ slot_addr s (SEph j) = Some a \/ exists p, slot_addr s (SProto p) = Some a.
Proof.
  intros G Ha Ht. destruct o; cbn in Ha; try discriminate; injection Ha as ->; cbn [target] in Ht;
    unfold ctx_at in Ht; cbn [slot_addr];
    destruct (nth_error (ctxs s) j) as [c|] eqn:E; try discriminate; cbn in Ht; injection Ht as <-.
  - destruct m; cbn [sel]; auto.
    destruct (c_own_eph c) eqn:Eo; auto.
    right; right; right. destruct (g_shared s G c (nth_error_In' _ _ _ E) Eo) as [p Hp]. eauto.
  - auto.
  - auto.
Qed.

Lemma other_context_unchanged s o s' i j ci :
  good s -> step s o = Some s' -> addressed_to o = Some j -> i <> j ->
  nth_error (ctxs s) i = Some ci ->
  req_of s' ci = req_of s ci /\ resp_of s' ci = resp_of s ci
  /\ (c_own_eph ci = true -> eph_of s' ci = eph_of s ci).
Proof.
  intros G H Ha Hij Hi.
  destruct (step_frame s o s' H) as (_ & Hfr & _).
  destruct (g_sep s G) as [Hb Hinj].
  assert (Sreq : slot_addr s (SReq i) = Some (c_req ci)) by (cbn; now rewrite Hi).
  assert (Sresp : slot_addr s (SResp i) = Some (c_resp ci)) by (cbn; now rewrite Hi).
  assert (NotTarget : forall x, (x = SReq i \/ x = SResp i \/ x = SEph i) -> forall a,
            slot_addr s x = Some a -> target s o <> Some a).
  { intros x Hx a Hs Ht.
    destruct (slot_of_target s o j a G Ha Ht) as [T|[T|[T|[p T]]]];
      pose proof (Hinj _ _ _ Hs T) as E; destruct Hx as [-> | [-> | ->]]; inversion E; congruence. }
  unfold req_of, resp_of, eph_of. repeat split.
  - apply Hfr; [eapply Hb; exact Sreq | eapply NotTarget; [left; reflexivity | exact Sreq]].
  - apply Hfr; [eapply Hb; exact Sresp | eapply NotTarget; [right; left; reflexivity | exact Sresp]].
  - intros Ho. assert (Seph : slot_addr s (SEph i) = Some (c_eph ci)) by (cbn; now rewrite Hi, Ho).
    apply Hfr; [eapply Hb; exact Seph | eapply NotTarget; [right; right; reflexivity | exact Seph]].
Qed.

(** maps handed out by getters are copies: writing into one changes no context at all *)
Lemma user_map_write_changes_no_context s u k v s' i ci :
  good s -> step s (OMutUser u k v) = Some s' -> nth_error (ctxs s) i = Some ci ->
  req_of s' ci = req_of s ci /\ resp_of s' ci = resp_of s ci /\ eph_of s' ci = eph_of s ci.
Proof.
  intros G H Hi.
  destruct (step_frame s _ s' H) as (_ & Hfr & _).
  destruct (g_sep s G) as [Hb Hinj]. cbn [target] in Hfr.
  assert (Sreq : slot_addr s (SReq i) = Some (c_req ci)) by (cbn; now rewrite Hi).
  assert (Sresp : slot_addr s (SResp i) = Some (c_resp ci)) by (cbn; now rewrite Hi).
  assert (NotUser : forall x a, slot_addr s x = Some a -> (forall j, x <> SUser j) ->
            nth_error (umaps s) u <> Some a).
  { intros x a Hs Hx Hu. apply (Hx u). eapply Hinj; [exact Hs | cbn; exact Hu]. }
  unfold req_of, resp_of, eph_of. repeat split.
  - apply Hfr; [eapply Hb; exact Sreq | eapply NotUser; [exact Sreq | intros j; discriminate]].
  - apply Hfr; [eapply Hb; exact Sresp | eapply NotUser; [exact Sresp | intros j; discriminate]].
  - destruct (c_own_eph ci) eqn:Eo.
    + assert (Seph : slot_addr s (SEph i) = Some (c_eph ci)) by (cbn; now rewrite Hi, Eo).
      apply Hfr; [eapply Hb; exact Seph | eapply NotUser; [exact Seph | intros j; discriminate]].
    + destruct (g_shared s G ci (nth_error_In' _ _ _ Hi) Eo) as [p Hp].
      assert (Sp : slot_addr s (SProto p) = Some (c_eph ci)) by exact Hp.
      apply Hfr; [eapply Hb; exact Sp | eapply NotUser; [exact Sp | intros j; discriminate]].
Qed.

(** a getter returns a fresh map equal to the context's *)
Lemma getter_returns_fresh_copy s i m s' ci :
  good s -> step s (OGet i m) = Some s' -> nth_error (ctxs s) i = Some ci ->
  exists a, umaps s' = umaps s ++ [a] /\ a = length (heap s) /\ get s' a = get s (sel ci m)
            /\ (forall x b, slot_addr s x = Some b -> b <> a).
Proof.
  intros G H Hi. cbn [step] in H. unfold ctx_at in H. rewrite Hi in H. injection H as <-.
  exists (length (heap s)). repeat split.
  - unfold get. cbn. rewrite app_nth2 by lia. now rewrite Nat.sub_diag.
  - intros x b Hs. destruct (g_sep s G) as [Hb _]. specialize (Hb x b Hs). lia.
Qed.

(** ** Clone: equal maps except a fresh op id; all three maps are new addresses *)
Lemma clone_spec s i s' ci :
  good s -> step s (OClone i) = Some s' -> nth_error (ctxs s) i = Some ci ->
  exists c', ctxs s' = ctxs s ++ [c']
    /\ req_of s' c' = assign (req_of s ci) opid_header (format_uint ((next_op s + 1) mod two64))
    /\ resp_of s' c' = resp_of s ci
    /\ eph_of s' c' = eph_of s ci
    /\ c_own_eph c' = true
    /\ next_op s' = (next_op s + 1) mod two64
    /\ req_of s' ci = req_of s ci /\ resp_of s' ci = resp_of s ci /\ eph_of s' ci = eph_of s ci.
Proof.
  intros G H Hi. cbn [step] in H. unfold ctx_at in H. rewrite Hi in H. injection H as <-.
  destruct (g_sep s G) as [Hb _].
  assert (B1 : (c_req ci < length (heap s))%nat) by (apply (Hb (SReq i)); cbn; now rewrite Hi).
  assert (B2 : (c_resp ci < length (heap s))%nat) by (apply (Hb (SResp i)); cbn; now rewrite Hi).
  assert (B3 : (c_eph ci < length (heap s))%nat).
  { destruct (c_own_eph ci) eqn:Eo.
    - apply (Hb (SEph i)); cbn; now rewrite Hi, Eo.
    - destruct (g_shared s G ci (nth_error_In' _ _ _ Hi) Eo) as [p Hp]. apply (Hb (SProto p)). exact Hp. }
  eexists. split; [reflexivity|]. unfold req_of, resp_of, eph_of, get. cbn -[assign format_uint].
  repeat split.
  - rewrite <- !app_assoc. rewrite app_nth2 by lia. now rewrite Nat.sub_diag.
  - rewrite <- app_assoc. rewrite app_nth2 by (rewrite app_length; simpl; lia).
    rewrite app_length. simpl. now replace (length (heap s) + 1 - (length (heap s) + 1))%nat with 0%nat by lia.
  - rewrite app_nth2 by (rewrite !app_length; simpl; lia).
    rewrite !app_length. simpl.
    now replace (length (heap s) + 1 + 1 - (length (heap s) + 1 + 1))%nat with 0%nat by lia.
  - rewrite <- !app_assoc. now rewrite app_nth1 by lia.
  - rewrite <- !app_assoc. now rewrite app_nth1 by lia.
  - rewrite <- !app_assoc. now rewrite app_nth1 by lia.
Qed.

(** ** op ids: consecutive values of the counter, one per context, never disturbed by
    operations that respect the reserved name *)
Definition reserved_free (o : op) : Prop :=
  match o with
  | OAdd _ MReq k _ => k <> opid_header
  | _ => True
  end.

Definition ids_inv (start : Z) (s : st) : Prop :=
  next_op s = (start + Z.of_nat (length (ctxs s))) mod two64
  /\ forall k c, nth_error (ctxs s) k = Some c ->
       lookup opid_header (req_of s c) = Some (format_uint ((start + Z.of_nat k + 1) mod two64)).

Lemma req_addr_bound s k c : good s -> nth_error (ctxs s) k = Some c -> (c_req c < length (heap s))%nat.
Proof. intros G H. destruct (g_sep s G) as [Hb _]. apply (Hb (SReq k)). cbn. now rewrite H. Qed.

Lemma req_unchanged s o s' k c :
  good s -> step s o = Some s' -> nth_error (ctxs s) k = Some c ->
  target s o <> Some (c_req c) -> req_of s' c = req_of s c.
Proof.
  intros G H Hk Ht. destruct (step_frame s o s' H) as (_ & Hfr & _).
  unfold req_of. apply Hfr; [eapply req_addr_bound; eassumption | exact Ht].
Qed.

Lemma lookup_opid_after_assign m k v :
  NoDup (keys m) -> k <> opid_header -> lookup opid_header (assign m k v) = lookup opid_header m.
Proof.
  intros ND Hk. rewrite lookup_assign by exact ND.
  destruct (bytes_eqb opid_header k) eqn:E; [|reflexivity].
  apply bytes_eqb_eq in E. congruence.
Qed.

Lemma mod_succ start n : ((start + n) mod two64 + 1) mod two64 = (start + n + 1) mod two64.
Proof. unfold two64. rewrite Zplus_mod_idemp_l. reflexivity. Qed.

Lemma nth_error_snoc_inv {A} (l : list A) x k y :
  nth_error (l ++ [x]) k = Some y -> (nth_error l k = Some y /\ (k < length l)%nat) \/ (k = length l /\ y = x).
Proof.
  intros H. destruct (nth_error_snoc l x k y H) as [H1|H1]; [left|right; exact H1].
  split; [exact H1|]. apply nth_error_Some. congruence.
Qed.

Lemma step_ids start s o s' :
  good s -> ids_inv start s -> reserved_free o -> step s o = Some s' -> ids_inv start s'.
Proof.
  intros G [Hn Hids] Hrf H.
  pose proof (step_frame s o s' H) as (Hlen & Hfr & _).
  pose proof G as [[Hb Hinj] Hkeys _].
  (* old contexts keep their op id when the step does not write _opid into their request map *)
  assert (Old : forall k c, nth_error (ctxs s) k = Some c ->
            (target s o <> Some (c_req c) \/
             exists key v, req_of s' c = assign (req_of s c) key v /\ key <> opid_header) ->
            lookup opid_header (req_of s' c) = Some (format_uint ((start + Z.of_nat k + 1) mod two64))).
  { intros k c Hk [Ht|(key & v & E & Hne)].
    - rewrite (req_unchanged s o s' k c G H Hk Ht). now apply Hids.
    - rewrite E, lookup_opid_after_assign; [now apply Hids | apply keys_ok_get; exact Hkeys | exact Hne]. }
  destruct o as [cid|i m key v|i ns|i m|u key v|i| |p hdrs|i hdrs]; cbn [step] in H.
  - (* ONew *)
    injection H as <-. split.
    + cbn. rewrite app_length. cbn. rewrite Hn, Nat2Z.inj_add. cbn. rewrite mod_succ. f_equal. lia.
    + intros k c Hk. cbn [ctxs add_ctx alloc bump fst snd] in Hk. cbn in Hk.
      apply nth_error_snoc_inv in Hk. destruct Hk as [[Hk Hlt]|[-> ->]].
      * unfold req_of, get. cbn. rewrite <- !app_assoc.
        rewrite app_nth1 by (eapply req_addr_bound; eassumption).
        now apply Hids.
      * unfold req_of, get. cbn -[format_uint lookup]. rewrite <- !app_assoc.
        rewrite app_nth2 by lia. rewrite Nat.sub_diag. cbn -[format_uint].
        rewrite Hn, mod_succ. reflexivity.
  - (* OAdd *)
    destruct (ctx_at s i) as [ci|] eqn:Ei; [|discriminate]. injection H as <-.
    split; [exact Hn|]. intros k c Hk. cbn [ctxs put] in Hk.
    apply Old; [exact Hk|].
    destruct (Nat.eq_dec (sel ci m) (c_req c)) as [E|E].
    + right. exists key, v.
      assert (Sm : slot_addr s (SReq k) = Some (c_req c)) by (cbn; now rewrite Hk).
      assert (m = MReq /\ i = k) as [-> ->].
      { unfold ctx_at in Ei. destruct m; cbn [sel] in E.
        - assert (S2 : slot_addr s (SReq i) = Some (c_req c)) by (cbn; rewrite Ei; cbn; congruence).
          pose proof (Hinj _ _ _ S2 Sm) as X. injection X as ->. auto.
        - assert (S2 : slot_addr s (SResp i) = Some (c_req c)) by (cbn; rewrite Ei; cbn; congruence).
          pose proof (Hinj _ _ _ S2 Sm) as X. discriminate.
        - destruct (c_own_eph ci) eqn:Eo.
          + assert (S2 : slot_addr s (SEph i) = Some (c_req c)) by (cbn; rewrite Ei, Eo; congruence).
            pose proof (Hinj _ _ _ S2 Sm) as X. discriminate.
          + destruct (g_shared s G ci (nth_error_In' _ _ _ Ei) Eo) as [p Hp].
            assert (S2 : slot_addr s (SProto p) = Some (c_req c)) by (cbn; congruence).
            pose proof (Hinj _ _ _ S2 Sm) as X. discriminate. }
      unfold ctx_at in Ei. rewrite Hk in Ei. injection Ei as ->. cbn [sel].
      split; [|exact Hrf]. unfold req_of. rewrite get_put_same; [reflexivity|].
      eapply req_addr_bound; eassumption.
    + left. cbn [target]. rewrite Ei. cbn. congruence.
  - (* OSetTimeout *)
    destruct (ctx_at s i) as [ci|] eqn:Ei; [|discriminate]. injection H as <-.
    split; [exact Hn|]. intros k c Hk. cbn [ctxs put] in Hk.
    apply Old; [exact Hk|].
    destruct (Nat.eq_dec (c_req ci) (c_req c)) as [E|E].
    + right. exists timeout_header, (format_int (quot_ms ns)).
      split; [|discriminate]. unfold req_of. rewrite E, get_put_same; [reflexivity|].
      eapply req_addr_bound; eassumption.
    + left. cbn [target]. rewrite Ei. cbn. congruence.
  - (* OGet *)
    destruct (ctx_at s i) as [ci|] eqn:Ei; [|discriminate]. injection H as <-.
    split; [exact Hn|]. intros k c Hk. apply Old; [exact Hk|]. left. cbn. discriminate.
  - (* OMutUser *)
    destruct (nth_error (umaps s) u) as [a0|] eqn:Eu; [|discriminate]. injection H as <-.
    split; [exact Hn|]. intros k c Hk. cbn [ctxs put] in Hk. apply Old; [exact Hk|]. left. cbn [target]. rewrite Eu.
    intros X. injection X as ->.
    assert (S1 : slot_addr s (SUser u) = Some (c_req c)) by exact Eu.
    assert (S2 : slot_addr s (SReq k) = Some (c_req c)) by (cbn; now rewrite Hk).
    pose proof (Hinj _ _ _ S1 S2). discriminate.
  - (* OClone *)
    destruct (ctx_at s i) as [ci|] eqn:Ei; [|discriminate]. injection H as <-. split.
    + cbn. rewrite app_length. cbn. rewrite Hn, Nat2Z.inj_add. cbn. rewrite mod_succ. f_equal. lia.
    + intros k c Hk. cbn in Hk. apply nth_error_snoc_inv in Hk. destruct Hk as [[Hk Hlt]|[-> ->]].
      * unfold req_of, get. cbn -[assign format_uint]. rewrite <- !app_assoc.
        rewrite app_nth1 by (eapply req_addr_bound; eassumption). now apply Hids.
      * unfold req_of, get. cbn -[assign format_uint lookup]. rewrite <- !app_assoc.
        rewrite app_nth2 by lia. rewrite Nat.sub_diag. cbn -[assign format_uint lookup].
        rewrite lookup_assign by (apply keys_ok_get; exact Hkeys).
        rewrite bytes_eqb_refl, Hn, mod_succ. reflexivity.
  - (* ONewProto *)
    injection H as <-. split; [exact Hn|]. intros k c Hk. apply Old; [exact Hk|]. left. cbn. discriminate.
  - (* ORecv *)
    destruct (nth_error (protos s) p) as [pe|] eqn:Ep; [|discriminate].
    destruct (lookup opid_header (to_map hdrs)) as [opid|]; injection H as <-; [|split; assumption].
    split.
    + cbn. rewrite app_length. cbn. rewrite Hn, Nat2Z.inj_add. cbn. rewrite mod_succ. f_equal. lia.
    + intros k c Hk. cbn in Hk. apply nth_error_snoc_inv in Hk. destruct Hk as [[Hk Hlt]|[-> ->]].
      * unfold req_of, get. cbn -[assign format_uint without_key to_map lookup_default]. rewrite <- !app_assoc.
        rewrite app_nth1 by (eapply req_addr_bound; eassumption). now apply Hids.
      * unfold req_of, get. cbn -[assign format_uint lookup without_key to_map lookup_default].
        rewrite <- !app_assoc. rewrite app_nth2 by lia. rewrite Nat.sub_diag.
        cbn -[assign format_uint lookup without_key to_map lookup_default].
        rewrite lookup_assign by (unfold without_key; apply remove_key_nodup, to_map_nodup).
        rewrite bytes_eqb_refl, Hn, mod_succ. reflexivity.
  - (* OReadResp *)
    destruct (ctx_at s i) as [ci|] eqn:Ei; [|discriminate]. injection H as <-.
    split; [exact Hn|]. intros k c Hk. cbn [ctxs put] in Hk. apply Old; [exact Hk|].
    left. cbn [target]. rewrite Ei. cbn. intros X. injection X as E.
    unfold ctx_at in Ei.
    assert (S1 : slot_addr s (SResp i) = Some (c_req c)) by (cbn; rewrite Ei; cbn; congruence).
    assert (S2 : slot_addr s (SReq k) = Some (c_req c)) by (cbn; now rewrite Hk).
    pose proof (Hinj _ _ _ S1 S2). discriminate.
Qed.

Fixpoint all_reserved_free (ops : list op) : Prop :=
  match ops with [] => True | o :: r => reserved_free o /\ all_reserved_free r end.

Lemma ids_init start : 0 <= start < two64 -> ids_inv start (init start).
Proof.
  intros H. split.
  - cbn. rewrite Z.add_0_r. symmetry. apply Z.mod_small. exact H.
  - intros k c Hk. destruct k; discriminate.
Qed.

Lemma run_ids start ops : forall s s',
  good s -> ids_inv start s -> all_reserved_free ops -> run s ops = Some s' -> good s' /\ ids_inv start s'.
Proof.
  induction ops as [|o ops IH]; intros s s' G I Hrf H; cbn [run] in H.
  - injection H as <-. auto.
  - destruct (step s o) as [s1|] eqn:E; [|discriminate]. destruct Hrf as [Ho Hr].
    apply (IH s1 s'); auto; [eapply step_good | eapply step_ids]; eassumption.
Qed.

(** every two contexts ever created, cloned or received carry different op ids *)
Lemma opids_distinct start ops s k1 k2 c1 c2 :
  0 <= start < two64 -> all_reserved_free ops -> run (init start) ops = Some s ->
  Z.of_nat (length (ctxs s)) <= two64 ->
  nth_error (ctxs s) k1 = Some c1 -> nth_error (ctxs s) k2 = Some c2 -> k1 <> k2 ->
  opid_of s c1 <> opid_of s c2.
Proof.
  intros Hs Hrf Hrun Hlen H1 H2 Hne.
  destruct (run_ids start ops (init start) s (good_init start) (ids_init start Hs) Hrf Hrun) as [G [_ Hids]].
  unfold opid_of, lookup_default. rewrite (Hids _ _ H1), (Hids _ _ H2).
  intros E. apply format_uint_inj in E; try (apply Z.mod_pos_bound; unfold two64; lia).
  assert (L1 : (k1 < length (ctxs s))%nat) by (apply nth_error_Some; congruence).
  assert (L2 : (k2 < length (ctxs s))%nat) by (apply nth_error_Some; congruence).
  unfold two64 in *.
  assert (D : (Z.of_nat k1 - Z.of_nat k2) mod 18446744073709551616 = 0).
  { replace (Z.of_nat k1 - Z.of_nat k2) with ((start + Z.of_nat k1 + 1) - (start + Z.of_nat k2 + 1)) by lia.
    rewrite Zminus_mod, E, Z.sub_diag. reflexivity. }
  apply Z.mod_divide in D; [|lia]. destruct D as [q Hq].
  assert (q = 0) by nia. subst q. lia.
Qed.
