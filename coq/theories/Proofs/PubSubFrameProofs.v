(** C07, frame level: what the generated publisher emits is delivered intact by the subscriber's
    transport + generated callback (Model/PubSub.v [publish_frame] / [deliver]). *)
From Coq Require Import ZArith List Lia Bool.
From FV Require Import Base.Res Base.Bytes Base.GoSem Model.Headers Model.Receivers Model.PubSub
  Proofs.BytesProofs Proofs.HeadersProofs Proofs.HeadersMapProofs.
Import ListNotations.
Open Scope Z_scope.

Lemma read_i32_be32 u rest : 0 <= u < 4294967296 -> read_i32 (be32 u ++ rest) = Ok (as_int32 u, rest).
Proof.
  intros Hu. unfold read_i32. rewrite read_full_app by (now rewrite be32_length). cbn [bind].
  now rewrite un_be32_be32.
Qed.

Lemma read_string_enc name rest :
  zlen name <= max_message_size ->
  read_string (be32 (as_uint32 (zlen name)) ++ name ++ rest) = Ok (name, rest).
Proof.
  intros Hn. pose proof (zlen_nonneg name) as H0. unfold max_message_size in Hn.
  unfold read_string. rewrite as_uint32_small by lia. rewrite read_i32_be32 by lia. cbn [bind].
  unfold as_int32. replace (zlen name <? 2147483648) with true by (symmetry; apply Z.ltb_lt; lia).
  replace (zlen name <? 0) with false by (symmetry; apply Z.ltb_ge; lia).
  replace (max_message_size <? zlen name) with false by (symmetry; apply Z.ltb_ge; unfold max_message_size; lia).
  now apply read_full_app.
Qed.

Lemma read_message_begin_enc name rest :
  zlen name <= max_message_size ->
  read_message_begin (write_message_begin name msg_call 0 ++ rest) = Ok (name, msg_call, 0, rest).
Proof.
  intros Hn. unfold read_message_begin, write_message_begin. rewrite <- !app_assoc.
  rewrite read_i32_be32 by (vm_compute; split; [discriminate|reflexivity]). cbn [bind].
  change (as_int32 (version_1 + msg_call) <? 0) with true. cbv iota.
  change (negb (as_uint32 (as_int32 (version_1 + msg_call)) / 65536 * 65536 =? version_1)) with false. cbv iota.
  rewrite read_string_enc by assumption. cbn [bind].
  rewrite read_i32_be32 by (vm_compute; split; [discriminate|reflexivity]). cbn [bind].
  reflexivity.
Qed.

Section Frame.
  Variable P : Type.
  Variable rd : bytes -> res (P * bytes).

  (** a frame the publisher emits for request bytes that the reader decodes to [v] is delivered to the
      handler with the publisher's request headers (all but the op id, which the receiver renews) and [v] *)
  Lemma deliver_publish_frame hdrs op payload o v r :
    header_size hdrs < 2147483648 -> NoDup (keys hdrs) ->
    Headers.lookup opid_header hdrs = Some o ->
    zlen op <= max_message_size ->
    rd payload = Ok (v, r) ->
    deliver P rd op (publish_frame hdrs op payload) = Deliver (remove_key opid_header hdrs) v.
  Proof.
    intros Hs Hnd Ho Hop Hrd. unfold deliver, publish_frame.
    set (body := marshal hdrs ++ write_message_begin op msg_call 0 ++ payload).
    assert (Hl : zlen (be32 (as_uint32 (zlen body)) ++ body) <? 4 = false).
    { apply Z.ltb_ge. rewrite zlen_app, be32_length. pose proof (zlen_nonneg body). lia. }
    rewrite Hl. rewrite slice_from_app by (now rewrite be32_length).
    unfold recv_callback, read_request_header, body.
    rewrite stream_roundtrip by assumption. cbn [bind]. rewrite Ho. cbn [bind].
    rewrite read_message_begin_enc by assumption. cbn [bind].
    rewrite bytes_eqb_refl. cbn [negb]. rewrite Hrd. cbn [bind].
    unfold ctx_headers. now rewrite to_map_id.
  Qed.

  (** frames shorter than the 4-byte prefix, frames whose first byte after the prefix is not the
      version 0, and frames for another operation are discarded, never delivered, never a panic *)
  Lemma deliver_short op frame : zlen frame < 4 -> deliver P rd op frame = Discard.
  Proof. intros H. unfold deliver. now replace (zlen frame <? 4) with true by (symmetry; apply Z.ltb_lt; lia). Qed.
End Frame.

(** with C02's model of the generated Write / Read as the payload codec *)
From FV Require Import Model.ThriftBin Proofs.ThriftBinProofs Proofs.ThriftBinGoProofs.

Lemma valid_frame_delivered_intact e t v hdrs op o :
  gwf e t v ->
  header_size hdrs < 2147483648 -> NoDup (keys hdrs) ->
  Headers.lookup opid_header hdrs = Some o ->
  zlen op <= max_message_size ->
  exists payload fuel0,
    gwrite e t v = Ok payload /\
    forall fuel, (fuel0 <= fuel)%nat ->
      deliver val (gread fuel e t) op (publish_frame hdrs op payload) = Deliver (remove_key opid_header hdrs) v.
Proof.
  intros Hwf Hs Hnd Ho Hop.
  destruct (write_read_roundtrip e t v [] Hwf) as (b & fuel0 & Hw & Hr).
  exists b, fuel0. split; [exact Hw|]. intros fuel Hf.
  apply (deliver_publish_frame val (gread fuel e t) hdrs op b o v []); auto.
  specialize (Hr fuel Hf). now rewrite app_nil_r in Hr.
Qed.
