(** Round trip through the whole parser model for struct / union / exception declarations with
    fields: explicit ids, required / optional / default modifiers, base and container field types
    (list, set, map, nested to any depth), the three field-separator styles (',' ';' none), blanks
    and line breaks wherever the grammar allows them.  C10 stage 5, continued: the lemma family
    behind [c10_roundtrip_structs_partial].

    Part 1 (this file): field types, fields, field lists, StructLike, Struct / Exception / Union. *)
From Coq Require Import ZArith List Bool Arith Lia String.
From FV Require Import Model.PegSyntax Model.Peg Model.PegWf Model.ParserStrings Model.ParserAst
     Model.ParserActions Model.Parser Proofs.PegProofs Proofs.ParserProofs Proofs.ParserLexProofs
     Proofs.ParserEvals Proofs.ParserRoundTrip Proofs.ParserRoundTripEnum.
Import ListNotations.
Local Open Scope Z_scope.

(** ** the rules of this derivation, as they are in the regenerated grammar *)
Definition lit_struct : list Z := [115; 116; 114; 117; 99; 116].
Definition lit_exception : list Z := [101; 120; 99; 101; 112; 116; 105; 111; 110].
Definition lit_union : list Z := [117; 110; 105; 111; 110].
Definition lit_required : list Z := [114; 101; 113; 117; 105; 114; 101; 100].
Definition lit_optional : list Z := [111; 112; 116; 105; 111; 110; 97; 108].
Definition lit_map : list Z := [109; 97; 112; 60].
Definition lit_set : list Z := [115; 101; 116; 60].
Definition lit_list : list Z := [108; 105; 115; 116; 60].
Definition lit_cpp_type : list Z := [99; 112; 112; 95; 116; 121; 112; 101].
Definition anns_opt : cexpr action := CLabel "annotations" (COpt (CRef 31)).

Lemma struct_shapes :
  nth_error rules 10 = Some (CAct AStruct1 (CSeq [CLit lit_struct; CRef 56; CLabel "st" (CRef 13)]))
  /\ nth_error rules 11 = Some (CAct AException1 (CSeq [CLit lit_exception; CRef 56; CLabel "st" (CRef 13)]))
  /\ nth_error rules 12 = Some (CAct AUnion1 (CSeq [CLit lit_union; CRef 56; CLabel "st" (CRef 13)]))
  /\ nth_error rules 13 = Some (CAct AStructLike1 (CSeq [CLabel "name" (CRef 45); CRef 55; CLit [123]; CRef 55;
                                                         CLabel "fields" (CRef 14); CLit [125]; CRef 56; anns_opt;
                                                         CRef 60]))
  /\ nth_error rules 14 = Some (CAct AFieldList1 (CLabel "fields" (CStar (CSeq [CRef 15; CRef 55]))))
  /\ nth_error rules 15 = Some (CAct AField1 (CSeq [doc_opt; CLabel "id" (CRef 34); CRef 56; CLit [58]; CRef 56;
                                                    CLabel "mod" (COpt (CRef 16)); CRef 56; CLabel "typ" (CRef 22);
                                                    CRef 56; CLabel "name" (CRef 45); CRef 55;
                                                    CLabel "def" (COpt (CSeq [CLit [61]; CRef 56; CRef 30]));
                                                    CRef 56; anns_opt; COpt (CRef 46)]))
  /\ nth_error rules 16 = Some (CAct AFieldModifier1 (CSeq [CChoice [CLit lit_required; CLit lit_optional]; kw_guard]))
  /\ nth_error rules 25 = Some (CAct AContainerType1 (CLabel "typ" (CChoice [CRef 26; CRef 27; CRef 28])))
  /\ nth_error rules 26 = Some (CAct AMapType1 (CSeq [COpt (CRef 29); CLit lit_map; CRef 57; CLabel "key" (CRef 22);
                                                      CRef 57; CLit [44]; CRef 57; CLabel "value" (CRef 22);
                                                      CRef 57; CLit [62]; CRef 56; anns_opt]))
  /\ nth_error rules 27 = Some (CAct ASetType1 (CSeq [COpt (CRef 29); CLit lit_set; CRef 57; CLabel "typ" (CRef 22);
                                                      CRef 57; CLit [62]; CRef 56; anns_opt]))
  /\ nth_error rules 28 = Some (CAct AListType1 (CSeq [CLit lit_list; CRef 57; CLabel "typ" (CRef 22);
                                                       CRef 57; CLit [62]; CRef 56; anns_opt]))
  /\ nth_error rules 29 = Some (CAct ACppType1 (CSeq [CLit lit_cpp_type; CLabel "cppType" (CRef 44)]))
  /\ nth_error rules 34 = Some (CAct AIntConstant1 (CSeq [COpt (CClass [45; 43] [] false); CPlus (CRef 48)]))
  /\ nth_error rules 57 = Some (CStar (CRef 58)).
Proof. repeat (split; [vm_compute; reflexivity|]). vm_compute; reflexivity. Qed.

Ltac sub_head H := eapply head_not_sub; [|exact H]; intros ?x ?Hx; cbn in * |- *; tauto.

(** ** WS (57): a run of blanks *)
Lemma ws_run : forall g s cr o es fr,
  run_of p_blank g -> head_not [32; 9; 13] s ->
  evals (CRef 57) cr (st_of (g ++ s) o es) fr
        (Done true (VList (bytes_vals g)) (st_of s (o + Z.of_nat (List.length g)) es) fr).
Proof.
  intros g s cr o es fr Hg Hs.
  destruct struct_shapes as (_ & _ & _ & _ & _ & _ & _ & _ & _ & _ & _ & _ & _ & H57).
  assert (Hstop : stops p_blank s).
  { destruct s as [|d s]; [exact I|]. destruct Hs as [Hd Hf]. split; [exact Hd|].
    exact (not_blank d _ Hf (incl_refl _)). }
  eapply E_ref; [exact H57|]. apply E_star. exists (2 + List.length g + 1)%nat. intros f Hf.
  rewrite (loop_run (CRef 58) p_blank 2 whitespace_matches g s f 57%nat o es [] [] Hg Hstop Hf).
  reflexivity.
Qed.

(** ** a literal at the head of the input *)
Lemma lit_ascii_ok_self : forall l s, Forall ascii l -> ascii_next s -> lit_ascii_ok l (l ++ s).
Proof.
  induction l as [|c l IH]; intros s Hl Hs; [exact Hs|].
  inversion Hl as [|? ? Hc Hl']; subst. cbn [app lit_ascii_ok]. split; [exact Hc | intros _; exact (IH s Hl' Hs)].
Qed.

Lemma has_prefix_self : forall l s, has_prefix l (l ++ s) = true.
Proof. induction l as [|c l IH]; intros s; [reflexivity|]. cbn [app has_prefix]. rewrite Z.eqb_refl, IH. reflexivity. Qed.

Lemma skipn_self : forall (l s : bytes), skipn (List.length l) (l ++ s) = s.
Proof. induction l as [|c l IH]; intros s; [reflexivity | exact (IH s)]. Qed.

Lemma lit_here : forall l s cr o es fr, Forall ascii l -> ascii_next s ->
  evals (CLit l) cr (st_of (l ++ s) o es) fr
        (Done true (VBytes l) (st_of s (o + Z.of_nat (List.length l)) es) fr).
Proof.
  intros l s cr o es fr Hl Hs.
  pose proof (E_lit_at l cr (l ++ s) o es fr (lit_ascii_ok_self l s Hl Hs) Hl) as H.
  rewrite has_prefix_self, takeZ_app_exact, skipn_self in H. exact H.
Qed.

Ltac all_ascii := repeat constructor; unfold ascii; lia.

(** ** field types: base types and containers, nested *)
Inductive ty_spec :=
| T_base (base g : bytes)                                   (* base g             *)
| T_list (w1 : bytes) (t : ty_spec) (g : bytes)              (* list< w1 t > g      *)
| T_set (w1 : bytes) (t : ty_spec) (g : bytes)               (* set< w1 t > g       *)
| T_map (w1 : bytes) (k : ty_spec) (w2 : bytes) (v : ty_spec) (g : bytes).   (* map< w1 k , w2 v > g *)
(** the blanks after an element type belong to that type (its own trailing gap), so the grammar's WS
    before ',' and '>' always finds nothing: every spelling with blanks there is covered *)

Fixpoint render_ty (t : ty_spec) (more : bytes) : bytes :=
  match t with
  | T_base b g => b ++ g ++ more
  | T_list w1 t g => lit_list ++ w1 ++ render_ty t (62 :: g ++ more)
  | T_set w1 t g => lit_set ++ w1 ++ render_ty t (62 :: g ++ more)
  | T_map w1 k w2 v g => lit_map ++ w1 ++ render_ty k (44 :: w2 ++ render_ty v (62 :: g ++ more))
  end.

Fixpoint ty_ok (t : ty_spec) : Prop :=
  match t with
  | T_base b g => is_base b /\ run_of p_blank g
  | T_list w1 t g | T_set w1 t g => run_of p_blank w1 /\ ty_ok t /\ run_of p_blank g
  | T_map w1 k w2 v g => run_of p_blank w1 /\ ty_ok k /\ run_of p_blank w2 /\ ty_ok v /\ run_of p_blank g
  end.

Fixpoint ty_of (t : ty_spec) : ptype :=
  match t with
  | T_base b _ => PType b None None []
  | T_list _ t _ => PType [108; 105; 115; 116] None (Some (ty_of t)) []
  | T_set _ t _ => PType [115; 101; 116] None (Some (ty_of t)) []
  | T_map _ k _ v _ => PType [109; 97; 112] (Some (ty_of k)) (Some (ty_of v)) []
  end.

(** a rendered type begins with one of  b i d s l m *)
Definition ty_start (d : Z) : Prop := d = 98 \/ d = 105 \/ d = 100 \/ d = 115 \/ d = 108 \/ d = 109.

Lemma render_ty_head : forall t more, ty_ok t -> exists d r, render_ty t more = d :: r /\ ty_start d.
Proof.
  intros [b g|w1 t g|w1 t g|w1 k w2 v g] more Hok; cbn [render_ty]; unfold lit_list, lit_set, lit_map; cbn [app];
    try (eexists; eexists; split; [reflexivity | unfold ty_start; lia]).
  destruct Hok as [Hb _]. unfold is_base, base_lits in Hb. cbn [In] in Hb.
  destruct Hb as [<-|[<-|[<-|[<-|[<-|[<-|[<-|[<-|[]]]]]]]]]; cbn [app];
    (eexists; eexists; split; [reflexivity | unfold ty_start; lia]).
Qed.

Lemma ty_head_not : forall t more cs, ty_ok t -> Forall (fun c => ~ ty_start c) cs -> head_not cs (render_ty t more).
Proof.
  intros t more cs Hok Hcs. destruct (render_ty_head t more Hok) as (d & r & -> & Hd). split.
  - unfold ty_start, ascii in *. lia.
  - rewrite Forall_forall in *. intros c Hc Heq. subst c. exact (Hcs d Hc Hd).
Qed.

Ltac not_ty_start := repeat constructor; unfold ty_start; lia.

Lemma ty_ascii_next : forall t more, ty_ok t -> ascii_next (render_ty t more).
Proof. intros t more Hok. exact (head_not_ascii_next [] _ (ty_head_not t more [] Hok (Forall_nil _))). Qed.

(** BaseType (23) fails on the three container keywords *)
Definition is_container_lit (l : bytes) : Prop := l = lit_list \/ l = lit_set \/ l = lit_map.

Lemma base_type_fails : forall l s cr o es fr,
  is_container_lit l -> ascii_next s ->
  evals (CRef 23) cr (st_of (l ++ s) o es) fr (Done false VNil (st_of (l ++ s) o es) fr).
Proof.
  intros l s cr o es fr Hl Hs. destruct shapes as (_ & _ & _ & _ & _ & H23 & H24 & _).
  assert (Hall : Forall (fun b => lit_ascii_ok b (l ++ s) /\ Forall ascii b) base_lits).
  { unfold is_container_lit, lit_list, lit_set, lit_map in Hl. unfold base_lits.
    destruct Hl as [->|[->| ->]];
      repeat (constructor; [split; [cbn [lit_ascii_ok app]; lit_ok Hs | all_ascii]|]); constructor. }
  pose proof (choice_lits base_lits 24 (l ++ s) o es [] Hall) as Hc.
  assert (Hfind : find (fun b => has_prefix b (l ++ s)) base_lits = None).
  { unfold is_container_lit, lit_list, lit_set, lit_map in Hl. destruct Hl as [->|[->| ->]]; reflexivity. }
  rewrite Hfind in Hc.
  eapply E_ref; [exact H23|]. apply E_act_fail. apply E_seq.
  assert (Hname : evals (CLabel "name" (CRef 24)) 23 (st_of (l ++ s) o es) []
                        (Done false VNil (st_of (l ++ s) o es) [])).
  { apply E_label_fail with (fr1 := []). eapply E_ref; [exact H24|]. apply E_act_fail. apply E_seq.
    exact (S_fail 24 _ _ _ _ _ _ _ _ _ (E_choice _ _ _ _ _ Hc)). }
  exact (S_fail 23 _ _ _ _ _ _ _ _ _ Hname).
Qed.

Lemma cpp_type_opt_none : forall cr s o es fr,
  head_not [99] s -> evals (COpt (CRef 29)) cr (st_of s o es) fr (Done true VNil (st_of s o es) fr).
Proof.
  intros cr s o es fr Hs. eapply E_opt.
  refine (keyword_rule_fails 29 99 [112; 112; 95; 116; 121; 112; 101] cr s o es [] _ Hs).
  eexists; eexists; split; [vm_compute; reflexivity | all_ascii].
Qed.

(** MapType (26) and SetType (27) fail in place when the keyword is another one *)
Lemma map_type_fails : forall cr s o es fr,
  head_not [99; 109] s -> evals (CRef 26) cr (st_of s o es) fr (Done false VNil (st_of s o es) fr).
Proof.
  intros cr s o es fr Hs. destruct struct_shapes as (_ & _ & _ & _ & _ & _ & _ & _ & H26 & _).
  eapply E_ref; [exact H26|]. apply E_act_fail. apply E_seq.
  eapply S_ok; [apply cpp_type_opt_none; sub_head Hs|].
  assert (H109 : head_not [109] s) by sub_head Hs.
  exact (S_fail 26 _ _ _ _ _ _ _ _ _ (lit_fails 109 [97; 112; 60] 26 s o es [] ltac:(all_ascii) H109)).
Qed.

Lemma set_type_fails : forall cr s o es fr,
  head_not [99; 115] s -> evals (CRef 27) cr (st_of s o es) fr (Done false VNil (st_of s o es) fr).
Proof.
  intros cr s o es fr Hs. destruct struct_shapes as (_ & _ & _ & _ & _ & _ & _ & _ & _ & H27 & _).
  eapply E_ref; [exact H27|]. apply E_act_fail. apply E_seq.
  eapply S_ok; [apply cpp_type_opt_none; sub_head Hs|].
  assert (H115 : head_not [115] s) by sub_head Hs.
  exact (S_fail 27 _ _ _ _ _ _ _ _ _ (lit_fails 115 [101; 116; 60] 27 s o es [] ltac:(all_ascii) H115)).
Qed.

Lemma gt_head_not : forall x cs, Forall (fun c => 62 <> c) cs -> head_not cs (62 :: x).
Proof. intros. split; [unfold ascii; lia | assumption]. Qed.
Lemma comma_head_not : forall x cs, Forall (fun c => 44 <> c) cs -> head_not cs (44 :: x).
Proof. intros. split; [unfold ascii; lia | assumption]. Qed.

(** the common ending of the three container rules:  WS '>' _ annotations?  *)
Lemma container_close : forall cr st0 g more o es fr acc,
  run_of p_blank g -> head_not [32; 9; 13; 47; 40] more ->
  exists o', seqs cr st0 [CRef 57; CLit [62]; CRef 56; anns_opt] (st_of (62 :: g ++ more) o es) fr acc
       (Done true (VList (rev (VNil :: VList (bytes_vals g) :: VBytes [62] :: VList [] :: acc)))
             (st_of more o' es) (("annotations"%string, VNil) :: fr)).
Proof.
  intros cr st0 g more o es fr acc Hg Hm.
  assert (Hn : ascii_next (g ++ more)) by exact (run_app_ascii_next p_blank g more Hg (head_not_ascii_next _ more Hm)).
  eexists.
  eapply S_ok; [exact (ws_run [] (62 :: g ++ more) cr o es fr ltac:(constructor) (gt_head_not _ [32; 9; 13] ltac:(repeat constructor; lia)))|].
  eapply S_ok; [exact (char_lit_ok 62 cr (g ++ more) _ es fr ltac:(unfold ascii; lia) Hn)|].
  eapply S_ok; [refine (gap_inline g more cr _ es fr Hg _); sub_head Hm|].
  eapply S_ok; [refine (anns_opt_nil cr more _ es fr _); sub_head Hm|].
  apply S_nil.
Qed.

(** a base-type keyword must end where it ends: what follows the type's own blanks cannot continue a
    word (since the repair of C10-F8a; before it  i32x  was read as  i32  followed by  x) *)
Definition ty_sep (t : ty_spec) (more : bytes) : Prop :=
  match t with T_base _ g => stops p_cont (g ++ more) | _ => True end.
(** sufficient: the keyword is followed by at least one blank *)
Definition ty_tight (t : ty_spec) : Prop := match t with T_base _ g => g <> [] | _ => True end.

Lemma ty_tight_sep : forall t more, ty_ok t -> ty_tight t -> ty_sep t more.
Proof. intros [b g|? ? ?|? ? ?|? ? ? ? ?] more Hok Ht; cbn in *; try exact I. exact (blanks_stop g more (proj2 Hok) Ht). Qed.

Lemma ty_sep_punct : forall t d x, ty_ok t -> ascii d -> p_cont d = false -> ty_sep t (d :: x).
Proof.
  intros [b g|? ? ?|? ? ?|? ? ? ? ?] d x Hok Hd Hp; cbn [ty_sep]; try exact I.
  destruct Hok as [_ Hg]. destruct g as [|c g]; cbn [app]; [split; assumption|].
  exact (blanks_stop (c :: g) (d :: x) Hg ltac:(discriminate)).
Qed.

(** what FieldType (22) does on a rendered type *)
Definition ft_spec (t : ty_spec) : Prop := forall more cr o es fr,
  head_not [32; 9; 13; 47; 40] more -> ty_sep t more ->
  exists o', evals (CRef 22) cr (st_of (render_ty t more) o es) fr
                   (Done true (VType (ty_of t)) (st_of more o' es) fr).

Lemma gt_follow : forall x, head_not [32; 9; 13; 47; 40] (62 :: x).
Proof. intros. apply gt_head_not. repeat constructor; lia. Qed.
Lemma comma_follow : forall x, head_not [32; 9; 13; 47; 40] (44 :: x).
Proof. intros. apply comma_head_not. repeat constructor; lia. Qed.

(** ListType (28) *)
Lemma list_type_rule : forall w1 t g more cr o es fr,
  ft_spec t -> run_of p_blank w1 -> ty_ok t -> run_of p_blank g -> head_not [32; 9; 13; 47; 40] more ->
  exists o', evals (CRef 28) cr (st_of (render_ty (T_list w1 t g) more) o es) fr
                   (Done true (VType (ty_of (T_list w1 t g))) (st_of more o' es) fr).
Proof.
  intros w1 t g more cr o es fr IH Hw1 Hokt Hg Hm.
  destruct struct_shapes as (_ & _ & _ & _ & _ & _ & _ & _ & _ & _ & H28 & _).
  cbn [render_ty ty_of].
  destruct (IH (62 :: g ++ more) 28%nat (o + Z.of_nat (List.length lit_list) + Z.of_nat (List.length w1)) es []
               (gt_follow _) (ty_sep_punct t 62 _ Hokt ltac:(unfold ascii; lia) eq_refl)) as [o1 Ht].
  destruct (container_close 28 (st_of (lit_list ++ w1 ++ render_ty t (62 :: g ++ more)) o es) g more o1 es
              [("typ"%string, VType (ty_of t))] [VType (ty_of t); VList (bytes_vals w1); VBytes lit_list] Hg Hm)
    as [o2 Hclose].
  exists o2. eapply E_ref; [exact H28|]. eapply E_act_ok.
  - apply E_seq.
    eapply S_ok; [refine (lit_here lit_list _ 28 o es [] ltac:(all_ascii) _);
                  exact (run_app_ascii_next p_blank w1 _ Hw1 (ty_ascii_next t _ Hokt))|].
    eapply S_ok; [refine (ws_run w1 _ 28 _ es [] Hw1 _); apply ty_head_not; [exact Hokt | not_ty_start]|].
    eapply S_ok; [apply E_label_ok with (fr1 := []); exact Ht|].
    exact Hclose.
  - reflexivity.
Qed.

(** SetType (27) *)
Lemma set_type_rule : forall w1 t g more cr o es fr,
  ft_spec t -> run_of p_blank w1 -> ty_ok t -> run_of p_blank g -> head_not [32; 9; 13; 47; 40] more ->
  exists o', evals (CRef 27) cr (st_of (render_ty (T_set w1 t g) more) o es) fr
                   (Done true (VType (ty_of (T_set w1 t g))) (st_of more o' es) fr).
Proof.
  intros w1 t g more cr o es fr IH Hw1 Hokt Hg Hm.
  destruct struct_shapes as (_ & _ & _ & _ & _ & _ & _ & _ & _ & H27 & _).
  cbn [render_ty ty_of].
  destruct (IH (62 :: g ++ more) 27%nat (o + Z.of_nat (List.length lit_set) + Z.of_nat (List.length w1)) es []
               (gt_follow _) (ty_sep_punct t 62 _ Hokt ltac:(unfold ascii; lia) eq_refl)) as [o1 Ht].
  destruct (container_close 27 (st_of (lit_set ++ w1 ++ render_ty t (62 :: g ++ more)) o es) g more o1 es
              [("typ"%string, VType (ty_of t))] [VType (ty_of t); VList (bytes_vals w1); VBytes lit_set; VNil] Hg Hm)
    as [o2 Hclose].
  exists o2. eapply E_ref; [exact H27|]. eapply E_act_ok.
  - apply E_seq.
    eapply S_ok; [apply cpp_type_opt_none; unfold lit_set; cbn [app]; split; [unfold ascii; lia | repeat constructor; lia]|].
    eapply S_ok; [refine (lit_here lit_set _ 27 o es [] ltac:(all_ascii) _);
                  exact (run_app_ascii_next p_blank w1 _ Hw1 (ty_ascii_next t _ Hokt))|].
    eapply S_ok; [refine (ws_run w1 _ 27 _ es [] Hw1 _); apply ty_head_not; [exact Hokt | not_ty_start]|].
    eapply S_ok; [apply E_label_ok with (fr1 := []); exact Ht|].
    exact Hclose.
  - reflexivity.
Qed.

(** MapType (26) *)
Lemma map_type_rule : forall w1 k w2 v g more cr o es fr,
  ft_spec k -> ft_spec v -> run_of p_blank w1 -> ty_ok k -> run_of p_blank w2 -> ty_ok v -> run_of p_blank g ->
  head_not [32; 9; 13; 47; 40] more ->
  exists o', evals (CRef 26) cr (st_of (render_ty (T_map w1 k w2 v g) more) o es) fr
                   (Done true (VType (ty_of (T_map w1 k w2 v g))) (st_of more o' es) fr).
Proof.
  intros w1 k w2 v g more cr o es fr IHk IHv Hw1 Hokk Hw2 Hokv Hg Hm.
  destruct struct_shapes as (_ & _ & _ & _ & _ & _ & _ & _ & H26 & _).
  cbn [render_ty ty_of].
  set (tailv := 62 :: g ++ more).
  set (tailk := 44 :: w2 ++ render_ty v tailv).
  destruct (IHk tailk 26%nat (o + Z.of_nat (List.length lit_map) + Z.of_nat (List.length w1)) es []
                (comma_follow _) (ty_sep_punct k 44 _ Hokk ltac:(unfold ascii; lia) eq_refl)) as [o1 Hk].
  destruct (IHv tailv 26%nat (o1 + Z.of_nat (@List.length Z []) + 1 + Z.of_nat (List.length w2)) es
                [] (gt_follow _) (ty_sep_punct v 62 _ Hokv ltac:(unfold ascii; lia) eq_refl)) as [o2 Hv].
  destruct (container_close 26 (st_of (lit_map ++ w1 ++ render_ty k tailk) o es) g more o2 es
              [("value"%string, VType (ty_of v)); ("key"%string, VType (ty_of k))]
              [VType (ty_of v); VList (bytes_vals w2); VBytes [44]; VList (bytes_vals []); VType (ty_of k);
               VList (bytes_vals w1); VBytes lit_map; VNil] Hg Hm)
    as [o3 Hclose].
  exists o3. eapply E_ref; [exact H26|]. eapply E_act_ok.
  - apply E_seq.
    eapply S_ok; [apply cpp_type_opt_none; unfold lit_map; cbn [app]; split; [unfold ascii; lia | repeat constructor; lia]|].
    eapply S_ok; [refine (lit_here lit_map _ 26 o es [] ltac:(all_ascii) _);
                  exact (run_app_ascii_next p_blank w1 _ Hw1 (ty_ascii_next k _ Hokk))|].
    eapply S_ok; [refine (ws_run w1 _ 26 _ es [] Hw1 _); apply ty_head_not; [exact Hokk | not_ty_start]|].
    eapply S_ok; [apply E_label_ok with (fr1 := []); exact Hk|].
    eapply S_ok; [exact (ws_run [] tailk 26 o1 es _ ltac:(constructor) (comma_head_not _ [32; 9; 13] ltac:(repeat constructor; lia)))|].
    eapply S_ok; [refine (char_lit_ok 44 26 (w2 ++ render_ty v tailv) _ es _ ltac:(unfold ascii; lia) _);
                  exact (run_app_ascii_next p_blank w2 _ Hw2 (ty_ascii_next v _ Hokv))|].
    eapply S_ok; [refine (ws_run w2 _ 26 _ es _ Hw2 _); apply ty_head_not; [exact Hokv | not_ty_start]|].
    eapply S_ok; [apply E_label_ok with (fr1 := []); exact Hv|].
    exact Hclose.
  - reflexivity.
Qed.

(** ContainerType (25) and FieldType (22) on any rendered type *)
Theorem field_type_rule : forall t, ty_ok t -> ft_spec t.
Proof.
  induction t as [b g|w1 t IH g|w1 t IH g|w1 k IHk w2 v IHv g]; intros Hok more cr o es fr Hm Hsep.
  - destruct Hok as [Hb Hg]. eexists. cbn [render_ty ty_of]. exact (field_type_base b g more cr o es fr Hb Hg Hm Hsep).
  - destruct Hok as (Hw1 & Hokt & Hg).
    destruct shapes as (_ & _ & _ & _ & H22 & _). destruct struct_shapes as (_ & _ & _ & _ & _ & _ & _ & H25 & _).
    destruct (list_type_rule w1 t g more 25 o es [] (IH Hokt) Hw1 Hokt Hg Hm) as [o' Hl].
    assert (Hn : ascii_next (w1 ++ render_ty t (62 :: g ++ more)))
      by exact (run_app_ascii_next p_blank w1 _ Hw1 (ty_ascii_next t _ Hokt)).
    exists o'. eapply E_ref; [exact H22|]. eapply E_act_ok.
    + apply E_label_ok with (fr1 := []). apply E_choice.
      eapply C_next; [exact (base_type_fails lit_list _ 22 o es [] (or_introl eq_refl) Hn)|].
      eapply C_ok. eapply E_ref; [exact H25|]. eapply E_act_ok.
      * apply E_label_ok with (fr1 := []). apply E_choice.
        eapply C_next; [apply map_type_fails; cbn [render_ty]; unfold lit_list; cbn [app];
                        split; [unfold ascii; lia | repeat constructor; lia]|].
        eapply C_next; [apply set_type_fails; cbn [render_ty]; unfold lit_list; cbn [app];
                        split; [unfold ascii; lia | repeat constructor; lia]|].
        eapply C_ok. exact Hl.
      * reflexivity.
    + reflexivity.
  - destruct Hok as (Hw1 & Hokt & Hg).
    destruct shapes as (_ & _ & _ & _ & H22 & _). destruct struct_shapes as (_ & _ & _ & _ & _ & _ & _ & H25 & _).
    destruct (set_type_rule w1 t g more 25 o es [] (IH Hokt) Hw1 Hokt Hg Hm) as [o' Hl].
    assert (Hn : ascii_next (w1 ++ render_ty t (62 :: g ++ more)))
      by exact (run_app_ascii_next p_blank w1 _ Hw1 (ty_ascii_next t _ Hokt)).
    exists o'. eapply E_ref; [exact H22|]. eapply E_act_ok.
    + apply E_label_ok with (fr1 := []). apply E_choice.
      eapply C_next; [exact (base_type_fails lit_set _ 22 o es [] (or_intror (or_introl eq_refl)) Hn)|].
      eapply C_ok. eapply E_ref; [exact H25|]. eapply E_act_ok.
      * apply E_label_ok with (fr1 := []). apply E_choice.
        eapply C_next; [apply map_type_fails; cbn [render_ty]; unfold lit_set; cbn [app];
                        split; [unfold ascii; lia | repeat constructor; lia]|].
        eapply C_ok. exact Hl.
      * reflexivity.
    + reflexivity.
  - destruct Hok as (Hw1 & Hokk & Hw2 & Hokv & Hg).
    destruct shapes as (_ & _ & _ & _ & H22 & _). destruct struct_shapes as (_ & _ & _ & _ & _ & _ & _ & H25 & _).
    destruct (map_type_rule w1 k w2 v g more 25 o es [] (IHk Hokk) (IHv Hokv) Hw1 Hokk Hw2 Hokv Hg Hm) as [o' Hl].
    assert (Hn : ascii_next (w1 ++ render_ty k (44 :: w2 ++ render_ty v (62 :: g ++ more))))
      by exact (run_app_ascii_next p_blank w1 _ Hw1 (ty_ascii_next k _ Hokk)).
    exists o'. eapply E_ref; [exact H22|]. eapply E_act_ok.
    + apply E_label_ok with (fr1 := []). apply E_choice.
      eapply C_next; [exact (base_type_fails lit_map _ 22 o es [] (or_intror (or_intror eq_refl)) Hn)|].
      eapply C_ok. eapply E_ref; [exact H25|]. eapply E_act_ok.
      * apply E_label_ok with (fr1 := []). apply E_choice.
        eapply C_ok. exact Hl.
      * reflexivity.
    + reflexivity.
Qed.

(** ** IntConstant (34) fails in place on anything that is neither a sign nor a digit *)
Definition not_int_start (s : bytes) : Prop :=
  match s with [] => True | d :: _ => ascii d /\ p_sign d = false /\ p_digit d = false end.

Lemma sign_class_matches : matches_char (CClass [45; 43] [] false) p_sign 1.
Proof. exact (class_matches [45; 43] []). Qed.

Lemma int_constant_fails : forall cr s o es fr,
  not_int_start s -> evals (CRef 34) cr (st_of s o es) fr (Done false VNil (st_of s o es) fr).
Proof.
  intros cr s o es fr Hs. destruct struct_shapes as (_ & _ & _ & _ & _ & _ & _ & _ & _ & _ & _ & _ & H34 & _).
  destruct sign_class_matches as (_ & Sn & Se). destruct digit_matches as (_ & Dn & De).
  assert (Hsign : evals (COpt (CClass [45; 43] [] false)) 34 (st_of s o es) [] (Done true VNil (st_of s o es) [])).
  { eapply E_opt. apply (E_of_bound 1). intros f Hf. destruct s as [|d s].
    - exact (Se f 34%nat o es [] Hf).
    - destruct Hs as (Hd & Hsg & _). exact (Sn f 34%nat d s o es [] Hf Hd Hsg). }
  assert (Hdig : evals (CPlus (CRef 48)) 34 (st_of s o es) [] (Done false VNil (st_of s o es) [])).
  { eapply E_plus_fail. apply (E_of_bound 2). intros f Hf. destruct s as [|d s].
    - exact (De f 34%nat o es [] Hf).
    - destruct Hs as (Hd & _ & Hdg). exact (Dn f 34%nat d s o es [] Hf Hd Hdg). }
  eapply E_ref; [exact H34|]. apply E_act_fail. apply E_seq.
  eapply S_ok; [exact Hsign|].
  exact (S_fail 34 _ _ _ _ _ _ _ _ _ Hdig).
Qed.

(** ** FieldModifier (16) *)
Inductive fmod_spec := M_default | M_required (g : bytes) | M_optional (g : bytes).
Definition render_mod (m : fmod_spec) (rst : bytes) : bytes :=
  match m with M_default => rst | M_required g => lit_required ++ g ++ rst | M_optional g => lit_optional ++ g ++ rst end.
Definition mod_gap (m : fmod_spec) : bytes := match m with M_default => [] | M_required g | M_optional g => g end.
(** the keyword is followed by at least one blank (since the repair of C10-F8b  optionalThing  is a type name) *)
Definition mod_ok (m : fmod_spec) : Prop :=
  run_of p_blank (mod_gap m) /\ match m with M_default => True | _ => mod_gap m <> [] end.
Definition mod_of (m : fmod_spec) : Z :=
  match m with M_default => m_default | M_required _ => m_required | M_optional _ => m_optional end.
Definition mod_val (m : fmod_spec) : val := match m with M_default => VNil | _ => VMod (mod_of m) end.

Definition ty_headed (rst : bytes) : Prop := exists d r, rst = d :: r /\ ty_start d.

Lemma ty_headed_head_not : forall rst cs, ty_headed rst -> Forall (fun c => ~ ty_start c) cs -> head_not cs rst.
Proof.
  intros rst cs (d & r & -> & Hd) Hcs. split.
  - unfold ty_start, ascii in *. lia.
  - rewrite Forall_forall in *. intros c Hc Heq. subst c. exact (Hcs d Hc Hd).
Qed.

Lemma field_mod_rule : forall m rst cr o es fr,
  mod_ok m -> ty_headed rst ->
  exists o', evals (CLabel "mod" (COpt (CRef 16))) cr (st_of (render_mod m rst) o es) fr
                   (Done true (mod_val m) (st_of (mod_gap m ++ rst) o' es) (("mod"%string, mod_val m) :: fr)).
Proof.
  intros m rst cr o es fr [Hm Hmne] Hr.
  destruct struct_shapes as (_ & _ & _ & _ & _ & _ & H16 & _).
  assert (Hrn : ascii_next rst) by exact (head_not_ascii_next [] rst (ty_headed_head_not rst [] Hr (Forall_nil _))).
  assert (Hact : forall (l s : bytes) o1,
    finish_action action val aerr run_action AFieldModifier1 16 (st_of (l ++ s) o1 es)
                  (st_of s (o1 + Z.of_nat (List.length l)) es) []
    = Done true (VMod (if beqb l required_text then m_required else m_optional))
           (st_of s (o1 + Z.of_nat (List.length l)) es) []).
  { intros l s o1. unfold finish_action. cbn [rest off]. unfold run_action, run_action_opt.
    replace (o1 + Z.of_nat (List.length l) - o1) with (Z.of_nat (List.length l)) by lia.
    rewrite takeZ_app_exact. reflexivity. }
  destruct m as [|g|g]; cbn [render_mod mod_gap mod_val mod_of app] in *.
  - exists o. apply E_label_ok with (fr1 := []). eapply E_opt.
    assert (H114 : head_not [114] rst) by (apply ty_headed_head_not; [exact Hr | not_ty_start]).
    assert (H111 : head_not [111] rst) by (apply ty_headed_head_not; [exact Hr | not_ty_start]).
    assert (Hch : evals (CChoice [CLit lit_required; CLit lit_optional]) 16 (st_of rst o es) []
                        (Done false VNil (st_of rst o es) [])).
    { apply E_choice.
      eapply C_next; [exact (lit_fails 114 [101; 113; 117; 105; 114; 101; 100] 16 rst o es [] ltac:(all_ascii) H114)|].
      eapply C_next; [exact (lit_fails 111 [112; 116; 105; 111; 110; 97; 108] 16 rst o es [] ltac:(all_ascii) H111)|].
      apply C_nil. }
    eapply E_ref; [exact H16|]. apply E_act_fail. apply E_seq.
    exact (S_fail 16 _ _ _ _ _ _ _ _ _ Hch).
  - assert (Hn : ascii_next (g ++ rst)) by exact (run_app_ascii_next p_blank g rst Hm Hrn).
    eexists. apply E_label_ok with (fr1 := []). eapply E_opt.
    eapply E_ref; [exact H16|]. eapply E_act_ok.
    + apply E_seq.
      eapply S_ok; [apply E_choice; eapply C_ok; exact (lit_here lit_required (g ++ rst) 16 o es [] ltac:(all_ascii) Hn)|].
      eapply S_ok; [exact (kw_guard_ok 16 (g ++ rst) _ es [] (blanks_stop g rst Hm Hmne))|]. apply S_nil.
    + rewrite Hact. reflexivity.
  - assert (Hn : ascii_next (g ++ rst)) by exact (run_app_ascii_next p_blank g rst Hm Hrn).
    eexists. apply E_label_ok with (fr1 := []). eapply E_opt.
    eapply E_ref; [exact H16|]. eapply E_act_ok.
    + apply E_seq. eapply S_ok.
      { apply E_choice.
      eapply C_next; [refine (lit_fails 114 [101; 113; 117; 105; 114; 101; 100] 16 (lit_optional ++ g ++ rst) o es [] ltac:(all_ascii) _);
                      unfold lit_optional; cbn [app]; split; [unfold ascii; lia | repeat constructor; lia]|].
      eapply C_ok. exact (lit_here lit_optional (g ++ rst) 16 o es [] ltac:(all_ascii) Hn). }
      eapply S_ok; [exact (kw_guard_ok 16 (g ++ rst) _ es [] (blanks_stop g rst Hm Hmne))|]. apply S_nil.
    + rewrite Hact. reflexivity.
Qed.

(** ** one field:  id g1 ':' g2 [modifier g3] type name  W | W sep W'  *)
Inductive fd_tail := FT_plain (W : bytes) | FT_sep (W : bytes) (sep : Z) (W' : bytes).
Record fd_spec := mk_fd { fd_id : Z; fd_g1 : bytes; fd_g2 : bytes; fd_mod : fmod_spec; fd_ty : ty_spec;
                          fd_c : Z; fd_t : bytes; fd_tl : fd_tail }.

Definition fd_tail_text (tl : fd_tail) (more : bytes) : bytes :=
  match tl with FT_plain W => W ++ more | FT_sep W sep W' => W ++ sep :: W' ++ more end.
Definition render_fd (f : fd_spec) (more : bytes) : bytes :=
  render_int (fd_id f) ++ fd_g1 f ++ 58 :: fd_g2 f
  ++ render_mod (fd_mod f) (render_ty (fd_ty f) ((fd_c f :: fd_t f) ++ fd_tail_text (fd_tl f) more)).
Definition field_of (f : fd_spec) : field :=
  mkfield None (fd_id f) (fd_c f :: fd_t f) (mod_of (fd_mod f)) (ty_of (fd_ty f)) None [].

(** what may follow a field: the next field's id or the closing '}' / ')' *)
Definition close_or_id (more : bytes) : Prop :=
  exists d r, more = d :: r /\ ascii d /\ (d = 125 \/ d = 41 \/ d = 45 \/ p_digit d = true).

Definition fbig : list Z := [32; 9; 13; 10; 47; 35; 40; 61; 44; 59].

Lemma p_digit_range : forall d, p_digit d = true -> 48 <= d <= 57.
Proof.
  intros d H. unfold p_digit in H. cbn [in_chars in_ranges orb] in H. rewrite orb_false_r in H.
  apply andb_true_iff in H. destruct H as [H1 H2]. apply Z.leb_le in H1. apply Z.leb_le in H2. lia.
Qed.

Lemma close_or_id_big : forall more, close_or_id more -> head_not fbig more.
Proof.
  intros more (d & r & -> & Hd & Hk). split; [exact Hd|]. unfold fbig.
  destruct Hk as [->|[->|[->|Hp]]]; try (repeat constructor; lia).
  apply p_digit_range in Hp. repeat constructor; lia.
Qed.

Definition fd_tail_ok (tl : fd_tail) (more : bytes) : Prop :=
  match tl with
  | FT_plain W => run_of p_wsnl W /\ (W = [] -> stops p_cont more)
  | FT_sep W sep W' => run_of p_wsnl W /\ is_sep sep /\ run_of p_wsnl W'
  end.
Definition fd_ok (f : fd_spec) (more : bytes) : Prop :=
  int64 (fd_id f) /\ run_of p_blank (fd_g1 f) /\ run_of p_blank (fd_g2 f) /\ mod_ok (fd_mod f)
  /\ (ty_ok (fd_ty f) /\ ty_tight (fd_ty f))
  /\ ascii (fd_c f) /\ p_start (fd_c f) = true /\ run_of p_cont (fd_t f) /\ fd_tail_ok (fd_tl f) more.

Definition def_opt : cexpr action := CLabel "def" (COpt (CSeq [CLit [61]; CRef 56; CRef 30])).

Lemma def_opt_none : forall cr s o es fr,
  head_not [61] s -> evals def_opt cr (st_of s o es) fr (Done true VNil (st_of s o es) (("def"%string, VNil) :: fr)).
Proof.
  intros cr s o es fr Hs. apply E_label_ok with (fr1 := []). eapply E_opt. apply E_seq.
  exact (S_fail cr _ _ _ _ _ _ _ _ _ (lit_fails 61 [] cr s o es [] ltac:(all_ascii) Hs)).
Qed.

(** the part of the Field rule after the name *)
Definition field_suffix : list (cexpr action) := [CRef 55; def_opt; CRef 56; anns_opt; COpt (CRef 46)].

Lemma field_close : forall tl more cr st0 o es fr acc,
  fd_tail_ok tl more -> close_or_id more ->
  exists o' W' vs, run_of p_wsnl W'
    /\ seqs cr st0 field_suffix (st_of (fd_tail_text tl more) o es) fr acc
            (Done true (VList (rev acc ++ vs)) (st_of (W' ++ more) o' es)
                  (("annotations"%string, VNil) :: ("def"%string, VNil) :: fr)).
Proof.
  intros tl more cr st0 o es fr acc Htl Hm. pose proof (close_or_id_big more Hm) as Hbig. unfold fbig in Hbig.
  destruct tl as [W|W sep W']; cbn [fd_tail_ok fd_tail_text] in *.
  - destruct Htl as [HW _]. exists (o + Z.of_nat (List.length W)), [].
    exists [VList (bytes_vals W); VNil; VList (bytes_vals []); VNil; VNil]. split; [constructor|].
    unfold field_suffix. cbn [app].
    eapply S_ok; [refine (gap_free W more cr o es fr HW _); sub_head Hbig|].
    eapply S_ok; [refine (def_opt_none cr more _ es fr _); sub_head Hbig|].
    eapply S_ok; [refine (gap_inline [] more cr _ es _ ltac:(constructor) _); sub_head Hbig|].
    eapply S_ok; [refine (anns_opt_nil cr more _ es _ _); sub_head Hbig|].
    eapply S_ok; [refine (sep_opt_none cr more _ es _ _); sub_head Hbig|].
    replace (o + Z.of_nat (List.length W) + Z.of_nat (@List.length Z [])) with (o + Z.of_nat (List.length W)) by (cbn; lia).
    pose proof (S_nil cr st0 (st_of more (o + Z.of_nat (List.length W)) es)
                      (("annotations"%string, VNil) :: ("def"%string, VNil) :: fr)
                      (VNil :: VNil :: VList (bytes_vals []) :: VNil :: VList (bytes_vals W) :: acc)) as Hnil.
    cbn [rev] in Hnil. rewrite <- !app_assoc in Hnil. cbn [app] in Hnil. exact Hnil.
  - destruct Htl as (HW & Hsep & HW'). destruct (sep_facts sep (W' ++ more) Hsep) as (Hsa & Hsc & Hsd & Hs5 & Hs61).
    assert (Hs6 : head_not [32; 9; 13; 10; 47; 35] (sep :: W' ++ more)).
    { split; [exact Hsa|]. destruct Hsep as [-> | ->]; repeat constructor; lia. }
    assert (Hn : ascii_next (W' ++ more)).
    { apply (run_app_ascii_next p_wsnl W' more HW'). exact (head_not_ascii_next _ more Hbig). }
    exists (o + Z.of_nat (List.length W) + 1), W'.
    exists [VList (bytes_vals W); VNil; VList (bytes_vals []); VNil; VBytes [sep]]. split; [exact HW'|].
    unfold field_suffix.
    eapply S_ok; [exact (gap_free W (sep :: W' ++ more) cr o es fr HW Hs6)|].
    eapply S_ok; [exact (def_opt_none cr (sep :: W' ++ more) _ es fr Hs61)|].
    eapply S_ok; [refine (gap_inline [] (sep :: W' ++ more) cr _ es _ ltac:(constructor) _); sub_head Hs5|].
    eapply S_ok; [refine (anns_opt_nil cr (sep :: W' ++ more) _ es _ _); sub_head Hs5|].
    eapply S_ok; [exact (sep_opt_some sep cr (W' ++ more) _ es _ Hsep Hn)|].
    replace (o + Z.of_nat (List.length W) + Z.of_nat (@List.length Z []) + 1) with (o + Z.of_nat (List.length W) + 1) by (cbn; lia).
    pose proof (S_nil cr st0 (st_of (W' ++ more) (o + Z.of_nat (List.length W) + 1) es)
                      (("annotations"%string, VNil) :: ("def"%string, VNil) :: fr)
                      (VBytes [sep] :: VNil :: VList (bytes_vals []) :: VNil :: VList (bytes_vals W) :: acc)) as Hnil.
    cbn [rev] in Hnil. rewrite <- !app_assoc in Hnil. cbn [app] in Hnil. exact Hnil.
Qed.

Lemma colon_head_not : forall x cs, Forall (fun c => 58 <> c) cs -> head_not cs (58 :: x).
Proof. intros. split; [unfold ascii; lia | assumption]. Qed.

Lemma render_mod_head : forall m rst, ty_headed rst -> head_not [32; 9; 13; 47] (render_mod m rst).
Proof.
  intros [|g|g] rst Hr; cbn [render_mod]; unfold lit_required, lit_optional; cbn [app];
    try (split; [unfold ascii; lia | repeat constructor; lia]).
  apply ty_headed_head_not; [exact Hr | not_ty_start].
Qed.

Lemma fd_tail_stops : forall tl more, fd_tail_ok tl more -> stops p_cont (fd_tail_text tl more).
Proof.
  intros [W|W sep W'] more Htl; cbn [fd_tail_ok fd_tail_text] in *.
  - destruct Htl as [HW Hlast]. destruct W as [|d W]; cbn [app]; [exact (Hlast eq_refl)|].
    inversion HW as [|? ? [Hd Hp] _]; subst. split; [exact Hd | exact (wsnl_not_cont d Hp)].
  - destruct Htl as (HW & Hsep & _). destruct W as [|d W]; cbn [app].
    + destruct (sep_facts sep (W' ++ more) Hsep) as (Hsa & Hsc & _). split; assumption.
    + inversion HW as [|? ? [Hd Hp] _]; subst. split; [exact Hd | exact (wsnl_not_cont d Hp)].
Qed.

(** Field (15) *)
Lemma field_rule : forall f more cr o es fr,
  fd_ok f more -> close_or_id more ->
  exists o' W', run_of p_wsnl W'
    /\ evals (CRef 15) cr (st_of (render_fd f more) o es) fr
             (Done true (VField (field_of f)) (st_of (W' ++ more) o' es) fr).
Proof.
  intros [z g1 g2 m ty c t tl] more cr o es fr (Hz & Hg1 & Hg2 & Hmod & [Hty Htight] & Hc & Hp & Ht & Htl) Hm.
  unfold render_fd, field_of. cbn [fd_id fd_g1 fd_g2 fd_mod fd_ty fd_c fd_t fd_tl] in *.
  destruct struct_shapes as (_ & _ & _ & _ & _ & H15 & _).
  set (tailtxt := fd_tail_text tl more).
  set (named := (c :: t) ++ tailtxt).
  set (typed := render_ty ty named).
  set (modded := render_mod m typed).
  assert (Htyped : ty_headed typed) by exact (render_ty_head ty named Hty).
  assert (Hmodded : head_not [32; 9; 13; 47] modded) by exact (render_mod_head m typed Htyped).
  assert (Hnamed : head_not [32; 9; 13; 47; 40] named) by exact (start_head_not c _ Hc Hp).
  assert (Hid : head_not [32; 9; 13; 47] (render_int z ++ g1 ++ 58 :: g2 ++ modded)) by exact (render_int_head z _ Hz).
  assert (Hcolon : stops p_digit (g1 ++ 58 :: g2 ++ modded)).
  { apply blank_led_stops; [exact Hg1 | exact blank_not_digit | split; [unfold ascii; lia | reflexivity]]. }
  (* offsets, in the order the rule produces them *)
  set (o1 := o + Z.of_nat (List.length (render_int z)) + Z.of_nat (List.length g1) + 1 + Z.of_nat (List.length g2)).
  destruct (field_mod_rule m typed 15 o1 es
              [("id"%string, VInt z); ("docstr"%string, VNil)] Hmod Htyped) as [o2 Hmodr].
  destruct (field_type_rule ty Hty named 15%nat (o2 + Z.of_nat (List.length (mod_gap m))) es [] Hnamed
              (ty_tight_sep ty named Hty Htight)) as [o3 Htyr].
  destruct (field_close tl more 15 (st_of (render_int z ++ g1 ++ 58 :: g2 ++ modded) o es)
              (o3 + Z.of_nat (@List.length Z []) + Z.of_nat (List.length (c :: t))) es
              [("name"%string, VIdent (c :: t)); ("typ"%string, VType (ty_of ty)); ("mod"%string, mod_val m);
               ("id"%string, VInt z); ("docstr"%string, VNil)]
              [VIdent (c :: t); VList (bytes_vals []); VType (ty_of ty); VList (bytes_vals (mod_gap m)); mod_val m;
               VList (bytes_vals g2); VBytes [58]; VList (bytes_vals g1); VInt z; VNil]
              Htl Hm) as (o4 & W' & vs & HW' & Hclose).
  exists o4, W'. split; [exact HW'|].
  eapply E_ref; [exact H15|]. eapply E_act_ok.
  - apply E_seq.
    eapply S_ok; [refine (doc_opt_nil 15 _ o es [] _); sub_head Hid|].
    eapply S_ok; [apply E_label_ok with (fr1 := []); apply (E_of_bound 32); intros f Hf;
                  exact (int_const_roundtrip z _ f 15%nat o es [] Hz Hcolon Hf)|].
    eapply S_ok; [exact (gap_inline g1 (58 :: g2 ++ modded) 15 _ es _ Hg1
                           (colon_head_not _ [32; 9; 13; 47] ltac:(repeat constructor; lia)))|].
    eapply S_ok; [refine (char_lit_ok 58 15 (g2 ++ modded) _ es _ ltac:(unfold ascii; lia) _);
                  exact (run_app_ascii_next p_blank g2 modded Hg2 (head_not_ascii_next _ _ Hmodded))|].
    eapply S_ok; [exact (gap_inline g2 modded 15 _ es _ Hg2 Hmodded)|].
    eapply S_ok; [exact Hmodr|].
    eapply S_ok; [refine (gap_inline (mod_gap m) typed 15 o2 es _ (proj1 Hmod) _);
                  apply ty_headed_head_not; [exact Htyped | not_ty_start]|].
    eapply S_ok; [apply E_label_ok with (fr1 := []); exact Htyr|].
    eapply S_ok; [refine (gap_inline [] named 15 o3 es _ ltac:(constructor) _); sub_head Hnamed|].
    eapply S_ok; [apply E_label_ok with (fr1 := []); apply (E_of_bound (List.length t + 12)); intros f Hf;
                  exact (identifier_rule c t tailtxt f 15%nat _ es [] Hc Hp Ht (fd_tail_stops tl more Htl) Hf)|].
    exact Hclose.
  - destruct m; reflexivity.
Qed.

(** ** FieldList (14):  (Field __)*  up to the closing '}' or ')' *)
Fixpoint render_fds (fs : list fd_spec) (tail : bytes) : bytes :=
  match fs with [] => tail | f :: r => render_fd f (render_fds r tail) end.

(** a field spelled  name  with nothing at all after it must be the last one (otherwise its name
    would fuse with the digits of the next id) *)
Definition fd_tail_ok_l (tl : fd_tail) (last : bool) : Prop :=
  match tl with
  | FT_plain W => run_of p_wsnl W /\ (W = [] -> last = true)
  | other => fd_tail_ok other []
  end.
Definition fd_ok_l (f : fd_spec) (last : bool) : Prop :=
  int64 (fd_id f) /\ run_of p_blank (fd_g1 f) /\ run_of p_blank (fd_g2 f) /\ mod_ok (fd_mod f)
  /\ (ty_ok (fd_ty f) /\ ty_tight (fd_ty f))
  /\ ascii (fd_c f) /\ p_start (fd_c f) = true /\ run_of p_cont (fd_t f) /\ fd_tail_ok_l (fd_tl f) last.
Fixpoint fds_ok (fs : list fd_spec) : Prop :=
  match fs with
  | [] => True
  | f :: r => fd_ok_l f (match r with [] => true | _ => false end) /\ fds_ok r
  end.

Definition is_close (cl : Z) : Prop := cl = 125 \/ cl = 41.

Lemma fd_ok_of_l : forall f last more, fd_ok_l f last -> (last = true -> stops p_cont more) -> fd_ok f more.
Proof.
  intros f last more (Hz & Hg1 & Hg2 & Hmod & Hty & Hc & Hp & Ht & Htl) Hl.
  repeat (split; [assumption|]).
  destruct (fd_tl f); cbn [fd_tail_ok_l fd_tail_ok] in *; try exact Htl.
  destruct Htl as [HW Hlast]. split; [exact HW|]. intros HWn. exact (Hl (Hlast HWn)).
Qed.

Lemma render_int_first : forall z x, int64 z -> exists d r, render_int z ++ x = d :: r /\ ascii d /\ (d = 45 \/ p_digit d = true).
Proof.
  intros z x Hz. unfold render_int, render_nat, int64 in *.
  assert (Hpow : 10 ^ Z.of_nat 20 = 100000000000000000000) by reflexivity.
  destruct (Z.ltb_spec z 0).
  - cbn [app]. eexists; eexists. split; [reflexivity|]. split; [unfold ascii; lia | left; reflexivity].
  - destruct (render_nat_fuel_head 20 z [] ltac:(lia) ltac:(lia)) as (d & t & Hr & Hd). rewrite Hr. cbn [app].
    eexists; eexists. split; [reflexivity|]. split; [unfold ascii; lia|]. right.
    unfold p_digit. cbn [in_chars in_ranges orb].
    destruct (Z.leb_spec 48 d); destruct (Z.leb_spec d 57); cbn [andb orb]; try reflexivity; lia.
Qed.

Lemma render_fds_head : forall fs cl x, fds_ok fs -> is_close cl -> close_or_id (render_fds fs (cl :: x)).
Proof.
  intros [|f r] cl x Hok Hcl; cbn [render_fds].
  - exists cl, x. split; [reflexivity|]. destruct Hcl as [-> | ->]; (split; [unfold ascii; lia | tauto]).
  - destruct Hok as [(Hz & _) _]. unfold render_fd.
    destruct (render_int_first (fd_id f) (fd_g1 f ++ 58 :: fd_g2 f ++ render_mod (fd_mod f)
                 (render_ty (fd_ty f) ((fd_c f :: fd_t f) ++ fd_tail_text (fd_tl f) (render_fds r (cl :: x))))) Hz)
      as (d & t & Hr & Hd & Hk).
    exists d, t. split; [exact Hr|]. split; [exact Hd | tauto].
Qed.

Lemma field_fails_at_close : forall cl x cr o es fr, is_close cl ->
  evals (CRef 15) cr (st_of (cl :: x) o es) fr (Done false VNil (st_of (cl :: x) o es) fr).
Proof.
  intros cl x cr o es fr Hcl. destruct struct_shapes as (_ & _ & _ & _ & _ & H15 & _).
  assert (Hid : evals (CLabel "id" (CRef 34)) 15 (st_of (cl :: x) o es) [("docstr"%string, VNil)]
                      (Done false VNil (st_of (cl :: x) o es) [("docstr"%string, VNil)])).
  { apply E_label_fail with (fr1 := []). apply int_constant_fails.
    destruct Hcl as [-> | ->]; (split; [unfold ascii; lia | split; reflexivity]). }
  eapply E_ref; [exact H15|]. apply E_act_fail. apply E_seq.
  eapply S_ok; [refine (doc_opt_nil 15 (cl :: x) o es [] _);
                destruct Hcl as [-> | ->]; (split; [unfold ascii; lia | repeat constructor; lia])|].
  exact (S_fail 15 _ _ _ _ _ _ _ _ _ Hid).
Qed.

Lemma close_stops_cont : forall cl x, is_close cl -> stops p_cont (cl :: x).
Proof. intros cl x [-> | ->]; (split; [unfold ascii; lia | reflexivity]). Qed.

Lemma fields_loop : forall fs cl x o es fr acc,
  fds_ok fs -> is_close cl ->
  exists o' lvs,
    map first_of lvs = map (fun f => Some (VField (field_of f))) fs
    /\ loops (CSeq [CRef 15; CRef 55]) 14 (st_of (render_fds fs (cl :: x)) o es) fr acc
             (Done true (VList (rev acc ++ lvs)) (st_of (cl :: x) o' es) fr).
Proof.
  induction fs as [|f r IH]; intros cl x o es fr acc Hok Hcl.
  - exists o, []. split; [reflexivity|]. cbn [render_fds]. rewrite app_nil_r.
    eapply L_stop. apply E_seq.
    exact (S_fail 14 _ _ _ _ _ _ _ _ _ (field_fails_at_close cl x 14 o es [] Hcl)).
  - destruct Hok as [Hf Hr]. cbn [render_fds].
    assert (Hmore : close_or_id (render_fds r (cl :: x))) by exact (render_fds_head r cl x Hr Hcl).
    assert (Hfd : fd_ok f (render_fds r (cl :: x))).
    { apply (fd_ok_of_l f _ _ Hf). intros Hl. destruct r; [exact (close_stops_cont cl x Hcl) | discriminate]. }
    destruct (field_rule f (render_fds r (cl :: x)) 14 o es [] Hfd Hmore) as (o1 & W' & HW' & Hval).
    assert (Hf6 : head_not [32; 9; 13; 10; 47; 35] (render_fds r (cl :: x))).
    { pose proof (close_or_id_big _ Hmore) as Hb. unfold fbig in Hb. sub_head Hb. }
    destruct (IH cl x (o1 + Z.of_nat (List.length W')) es fr
                 (VList [VField (field_of f); VList (bytes_vals W')] :: acc) Hr Hcl)
      as (o' & lvs & Hmap & Hloop).
    exists o', (VList [VField (field_of f); VList (bytes_vals W')] :: lvs). split.
    + cbn [map first_of as_list idx nth_error obind]. rewrite Hmap. reflexivity.
    + eapply L_step.
      * apply E_seq. eapply S_ok; [exact Hval|].
        eapply S_ok; [exact (gap_free W' _ 14 o1 es [] HW' Hf6)|]. apply S_nil.
      * cbn [rev] in Hloop. rewrite <- app_assoc in Hloop. exact Hloop.
Qed.

Lemma collect_fields : forall fs lvs,
  map first_of lvs = map (fun f => Some (VField (field_of f))) fs ->
  omap (fun v => let? x := first_of v in match x with VField f => Some f | _ => None end) lvs
  = Some (map field_of fs).
Proof.
  induction fs as [|f r IH]; intros [|lv lvs] Hm; try discriminate Hm; [reflexivity|].
  cbn [map] in Hm. injection Hm as Hf Hr. cbn [omap]. rewrite Hf. cbn [obind].
  rewrite (IH lvs Hr). reflexivity.
Qed.

Lemma field_list_rule : forall fs cl x cr o es fr,
  fds_ok fs -> is_close cl ->
  exists o', evals (CRef 14) cr (st_of (render_fds fs (cl :: x)) o es) fr
                   (Done true (VFields (map field_of fs)) (st_of (cl :: x) o' es) fr).
Proof.
  intros fs cl x cr o es fr Hok Hcl. destruct struct_shapes as (_ & _ & _ & _ & H14 & _).
  destruct (fields_loop fs cl x o es [] [] Hok Hcl) as (o' & lvs & Hmap & Hloop).
  exists o'. eapply E_ref; [exact H14|]. eapply E_act_ok.
  - apply E_label_ok with (fr1 := []). apply E_star. exact Hloop.
  - unfold finish_action, run_action, run_action_opt.
    cbn [fget find fst snd String.eqb Ascii.eqb Bool.eqb as_list obind app rev].
    rewrite (collect_fields fs lvs Hmap). reflexivity.
Qed.

(** ** StructLike (13):  name w1 '{' w2 fields '}' g3 LF  *)
Record sl_spec := mk_sl { sl_c : Z; sl_t : bytes; sl_w1 : bytes; sl_w2 : bytes; sl_fs : list fd_spec;
                          sl_g3 : bytes; sl_w : bytes }.
Definition sl_ok (s : sl_spec) : Prop :=
  ascii (sl_c s) /\ p_start (sl_c s) = true /\ run_of p_cont (sl_t s)
  /\ run_of p_wsnl (sl_w1 s) /\ run_of p_wsnl (sl_w2 s) /\ fds_ok (sl_fs s)
  /\ run_of p_blank (sl_g3 s) /\ run_of p_wsnl (sl_w s).
Definition render_sl (s : sl_spec) (more : bytes) : bytes :=
  (sl_c s :: sl_t s) ++ sl_w1 s ++ 123 :: sl_w2 s
  ++ render_fds (sl_fs s) (125 :: sl_g3 s ++ 10 :: sl_w s ++ more).
Definition struct_of (s : sl_spec) : struct := mkstruct None (sl_c s :: sl_t s) (map field_of (sl_fs s)) 0 [].

Lemma struct_like_rule : forall s more cr o es fr,
  sl_ok s -> decl_follow more ->
  exists o', evals (CRef 13) cr (st_of (render_sl s more) o es) fr
                   (Done true (VStruct (struct_of s)) (st_of (sl_w s ++ more) o' es) fr).
Proof.
  intros [c t w1 w2 fs g3 w] more cr o es fr (Hc & Hp & Ht & Hw1 & Hw2 & Hfs & Hg3 & Hw) Hm.
  unfold render_sl, struct_of. cbn [sl_c sl_t sl_w1 sl_w2 sl_fs sl_g3 sl_w] in *.
  destruct struct_shapes as (_ & _ & _ & H13 & _).
  set (tail := g3 ++ 10 :: w ++ more).
  set (body := render_fds fs (125 :: tail)).
  assert (Hbody : close_or_id body) by exact (render_fds_head fs 125 tail Hfs (or_introl eq_refl)).
  pose proof (close_or_id_big body Hbody) as Hbig. unfold fbig in Hbig.
  assert (Hb6 : head_not [32; 9; 13; 10; 47; 35] body) by sub_head Hbig.
  assert (H123 : head_not [32; 9; 13; 10; 47; 35] (123 :: w2 ++ body)) by (split; [unfold ascii; lia | repeat constructor; lia]).
  assert (Hn2 : ascii_next (w2 ++ body)) by exact (run_app_ascii_next p_wsnl w2 body Hw2 (head_not_ascii_next _ body Hbig)).
  assert (Hn3 : ascii_next tail).
  { unfold tail. apply (run_app_ascii_next p_blank g3 _ Hg3). cbn. unfold ascii; lia. }
  assert (Hstop : stops p_cont (w1 ++ 123 :: w2 ++ body)).
  { destruct w1 as [|d w1']; cbn [app]; [split; [unfold ascii; lia | reflexivity]|].
    inversion Hw1 as [|? ? [Hd Hpd] _]; subst. split; [exact Hd | exact (wsnl_not_cont d Hpd)]. }
  destruct (field_list_rule fs 125 tail 13 (o + Z.of_nat (List.length (c :: t)) + Z.of_nat (List.length w1) + 1
                                              + Z.of_nat (List.length w2)) es [] Hfs (or_introl eq_refl)) as [o1 Hfl].
  eexists. eapply E_ref; [exact H13|]. eapply E_act_ok.
  - apply E_seq.
    eapply S_ok; [apply E_label_ok with (fr1 := []); apply (E_of_bound (List.length t + 12)); intros f Hf;
                  exact (identifier_rule c t (w1 ++ 123 :: w2 ++ body) f 13%nat o es [] Hc Hp Ht Hstop Hf)|].
    eapply S_ok; [exact (gap_free w1 (123 :: w2 ++ body) 13 _ es _ Hw1 H123)|].
    eapply S_ok; [exact (char_lit_ok 123 13 (w2 ++ body) _ es _ ltac:(unfold ascii; lia) Hn2)|].
    eapply S_ok; [exact (gap_free w2 body 13 _ es _ Hw2 Hb6)|].
    eapply S_ok; [apply E_label_ok with (fr1 := []); exact Hfl|].
    eapply S_ok; [exact (char_lit_ok 125 13 tail _ es _ ltac:(unfold ascii; lia) Hn3)|].
    eapply S_ok; [exact (gap_inline g3 (10 :: w ++ more) 13 _ es _ Hg3 (nl_head_not _ [32; 9; 13; 47] ltac:(repeat constructor; lia)))|].
    eapply S_ok; [exact (anns_opt_nil 13 (10 :: w ++ more) _ es _ (nl_head_not _ [40] ltac:(repeat constructor; lia)))|].
    eapply S_ok; [exact (eos_newline w more 13 _ es _ Hw Hm)|].
    apply S_nil.
  - reflexivity.
Qed.

(** ** Struct (10), Exception (11), Union (12):  keyword g1 StructLike *)
Inductive sl_kind := K_struct | K_exception | K_union.
Definition kind_lit (k : sl_kind) : bytes :=
  match k with K_struct => lit_struct | K_exception => lit_exception | K_union => lit_union end.
Definition kind_rule (k : sl_kind) : nat := match k with K_struct => 10 | K_exception => 11 | K_union => 12 end%nat.
Definition kind_val (k : sl_kind) (s : struct) : val :=
  match k with K_struct => VStruct s | K_exception => VException s | K_union => VUnion s end.

Record st_spec := mk_st { st_kind : sl_kind; st_g1 : bytes; st_sl : sl_spec }.
Definition st_ok (d : st_spec) : Prop := run_of p_blank (st_g1 d) /\ sl_ok (st_sl d).
Definition render_st (d : st_spec) (more : bytes) : bytes :=
  kind_lit (st_kind d) ++ st_g1 d ++ render_sl (st_sl d) more.

Lemma kind_lit_ascii : forall k, Forall ascii (kind_lit k).
Proof. intros [| |]; all_ascii. Qed.

Lemma struct_rule : forall d more cr o es fr,
  st_ok d -> decl_follow more ->
  exists o', evals (CRef (kind_rule (st_kind d))) cr (st_of (render_st d more) o es) fr
                   (Done true (kind_val (st_kind d) (struct_of (st_sl d)))
                         (st_of (sl_w (st_sl d) ++ more) o' es) fr).
Proof.
  intros [k g1 s] more cr o es fr [Hg1 Hs] Hm. unfold render_st. cbn [st_kind st_g1 st_sl] in *.
  pose proof Hs as (Hc & Hp & _).
  assert (Hhead : head_not [32; 9; 13; 47; 40] (render_sl s more)) by exact (start_head_not (sl_c s) _ Hc Hp).
  destruct (struct_like_rule s more (kind_rule k) (o + Z.of_nat (List.length (kind_lit k)) + Z.of_nat (List.length g1))
                             es [] Hs Hm) as [o' Hsl].
  exists o'.
  assert (Hseq : forall a, evals (CAct a (CSeq [CLit (kind_lit k); CRef 56; CLabel "st" (CRef 13)])) (kind_rule k)
                                 (st_of (kind_lit k ++ g1 ++ render_sl s more) o es) []
                                 (fin a (kind_rule k) (st_of (kind_lit k ++ g1 ++ render_sl s more) o es)
                                      (st_of (sl_w s ++ more) o' es) [("st"%string, VStruct (struct_of s))])).
  { intros a. eapply E_act_ok; [|reflexivity]. apply E_seq.
    eapply S_ok; [refine (lit_here (kind_lit k) _ (kind_rule k) o es [] (kind_lit_ascii k) _);
                  exact (run_app_ascii_next p_blank g1 _ Hg1 (head_not_ascii_next _ _ Hhead))|].
    eapply S_ok; [refine (gap_inline g1 _ (kind_rule k) _ es [] Hg1 _); sub_head Hhead|].
    eapply S_ok; [apply E_label_ok with (fr1 := []); exact Hsl|].
    apply S_nil. }
  destruct struct_shapes as (H10 & H11 & H12 & _).
  destruct k; cbn [kind_rule kind_lit kind_val] in *.
  - eapply E_ref; [exact H10|]. exact (Hseq AStruct1).
  - eapply E_ref; [exact H11|]. exact (Hseq AException1).
  - eapply E_ref; [exact H12|]. exact (Hseq AUnion1).
Qed.

(** ** FrugalStatement (3) and Statement (2) on a struct / exception / union *)
Lemma keyword_rule_fails_np : forall i c l cr s o es fr,
  keyword_rule i c l -> lit_ascii_ok (c :: l) s -> has_prefix (c :: l) s = false ->
  evals (CRef i) cr (st_of s o es) fr (Done false VNil (st_of s o es) fr).
Proof.
  intros i c l cr s o es fr (a & more & Hb & Hl) Hok Hp.
  pose proof (E_lit_at (c :: l) i s o es [] Hok Hl) as H. rewrite Hp in H.
  eapply E_ref; [exact Hb|]. apply E_act_fail. apply E_seq.
  exact (S_fail i _ _ _ _ _ _ _ _ _ H).
Qed.

Lemma statement_struct : forall d more cr o es fr,
  st_ok d -> decl_follow more ->
  exists o', evals (CRef 2) cr (st_of (render_st d more) o es) fr
                   (Done true (VWrapper None (kind_val (st_kind d) (struct_of (st_sl d))))
                         (st_of (sl_w (st_sl d) ++ more) o' es) fr).
Proof.
  intros d more cr o es fr Hd Hm.
  destruct shapes as (_ & H2 & H3 & _).
  destruct keyword_rules as (K4 & K5 & K6 & K7 & K9 & K10 & K11 & _).
  destruct (struct_rule d more 3 o es [] Hd Hm) as [o' Hst].
  exists o'. destruct d as [k g1 s]. unfold render_st in *. cbn [st_kind st_g1 st_sl] in *.
  set (rst := g1 ++ render_sl s more) in *.
  assert (Hk : forall c, Forall (fun x => x <> c) [115; 101; 117] -> head_not [c] (kind_lit k ++ rst)).
  { intros c Hne. inversion Hne as [|? ? H1 Hne1]; subst. inversion Hne1 as [|? ? H2' Hne2]; subst.
    inversion Hne2 as [|? ? H3' _]; subst.
    destruct k; cbn [kind_lit]; unfold lit_struct, lit_exception, lit_union; cbn [app];
      (split; [unfold ascii; lia | repeat constructor; assumption]). }
  assert (Hfs : evals (CRef 3) 2 (st_of (kind_lit k ++ rst) o es) []
                      (Done true (kind_val k (struct_of s)) (st_of (sl_w s ++ more) o' es) [])).
  { eapply E_ref; [exact H3|]. apply E_choice.
    eapply C_next; [exact (keyword_rule_fails 4 _ _ 3 _ o es [] K4 (Hk 105 ltac:(repeat constructor; lia)))|].
    eapply C_next; [exact (keyword_rule_fails 5 _ _ 3 _ o es [] K5 (Hk 110 ltac:(repeat constructor; lia)))|].
    eapply C_next; [exact (keyword_rule_fails 6 _ _ 3 _ o es [] K6 (Hk 99 ltac:(repeat constructor; lia)))|].
    destruct k; cbn [kind_lit kind_rule kind_val] in *.
    - eapply C_next; [refine (keyword_rule_fails 7 _ _ 3 _ o es [] K7 _); unfold lit_struct; cbn [app];
                      split; [unfold ascii; lia | repeat constructor; lia]|].
      eapply C_next; [exact (keyword_rule_fails 9 _ _ 3 _ o es [] K9 (Hk 116 ltac:(repeat constructor; lia)))|].
      eapply C_ok. exact Hst.
    - eapply C_next; [refine (keyword_rule_fails_np 7 _ _ 3 _ o es [] K7 _ _);
                      [unfold lit_exception; cbn [app lit_ascii_ok]; lit_ok I | reflexivity]|].
      eapply C_next; [exact (keyword_rule_fails 9 _ _ 3 _ o es [] K9 (Hk 116 ltac:(repeat constructor; lia)))|].
      eapply C_next; [refine (keyword_rule_fails 10 _ _ 3 _ o es [] K10 _); unfold lit_exception; cbn [app];
                      split; [unfold ascii; lia | repeat constructor; lia]|].
      eapply C_ok. exact Hst.
    - eapply C_next; [refine (keyword_rule_fails 7 _ _ 3 _ o es [] K7 _); unfold lit_union; cbn [app];
                      split; [unfold ascii; lia | repeat constructor; lia]|].
      eapply C_next; [exact (keyword_rule_fails 9 _ _ 3 _ o es [] K9 (Hk 116 ltac:(repeat constructor; lia)))|].
      eapply C_next; [refine (keyword_rule_fails 10 _ _ 3 _ o es [] K10 _); unfold lit_union; cbn [app];
                      split; [unfold ascii; lia | repeat constructor; lia]|].
      eapply C_next; [refine (keyword_rule_fails 11 _ _ 3 _ o es [] K11 _); unfold lit_union; cbn [app];
                      split; [unfold ascii; lia | repeat constructor; lia]|].
      eapply C_ok. exact Hst. }
  eapply E_ref; [exact H2|]. eapply E_act_ok.
  - apply E_seq.
    eapply S_ok; [exact (doc_opt_nil 2 _ o es [] (Hk 47 ltac:(repeat constructor; lia)))|].
    eapply S_ok; [apply E_label_ok with (fr1 := []); exact Hfs|].
    apply S_nil.
  - reflexivity.
Qed.
