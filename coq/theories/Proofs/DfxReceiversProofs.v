(** Findings triage (dfx): the adapter read loop of Model/Receivers.v after "fix: adapter transport
    reports an END_OF_FILE that arrives inside a frame as an unclean close": the connection is
    closed cleanly only when the byte stream is a sequence of whole frames. *)
From Coq Require Import ZArith List Lia Bool.
From FV Require Import Base.Res Base.Bytes Base.GoSem Model.Headers Model.Receivers Proofs.BytesProofs Proofs.HeadersProofs.
Import ListNotations.
Open Scope Z_scope.

(** a byte stream made of whole frames: a 4-byte size, that many bytes, and so on *)
Inductive whole_frames : bytes -> Prop :=
| wf_nil : whole_frames []
| wf_frame : forall sb frame rest,
    zlen sb = 4 -> zlen frame = un_be32 sb -> whole_frames rest ->
    whole_frames (sb ++ frame ++ rest).

Lemma adapter_clean_only_between_frames fuel : forall stream,
  adapter_read_loop fuel stream = ClosedClean -> whole_frames stream.
Proof.
  induction fuel as [|fuel IH]; intros stream H; [discriminate|].
  cbn [adapter_read_loop] in H. destruct stream as [|x s]; [constructor|].
  set (st := x :: s) in *.
  destruct (read_full st 4) as [[sb s1]|e|p|] eqn:E1; try discriminate.
  destruct (max_frame <? un_be32 sb); [discriminate|].
  destruct (read_full s1 (un_be32 sb)) as [[frame s2]|e|p|] eqn:E2; try discriminate.
  destruct (registry_execute frame) as [u|e|p|]; try discriminate.
  apply read_full_inv in E1. destruct E1 as (Est & Lsb & _).
  apply read_full_inv in E2. destruct E2 as (Es1 & Lfr & _).
  rewrite Est, Es1. constructor; auto.
Qed.

(** a cut inside the size prefix or inside the body is never a clean close *)
Lemma adapter_cut_is_unclean : forall stream,
  (0 < zlen stream < 4 \/ (4 <= zlen stream /\ un_be32 (take 4%nat stream) <= max_frame
                            /\ zlen stream < 4 + un_be32 (take 4%nat stream))) ->
  adapter_read_loop (S (length stream)) stream = ClosedWith EEOF.
Proof.
  intros stream H. cbn [adapter_read_loop]. destruct stream as [|x s].
  - cbn in H. lia.
  - set (st := x :: s) in *. unfold read_full at 1. change (Z.to_nat 4) with 4%nat.
    destruct H as [H|(H4 & Hm & Hb)].
    + replace ((0 <=? 4) && (4 <=? zlen st)) with false; [reflexivity|].
      symmetry. apply andb_false_iff. right. apply Z.leb_gt. lia.
    + replace ((0 <=? 4) && (4 <=? zlen st)) with true
        by (symmetry; apply andb_true_iff; split; apply Z.leb_le; lia).
      replace (max_frame <? un_be32 (take 4%nat st)) with false by (symmetry; apply Z.ltb_ge; lia).
      unfold read_full.
      assert (Ld : zlen (drop 4%nat st) = zlen st - 4).
      { unfold zlen in *. rewrite drop_length. lia. }
      replace ((0 <=? un_be32 (take 4%nat st)) && (un_be32 (take 4%nat st) <=? zlen (drop 4%nat st))) with false;
        [reflexivity|].
      symmetry. apply andb_false_iff. right. apply Z.leb_gt. lia.
Qed.
