(** Proofs about the framing layer (Model/ReceiversFraming.v). *)
From Coq Require Import ZArith List Lia Bool.
From FV Require Import Base.Res Base.Bytes Base.GoSem Model.Headers Model.Receivers
  Model.ReceiversFraming Proofs.BytesProofs Proofs.HeadersProofs Proofs.ReceiversProofs.
Import ListNotations.
Open Scope Z_scope.
Ltac Zify.zify_post_hook ::= Z.div_mod_to_equations.

(** * ztake / zdrop *)
Lemma ztake_zdrop k l : ztake k l ++ zdrop k l = l.
Proof.
  revert k. induction l as [|x xs IH]; intros k; cbn [ztake zdrop]; [reflexivity|].
  destruct (k <=? 0); [reflexivity|]. cbn [app]. now rewrite IH.
Qed.

Lemma zlen_ztake k l : 0 <= k -> zlen (ztake k l) = Z.min k (zlen l).
Proof.
  revert k. induction l as [|x xs IH]; intros k Hk; cbn [ztake].
  - rewrite zlen_nil. lia.
  - destruct (k <=? 0) eqn:E.
    + apply Z.leb_le in E. rewrite zlen_nil, zlen_cons. pose proof (zlen_nonneg xs). lia.
    + apply Z.leb_gt in E. rewrite !zlen_cons, IH by lia. lia.
Qed.

Lemma ztake_all k l : zlen l <= k -> ztake k l = l.
Proof.
  revert k. induction l as [|x xs IH]; intros k Hk; cbn [ztake]; [reflexivity|].
  rewrite zlen_cons in Hk. pose proof (zlen_nonneg xs).
  destruct (k <=? 0) eqn:E; [apply Z.leb_le in E; lia|]. f_equal. apply IH. lia.
Qed.

Lemma zdrop_all k l : zlen l <= k -> zdrop k l = [].
Proof.
  intros H. pose proof (ztake_zdrop k l) as E. rewrite (ztake_all k l H) in E.
  assert (E' : l ++ zdrop k l = l ++ []) by (now rewrite app_nil_r).
  now apply app_inv_head in E'.
Qed.

Lemma ztake_nonempty k l : 0 < k -> l <> [] -> ztake k l <> [].
Proof.
  intros Hk Hl. destruct l as [|x xs]; [congruence|]. cbn [ztake].
  destruct (k <=? 0) eqn:E; [apply Z.leb_le in E; lia|]. discriminate.
Qed.

Lemma ztake_0 k l : k <= 0 -> ztake k l = [].
Proof. intros H. destruct l; cbn [ztake]; [reflexivity|]. apply Z.leb_le in H. now rewrite H. Qed.

Lemma zdrop_0 k l : k <= 0 -> zdrop k l = l.
Proof. intros H. destruct l; cbn [zdrop]; [reflexivity|]. apply Z.leb_le in H. now rewrite H. Qed.

Lemma ztake_app_exact (a b : bytes) : ztake (zlen a) (a ++ b) = a.
Proof.
  induction a as [|x xs IH]; [apply ztake_0; rewrite zlen_nil; lia|].
  cbn [app ztake]. rewrite zlen_cons. pose proof (zlen_nonneg xs).
  destruct (1 + zlen xs <=? 0) eqn:E; [apply Z.leb_le in E; lia|].
  f_equal. replace (1 + zlen xs - 1) with (zlen xs) by lia. exact IH.
Qed.

Lemma zdrop_app_exact (a b : bytes) : zdrop (zlen a) (a ++ b) = b.
Proof.
  pose proof (ztake_zdrop (zlen a) (a ++ b)) as E. rewrite ztake_app_exact in E.
  now apply app_inv_head in E.
Qed.

Lemma zlen_zdrop k l : 0 <= k -> zlen (zdrop k l) = zlen l - Z.min k (zlen l).
Proof.
  intros Hk. pose proof (ztake_zdrop k l) as E. apply (f_equal zlen) in E.
  rewrite zlen_app, zlen_ztake in E by assumption. lia.
Qed.

Lemma ztake_take k l : ztake k l = take (Z.to_nat k) l.
Proof.
  revert k. induction l as [|x xs IH]; intros k; cbn [ztake].
  - now destruct (Z.to_nat k).
  - destruct (k <=? 0) eqn:E.
    + apply Z.leb_le in E. replace (Z.to_nat k) with 0%nat by lia. reflexivity.
    + apply Z.leb_gt in E. replace (Z.to_nat k) with (S (Z.to_nat (k - 1))) by lia.
      cbn [take]. now rewrite IH.
Qed.

Lemma zdrop_drop k l : zdrop k l = drop (Z.to_nat k) l.
Proof.
  revert k. induction l as [|x xs IH]; intros k; cbn [zdrop].
  - now destruct (Z.to_nat k).
  - destruct (k <=? 0) eqn:E.
    + apply Z.leb_le in E. replace (Z.to_nat k) with 0%nat by lia. reflexivity.
    + apply Z.leb_gt in E. replace (Z.to_nat k) with (S (Z.to_nat (k - 1))) by lia.
      cbn [drop]. now rewrite IH.
Qed.

(** ztake of a prefix that is long enough *)
Lemma ztake_app_l k (a b : bytes) : k <= zlen a -> ztake k (a ++ b) = ztake k a.
Proof.
  revert k. induction a as [|x xs IH]; intros k Hk.
  - rewrite zlen_nil in Hk. now rewrite !ztake_0 by lia.
  - cbn [app ztake]. destruct (k <=? 0); [reflexivity|]. f_equal. apply IH.
    rewrite zlen_cons in Hk. lia.
Qed.

Lemma zdrop_app_l k (a b : bytes) : k <= zlen a -> zdrop k (a ++ b) = zdrop k a ++ b.
Proof.
  revert k. induction a as [|x xs IH]; intros k Hk.
  - rewrite zlen_nil in Hk. now rewrite !zdrop_0 by lia.
  - cbn [app zdrop]. destruct (k <=? 0); [reflexivity|]. apply IH.
    rewrite zlen_cons in Hk. lia.
Qed.

(** splitting a take across an already-taken prefix *)
Lemma ztake_split j k (l : bytes) : 0 <= j -> 0 <= k ->
  ztake (j + k) l = ztake j l ++ ztake k (zdrop j l).
Proof.
  revert j k. induction l as [|x xs IH]; intros j k Hj Hk; cbn [ztake zdrop]; [reflexivity|].
  destruct (j <=? 0) eqn:Ej.
  - apply Z.leb_le in Ej. assert (j = 0) by lia. subst j. cbn [app Z.add]. reflexivity.
  - apply Z.leb_gt in Ej. destruct (j + k <=? 0) eqn:Ejk; [apply Z.leb_le in Ejk; lia|].
    cbn [app]. f_equal. replace (j + k - 1) with ((j - 1) + k) by lia. apply IH; lia.
Qed.

Lemma zdrop_zdrop j k (l : bytes) : 0 <= j -> 0 <= k -> zdrop k (zdrop j l) = zdrop (j + k) l.
Proof.
  revert j k. induction l as [|x xs IH]; intros j k Hj Hk; cbn [zdrop]; [reflexivity|].
  destruct (j <=? 0) eqn:Ej.
  - apply Z.leb_le in Ej. assert (j = 0) by lia. subst j. reflexivity.
  - apply Z.leb_gt in Ej. destruct (j + k <=? 0) eqn:Ejk; [apply Z.leb_le in Ejk; lia|].
    replace (j + k - 1) with ((j - 1) + k) by lia. apply IH; lia.
Qed.

(** * invariants *)
Definition chunks_ok (u : under) : Prop := Forall (fun c : bytes => c <> []) (u_chunks u).
Definition st_ok (st : fstate) : Prop := chunks_ok (f_und st) /\ 0 <= f_size st < two32.

Definition uavail (b : bytes) (u : under) : bytes := b ++ concat (u_chunks u).

(** [d] was consumed from the front: what is left is [a'] *)
Definition consumed (a d a' : bytes) : Prop := a = d ++ a'.

Lemma under_read_spec u k : 0 < k -> chunks_ok u ->
  (u_chunks u = [] /\ under_read u k = (Err (u_final u), u)) \/
  (exists d u', under_read u k = (Ok d, u') /\ d <> [] /\ zlen d <= k /\
     concat (u_chunks u) = d ++ concat (u_chunks u') /\ chunks_ok u' /\ u_final u' = u_final u).
Proof.
  intros Hk Hok. unfold under_read. destruct u as [cs fin]. cbn [u_chunks u_final] in *.
  destruct cs as [|c cs]; [left; split; reflexivity|]. right.
  unfold chunks_ok in Hok. cbn [u_chunks] in Hok. inversion Hok as [|c' cs' Hc Hcs]; subst.
  destruct (zlen c <=? k) eqn:E.
  - apply Z.leb_le in E. exists c, (mkU cs fin). cbn [u_chunks u_final concat].
    repeat split; auto.
  - apply Z.leb_gt in E. exists (ztake k c), (mkU (zdrop k c :: cs) fin).
    cbn [u_chunks u_final concat]. repeat split.
    + now apply ztake_nonempty.
    + rewrite zlen_ztake by lia. lia.
    + rewrite app_assoc, ztake_zdrop. reflexivity.
    + unfold chunks_ok. cbn [u_chunks]. constructor; [|assumption].
      intros Hz. pose proof (zlen_zdrop k c ltac:(lia)) as L. rewrite Hz, zlen_nil in L. lia.
Qed.

Lemma uavail_nil b u : chunks_ok u -> uavail b u = [] -> b = [] /\ u_chunks u = [].
Proof.
  unfold uavail. intros Hok H. apply app_eq_nil in H. destruct H as [Hb Hc]. split; [assumption|].
  destruct (u_chunks u) as [|c cs] eqn:E; [reflexivity|]. exfalso.
  unfold chunks_ok in Hok. rewrite E in Hok. inversion Hok as [|? ? Hne _]; subst.
  cbn [concat] in Hc. apply app_eq_nil in Hc. tauto.
Qed.

(** bufio.Reader.Read: with k > 0 it returns a non-empty prefix of what is available, of
    length at most k, or — only when nothing is available — the connection's error *)
Lemma bufio_read_spec b u k : 0 < k -> chunks_ok u ->
  (uavail b u = [] /\ bufio_read b u k = (Err (u_final u), [], u)) \/
  (exists d b' u', bufio_read b u k = (Ok d, b', u') /\ d <> [] /\ zlen d <= k /\
     uavail b u = d ++ uavail b' u' /\ chunks_ok u' /\ u_final u' = u_final u).
Proof.
  intros Hk Hok. unfold bufio_read.
  destruct (k <=? 0) eqn:Ek; [apply Z.leb_le in Ek; lia|].
  destruct b as [|x xs].
  - destruct (bufsize <=? k) eqn:Eb.
    + destruct (under_read_spec u k Hk Hok) as [[Hnil Hr]|(d & u' & Hr & Hd & Hl & Hc & Hok' & Hf)].
      * left. rewrite Hr. unfold uavail. rewrite Hnil. split; reflexivity.
      * right. rewrite Hr. exists d, [], u'. unfold uavail. cbn [app]. repeat split; auto.
    + assert (Hbs : 0 < bufsize) by (unfold bufsize; lia).
      destruct (under_read_spec u bufsize Hbs Hok) as [[Hnil Hr]|(d & u' & Hr & Hd & Hl & Hc & Hok' & Hf)].
      * left. rewrite Hr. unfold uavail. rewrite Hnil. split; reflexivity.
      * right. rewrite Hr. exists (ztake k d), (zdrop k d), u'. unfold uavail. cbn [app]. repeat split; auto.
        -- now apply ztake_nonempty.
        -- rewrite zlen_ztake by lia. lia.
        -- rewrite Hc, app_assoc, ztake_zdrop. reflexivity.
  - right. exists (ztake k (x :: xs)), (zdrop k (x :: xs)), u. repeat split; auto.
    + apply ztake_nonempty; [lia | discriminate].
    + rewrite zlen_ztake by lia. lia.
    + unfold uavail. rewrite app_assoc, ztake_zdrop. reflexivity.
Qed.

Lemma bufio_read_zero b u : bufio_read b u 0 = (Ok [], b, u).
Proof. reflexivity. Qed.

(** io.ReadFull on the buffered reader *)
Lemma bufio_read_full_spec fuel : forall need acc b u,
  need <= Z.of_nat fuel -> chunks_ok u ->
  (need <= zlen (uavail b u) /\ exists b' u',
     bufio_read_full fuel need acc b u = (Ok (acc ++ ztake need (uavail b u)), b', u') /\
     uavail b' u' = zdrop need (uavail b u) /\ chunks_ok u' /\ u_final u' = u_final u) \/
  (zlen (uavail b u) < need /\ exists b' u',
     bufio_read_full fuel need acc b u = (Err (u_final u), b', u') /\
     uavail b' u' = [] /\ chunks_ok u' /\ u_final u' = u_final u).
Proof.
  induction fuel as [|fuel IH]; intros need acc b u Hf Hok.
  - left. cbn [Z.of_nat] in Hf. pose proof (zlen_nonneg (uavail b u)). split; [lia|].
    exists b, u. cbn [bufio_read_full]. replace (need <=? 0) with true by (symmetry; apply Z.leb_le; lia).
    rewrite ztake_0, zdrop_0, app_nil_r by lia. auto.
  - cbn [bufio_read_full]. destruct (need <=? 0) eqn:En.
    + apply Z.leb_le in En. left. pose proof (zlen_nonneg (uavail b u)). split; [lia|].
      exists b, u. rewrite ztake_0, zdrop_0, app_nil_r by lia. auto.
    + apply Z.leb_gt in En.
      destruct (bufio_read_spec b u need En Hok) as [[Hnil Hr]|(d & b' & u' & Hr & Hd & Hl & Hc & Hok' & Hfin)].
      * right. rewrite Hr, Hnil, zlen_nil. split; [lia|]. exists [], u.
        split; [reflexivity|]. split; [|auto].
        destruct (uavail_nil b u Hok Hnil) as [_ Hcs]. unfold uavail. now rewrite Hcs.
      * rewrite Hr.
        assert (Hdl : 0 < zlen d).
        { destruct d; [congruence|]. rewrite zlen_cons. pose proof (zlen_nonneg d). lia. }
        destruct (IH (need - zlen d) (acc ++ d) b' u' ltac:(lia) Hok')
          as [[Hle (b2 & u2 & Hr2 & Ha2 & Hok2 & Hf2)]|[Hlt (b2 & u2 & Hr2 & Ha2 & Hok2 & Hf2)]].
        -- left. rewrite Hc, zlen_app. split; [lia|]. exists b2, u2. rewrite Hr2.
           repeat split; auto; try congruence.
           ++ f_equal. rewrite <- app_assoc. f_equal.
              replace need with (zlen d + (need - zlen d)) at 2 by lia.
              rewrite ztake_split by lia. rewrite ztake_app_exact, zdrop_app_exact. reflexivity.
           ++ rewrite Ha2. replace need with (zlen d + (need - zlen d)) at 2 by lia.
              rewrite <- zdrop_zdrop by lia. now rewrite zdrop_app_exact.
        -- right. rewrite Hc, zlen_app. split; [lia|]. exists b2, u2. rewrite Hr2, Hf2, Hfin.
           repeat split; auto.
Qed.

(** * readFrameHeader *)
Lemma avail_uavail st : avail st = uavail (f_buf st) (f_und st).
Proof. reflexivity. Qed.

Lemma avail_mk sz b u : avail (mkF sz b u) = uavail b u.
Proof. reflexivity. Qed.

Lemma ztake_ok k l : bytes_ok l -> bytes_ok (ztake k l).
Proof. intros H. rewrite ztake_take. now apply take_ok. Qed.
Lemma zdrop_ok k l : bytes_ok l -> bytes_ok (zdrop k l).
Proof. intros H. rewrite zdrop_drop. now apply drop_ok. Qed.

Definition hdr_size (a : bytes) : Z := un_be32 (ztake 4 a).

Lemma hdr_size_range a : bytes_ok a -> 0 <= hdr_size a < two32.
Proof. intros H. unfold hdr_size, two32. apply un_be32_range. now apply ztake_ok. Qed.

Lemma read_frame_header_spec maxlen b u : chunks_ok u ->
  (zlen (uavail b u) < 4 /\ exists b' u',
     read_frame_header maxlen b u = (Err (u_final u), b', u') /\
     uavail b' u' = [] /\ chunks_ok u' /\ u_final u' = u_final u) \/
  (4 <= zlen (uavail b u) /\ exists b' u',
     read_frame_header maxlen b u =
       ((if maxlen <? hdr_size (uavail b u) then Err EOther else Ok (hdr_size (uavail b u))), b', u') /\
     uavail b' u' = zdrop 4 (uavail b u) /\ chunks_ok u' /\ u_final u' = u_final u).
Proof.
  intros Hok. unfold read_frame_header.
  destruct (bufio_read_full_spec 4 4 [] b u ltac:(cbn; lia) Hok)
    as [[Hle (b' & u' & Hr & Ha & Hok' & Hf)]|[Hlt (b' & u' & Hr & Ha & Hok' & Hf)]].
  - right. split; [assumption|]. exists b', u'. rewrite Hr. cbn [app]. fold (hdr_size (uavail b u)).
    destruct (maxlen <? hdr_size (uavail b u)); auto.
  - left. split; [assumption|]. exists b', u'. rewrite Hr. auto.
Qed.

(** * invariant of the framed transport *)
Definition fst_ok (st : fstate) : Prop :=
  chunks_ok (f_und st) /\ 0 <= f_size st < two32 /\ bytes_ok (avail st).

Definition final_of (st : fstate) : errk := u_final (f_und st).

(** Read([]byte{}) between frames reads exactly the 4-byte header *)
Lemma framed_read_header maxlen st : fst_ok st -> f_size st = 0 ->
  exists st', fst_ok st' /\ final_of st' = final_of st /\
   ((zlen (avail st) < 4 /\ framed_read maxlen st 0 = (Rd [] (Some (final_of st)), st') /\
       avail st' = [] /\ f_size st' = 0) \/
    (4 <= zlen (avail st) /\ maxlen < hdr_size (avail st) /\
       framed_read maxlen st 0 = (Rd [] (Some EOther), st') /\
       avail st' = zdrop 4 (avail st) /\ f_size st' = 0) \/
    (4 <= zlen (avail st) /\ hdr_size (avail st) <= maxlen /\
       framed_read maxlen st 0 = (Rd [] None, st') /\
       avail st' = zdrop 4 (avail st) /\ f_size st' = hdr_size (avail st))).
Proof.
  intros (Hck & Hsz & Hbo) Hz. unfold framed_read, framed_read_gen, after_hdr.
  rewrite Hz. cbn [Z.eqb].
  destruct (read_frame_header_spec maxlen (f_buf st) (f_und st) Hck)
    as [[Hlt (b' & u' & Hr & Ha & Hok' & Hf)]|[Hle (b' & u' & Hr & Ha & Hok' & Hf)]];
    rewrite <- avail_uavail in *; rewrite Hr.
  - exists (mkF 0 b' u'). split; [|split; [exact Hf|]].
    + unfold fst_ok, two32. cbn [f_und f_size]. rewrite avail_mk.
      rewrite Ha. repeat split; auto; try lia. constructor.
    + left. repeat split; auto.
  - pose proof (hdr_size_range (avail st) Hbo) as Hrange.
    assert (Hbo' : bytes_ok (zdrop 4 (avail st))) by now apply zdrop_ok.
    destruct (maxlen <? hdr_size (avail st)) eqn:Em.
    + apply Z.ltb_lt in Em. exists (mkF 0 b' u'). split; [|split; [exact Hf|]].
      * unfold fst_ok, two32. cbn [f_und f_size]. rewrite avail_mk.
        rewrite Ha. repeat split; auto; lia.
      * right. left. repeat split; auto.
    + apply Z.ltb_ge in Em. cbn [f_size].
      replace (hdr_size (avail st) <? 0) with false by (symmetry; apply Z.ltb_ge; lia).
      unfold read_tail. cbn [f_buf f_und f_size]. rewrite bufio_read_zero.
      rewrite zlen_nil, Z.sub_0_r, Z.mod_small by exact Hrange.
      exists (mkF (hdr_size (avail st)) b' u'). split; [|split; [exact Hf|]].
      * unfold fst_ok. cbn [f_und f_size]. rewrite avail_mk.
        rewrite Ha. repeat split; auto; lia.
      * right. right. repeat split; auto.
Qed.

(** reading inside a frame: never more than the frame, never past it *)
Lemma read_tail_spec st k : fst_ok st -> 0 < k -> k <= f_size st ->
  exists st', fst_ok st' /\ final_of st' = final_of st /\
   ((avail st = [] /\ read_tail st k = (Rd [] (Some (final_of st)), st') /\
       avail st' = [] /\ f_size st' = f_size st) \/
    (exists d, read_tail st k = (Rd d None, st') /\ d <> [] /\ zlen d <= k /\
       avail st = d ++ avail st' /\ f_size st' = f_size st - zlen d)).
Proof.
  intros (Hck & Hsz & Hbo) Hk Hle. unfold read_tail.
  destruct (bufio_read_spec (f_buf st) (f_und st) k Hk Hck)
    as [[Hnil Hr]|(d & b' & u' & Hr & Hd & Hl & Hc & Hok' & Hfin)];
    rewrite <- avail_uavail in *; rewrite Hr.
  - exists (mkF (f_size st) [] (f_und st)). split; [|split; [reflexivity|]].
    + unfold fst_ok. cbn [f_und f_size]. rewrite avail_mk.
      destruct (uavail_nil _ _ Hck Hnil) as [_ Hcs]. unfold uavail. rewrite Hcs. cbn.
      repeat split; auto; try lia. constructor.
    + left. destruct (uavail_nil _ _ Hck Hnil) as [_ Hcs].
      repeat split; auto. rewrite avail_mk. unfold uavail. now rewrite Hcs.
  - assert (Hdl : 0 < zlen d).
    { destruct d; [congruence|]. rewrite zlen_cons. pose proof (zlen_nonneg d). lia. }
    rewrite Z.mod_small by (unfold two32 in *; lia).
    exists (mkF (f_size st - zlen d) b' u'). split; [|split; [exact Hfin|]].
    + unfold fst_ok. cbn [f_und f_size]. rewrite avail_mk.
      rewrite Hc in Hbo. apply bytes_ok_app_inv in Hbo. repeat split; try tauto; lia.
    + right. exists d. repeat split; auto.
Qed.

Lemma framed_read_body maxlen st : f_size st <> 0 ->
  framed_read maxlen st (f_size st) = read_tail st (f_size st).
Proof.
  intros Hnz. unfold framed_read, framed_read_gen, after_hdr.
  replace (f_size st =? 0) with false by (symmetry; now apply Z.eqb_neq).
  now rewrite Z.ltb_irrefl.
Qed.

(** io.ReadFull(framed, buff) with len(buff) = RemainingBytes(): the whole rest of the frame,
    or the connection's error once nothing is left; the frame size returns to 0 *)
Lemma framed_read_full_spec maxlen fuel : forall st acc,
  fst_ok st -> (length (avail st) < fuel)%nat ->
  exists st', fst_ok st' /\ final_of st' = final_of st /\
   ((f_size st <= zlen (avail st) /\
       framed_read_full fuel maxlen st (f_size st) acc = (Ok (acc ++ ztake (f_size st) (avail st)), st') /\
       avail st' = zdrop (f_size st) (avail st) /\ f_size st' = 0) \/
    (zlen (avail st) < f_size st /\
       framed_read_full fuel maxlen st (f_size st) acc = (Err (final_of st), st') /\
       avail st' = [])).
Proof.
  induction fuel as [|fuel IH]; intros st acc Hst Hfuel; [lia|].
  pose proof Hst as (Hck & Hsz & Hbo).
  cbn [framed_read_full]. destruct (f_size st <=? 0) eqn:En.
  - apply Z.leb_le in En. assert (Hz : f_size st = 0) by lia.
    exists st. split; [assumption|]. split; [reflexivity|]. left.
    pose proof (zlen_nonneg (avail st)). rewrite Hz, ztake_0, zdrop_0, app_nil_r by lia.
    repeat split; auto; lia.
  - apply Z.leb_gt in En. rewrite framed_read_body by lia.
    destruct (read_tail_spec st (f_size st) Hst En ltac:(lia))
      as (st1 & Hst1 & Hf1 & [(Hnil & Hr & Ha1 & Hs1)|(d & Hr & Hd & Hl & Hc & Hs1)]); rewrite Hr.
    + exists st1. split; [assumption|]. split; [assumption|]. right.
      rewrite Hnil, zlen_nil. repeat split; auto.
    + assert (Hdl : 0 < zlen d).
      { destruct d; [congruence|]. rewrite zlen_cons. pose proof (zlen_nonneg d). lia. }
      assert (Hfuel1 : (length (avail st1) < fuel)%nat).
      { rewrite Hc, app_length in Hfuel. unfold zlen in Hdl. lia. }
      rewrite <- Hs1.
      destruct (IH st1 (acc ++ d) Hst1 Hfuel1)
        as (st2 & Hst2 & Hf2 & [(Hle2 & Hr2 & Ha2 & Hs2)|(Hlt2 & Hr2 & Ha2)]); rewrite Hr2.
      * exists st2. split; [assumption|]. split; [congruence|]. left.
        rewrite Hc, zlen_app. split; [lia|]. split; [|split; [|assumption]].
        -- f_equal. rewrite <- app_assoc. f_equal.
           replace (f_size st) with (zlen d + f_size st1) by lia.
           rewrite ztake_split by lia. now rewrite ztake_app_exact, zdrop_app_exact.
        -- rewrite Ha2. replace (f_size st) with (zlen d + f_size st1) by lia.
           rewrite <- zdrop_zdrop by lia. now rewrite zdrop_app_exact.
      * exists st2. split; [assumption|]. split; [congruence|]. right.
        rewrite Hc, zlen_app. split; [lia|]. split; [|assumption]. now rewrite Hf1.
Qed.

(** * readFrame on chunks = readFrame on the flat stream *)
Ltac fin := repeat match goal with |- _ /\ _ => split end; auto; try congruence; try discriminate.
Lemma read_frame_flat maxlen st : fst_ok st -> f_size st = 0 ->
  exists r st', read_frame maxlen st = (r, st') /\
    flat_read_frame maxlen (final_of st) (avail st) = (r, avail st') /\
    fst_ok st' /\ final_of st' = final_of st /\ (is_ok r = true -> f_size st' = 0) /\
    graceful r.
Proof.
  intros Hst Hz. unfold read_frame, flat_read_frame.
  destruct (framed_read_header maxlen st Hst Hz)
    as (st1 & Hst1 & Hf1 & [(Hlt & Hr & Ha & Hs)|[(Hle & Hbig & Hr & Ha & Hs)|(Hle & Hsmall & Hr & Ha & Hs)]]);
    rewrite Hr.
  - exists (Err (final_of st)), st1.
    replace (zlen (avail st) <? 4) with true by (symmetry; now apply Z.ltb_lt).
    rewrite Ha. cbn. fin.
  - exists (Err EOther), st1.
    replace (zlen (avail st) <? 4) with false by (symmetry; apply Z.ltb_ge; lia).
    fold (hdr_size (avail st)).
    replace (maxlen <? hdr_size (avail st)) with true by (symmetry; now apply Z.ltb_lt).
    rewrite Ha. cbn. fin.
  - replace (zlen (avail st) <? 4) with false by (symmetry; apply Z.ltb_ge; lia).
    fold (hdr_size (avail st)).
    replace (maxlen <? hdr_size (avail st)) with false by (symmetry; apply Z.ltb_ge; lia).
    pose proof Hst1 as (_ & Hsz1 & _).
    unfold make_bytes. replace (f_size st1 <? 0) with false by (symmetry; apply Z.ltb_ge; lia).
    destruct (framed_read_full_spec maxlen (S (length (avail st1))) st1 [] Hst1 ltac:(lia))
      as (st2 & Hst2 & Hf2 & [(Hle2 & Hr2 & Ha2 & Hs2)|(Hlt2 & Hr2 & Ha2)]); rewrite Hr2; cbn [app].
    + exists (Ok (ztake (f_size st1) (avail st1))), st2. rewrite <- Ha, <- Hs.
      replace (zlen (avail st1) <? f_size st1) with false by (symmetry; apply Z.ltb_ge; lia).
      rewrite Ha2. cbn. fin.
    + exists (Err (final_of st1)), st2. rewrite <- Ha, <- Hs.
      replace (zlen (avail st1) <? f_size st1) with true by (symmetry; now apply Z.ltb_lt).
      rewrite Ha2, Hf1. cbn. fin.
Qed.

Lemma fresh_ok chunks final :
  Forall (fun c : bytes => c <> []) chunks -> bytes_ok (concat chunks) ->
  fst_ok (fresh chunks final) /\ f_size (fresh chunks final) = 0 /\
  avail (fresh chunks final) = concat chunks /\ final_of (fresh chunks final) = final.
Proof.
  intros Hc Hb. unfold fresh, fst_ok, two32. cbn. repeat split; auto; lia.
Qed.

(** * the loops on chunks are the loops on the flat stream *)
Lemma adapter_loop_flat maxlen fuel : forall st n, fst_ok st -> f_size st = 0 ->
  adapter_loop fuel maxlen st n = flat_adapter_loop fuel maxlen (final_of st) (avail st) n.
Proof.
  induction fuel as [|fuel IH]; intros st n Hst Hz; [reflexivity|].
  cbn [adapter_loop flat_adapter_loop].
  destruct (read_frame_flat maxlen st Hst Hz) as (r & st' & Hr & Hfl & Hst' & Hf' & Hz' & _).
  rewrite Hr, Hfl. destruct r as [frame|e|p|]; try reflexivity.
  destruct (registry_execute frame); try reflexivity.
  rewrite <- Hf'. apply IH; auto.
Qed.

Lemma accept_loop_flat (process : bytes -> res bool) maxlen fuel : forall st, fst_ok st -> f_size st = 0 ->
  accept_loop process fuel maxlen st = flat_accept_loop process fuel maxlen (final_of st) (avail st).
Proof.
  induction fuel as [|fuel IH]; intros st Hst Hz; [reflexivity|].
  cbn [accept_loop flat_accept_loop].
  destruct (read_frame_flat maxlen st Hst Hz) as (r & st' & Hr & Hfl & Hst' & Hf' & Hz' & _).
  rewrite Hr, Hfl. destruct r as [frame|e|p|]; try reflexivity.
  destruct (process frame) as [[|]|e|p|]; try reflexivity.
  rewrite <- Hf', IH by auto. reflexivity.
Qed.

(** * the flat reference: frames are cut exactly, every frame consumes at least its header *)
Lemma flat_read_frame_ok maxlen final s frame s' :
  flat_read_frame maxlen final s = (Ok frame, s') -> bytes_ok s ->
  s = be32 (zlen frame) ++ frame ++ s' /\ zlen frame <= maxlen.
Proof.
  unfold flat_read_frame. intros H Hbo.
  destruct (zlen s <? 4) eqn:E4; [discriminate|]. apply Z.ltb_ge in E4.
  fold (hdr_size s) in H. pose proof (hdr_size_range s Hbo) as Hrange.
  destruct (maxlen <? hdr_size s) eqn:Em; [discriminate|]. apply Z.ltb_ge in Em.
  destruct (zlen (zdrop 4 s) <? hdr_size s) eqn:Eb; [discriminate|]. apply Z.ltb_ge in Eb.
  inversion H; subst frame s'; clear H.
  rewrite zlen_ztake, Z.min_l by lia. split; [|assumption].
  rewrite ztake_zdrop. unfold hdr_size.
  rewrite be32_un_be32.
  - now rewrite ztake_zdrop.
  - now apply ztake_ok.
  - pose proof (zlen_ztake 4 s ltac:(lia)) as L. unfold zlen in *. lia.
Qed.

Lemma flat_read_frame_graceful maxlen final s : graceful (fst (flat_read_frame maxlen final s)).
Proof.
  unfold flat_read_frame. destruct (zlen s <? 4); [exact I|].
  destruct (maxlen <? _); [exact I|]. destruct (_ <? _); exact I.
Qed.

Definition loop_end_ok (e : loop_end) : Prop :=
  match e with EndCrash | EndFuel => False | _ => True end.

Lemma flat_adapter_loop_safe maxlen final fuel : forall s n,
  bytes_ok s -> zlen s < 2147483648 -> (length s < fuel)%nat ->
  loop_end_ok (snd (flat_adapter_loop fuel maxlen final s n)) /\
  n <= fst (flat_adapter_loop fuel maxlen final s n).
Proof.
  induction fuel as [|fuel IH]; intros s n Hbo Hlen Hfuel; [lia|].
  cbn [flat_adapter_loop].
  pose proof (flat_read_frame_graceful maxlen final s) as G.
  destruct (flat_read_frame maxlen final s) as [[frame|e|p|] s'] eqn:E; cbn [fst] in G; try contradiction.
  - apply flat_read_frame_ok in E; [|assumption]. destruct E as [Es Hm].
    assert (Hl : zlen s = 4 + zlen frame + zlen s').
    { rewrite Es at 1. rewrite !zlen_app, be32_length. lia. }
    rewrite Es in Hbo. apply bytes_ok_app_inv in Hbo. destruct Hbo as [_ Hbo].
    apply bytes_ok_app_inv in Hbo. destruct Hbo as [Hbf Hbs].
    pose proof (zlen_nonneg frame). pose proof (zlen_nonneg s').
    pose proof (registry_execute_graceful frame ltac:(split; [assumption|lia])) as Gx.
    destruct (registry_execute frame) as [op|e|p|]; cbn [graceful] in Gx; try contradiction.
    + destruct (IH s' (n + 1) Hbs ltac:(lia) ltac:(unfold zlen in *; lia)) as [H1 H2].
      split; [assumption | lia].
    + cbn. split; [exact I | lia].
  - destruct e; cbn; try (destruct s; cbn); split; try exact I; lia.
Qed.

(** the abstract connection receiver of Model/Receivers.v is this loop for a peer that
    closes (END_OF_FILE) and the default limit *)
Definition conn_end_of (e : loop_end) : conn_end :=
  match e with
  | EndClean => ClosedClean
  | EndRead e | EndExec e => ClosedWith e
  | EndCrash => ConnCrash
  | EndFuel => ConnFuel
  end.

Lemma flat_adapter_loop_abstract fuel : forall s n, bytes_ok s ->
  conn_end_of (snd (flat_adapter_loop fuel max_frame EEOF s n)) = adapter_read_loop fuel s.
Proof.
  induction fuel as [|fuel IH]; intros s n Hbo; [reflexivity|].
  cbn [flat_adapter_loop adapter_read_loop]. unfold flat_read_frame, read_full.
  destruct s as [|x xs]; [reflexivity|]. set (s := x :: xs) in *.
  cbn [Z.leb andb]. replace (0 <=? 4) with true by reflexivity. cbn [andb].
  destruct (zlen s <? 4) eqn:E4.
  - apply Z.ltb_lt in E4. replace (4 <=? zlen s) with false by (symmetry; apply Z.leb_gt; lia).
    reflexivity.
  - apply Z.ltb_ge in E4. replace (4 <=? zlen s) with true by (symmetry; apply Z.leb_le; lia).
    rewrite <- ztake_take, <- zdrop_drop. fold (hdr_size s).
    pose proof (hdr_size_range s Hbo) as Hrange. unfold hdr_size in *.
    destruct (max_frame <? un_be32 (ztake 4 s)); [reflexivity|].
    replace (0 <=? un_be32 (ztake 4 s)) with true by (symmetry; apply Z.leb_le; lia). cbn [andb].
    destruct (zlen (zdrop 4 s) <? un_be32 (ztake 4 s)) eqn:Eb.
    + apply Z.ltb_lt in Eb.
      replace (un_be32 (ztake 4 s) <=? zlen (zdrop 4 s)) with false by (symmetry; apply Z.leb_gt; lia).
      reflexivity.
    + apply Z.ltb_ge in Eb.
      replace (un_be32 (ztake 4 s) <=? zlen (zdrop 4 s)) with true by (symmetry; apply Z.leb_le; lia).
      rewrite <- ztake_take, <- zdrop_drop.
      destruct (registry_execute _); try reflexivity.
      apply IH. now apply zdrop_ok, zdrop_ok.
Qed.

(** FSimpleServer.accept *)
Definition accept_end_ok (e : accept_end) : Prop :=
  match e with AcceptCrash | AcceptFuel => False | _ => True end.

Lemma flat_accept_loop_safe (process : bytes -> res bool) maxlen final fuel :
  (forall f, graceful (process f)) -> forall s,
  bytes_ok s -> (length s < fuel)%nat ->
  accept_end_ok (snd (flat_accept_loop process fuel maxlen final s)).
Proof.
  intros Hp. induction fuel as [|fuel IH]; intros s Hbo Hfuel; [lia|].
  cbn [flat_accept_loop].
  pose proof (flat_read_frame_graceful maxlen final s) as G.
  destruct (flat_read_frame maxlen final s) as [[frame|e|p|] s'] eqn:E; cbn [fst] in G; try contradiction.
  - apply flat_read_frame_ok in E; [|assumption]. destruct E as [Es Hm].
    assert (Hl : zlen s = 4 + zlen frame + zlen s').
    { rewrite Es at 1. rewrite !zlen_app, be32_length. lia. }
    rewrite Es in Hbo. apply bytes_ok_app_inv in Hbo. destruct Hbo as [_ Hbo].
    apply bytes_ok_app_inv in Hbo. destruct Hbo as [Hbf Hbs].
    pose proof (zlen_nonneg frame).
    pose proof (Hp frame) as Gp.
    destruct (process frame) as [[|]|e|p|]; cbn [graceful] in Gp; try contradiction; try exact I.
    specialize (IH s' Hbs ltac:(unfold zlen in *; lia)).
    destruct (flat_accept_loop process fuel maxlen final s') as [fs e]. exact IH.
  - destruct e; exact I.
Qed.

(** every frame handed to the processor is a frame of the stream: the frames are the
    successive [be32 size ++ body] blocks, nothing else *)
Fixpoint frames_wire (fs : list bytes) : bytes :=
  match fs with [] => [] | f :: fs' => be32 (zlen f) ++ f ++ frames_wire fs' end.

Lemma flat_accept_loop_frames (process : bytes -> res bool) maxlen final fuel : forall s,
  bytes_ok s ->
  exists rest, s = frames_wire (fst (flat_accept_loop process fuel maxlen final s)) ++ rest /\
    Forall (fun f => zlen f <= maxlen) (fst (flat_accept_loop process fuel maxlen final s)).
Proof.
  induction fuel as [|fuel IH]; intros s Hbo; [exists s; split; [reflexivity|constructor]|].
  cbn [flat_accept_loop].
  destruct (flat_read_frame maxlen final s) as [[frame|e|p|] s'] eqn:E;
    try (exists s; split; [destruct e; reflexivity | destruct e; constructor]);
    try (exists s; split; [reflexivity | constructor]).
  apply flat_read_frame_ok in E; [|assumption]. destruct E as [Es Hm].
  assert (Hbs : bytes_ok s').
  { rewrite Es in Hbo. apply bytes_ok_app_inv in Hbo. destruct Hbo as [_ Hbo].
    apply bytes_ok_app_inv in Hbo. tauto. }
  destruct (process frame) as [[|]|e|p|];
    try (exists s'; cbn [fst frames_wire]; rewrite app_nil_r, <- !app_assoc; split; [exact Es | repeat constructor; assumption]).
  destruct (IH s' Hbs) as (rest & Hr & Hall).
  destruct (flat_accept_loop process fuel maxlen final s') as [fs e]. cbn [fst] in *.
  exists rest. cbn [frames_wire]. split; [|constructor; assumption].
  rewrite <- !app_assoc. rewrite <- Hr. exact Es.
Qed.

(** * TFramedTransport.Read as a public API: any state, any buffer length *)
Definition read_post (maxlen : Z) (st : fstate) (k : Z) (r : rd * fstate) : Prop :=
  exists d e st', r = (Rd d e, st') /\ fst_ok st' /\ f_size st' <= maxlen /\
    final_of st' = final_of st /\
    zlen d <= k /\ (0 < k -> e = None -> d <> []) /\
    (length (avail st') + length d <= length (avail st))%nat.

Lemma read_tail_total maxlen st k : fst_ok st -> f_size st <= maxlen -> 0 <= k -> k <= f_size st ->
  read_post maxlen st k (read_tail st k).
Proof.
  intros Hst Hm Hk Hle. unfold read_post.
  destruct (Z.eq_dec k 0) as [->|Hnz].
  - pose proof Hst as (Hck & Hsz & Hbo).
    unfold read_tail. rewrite bufio_read_zero. cbv beta iota.
    assert (E : (f_size st - zlen (@nil Z)) mod two32 = f_size st).
    { rewrite zlen_nil, Z.sub_0_r. apply Z.mod_small. exact Hsz. }
    exists [], None, st. rewrite E. destruct st as [sz b u]. cbn [f_size f_buf f_und].
    repeat match goal with |- _ /\ _ => split end; auto; try lia; try (rewrite zlen_nil; lia); try (cbn; lia).
  - destruct (read_tail_spec st k Hst ltac:(lia) Hle)
      as (st' & Hst' & Hf' & [(Hnil & Hr & Ha & Hs)|(d & Hr & Hd & Hl & Hc & Hs)]); rewrite Hr.
    + exists [], (Some (final_of st)), st'.
      assert (length (avail st') + length (@nil Z) <= length (avail st))%nat by (rewrite Ha; cbn; lia).
      assert (zlen (@nil Z) <= k) by (rewrite zlen_nil; lia).
      repeat match goal with |- _ /\ _ => split end; auto; try lia; try discriminate.
    + exists d, None, st'. pose proof (zlen_nonneg d).
      assert (length (avail st') + length d <= length (avail st))%nat by (rewrite Hc, app_length; lia).
      repeat match goal with |- _ /\ _ => split end; auto; try lia.
Qed.

Lemma after_hdr_total maxlen st : fst_ok st -> 0 <= maxlen -> f_size st <= maxlen ->
  (exists e st', after_hdr maxlen st = inl (Rd [] (Some e), st') /\ fst_ok st' /\ f_size st' = 0 /\
      final_of st' = final_of st /\ (length (avail st') <= length (avail st))%nat) \/
  (exists st1, after_hdr maxlen st = inr st1 /\ fst_ok st1 /\ f_size st1 <= maxlen /\
      final_of st1 = final_of st /\ (length (avail st1) <= length (avail st))%nat /\
      (f_size st <> 0 -> st1 = st)).
Proof.
  intros Hst Hm0 Hm. pose proof Hst as (Hck & Hsz & Hbo). unfold after_hdr.
  destruct (f_size st =? 0) eqn:Ez.
  - apply Z.eqb_eq in Ez.
    destruct (read_frame_header_spec maxlen (f_buf st) (f_und st) Hck)
      as [[Hlt (b' & u' & Hr & Ha & Hok' & Hf)]|[Hle (b' & u' & Hr & Ha & Hok' & Hf)]];
      rewrite <- avail_uavail in *; rewrite Hr.
    + left. exists (final_of st), (mkF 0 b' u').
      repeat match goal with |- _ /\ _ => split end; auto.
      * unfold fst_ok, two32. cbn [f_und f_size]. rewrite avail_mk, Ha.
        repeat split; auto; try lia. constructor.
      * rewrite avail_mk, Ha. cbn. lia.
    + pose proof (hdr_size_range (avail st) Hbo) as Hrange.
      assert (Hbo' : bytes_ok (zdrop 4 (avail st))) by now apply zdrop_ok.
      assert (Hlen : (length (zdrop 4 (avail st)) <= length (avail st))%nat).
      { rewrite zdrop_drop, drop_length. lia. }
      destruct (maxlen <? hdr_size (avail st)) eqn:Em.
      * left. exists EOther, (mkF 0 b' u').
        repeat match goal with |- _ /\ _ => split end; auto.
        -- unfold fst_ok, two32. cbn [f_und f_size]. rewrite avail_mk, Ha. repeat split; auto; lia.
        -- now rewrite avail_mk, Ha.
      * apply Z.ltb_ge in Em. right. exists (mkF (hdr_size (avail st)) b' u').
        repeat match goal with |- _ /\ _ => split end; auto.
        -- unfold fst_ok. cbn [f_und f_size]. rewrite avail_mk, Ha. repeat split; auto; lia.
        -- now rewrite avail_mk, Ha.
        -- intros Hnz. contradiction.
  - apply Z.eqb_neq in Ez. right. exists st.
    repeat match goal with |- _ /\ _ => split end; auto.
Qed.

Lemma framed_read_gen_S ft f maxlen st k :
  framed_read_gen ft (S f) maxlen st k =
    match after_hdr maxlen st with
    | inl r => r
    | inr st1 =>
      match (if f_size st1 <? k then
               match make_bytes (f_size st1) with
               | Ok _ =>
                 match framed_read_gen ft f maxlen st1 (f_size st1) with
                 | (Rd d None, st2) => inl (Rd d (Some EOther), st2)
                 | (Rd d (Some e), st2) => if ft then inr st2 else inl (Rd d (Some e), st2)
                 | (r, st2) => inl (r, st2)
                 end
               | Panic p => inl (RdPanic p, st1)
               | _ => inl (RdFuel, st1)
               end
             else inr st1) with
      | inl r => r
      | inr st3 => read_tail st3 k
      end
    end.
Proof. reflexivity. Qed.

(** the inner call Read(tmp), len(tmp) = frameSize: never takes the "short" branch again *)
Lemma framed_read_inner maxlen st : fst_ok st -> 0 <= maxlen -> f_size st <= maxlen ->
  read_post maxlen st (f_size st) (framed_read_gen false 1 maxlen st (f_size st)).
Proof.
  intros Hst Hm0 Hm. pose proof Hst as (Hck & Hsz & Hbo). rewrite framed_read_gen_S.
  destruct (after_hdr_total maxlen st Hst Hm0 Hm)
    as [(e & st' & Hr & Hst' & Hz' & Hf' & Hl')|(st1 & Hr & Hst1 & Hm1 & Hf1 & Hl1 & Hsame)]; rewrite Hr.
  - exists [], (Some e), st'.
    assert (zlen (@nil Z) <= 0) by (rewrite zlen_nil; lia).
    assert (length (avail st') + length (@nil Z) <= length (avail st))%nat by (cbn; lia).
    repeat match goal with |- _ /\ _ => split end; auto; try lia; try discriminate.
  - destruct (Z.eq_dec (f_size st) 0) as [Hz|Hnz].
    + rewrite Hz. pose proof Hst1 as (_ & Hsz1 & _).
      replace (f_size st1 <? 0) with false by (symmetry; apply Z.ltb_ge; lia).
      destruct (read_tail_total maxlen st1 0 Hst1 Hm1 ltac:(lia) ltac:(lia))
        as (d & e & st' & Hrt & Hst' & Hm' & Hf' & Hd & Hp & Hl').
      rewrite Hrt. exists d, e, st'.
      repeat match goal with |- _ /\ _ => split end; auto; try lia; try congruence.
    + rewrite (Hsame Hnz), Z.ltb_irrefl.
      destruct (read_tail_total maxlen st (f_size st) Hst Hm ltac:(lia) ltac:(lia))
        as (d & e & st' & Hrt & Hst' & Hm' & Hf' & Hd & Hp & Hl').
      rewrite Hrt. exists d, e, st'.
      repeat match goal with |- _ /\ _ => split end; auto.
Qed.

Lemma framed_read_total maxlen st k :
  fst_ok st -> 0 <= maxlen -> f_size st <= maxlen -> 0 <= k ->
  read_post maxlen st k (framed_read maxlen st k).
Proof.
  intros Hst Hm0 Hm Hk. unfold framed_read. rewrite framed_read_gen_S.
  destruct (after_hdr_total maxlen st Hst Hm0 Hm)
    as [(e & st' & Hr & Hst' & Hz' & Hf' & Hl')|(st1 & Hr & Hst1 & Hm1 & Hf1 & Hl1 & Hsame)]; rewrite Hr.
  - exists [], (Some e), st'.
    assert (zlen (@nil Z) <= 0) by (rewrite zlen_nil; lia).
    assert (length (avail st') + length (@nil Z) <= length (avail st))%nat by (cbn; lia).
    repeat match goal with |- _ /\ _ => split end; auto; try lia; try discriminate.
  - pose proof Hst1 as (_ & Hsz1 & _).
    destruct (f_size st1 <? k) eqn:Es.
    + apply Z.ltb_lt in Es. unfold make_bytes.
      replace (f_size st1 <? 0) with false by (symmetry; apply Z.ltb_ge; lia).
      destruct (framed_read_inner maxlen st1 Hst1 Hm0 Hm1)
        as (d & e & st' & Hri & Hst' & Hm' & Hf' & Hd & Hp & Hl').
      rewrite Hri. destruct e as [e|].
      * exists d, (Some e), st'.
        repeat match goal with |- _ /\ _ => split end; auto; try lia; try congruence; try discriminate.
      * exists d, (Some EOther), st'.
        repeat match goal with |- _ /\ _ => split end; auto; try lia; try congruence; try discriminate.
    + apply Z.ltb_ge in Es.
      destruct (read_tail_total maxlen st1 k Hst1 Hm1 Hk Es)
        as (d & e & st' & Hrt & Hst' & Hm' & Hf' & Hd & Hp & Hl').
      rewrite Hrt. exists d, e, st'.
      repeat match goal with |- _ /\ _ => split end; auto; try lia; try congruence.
Qed.

(** the code before the repair: an oversized header after an empty frame was swallowed *)
Definition pinned_witness : fstate :=
  fresh [[0;0;0;0; 255;255;255;255; 65;66;67;68]] EEOF.

Lemma framed_read_pinned_swallows :
  fst (framed_read_pinned 16384000 pinned_witness 4) = Rd [65;66;67;68] None /\
  f_size (snd (framed_read_pinned 16384000 pinned_witness 4)) = 4294967292 /\
  fst (framed_read 16384000 pinned_witness 4) = Rd [] (Some EOther) /\
  f_size (snd (framed_read 16384000 pinned_witness 4)) = 0.
Proof. vm_compute. repeat split. Qed.

(** * statements for Props/C05.v *)
Definition chunking_ok (chunks : list bytes) : Prop :=
  Forall (fun c : bytes => c <> []) chunks /\ bytes_ok (concat chunks).

Lemma read_frame_chunking maxlen chunks final : chunking_ok chunks ->
  exists r st', read_frame maxlen (fresh chunks final) = (r, st') /\
    flat_read_frame maxlen final (concat chunks) = (r, avail st') /\ graceful r /\
    fst_ok st' /\ (is_ok r = true -> f_size st' = 0).
Proof.
  intros [Hc Hb]. destruct (fresh_ok chunks final Hc Hb) as (Hst & Hz & Ha & Hf).
  destruct (read_frame_flat maxlen _ Hst Hz) as (r & st' & Hr & Hfl & Hst' & Hf' & Hz' & G).
  exists r, st'. rewrite Hf, Ha in Hfl. auto 10.
Qed.

Lemma adapter_loop_chunking fuel maxlen chunks final : chunking_ok chunks ->
  adapter_loop fuel maxlen (fresh chunks final) 0 = flat_adapter_loop fuel maxlen final (concat chunks) 0.
Proof.
  intros [Hc Hb]. destruct (fresh_ok chunks final Hc Hb) as (Hst & Hz & Ha & Hf).
  rewrite adapter_loop_flat by assumption. now rewrite Hf, Ha.
Qed.

Lemma adapter_loop_closes maxlen chunks final : chunking_ok chunks ->
  zlen (concat chunks) < 2147483648 ->
  loop_end_ok (snd (adapter_loop (S (length (concat chunks))) maxlen (fresh chunks final) 0)).
Proof.
  intros Hc Hl. rewrite adapter_loop_chunking by assumption.
  apply flat_adapter_loop_safe; [apply Hc | assumption | lia].
Qed.

Lemma adapter_loop_abstract fuel chunks : chunking_ok chunks ->
  conn_end_of (snd (adapter_loop fuel max_frame (fresh chunks EEOF) 0)) = adapter_read_loop fuel (concat chunks).
Proof.
  intros Hc. rewrite adapter_loop_chunking by assumption. apply flat_adapter_loop_abstract, Hc.
Qed.

Lemma accept_loop_total (process : bytes -> res bool) maxlen chunks final :
  (forall f, graceful (process f)) -> chunking_ok chunks ->
  let r := accept_loop process (S (length (concat chunks))) maxlen (fresh chunks final) in
  accept_end_ok (snd r) /\
  r = flat_accept_loop process (S (length (concat chunks))) maxlen final (concat chunks) /\
  (exists rest, concat chunks = frames_wire (fst r) ++ rest) /\
  Forall (fun f => zlen f <= maxlen) (fst r).
Proof.
  intros Hp [Hc Hb] r. destruct (fresh_ok chunks final Hc Hb) as (Hst & Hz & Ha & Hf).
  assert (E : r = flat_accept_loop process (S (length (concat chunks))) maxlen final (concat chunks)).
  { unfold r. rewrite accept_loop_flat by assumption. now rewrite Hf, Ha. }
  rewrite E. split; [|split; [reflexivity|]].
  - apply flat_accept_loop_safe; auto.
  - destruct (flat_accept_loop_frames process maxlen final (S (length (concat chunks))) (concat chunks) Hb)
      as (rest & Hr & Hall). split; [exists rest; exact Hr | exact Hall].
Qed.

Lemma framing_example :
  let chunks := [[0;0]; [0;2;7]; [8;0;0;0]; [1;9;0;0;0]; [200]] in
  chunking_ok chunks /\
  accept_loop (fun _ => Ok true) 20 100 (fresh chunks EEOF) = ([[7;8]; [9]], AcceptReadErr EOther).
Proof.
  split; [split; [repeat constructor; discriminate | repeat constructor; lia] | vm_compute; reflexivity].
Qed.

(** * FSimpleServer.accept with the FBaseProcessor of Model/Processor.v (C14's model) *)
From FV Require Model.Processor.

Definition base_process (svc : list Processor.mdesc) (h : Processor.handler) (etext : bytes)
  (frame : bytes) : res bool :=
  Ok (negb (fst (Processor.process svc h true etext frame))).

Lemma accept_base_processor_total svc h etext maxlen chunks final : chunking_ok chunks ->
  let r := accept_loop (base_process svc h etext) (S (length (concat chunks))) maxlen (fresh chunks final) in
  accept_end_ok (snd r) /\
  r = flat_accept_loop (base_process svc h etext) (S (length (concat chunks))) maxlen final (concat chunks) /\
  (exists rest, concat chunks = frames_wire (fst r) ++ rest).
Proof.
  intros Hc r.
  destruct (accept_loop_total (base_process svc h etext) maxlen chunks final (fun _ => I) Hc)
    as (H1 & H2 & H3 & _).
  auto.
Qed.
