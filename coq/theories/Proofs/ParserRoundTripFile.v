(** Round trip through the whole parser model for files made of the declaration kinds whose
    derivations are proved in ParserRoundTrip.v (typedef of a base type), ParserRoundTripEnum.v
    (enum), ParserRoundTripStruct.v (struct / exception / union with fields), ParserRoundTripConst.v
    (const with an integer or plain string value) and ParserRoundTripService.v (service with methods):
    the statement loop of
    the Grammar rule and the Grammar action, generically over "statements that Statement (2) parses
    to a known value", then instantiated.  C10 stage 5: [c10_roundtrip_structs_partial]. *)
From Coq Require Import ZArith List Bool Arith Lia String.
From FV Require Import Model.PegSyntax Model.Peg Model.PegWf Model.ParserStrings Model.ParserAst
     Model.ParserActions Model.Parser Proofs.PegProofs Proofs.ParserProofs Proofs.ParserLexProofs
     Proofs.ParserEvals Proofs.ParserRoundTrip Proofs.ParserRoundTripEnum Proofs.ParserRoundTripStruct
     Proofs.ParserRoundTripConst Proofs.ParserRoundTripService.
Import ListNotations.
Local Open Scope Z_scope.

(** ** statements in the abstract: a rendering (given what follows), the blanks / line breaks left
    for the Grammar rule's __, and the value Statement (2) returns (without doc comment) *)
Record stmt := mk_stmt { sm_render : bytes -> bytes; sm_w : bytes; sm_val : val }.

Definition stmt_good (s : stmt) : Prop :=
  run_of p_wsnl (sm_w s)
  /\ (forall more, decl_follow (sm_render s more))
  /\ (forall more cr o es fr, decl_follow more ->
        exists o', evals (CRef 2) cr (st_of (sm_render s more) o es) fr
                         (Done true (VWrapper None (sm_val s)) (st_of (sm_w s ++ more) o' es) fr)).

Fixpoint render_stmts (ss : list stmt) : bytes :=
  match ss with [] => [] | s :: r => sm_render s (render_stmts r) end.
Definition stmt_loop_val (s : stmt) : val := VList [VWrapper None (sm_val s); VList (bytes_vals (sm_w s))].

Lemma render_stmts_follow : forall ss, Forall stmt_good ss -> decl_follow (render_stmts ss).
Proof.
  intros [|s r] Hall; [exact I|]. inversion Hall as [|? ? (_ & Hf & _) _]; subst. cbn [render_stmts]. apply Hf.
Qed.

Lemma stmts_loop : forall ss o es fr acc,
  Forall stmt_good ss ->
  exists o', loops (CSeq [CRef 2; CRef 55]) 0 (st_of (render_stmts ss) o es) fr acc
                   (Done true (VList (rev acc ++ map stmt_loop_val ss)) (st_of [] o' es) fr).
Proof.
  induction ss as [|s r IH]; intros o es fr acc Hall.
  - exists o. cbn [render_stmts map]. rewrite app_nil_r.
    eapply L_stop. apply E_seq.
    exact (S_fail 0 _ _ _ _ _ _ _ _ _ (statement_fails_eof 0 o es [])).
  - inversion Hall as [|s' r' Hs Hr]; subst. destruct Hs as (Hw & _ & Hst).
    pose proof (render_stmts_follow r Hr) as Hfol.
    destruct (Hst (render_stmts r) 0%nat o es [] Hfol) as [o1 Hst1].
    assert (Hf6 : head_not [32; 9; 13; 10; 47; 35] (render_stmts r)) by (unfold decl_follow in Hfol; sub_head Hfol).
    destruct (IH (o1 + Z.of_nat (List.length (sm_w s))) es fr (stmt_loop_val s :: acc) Hr) as [o' Hloop].
    exists o'. cbn [render_stmts].
    eapply L_step.
    + apply E_seq.
      eapply S_ok; [exact Hst1|].
      eapply S_ok; [exact (gap_free (sm_w s) (render_stmts r) 0 o1 es [] Hw Hf6)|].
      apply S_nil.
    + cbn [rev map] in Hloop |- *. rewrite <- app_assoc in Hloop. exact Hloop.
Qed.

(** the whole Grammar rule, and [parse_idl], on leading blanks followed by good statements *)
Theorem roundtrip_stmts : forall w0 ss f,
  run_of p_wsnl w0 -> Forall stmt_good ss ->
  add_statements (map stmt_loop_val ss) empty_frugal = Some (inl f) ->
  parse_idl (w0 ++ render_stmts ss) = POk f.
Proof.
  intros w0 ss f Hw0 Hall Hadd.
  destruct shapes as (H0 & _ & _ & _ & _ & _ & _ & _ & _ & _ & _ & _ & _ & _ & _ & _ & _ & H61).
  pose proof (render_stmts_follow ss Hall) as Hfol.
  assert (Hf6 : head_not [32; 9; 13; 10; 47; 35] (render_stmts ss)) by (unfold decl_follow in Hfol; sub_head Hfol).
  destruct (stmts_loop ss (0 + Z.of_nat (List.length w0)) [] [] [] Hall) as [o' Hloop].
  assert (Hg : exists body, nth_error rules 0 = Some body
    /\ evals body 0 (st_of (w0 ++ render_stmts ss) 0 []) []
             (Done true (VFrugal f) (st_of [] o' []) [("statements"%string, VList (map stmt_loop_val ss))])).
  { eexists. split; [exact H0|]. eapply E_act_ok.
    - apply E_seq.
      eapply S_ok; [exact (gap_free w0 (render_stmts ss) 0 0 [] [] Hw0 Hf6)|].
      eapply S_ok; [apply E_label_ok with (fr1 := []); apply E_star; exact Hloop|].
      eapply S_ok.
      { apply E_choice. eapply C_ok. eapply E_ref; [exact H61|].
        eapply (E_not CAny 61 _ [] false). apply E_any. reflexivity. }
      apply S_nil.
    - unfold finish_action, run_action, run_action_opt. cbn [fget find fst snd String.eqb Ascii.eqb Bool.eqb].
      cbn [app rev to_iface_slice obind]. rewrite Hadd. reflexivity. }
  destruct Hg as (body & Hbody & [n Hev]).
  set (input := w0 ++ render_stmts ss) in *.
  assert (Hinit : initial_state aerr input = st_of input 0 []).
  { apply initial_state_ascii. unfold input.
    apply (run_app_ascii_next p_wsnl w0 _ Hw0). exact (head_not_ascii_next _ _ Hfol). }
  assert (Hn : parse_with n input = PResult (inl (VFrugal f))).
  { unfold parse_with, p_parse, Peg.parse. rewrite Hbody, Hinit.
    change (Peg.eval action val aerr VNil VBytes VList run_action rules n body 0 (st_of input 0 []) [])
      with (ev n body 0%nat (st_of input 0 []) []).
    rewrite (Hev n (le_n n)). reflexivity. }
  pose proof (parser_never_out_of_fuel input) as Hne. unfold parse_text in Hne.
  assert (Hnn : parse_with n input <> PFuel) by (rewrite Hn; discriminate).
  assert (Heq : parse_with (fuel_for input) input = parse_with n input).
  { exact (parse_fuel_irrelevant action val aerr VNil VBytes VList run_action rules (fuel_for input) n input Hne Hnn). }
  unfold parse_idl, parse_text. rewrite Heq, Hn. reflexivity.
Qed.

(** ** the declaration kinds of the proved fragment *)
Inductive xdecl :=
| X_typedef (d : td_spec)
| X_enum (e : en_spec)
| X_struct (d : st_spec)
| X_const (d : cn_spec)
| X_service (s : sv_spec).

Definition xdecl_ok (d : xdecl) : Prop :=
  match d with X_typedef t => td_ok t | X_enum e => en_ok e | X_struct s => st_ok s | X_const c => cn_ok c
  | X_service v => sv_ok v end.

Definition stmt_of (d : xdecl) : stmt :=
  match d with
  | X_typedef t => mk_stmt (render_one t) (td_w t) (VTypeDef (typedef_of t))
  | X_enum e => mk_stmt (render_enum e) (e_w e) (VEnum (enum_of e))
  | X_struct s => mk_stmt (render_st s) (sl_w (st_sl s)) (kind_val (st_kind s) (struct_of (st_sl s)))
  | X_const c => mk_stmt (render_cn c) (cn_w c) (VConst (const_of c))
  | X_service v => mk_stmt (render_sv v) (sv_w v) (VService (service_of v))
  end.

Definition render_xdecl (d : xdecl) (more : bytes) : bytes := sm_render (stmt_of d) more.
Fixpoint render_file (ds : list xdecl) : bytes :=
  match ds with [] => [] | d :: r => render_xdecl d (render_file r) end.

Lemma render_file_stmts : forall ds, render_file ds = render_stmts (map stmt_of ds).
Proof. induction ds as [|d r IH]; [reflexivity|]. cbn [render_file map render_stmts]. rewrite IH. reflexivity. Qed.

Lemma stmt_of_good : forall d, xdecl_ok d -> stmt_good (stmt_of d).
Proof.
  intros [t|e|s|c|v] Hd; cbn [xdecl_ok stmt_of] in *; (split; [|split]); cbn [sm_render sm_w sm_val].
  - destruct Hd as (_ & _ & _ & _ & _ & _ & _ & _ & Hw). exact Hw.
  - intros more. unfold decl_follow, render_one, lit_typedef. cbn [app]. split; [unfold ascii; lia | repeat constructor; lia].
  - intros more cr o es fr Hm. exact (statement_typedef t more cr o es fr Hd Hm).
  - destruct Hd as (_ & _ & _ & _ & _ & _ & _ & _ & Hw & _). exact Hw.
  - intros more. unfold decl_follow, render_enum, lit_enum. cbn [app]. split; [unfold ascii; lia | repeat constructor; lia].
  - intros more cr o es fr Hm. exact (statement_enum e more cr o es fr Hd Hm).
  - destruct Hd as (_ & (_ & _ & _ & _ & _ & _ & _ & Hw)). exact Hw.
  - intros more. unfold decl_follow, render_st. destruct (st_kind s); cbn [kind_lit];
      unfold lit_struct, lit_exception, lit_union; cbn [app]; (split; [unfold ascii; lia | repeat constructor; lia]).
  - intros more cr o es fr Hm. exact (statement_struct s more cr o es fr Hd Hm).
  - destruct Hd as (_ & _ & _ & _ & _ & _ & _ & _ & _ & Hw). exact Hw.
  - intros more. unfold decl_follow, render_cn, lit_const. cbn [app]. split; [unfold ascii; lia | repeat constructor; lia].
  - intros more cr o es fr Hm. exact (statement_const c more cr o es fr Hd Hm).
  - destruct Hd as (_ & _ & _ & _ & _ & _ & _ & _ & Hw). exact Hw.
  - intros more. unfold decl_follow, render_sv, lit_service. cbn [app]. split; [unfold ascii; lia | repeat constructor; lia].
  - intros more cr o es fr Hm. exact (statement_service v more cr o es fr Hd Hm).
Qed.

(** ** what the Grammar action makes of them *)
(** the struct as it ends up in the Frugal tree: the kind is set by the Grammar action, and the
    fields of a union are made optional there *)
Definition final_struct (d : st_spec) : struct :=
  let s := st_sl d in
  match st_kind d with
  | K_struct => mkstruct None (sl_c s :: sl_t s) (map field_of (sl_fs s)) 0 []
  | K_exception => mkstruct None (sl_c s :: sl_t s) (map field_of (sl_fs s)) 1 []
  | K_union => mkstruct None (sl_c s :: sl_t s) (map (set_mod m_optional) (map field_of (sl_fs s))) 2 []
  end.

Fixpoint x_typedefs (ds : list xdecl) : list typedef :=
  match ds with [] => [] | X_typedef t :: r => typedef_of t :: x_typedefs r | _ :: r => x_typedefs r end.
Fixpoint x_consts (ds : list xdecl) : list constant :=
  match ds with [] => [] | X_const c :: r => const_of c :: x_consts r | _ :: r => x_consts r end.
Fixpoint x_services (ds : list xdecl) : list service :=
  match ds with [] => [] | X_service v :: r => service_of v :: x_services r | _ :: r => x_services r end.
Fixpoint x_enums (ds : list xdecl) : list enum :=
  match ds with [] => [] | X_enum e :: r => enum_of e :: x_enums r | _ :: r => x_enums r end.
Fixpoint x_kind (k : sl_kind) (ds : list xdecl) : list struct :=
  match ds with
  | [] => []
  | X_struct s :: r =>
    match k, st_kind s with
    | K_struct, K_struct | K_exception, K_exception | K_union, K_union => final_struct s :: x_kind k r
    | _, _ => x_kind k r
    end
  | _ :: r => x_kind k r
  end.

Definition x_extend (f : frugal) (ds : list xdecl) : frugal :=
  mkfrugal (fr_includes f) (fr_namespaces f) (fr_typedefs f ++ x_typedefs ds) (fr_constants f ++ x_consts ds)
           (fr_enums f ++ x_enums ds) (fr_structs f ++ x_kind K_struct ds)
           (fr_exceptions f ++ x_kind K_exception ds) (fr_unions f ++ x_kind K_union ds)
           (fr_services f ++ x_services ds) (fr_scopes f).

Lemma add_statements_x : forall ds f,
  add_statements (map stmt_loop_val (map stmt_of ds)) f = Some (inl (x_extend f ds)).
Proof.
  induction ds as [|d r IH]; intros f.
  - unfold x_extend. cbn [map add_statements x_typedefs x_consts x_enums x_kind x_services]. rewrite !app_nil_r. destruct f; reflexivity.
  - cbn [map]. unfold stmt_loop_val at 1.
    destruct d as [t|e|[k g1 s]|c|v]; [| |destruct k| |];
      cbn [stmt_of sm_val sm_w kind_val st_kind st_sl add_statements first_of as_list idx nth_error obind];
      rewrite IH; unfold x_extend;
      cbn [fr_includes fr_namespaces fr_typedefs fr_constants fr_enums fr_structs fr_exceptions fr_unions
           fr_services fr_scopes x_typedefs x_consts x_enums x_kind x_services st_kind];
      rewrite <- ?app_assoc; reflexivity.
Qed.

(** the tree of a file of the fragment *)
Definition frugal_of (ds : list xdecl) : frugal :=
  mkfrugal [] [] (x_typedefs ds) (x_consts ds) (x_enums ds) (x_kind K_struct ds) (x_kind K_exception ds) (x_kind K_union ds)
           (x_services ds) [].

(** ** parse (render m) = m for files of typedefs of base types, enums, structs, exceptions, unions,
    constants and services *)
Theorem roundtrip_file : forall w0 ds,
  run_of p_wsnl w0 -> Forall xdecl_ok ds ->
  parse_idl (w0 ++ render_file ds) = POk (frugal_of ds).
Proof.
  intros w0 ds Hw0 Hall. rewrite render_file_stmts.
  apply roundtrip_stmts; [exact Hw0| |].
  - rewrite Forall_forall in *. intros s Hs. apply in_map_iff in Hs. destruct Hs as (d & <- & Hd).
    exact (stmt_of_good d (Hall d Hd)).
  - rewrite add_statements_x. reflexivity.
Qed.

(** the fragment of [roundtrip_decls] is inside this one *)
Definition x_of_decl (d : decl_spec) : xdecl := match d with D_typedef t => X_typedef t | D_enum e => X_enum e end.
Lemma render_file_decls : forall ds, render_file (map x_of_decl ds) = render_decls ds.
Proof. induction ds as [|[t|e] r IH]; [reflexivity| |]; cbn [map render_file render_decls]; rewrite IH; reflexivity. Qed.
