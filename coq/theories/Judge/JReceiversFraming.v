(** Judge for the framing layer (C05): replays harness observations on Model/ReceiversFraming.v.

    case kinds
      [20; maxlen; chunks; final; reads]        TFramedTransport.Read call by call;
                                                 reads = [[k; data; err; remaining]; ...]
      [21; maxlen; chunks; final; frames; end]   readFrame / readRequestFrame until it fails
      [22; chunks; final; calls; cause]          adapter transport end to end (default limit)
      [23; maxlen; chunks; final; frames; end]   FSimpleServer.accept with a recording processor
                                                 (fails on frames starting with 0xEE)
      [24; chunks; closed; frames]               FSimpleServer on a TCP socket, the peer keeps its end
                                                 open: closed = 1 iff the server closed the connection
    error codes as Res.errk_code; 0 = nil. *)
From Coq Require Import ZArith List Bool.
From FV Require Import Base.Res Base.Bytes Base.GoSem Model.Headers Model.Receivers
  Model.ReceiversFraming Judge.Wire.
Import ListNotations.
Open Scope Z_scope.

Definition errk_of_code (c : Z) : errk :=
  if c =? 6 then EEOF else if c =? 3 then ETimedOut else if c =? 2 then ENotOpen
  else if c =? 1 then ETooLarge else if c =? 4 then EInvalidData else if c =? 5 then EBadVersion
  else EOther.

Definition err_code (e : option errk) : Z := match e with None => 0 | Some e => errk_code e end.

Definition tok_chunks (t : tok) : list bytes := map as_bytes (as_list t).

Definition total_len (chunks : list bytes) : nat := length (concat chunks).

(** bit 0: a read failed; 1: more asked than the frame holds; 2: a header was read;
    3: large read (bufio bypass); 4: partial delivery (fewer bytes than asked, no error) *)
Definition read_bits (st : fstate) (k : Z) (d : bytes) (e : option errk) : Z :=
  (match e with Some _ => 1 | None => 0 end)
  + (if (negb (f_size st =? 0)) && (f_size st <? k) then 2 else 0)
  + (if f_size st =? 0 then 4 else 0)
  + (if bufsize <=? k then 8 else 0)
  + (if (zlen d <? k) && (match e with None => true | _ => false end) then 16 else 0).

Fixpoint replay_reads (maxlen : Z) (st : fstate) (reads : list tok) (tag : Z) : Z :=
  match reads with
  | [] => tag
  | r :: rs =>
      let f := as_list r in
      let k := as_int (nth_tok 0 f) in
      match framed_read maxlen st k with
      | (Rd d e, st') =>
          if zeqb_list d (as_bytes (nth_tok 1 f)) && (err_code e =? as_int (nth_tok 2 f))
             && (f_size st' =? as_int (nth_tok 3 f))
          then replay_reads maxlen st' rs (Z.lor tag (read_bits st k d e))
          else -1
      | _ => -1
      end
  end.

(** readFrame until it fails: observed frames then the class of the final error *)
Fixpoint replay_frames (fuel : nat) (maxlen : Z) (st : fstate) (oframes : list tok) (n : Z) : Z * Z :=
  match fuel with
  | O => (-1, n)
  | S f =>
      match read_frame maxlen st with
      | (Ok fr, st') =>
          match oframes with
          | o :: os => if zeqb_list fr (as_bytes o) then replay_frames f maxlen st' os (n + 1) else (-1, n)
          | [] => (-1, n)
          end
      | (Err e, _) => match oframes with [] => (errk_code e, n) | _ => (-1, n) end
      | _ => (-1, n)
      end
  end.

Definition recording_process (f : bytes) : res bool :=
  match f with 238 :: _ => Ok false | _ => Ok true end.

Fixpoint frames_eqb (a : list bytes) (b : list tok) : bool :=
  match a, b with
  | [], [] => true
  | x :: a', y :: b' => zeqb_list x (as_bytes y) && frames_eqb a' b'
  | _, _ => false
  end.

Definition accept_end_code (e : accept_end) : Z :=
  match e with
  | AcceptEOF => 0
  | AcceptReadErr e => errk_code e
  | AcceptProcessErr => 50
  | AcceptCrash => 100
  | AcceptFuel => 101
  end.

Definition judge_case (t : tok) : Z :=
  let f := as_list t in
  let kind := as_int (nth_tok 0 f) in
  if kind =? 20 then
    let maxlen := as_int (nth_tok 1 f) in
    let chunks := tok_chunks (nth_tok 2 f) in
    let final := errk_of_code (as_int (nth_tok 3 f)) in
    let r := replay_reads maxlen (fresh chunks final) (as_list (nth_tok 4 f)) 0 in
    if r <? 0 then -1 else 20000 + r
  else if kind =? 21 then
    let maxlen := as_int (nth_tok 1 f) in
    let chunks := tok_chunks (nth_tok 2 f) in
    let final := errk_of_code (as_int (nth_tok 3 f)) in
    let '(c, n) := replay_frames (S (total_len chunks)) maxlen (fresh chunks final)
                                 (as_list (nth_tok 4 f)) 0 in
    if (0 <=? c) && (c =? as_int (nth_tok 5 f))
    then 21000 + 10 * c + (if n =? 0 then 0 else if n =? 1 then 1 else 2) else -1
  else if kind =? 22 then
    let chunks := tok_chunks (nth_tok 1 f) in
    let final := errk_of_code (as_int (nth_tok 2 f)) in
    let ocalls := as_int (nth_tok 3 f) in
    let ocause := as_int (nth_tok 4 f) in
    match adapter_loop (S (total_len chunks)) max_frame (fresh chunks final) 0 with
    | (n, EndClean) => if (ocause =? 0) && (ocalls =? n) then 22000 else -1
    | (n, EndRead e) => if (ocause =? errk_code e) && (ocalls =? n) then 22100 + errk_code e else -1
    | (n, EndExec e) => if (ocause =? errk_code e) && (ocalls =? n + 1) then 22200 + errk_code e else -1
    | _ => -1
    end
  else if kind =? 23 then
    let maxlen := as_int (nth_tok 1 f) in
    let chunks := tok_chunks (nth_tok 2 f) in
    let final := errk_of_code (as_int (nth_tok 3 f)) in
    let '(frames, e) := accept_loop recording_process (S (total_len chunks)) maxlen (fresh chunks final) in
    if frames_eqb frames (as_list (nth_tok 4 f)) && (accept_end_code e =? as_int (nth_tok 5 f))
    then 23000 + accept_end_code e else -1
  else if kind =? 24 then
    let chunks := tok_chunks (nth_tok 1 f) in
    let oclosed := as_int (nth_tok 2 f) in
    (* the peer neither sends more nor closes: the next read of the server never returns; the
       model sees that as the terminal error ETimedOut, which is the only end that keeps the
       connection *)
    let '(frames, e) := accept_loop recording_process (S (total_len chunks)) max_frame (fresh chunks ETimedOut) in
    if frames_eqb frames (as_list (nth_tok 3 f)) then
      match e with
      | AcceptReadErr ETimedOut => if oclosed =? 0 then 24000 else -1
      | AcceptReadErr _ => if oclosed =? 1 then 24007 else -1
      | AcceptProcessErr => if oclosed =? 1 then 24050 else -1
      | _ => -1
      end
    else -1
  else -1.

Definition judge (cases : list tok) : list Z := map judge_case cases.
