(** Judge for the validation pass and include resolution (C11, Model/CompilerValidate.v).

    Parse trees arrive in the canonical dump of vh_c10 / vh_c11 (Judge/JParser.v has the encoder);
    they are decoded here, and every decoded tree is re-encoded with JParser's encoder and compared
    with what arrived, so that a wrong decoder shows as a mismatch (-1), never as agreement.

    case kind 1: [1; tree; observed code (0 ok / 1 error / 100 panic); observed error text]
        one call of the real Frugal.validate on [tree] = [name; parse tree; includes]
        tags: ok -> 1000; error -> 1100 + error class (see [err_class]); panic -> 1900
    case kind 2: [2; [[path; 0; parse tree] | [path; 1; error text] ...]; root; observed code;
                  observed tree | observed error text]
        parser.ParseFrugal on a file system
        tags: ok -> 2000 + min(#files in the tree, 99); error -> 2100 + class; panic -> 2900 *)
From Coq Require Import String ZArith List Bool.
From FV Require Import Model.ParserStrings Model.ParserAst Model.Parser Model.ParserFsys
     Model.CompilerValidate Judge.Wire Judge.JParser.
Import ListNotations.
Open Scope Z_scope.

(** ** decoders (inverse of the encoders of JParser) *)
Definition dec_z (t : tok) : Z :=
  match t with TL [TI s; TI hi; TI lo] => (if s =? 1 then -1 else 1) * (hi * 4294967296 + lo) | _ => 0 end.
Definition dec_anns (t : tok) : annotations :=
  map (fun p => match p with TL [TB a; TB b] => (a, b) | _ => ([], []) end) (as_list t).
Definition dec_comment (t : tok) : comment :=
  match t with TL [TL lines] => Some (map as_bytes lines) | _ => None end.
Fixpoint dec_type (t : tok) : ptype :=
  match t with
  | TL [TB n; TL ks; TL vs; anns] =>
    PType n (match ks with [k] => Some (dec_type k) | _ => None end)
            (match vs with [v] => Some (dec_type v) | _ => None end) (dec_anns anns)
  | _ => PType [] None None []
  end.
Fixpoint dec_value (t : tok) : cvalue :=
  match t with
  | TL [TI 0; TB s] => CStr s
  | TL [TI 1; TI b] => CBool (b =? 1)
  | TL [TI 2; z] => CInt (dec_z z)
  | TL [TI 3; TI hi; TI lo] => CDouble (hi * 4294967296 + lo)
  | TL [TI 4; TL l] => CList (map dec_value l)
  | TL [TI 5; TL l] =>
    CMap (map (fun kv => match kv with TL [k; v] => (dec_value k, dec_value v) | _ => (COther, COther) end) l)
  | TL [TI 6; TB s] => CIdent s
  | _ => COther
  end.
Definition dec_field (t : tok) : field :=
  match t with
  | TL [c; id; TB n; TI m; ty; TL d; a] =>
    mkfield (dec_comment c) (dec_z id) n m (dec_type ty)
            (match d with [v] => Some (dec_value v) | _ => None end) (dec_anns a)
  | _ => mkfield None 0 [] 0 (PType [] None None []) None []
  end.
Definition dec_struct (t : tok) : struct :=
  match t with
  | TL [c; TB n; TL fs; TI k; a] => mkstruct (dec_comment c) n (map dec_field fs) k (dec_anns a)
  | _ => mkstruct None [] [] 0 []
  end.
Definition dec_frugal (t : tok) : frugal :=
  match t with
  | TL [TL incs; TL nss; TL tds; TL cs; TL es; TL ss; TL xs; TL us; TL svs; TL scs] =>
    mkfrugal
      (map (fun i => match i with TL [TB n; TB v; a] => mkinclude n v (dec_anns a) | _ => mkinclude [] [] [] end) incs)
      (map (fun i => match i with TL [TB s; TB v; a] => mknamespace s v (dec_anns a) | _ => mknamespace [] [] [] end) nss)
      (map (fun i => match i with
                     | TL [c; TB n; ty; a] => mktypedef (dec_comment c) n (dec_type ty) (dec_anns a)
                     | _ => mktypedef None [] (PType [] None None []) [] end) tds)
      (map (fun i => match i with
                     | TL [c; TB n; ty; v; a] => mkconst (dec_comment c) n (dec_type ty) (dec_value v) (dec_anns a)
                     | _ => mkconst None [] (PType [] None None []) COther [] end) cs)
      (map (fun i => match i with
                     | TL [c; TB n; TL vs; a] =>
                       mkenum (dec_comment c) n
                              (map (fun v => match v with
                                             | TL [vc; TB vn; vz; va] => mkev (dec_comment vc) vn (dec_z vz) (dec_anns va)
                                             | _ => mkev None [] 0 [] end) vs) (dec_anns a)
                     | _ => mkenum None [] [] [] end) es)
      (map dec_struct ss) (map dec_struct xs) (map dec_struct us)
      (map (fun i => match i with
                     | TL [c; TB n; TB e; TL ms; a] =>
                       mkservice (dec_comment c) n e
                         (map (fun m => match m with
                                        | TL [mc; TB mn; TI ow; TL ret; TL args; TL thr; ma] =>
                                          mkmethod (dec_comment mc) mn (ow =? 1)
                                                   (match ret with [r] => Some (dec_type r) | _ => None end)
                                                   (map dec_field args) (map dec_field thr) (dec_anns ma)
                                        | _ => mkmethod None [] false None [] [] [] end) ms) (dec_anns a)
                     | _ => mkservice None [] [] [] [] end) svs)
      (map (fun i => match i with
                     | TL [c; TB n; TL [TB ps; TL pv]; TL ops; a] =>
                       mkscope (dec_comment c) n (mkprefix ps (map as_bytes pv))
                               (map (fun o => match o with
                                              | TL [oc; TB on; ty; oa] => mkop (dec_comment oc) on (dec_type ty) (dec_anns oa)
                                              | _ => mkop None [] (PType [] None None []) [] end) ops) (dec_anns a)
                     | _ => mkscope None [] (mkprefix [] []) [] [] end) scs)
  | _ => empty_frugal
  end.
Fixpoint dec_ftree (t : tok) : ftree :=
  match t with
  | TL [TB name; fr; TL incs] =>
    FTree name (dec_frugal fr)
          ((fix go (l : list tok) : list (bytes * ftree) :=
              match l with
              | [] => []
              | TL [TB k; sub] :: r => (k, dec_ftree sub) :: go r
              | _ :: r => go r
              end) incs)
  | _ => FTree [] empty_frugal []
  end.

(** error classes (tags): [err_class] of Judge/JParser.v *)
Definition judge_validate (f : list tok) : Z :=
  let tt := nth_tok 1 f in
  let ocode := as_int (nth_tok 2 f) in
  let otext := as_bytes (nth_tok 3 f) in
  let t := dec_ftree tt in
  if negb (tok_eqb (enc_ftree t) tt) then -1 else
  match t with
  | FTree _ fr incs =>
    match cvalidate (validate_fuel fr incs) fr incs with
    | ROk => if ocode =? 0 then 1000 else -1
    | RErr m => if (ocode =? 1) && beqb m otext then 1100 + err_class m else -1
    | RPanic => if ocode =? 100 then 1900 else -1
    | RFuel => -1
    end
  end.

Definition judge_program (f : list tok) : Z :=
  let entries := as_list (nth_tok 1 f) in
  let fs : pfs :=
      map (fun e => match e with
                    | TL [TB p; TI 0; tree] => (to_path p, FParsed (dec_frugal tree))
                    | TL [TB p; TI _; TB msg] => (to_path p, FSyntax msg)
                    | _ => ([], FSyntax [])
                    end) entries in
  let decoded_ok :=
      forallb (fun e => match e with
                        | TL [_; TI 0; tree] => tok_eqb (enc_frugal (dec_frugal tree)) tree
                        | _ => true
                        end) entries in
  let root := to_path (as_bytes (nth_tok 2 f)) in
  let ocode := as_int (nth_tok 3 f) in
  let obs := nth_tok 4 f in
  if negb decoded_ok then -1 else
  match cparse_program fs root with
  | POk t => if (ocode =? 0) && tok_eqb (enc_ftree t) obs then 2000 + Z.min (ftree_size t) 99 else -1
  | PErr m => if (ocode =? 1) && beqb m (as_bytes obs) then 2100 + err_class m else -1
  | PPanic => if ocode =? 100 then 2900 else -1
  | PFuel => -1
  end.

Definition judge_case (t : tok) : Z :=
  let f := as_list t in
  let kind := as_int (nth_tok 0 f) in
  if kind =? 1 then judge_validate f
  else if kind =? 2 then judge_program f
  else -1.

Definition judge (cases : list tok) : list Z := map judge_case cases.
