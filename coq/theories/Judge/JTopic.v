(** Judge for C08: replays each observed case on Model/Topic.v.

    case  = [delim; scope; op; prefix; [val ...]; compile_ok; [obs ...]]
    obs   = [lang (0 Go, 1 Java, 2 Dart, 3 Python); side (0 publisher, 1 subscriber);
             text of the delimiter constant's right-hand side (empty for Go);
             [[lhs; rhs] ...] the op / prefix / topic assignments in emitted order;
             status (0 = the statements evaluated to a value, 1 = did not compile / raised);
             value]
    result: -1 model and observation differ; -2 they differ but the observation is what the
            PINNED (unrepaired) generators produce; otherwise a tag
            = bits: hypotheses of theorem c08_matches_spec hold for (1 Go, 2 Java, 4 Dart, 8 Python) + 16 * min(#vars, 3)
              + 64 * [prefix not empty] + 128 * [model made no prediction for some value]
              + 256 * [prefix rejected by the parser]. *)
From Coq Require Import ZArith List Bool.
From FV Require Import Model.Topic Judge.Wire.
Import ListNotations.
Open Scope Z_scope.

Definition lang_of (z : Z) : lang :=
  if z =? 0 then Go else if z =? 1 then Java else if z =? 2 then Dart else Py.
Definition side_of (z : Z) : side := if z =? 0 then Pub else Sub.

Fixpoint stmts_eqb (l : lang) (b : list stmt) (o : list tok) : bool :=
  match b, o with
  | [], [] => true
  | (x, e) :: b', TL [TB lhs; TB rhs] :: o' => seqb x lhs && seqb (show l e) rhs && stmts_eqb l b' o'
  | _, _ => false
  end.

(** 0 = reproduced, 1 = text reproduced and no prediction for the value, -1 = differs *)
Definition check_obs (q : variant) (delim sc op pfx : str) (vals : list str) (o : tok) : Z :=
  let f := as_list o in
  let l := lang_of (as_int (nth_tok 0 f)) in
  let sd := side_of (as_int (nth_tok 1 f)) in
  let oconst := as_bytes (nth_tok 2 f) in
  let ostmts := as_list (nth_tok 3 f) in
  let ostatus := as_int (nth_tok 4 f) in
  let oval := as_bytes (nth_tok 5 f) in
  match emit q l sd delim sc op pfx with
  | None => 1
  | Some pr =>
    let const_ok :=
      match p_consts pr with
      | [] => null oconst
      | [(_, e)] => seqb (show l e) oconst
      | _ => false
      end in
    if const_ok && stmts_eqb l (p_body pr) ostmts then
      match topic q l sd delim sc op pfx vals with
      | Some v => if (ostatus =? 0) && seqb v oval then 0 else -1
      | None => 1
      end
    else -1
  end.

Definition fold_obs (q : variant) (delim sc op pfx : str) (vals : list str) (obs : list tok) : Z :=
  fold_left (fun acc o => if acc <? 0 then acc else
                          let r := check_obs q delim sc op pfx vals o in
                          if r <? 0 then r else Z.max acc r) obs 0.

Definition b2z (b : bool) : Z := if b then 1 else 0.

Definition judge_case (t : tok) : Z :=
  let f := as_list t in
  let delim := as_bytes (nth_tok 0 f) in
  let sc := as_bytes (nth_tok 1 f) in
  let op := as_bytes (nth_tok 2 f) in
  let pfx := as_bytes (nth_tok 3 f) in
  let vals := map as_bytes (as_list (nth_tok 4 f)) in
  let cok := as_int (nth_tok 5 f) in
  let obs := as_list (nth_tok 6 f) in
  match parse_prefix pfx with
  | None => if cok =? 0 then 256 else -1
  | Some g =>
    if cok =? 0 then -1 else
    let r := fold_obs fixed delim sc op pfx vals obs in
    if r <? 0 then
      (if 0 <=? fold_obs pinned delim sc op pfx vals obs then -2 else -1)
    else
      let covered l := in_domain l delim sc op pfx && vars_safe l Pub op (vars_of g)
                       && vars_safe l Sub op (vars_of g) in
      b2z (covered Go) + 2 * b2z (covered Java) + 4 * b2z (covered Dart) + 8 * b2z (covered Py)
      + 16 * Z.min (Z.of_nat (List.length (vars_of g))) 3
      + 64 * b2z (negb (null pfx)) + 128 * r
  end.

Definition judge (cases : list tok) : list Z := map judge_case cases.
