(** Judge for C20: replays an observed execution of the real FNatsServer on Model/NatsServer.v.

    A case is [TL [nsubs; workers; qlen; TL events; TL replies]].  Observed events:
      [1;id;sub;reply;out;delivered] client publishes (delivered: a Received event for it exists)
      [2]                            client Flush returned (everything published reached the broker)
      [3;sub;id]                     onRequestReceived for message id on subscription sub
      [4;id]                         onRequestStarted       [6;id] onRequestFinished
      [7] Stop called   [8] Stop returned   [9] Serve returned
    replies: ids of the replies the client received (sorted, with multiplicity).

    Every transition applied is [NatsServer.step]; the judge only chooses WHICH unobserved
    (hidden) steps to insert: the fewest needed to enable the next observed event.  Accepting a
    trace therefore exhibits a run of the model with exactly the observed visible events in the
    observed order and the observed replies.  Result: -1 = no such run found, else a tag made of
    bit flags describing which model branches the run went through. *)
From Coq Require Import ZArith List Bool Arith.
From FV Require Import Model.NatsServer Judge.Wire.
Import ListNotations.
Open Scope Z_scope.

(** [rk]: ids in the order their onRequestStarted was observed; only a HINT for choosing among
    hidden steps (empty = no hint) *)
Record jst := mkJ { js : st; flags : Z; dl : list (Z * bool); rk : list Z }.

Definition setf (j : jst) (b : Z) : jst := mkJ (js j) (Z.lor (flags j) b) (dl j) (rk j).
Definition sets (j : jst) (s : st) : jst := mkJ s (flags j) (dl j) (rk j).
Definition jstep (j : jst) (e : ev) : option jst :=
  match step (js j) e with Some s => Some (sets j s) | None => None end.

Definition F_FULL := 1.        (* handler found the queue full: a worker had to take first *)
Definition F_HANDOFF := 2.     (* unbuffered queue: rendezvous with a worker *)
Definition F_UNDELIV := 4.     (* a request reached the broker after the UNSUB: not delivered *)
Definition F_NOREPLY := 8.     (* request without reply subject discarded *)
Definition F_NOOUT := 16.      (* processed, no response to publish *)
Definition F_BARWAIT := 32.    (* barrier marker popped after a handler had to be completed *)
Definition F_PENDSTOP := 64.   (* requests pending in the client library when Stop was called *)
Definition F_MULTISUB := 128.
Definition F_AFTERSTOP := 256. (* request published after Stop had returned *)
Definition F_QUEUECLOSE := 512. (* work queue not empty when it was closed *)
Definition F_BUSYSTOP := 1024. (* a worker was busy when Stop was called *)

Definition delivered (j : jst) (id : Z) : bool :=
  match find (fun p => fst p =? id) (dl j) with Some (_, b) => b | None => false end.

Definition idle_worker (s : st) : option nat := find_idx is_idle (workers s).

(** complete the handler in flight on subscription i (if any) *)
Fixpoint settle (fuel : nat) (j : jst) (i : nat) : option jst :=
  match fuel with
  | O => None
  | S f =>
    match nth_error (subs (js j)) i with
    | None => None
    | Some sb =>
      match inh sb with
      | None => Some j
      | Some m =>
        if negb (has_reply m) then jstep (setf j F_NOREPLY) (EDrop i)
        else match jstep j (EEnq i) with
             | Some j' => Some (if Nat.eqb (qlen (js j)) 0 then setf j' F_HANDOFF else j')
             | None =>
               (* queue full: a worker that is free takes the head first *)
               match idle_worker (js j), workc (js j) with
               | Some w, _ :: _ =>
                 match jstep (setf j F_FULL) (ETake w) with
                 | Some j' => settle f j' i
                 | None => None
                 end
               | _, _ => None
               end
             end
      end
    end
  end.

(** hint-guided: handlers of other subscriptions whose request was started earlier send first *)
Fixpoint rank_of (l : list Z) (id : Z) : nat :=
  match l with [] => O | x :: t => if x =? id then O else S (rank_of t id) end.
Definition inh_id (s : st) (i : nat) : option Z :=
  match nth_error (subs s) i with
  | Some sb => match inh sb with Some m => if has_reply m then Some (mid m) else None | None => None end
  | None => None
  end.
Fixpoint insert_rank (rkl : list Z) (s : st) (i : nat) (l : list nat) : list nat :=
  match l with
  | [] => [i]
  | k :: t =>
    match inh_id s i, inh_id s k with
    | Some a, Some b => if Nat.leb (rank_of rkl a) (rank_of rkl b) then i :: l else k :: insert_rank rkl s i t
    | _, _ => i :: l
    end
  end.
Fixpoint settle_list (j : jst) (l : list nat) : option jst :=
  match l with
  | [] => Some j
  | i :: r => match settle 200 j i with Some j' => settle_list j' r | None => None end
  end.
Definition settle_h (j : jst) (i : nat) : option jst :=
  match rk j, inh_id (js j) i with
  | _ :: _, Some a =>
    let s := js j in
    let others := filter (fun k => negb (Nat.eqb k i) &&
                           match inh_id s k with
                           | Some b => Nat.ltb (rank_of (rk j) b) (rank_of (rk j) a)
                           | None => false end) (seq 0 (length (subs s))) in
    let ordered := fold_right (insert_rank (rk j) s) [] others in
    (* as many of them as leave room for i itself: longest prefix first *)
    (fix try (k : nat) : option jst :=
       match (match settle_list j (firstn k ordered) with Some j' => settle 200 j' i | None => None end) with
       | Some r => Some r
       | None => match k with O => None | S k' => try k' end
       end) (length ordered)
  | _, _ => settle 200 j i
  end.

Definition holds (id : Z) (w : wst) : bool := match w with WHave m => mid m =? id | _ => false end.
Definition procs (id : Z) (w : wst) : bool := match w with WProc m => mid m =? id | _ => false end.
Definition in_handler (id : Z) (sb : sub) : bool :=
  match inh sb with Some m => mid m =? id | None => false end.

(** make some worker hold message id (received from the channel, not yet started) *)
Fixpoint hold (fuel : nat) (j : jst) (id : Z) : option jst :=
  match fuel with
  | O => None
  | S f =>
    match find_idx (holds id) (workers (js j)) with
    | Some _ => Some j
    | None =>
      match workc (js j) with
      | _ :: _ =>
        match idle_worker (js j) with
        | Some w => match jstep j (ETake w) with Some j' => hold f j' id | None => None end
        | None => None
        end
      | [] =>
        match find_idx (in_handler id) (subs (js j)) with
        | Some i => match settle_h j i with Some j' => hold f j' id | None => None end
        | None => None
        end
      end
    end
  end.

(** the broker processes the UNSUB of subscription i (Serve must have got that far) *)
Fixpoint force_unsub (fuel : nat) (j : jst) (i : nat) : option jst :=
  match fuel with
  | O => None
  | S f =>
    match nth_error (subs (js j)) i with
    | None => Some j                       (* no such subject: nothing to wait for *)
    | Some sb =>
      if negb (broker sb) then Some j
      else if draining sb then
        (* per-connection FIFO: nothing the subscription did receive can still be in transit *)
        if existsb (fun m => Nat.eqb (msub m) i && delivered j (mid m)) (wire (js j)) then None
        else jstep j (EBrokerUnsub i)
      else match serve (js j) with
           | SRunning => match jstep j ERecvQuit with Some j' => force_unsub f j' i | None => None end
           | SGotQuit => match jstep j EDrainSub with Some j' => force_unsub f j' i | None => None end
           | _ => None
           end
    end
  end.

(** the broker routes the head of the wire while [more] holds (it looks at the wire) *)
Fixpoint flush_while (more : jst -> bool) (fuel : nat) (j : jst) : option jst :=
  match fuel with
  | O => None
  | S f =>
    if negb (more j) then Some j else
    match wire (js j) with
    | [] => Some j
    | m :: _ =>
      if delivered j (mid m) then
        let n := length (accepted (g (js j))) in
        match jstep j EArrive with
        | Some j' => if Nat.eqb (length (accepted (g (js j')))) (S n) then flush_while more f j' else None
        | None => None
        end
      else
        match force_unsub 200 j (msub m) with
        | Some j1 => match jstep (setf j1 F_UNDELIV) EArrive with
                     | Some j' => flush_while more f j'
                     | None => None
                     end
        | None => None
        end
    end
  end.

(** everything on the wire reaches the broker *)
Definition flush_wire (fuel : nat) (j : jst) : option jst := flush_while (fun _ => true) fuel j.
(** ... until request id has arrived *)
Definition flush_until (id : Z) (fuel : nat) (j : jst) : option jst :=
  flush_while (fun j => existsb (fun m => mid m =? id) (wire (js j))) fuel j.
(** ... until nothing that subscription i did receive is in transit *)
Definition flush_for_sub (i : nat) (fuel : nat) (j : jst) : option jst :=
  flush_while (fun j => existsb (fun m => Nat.eqb (msub m) i && delivered j (mid m)) (wire (js j))) fuel j.

Definition phase_rank (p : sphase) : nat :=
  match p with SRunning => 0 | SGotQuit => 1 | SFlushed => 2 | SBarrierSet => 3 | SBarrierDone => 4
             | SDoneSent => 5 | SClosed => 6 | SReturned => 7 end.

(** hidden Serve/Stop/broker/worker-exit steps until Serve is in phase [target] *)
Fixpoint force_serve (fuel : nat) (j : jst) (target : nat) : option jst :=
  match fuel with
  | O => None
  | S f =>
    let s := js j in
    if Nat.leb target (phase_rank (serve s)) then Some j else
    let next (o : option jst) := match o with Some j' => force_serve f j' target | None => None end in
    match serve s with
    | SRunning => next (jstep j ERecvQuit)
    | SGotQuit =>
      match find_idx (fun sb => negb (draining sb)) (subs s) with
      | Some _ => next (jstep j EDrainSub)
      | None =>
        match find_idx broker (subs s) with
        | Some i => match flush_for_sub i 400 j with
                    | Some j1 => next (jstep j1 (EBrokerUnsub i))
                    | None => None
                    end
        | None => next (jstep j EFlush)
        end
      end
    | SFlushed => next (jstep j EBarrier)
    | SBarrierSet =>
      if fired s then next (jstep j EBarrierWait)
      else match find_idx bar (subs s) with
           | Some i =>
             match nth_error (subs s) i with
             | Some sb =>
               let j0 := match inh sb with Some _ => setf j F_BARWAIT | None => j end in
               match settle_h j0 i with
               | Some j1 =>
                 (* a message still pending here was never seen by the handler: reject *)
                 match nth_error (subs (js j1)) i with
                 | Some sb1 => match pre sb1 with [] => next (jstep j1 (EPop i)) | _ => None end
                 | None => None
                 end
               | None => None
               end
             | None => None
             end
           | None => None
           end
    | SBarrierDone =>
      match stop s with
      | TSentQuit => next (jstep j EStopClose)
      | _ => next (jstep j ESendDone)
      end
    | SDoneSent => next (jstep (match workc s with [] => j | _ => setf j F_QUEUECLOSE end) ECloseWorkC)
    | SClosed =>
      match find_idx (fun w => negb (is_exited w)) (workers s) with
      | Some w => next (jstep j (EExit w))
      | None => next (jstep j EWait)
      end
    | SReturned => Some j
    end
  end.

Definition has_pending (s : st) : bool := existsb (fun sb => negb (Nat.eqb (length (pre sb)) 0)) (subs s).
Definition has_busy (s : st) : bool := existsb (fun w => negb (is_idle w)) (workers s).

Definition bz (t : tok) : bool := negb (as_int t =? 0).

Definition observe (j : jst) (e : tok) : option jst :=
  let f := as_list e in
  let k := as_int (nth_tok 0 f) in
  if k =? 1 then
    let id := as_int (nth_tok 1 f) in
    let m := mkMsg id (Z.to_nat (as_int (nth_tok 2 f))) (bz (nth_tok 3 f)) (bz (nth_tok 4 f)) in
    let d := bz (nth_tok 5 f) in
    let j0 := mkJ (js j) (flags j) ((id, d) :: dl j) (rk j) in
    let j0 := match stop (js j) with TReturned => setf j0 F_AFTERSTOP | _ => j0 end in
    match jstep j0 (EPublish m) with
    | Some j1 => Some j1          (* arrival at the broker is a hidden step, taken when needed *)
    | None => None
    end
  else if k =? 2 then flush_wire 400 j
  else if k =? 3 then
    let i := Z.to_nat (as_int (nth_tok 1 f)) in
    let id := as_int (nth_tok 2 f) in
    match (match flush_until id 400 j with Some j0 => settle_h j0 i | None => None end) with
    | Some j1 =>
      match nth_error (subs (js j1)) i with
      | Some sb =>
        match pre sb with
        | m :: _ => if (mid m =? id) && registered sb then jstep j1 (EPop i) else None
        | [] => None
        end
      | None => None
      end
    | None => None
    end
  else if k =? 4 then
    let id := as_int (nth_tok 1 f) in
    match hold 400 j id with
    | Some j1 => match find_idx (holds id) (workers (js j1)) with
                 | Some w => jstep j1 (EStart w)
                 | None => None
                 end
    | None => None
    end
  else if k =? 6 then
    let id := as_int (nth_tok 1 f) in
    match find_idx (procs id) (workers (js j)) with
    | Some w =>
      let j0 := match nth_error (workers (js j)) w with
                | Some (WProc m) => if has_out m then j else setf j F_NOOUT
                | _ => j end in
      jstep j0 (EDone w)
    | None => None
    end
  else if k =? 7 then
    let j0 := if has_pending (js j) then setf j F_PENDSTOP else j in
    let j0 := if has_busy (js j) then setf j0 F_BUSYSTOP else j0 in
    jstep j0 EStopCall
  else if k =? 8 then force_serve 2000 j 5
  else if k =? 9 then force_serve 2000 j 7
  else None.

(** ---- unobserved order of channel sends from different subscriptions ----
    The moment a handler's [workC <- frame] completes is not observable; only "before the next
    callback on the same subscription" and "before the request is started".  With several
    subscriptions the order of their sends is therefore unknown, and the judge keeps a SET of
    candidate model states: before every observed event each candidate may first complete any
    sequence of handlers that are in flight. *)
Definition inflight (s : st) : list nat :=
  filter (fun i => match nth_error (subs s) i with
                   | Some sb => match inh sb with Some m => has_reply m | None => false end
                   | None => false end) (seq 0 (length (subs s))).

Definition seqs_upto3 (l : list nat) : list (list nat) :=
  [[]] ++ map (fun a => [a]) l
  ++ flat_map (fun a => flat_map (fun b => if Nat.eqb a b then [] else [[a; b]]) l) l
  ++ flat_map (fun a => flat_map (fun b => flat_map (fun c =>
        if Nat.eqb a b || Nat.eqb a c || Nat.eqb b c then [] else [[a; b; c]]) l) l) l.

Fixpoint settle_seq (j : jst) (l : list nat) : option jst :=
  match l with
  | [] => Some j
  | i :: r => match settle 200 j i with Some j' => settle_seq j' r | None => None end
  end.

Definition expand (j : jst) : list jst :=
  flat_map (fun l => match settle_seq j l with Some j' => [j'] | None => [] end)
           (seqs_upto3 (inflight (js j))).

(** the part of the state in which two candidates after the same observed prefix can differ *)
Definition wkey (w : wst) : list Z :=
  match w with WIdle => [0] | WHave m => [1; mid m] | WProc m => [2; mid m] | WExited => [3] end.
Definition skey (sb : sub) : list Z :=
  [-2] ++ map mid (pre sb) ++ [-3; match inh sb with Some m => mid m | None => -1 end;
    if bar sb then 1 else 0; if broker sb then 1 else 0; if draining sb then 1 else 0].
Definition key (j : jst) : list Z :=
  let s := js j in
  map mid (workc s) ++ [-4] ++ flat_map wkey (workers s) ++ flat_map skey (subs s)
  ++ [Z.of_nat (phase_rank (serve s)); Z.of_nat (length (wire s))].

Fixpoint dedupe (seen : list (list Z)) (l : list jst) : list jst :=
  match l with
  | [] => []
  | j :: r => let k := key j in
              if existsb (zeqb_list k) seen then dedupe seen r else j :: dedupe (k :: seen) r
  end.

Definition observe_nd (cands : list jst) (e : tok) : list jst :=
  firstn 200 (dedupe [] (flat_map (fun j => flat_map (fun j' => match observe j' e with Some x => [x] | None => [] end)
                                             (expand j)) cands)).

Fixpoint observe_all (cands : list jst) (evs : list tok) : list jst :=
  match evs with
  | [] => cands
  | e :: r => match observe_nd cands e with [] => [] | c => observe_all c r end
  end.

(** number of observed events the model could follow (diagnostics) *)
Fixpoint observe_count (cands : list jst) (evs : list tok) (n : Z) : Z :=
  match evs with
  | [] => n
  | e :: r => match observe_nd cands e with [] => n | c => observe_count c r (n + 1) end
  end.

Fixpoint observe_all_det (j : jst) (evs : list tok) : option jst :=
  match evs with
  | [] => Some j
  | e :: r => match observe j e with Some j' => observe_all_det j' r | None => None end
  end.

Fixpoint insert_z (x : Z) (l : list Z) : list Z :=
  match l with [] => [x] | y :: t => if x <=? y then x :: l else y :: insert_z x t end.
Definition sort_z (l : list Z) : list Z := fold_right insert_z [] l.

Definition final_ok (reps : list Z) (j : jst) : option Z :=
  match flush_wire 400 j with
  | None => None
  | Some j2 =>
    let s := js j2 in
    match serve s, stop s with
    | SReturned, TReturned =>
      if zeqb_list (sort_z (replied (g s))) reps && negb (crashed s) then Some (flags j2) else None
    | _, _ => None
    end
  end.

Definition started_order (evs : list tok) : list Z :=
  flat_map (fun e => let f := as_list e in if as_int (nth_tok 0 f) =? 4 then [as_int (nth_tok 1 f)] else []) evs.

Definition judge_case (t : tok) : Z :=
  let f := as_list t in
  let nsubs := Z.to_nat (as_int (nth_tok 0 f)) in
  let w := Z.to_nat (as_int (nth_tok 1 f)) in
  let ql := Z.to_nat (as_int (nth_tok 2 f)) in
  let evs := as_list (nth_tok 3 f) in
  let reps := map as_int (as_list (nth_tok 4 f)) in
  let fl := if Nat.ltb 1 nsubs then F_MULTISUB else 0 in
  let try (cands : list jst) :=
    flat_map (fun j => match final_ok reps j with Some z => [z] | None => [] end) cands in
  (* pass 1: one candidate, hidden sends ordered by the hint *)
  match try (match observe_all_det (mkJ (init nsubs w ql) fl [] (started_order evs)) evs with
             | Some j => [j] | None => [] end) with
  | z :: _ => z
  | [] =>
    (* pass 2: search over the order of hidden sends *)
    match try (observe_all [mkJ (init nsubs w ql) fl [] []] evs) with
    | z :: _ => z + 2048
    | [] => -1
    end
  end.

Definition judge (cases : list tok) : list Z := map judge_case cases.

(** diagnostics: index of the first observed event the model cannot follow *)
Definition stuck_at (t : tok) : Z :=
  let f := as_list t in
  let nsubs := Z.to_nat (as_int (nth_tok 0 f)) in
  let w := Z.to_nat (as_int (nth_tok 1 f)) in
  let ql := Z.to_nat (as_int (nth_tok 2 f)) in
  observe_count [mkJ (init nsubs w ql) 0 [] []] (as_list (nth_tok 3 f)) 0.
Definition judge_diag (cases : list tok) : list Z := map stuck_at cases.

Fixpoint observe_count_det (j : jst) (evs : list tok) (n : Z) : Z :=
  match evs with
  | [] => n
  | e :: r => match observe j e with Some j' => observe_count_det j' r (n + 1) | None => n end
  end.
Definition stuck_at_det (t : tok) : Z :=
  let f := as_list t in
  let nsubs := Z.to_nat (as_int (nth_tok 0 f)) in
  let w := Z.to_nat (as_int (nth_tok 1 f)) in
  let ql := Z.to_nat (as_int (nth_tok 2 f)) in
  let evs := as_list (nth_tok 3 f) in
  observe_count_det (mkJ (init nsubs w ql) 0 [] (started_order evs)) evs 0.
Definition judge_diag_det (cases : list tok) : list Z := map stuck_at_det cases.
