(** Judge for controlled schedules on the registry + adapter transport (C01, C06, C13):
    every logged event must be enabled in Model/Registry.v and have exactly the observed effect. *)
From Coq Require Import ZArith List Bool Arith.
From FV Require Import Model.Registry Judge.Wire.
Import ListNotations.
Open Scope Z_scope.

Definition nthz (l : list Z) (i : nat) : Z := nth i l (-1).
Definition zn (z : Z) : nat := Z.to_nat z.

Definition took_of (z : Z) : option took :=
  if z =? 1 then Some TResult else if z =? 2 then Some TTimeout else if z =? 3 then Some TSendErr else None.

Definition check_outcome (s : st) (i : nat) (out tag : Z) : bool :=
  match c_phase (callers s i) with
  | CDone (OOk f) => (out =? 1) && (f_tag f =? tag) && (f_op f =? c_op (callers s i))
  | CDone OTimedOut => out =? 2
  | CDone OSendErr => out =? 3
  | _ => false
  end.

Fixpoint replay (ops : list Z) (s : st) (evs : list tok) (n : Z) : Z :=
  match evs with
  | [] => n
  | t :: rest =>
    let f := as_list t in
    let k := as_int (nth_tok 0 f) in
    let a := as_int (nth_tok 1 f) in
    let b := as_int (nth_tok 2 f) in
    let c := as_int (nth_tok 3 f) in
    let r : option st :=
      if k =? 1 then step false s (ERegister (zn a))
      else if k =? 2 then step false s (ERelease (zn a))
      else if k =? 3 then step false s (ESendOk (zn a))
      else if k =? 4 then step false s (ESendFail (zn a))
      else if k =? 5 then
        let fr := {| f_op := if a <? 0 then -1 else nthz ops (zn a); f_tag := b |} in
        match step false s (EArrive fr) with
        | Some s' => let found := match rd s' with RLooked _ _ => 1 | RIdle => 0 end in
                     if found =? c then Some s' else None
        | None => None
        end
      else if k =? 6 then
        match rd s with
        | RLooked j _ =>
          let delivered := match c_chan (callers s j) with [] => 1 | _ => 0 end in
          if delivered =? a then step false s EDeliver else None
        | RIdle => None
        end
      else if k =? 7 then
        match took_of b with Some t => step false s (ETake (zn a) t) | None => None end
      else if k =? 8 then
        match step false s (EUnregister (zn a)) with
        | Some s' => if check_outcome s' (zn a) b c then Some s' else None
        | None => None
        end
      else None in
    match r with
    | Some s' => replay ops s' rest (n + 1)
    | None => -1
    end
  end.

(** after the whole log: registry size as observed, and the fresh request was served *)
Definition judge_case (t : tok) : Z :=
  let f := as_list t in
  let ops := map as_int (as_list (nth_tok 0 f)) in
  let dls := map as_int (as_list (nth_tok 1 f)) in
  let evs := as_list (nth_tok 2 f) in
  let reglen := as_int (nth_tok 3 f) in
  let fresh := as_int (nth_tok 4 f) in
  let s0 := init (fun i => nthz ops i) (fun i => negb (nthz dls i =? 0)) (length ops) in
  (* replay returns the count; recompute the final state for the registry-size check *)
  let n := replay ops s0 evs 0 in
  if n <? 0 then -1 else
  let final := (fix go (s : st) (evs : list tok) : st :=
                  match evs with
                  | [] => s
                  | t :: rest =>
                    let f := as_list t in
                    let k := as_int (nth_tok 0 f) in
                    let a := as_int (nth_tok 1 f) in
                    let b := as_int (nth_tok 2 f) in
                    let e := if k =? 1 then Some (ERegister (zn a)) else if k =? 2 then Some (ERelease (zn a))
                             else if k =? 3 then Some (ESendOk (zn a)) else if k =? 4 then Some (ESendFail (zn a))
                             else if k =? 5 then Some (EArrive {| f_op := if a <? 0 then -1 else nthz ops (zn a); f_tag := b |})
                             else if k =? 6 then Some EDeliver
                             else if k =? 7 then option_map (ETake (zn a)) (took_of b)
                             else if k =? 8 then Some (EUnregister (zn a)) else None in
                    match e with
                    | Some e => match step false s e with Some s' => go s' rest | None => s end
                    | None => s
                    end
                  end) s0 evs in
  if (Z.of_nat (length (reg final)) =? reglen) && (fresh =? 1) then n else -1.

Definition judge (cases : list tok) : list Z := map judge_case cases.
