(** Judge for controlled schedules on the registry + adapter / NATS transport (C01, C06, C13):
    every logged event must be enabled in Model/Registry.v (for the transport kind of the case) and
    have exactly the observed effect.

    case  = [kind (0 adapter, 1 NATS), op ids, deadline flags, data kinds (0 normal, 1 empty, 2 oversize),
             events, registry size at the end, fresh request served]
    event = [k, a, b, c]:
      1 ERegister   a=caller b=effect (0 registered and parked, 1 Register error returned, 2 empty frame: nil,nil)
      2 ERelease    a=caller b=effect (0 entered the select, 1 oversize detected)
      3 ESendOk / 4 ESendFail a=caller
      5 EArrive     a=op id index (-1 unknown) b=tag c=found
      6 EDeliver    a=1 delivered / 0 dropped
      7 ETake       a=caller b=1 result / 2 timeout / 3 send error
      8 EUnregister a=caller b=outcome (1 ok, 2 timed out, 3 send/publish error, 5 not available, 6 too large) c=tag
      9 ENotOpen    a=caller
     10 EPublishFail a=caller
     11 EArrive503  a=op id index (-1 unknown) c=found
     12 a message the inbound path discards before dispatch (no model step; the reader must be idle) *)
From Coq Require Import ZArith List Bool Arith.
From FV Require Import Model.Registry Judge.Wire.
Import ListNotations.
Open Scope Z_scope.

Definition nthz (l : list Z) (i : nat) : Z := nth i l (-1).
Definition zn (z : Z) : nat := Z.to_nat z.

Definition took_of (z : Z) : option took :=
  if z =? 1 then Some TResult else if z =? 2 then Some TTimeout else if z =? 3 then Some TSendErr else None.

Definition check_outcome (s : st) (i : nat) (out tag : Z) : bool :=
  match c_phase (callers s i) with
  | CDone (OOk f) => (out =? 1) && (f_tag f =? tag) && (f_op f =? c_op (callers s i)) && negb (tag =? na_tag)
  | CDone OTimedOut => out =? 2
  | CDone OSendErr => out =? 3
  | CDone ONotAvail => out =? 5
  | CDone OTooLarge => out =? 6
  | _ => false
  end.

Definition op_of (ops : list Z) (a : Z) : Z := if a <? 0 then -1 else nthz ops (zn a).

Definition ev_of (ops : list Z) (k a b : Z) : option ev :=
  if k =? 1 then Some (ERegister (zn a))
  else if k =? 2 then Some (ERelease (zn a))
  else if k =? 3 then Some (ESendOk (zn a))
  else if k =? 4 then Some (ESendFail (zn a))
  else if k =? 5 then (if b <? 0 then None else Some (EArrive {| f_op := op_of ops a; f_tag := b |}))
  else if k =? 6 then Some EDeliver
  else if k =? 7 then option_map (ETake (zn a)) (took_of b)
  else if k =? 8 then Some (EUnregister (zn a))
  else if k =? 9 then Some (ENotOpen (zn a))
  else if k =? 10 then Some (EPublishFail (zn a))
  else if k =? 11 then Some (EArrive503 (op_of ops a))
  else None.

Definition looked (s : st) : Z := match rd s with RLooked _ _ => 1 | RIdle => 0 end.

(** the observed effect of event [k a b c] taking [s] to [s'] *)
Definition effect_ok (s s' : st) (k a b c : Z) : bool :=
  if k =? 1 then
    match c_phase (callers s' (zn a)) with
    | CParked => b =? 0 | CDone ORegErr => b =? 1 | CDone OEmpty => b =? 2 | _ => false
    end
  else if k =? 2 then
    match c_phase (callers s' (zn a)) with
    | CSelect => b =? 0 | CTook TTooLarge _ => b =? 1 | _ => false
    end
  else if (k =? 5) || (k =? 11) then looked s' =? c
  else if k =? 6 then
    match rd s with
    | RLooked j _ => (match c_chan (callers s j) with [] => 1 | _ => 0 end) =? a
    | RIdle => false
    end
  else if k =? 8 then check_outcome s' (zn a) b c
  else true.

Fixpoint replay (tk : kind) (ops : list Z) (s : st) (evs : list tok) (n : Z) : option (st * Z) :=
  match evs with
  | [] => Some (s, n)
  | t :: rest =>
    let f := as_list t in
    let k := as_int (nth_tok 0 f) in
    let a := as_int (nth_tok 1 f) in
    let b := as_int (nth_tok 2 f) in
    let c := as_int (nth_tok 3 f) in
    if k =? 12 then (if looked s =? 0 then replay tk ops s rest (n + 1) else None) else
    match ev_of ops k a b with
    | Some e =>
      match step tk false s e with
      | Some s' => if effect_ok s s' k a b c then replay tk ops s' rest (n + 1) else None
      | None => None
      end
    | None => None
    end
  end.

Definition dkind_of (z : Z) : dkind := if z =? 1 then DEmpty else if z =? 2 then DTooLarge else DNormal.

(** after the whole log: registry size as observed, and the fresh request was served *)
Definition judge_case (t : tok) : Z :=
  let f := as_list t in
  let tk := if as_int (nth_tok 0 f) =? 1 then KNats else KAdapter in
  let ops := map as_int (as_list (nth_tok 1 f)) in
  let dls := map as_int (as_list (nth_tok 2 f)) in
  let dks := map as_int (as_list (nth_tok 3 f)) in
  let evs := as_list (nth_tok 4 f) in
  let reglen := as_int (nth_tok 5 f) in
  let fresh := as_int (nth_tok 6 f) in
  let s0 := initd (fun i => nthz ops i) (fun i => negb (nthz dls i =? 0))
                  (fun i => dkind_of (nth i dks 0)) (length ops) in
  match replay tk ops s0 evs 0 with
  | Some (final, n) => if (Z.of_nat (length (reg final)) =? reglen) && (fresh =? 1) then n else -1
  | None => -1
  end.

Definition judge (cases : list tok) : list Z := map judge_case cases.
