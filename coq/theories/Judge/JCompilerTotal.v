(** Judge for C11: replays each observation of the real compiler helpers on
    Model/CompilerTotal.v.  One result per case: -1 = the model does not reproduce the
    observation, otherwise a branch tag. *)
From Coq Require Import ZArith List Bool.
From FV Require Import Model.CompilerTotal Judge.Wire.
Import ListNotations.
Open Scope Z_scope.

Definition verdict (ok : bool) (tag : Z) : Z := if ok then tag else -1.

Fixpoint ty_eqb (a b : ty) : bool :=
  match a, b with
  | TNil, TNil => true
  | Ty n k v, Ty n' k' v' => str_eqb n n' && ty_eqb k k' && ty_eqb v v'
  | _, _ => false
  end.

Fixpoint ty_of_tok (t : tok) : ty :=
  match t with
  | TL [TB n; k; v] => Ty n (ty_of_tok k) (ty_of_tok v)
  | _ => TNil
  end.
Definition strs_of_tok (t : tok) : list str := map as_bytes (as_list t).
Definition empty_frugal : frugal := Frugal [] [] [] [] [] [] [].

(** a file: [typedefs; structs; unions; exceptions; enums; uses; incs; vclass] *)
Fixpoint frugal_of_tok (t : tok) : frugal :=
  match t with
  | TL [tds; ss; us; xs; es; uses; TL is; _] =>
    Frugal (map (fun d => match d with TL [TB n; ty] => (n, ty_of_tok ty) | _ => ([], TNil) end) (as_list tds))
           (strs_of_tok ss) (strs_of_tok us) (strs_of_tok xs) (strs_of_tok es)
           (map ty_of_tok (as_list uses))
           (map (fun p => match p with TL [TB n; sub] => (n, frugal_of_tok sub) | _ => ([], empty_frugal) end) is)
  | _ => empty_frugal
  end.

(** observed validation class of every file, in the same traversal order as [frugal_of_tok]:
    0 validation passed, 1 failed on a type, 2 failed on something the model does not cover *)
Fixpoint vclasses_of_tok (t : tok) : list Z :=
  match t with
  | TL [_; _; _; _; _; _; TL is; TI c] =>
    c :: flat_map (fun p => match p with TL [_; sub] => vclasses_of_tok sub | _ => [] end) is
  | _ => []
  end.
Fixpoint model_vclasses (depth : nat) (f : frugal) : list bool :=
  match depth with
  | O => []
  | S d => validate_types f :: flat_map (fun p => model_vclasses d (snd p)) (incs f)
  end.
Fixpoint vclass_agree (obs : list Z) (mdl : list bool) : bool :=
  match obs, mdl with
  | [], [] => true
  | c :: o, b :: m =>
    (if c =? 0 then b else if c =? 1 then negb b else true) && vclass_agree o m
  | _, _ => false
  end.

Fixpoint descend (f : frugal) (path : list str) : frugal :=
  match path with
  | [] => f
  | n :: r => match assoc n (incs f) with Some g => descend g r | None => empty_frugal end
  end.

Definition obs_bool_agree (code b : Z) (r : cres bool) : bool :=
  match r with
  | COk x => (code =? 0) && Bool.eqb x (b =? 1)
  | other => code =? cres_code other
  end.

(** one type question: [path; ty; valid; ucode; uty; ecode; eb; scode; sb; ncode; nb; gcode; gval] *)
Definition query_ok (root : frugal) (q : tok) : bool :=
  let l := as_list q in
  let f := descend root (strs_of_tok (nth_tok 0 l)) in
  let t := ty_of_tok (nth_tok 1 l) in
  Bool.eqb (is_valid_type f t) (as_int (nth_tok 2 l) =? 1)
  && match underlying_t f t with
     | COk u => (as_int (nth_tok 3 l) =? 0) && ty_eqb u (ty_of_tok (nth_tok 4 l))
     | other => as_int (nth_tok 3 l) =? cres_code other
     end
  && obs_bool_agree (as_int (nth_tok 5 l)) (as_int (nth_tok 6 l)) (is_enum f t)
  && obs_bool_agree (as_int (nth_tok 7 l)) (as_int (nth_tok 8 l)) (is_struct f t)
  && obs_bool_agree (as_int (nth_tok 9 l)) (as_int (nth_tok 10 l)) (is_union f t)
  && match go_enum_from_thrift_type f t with
     | COk z => (as_int (nth_tok 11 l) =? 0) && (z =? as_int (nth_tok 12 l))
     | other => as_int (nth_tok 11 l) =? cres_code other
     end
  && parser_shaped t.
Definition query_follows (root : frugal) (q : tok) : bool :=
  let l := as_list q in
  let f := descend root (strs_of_tok (nth_tok 0 l)) in
  let t := ty_of_tok (nth_tok 1 l) in
  match underlying_t f t with COk u => negb (ty_eqb u t) | _ => false end.

Fixpoint pairs_eqb (a b : list (str * str)) : bool :=
  match a, b with
  | [], [] => true
  | (k, v) :: a', (k', v') :: b' => str_eqb k k' && str_eqb v v' && pairs_eqb a' b'
  | _, _ => false
  end.
Fixpoint str_ltb (a b : str) : bool :=
  match a, b with
  | [], [] => false
  | [], _ :: _ => true
  | _ :: _, [] => false
  | x :: a', y :: b' => if x <? y then true else if y <? x then false else str_ltb a' b'
  end.
Fixpoint insert_pair (p : str * str) (l : list (str * str)) : list (str * str) :=
  match l with
  | [] => [p]
  | q :: l' => if str_ltb (fst q) (fst p) then q :: insert_pair p l' else p :: l
  end.
Definition sort_pairs (l : list (str * str)) : list (str * str) := fold_right insert_pair [] l.
Definition as_spairs (t : tok) : list (str * str) :=
  map (fun p => match p with TL [TB k; TB v] => (k, v) | _ => ([], []) end) (as_list t).

Definition incl_b (a b : list str) : bool := forallb (fun x => mem x b) a.

Definition casing_fn (fn : Z) (s s2 : str) : cres str :=
  if fn =? 1 then snake_to_camel s
  else if fn =? 2 then title s
  else if fn =? 3 then title_service_name s s2
  else if fn =? 4 then to_constant_name s
  else if fn =? 5 then to_file_name s
  else if fn =? 6 then to_constant_name s      (* dart toScreamingCapsConstant = ToUpper(toFileName) *)
  else if fn =? 7 then lowercase_first_letter s (* dart toFieldName *)
  else if fn =? 8 then lowercase_first_character s
  else if fn =? 9 then lowercase_first_letter s (* parser.LowercaseFirstLetter *)
  else CFuel.

Definition judge_case (t : tok) : Z :=
  let f := as_list t in
  let kind := as_int (nth_tok 0 f) in
  if kind =? 1 then
    (* casing helper: fn, s, s2, observed code, observed output *)
    let fn := as_int (nth_tok 1 f) in
    let s := as_bytes (nth_tok 2 f) in
    let ocode := as_int (nth_tok 4 f) in
    match casing_fn fn s (as_bytes (nth_tok 3 f)) with
    | COk out => verdict ((ocode =? 0) && str_eqb out (as_bytes (nth_tok 5 f)))
                         (1000 + 10 * fn + (if str_eqb out s then 0 else 1))
    | other => verdict (ocode =? cres_code other) (1000 + 10 * fn + 2)
    end
  else if kind =? 2 then
    (* -gen value: s, observed code, lang, sorted options *)
    let s := as_bytes (nth_tok 1 f) in
    let ocode := as_int (nth_tok 2 f) in
    match resolve_gen s with
    | COk (lang, opts) =>
      verdict ((ocode =? 0) && str_eqb lang (as_bytes (nth_tok 3 f))
               && pairs_eqb (sort_pairs opts) (as_spairs (nth_tok 4 f)))
              (2000 + Z.min (Z.of_nat (length opts)) 9)
    | other => verdict (ocode =? cres_code other)
                       (2100 + match clean_gen_param s with COk _ => 1 | _ => 0 end)
    end
  else if kind =? 3 then
    (* generator.Languages as the implementation has it *)
    let obs := map (fun p => match p with TL [TB l; os] => (l, strs_of_tok os) | _ => ([], []) end)
                   (as_list (nth_tok 1 f)) in
    verdict ((length obs =? length languages)%nat
             && forallb (fun p => match assoc (fst p) languages with
                                  | Some os => incl_b os (snd p) && incl_b (snd p) os
                                               && (length os =? length (snd p))%nat
                                  | None => false end) obs)
            3000
  else if kind =? 4 then
    (* validation of a program: tree with the observed class of every file *)
    let tree := nth_tok 1 f in
    let root := frugal_of_tok tree in
    let obs := vclasses_of_tok tree in
    let mdl := model_vclasses 64 root in
    verdict (vclass_agree obs mdl)
            (4000 + (if forallb (fun b => b) mdl then 0 else 1)
             + (if forallb (fun c => c =? 0) obs then 0 else 2))
  else if kind =? 5 then
    (* type questions on a validated program *)
    let root := frugal_of_tok (nth_tok 1 f) in
    let qs := as_list (nth_tok 2 f) in
    verdict (validated_b 64 root && names_ok_b 64 root && forallb (query_ok root) qs)
            (5000 + Z.min (Z.of_nat (length (filter (query_follows root) qs))) 999)
  else -1.

Definition judge (cases : list tok) : list Z := map judge_case cases.
