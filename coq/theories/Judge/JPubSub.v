(** Judge for C07: replays an observed pub/sub experiment on Model/PubSub.v.
    One case = one experiment (one subscriber of one generated scope operation over one broker):
      TL [ TI transport (0 nats, 1 stomp); TI workers; TI cap; TB topic; TB op; env; type; TL events ]
    env, type, value tokens: as in Judge/JThriftBin.v (the payload reader is [gread] of the op's type).
    events, in the order the harness recorded them (one global order):
      TL [TI 0; TB topic; TB body]            a message reaches the broker (published by anyone)
      TL [TI 1; TI id; hdrs; value]           the handler was entered for publish number id, with these
                                              request headers (without _opid; TL of TL [TB k; TB v]) and request
      TL [TI 2; TI id; TI err]                that handler returned (err = 1: it returned an error)
      TL [TI 3]                               Unsubscribe() was called
      TL [TI 4]                               Unsubscribe() returned
      TL [TI 5]                               end of the experiment: nothing more happened (quiescence)
    The internal steps of the model (dispatch, enqueue, take, feed, ...) are not observed: the judge
    inserts them, taking messages as late as possible, and every step - inserted or observed - is
    made with [nstep] / [sstep], the definitions the theorems of Props/C07.v are about.
    Result: -(k+1) when event k cannot be reproduced (-(n+1) for a failure at the end), else a bit
    set: 1 delivery, 2 malformed message discarded by a worker, 4 message filtered by the broker
    (other topic / not subscribed), 8 unsubscribe, 16 a worker held a message while another
    started first (n > 1), 32 messages left undelivered after unsubscribe, 64 handler error. *)
From Coq Require Import ZArith List Bool.
From FV Require Import Base.Res Base.Bytes Model.Headers Model.ThriftBin Model.PubSub Judge.Wire Judge.JThriftBin.
Import ListNotations.
Open Scope Z_scope.

Definition hdrs_eqb (a b : list hpair) : bool :=
  Nat.eqb (length a) (length b) &&
  forallb (fun kv => match Headers.lookup (fst kv) b with
                     | Some v => Headers.bytes_eqb v (snd kv)
                     | None => false
                     end) a.

Section J.
  Variable dlv : bytes -> outcome val.

  Definition inv_matches (i : inv val) (id : nat) (h : list hpair) (v : val) : bool :=
    Nat.eqb (i_id i) id && hdrs_eqb (i_hdrs i) h && veqm (i_val i) v.

  Fixpoint find_idx {A} (f : A -> bool) (l : list A) (k : nat) : option nat :=
    match l with
    | [] => None
    | x :: r => if f x then Some k else find_idx f r (S k)
    end.

  Definition is_took_id (id : nat) (w : wstate) : bool :=
    match w with WTook m => Nat.eqb (m_id m) id | _ => false end.
  Definition is_busy_id (id : nat) (w : wstate) : bool :=
    match w with WBusy m => Nat.eqb (m_id m) id | _ => false end.
  Definition is_idle (w : wstate) : bool := match w with WIdle => true | _ => false end.
  Definition is_took_discard (w : wstate) : bool :=
    match w with WTook m => match dlv (m_body m) with Discard => true | _ => false end | _ => false end.
  Definition is_took (w : wstate) : bool := match w with WTook _ => true | _ => false end.

  Definition last_log (s : nats val) : option (inv val) :=
    match rev (n_log s) with i :: _ => Some i | [] => None end.

  (** make workC non-empty if the model can *)
  Definition n_fill (s : nats val) : option (nats val) :=
    match n_workc s with
    | _ :: _ => Some s
    | [] =>
      match n_cb s with
      | Some _ => nstep dlv s NEnqueue
      | None => match nstep dlv s NDispatch with
                | Some s1 => nstep dlv s1 NEnqueue
                | None => None
                end
      end
    end.

  (** reach the start of the handler for publish [id]: (state, tags) *)
  Fixpoint n_start (fuel : nat) (s : nats val) (id : nat) (h : list hpair) (v : val) (tags : Z)
    : option (nats val * Z) :=
    match fuel with
    | O => None
    | S f =>
      match find_idx (is_took_id id) (n_workers s) 0 with
      | Some i =>
        match nstep dlv s (NStart i) with
        | Some s1 =>
          match nth_error (n_workers s1) i, last_log s1 with
          | Some (WBusy _), Some lg =>
            if inv_matches lg id h v && Nat.eqb (length (n_log s1)) (S (length (n_log s)))
            then Some (s1, Z.lor tags 1) else None
          | _, _ => None
          end
        | None => None
        end
      | None =>
        (* a worker holding a message the code discards does so now *)
        match find_idx is_took_discard (n_workers s) 0 with
        | Some i => match nstep dlv s (NStart i) with
                    | Some s1 => n_start f s1 id h v (Z.lor tags 2)
                    | None => None
                    end
        | None =>
          match find_idx is_idle (n_workers s) 0 with
          | None => None
          | Some i =>
            match n_fill s with
            | Some s1 =>
              match nstep dlv s1 (NTake i) with
              | Some s2 =>
                let held := existsb is_took (n_workers s) in
                n_start f s2 id h v (if held then Z.lor tags 16 else tags)
              | None => None
              end
            | None => None
            end
          end
        end
      end
    end.

  (** quiescence without unsubscribe: everything pending is taken and discarded; nothing may start *)
  Fixpoint n_drain (fuel : nat) (s : nats val) (tags : Z) : option (nats val * Z) :=
    match fuel with
    | O => None
    | S f =>
      match find_idx is_took_discard (n_workers s) 0 with
      | Some i => match nstep dlv s (NStart i) with
                  | Some s1 => n_drain f s1 (Z.lor tags 2)
                  | None => None
                  end
      | None =>
        if existsb is_took (n_workers s) then None else      (* the model starts a handler nobody saw *)
        match n_workc s, n_cb s, n_pend s with
        | [], None, [] => Some (s, tags)
        | _, _, _ =>
          match find_idx is_idle (n_workers s) 0 with
          | None => None
          | Some i =>
            match n_fill s with
            | Some s1 => match nstep dlv s1 (NTake i) with
                         | Some s2 => n_drain f s2 tags
                         | None => None
                         end
            | None => None
            end
          end
        end
      end
    end.

  (** after unsubscribe: idle workers leave; what is still queued stays undelivered *)
  Fixpoint n_quit_all (fuel : nat) (s : nats val) : option (nats val) :=
    match fuel with
    | O => Some s
    | S f => match find_idx is_idle (n_workers s) 0 with
             | Some i => match nstep dlv s (NQuit i) with
                         | Some s1 => n_quit_all f s1
                         | None => None
                         end
             | None => Some s
             end
    end.

  (** before Unsubscribe: everything the nats.go delivery goroutine can hand over has been handed over
      (what is still pending at the client is dropped by Unsubscribe; having it in workC leaves
      both outcomes - handled by a worker that has not quit yet, or left behind - possible) *)
  Fixpoint n_pump (fuel : nat) (s : nats val) : nats val :=
    match fuel with
    | O => s
    | S f =>
      match nstep dlv s NEnqueue with
      | Some s1 => n_pump f s1
      | None => match nstep dlv s NDispatch with
                | Some s1 => n_pump f s1
                | None => s
                end
      end
    end.

  Definition n_all_settled (s : nats val) : bool :=
    forallb (fun w => match w with WIdle | WGone => true | _ => false end) (n_workers s).

  Definition n_event (s : nats val) (ev : tok) (tags : Z) : option (nats val * Z) :=
    let f := as_list ev in
    let kind := as_int (nth_tok 0 f) in
    if kind =? 0 then
      let t := as_bytes (nth_tok 1 f) in
      match nstep dlv s (NPub t (as_bytes (nth_tok 2 f))) with
      | Some s1 => Some (s1, if Nat.eqb (length (n_pend s1)) (length (n_pend s)) then Z.lor tags 4 else tags)
      | None => None
      end
    else if kind =? 1 then
      n_start (4 * (length (n_pend s) + length (n_workc s) + length (n_workers s)) + 8) s
              (Z.to_nat (as_int (nth_tok 1 f))) (as_pairs (nth_tok 2 f)) (parse_val (nth_tok 3 f)) tags
    else if kind =? 2 then
      match find_idx (is_busy_id (Z.to_nat (as_int (nth_tok 1 f)))) (n_workers s) 0 with
      | Some i => match nstep dlv s (NDone i) with
                  | Some s1 => Some (s1, if as_int (nth_tok 2 f) =? 1 then Z.lor tags 64 else tags)
                  | None => None
                  end
      | None => None
      end
    else if kind =? 3 then Some (s, tags)
    else if kind =? 4 then
      match nstep dlv (n_pump (2 * length (n_pend s) + 2) s) NUnsub with
      | Some s1 => Some (s1, Z.lor tags 8)
      | None => None
      end
    else if kind =? 5 then
      if n_sub s then
        match n_drain (4 * (length (n_pend s) + length (n_workc s) + length (n_workers s)) + 8) s tags with
        | Some (s1, tg) => if n_all_settled s1 then Some (s1, tg) else None
        | None => None
        end
      else
        match n_quit_all (S (length (n_workers s))) s with
        | Some s1 =>
          if n_all_settled s1 && negb (existsb is_took (n_workers s1)) then
            Some (s1, match n_workc s1, n_cb s1 with [], None => tags | _, _ => Z.lor tags 32 end)
          else None
        | None => None
        end
    else None.

  Fixpoint n_events (s : nats val) (evs : list tok) (k : Z) (tags : Z) : Z :=
    match evs with
    | [] => tags
    | ev :: r => match n_event s ev tags with
                 | Some (s1, tg) => n_events s1 r (k + 1) tg
                 | None => - (k + 1)
                 end
    end.

  (** ** STOMP *)
  Definition s_last_log (s : stomp val) : option (inv val) :=
    match rev (s_log s) with i :: _ => Some i | [] => None end.

  (** processMessages receives until the handler for publish [id] starts *)
  Fixpoint s_start (fuel : nat) (s : stomp val) (id : nat) (h : list hpair) (v : val) (tags : Z)
    : option (stomp val * Z) :=
    match fuel with
    | O => None
    | S f =>
      let s0 := match s_c s with [] => sstep dlv s SFeed | _ => Some s end in
      match s0 with
      | None => None
      | Some s1 =>
        match sstep dlv s1 SRecv with
        | Some s2 =>
          match s_loop s2 with
          | LBusy m =>
            match s_last_log s2 with
            | Some lg => if Nat.eqb (m_id m) id && inv_matches lg id h v then Some (s2, Z.lor tags 1) else None
            | None => None
            end
          | LIdle => s_start f s2 id h v (Z.lor tags (if s_stop s2 then 128 else 2))
          | _ => None
          end
        | None => None
        end
      end
    end.

  (** run the read loop and the (stopped) processing loop until sub.C is closed *)
  Fixpoint s_close (fuel : nat) (s : stomp val) (tags : Z) : option (stomp val * Z) :=
    match fuel with
    | O => None
    | S f =>
      if s_closed s then Some (s, tags) else
      match sstep dlv s SFeed with
      | Some s1 => s_close f s1 tags
      | None =>
        match s_loop s with
        | LIdle => match sstep dlv s SStop with Some s1 => s_close f s1 tags | None => None end
        | LDrain => match sstep dlv s SRecv with Some s1 => s_close f s1 (Z.lor tags 128) | None => None end
        | _ => None
        end
      end
    end.

  (** quiescence: everything is fed and received; nothing may start *)
  Fixpoint s_drain (fuel : nat) (s : stomp val) (tags : Z) : option (stomp val * Z) :=
    match fuel with
    | O => None
    | S f =>
      match s_c s, s_in s with
      | [], [] => Some (s, tags)
      | [], _ => match sstep dlv s SFeed with Some s1 => s_drain f s1 tags | None => None end
      | _ :: _, _ =>
        match s_loop s with
        | LIdle =>
          if s_stop s then
            match sstep dlv s SStop with Some s1 => s_drain f s1 tags | None => None end
          else
            match sstep dlv s SRecv with
            | Some s1 => match s_loop s1 with
                         | LIdle => s_drain f s1 (Z.lor tags 2)
                         | _ => None
                         end
            | None => None
            end
        | LDrain => match sstep dlv s SRecv with Some s1 => s_drain f s1 (Z.lor tags 128) | None => None end
        | _ => None
        end
      end
    end.

  Definition s_fuel (s : stomp val) : nat := 4 * (length (s_in s) + length (s_c s)) + 8.

  Definition s_event (s : stomp val) (ev : tok) (tags : Z) : option (stomp val * Z) :=
    let f := as_list ev in
    let kind := as_int (nth_tok 0 f) in
    if kind =? 0 then
      match sstep dlv s (SPub (as_bytes (nth_tok 1 f)) (as_bytes (nth_tok 2 f))) with
      | Some s1 => Some (s1, if Nat.eqb (length (s_in s1)) (length (s_in s)) then Z.lor tags 4 else tags)
      | None => None
      end
    else if kind =? 1 then
      s_start (s_fuel s) s (Z.to_nat (as_int (nth_tok 1 f))) (as_pairs (nth_tok 2 f)) (parse_val (nth_tok 3 f)) tags
    else if kind =? 2 then
      match s_loop s with
      | LBusy m =>
        if Nat.eqb (m_id m) (Z.to_nat (as_int (nth_tok 1 f))) then
          let err := as_int (nth_tok 2 f) =? 1 in
          match sstep dlv s (SDone err) with
          | Some s1 => Some (s1, if err then Z.lor tags 64 else tags)
          | None => None
          end
        else None
      | _ => None
      end
    else if kind =? 3 then
      match sstep dlv s SUnsubCall with Some s1 => Some (s1, Z.lor tags 8) | None => None end
    else if kind =? 4 then
      match s_close (s_fuel s) s tags with
      | Some (s1, tg) => match sstep dlv s1 SUnsubRet with Some s2 => Some (s2, tg) | None => None end
      | None => None
      end
    else if kind =? 5 then
      match s_drain (s_fuel s) s tags with
      | Some (s1, tg) => match s_loop s1 with LBusy _ | LDead => None | _ => Some (s1, tg) end
      | None => None
      end
    else None.

  Fixpoint s_events (s : stomp val) (evs : list tok) (k : Z) (tags : Z) : Z :=
    match evs with
    | [] => tags
    | ev :: r => match s_event s ev tags with
                 | Some (s1, tg) => s_events s1 r (k + 1) tg
                 | None => - (k + 1)
                 end
    end.
End J.

Definition judge_case (c : tok) : Z :=
  let f := as_list c in
  let transport := as_int (nth_tok 0 f) in
  let workers := Z.to_nat (as_int (nth_tok 1 f)) in
  let cap := Z.to_nat (as_int (nth_tok 2 f)) in
  let topic := as_bytes (nth_tok 3 f) in
  let op := as_bytes (nth_tok 4 f) in
  let e := map parse_decl (as_list (nth_tok 5 f)) in
  let t := parse_ty (nth_tok 6 f) in
  let dlv := deliver val (fun b => gread (fuel_for b) e t b) op in
  if transport =? 0 then
    n_events dlv (ninit val topic workers cap) (as_list (nth_tok 7 f)) 0 0
  else s_events dlv (sinit val topic cap) (as_list (nth_tok 7 f)) 0 0.

Definition judge (cases : list tok) : list Z := map judge_case cases.
