(** Judge for FContext operation traces (C09, C17): after every operation the maps of every
    context and every user-held map must equal the model's. *)
From Coq Require Import ZArith List Bool.
From FV Require Import Base.Res Base.Bytes Model.Headers Model.Receivers Model.Context Judge.Wire Judge.JHeaders.
Import ListNotations.
Open Scope Z_scope.

Definition to_sel (z : Z) : mapsel := if z =? 0 then MReq else if z =? 1 then MResp else MEph.
Definition znat (t : tok) : nat := Z.to_nat (as_int t).

Definition decode_op (t : tok) : option op :=
  let f := as_list t in
  let k := as_int (nth_tok 0 f) in
  if k =? 1 then Some (ONew (as_bytes (nth_tok 1 f)))
  else if k =? 2 then Some (OAdd (znat (nth_tok 1 f)) (to_sel (as_int (nth_tok 2 f)))
                                 (as_bytes (nth_tok 3 f)) (as_bytes (nth_tok 4 f)))
  else if k =? 3 then Some (OSetTimeout (znat (nth_tok 1 f)) (as_int (nth_tok 2 f)))
  else if k =? 4 then Some (OGet (znat (nth_tok 1 f)) (to_sel (as_int (nth_tok 2 f))))
  else if k =? 5 then Some (OMutUser (znat (nth_tok 1 f)) (as_bytes (nth_tok 2 f)) (as_bytes (nth_tok 3 f)))
  else if k =? 6 then Some (OClone (znat (nth_tok 1 f)))
  else if k =? 7 then Some ONewProto
  else if k =? 8 then Some (ORecv (znat (nth_tok 1 f)) (as_pairs (nth_tok 2 f)))
  else if k =? 9 then Some (OReadResp (znat (nth_tok 1 f)) (as_pairs (nth_tok 2 f)))
  else None.

Definition dump_ok (s : st) (d : tok) : bool :=
  let f := as_list d in
  let cs := as_list (nth_tok 0 f) in
  let us := as_list (nth_tok 1 f) in
  let ctx_ok (c : ctx) (t : tok) :=
    let m := as_list t in
    pairs_eqb (sort_pairs (req_of s c)) (as_pairs (nth_tok 0 m))
    && pairs_eqb (sort_pairs (resp_of s c)) (as_pairs (nth_tok 1 m))
    && pairs_eqb (sort_pairs (eph_of s c)) (as_pairs (nth_tok 2 m))
    && (Context.timeout_of s c =? as_int (nth_tok 3 m)) in
  (Nat.eqb (length cs) (length (ctxs s)))
  && (Nat.eqb (length us) (length (umaps s)))
  && forallb (fun p => ctx_ok (fst p) (snd p)) (combine (ctxs s) cs)
  && forallb (fun p => pairs_eqb (sort_pairs (get s (fst p))) (as_pairs (snd p))) (combine (umaps s) us).

(** kinds 10 / 11: a request / a response written by the real FProtocol and read back *)
Definition step_tok (s : st) (t : tok) : option (option st) :=
  let f := as_list t in
  let k := as_int (nth_tok 0 f) in
  if k =? 10 then Some (send_request s (znat (nth_tok 1 f)) (znat (nth_tok 2 f)))
  else if k =? 11 then Some (send_response s (znat (nth_tok 1 f)) (znat (nth_tok 2 f)))
  else if k =? 12 then
    (* a whole call: new server-side protocol object, the request travels, the handler adds response headers,
       the reply (normal or RESPONSE_TOO_LARGE error reply) travels back with the server context's response headers *)
    let i := znat (nth_tok 1 f) in
    let hadd := as_pairs (nth_tok 2 f) in
    Some (whole_call s i hadd)
  else match decode_op t with Some o => Some (step s o) | None => None end.

Fixpoint replay (s : st) (steps : list tok) (n : Z) : Z :=
  match steps with
  | [] => n
  | t :: rest =>
    let f := as_list t in
    match step_tok s (nth_tok 0 f) with
    | None => -1
    | Some r =>
      match r with
      | None => -1
      | Some s' => if dump_ok s' (nth_tok 1 f) then replay s' rest (n + 1) else -1
      end
    end
  end.

Definition judge_case (t : tok) : Z :=
  let f := as_list t in
  replay (init (as_int (nth_tok 0 f))) (as_list (nth_tok 1 f)) 0.

Definition judge (cases : list tok) : list Z := map judge_case cases.
