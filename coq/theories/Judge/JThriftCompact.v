(** Judge for C02 under the compact protocol: replays observed behaviour of generated Write / Read
    over TCompactProtocol on Model/ThriftCompact.v (gcwrite / gcread: the same definitions the
    c02_compact_* theorems are about).  Case syntax, parsers and the order-insensitive comparison are
    those of Judge/JThriftBin.v:
      case     TL [ env ; type ; TL subcases ]
      subcase  TL [TI 1; value; TI code; TB bytes]        Write: Go value, observed class and bytes
               TL [TI 2; TB bytes; TI code; value | TL []; TI unread] Read: input, class, value, unread count
    A Write is reproduced when the model accepts the value, the observed bytes decode (compact model
    reader) to a wire value equal to the model's up to set/map order, re-encode (compact model writer)
    to exactly the observed bytes, and have the model's length; i.e. the observed bytes are the
    model's bytes for one of the iteration orders Go may have used.
    result   -(i+1) if subcase i is not reproduced by the model, else a bit set of the model branches
             exercised: 1 write ok, 2 write rejected, 4 panic, 8 read ok, 16 read INVALID_DATA,
             32 read other error, 64 a field header in long form (type byte + zigzag varint id),
             128 a bool folded into a field header, 256 a list/set header with a varint size (> 14),
             512 a multi-byte varint. *)
From Coq Require Import ZArith List Bool.
From FV Require Import Base.Res Base.Bytes Model.ThriftBin Model.ThriftCompact Judge.Wire Judge.JThriftBin.
Import ListNotations.
Open Scope Z_scope.

(** branch tags read off a wire value (what the writer had to do for it) *)
Fixpoint tags (e : env) (t : ty) (w : val) {struct w} : Z :=
  let s := shape_of e t in
  match w with
  | VInt z => if (z <? -64) || (63 <? z) then match s with SInt 1 => 0 | _ => 512 end else 0
  | VBytes b => if 127 <? zlen b then 512 else 0
  | VList l | VSet l =>
    let et := elem_ty s in
    Z.lor (if 14 <? zlen l then 256 else 0)
          ((fix go (l : list val) : Z := match l with [] => 0 | x :: r => Z.lor (tags e et x) (go r) end) l)
  | VMap l =>
    let kt := key_ty s in let vt := mval_ty s in
    (fix go (l : list (val * val)) : Z :=
       match l with [] => 0 | (k, x) :: r => Z.lor (Z.lor (tags e kt k) (tags e vt x)) (go r) end) l
  | VRec fs =>
    let decls := struct_fields s in
    (fix go (fs : list (Z * val)) (last : Z) {struct fs} : Z :=
       match fs with
       | [] => 0
       | (id, x) :: r =>
         match ftyp_of decls id with
         | Some ft =>
           Z.lor (Z.lor (if (last <? id) && (id - last <=? 15) then 0 else 64)
                        (match x with VBool _ => 128 | _ => tags e ft x end))
                 (go r id)
         | None => go r last
         end
       end) fs 0
  | _ => 0
  end.

Definition judge_sub (e : env) (t : ty) (s : tok) : Z :=
  let f := as_list s in
  let kind := as_int (nth_tok 0 f) in
  if kind =? 1 then
    let v := parse_val (nth_tok 1 f) in
    let ocode := as_int (nth_tok 2 f) in
    let obs := as_bytes (nth_tok 3 f) in
    match to_wire e t v with
    | Ok w =>
      if negb (ocode =? 0) then -1 else
      match cdec (fuel_for obs) e t (None, obs) with
      | Ok (w', (None, [])) =>
        if bytes_eqb (cenc e t w') obs && veqm w w' &&
           (Nat.eqb (length (cenc e t w)) (length obs)) then Z.lor 1 (tags e t w) else -1
      | _ => -1
      end
    | Err EInvalidData => if ocode =? 4 then 2 else -1
    | Err _ => if (1 <=? ocode) && (ocode <=? 7) then 2 else -1
    | Panic _ => if ocode =? 100 then 4 else -1
    | OutOfFuel => -1
    end
  else if kind =? 2 then
    let inp := as_bytes (nth_tok 1 f) in
    let ocode := as_int (nth_tok 2 f) in
    let oval := parse_val (nth_tok 3 f) in
    let ounread := as_int (nth_tok 4 f) in
    match gcread (fuel_for inp) e t inp with
    | Ok (g, rest) =>
      if (ocode =? 0) && veqm g oval && (zlen rest =? ounread) then 8 else -1
    | Err EInvalidData => if ocode =? 4 then 16 else if (1 <=? ocode) && (ocode <=? 7) then 32 else -1
    | Err _ => if (1 <=? ocode) && (ocode <=? 7) then 32 else -1
    | Panic _ => if ocode =? 100 then 4 else -1
    | OutOfFuel => -1
    end
  else -1.

Fixpoint judge_subs (e : env) (t : ty) (subs : list tok) (i : Z) (acc : Z) : Z :=
  match subs with
  | [] => acc
  | s :: r =>
    let v := judge_sub e t s in
    if v <? 0 then - (i + 1) else judge_subs e t r (i + 1) (Z.lor acc v)
  end.

Definition judge_case (c : tok) : Z :=
  let f := as_list c in
  let e := map parse_decl (as_list (nth_tok 0 f)) in
  let t := parse_ty (nth_tok 1 f) in
  judge_subs e t (as_list (nth_tok 2 f)) 0 0.

Definition judge (cases : list tok) : list Z := map judge_case cases.
