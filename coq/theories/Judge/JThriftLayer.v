(** Judge for C05's Thrift layer: replays Model/ThriftLayer.v on the request payloads a real generated
    processor was handed (lab op c05thrift).
    One judged case = one program and one service:
      TL [ env ; services ; TI server service ; TL payloads ]
    env, services   as in Judge/JGenCall.v
    payload         TL [ TI protocol (0 binary, 1 compact) ; TB bytes (header block and everything after it) ;
                         TI observed class ; TB wire name of the method whose handler ran (empty if none) ]
                    observed class: 0 Process returned an error and wrote nothing, 1 UNKNOWN_METHOD reply,
                    2 PROTOCOL_ERROR reply, 3 the handler ran
    result          -(i+1) if payload i is not reproduced, else the union of branch tags
                    2^class (1,2,4,8) ; 16 the header block was refused (class 0) ; 32 compact ; 64 the FProtocol guards changed the outcome
                    (the bare TProtocol readers would have served / kept reading) ;
                    128 the model's receiver body [nats_server_body] continues on the framed payload
                        (always set: the judge refuses the case otherwise) *)
From Coq Require Import ZArith List Bool.
From FV Require Import Base.Res Base.Bytes Model.Headers Model.Receivers Model.ThriftBin Model.ThriftCompact Model.GenCall
     Model.ThriftLayer Judge.Wire Judge.JThriftBin Judge.JGenCall.
Import ListNotations.
Open Scope Z_scope.

Definition quiet_handler : handler := fun _ _ => HRet None.

(** the wire name of the method the model's handler log holds ([] if none) *)
Definition invoked_name (cd : codec) (fuel : nat) (e : env) (pm : list (bytes * method)) (rest : bytes) : bytes :=
  match cd_msg_dec cd rest with
  | Ok (nm, _, _, r2) =>
    match plookup nm pm with
    | Some m => match method_process_c cd fuel e quiet_handler [] m r2 with
                | Ok (_, (w, _) :: _) => w
                | Err _ => m_wire m
                | _ => []
                end
    | None => []
    end
  | _ => []
  end.

Definition judge_payload (e : env) (pm : list (bytes * method)) (t : tok) : Z :=
  let f := as_list t in
  let proto := as_int (nth_tok 0 f) in
  let b := as_bytes (nth_tok 1 f) in
  let ocls := as_int (nth_tok 2 f) in
  let oname := as_bytes (nth_tok 3 f) in
  let cd := if proto =? 1 then fcompact_codec else fbin_codec in
  let bare := if proto =? 1 then compact_codec else bin_codec in
  let tl := thrift_layer cd e pm quiet_handler in
  (* the receiver body on the framed payload: must continue, whatever the bytes *)
  match nats_server_body tl ([0; 0; 0; 0] ++ b) with
  | Continue _ =>
    match read_request_header b with
    | Ok (_, _, rest) =>
      let fuel := layer_fuel (length rest) in
      let c := layer_class cd fuel e pm quiet_handler rest in
      let cb := layer_class bare fuel e pm quiet_handler rest in
      if (c =? ocls) && (if c =? 3 then ThriftBin.bytes_eqb (invoked_name cd fuel e pm rest) oname else true)
      then Z.shiftl 1 c + (if proto =? 1 then 32 else 0) + (if c =? cb then 0 else 64) + 128
      else -1
    | Err _ => if ocls =? 0 then 16 + (if proto =? 1 then 32 else 0) + 128 else -1
    | _ => -1
    end
  | _ => -1
  end.

Fixpoint judge_payloads (e : env) (pm : list (bytes * method)) (ps : list tok) (i : Z) (acc : Z) : Z :=
  match ps with
  | [] => acc
  | p :: r =>
    let v := judge_payload e pm p in
    if v <? 0 then - (i + 1) else judge_payloads e pm r (i + 1) (Z.lor acc v)
  end.

Definition judge_case (c : tok) : Z :=
  let f := as_list c in
  let e := map parse_decl (as_list (nth_tok 0 f)) in
  let ss := map parse_service (as_list (nth_tok 1 f)) in
  let srv := as_int (nth_tok 2 f) in
  let pm := proc_entries (S (length ss)) ss srv in
  judge_payloads e pm (as_list (nth_tok 3 f)) 0 0.

Definition judge (cases : list tok) : list Z := map judge_case cases.
