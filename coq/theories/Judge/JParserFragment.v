(** Judge for the PROVED round-trip fragment of C10: a case is a description of a file inside the
    fragment of [c10_roundtrip_structs_partial] (the render styles chosen by the generator, as data)
    together with the text the generator wrote and what the REAL parser returned on it.
    The judge checks, inside Coq,
      1. the description satisfies the theorem's hypotheses ([fragment_okb], proved sound),
      2. the theorem's rendering of the description is byte for byte the text that was parsed,
      3. the real parser accepted it and its tree is the theorem's [frugal_of].
    So an accepted case is an instance of the theorem on which the implementation agrees with the
    theorem's right-hand side -- without running the parser model at all. *)
From Coq Require Import ZArith String List Bool.
From FV Require Import Model.Peg Model.ParserStrings Model.ParserAst Model.ParserActions Model.Parser Judge.Wire
     Judge.JParser Proofs.ParserRoundTrip Proofs.ParserRoundTripEnum Proofs.ParserRoundTripStruct
     Proofs.ParserRoundTripConst Proofs.ParserRoundTripService Proofs.ParserRoundTripFile Proofs.ParserFragmentCheck.
Import ListNotations.
Open Scope Z_scope.

(** 64-bit integers travel as [sign; high 32 bits; low 32 bits] of the absolute value *)
Definition dec_z (t : tok) : Z :=
  match t with
  | TL [TI s; TI hi; TI lo] => let a := hi * 4294967296 + lo in if s =? 1 then - a else a
  | _ => 0
  end.

Definition omap2 {X} (f : tok -> option X) := fix go (l : list tok) : option (list X) :=
  match l with
  | [] => Some []
  | x :: r => match f x, go r with Some y, Some ys => Some (y :: ys) | _, _ => None end
  end.

Fixpoint dec_ty (t : tok) : option ty_spec :=
  match t with
  | TL [TI 0; TB b; TB g] => Some (T_base b g)
  | TL [TI 1; TB w1; sub; TB g] => match dec_ty sub with Some x => Some (T_list w1 x g) | None => None end
  | TL [TI 2; TB w1; sub; TB g] => match dec_ty sub with Some x => Some (T_set w1 x g) | None => None end
  | TL [TI 3; TB w1; k; TB w2; v; TB g] =>
    match dec_ty k, dec_ty v with Some x, Some y => Some (T_map w1 x w2 y g) | _, _ => None end
  | _ => None
  end.

Definition dec_mod (t : tok) : option fmod_spec :=
  match t with
  | TL [TI 0] => Some M_default
  | TL [TI 1; TB g] => Some (M_required g)
  | TL [TI 2; TB g] => Some (M_optional g)
  | _ => None
  end.

Definition dec_fd_tail (t : tok) : option fd_tail :=
  match t with
  | TL [TI 0; TB W] => Some (FT_plain W)
  | TL [TI 1; TB W; TI sep; TB W'] => Some (FT_sep W sep W')
  | _ => None
  end.

Definition dec_fd (t : tok) : option fd_spec :=
  match t with
  | TL [z; TB g1; TB g2; m; ty; TI c; TB nm; tl] =>
    match dec_mod m, dec_ty ty, dec_fd_tail tl with
    | Some m', Some ty', Some tl' => Some (mk_fd (dec_z z) g1 g2 m' ty' c nm tl')
    | _, _, _ => None
    end
  | _ => None
  end.

Definition dec_sl (t : tok) : option sl_spec :=
  match t with
  | TL [TI c; TB nm; TB w1; TB w2; TL fs; TB g3; TB w] =>
    match omap2 dec_fd fs with Some fs' => Some (mk_sl c nm w1 w2 fs' g3 w) | None => None end
  | _ => None
  end.

Definition dec_ev_tail (t : tok) : option ev_tail :=
  match t with
  | TL [TI 0; TB W] => Some (T_plain W)
  | TL [TI 1; TB g; TI sep; TB W] => Some (T_sep g sep W)
  | TL [TI 2; TB g1; TB g; z; TB W] => Some (T_val g1 g (dec_z z) W)
  | TL [TI 3; TB g1; TB g; z; TB g2; TI sep; TB W] => Some (T_val_sep g1 g (dec_z z) g2 sep W)
  | _ => None
  end.

Definition dec_ev (t : tok) : option ev_spec :=
  match t with
  | TL [TI c; TB nm; tl] => match dec_ev_tail tl with Some tl' => Some (mk_ev c nm tl') | None => None end
  | _ => None
  end.

Definition dec_cv (t : tok) : option cv_spec :=
  match t with
  | TL [TI 0; z] => Some (CV_int (dec_z z))
  | TL [TI 1; TB c] => Some (CV_str c)
  | _ => None
  end.

Definition dec_ow (t : tok) : option ow_spec :=
  match t with TL [TI 0] => Some OW_none | TL [TI 1; TB W] => Some (OW_oneway W) | _ => None end.
Definition dec_ret (t : tok) : option ret_spec :=
  match t with
  | TL [TI 0; TB W] => Some (R_void W)
  | TL [TI 1; ty; TB W] => match dec_ty ty with Some x => Some (R_type x W) | None => None end
  | _ => None
  end.
Definition dec_fn_tail (t : tok) : option fn_tail :=
  match t with
  | TL [TI 0; TB W2] => Some (FN_plain W2)
  | TL [TI 1; TB W2; TI sep; TB W3] => Some (FN_sep W2 sep W3)
  | TL [TI 2; TB W2; TB W4; TB W5; TL fs; TB g; sep; TB W3] =>
    match omap2 dec_fd fs, sep with
    | Some fs', TL [] => Some (FN_throws W2 W4 W5 fs' g None W3)
    | Some fs', TL [TI s] => Some (FN_throws W2 W4 W5 fs' g (Some s) W3)
    | _, _ => None
    end
  | _ => None
  end.
Definition dec_fn (t : tok) : option fn_spec :=
  match t with
  | TL [ow; r; TI c; TB nm; TB g; TB w; TL args; tl] =>
    match dec_ow ow, dec_ret r, omap2 dec_fd args, dec_fn_tail tl with
    | Some ow', Some r', Some args', Some tl' => Some (mk_fn ow' r' c nm g w args' tl')
    | _, _, _, _ => None
    end
  | _ => None
  end.

Definition dec_kind (k : Z) : sl_kind := if k =? 1 then K_exception else if k =? 2 then K_union else K_struct.

Definition dec_xdecl (t : tok) : option xdecl :=
  match t with
  | TL [TI 0; TB g1; TB base; TB g2; TI c; TB nm; TB g3; TB w] => Some (X_typedef (mk_td g1 base g2 c nm g3 w))
  | TL [TI 1; TB g1; TI c; TB nm; TB w1; TB w2; TL vs; TB g3; TB w] =>
    match omap2 dec_ev vs with Some vs' => Some (X_enum (mk_en g1 c nm w1 w2 vs' g3 w)) | None => None end
  | TL [TI 2; TI k; TB g1; sl] =>
    match dec_sl sl with Some s => Some (X_struct (mk_st (dec_kind k) g1 s)) | None => None end
  | TL [TI 3; TB g1; ty; TI c; TB nm; TB g2; TB g3; cv; TB g4; TB w] =>
    match dec_ty ty, dec_cv cv with
    | Some ty', Some cv' => Some (X_const (mk_cn g1 ty' c nm g2 g3 cv' g4 w))
    | _, _ => None
    end
  | TL [TI 4; TB g1; TI c; TB nm; TB w1; TB w2; TL fns; TB g3; TB w] =>
    match omap2 dec_fn fns with Some fns' => Some (X_service (mk_sv g1 c nm w1 w2 fns' g3 w)) | None => None end
  | _ => None
  end.

Definition kind_count (ds : list xdecl) : Z :=
  (* which declaration kinds the case contains, as a bit set: typedef 1, enum 2, struct-like 4, const 8, service 16 *)
  fold_left (fun acc d => Z.lor acc (match d with X_typedef _ => 1 | X_enum _ => 2 | X_struct _ => 4 | X_const _ => 8
                                           | X_service _ => 16 end)) ds 0.

(** case: [text; w0; [declaration...]; observed code; observed tree]
    tags: 5000 + bit set of the declaration kinds present; -1 = rejected; -2 = the description does not
    decode; -3 = it is outside the theorem's hypotheses; -4 = the generator's text is not the theorem's
    rendering (the last three are faults of the generator, never of the parser) *)
Definition judge_case (t : tok) : Z :=
  let f := as_list t in
  let text := as_bytes (nth_tok 0 f) in
  let w0 := as_bytes (nth_tok 1 f) in
  let ocode := as_int (nth_tok 3 f) in
  let obs := nth_tok 4 f in
  match omap2 dec_xdecl (as_list (nth_tok 2 f)) with
  | None => -2
  | Some ds =>
    if negb (fragment_okb w0 ds) then -3
    else if negb (zeqb_list (w0 ++ render_file ds) text) then -4
    else if (ocode =? 0) && tok_eqb (enc_frugal (frugal_of ds)) obs then 5000 + kind_count ds
    else -1
  end.

Definition judge (cases : list tok) : list Z := map judge_case cases.
