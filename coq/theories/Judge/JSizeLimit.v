(** Judge for C12: replays each observed case on Model/SizeLimit.v (the definitions the theorems
    of Props/C12.v are about).  One result per case: -1 = the model does not reproduce the
    observation, otherwise a branch tag. *)
From Coq Require Import ZArith List Bool.
From FV Require Import Model.SizeLimit Judge.Wire.
Import ListNotations.
Open Scope Z_scope.

Definition verdict (ok : bool) (tag : Z) : Z := if ok then tag else -1.
Definition ints (t : tok) : list Z := map as_int (as_list t).

(** ops: [[k, n] ...]  k: 0 Write, 1 WriteString, 2 WriteByte *)
Definition parse_op (t : tok) : op :=
  match as_list t with
  | [TI k; TI n] => if k =? 0 then W n else if k =? 1 then WS n else WB
  | _ => WB
  end.
Definition parse_ops (t : tok) : list op := map parse_op (as_list t).

Definition op_eqb (a b : op) : bool :=
  match a, b with
  | W x, W y => x =? y
  | WS x, WS y => x =? y
  | WB, WB => true
  | _, _ => false
  end.
Fixpoint ops_eqb (a b : list op) : bool :=
  match a, b with
  | [], [] => true
  | x :: a', y :: b' => op_eqb x y && ops_eqb a' b'
  | _, _ => false
  end.

(** values: [k, ...]  0 bool 1 byte 2 i16 3 i32 4 i64 5 double 6 str n 7 bin n
    8 list [vals] 9 map [[k,v]...] 10 struct [vals] *)
Fixpoint parse_val (t : tok) : tval :=
  match t with
  | TL (TI k :: rest) =>
    if k =? 0 then VBool else if k =? 1 then VByte else if k =? 2 then VI16
    else if k =? 3 then VI32 else if k =? 4 then VI64 else if k =? 5 then VDouble
    else if k =? 6 then VStr (as_int (nth_tok 0%nat rest))
    else if k =? 7 then VBin (as_int (nth_tok 0%nat rest))
    else if k =? 8 then
      match rest with [TL elems] => VList (map parse_val elems) | _ => VList [] end
    else if k =? 9 then
      match rest with
      | [TL elems] =>
        VMap (map (fun kv => match kv with
                             | TL [a; b] => (parse_val a, parse_val b)
                             | _ => (VBool, VBool)
                             end) elems)
      | _ => VMap []
      end
    else
      match rest with [TL elems] => VStruct (map parse_val elems) | _ => VStruct [] end
  | _ => VBool
  end.

Definition opt_matches (o : option Z) (l : list Z) : bool :=
  match o, l with
  | None, [] => true
  | Some n, [x] => n =? x
  | _, _ => false
  end.

(** * buffer traces *)
(** step kinds: 0 W n, 1 WS n, 2 WB, 3 Reset, 4 HasWriteData, 5 Bytes;
    observation per step: [code, Len() afterwards, extra] *)
Fixpoint judge_buf_steps (b : buf) (ops : list tok) (obs : list tok) (rejects : Z) : Z :=
  match ops, obs with
  | [], [] => rejects
  | o :: ops', s :: obs' =>
    match as_list o, ints s with
    | [TI k; TI n], [code; l; extra] =>
      if k <=? 2 then
        let '(b', ok) := buf_op b (parse_op o) in
        let want_extra := if ok then op_size (parse_op o) else 0 in
        if (code =? (if ok then 0 else 11)) && (l =? len b') && (extra =? want_extra)
        then judge_buf_steps b' ops' obs' (if ok then rejects else rejects + 1) else -1
      else if k =? 3 then
        let b' := reset b in
        if (code =? 0) && (l =? len b') then judge_buf_steps b' ops' obs' rejects else -1
      else if k =? 4 then
        if (code =? 0) && (l =? len b) && (extra =? (if has_write_data b then 1 else 0))
        then judge_buf_steps b ops' obs' rejects else -1
      else
        if (code =? 0) && (l =? frame_len b) && (extra =? frame_prefix b)
        then judge_buf_steps b ops' obs' rejects else -1
    | _, _ => -1
    end
  | _, _ => -1
  end.

Definition judge_buf (f : list tok) : Z :=
  let lim := as_int (nth_tok 1%nat f) in
  let ops := as_list (nth_tok 2%nat f) in
  match as_list (nth_tok 3%nat f) with
  | s0 :: obs =>
    match ints s0 with
    | [c; l; _] =>
      if (c =? 0) && (l =? len (new_buf lim)) then
        let r := judge_buf_steps (new_buf lim) ops obs 0 in
        if r <? 0 then -1 else 1000 + Z.min r 9 + (if lim =? 0 then 0 else if lim <? 4 then 10 else 20)
      else -1
    | _ => -1
    end
  | [] => -1
  end.

(** * calls *)
(** [2, tkind, reqlimit, resplimit, req_hdr, req_ops, server_ran, rep_hdr, min_hdr, rep_ops,
     err_ops, obs_code, sent, replies, bin, name_len, args, reply, errmsg_len, oneway] *)
Definition judge_call (f : list tok) : Z :=
  let g n := nth_tok (Z.to_nat n) f in
  let tkind := as_int (g 1) in
  let t := if tkind =? 0 then TNats else THttp (as_int (g 2)) (as_int (g 3)) in
  let m := mkmsg (as_int (g 4)) (parse_ops (g 5)) in
  let ran := as_int (g 6) =? 1 in
  let r := if ran then mkreply (as_int (g 7)) (as_int (g 8)) (parse_ops (g 9)) (parse_ops (g 10))
           else mkreply 5 5 [] [] in
  let ow := as_int (g 19) =? 1 in
  let res := if ow then oneway t m r else call t m r in
  let ok_out := as_int (g 11) =? outcome_code (out res) in
  let ok_sent := opt_matches (sent res) (ints (g 12)) in
  (* the server runs iff a frame reached it; only then is there something to compare *)
  let ok_ran := Bool.eqb ran (match sent res with Some _ => true | None => false end) in
  let ok_back := if ran then opt_matches (back res) (ints (g 13)) else match ints (g 13) with [] => true | _ => false end in
  let bin := as_int (g 14) =? 1 in
  let nl := as_int (g 15) in
  let ok_enc :=
    if bin then
      ops_eqb (enc_binary_message nl (parse_val (g 16))) (body m)
      && (if ran then ops_eqb (enc_binary_message nl (parse_val (g 17))) (rbody r)
                      && ops_eqb (enc_binary_message nl (VStruct [VStr (as_int (g 18)); VI32])) (ebody r)
          else true)
    else true in
  let path :=
    match out res with
    | OkReply => 1
    | ReqTooLarge => 2
    | RespTooLarge =>
      match t with
      | TNats => if (nats_max <? 4 + rhdr r + ops_size (ebody r)) then 4 else 3
      | THttp _ _ => 5
      end
    | _ => 9
    end in
  verdict (ok_out && ok_sent && ok_ran && ok_back && ok_enc)
          (2000 + 100 * tkind + 10 * path + (if bin then 1 else 0) + (if ow then 500 else 0)).

(** * publishes *)
(** [3, pkind, publimit, req_hdr, req_ops, obs_code, sent, bin, name_len, value] *)
Definition judge_pub (f : list tok) : Z :=
  let g n := nth_tok (Z.to_nat n) f in
  let pkind := as_int (g 1) in
  let p := if pkind =? 0 then PNats else PStomp (as_int (g 2)) in
  let m := mkmsg (as_int (g 3)) (parse_ops (g 4)) in
  let '(o, s) := publish p m in
  let bin := as_int (g 7) =? 1 in
  let ok_enc := if bin then ops_eqb (enc_binary_message (as_int (g 8)) (parse_val (g 9))) (body m) else true in
  verdict ((as_int (g 5) =? outcome_code o) && opt_matches s (ints (g 6)) && ok_enc)
          (3000 + 100 * pkind + (match o with OkReply => 10 | _ => 20 end) + (if bin then 1 else 0)).

(** * constants of the implementation *)
(** [4, nats transport GetRequestSizeLimit, nats publisher GetPublishSizeLimit,
     TRANSPORT_EXCEPTION_REQUEST_TOO_LARGE, TRANSPORT_EXCEPTION_RESPONSE_TOO_LARGE,
     APPLICATION_EXCEPTION_RESPONSE_TOO_LARGE, stomp GetPublishSizeLimit for maxPublishSize -5 (hi, lo 32 bits),
     stomp GetPublishSizeLimit for maxPublishSize 77] *)
Definition judge_consts (f : list tok) : Z :=
  let g n := as_int (nth_tok (Z.to_nat n) f) in
  verdict ((g 1 =? request_limit TNats) && (g 2 =? publish_limit PNats)
           && (g 3 =? transport_request_too_large) && (g 4 =? transport_response_too_large)
           && (g 5 =? app_response_too_large_written) && (g 5 =? app_response_too_large_mapped)
           && (g 6 * 4294967296 + g 7 =? publish_limit (PStomp (-5)))
           && (g 8 =? publish_limit (PStomp 77)))
          4000.

Definition judge_case (t : tok) : Z :=
  let f := as_list t in
  let kind := as_int (nth_tok 0%nat f) in
  if kind =? 1 then judge_buf f
  else if kind =? 2 then judge_call f
  else if kind =? 3 then judge_pub f
  else if kind =? 4 then judge_consts f
  else -1.

Definition judge (cases : list tok) : list Z := map judge_case cases.
