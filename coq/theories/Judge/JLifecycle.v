(** Judge for the adapter transport lifecycle (C15): replays each observed history on
    Model/Lifecycle.v ([step Fixed]) and checks that every step is enabled exactly when the
    implementation took it and has exactly the observed effect and the observed state snapshot.

    case  = [monitor; preopen; max; init; maxw; steps]
    step  = [op; a; b; c; bytes; enabled; obs; snap]     (obs, snap : lists of integers; snap = [] if not taken)
    op    : 1 Open, 2 Close, 3 IsOpen, 4 feed (a = generation, bytes), 5 read error (a = generation,
            b = kind, c = tag), 6 loop step (a = generation, b = underlying Close answer),
            7 monitor receives, 8 monitor reopen attempt (a = underlying Open answer)
    result: -1 = the model does not reproduce the history, otherwise a bit mask of the model
            branches the history went through *)
From Coq Require Import ZArith List Bool.
From FV Require Import Base.Bytes Model.Lifecycle Judge.Wire.
Import ListNotations.
Open Scope Z_scope.

Fixpoint zlist_eqb (a b : list Z) : bool :=
  match a, b with
  | [], [] => true
  | x :: a', y :: b' => (x =? y) && zlist_eqb a' b'
  | _, _ => false
  end.

Definition as_ints (t : tok) : list Z := map as_int (as_list t).

Definition rkind_of (k tag : Z) : rkind :=
  if k =? 0 then EofRaw else if k =? 1 then EofTte else if k =? 2 then ErrRaw tag else ErrTte tag.

Definition ev_of (f : list tok) : option ev :=
  let op := as_int (nth_tok 0 f) in
  let a := as_int (nth_tok 1 f) in
  let b := as_int (nth_tok 2 f) in
  let c := as_int (nth_tok 3 f) in
  if op =? 1 then Some (EOpen a)
  else if op =? 2 then Some (EClose a)
  else if op =? 3 then Some EIsOpen
  else if op =? 4 then Some (EFeed (Z.to_nat a) (as_bytes (nth_tok 4 f)))
  else if op =? 5 then Some (EReadErr (Z.to_nat a) (rkind_of b c))
  else if op =? 6 then Some (ELoop (Z.to_nat a) b)
  else if op =? 7 then Some EMonRecv
  else if op =? 8 then Some (EMon a)
  else None.

(** which model branch a step went through (bit index) *)
Definition branch (s : st) (e : ev) (o : list Z) : Z :=
  match e, o with
  | EClose _, 0 :: _ => 0
  | EClose _, 2 :: _ => 1
  | EClose _, _ => 2
  | ELoop g _, _ =>
    match loops s g, o with
    | LSawErr _, [5] => 3
    | LSawErr _, [2] => 4
    | LSawErr _, _ => 5
    | _, [5; _; c] => if c =? 0 then 6 else 7
    | _, _ => if Nat.eqb g (gen s) then 8 else 21
    end
  | EFeed _ _, 1 :: _ => 9
  | EFeed _ _, 4 :: _ => 10
  | EFeed _ _, 0 :: n :: _ => if 0 <? n then 11 else 22
  | EMonRecv, 1 :: _ => 12
  | EMonRecv, _ => 13
  | EMon _, 4 :: _ => 14
  | EMon _, [3; _; _; r; _] => if r =? 1 then 15 else 16
  | EOpen _, [1] => 17
  | EOpen _, [3] => 18
  | EOpen _, _ => if (2 <=? Z.of_nat (gen s)) then 19 else 23
  | EReadErr _ k, _ => match k with EofRaw => 24 | EofTte => 25 | ErrRaw _ => 26 | ErrTte _ => 27 | ClosedErr => 28 end
  | _, _ => 29
  end.

Fixpoint judge_steps (pol : policy) (s : st) (steps : list tok) (mask : Z) : Z :=
  match steps with
  | [] => mask
  | t :: rest =>
    let f := as_list t in
    match ev_of f with
    | None => -1
    | Some e =>
      let enabled := as_int (nth_tok 5 f) in
      let obs := as_ints (nth_tok 6 f) in
      let osnap := as_ints (nth_tok 7 f) in
      match step Fixed pol s e with
      | None => if enabled =? 0 then judge_steps pol s rest (Z.lor mask (Z.shiftl 1 20)) else -1
      | Some (s', o) =>
        if (enabled =? 1) && zlist_eqb o obs
           && (match osnap with [] => true | _ => zlist_eqb (snap Fixed s') osnap end)
        then judge_steps pol s' rest (Z.lor mask (Z.shiftl 1 (branch s e o)))
        else -1
      end
    end
  end.

Definition judge_case (t : tok) : Z :=
  let f := as_list t in
  let monitor := as_int (nth_tok 0 f) =? 1 in
  let preopen := as_int (nth_tok 1 f) =? 1 in
  let pol := {| p_max := as_int (nth_tok 2 f); p_init := as_int (nth_tok 3 f); p_maxw := as_int (nth_tok 4 f) |} in
  judge_steps pol (init monitor preopen) (as_list (nth_tok 5 f)) 0.

Definition judge (cases : list tok) : list Z := map judge_case cases.
