(** Judge for C03: replays observed calls through generated clients and processors on Model/GenCall.v.
    One judged case = one session (one program, one client service, one server service, one transport):
      TL [ env ; services ; TL calls ]
    env       as in Judge/JThriftBin.v (declarations; kinds 3 / 4 are the args / result structs of the methods)
    services  TL of TL [TI name; TL [] | TL [TI parent]; TL methods]
              method TL [TB go name; TB wire name; TI oneway; TI args struct; TI result struct;
                         TL [] | TL [type]; TL throws (fields)]
    call      TL [ TI client service; TI server service; TB go method; TI registry (1: replies are dispatched by op id);
                   TL request headers (TL [TB k; TB v], in the order seen on the wire);
                   TL argument slots (TL [] nil | TL [value]);
                   scripted handler outcome  TL [TI 0; slot] | TL [TI 1; TI exc; value; TB text] | TL [TI 2; TI kind; TB text] | TL [TI 3; TB text];
                   observed handler log      TL of TL [TB wire name; TL slots];
                   observed client outcome   TL [TI 0; slot] | TL [TI 1; TI exc; value] | TL [TI 2; TI kind; TB text]
                                             | TL [TI 3; TI kind; TB text] | TL [TI 4] (timed out) | TL [TI 5] (other error);
                   TI number of reply frames seen;
                   TL [] | TL [TB request payload]   (binary and compact protocols: the request as it travelled, without the frame size);
                   TL [] | TL [TB reply payload]     (binary and compact protocols: the reply as it travelled);
                   TL [] | TL [TL [] | TL [TB name]; TL [] | TL [TI type]]   tampering applied to the reply before the client saw it;
                   TI fuel;
                   TI protocol ]   0 TBinaryProtocol, 1 TCompactProtocol (the model runs over [compact_codec]), 2 TJSONProtocol
                                   (no JSON codec in the model: judged at the level of values, over [bin_codec], no bytes)
    result    -(i+1) if call i is not reproduced by the model, else the union of the branch tags:
              1 value returned, 2 declared exception, 4 undeclared error -> INTERNAL_ERROR, 8 TApplicationException passed on,
              16 oneway without reply, 32 oneway with an error reply, 64 unknown method, 128 reply rejected (name / type),
              256 inherited method, 512 RESPONSE_TOO_LARGE mapping, 1024 byte-level replay of request and reply,
              2048 reply not delivered (timeout), 4096 arguments refused by the generated Write (nothing sent),
              8192 the call was replayed over the compact codec. *)
From Coq Require Import ZArith List Bool.
From FV Require Import Base.Res Base.Bytes Model.Headers Model.Receivers Model.ThriftBin Model.ThriftCompact Model.GenCall
     Judge.Wire Judge.JThriftBin.
Import ListNotations.
Open Scope Z_scope.

Definition parse_slot (t : tok) : option val := match t with TL [x] => Some (parse_val x) | _ => None end.
Definition parse_slots (t : tok) : list (option val) := map parse_slot (as_list t).

Definition parse_method (t : tok) : method :=
  let f := as_list t in
  mkMethod (as_bytes (nth_tok 0 f)) (as_bytes (nth_tok 1 f)) (negb (as_int (nth_tok 2 f) =? 0))
           (as_int (nth_tok 3 f)) (as_int (nth_tok 4 f))
           (match nth_tok 5 f with TL [x] => Some (parse_ty x) | _ => None end)
           (map parse_field (as_list (nth_tok 6 f))).

Definition parse_service (t : tok) : name * service :=
  let f := as_list t in
  (as_int (nth_tok 0 f),
   mkService (match nth_tok 1 f with TL [TI p] => Some p | _ => None end)
             (map parse_method (as_list (nth_tok 2 f)))).

Definition parse_houtcome (t : tok) : houtcome :=
  let f := as_list t in
  let k := as_int (nth_tok 0 f) in
  if k =? 0 then HRet (parse_slot (nth_tok 1 f))
  else if k =? 1 then HDeclared (as_int (nth_tok 1 f)) (parse_val (nth_tok 2 f)) (as_bytes (nth_tok 3 f))
  else if k =? 2 then HAppExc (as_int (nth_tok 1 f)) (as_bytes (nth_tok 2 f))
  else HOther (as_bytes (nth_tok 1 f)).

Definition slot_eqm (a b : option val) : bool :=
  match a, b with
  | Some x, Some y => veqm x y
  | None, None => true
  | _, _ => false
  end.
Fixpoint slots_eqm (a b : list (option val)) : bool :=
  match a, b with
  | [], [] => true
  | x :: a', y :: b' => slot_eqm x y && slots_eqm a' b'
  | _, _ => false
  end.

(** model outcome against the observed one *)
Definition coutcome_matches (c : coutcome) (t : tok) : bool :=
  let f := as_list t in
  let k := as_int (nth_tok 0 f) in
  match c with
  | CRet ov => (k =? 0) && slot_eqm ov (parse_slot (nth_tok 1 f))
  | CDeclared n v => (k =? 1) && (n =? as_int (nth_tok 1 f)) && veqm v (parse_val (nth_tok 2 f))
  | CAppExc kind text => (k =? 2) && (kind =? as_int (nth_tok 1 f)) && ThriftBin.bytes_eqb text (as_bytes (nth_tok 2 f))
  | CTransport kind text => (k =? 3) && (kind =? as_int (nth_tok 1 f)) && ThriftBin.bytes_eqb text (as_bytes (nth_tok 2 f))
  | CTimeout => k =? 4
  | CErr _ => k =? 5
  end.

Fixpoint log_matches (l : hlog) (obs : list tok) : bool :=
  match l, obs with
  | [], [] => true
  | (w, slots) :: l', o :: obs' =>
    let f := as_list o in
    ThriftBin.bytes_eqb w (as_bytes (nth_tok 0 f)) && slots_eqm slots (parse_slots (nth_tok 1 f)) && log_matches l' obs'
  | _, _ => false
  end.

(** the harness' tampering, on the model's reply: rewrite name / type of the message header *)
Definition tamper (cd : codec) (t : tok) (reply : bytes) : res bytes :=
  match t with
  | TL [tn; tty] =>
    do (hs, r1) <- read_header reply;
    do (nm, typ, seq, r2) <- cd_msg_dec cd r1;
    let nm' := match tn with TL [TB x] => x | _ => nm end in
    let typ' := match tty with TL [TI x] => x | _ => typ end in
    Ok (marshal hs ++ cd_msg_enc cd nm' typ' seq ++ r2)
  | _ => Ok reply
  end.
Definition tampered (t : tok) : bool := match t with TL [_; _] => true | _ => false end.

Definition branch_tag (e : env) (m : method) (own : bool) (o : houtcome) (c : coutcome) (out : option bytes) (known : bool) : Z :=
  (if negb known then 64 else
   if m_oneway m then (match out with None => 16 | Some _ => 32 end) else
   match o with
   | HRet _ => 1
   | HDeclared n _ _ => match find_throw e n (m_throws m) with Some _ => 2 | None => 4 end
   | HAppExc k _ => if k =? AE_RESPONSE_TOO_LARGE then 512 else 8
   | HOther _ => 4
   end)
  + (if own then 0 else 256)
  + (match c with CTimeout => 2048 | CErr _ => 4096 | _ => 0 end).

Definition judge_call (e : env) (ss : services) (c : tok) : Z :=
  let f := as_list c in
  let cs := as_int (nth_tok 0 f) in
  let srv := as_int (nth_tok 1 f) in
  let go := as_bytes (nth_tok 2 f) in
  let registry := negb (as_int (nth_tok 3 f) =? 0) in
  let hdrs := as_pairs (nth_tok 4 f) in
  let args := parse_slots (nth_tok 5 f) in
  let o := parse_houtcome (nth_tok 6 f) in
  let olog := as_list (nth_tok 7 f) in
  let oclient := nth_tok 8 f in
  let oreplies := as_int (nth_tok 9 f) in
  let oreq := nth_tok 10 f in
  let orep := nth_tok 11 f in
  let tam := nth_tok 12 f in
  let fuel := Z.to_nat (as_int (nth_tok 13 f)) in
  let proto := as_int (nth_tok 14 f) in
  let cd := if proto =? 1 then compact_codec else bin_codec in
  let sfuel := S (length ss) in
  let h : handler := fun _ _ => o in
  match client_resolve sfuel ss cs go with
  | None => -1
  | Some m =>
    let pm := proc_entries sfuel ss srv in
    let own := match slookup ss cs with
               | Some sv => existsb (fun x => ThriftBin.bytes_eqb (m_go x) go) (s_methods sv)
               | None => false
               end in
    let known := match plookup (m_wire m) pm with Some _ => true | None => false end in
    (* 1. the model end to end *)
    let end_to_end :=
        if tampered tam then
          match client_prepare_c cd e m hdrs args with
          | Ok req =>
            match server_process_c cd fuel e pm h req with
            | Ok (Some reply, log) =>
              match tamper cd tam reply with
              | Ok reply' =>
                if coutcome_matches (process_reply_c cd fuel e m reply') oclient && log_matches log olog && (oreplies =? 1)
                then 128 else -1
              | _ => -1
              end
            | _ => -1
            end
          | _ => -1
          end
        else
          match rpc_call_c cd fuel e pm h registry m hdrs args with
          | Ok (cm, log, out) =>
            if coutcome_matches cm oclient && log_matches log olog
               && (oreplies =? match out with Some _ => 1 | None => 0 end)
            then branch_tag e m own o cm out known else -1
          | _ => -1
          end in
    if end_to_end <? 0 then -1 else
    (* 2. byte level (binary and compact protocols): the server model on the request that travelled, the client
          model on the reply that travelled *)
    let r := match oreq with
    | TL [TB req] =>
      match server_process_c cd fuel e pm h req with
      | Ok (out, log) =>
        if negb (log_matches log olog) then -1 else
        match out, orep with
        | None, TL [] => end_to_end + 1024
        | Some reply, TL [TB obs] =>
          if negb (zlen reply =? zlen obs) then -1 else
          match (if tampered tam then tamper cd tam obs else Ok obs) with
          | Ok obs' =>
            if m_oneway m then end_to_end + 1024
            else if coutcome_matches (if reply_reaches_caller registry hdrs obs'
                                      then process_reply_c cd fuel e m obs' else CTimeout) oclient
            then end_to_end + 1024 else -1
          | _ => -1
          end
        | _, _ => -1
        end
      | _ => -1
      end
    | _ => end_to_end
    end in
    if r <? 0 then -1 else r + (if proto =? 1 then 8192 else 0)
  end.

Fixpoint judge_calls (e : env) (ss : services) (cs : list tok) (i : Z) (acc : Z) : Z :=
  match cs with
  | [] => acc
  | c :: r =>
    let v := judge_call e ss c in
    if v <? 0 then - (i + 1) else judge_calls e ss r (i + 1) (Z.lor acc v)
  end.

Definition judge_case (c : tok) : Z :=
  let f := as_list c in
  let e := map parse_decl (as_list (nth_tok 0 f)) in
  let ss := map parse_service (as_list (nth_tok 1 f)) in
  judge_calls e ss (as_list (nth_tok 2 f)) 0 0.

Definition judge (cases : list tok) : list Z := map judge_case cases.
