(** Judge for the receiving entry points (C05). *)
From Coq Require Import ZArith List Bool.
From FV Require Import Base.Res Base.Bytes Base.GoSem Model.Headers Model.Receivers Judge.Wire.
Import ListNotations.
Open Scope Z_scope.

Definition trivial_thrift (_ : bytes) : res unit := Ok tt.

Definition step_tag (s : step_result) : Z :=
  match s with
  | Continue Handled => 0
  | Continue (Rejected e) => errk_code e
  | Exit => 50
  | Crash => 60
  end.

Definition judge_case (t : tok) : Z :=
  let f := as_list t in
  let kind := as_int (nth_tok 0 f) in
  if kind =? 8 then
    let b := as_bytes (nth_tok 1 f) in
    let ocode := as_int (nth_tok 2 f) in
    let c := res_code (execute_frame b) in
    if c =? ocode then 8000 + c else -1
  else if kind =? 9 then
    let b := as_bytes (nth_tok 1 f) in
    let ocode := as_int (nth_tok 2 f) in
    let c := res_code (read_request_header b) in
    if c =? ocode then 9000 + c else -1
  else if kind =? 10 then
    let rx := as_int (nth_tok 1 f) in
    let b := as_bytes (nth_tok 2 f) in
    let good := as_int (nth_tok 3 f) in
    let short := as_int (nth_tok 4 f) in   (* HTTP: status was 400 *)
    let s := if rx =? 1 then nats_client_body b
             else if rx =? 2 then nats_server_body trivial_thrift b
             else if (rx =? 3) || (rx =? 4) then scope_body trivial_thrift b
             else http_body trivial_thrift b in
    match s with
    | Continue o =>
      let http_ok := if rx =? 5
                     then Bool.eqb (short =? 1)
                            (match read_full b 4 with Ok _ => false | _ => true end)
                     else true in
      if (good =? 1) && http_ok then 10000 + 100 * rx + step_tag s else -1
    | _ => -1
    end
  else if kind =? 11 then
    let b := as_bytes (nth_tok 1 f) in
    let oclosed := as_int (nth_tok 2 f) in
    match adapter_read_loop (S (length b)) b with
    | ClosedClean => if oclosed =? 0 then 11000 else -1
    | ClosedWith e => if oclosed =? errk_code e then 11000 + errk_code e else -1
    | _ => -1
    end
  else -1.

Definition judge (cases : list tok) : list Z := map judge_case cases.
