(** Judge for the IDL parser (C10): runs Model/Parser.v (generated grammar + pigeon interpreter +
    transcribed actions) on the very text the real parser was given and compares the canonical
    dump of the result (parse tree, or the deduplicated error list) with the observation. *)
From Coq Require Import ZArith String List Bool.
From FV Require Import Model.Peg Model.ParserStrings Model.ParserAst Model.ParserActions Model.Parser
     Model.ParserFiles Judge.Wire.
From FV Require Model.CompilerValidate.
Import ListNotations.
Open Scope Z_scope.

Fixpoint tok_eqb (a b : tok) {struct a} : bool :=
  match a, b with
  | TI x, TI y => x =? y
  | TB x, TB y => zeqb_list x y
  | TL x, TL y =>
    (fix go (x y : list tok) {struct x} : bool :=
       match x, y with
       | [], [] => true
       | p :: x', q :: y' => tok_eqb p q && go x' y'
       | _, _ => false
       end) x y
  | _, _ => false
  end.

(** ** canonical dump (must agree with harness/cmd/vh_c10/main.go) *)
Definition enc_z (z : Z) : tok :=
  let a := Z.abs z in TL [TI (if z <? 0 then 1 else 0); TI (a / 4294967296); TI (a mod 4294967296)].
Definition enc_opt {X} (f : X -> tok) (o : option X) : tok :=
  match o with None => TL [] | Some x => TL [f x] end.
Definition enc_anns (a : annotations) : tok := TL (map (fun p => TL [TB (fst p); TB (snd p)]) a).
Definition enc_comment (c : comment) : tok := enc_opt (fun l => TL (map TB l)) c.
Fixpoint enc_type (t : ptype) : tok :=
  match t with
  | PType n k v a =>
    TL [TB n; match k with None => TL [] | Some x => TL [enc_type x] end;
        match v with None => TL [] | Some x => TL [enc_type x] end; enc_anns a]
  end.
Fixpoint enc_value (v : cvalue) : tok :=
  match v with
  | CStr s => TL [TI 0; TB s]
  | CBool b => TL [TI 1; TI (if b then 1 else 0)]
  | CInt z => TL [TI 2; enc_z z]
  | CDouble b => TL [TI 3; TI (b / 4294967296); TI (b mod 4294967296)]
  | CList l => TL [TI 4; TL (map enc_value l)]
  | CMap l => TL [TI 5; TL (map (fun kv => TL [enc_value (fst kv); enc_value (snd kv)]) l)]
  | CIdent s => TL [TI 6; TB s]
  | COther => TL [TI 7]
  end.
Definition enc_field (f : field) : tok :=
  TL [enc_comment (f_comment f); enc_z (f_id f); TB (f_name f); TI (f_mod f); enc_type (f_type f);
      enc_opt enc_value (f_default f); enc_anns (f_anns f)].
Definition enc_struct (s : struct) : tok :=
  TL [enc_comment (s_comment s); TB (s_name s); TL (map enc_field (s_fields s)); TI (s_kind s); enc_anns (s_anns s)].
Definition enc_frugal (f : frugal) : tok :=
  TL [ TL (map (fun i => TL [TB (i_name i); TB (i_value i); enc_anns (i_anns i)]) (fr_includes f));
       TL (map (fun n => TL [TB (n_scope n); TB (n_value n); enc_anns (n_anns n)]) (fr_namespaces f));
       TL (map (fun t => TL [enc_comment (td_comment t); TB (td_name t); enc_type (td_type t); enc_anns (td_anns t)])
               (fr_typedefs f));
       TL (map (fun c => TL [enc_comment (c_comment c); TB (c_name c); enc_type (c_type c); enc_value (c_value c);
                             enc_anns (c_anns c)]) (fr_constants f));
       TL (map (fun e => TL [enc_comment (en_comment e); TB (en_name e);
                             TL (map (fun v => TL [enc_comment (ev_comment v); TB (ev_name v); enc_z (ev_value v);
                                                   enc_anns (ev_anns v)]) (en_values e));
                             enc_anns (en_anns e)]) (fr_enums f));
       TL (map enc_struct (fr_structs f));
       TL (map enc_struct (fr_exceptions f));
       TL (map enc_struct (fr_unions f));
       TL (map (fun s => TL [enc_comment (sv_comment s); TB (sv_name s); TB (sv_extends s);
                             TL (map (fun m => TL [enc_comment (m_comment m); TB (m_name m);
                                                   TI (if m_oneway m then 1 else 0); enc_opt enc_type (m_return m);
                                                   TL (map enc_field (m_args m)); TL (map enc_field (m_throws m));
                                                   enc_anns (m_anns m)]) (sv_methods s));
                             enc_anns (sv_anns s)]) (fr_services f));
       TL (map (fun s => TL [enc_comment (sc_comment s); TB (sc_name s);
                             TL [TB (p_string (sc_prefix s)); TL (map TB (p_vars (sc_prefix s)))];
                             TL (map (fun o => TL [enc_comment (o_comment o); TB (o_name o); enc_type (o_type o);
                                                   enc_anns (o_anns o)]) (sc_ops s));
                             enc_anns (sc_anns s)]) (fr_scopes f)) ].

(** error kinds: 1 invalid encoding, 2 no match, 3 syntax error, 4 end of service, 5 end of scope,
    6 invalid prefix variable (payload), 7/8 ParseInt syntax/range, 9/10 ParseFloat syntax/range,
    11 Unquote, 12 unknown statement, 13 panic, 14 enum value after the largest integer (payload: enum and
    value names) *)
Definition enc_kind (k : perr_kind aerr) : Z * bytes :=
  match k with
  | KInvalidEncoding => (1, [])
  | KNoMatch => (2, [])
  | KAction ESyntaxError => (3, [])
  | KAction EEndOfService => (4, [])
  | KAction EEndOfScope => (5, [])
  | KAction (EBadPrefixVar v) => (6, v)
  | KAction (EParseInt NumSyntax) => (7, [])
  | KAction (EParseInt NumRange) => (8, [])
  | KAction (EParseFloat NumSyntax) => (9, [])
  | KAction (EParseFloat NumRange) => (10, [])
  | KAction EUnquote => (11, [])
  | KAction EUnknownStatement => (12, [])
  | KAction (EEnumOverflow e v) => (14, e ++ [32] ++ v)
  | KPanic => (13, [])
  end.
Definition enc_err (e : Z * option nat * perr_kind aerr) : tok :=
  let '(o, r, k) := e in
  let '(c, p) := enc_kind k in
  TL [TI o; TI (match r with Some i => Z.of_nat i | None => -1 end); TI c; TB p].

(** errList.dedupe: first occurrence of every distinct message *)
Fixpoint dedupe (l : list tok) (seen : list tok) : list tok :=
  match l with
  | [] => []
  | x :: t => if existsb (tok_eqb x) seen then dedupe t seen else x :: dedupe t (x :: seen)
  end.

Definition first_err_kind (es : list (Z * option nat * perr_kind aerr)) : Z :=
  match es with e :: _ => fst (enc_kind (snd e)) | [] => 0 end.

Definition decl_count (f : frugal) : Z :=
  Z.of_nat (length (fr_includes f) + length (fr_namespaces f) + length (fr_typedefs f) + length (fr_constants f)
            + length (fr_enums f) + length (fr_structs f) + length (fr_exceptions f) + length (fr_unions f)
            + length (fr_services f) + length (fr_scopes f)).

(** case kind 1: [1; text; observed code (0 ok / 1 error); observed tree or error list]
    tags: ok -> 1000 + min(#declarations, 99); error -> 2000 + kind of the first error *)
Definition judge_parse (f : list tok) : Z :=
  let text := as_bytes (nth_tok 1 f) in
  let ocode := as_int (nth_tok 2 f) in
  let obs := nth_tok 3 f in
  match parse_idl text with
  | POk fr => if (ocode =? 0) && tok_eqb (enc_frugal fr) obs then 1000 + Z.min (decl_count fr) 99 else -1
  | PErr es =>
    if (ocode =? 1) && tok_eqb (TL (dedupe (map enc_err es) [])) obs then 2000 + first_err_kind es else -1
  | PWeird => -1
  | PNoFuel => -1
  end.

(** case kind 2: [2; [[path; content]...]; root path; observed code (0 ok / 1 error / 100 panic); observed tree;
                  observed error text]
    tree = [name; parse tree; [[include key; tree]...]] with keys in first-occurrence order
    tags: ok -> 3000 + min(#files in the tree, 99); error -> [files_err_tag] of the model's diagnostic (4000 + class,
    or 4200 + class of the wrapped message when the error came up through an include; [err_class]: which
    check of validate / parseFrugal fired; 50 = a syntax error); panic -> 4100 *)
Fixpoint enc_ftree (t : ftree) : tok :=
  match t with
  | FTree name f incs =>
    TL [TB name; enc_frugal f;
        TL ((fix go (l : list (bytes * ftree)) : list tok :=
               match l with
               | [] => []
               | (k, sub) :: r => TL [TB k; enc_ftree sub] :: go r
               end) incs)]
  end.

Fixpoint ftree_size (t : ftree) : Z :=
  match t with
  | FTree _ _ incs =>
    1 + (fix go (l : list (bytes * ftree)) : Z :=
           match l with [] => 0 | (_, sub) :: r => ftree_size sub + go r end) incs
  end.

(** ** error classes (tags): which check of the model fired, read off the message prefix *)
Definition pre (m : bytes) (s : string) : bool := has_prefix (bytes_of_string s) m.
Definition err_class (m : bytes) : Z :=
  if pre m "Duplicate service" then 1 else if pre m "Services " then 2
  else if pre m "Duplicate method" then 3 else if pre m "Methods " then 4
  else if pre m "Duplicate scope" then 5 else if pre m "Scopes " then 6
  else if pre m "Duplicate operation" then 7 else if pre m "Operations " then 8
  else if pre m """vendor""" then 9
  else if pre m "Duplicate include" then 10
  else if pre m "Invalid type " then 11
  else if pre m "Referenced constant" then 12
  else if pre m "Include " then (if has_suffix (bytes_of_string " not found") m then 13 else 40)
  else if pre m "Invalid constant name" then 14
  else if pre m "Invalid alias" then 15
  else if pre m "Circular typedef" then 16
  else if pre m "Duplicate field id" then 17
  else if pre m "Duplicate field name" then 18
  else if pre m "Invalid return type" then 19
  else if pre m "Invalid argument type" then 20
  else if pre m "Invalid exception type" then (if has_suffix (bytes_of_string "not an exception") m then 22 else 21)
  else if pre m "Invalid extends" then 23
  else if pre m "Circular extends" then 24
  else if pre m "Oneway method" then 25
  else if pre m "Void method" then 26
  else if pre m "Invalid operation type" then 27
  else if pre m "Invalid value" then 28
  else if pre m "Duplicate prefix variable" then 29
  else if pre m "open " then 41
  else if pre m "Circular include" then 42
  else if pre m "Bad include name" then 43
  else if pre m "Invalid file" then 44
  else if pre m "Duplicate file name" then 45
  else 50.

(** "Include v: m" (parseFrugal wraps the error of an included file): the wrapped message *)
Fixpoint after_colon_sp (m : bytes) : option bytes :=
  match m with
  | 58 :: ((32 :: t) as r) => Some t
  | _ :: t => after_colon_sp t
  | [] => None
  end.
Fixpoint inner_msg (fuel : nat) (m : bytes) : bytes :=
  match fuel with
  | O => m
  | S n => if pre m "Include " then match after_colon_sp m with Some t => inner_msg n t | None => m end else m
  end.
(** 4000 + class for an error of the root file, 4200 + class of the innermost message for an error
    that came up through includes ([err_class] of the empty message, a syntax error, is 50) *)
Definition files_err_tag (m : bytes) : Z :=
  let i := inner_msg 8 m in
  if beqb i m then 4000 + err_class m else 4200 + err_class i.

Definition to_path (b : bytes) : path := clean (split_on 47 b []).

Definition judge_files (f : list tok) : Z :=
  let files := map (fun t => match t with TL [TB p; TB c] => (to_path p, c) | _ => ([], []) end)
                   (as_list (nth_tok 1 f)) in
  let root := to_path (as_bytes (nth_tok 2 f)) in
  let ocode := as_int (nth_tok 3 f) in
  let obs := nth_tok 4 f in
  let omsg := as_bytes (nth_tok 5 f) in
  match parse_program_checked files root with
  | None => -1                          (* no verdict of the PEG interpreter on some text: never agreement *)
  | Some (false, _) => -1               (* a parsed name the grammar cannot produce: outside the theorems *)
  | Some (true, r) =>
    (* [fres_of r] = [parse_program files root] (Proofs/ParserFilesProofs.v parse_program_checked_total) *)
    match fres_of r with
    | FOk t => if (ocode =? 0) && tok_eqb (enc_ftree t) obs then 3000 + Z.min (ftree_size t) 99 else -1
    | FErr => if ocode =? 1
              then match r with
                   | CompilerValidate.PErr m =>
                     (* a diagnostic of validate (classes below 40, at the root or wrapped by "Include v: ") is
                        compared byte for byte with the text ParseFrugal returned; syntax errors (the model of
                        ParseFrugal carries no text for them) and messages that name a path of the host are not *)
                     let tag := files_err_tag m in
                     if (tag mod 100 <? 40) && negb (beqb m omsg) then -1 else tag
                   | _ => 4000
                   end
              else -1
    | FPanic => if ocode =? 100 then 4100 else -1
    | FFuel => -1                       (* no verdict of the model is never agreement *)
    end
  end.

Definition judge_case (t : tok) : Z :=
  let f := as_list t in
  let kind := as_int (nth_tok 0 f) in
  if kind =? 1 then judge_parse f
  else if kind =? 2 then judge_files f
  else -1.

Definition judge (cases : list tok) : list Z := map judge_case cases.
