(** Judge for the IDL audit (C18): replays each observed audit on Model/Audit.v.
    A case is [TL [old program; new program; observed diagnostics; observed failed (0/1)]];
    the observed diagnostics are [(level, message)] pairs (level 1 = ERROR, 2 = WARNING), compared
    with the model's as multisets.  Result: -1 = the model does not reproduce the observation
    (or ran out of fuel), otherwise a bit mask of the rules (d_rule) the model fired. *)
From Coq Require Import ZArith List Bool.
From FV Require Import Base.Bytes Model.Audit Judge.Wire.
Import ListNotations.
Open Scope Z_scope.

Fixpoint dec_ty (fuel : nat) (t : tok) : ty :=
  match fuel with
  | O => TNil
  | S f =>
    match t with
    | TL [TB n; k; v] => Ty n (dec_ty f k) (dec_ty f v)
    | _ => TNil
    end
  end.
Definition dty := dec_ty 64.

Definition dec_mod (z : Z) : modifier :=
  if z =? 0 then Required else if z =? 1 then Optional else Default.

Definition dec_field (t : tok) : field :=
  match t with
  | TL [TI id; TB name; TI m; typ; TB dflt] => mkField id name (dec_mod m) (dty typ) dflt
  | _ => mkField 0 [] Default TNil []
  end.
Definition dec_fields (t : tok) : list field := map dec_field (as_list t).

Definition dec_struct (t : tok) : strct :=
  match t with
  | TL [TB name; fs] => mkStruct name (dec_fields fs)
  | _ => mkStruct [] []
  end.
Definition dec_enumv (t : tok) : enumv :=
  match t with TL [TB name; TI v] => mkEnumV name v | _ => mkEnumV [] 0 end.
Definition dec_enum (t : tok) : enum :=
  match t with TL [TB name; vs] => mkEnum name (map dec_enumv (as_list vs)) | _ => mkEnum [] [] end.
Definition dec_const (t : tok) : const :=
  match t with TL [TB name; typ; TB v] => mkConst name (dty typ) v | _ => mkConst [] TNil [] end.
Definition dec_ns (t : tok) : namespace :=
  match t with TL [TB s; TB v] => mkNs s v | _ => mkNs [] [] end.
Definition dec_method (t : tok) : method :=
  match t with
  | TL [TB name; TI ow; ret; args; excs] =>
    mkMethod name (negb (ow =? 0)) (dty ret) (dec_fields args) (dec_fields excs)
  | _ => mkMethod [] false TNil [] []
  end.
Definition dec_service (t : tok) : service :=
  match t with
  | TL [TB name; TB ext; ms] => mkService name ext (map dec_method (as_list ms))
  | _ => mkService [] [] []
  end.
Definition dec_op (t : tok) : operation :=
  match t with TL [TB name; typ] => mkOp name (dty typ) | _ => mkOp [] TNil end.
Definition dec_scope (t : tok) : scope :=
  match t with
  | TL [TB name; TB pre; ops] => mkScope name pre (map dec_op (as_list ops))
  | _ => mkScope [] [] []
  end.
Definition dec_typedef (t : tok) : bytes * ty :=
  match t with TL [TB name; typ] => (name, dty typ) | _ => ([], TNil) end.
Definition dec_include (t : tok) : bytes * nat :=
  match t with TL [TB name; TI i] => (name, Z.to_nat i) | _ => ([], O) end.
Definition dec_file (t : tok) : file :=
  match t with
  | TL [TB name; tds; incs] => mkFile name (map dec_typedef (as_list tds)) (map dec_include (as_list incs))
  | _ => mkFile [] [] []
  end.
Definition dec_program (t : tok) : program :=
  match t with
  | TL [files; scopes; nss; consts; enums; structs; excs; unions; services] =>
    mkProgram (map dec_file (as_list files)) (map dec_scope (as_list scopes)) (map dec_ns (as_list nss))
              (map dec_const (as_list consts)) (map dec_enum (as_list enums))
              (map dec_struct (as_list structs)) (map dec_struct (as_list excs))
              (map dec_struct (as_list unions)) (map dec_service (as_list services))
  | _ => mkProgram [] [] [] [] [] [] [] [] []
  end.

(** multiset comparison of diagnostics *)
Definition lvl_code (l : level) : Z := match l with LError => 1 | LWarning => 2 | LAbort => 3 end.
Definition same (d : diag) (o : Z * bytes) : bool := (lvl_code (d_level d) =? fst o) && beqb (d_msg d) (snd o).
Fixpoint remove_one (d : diag) (l : list (Z * bytes)) : option (list (Z * bytes)) :=
  match l with
  | [] => None
  | o :: r => if same d o then Some r
              else match remove_one d r with Some r' => Some (o :: r') | None => None end
  end.
Fixpoint multiset_eq (m : list diag) (obs : list (Z * bytes)) : bool :=
  match m with
  | [] => match obs with [] => true | _ => false end
  | d :: m' => match remove_one d obs with Some obs' => multiset_eq m' obs' | None => false end
  end.

Definition dec_obs (t : tok) : Z * bytes :=
  match t with TL [TI l; TB m] => (l, m) | _ => (0, []) end.

Definition pow2 (z : Z) : Z := Z.shiftl 1 z.
Definition rule_mask (l : list diag) : Z := fold_right (fun d a => Z.lor (pow2 (d_rule d)) a) 0 l.

Definition judge_fuel : nat := 200.

Definition judge_case (t : tok) : Z :=
  match t with
  | TL [po; pn; obs; TI failed] =>
    let po := dec_program po in
    let pn := dec_program pn in
    let ds := audit judge_fuel po pn in
    if converged ds
       && multiset_eq ds (map dec_obs (as_list obs))
       && Bool.eqb (has_error ds) (negb (failed =? 0))
    then rule_mask ds
    else if converged ds && has_error ds && (failed =? 0)
    then -2   (* by c18_fails_iff_breaking the pair is Breaking, the auditor passed it: a missed breaking change *)
    else if converged ds && negb (has_error ds) && negb (failed =? 0)
    then -3   (* the pair is not Breaking, the auditor failed it: a false alarm *)
    else -1
  | _ => -1
  end.

Definition judge (cases : list tok) : list Z := map judge_case cases.
