(** Judge for C03's bursts: N calls in flight at once through one generated client, replayed on the
    composition Model/GenCallConc.v (the definitions c03_concurrent_calls_independent is about).
    One judged case = one burst round of one session:
      TL [ env ; services ; TL calls ; TL reply payloads ]
    env, services, call   as in Judge/JGenCall.v; the "observed" fields of a call are what the caller and the
                          handler saw IN THE BURST, the request / reply payloads the frames of this call that
                          travelled during the burst (found by their op id)
    reply payloads        TB, every reply frame that travelled during the round, without the frame size
    result  -(i+1)   call i, judged as a call made alone ([JGenCall.judge_call]: [rpc_call_c] on its arguments and
                     outcome, [server_process_c] / [process_reply_c] on its bytes), is not what was observed in
                     the burst, i.e. the conclusion of the theorem fails on this run;
            -1000    the case is malformed (a method the client does not resolve);
            -1001    the op ids of the calls are not pairwise distinct ([call_op]);
            -1002    [delivered_aloneb] fails for a call;
            -1003    a reply frame travelled that is not the server model's reply to one of the calls
                     (its op id by [execute_frame] / [reply_frame], its length by [server_reply] -- the length not
                     under TJSONProtocol, for which the model has no codec): [net_okb] fails;
            otherwise the union of the calls' tags + 16384 (transport with a registry: hypotheses checked)
            or + 32768 (transport that hands replies over directly: HTTP, in-memory). *)
From Coq Require Import ZArith List Bool.
From FV Require Import Base.Res Base.Bytes Model.Headers Model.Receivers Model.ThriftBin Model.ThriftCompact Model.GenCall
     Model.Registry Model.GenCallConc Judge.Wire Judge.JThriftBin Judge.JGenCall.
Import ListNotations.
Open Scope Z_scope.

(** the call of a call token, as a [ccall] *)
Definition parse_ccall (ss : services) (c : tok) : option ccall :=
  let f := as_list c in
  let cs := as_int (nth_tok 0 f) in
  let go := as_bytes (nth_tok 2 f) in
  let o := parse_houtcome (nth_tok 6 f) in
  match client_resolve (S (length ss)) ss cs go with
  | Some m => Some (mkCcall m (as_pairs (nth_tok 4 f)) (parse_slots (nth_tok 5 f)) (fun _ _ => o))
  | None => None
  end.

Fixpoint all_some {A} (l : list (option A)) : option (list A) :=
  match l with
  | [] => Some []
  | Some x :: r => match all_some r with Some xs => Some (x :: xs) | None => None end
  | None :: _ => None
  end.

Fixpoint distinctb (l : list Z) : bool :=
  match l with
  | [] => true
  | x :: r => negb (existsb (Z.eqb x) r) && distinctb r
  end.

Fixpoint zmax_list (l : list Z) (acc : Z) : Z :=
  match l with [] => acc | x :: r => zmax_list r (Z.max acc x) end.

Definition judge_burst (c : tok) : Z :=
  let f := as_list c in
  let e := map parse_decl (as_list (nth_tok 0 f)) in
  let ss := map parse_service (as_list (nth_tok 1 f)) in
  let ctoks := as_list (nth_tok 2 f) in
  let replies := map as_bytes (as_list (nth_tok 3 f)) in
  (* the conclusion: every caller saw what its call gives when made alone *)
  let percall := judge_calls e ss ctoks 0 0 in
  if percall <? 0 then percall else
  match ctoks, all_some (map (parse_ccall ss) ctoks) with
  | c0 :: _, Some cl =>
    let f0 := as_list c0 in
    let registry := negb (as_int (nth_tok 3 f0) =? 0) in
    if negb registry then percall + 32768 else
    let srv := as_int (nth_tok 1 f0) in
    let proto := as_int (nth_tok 14 f0) in
    let cd := if proto =? 1 then compact_codec else bin_codec in
    let fuel := Z.to_nat (zmax_list (map (fun t => as_int (nth_tok 13 (as_list t))) ctoks) 0) in
    let pm := proc_entries (S (length ss)) ss srv in
    let dflt := mkCcall (mkMethod [] [] false 0 0 None []) [] [] (fun _ _ => HRet None) in
    let calls := fun i => nth i cl dflt in
    let n := length cl in
    (* the hypotheses *)
    if negb (distinctb (map (call_op calls) (seq 0 n))) then -1001 else
    if negb (all_below n (delivered_aloneb cd fuel e pm calls)) then -1002 else
    (* per call: the op id Execute reads from the server model's reply, and the reply's length *)
    let rinfo := map (fun j => match reply_frame cd fuel e pm calls j, server_reply cd fuel e pm calls j with
                               | Some fr, Some r => Some (f_op fr, zlen r)
                               | _, _ => None
                               end) (seq 0 n) in
    if negb (forallb (fun p =>
                match execute_frame (frame_of p) with
                | Ok op =>
                  let lp := zlen p in
                  existsb (fun x => match x with
                                    | Some (o, l) => (o =? op) && ((proto =? 2) || (l =? lp))
                                    | None => false
                                    end) rinfo
                | _ => false
                end) replies) then -1003 else
    percall + 16384
  | _, _ => -1000
  end.

Definition judge (cases : list tok) : list Z := map judge_burst cases.
