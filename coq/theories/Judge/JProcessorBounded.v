(** Judge for C14 over bounded outputs: replays on Model/ProcessorBounded.v what the real generated
    processors did over a size-limited output (harness/lab/ext_c14, modes "bounded", "nats", "http").

    One judged case = one request frame against one output:
      TL [ TI mode; TI lim; TL methods; TL outcomes; TL defaults; frame; etext; TL sizes;
           TI oerr; out; TL trace ]
    mode     0  direct: Process over NewTMemoryOutputBuffer(lim) behind a recording transport
             1  FNatsServer (its own 1 MiB buffer; lim is not used)
             2  HTTP handler, x-frugal-payload-limit = lim (0 = header absent)
    methods / defaults as in Judge/JProcessor.v; outcomes likewise, but every byte string of an outcome, the
    frame, etext and out may be "big": TB bytes, or TL of parts, a part being TB bytes or TL [TI n; TB pat]
    (pat repeated n times)
    sizes    the sizes of the transport writes result.Write was seen to issue (the model's [chunk])
    oerr     mode 0: 1 if Process returned an error; mode 2: 0 = 200, 1 = 500, 2 = 413
    out      mode 0: the buffer after the 4-byte size prefix when Process returned; mode 1: the published
             message without its prefix (empty: nothing was published); mode 2: the body without prefix
    trace    mode 0: every call on the transport: TL [TI kind; bytes; TI ok]  kind 0 Write / WriteString /
             WriteByte (ok = it returned nil), 1 Flush, 2 Reset (a Reset of a buffer that holds nothing is not
             compared: see [drop_idle_resets])
    Result: -1 if the model does not reproduce the observation, otherwise
      100 * plan (0 error before output, 1 oneway success, 2 unknown method, 3 SendError, 4 SendReply,
                  5 SendReply of a result its Write rejects)
      + 10 * number of rejected writes in the model's run + (1 if nothing is left in the buffer)
      (+ 5 in mode 2 when the answer is 413) *)
From Coq Require Import ZArith List Bool.
From FV Require Import Base.Res Base.Bytes Model.Headers Model.ThriftBin Model.Processor Model.ProcessorBounded
                       Judge.Wire Judge.JThriftBin Judge.JProcessor.
Import ListNotations.
Open Scope Z_scope.

Definition rep_bytes (n : Z) (pat : bytes) : bytes :=
  match n with
  | Zpos p => Pos.iter (fun acc => pat ++ acc) [] p
  | _ => []
  end.

Definition as_part (t : tok) : bytes :=
  match t with
  | TB b => b
  | TL [TI n; TB pat] => rep_bytes n pat
  | _ => []
  end.

Definition as_big (t : tok) : bytes :=
  match t with
  | TB b => b
  | TL parts => concat (map as_part parts)
  | _ => []
  end.

Definition as_big_pair (t : tok) : hpair :=
  match t with
  | TL [k; v] => (as_big k, as_big v)
  | _ => ([], [])
  end.

Definition parse_outcome_b (t : tok) : outcome :=
  let f := as_list t in
  let k := as_int (nth_tok 2 f) in
  mkoc (as_bytes (nth_tok 0 f)) (as_bytes (nth_tok 1 f)) (map as_big_pair (as_list (nth_tok 7 f)))
       (if k =? 0 then HResult (as_big (nth_tok 3 f)) (negb (as_int (nth_tok 4 f) =? 0))
        else if k =? 1 then HAppExc (as_int (nth_tok 5 f)) (as_big (nth_tok 6 f))
        else HOther (as_big (nth_tok 6 f))).

(** a write of the model and an observed one: the same bytes, or two header blocks (nothing else in the
    write) with the same pairs in another order — Go marshals a map in its iteration order *)
Definition same_write (m o : bytes) : bool :=
  Headers.bytes_eqb m o ||
  match read_header m, read_header o with
  | Ok (hm, []), Ok (ho, []) => same_headers hm ho
  | _, _ => false
  end.

Definition same_event (m : bev) (t : tok) : bool :=
  let f := as_list t in
  let kind := as_int (nth_tok 0 f) in
  match m with
  | BW b ok => (kind =? 0) && same_write b (as_big (nth_tok 1 f)) && Bool.eqb ok (negb (as_int (nth_tok 2 f) =? 0))
  | BFlush => kind =? 1
  | BReset => kind =? 2
  end.

Fixpoint same_trace (ms : list bev) (ts : list tok) : bool :=
  match ms, ts with
  | [], [] => true
  | m :: ms', t :: ts' => same_event m t && same_trace ms' ts'
  | _, _ => false
  end.

(** A Reset from outside on a buffer that holds nothing (it has just emptied itself on a rejected write, or
    nothing was written yet) cannot be observed: such calls are dropped from both traces before they are
    compared, so that a redundant Reset in the code is not reported as a difference. *)
Definition is_nil (b : bytes) : bool := match b with [] => true | _ => false end.

Fixpoint drop_idle_resets (empty : bool) (t : list bev) : list bev :=
  match t with
  | [] => []
  | BW b ok :: r => BW b ok :: drop_idle_resets (if ok then empty && is_nil b else true) r
  | BFlush :: r => BFlush :: drop_idle_resets empty r
  | BReset :: r => if empty then drop_idle_resets true r else BReset :: drop_idle_resets true r
  end.

Fixpoint drop_idle_resets_obs (empty : bool) (ts : list tok) : list tok :=
  match ts with
  | [] => []
  | t :: r =>
    let f := as_list t in
    let kind := as_int (nth_tok 0 f) in
    if kind =? 0 then
      t :: drop_idle_resets_obs (if as_int (nth_tok 2 f) =? 0 then true else empty && is_nil (as_big (nth_tok 1 f))) r
    else if kind =? 2 then
      if empty then drop_idle_resets_obs true r else t :: drop_idle_resets_obs true r
    else t :: drop_idle_resets_obs empty r
  end.

Definition rejected (t : list bev) : Z :=
  fold_left (fun a e => match e with BW _ false => a + 1 | _ => a end) t 0.

Definition plan_code (p : plan) : Z :=
  match p with
  | PFail => 0
  | PSilent => 1
  | PUnknown _ _ => 2
  | PError _ _ _ _ => 3
  | PReply _ _ _ wok => if wok then 4 else 5
  end.

Definition judge_case (c : tok) : Z :=
  let f := as_list c in
  let mode := as_int (nth_tok 0 f) in
  let lim := as_int (nth_tok 1 f) in
  let svc := map parse_method (as_list (nth_tok 2 f)) in
  let h := script (map parse_outcome_b (as_list (nth_tok 3 f))) (map parse_default (as_list (nth_tok 4 f))) in
  let frame := as_big (nth_tok 5 f) in
  let etext := as_big (nth_tok 6 f) in
  let sizes := map as_int (as_list (nth_tok 7 f)) in
  let oerr := as_int (nth_tok 8 f) in
  let oout := as_big (nth_tok 9 f) in
  let otrace := as_list (nth_tok 10 f) in
  let code := 100 * plan_code (plan_of svc h etext frame) in
  if mode =? 0 then
    let '(err, s) := process_b (Some lim) (split_sizes sizes) svc h true etext frame in
    if (bool_z err =? oerr) && same_message (bo_data s) oout && same_trace (drop_idle_resets true (bo_trace s)) (drop_idle_resets_obs true otrace)
    then code + 10 * rejected (bo_trace s) + (match bo_data s with [] => 1 | _ => 0 end)
    else -1
  else if mode =? 1 then
    let '(_, s) := process_b (Some nats_max) (fun b => [b]) svc h true etext frame in
    match nats_frame_b (fun b => [b]) svc h etext frame with
    | None => match oout with [] => code + 10 * rejected (bo_trace s) + 1 | _ => -1 end
    | Some out => if same_message out oout then code + 10 * rejected (bo_trace s) else -1
    end
  else if mode =? 2 then
    match http_frame_b lim (fun b => [b]) svc h etext frame with
    | HB500 => if oerr =? 1 then code + 1 else -1
    | HB413 => if oerr =? 2 then code + 5 else -1
    | HB200 body => if (oerr =? 0) && same_message body oout then code else -1
    end
  else -1.

Definition judge (cases : list tok) : list Z := map judge_case cases.
