(** Case data travels into Coq as one flat primitive-int array (see DESIGN.md 2.3);
    this file decodes it into a token tree.  Used by judges only; no theorem mentions
    primitive ints or arrays. *)
From Coq Require Import ZArith List Uint63 PArray.
Import ListNotations.
Open Scope Z_scope.

Inductive tok := TI (z : Z) | TB (b : list Z) | TL (l : list tok).

(** byte values as Z, looked up rather than converted bit by bit *)
Fixpoint fill_table (n : nat) (i : int) (z : Z) (t : array Z) : array Z :=
  match n with
  | O => t
  | S n' => fill_table n' (Uint63.add i 1%uint63) (z + 1) (PArray.set t i z)
  end.
Definition byte_table : array Z := Eval vm_compute in fill_table 256 0%uint63 0 (PArray.make 256%uint63 0).

Definition byte_at (w : int) (sh : int) : Z :=
  PArray.get byte_table (Uint63.land (Uint63.lsr w sh) 255%uint63).
Definition unpack7 (w : int) : list Z :=
  [ byte_at w 48%uint63; byte_at w 40%uint63; byte_at w 32%uint63; byte_at w 24%uint63;
    byte_at w 16%uint63; byte_at w 8%uint63; byte_at w 0%uint63 ].

Definition small_nat (i : int) : nat :=
  if Uint63.leb 7%uint63 i then 7%nat else Z.to_nat (Uint63.to_Z i).

(** [len] bytes packed 7 per word starting at cursor [i]; returns bytes and the next cursor *)
Fixpoint take_bytes (fuel : nat) (len : int) (a : array int) (i : int) : list Z * int :=
  match fuel with
  | O => ([], i)
  | S f =>
    if Uint63.eqb len 0%uint63 then ([], i) else
    let k := small_nat len in
    let len' := if Uint63.leb len 7%uint63 then 0%uint63 else Uint63.sub len 7%uint63 in
    let '(bs, i') := take_bytes f len' a (Uint63.add i 1%uint63) in
    (firstn k (unpack7 (PArray.get a i)) ++ bs, i')
  end.

Fixpoint push (t : tok) (stack : list (Z * list tok)) (top : list tok)
  : list (Z * list tok) * list tok :=
  match stack with
  | [] => ([], t :: top)
  | (n, acc) :: st =>
    if n <=? 1 then push (TL (rev (t :: acc))) st top else ((n - 1, t :: acc) :: st, top)
  end.

Fixpoint parse (fuel : nat) (a : array int) (i n : int) (stack : list (Z * list tok)) (top : list tok)
  : list tok :=
  match fuel with
  | O => rev top
  | S f =>
    if Uint63.leb n (Uint63.add i 1%uint63) then rev top else
    let tag := PArray.get a i in
    let v := PArray.get a (Uint63.add i 1%uint63) in
    let i2 := Uint63.add i 2%uint63 in
    if Uint63.eqb tag 0%uint63 then
      let '(s, t) := push (TI (Uint63.to_Z v)) stack top in parse f a i2 n s t
    else if Uint63.eqb tag 1%uint63 then
      let '(s, t) := push (TI (- Uint63.to_Z v)) stack top in parse f a i2 n s t
    else if Uint63.eqb tag 2%uint63 then
      let '(bs, i3) := take_bytes (S (Z.to_nat (Uint63.to_Z v / 7 + 1))) v a i2 in
      let '(s, t) := push (TB bs) stack top in parse f a i3 n s t
    else if Uint63.eqb tag 3%uint63 then
      if Uint63.eqb v 0%uint63 then let '(s, t) := push (TL []) stack top in parse f a i2 n s t
      else parse f a i2 n ((Uint63.to_Z v, []) :: stack) top
    else rev top
  end.

Definition decode (a : array int) : list tok :=
  let n := PArray.length a in
  parse (S (Z.to_nat (Uint63.to_Z n))) a 0%uint63 n [] [].

Definition as_int (t : tok) : Z := match t with TI z => z | _ => 0 end.
Definition as_bytes (t : tok) : list Z := match t with TB b => b | _ => [] end.
Definition as_list (t : tok) : list tok := match t with TL l => l | _ => [] end.
Definition as_pair (t : tok) : list Z * list Z :=
  match t with TL [TB k; TB v] => (k, v) | _ => ([], []) end.
Definition as_pairs (t : tok) : list (list Z * list Z) := map as_pair (as_list t).
Definition nth_tok (n : nat) (l : list tok) : tok := nth n l (TI 0).

Fixpoint zeqb_list (a b : list Z) : bool :=
  match a, b with
  | [], [] => true
  | x :: a', y :: b' => (x =? y) && zeqb_list a' b'
  | _, _ => false
  end.
