(** Judge for the HTTP response path and the handler's size-header parsing (C05).

    case kinds
      [30; status; body; trunc; code; payload]   fHTTPTransport.Request on a response
                                                  code: 0 frame, 1 nil/nil, 1000+transport type,
                                                  2000+protocol type
      [31; has_limit; limit; clen; prefix_ok; proc_ok; outlen; status]   NewFrugalHandlerFunc
      [33; body; ok; decoded]                     base64.StdEncoding.DecodeString *)
From Coq Require Import ZArith List Bool.
From FV Require Import Base.Res Base.Bytes Base.GoSem Model.Receivers Model.ReceiversHttp Judge.Wire.
Import ListNotations.
Open Scope Z_scope.

Definition judge_case (t : tok) : Z :=
  let f := as_list t in
  let kind := as_int (nth_tok 0 f) in
  if kind =? 30 then
    let r := http_client_response (as_int (nth_tok 1 f)) (as_bytes (nth_tok 2 f))
                                  (as_int (nth_tok 3 f) =? 1) in
    let ocode := as_int (nth_tok 4 f) in
    if hcres_code r =? ocode then
      match r with
      | HcFrame p => if zeqb_list p (as_bytes (nth_tok 5 f)) then 30000 else -1
      | _ => 30000 + ocode
      end
    else -1
  else if kind =? 31 then
    let limit := if as_int (nth_tok 1 f) =? 1 then Some (as_bytes (nth_tok 2 f)) else None in
    let s := http_server_status limit (as_int (nth_tok 3 f)) (as_int (nth_tok 4 f) =? 1)
                                (as_int (nth_tok 5 f) =? 1) (as_int (nth_tok 6 f)) in
    if s =? as_int (nth_tok 7 f) then 40000 + s else -1
  else if kind =? 33 then
    match b64_decode (as_bytes (nth_tok 1 f)) with
    | Some d => if (as_int (nth_tok 2 f) =? 1) && zeqb_list d (as_bytes (nth_tok 3 f)) then 50001 else -1
    | None => if as_int (nth_tok 2 f) =? 0 then 50000 else -1
    end
  else -1.

Definition judge (cases : list tok) : list Z := map judge_case cases.
