(** Judge for C02: replays observed behaviour of generated Write / Read (binary protocol) on
    Model/ThriftBin.v.  One judged case = one struct-like type of one generated program:
      TL [ env ; type ; TL subcases ]
    env      TL of declarations  TL [TI name; TI kind; ...]
               kind 0 typedef  [type]
               kind 1 enum     [TL [TI value ...]]
               kind 2 struct   [TI skind (0 struct, 1 union, 2 exception); TL fields]
               kind 3 args     [TL fields]              (mk_args applied here)
               kind 4 result   [TL [] | TL [type]; TL throws]   (mk_result applied here)
             field TL [TI id; TI modifier (0 required, 1 optional, 2 default); type; TL [] | TL [value]]
    type     TL [TI tag; ...]  0 bool 1 byte 2 i16 3 i32 4 i64 5 double 6 string 7 binary
                               8 list [t] 9 set [t] 10 map [k; v] 11 ref [TI name]
    value    TL [TI tag; payload]  0 bool [TI] 1 int [TI] 2 int as 8 bytes [TB] 3 double bits [TB]
                               4 bytes [TB] 5 list [TL] 6 set [TL] 7 map [TL of TL [k; v]]
                               8 Go struct [TL slots], slot = TL [] (nil) | TL [value]
    subcase  TL [TI 1; value; TI code; TB bytes]        Write: Go value, observed class and bytes
             TL [TI 2; TB bytes; TI code; value | TL []; TI unread] Read: input, observed class, value, unread byte count
    result   -(i+1) if subcase i is not reproduced by the model, else a bit set of the model
             branches exercised (1 write ok, 2 write rejected, 4 write panic, 8 read ok,
             16 read INVALID_DATA, 32 read other error, 64 unknown field skipped). *)
From Coq Require Import ZArith List Bool.
From FV Require Import Base.Res Base.Bytes Model.ThriftBin Judge.Wire.
Import ListNotations.
Open Scope Z_scope.

Fixpoint parse_ty (t : tok) : ty :=
  match t with
  | TL (TI tag :: args) =>
    if tag =? 0 then TBool else if tag =? 1 then TByte else if tag =? 2 then TI16
    else if tag =? 3 then TI32 else if tag =? 4 then TI64 else if tag =? 5 then TDouble
    else if tag =? 6 then TString else if tag =? 7 then TBinary
    else match args with
         | [a] => if tag =? 8 then TList (parse_ty a) else if tag =? 9 then TSet (parse_ty a) else
                  match a with TI n => TRef n | _ => TBool end
         | [a; b] => TMap (parse_ty a) (parse_ty b)
         | _ => TBool
         end
  | _ => TBool
  end.

Fixpoint parse_val (t : tok) : val :=
  match t with
  | TL [TI tag; p] =>
    if tag =? 0 then VBool (match p with TI 0 => false | _ => true end)
    else if tag =? 1 then VInt (as_int p)
    else if tag =? 2 then VInt (signed 8 (un_be (as_bytes p)))
    else if tag =? 3 then VDouble (un_be (as_bytes p))
    else if tag =? 4 then VBytes (as_bytes p)
    else match p with
         | TL items =>
           if tag =? 5 then VList (map parse_val items)
           else if tag =? 6 then VSet (map parse_val items)
           else if tag =? 7 then
             VMap (map (fun kv => match kv with
                                  | TL [k; x] => (parse_val k, parse_val x)
                                  | _ => (VBool false, VBool false)
                                  end) items)
           else VStruct (map (fun s => match s with TL [x] => Some (parse_val x) | _ => None end) items)
         | _ => VBool false
         end
  | _ => VBool false
  end.

Definition parse_field (t : tok) : field :=
  let f := as_list t in
  mkField (as_int (nth_tok 0 f))
          (let m := as_int (nth_tok 1 f) in if m =? 0 then MRequired else if m =? 1 then MOptional else MDefault)
          (parse_ty (nth_tok 2 f))
          (match nth_tok 3 f with TL [x] => Some (parse_val x) | _ => None end).

Definition parse_decl (t : tok) : name * decl :=
  let f := as_list t in
  let n := as_int (nth_tok 0 f) in
  let kind := as_int (nth_tok 1 f) in
  if kind =? 0 then (n, DTypedef (parse_ty (nth_tok 2 f)))
  else if kind =? 1 then (n, DEnum (map as_int (as_list (nth_tok 2 f))))
  else if kind =? 2 then
    (n, DStruct (let k := as_int (nth_tok 2 f) in if k =? 1 then KUnion else if k =? 2 then KException else KStruct)
                (map parse_field (as_list (nth_tok 3 f))))
  else if kind =? 3 then (n, mk_args (map parse_field (as_list (nth_tok 2 f))))
  else (n, mk_result (match nth_tok 2 f with TL [x] => Some (parse_ty x) | _ => None end)
                     (map parse_field (as_list (nth_tok 3 f)))).

(** equality up to the order of set elements and map entries *)
Fixpoint veqm (a b : val) {struct a} : bool :=
  match a, b with
  | VBool x, VBool y => Bool.eqb x y
  | VInt x, VInt y => x =? y
  | VDouble x, VDouble y => x =? y
  | VBytes x, VBytes y => bytes_eqb x y
  | VList l, VList m =>
    (fix go (l m : list val) {struct l} : bool :=
       match l, m with
       | [], [] => true
       | x :: l', y :: m' => veqm x y && go l' m'
       | _, _ => false
       end) l m
  | VSet l, VSet m =>
    (fix go (l m : list val) {struct l} : bool :=
       match l with
       | [] => match m with [] => true | _ => false end
       | x :: l' =>
         match (fix pick (m acc : list val) {struct m} : option (list val) :=
                  match m with
                  | [] => None
                  | y :: m' => if veqm x y then Some (rev_append acc m') else pick m' (y :: acc)
                  end) m [] with
         | Some m2 => go l' m2
         | None => false
         end
       end) l m
  | VMap l, VMap m =>
    (fix go (l m : list (val * val)) {struct l} : bool :=
       match l with
       | [] => match m with [] => true | _ => false end
       | (k, x) :: l' =>
         match (fix pick (m acc : list (val * val)) {struct m} : option (list (val * val)) :=
                  match m with
                  | [] => None
                  | (k2, y) :: m' =>
                    if veqm k k2 && veqm x y then Some (rev_append acc m') else pick m' ((k2, y) :: acc)
                  end) m [] with
         | Some m2 => go l' m2
         | None => false
         end
       end) l m
  | VStruct l, VStruct m =>
    (fix go (l m : list (option val)) {struct l} : bool :=
       match l, m with
       | [], [] => true
       | Some x :: l', Some y :: m' => veqm x y && go l' m'
       | None :: l', None :: m' => go l' m'
       | _, _ => false
       end) l m
  | VRec l, VRec m =>
    (fix go (l m : list (Z * val)) {struct l} : bool :=
       match l, m with
       | [], [] => true
       | (i, x) :: l', (j, y) :: m' => (i =? j) && veqm x y && go l' m'
       | _, _ => false
       end) l m
  | _, _ => false
  end.

Definition fuel_for (b : bytes) : nat := (length b + length b + 16)%nat.

Definition judge_sub (e : env) (t : ty) (s : tok) : Z :=
  let f := as_list s in
  let kind := as_int (nth_tok 0 f) in
  if kind =? 1 then
    let v := parse_val (nth_tok 1 f) in
    let ocode := as_int (nth_tok 2 f) in
    let obs := as_bytes (nth_tok 3 f) in
    match to_wire e t v with
    | Ok w =>
      if negb (ocode =? 0) then -1 else
      match wdec (fuel_for obs) e t obs with
      | Ok (w', []) =>
        if bytes_eqb (wenc e t w') obs && veqm w w' &&
           (Nat.eqb (length (wenc e t w)) (length obs)) then 1 else -1
      | _ => -1
      end
    | Err EInvalidData => if ocode =? 4 then 2 else -1
    | Err _ => if (1 <=? ocode) && (ocode <=? 7) then 2 else -1
    | Panic _ => if ocode =? 100 then 4 else -1
    | OutOfFuel => -1
    end
  else if kind =? 2 then
    let inp := as_bytes (nth_tok 1 f) in
    let ocode := as_int (nth_tok 2 f) in
    let oval := parse_val (nth_tok 3 f) in
    let ounread := as_int (nth_tok 4 f) in
    match gread (fuel_for inp) e t inp with
    | Ok (g, rest) =>
      if (ocode =? 0) && veqm g oval && (zlen rest =? ounread) then 8 else -1
    | Err EInvalidData => if ocode =? 4 then 16 else if (1 <=? ocode) && (ocode <=? 7) then 32 else -1
    | Err _ => if (1 <=? ocode) && (ocode <=? 7) then 32 else -1
    | Panic _ => if ocode =? 100 then 4 else -1
    | OutOfFuel => -1
    end
  else -1.

Fixpoint judge_subs (e : env) (t : ty) (subs : list tok) (i : Z) (acc : Z) : Z :=
  match subs with
  | [] => acc
  | s :: r =>
    let v := judge_sub e t s in
    if v <? 0 then - (i + 1) else judge_subs e t r (i + 1) (Z.lor acc v)
  end.

Definition judge_case (c : tok) : Z :=
  let f := as_list c in
  let e := map parse_decl (as_list (nth_tok 0 f)) in
  let t := parse_ty (nth_tok 1 f) in
  judge_subs e t (as_list (nth_tok 2 f)) 0 0.

Definition judge (cases : list tok) : list Z := map judge_case cases.
