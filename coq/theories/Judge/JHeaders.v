(** Judge for the header codec (C04, C05): replays each observed case on Model/Headers.v. *)
From Coq Require Import ZArith List Bool.
From FV Require Import Base.Res Base.Bytes Base.GoSem Model.Headers Judge.Wire.
Import ListNotations.
Open Scope Z_scope.

Fixpoint bytes_ltb (a b : bytes) : bool :=
  match a, b with
  | [], [] => false
  | [], _ :: _ => true
  | _ :: _, [] => false
  | x :: a', y :: b' => if x <? y then true else if y <? x then false else bytes_ltb a' b'
  end.
Fixpoint insert_pair (p : hpair) (l : list hpair) : list hpair :=
  match l with
  | [] => [p]
  | q :: l' => if bytes_ltb (fst q) (fst p) then q :: insert_pair p l' else p :: l
  end.
Definition sort_pairs (l : list hpair) : list hpair := fold_right insert_pair [] l.

Definition pair_eqb (p q : hpair) : bool := bytes_eqb (fst p) (fst q) && bytes_eqb (snd p) (snd q).
Fixpoint pairs_eqb (a b : list hpair) : bool :=
  match a, b with
  | [], [] => true
  | p :: a', q :: b' => pair_eqb p q && pairs_eqb a' b'
  | _, _ => false
  end.
Definition canon (l : list hpair) : list hpair := sort_pairs (to_map l).

(** tags: 1000*kind + 10*res_code + bucket(number of pairs) ; -1 = mismatch *)
Definition bucket (n : nat) : Z := Z.min (Z.of_nat n) 9.
Definition verdict (ok : bool) (tag : Z) : Z := if ok then tag else -1.

Definition judge_case (t : tok) : Z :=
  let f := as_list t in
  let kind := as_int (nth_tok 0 f) in
  if kind =? 1 then
    (* Go write: input pairs (unique keys), observed bytes *)
    let inp := as_pairs (nth_tok 1 f) in
    let obs := as_bytes (nth_tok 2 f) in
    match read_header obs with
    | Ok (l, rest) =>
      verdict (bytes_eqb (marshal l) obs && pairs_eqb (sort_pairs l) (sort_pairs inp)
               && match rest with [] => true | _ => false end)
              (1000 + bucket (length inp))
    | _ => -1
    end
  else if (kind =? 2) || (kind =? 3) || (kind =? 6) || (kind =? 7) then
    (* read: input bytes; observed code, sorted map, rest (stream readers only) *)
    let inp := as_bytes (nth_tok 1 f) in
    let ocode := as_int (nth_tok 2 f) in
    let omap := as_pairs (nth_tok 3 f) in
    let orest := as_bytes (nth_tok 4 f) in
    let r := if kind =? 2 then read_header inp
             else if kind =? 3 then do l <- get_headers_from_frame inp; Ok (l, [])
             else if kind =? 6 then py_read inp
             else do l <- py_decode_from_frame inp; Ok (l, []) in
    match r with
    | Ok (l, rest) =>
      verdict ((ocode =? 0) && pairs_eqb (canon l) omap && bytes_eqb rest orest)
              (1000 * kind + bucket (length l))
    | other => verdict (ocode =? res_code other) (1000 * kind + 10 * res_code other)
    end
  else if kind =? 4 then
    (* addHeadersToFrame: frame, headers to add (in the order Go iterated), observed code, output *)
    let frame := as_bytes (nth_tok 1 f) in
    let hs := as_pairs (nth_tok 2 f) in
    let ocode := as_int (nth_tok 3 f) in
    let oout := as_bytes (nth_tok 4 f) in
    match add_headers_to_frame frame hs with
    | Ok out =>
      let split (b : bytes) :=
        match read_header (drop 4 b) with
        | Ok (l, rest) => Some (take 4 b, canon l, rest, bytes_eqb (take 4 b ++ marshal l ++ rest) b)
        | _ => None
        end in
      match split out, split oout with
      | Some (p1, m1, r1, _), Some (p2, m2, r2, shape) =>
        verdict ((ocode =? 0) && bytes_eqb p1 p2 && pairs_eqb m1 m2 && bytes_eqb r1 r2 && shape)
                (4000 + bucket (length m1))
      | _, _ => -1
      end
    | other => verdict (ocode =? res_code other) (4000 + 10 * res_code other)
    end
  else if kind =? 5 then
    (* Python write: input pairs in dict order, observed bytes *)
    let inp := as_pairs (nth_tok 1 f) in
    let obs := as_bytes (nth_tok 2 f) in
    verdict (bytes_eqb (py_write inp) obs && bytes_eqb (marshal inp) obs) (5000 + bucket (length inp))
  else -1.

Definition judge (cases : list tok) : list Z := map judge_case cases.
