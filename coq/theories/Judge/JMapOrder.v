(** Judge for C19: replays observations of the real compiler (scope order after parsing,
    order of generation, the HTML generator's module list, output directories, the Python
    generator's __init__ chain) on Model/MapOrder.v. *)
From Coq Require Import ZArith List Bool.
From FV Require Import Model.MapOrder Judge.Wire.
Import ListNotations.
Open Scope Z_scope.

Fixpoint strs_eqb (a b : list str) : bool :=
  match a, b with
  | [], [] => true
  | x :: a', y :: b' => str_eqb x y && strs_eqb a' b'
  | _, _ => false
  end.

Fixpoint paths_eqb (a b : list (list str)) : bool :=
  match a, b with
  | [], [] => true
  | x :: a', y :: b' => strs_eqb x y && paths_eqb a' b'
  | _, _ => false
  end.

Definition as_strs (t : tok) : list str := map as_bytes (as_list t).

Definition bucket (n : nat) : Z := Z.min (Z.of_nat n) 9.
Definition verdict (ok : bool) (tag : Z) : Z := if ok then tag else -1.

(** graph: nodes in topological order (every include refers to an earlier node) *)
Definition dummy : module := Mod [] [] [] [] [].

Definition build_node (built : list module) (t : tok) : module :=
  let f := as_list t in
  Mod (as_bytes (nth_tok 0 f)) (as_bytes (nth_tok 1 f))
      (map (fun p => let q := as_list p in (as_bytes (nth_tok 0 q), negb (as_int (nth_tok 1 q) =? 0)))
           (as_list (nth_tok 2 f)))
      (map (fun p => let q := as_list p in
                     (as_bytes (nth_tok 0 q), nth (Z.to_nat (as_int (nth_tok 1 q))) built dummy))
           (as_list (nth_tok 3 f)))
      (as_strs (nth_tok 4 f)).

Definition build_graph (nodes : list tok) : list module :=
  fold_left (fun built t => built ++ [build_node built t]) nodes [].

Fixpoint has_dup (l : list str) : bool :=
  match l with
  | [] => false
  | x :: l' => existsb (str_eqb x) l' || has_dup l'
  end.

Fixpoint is_sorted (l : list str) : bool :=
  match l with
  | x :: ((y :: _) as l') => negb (str_ltb y x) && is_sorted l'
  | _ => true
  end.

Definition judge_case (t : tok) : Z :=
  let f := as_list t in
  let kind := as_int (nth_tok 0 f) in
  if kind =? 1 then
    (* Frugal.sort: scope names in source order; observed order after ParseFrugal *)
    let src := as_strs (nth_tok 1 f) in
    let obs := as_strs (nth_tok 2 f) in
    verdict (strs_eqb (sort_scopes src) obs)
            (1000 + (if is_sorted src then 0 else 100) + bucket (length src))
  else if kind =? 2 then
    (* generateFrugalRec: graph, use_vendor, root index; observed list of generated files *)
    let g := build_graph (as_list (nth_tok 1 f)) in
    let uv := negb (as_int (nth_tok 2 f) =? 0) in
    let root := nth (Z.to_nat (as_int (nth_tok 3 f))) g dummy in
    let obs := as_strs (nth_tok 4 f) in
    let plan := snd (gen_plan (S (length g)) uv root [] []) in
    verdict (strs_eqb plan obs)
            (2000 + (if uv then 100 else 0) + (if (length plan <? length g)%nat then 10 else 0) + bucket (length plan))
  else if kind =? 3 then
    (* html transitiveIncludes: graph, root index; observed [name; file] list *)
    let g := build_graph (as_list (nth_tok 1 f)) in
    let root := nth (Z.to_nat (as_int (nth_tok 2 f))) g dummy in
    let obs := map (fun p => let q := as_list p in (as_bytes (nth_tok 0 q), as_bytes (nth_tok 1 q)))
                   (as_list (nth_tok 3 f)) in
    let ms := transitive_includes (S (length g)) root in
    verdict (strs_eqb (map m_name ms) (map fst obs) && strs_eqb (map m_file ms) (map snd obs))
            (3000 + (if has_dup (map m_name ms) then 100 else 0) + bucket (length ms))
  else if kind =? 4 then
    (* json collectFrugals: graph, root index; observed list of files *)
    let g := build_graph (as_list (nth_tok 1 f)) in
    let root := nth (Z.to_nat (as_int (nth_tok 2 f))) g dummy in
    let obs := as_strs (nth_tok 3 f) in
    let fs := snd (collect_frugals (S (length g)) root [] []) in
    verdict (strs_eqb fs obs) (4000 + (if (length fs <? length g)%nat then 10 else 0) + bucket (length fs))
  else if kind =? 5 then
    (* GetOutputDir: lang, out components, has namespace, namespace, file name; observed components *)
    let lang := as_int (nth_tok 1 f) in
    let out := as_strs (nth_tok 2 f) in
    let ns := if as_int (nth_tok 3 f) =? 0 then None else Some (as_bytes (nth_tok 4 f)) in
    let name := as_bytes (nth_tok 5 f) in
    let obs := as_strs (nth_tok 6 f) in
    verdict (strs_eqb (output_dir lang out ns name) obs &&
             strs_eqb (out ++ rel_output_dir lang out ns name) obs)
            (5000 + 10 * lang + (if as_int (nth_tok 3 f) =? 0 then 0 else 1))
  else if kind =? 6 then
    (* Python __init__ chain: root components, output dir components; observed dirs (relative to root, deepest first) *)
    let root := as_strs (nth_tok 1 f) in
    let od := as_strs (nth_tok 2 f) in
    let obs := map as_strs (as_list (nth_tok 3 f)) in
    verdict (paths_eqb (py_init_dirs root od) obs) (6000 + bucket (length obs))
  else if kind =? 7 then
    (* globals after a history of compiles in one process: list of [options; generated files],
       observed globals (delimiter, gen, out, filedir, dryrun, recurse, verbose, |CompiledFiles|) *)
    let hist := map (fun h => let q := as_list h in
                               let o := as_list (nth_tok 0 q) in
                               (mk_options (as_bytes (nth_tok 0 o)) (as_bytes (nth_tok 1 o)) (as_bytes (nth_tok 2 o))
                                           (as_bytes (nth_tok 3 o)) false (negb (as_int (nth_tok 4 o) =? 0)) false,
                                as_strs (nth_tok 1 q)))
                    (as_list (nth_tok 1 f)) in
    let obs := as_list (nth_tok 2 f) in
    let g := run_compiles hist globals_init in
    verdict (str_eqb (g_delim g) (as_bytes (nth_tok 0 obs)) && str_eqb (g_gen g) (as_bytes (nth_tok 1 obs)) &&
             str_eqb (g_out g) (as_bytes (nth_tok 2 obs)) && str_eqb (g_filedir g) (as_bytes (nth_tok 3 obs)) &&
             Bool.eqb (g_dryrun g) (negb (as_int (nth_tok 4 obs) =? 0)) &&
             Bool.eqb (g_recurse g) (negb (as_int (nth_tok 5 obs) =? 0)) &&
             Bool.eqb (g_verbose g) (negb (as_int (nth_tok 6 obs) =? 0)) &&
             (Z.of_nat (length (g_compiled g)) =? as_int (nth_tok 7 obs)))
            (7000 + bucket (length hist))
  else -1.

Definition judge (cases : list tok) : list Z := map judge_case cases.
