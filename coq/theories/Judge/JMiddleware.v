(** Judge for C16: replays one observed invocation (RPC through generated client and processor, or
    publish through generated publisher and subscriber) on Model/Middleware.v — the same
    [new_client], [new_processor], [processor_add_middleware], [new_publisher], [new_subscriber],
    [subscribe], [rpc], [pubsub], [mw_of] the theorems are about — and compares the ordered trace
    (every entry and exit with the values seen) and the outcome.

    Values are interned integers (0 = nil); an FContext is the bit set of the request headers the
    middleware added.  A case is

      rpc:    [1; nin; nret; oneway; zero; prov; provstyle; cctor; cstyle; pctor; pstyle; padd; poison;
               nlevels; level; werr; args; hres; events; panicked; result; async]
      pubsub: [2; nvars; subvars; herr; pprov; sprov; shared; provstyle; pctor; pstyle; sctor; sstyle;
               poison; args; events; panicked; result]
      mw    = [id; pre; post]     rewrite = [kind; pos; value]   kind 0 set, 1 truncate, 2 append nil, 3 add header
      style = [literal; spare]
      event = [0; id; values] enter | [1; id; values] exit | [2; tag; values] core | [3; tag; values] ret

    Result: -1 = the model does not reproduce the observation; otherwise branch bits
      1 pubsub, 2 panic, 4 some append wrote into the caller's spare capacity, 8 poisoned,
      16 message delivered to the subscriber, 32 some middleware rewrites, 64 the subscriber's list
      read differently at Subscribe time than right after construction, 128 extends (level > 0). *)
From Coq Require Import ZArith List Bool Arith.
From FV Require Import Model.Middleware Judge.Wire.
Import ListNotations.
Open Scope Z_scope.

Definition V := Z.

Definition nat_of (t : tok) : nat := Z.to_nat (as_int t).
Definition ints (t : tok) : list Z := map as_int (as_list t).

(* ---- rewrites ---- *)
Definition apply_rw (id : Z) (t : tok) (l : list Z) : list Z :=
  let f := as_list t in
  let kind := as_int (nth_tok 0 f) in
  let pos := nat_of (nth_tok 1 f) in
  let v := as_int (nth_tok 2 f) in
  if kind =? 0 then (if (pos <? length l)%nat then set_nth pos v l else l)
  else if kind =? 1 then (if (pos <? length l)%nat then firstn pos l else l)
  else if kind =? 2 then l ++ [0]
  else match l with c :: rest => Z.lor c (Z.shiftl 1 id) :: rest | [] => [] end.

Definition apply_rws (id : Z) (rws : list tok) (l : list Z) : list Z :=
  fold_left (fun l t => apply_rw id t l) rws l.

Definition spec_of (t : tok) : mwspec V :=
  let f := as_list t in
  let id := as_int (nth_tok 0 f) in
  {| ms_id := id; ms_pre := apply_rws id (as_list (nth_tok 1 f)); ms_post := apply_rws id (as_list (nth_tok 2 f)) |}.

Definition mws_of (t : tok) : list (middleware V) := map (fun s => mw_of (spec_of s)) (as_list t).
Definition rewrites (t : tok) : bool :=
  existsb (fun s => let f := as_list s in
                    negb (match as_list (nth_tok 1 f), as_list (nth_tok 2 f) with [], [] => true | _, _ => false end))
          (as_list t).

(* ---- how a variadic list reaches a constructor ---- *)
Definition make_slice (h : mheap V) (xs : list (middleware V)) (style : tok) : mheap V * slice :=
  let f := as_list style in
  let literal := as_int (nth_tok 0 f) in
  let spare := nat_of (nth_tok 1 f) in
  if literal =? 1 then variadic_literal h xs
  else match xs, spare with
       | [], O => (h, nil_slice)
       | _, _ => alloc h xs spare (@nil_mw V)
       end.

Definition in_place (before : slice) (after : slice) : bool :=
  (s_arr before =? s_arr after)%nat && negb (s_len before =? s_len after)%nat.

(* ---- comparing ---- *)
Definition event_eqb (e : event V) (t : tok) : bool :=
  let f := as_list t in
  let k := as_int (nth_tok 0 f) in
  let i := as_int (nth_tok 1 f) in
  let vs := ints (nth_tok 2 f) in
  match e with
  | EEnter id a => (k =? 0) && (i =? id) && zeqb_list a vs
  | EExit id r => (k =? 1) && (i =? id) && zeqb_list r vs
  | ECore tag a => (k =? 2) && (i =? tag) && zeqb_list a vs
  | ERet tag r => (k =? 3) && (i =? tag) && zeqb_list r vs
  end.

Fixpoint trace_eqb (tr : list (event V)) (obs : list tok) : bool :=
  match tr, obs with
  | [], [] => true
  | e :: tr', t :: obs' => event_eqb e t && trace_eqb tr' obs'
  | _, _ => false
  end.

Definition outcome_eqb (o : outcome V) (events : tok) (panicked : Z) (result : tok) : bool :=
  let '(tr, r) := o in
  trace_eqb tr (as_list events) &&
  match r with
  | Some r' => (panicked =? 0) && zeqb_list r' (ints result)
  | None => panicked =? 1
  end.

Definition is_panic (o : outcome V) : bool := match snd o with None => true | Some _ => false end.
Definition delivered (o : outcome V) : bool :=
  existsb (fun e => match e with ERet _ _ => true | _ => false end) (fst o).

Definition lookup_z (tbl : list tok) (k : Z) : Z :=
  match find (fun t => as_int (nth_tok 0 (as_list t)) =? k) tbl with
  | Some t => as_int (nth_tok 1 (as_list t))
  | None => k
  end.

Definition bit (b : bool) (w : Z) : Z := if b then w else 0.

Definition encode_event (e : event V) : list Z :=
  match e with
  | EEnter id a => 0 :: id :: Z.of_nat (length a) :: a
  | EExit id r => 1 :: id :: Z.of_nat (length r) :: r
  | ECore tag a => 2 :: tag :: Z.of_nat (length a) :: a
  | ERet tag r => 3 :: tag :: Z.of_nat (length r) :: r
  end.
Definition encode_outcome (o : outcome V) : list Z :=
  flat_map encode_event (fst o) ++ [-7] ++ match snd o with Some r => 1 :: r | None => [0] end.

Definition dummy_handler : handler V := fun _ => ([], None).

(* ---- RPC ---- *)
Definition judge_rpc (explain : bool) (f : list tok) : list Z :=
  let nin := nat_of (nth_tok 1 f) in
  let nret := nat_of (nth_tok 2 f) in
  let oneway := as_int (nth_tok 3 f) =? 1 in
  let zero := as_int (nth_tok 4 f) in
  let prov := mws_of (nth_tok 5 f) in
  let provstyle := nth_tok 6 f in
  let cctor := mws_of (nth_tok 7 f) in
  let cstyle := nth_tok 8 f in
  let pctor := mws_of (nth_tok 9 f) in
  let pstyle := nth_tok 10 f in
  let padd := mws_of (nth_tok 11 f) in
  let poison := mws_of (nth_tok 12 f) in
  let nlevels := nat_of (nth_tok 13 f) in
  let level := nat_of (nth_tok 14 f) in
  let werr := as_list (nth_tok 15 f) in
  let args := ints (nth_tok 16 f) in
  let hres := ints (nth_tok 17 f) in
  (* server: NewF<Svc>Processor(handler, pctor...) then AddMiddleware(padd) in order *)
  let '(h1, pctor_s) := make_slice [] pctor pstyle in
  let proc_method (core : handler V) : handler V :=
    let pm := fold_left (fun pm m => processor_add_middleware m pm) padd
                        (new_processor h1 pctor_s (repeat [core] nlevels)) in
    nth 0 (nth level pm []) dummy_handler in
  (* client: provider(prov...), NewF<Svc>Client(provider, cctor...) *)
  let '(h2, prov_s) := make_slice h1 prov provstyle in
  let '(h3, cctor_s) := make_slice h2 cctor cstyle in
  let client_method (core : handler V) : handler V :=
    nth 0 (nth level (snd (new_client h3 prov_s cctor_s (repeat [core] nlevels))) []) dummy_handler in
  let h4 := fst (new_client h3 prov_s cctor_s (repeat [dummy_handler] nlevels)) in
  let wrote := in_place cctor_s (snd (go_append h3 cctor_s (get_middleware h3 prov_s))) in
  let wres := wire_results oneway (Z.eqb 0) 0 zero (lookup_z werr) in
  let o0 := rpc nin nret (fun a => a) wres client_method proc_method (fun _ => hres) in
  let o := if as_int (nth_tok 21 f) =? 1 then async_stub (Z.eqb 0) 0 o0 args else o0 args in
  if explain then encode_outcome o else
  if outcome_eqb o (nth_tok 18 f) (as_int (nth_tok 19 f)) (nth_tok 20 f)
  then [bit (is_panic o) 2 + bit wrote 4 + bit (negb (length poison =? 0)%nat) 8
       + bit (rewrites (nth_tok 5 f) || rewrites (nth_tok 7 f) || rewrites (nth_tok 9 f) || rewrites (nth_tok 11 f)) 32
       + bit (negb (level =? 0)%nat) 128]
  else [-1].

(* ---- pub/sub ---- *)
Definition judge_pubsub (explain : bool) (f : list tok) : list Z :=
  let nvars := nat_of (nth_tok 1 f) in
  let subvars := ints (nth_tok 2 f) in
  let herr := as_int (nth_tok 3 f) in
  let pprov := mws_of (nth_tok 4 f) in
  let sprov := mws_of (nth_tok 5 f) in
  let shared := as_int (nth_tok 6 f) =? 1 in
  let provstyle := nth_tok 7 f in
  let pctor := mws_of (nth_tok 8 f) in
  let pstyle := nth_tok 9 f in
  let sctor := mws_of (nth_tok 10 f) in
  let sstyle := nth_tok 11 f in
  let poison := mws_of (nth_tok 12 f) in
  let args := ints (nth_tok 13 f) in
  let '(h1, pprov_s) := make_slice [] pprov provstyle in
  let '(h2, sprov_s) := if shared then (h1, pprov_s) else make_slice h1 sprov provstyle in
  let '(h3, pctor_s) := make_slice h2 pctor pstyle in
  let '(h4, sctor_s) := make_slice h3 sctor sstyle in
  (* New<Scope>Publisher(pprovider, pctor...) *)
  let pub_method (core : handler V) : handler V :=
    nth 0 (snd (new_publisher h4 pprov_s pctor_s [core])) dummy_handler in
  let h5 := fst (new_publisher h4 pprov_s pctor_s [dummy_handler]) in
  (* New<Scope>Subscriber(sprovider, sctor...) *)
  let '(h6, sub_s) := new_subscriber h5 sprov_s sctor_s in
  (* poison: a second subscriber and a second publisher from the same slices, another provider *)
  let h8 :=
    match poison with
    | [] => h6
    | _ => let '(h6a, other_s) := alloc h6 poison 0 (@nil_mw V) in
           let '(h7, _) := new_subscriber h6a other_s sctor_s in
           fst (new_publisher h7 other_s pctor_s [dummy_handler])
    end in
  (* Subscribe<Op> builds its Method from the kept slice now *)
  let sub_method (core : handler V) : handler V := subscribe h8 sub_s core in
  let sub_method_fresh (core : handler V) : handler V := subscribe h6 sub_s core in
  let wrote := in_place sctor_s sub_s
               || in_place pctor_s (snd (go_append h4 pctor_s (get_middleware h4 pprov_s))) in
  let o := pubsub nvars Z.eqb 0 (fun a => a) subvars pub_method sub_method herr args in
  let o_fresh := pubsub nvars Z.eqb 0 (fun a => a) subvars pub_method sub_method_fresh herr args in
  if explain then encode_outcome o else
  if outcome_eqb o (nth_tok 14 f) (as_int (nth_tok 15 f)) (nth_tok 16 f)
  then [1 + bit (is_panic o) 2 + bit wrote 4 + bit (negb (length poison =? 0)%nat) 8 + bit (delivered o) 16
       + bit (rewrites (nth_tok 4 f) || rewrites (nth_tok 5 f) || rewrites (nth_tok 8 f) || rewrites (nth_tok 10 f)) 32
       + bit (negb (outcome_eqb o_fresh (nth_tok 14 f) (as_int (nth_tok 15 f)) (nth_tok 16 f))) 64]
  else [-1].

Definition judge_case (explain : bool) (t : tok) : list Z :=
  let f := as_list t in
  let kind := as_int (nth_tok 0 f) in
  if kind =? 1 then judge_rpc explain f
  else if kind =? 2 then judge_pubsub explain f
  else [-1].

Definition judge (cases : list tok) : list Z := flat_map (judge_case false) cases.

(** for replays of a rejected case: the model's own trace, flat:
    per event kind, id/tag, number of values, the values; then -7, then 1 + results or 0 for a panic *)
Definition explain (cases : list tok) : list Z := flat_map (judge_case true) cases.
