(** Judge for C14: replays what the real generated processors and the three servers did with request
    frames on Model/Processor.v.

    One judged case = one batch run by the lab op "c14":
      TL [ TI mode; TL methods; TL outcomes; TL defaults; TL frames; TL stream ]
    mode     0 direct, output transport without Reset      1 direct, transport with Reset
             2 concurrent (N goroutines, one shared framed output)
             3 simple server, the frames of ONE connection in order
             4 NATS server     5 HTTP handler
    method   TL [TB wire name; TI oneway; TL env; type]   env / type as in Judge/JThriftBin.v (the args struct)
    outcome  TL [TB key; TB wire name of the method it is for; TI k; TB rb; TI wok; TI kind; TB msg; TL extra]
               k 0 result (return value or declared exception), 1 TApplicationException, 2 other error
    default  TL [TB wire name; TB rb; TI wok]     what the handler does without a usable "x-c14" header
    frame    TL [TB frame; TB etext; TI err; TB out; TI n; TL replies]
               etext   text of the Go error that ends up in the reply, as observed (input of the model)
               err     direct/concurrent: 1 if Process returned an error; http: 1 if status 500
               out     direct: every byte left in the recording transport; http: the body (size prefix removed)
               n       direct: number of Flush calls
               replies nats: the reply messages (size prefix removed)
    stream   concurrent: the frames found in the shared output; simple: the reply frames of the connection
    Result: -(i+1) if frame i (or, with i = number of frames, the stream) is not reproduced by the model,
    otherwise the bit set of the model branches exercised:
      1 undecodable header / no op id   2 undecodable envelope   4 unknown method   8 undecodable arguments
      16 REPLY   32 oneway, nothing written   64 result not writable   128 TApplicationException   256 other error *)
From Coq Require Import ZArith List Bool.
From FV Require Import Base.Res Base.Bytes Model.Headers Model.ThriftBin Model.Processor Judge.Wire Judge.JThriftBin.
Import ListNotations.
Open Scope Z_scope.

Definition key_header : bytes := [120; 45; 99; 49; 52].    (* "x-c14" *)

Definition parse_method (t : tok) : mdesc :=
  let f := as_list t in
  let e := map parse_decl (as_list (nth_tok 2 f)) in
  let ty := parse_ty (nth_tok 3 f) in
  mkmd (as_bytes (nth_tok 0 f)) (negb (as_int (nth_tok 1 f) =? 0))
       (fun b => gread (fuel_for b) e ty b).

Record outcome := mkoc { oc_key : bytes; oc_method : bytes; oc_extra : list hpair; oc_out : hout }.

Definition parse_outcome (t : tok) : outcome :=
  let f := as_list t in
  let k := as_int (nth_tok 2 f) in
  mkoc (as_bytes (nth_tok 0 f)) (as_bytes (nth_tok 1 f)) (as_pairs (nth_tok 7 f))
       (if k =? 0 then HResult (as_bytes (nth_tok 3 f)) (negb (as_int (nth_tok 4 f) =? 0))
        else if k =? 1 then HAppExc (as_int (nth_tok 5 f)) (as_bytes (nth_tok 6 f))
        else HOther (as_bytes (nth_tok 6 f))).

Definition parse_default (t : tok) : bytes * hout :=
  let f := as_list t in
  (as_bytes (nth_tok 0 f), HResult (as_bytes (nth_tok 1 f)) (negb (as_int (nth_tok 2 f) =? 0))).

Fixpoint find_default (ds : list (bytes * hout)) (name : bytes) : hout :=
  match ds with
  | [] => HResult [0] true
  | (n, o) :: r => if Headers.bytes_eqb n name then o else find_default r name
  end.

(** the scripted handler of harness/lab/ext_c14 *)
Definition script (ocs : list outcome) (ds : list (bytes * hout)) : handler :=
  fun name hdrs _ =>
    match Headers.lookup key_header hdrs with
    | Some key =>
      match find (fun o => Headers.bytes_eqb (oc_key o) key) ocs with
      | Some o => if Headers.bytes_eqb (oc_method o) name then (oc_extra o, oc_out o)
                  else ([], find_default ds name)
      | None => ([], find_default ds name)
      end
    | None => ([], find_default ds name)
    end.

(** two messages are the same up to the order of the pairs in the leading header block *)
Definition same_headers (a b : list hpair) : bool :=
  Nat.eqb (length a) (length b) &&
  forallb (fun p => match Headers.lookup (fst p) b with
                    | Some v => Headers.bytes_eqb v (snd p)
                    | None => false
                    end) a.

Definition same_message (model obs : bytes) : bool :=
  match model, obs with
  | [], [] => true
  | _, _ =>
    match read_header model, read_header obs with
    | Ok (hm, rm), Ok (ho, ro) => same_headers hm ho && Headers.bytes_eqb rm ro
    | _, _ => false
    end
  end.

Fixpoint same_messages (ms os : list bytes) : bool :=
  match ms, os with
  | [], [] => true
  | m :: ms', o :: os' => same_message m o && same_messages ms' os'
  | _, _ => false
  end.

(** multiset comparison: every model frame matched by a distinct observed frame *)
Fixpoint pick (m : bytes) (os acc : list bytes) : option (list bytes) :=
  match os with
  | [] => None
  | o :: r => if same_message m o then Some (rev_append acc r) else pick m r (o :: acc)
  end.
Fixpoint same_multiset (ms os : list bytes) : bool :=
  match ms with
  | [] => match os with [] => true | _ => false end
  | m :: ms' => match pick m os [] with Some os' => same_multiset ms' os' | None => false end
  end.

Definition count_flush (evs : list oev) : Z :=
  fold_left (fun a e => match e with OFlush => a + 1 | _ => a end) evs 0.

(** the recording transport of the harness: everything flushed plus what is pending *)
Definition rec_contents (evs : list oev) : bytes :=
  let s := framed_run fs0 evs in concat (f_sent s) ++ f_pending s.

(** branch of the model a frame exercises *)
Definition branch (svc : list mdesc) (h : handler) (frame : bytes) : Z :=
  match read_header frame with
  | Ok (hdrs, r1) =>
    let hm := to_map hdrs in
    match Headers.lookup opid_header hm with
    | None => 1
    | Some _ =>
      match read_message_begin r1 with
      | Ok (name, _, _, r2) =>
        match find_method svc name with
        | None => 4
        | Some md =>
          match md_read md r2 with
          | Ok (args, _) =>
            match snd (h name (remove_key opid_header hm) args) with
            | HResult _ wok => if md_oneway md then 32 else if wok then 16 else 64
            | HAppExc _ _ => 128
            | HOther _ => 256
            end
          | _ => 8
          end
        end
      | _ => 2
      end
    end
  | _ => 1
  end.

Definition bool_z (b : bool) : Z := if b then 1 else 0.

(** one frame, modes that are judged frame by frame *)
Definition judge_frame (mode : Z) (svc : list mdesc) (h : handler) (t : tok) : bool :=
  let f := as_list t in
  let frame := as_bytes (nth_tok 0 f) in
  let etext := as_bytes (nth_tok 1 f) in
  let oerr := as_int (nth_tok 2 f) in
  let oout := as_bytes (nth_tok 3 f) in
  let on := as_int (nth_tok 4 f) in
  let oreplies := map as_bytes (as_list (nth_tok 5 f)) in
  if (mode =? 0) || (mode =? 1) then
    let '(err, evs) := process svc h (mode =? 1) etext frame in
    (bool_z err =? oerr) && same_message (rec_contents evs) oout && (count_flush evs =? on)
  else if mode =? 2 then
    let '(err, _) := process svc h true etext frame in bool_z err =? oerr
  else if mode =? 4 then
    match nats_frame svc h etext frame with
    | None => match oreplies with [] => true | _ => false end
    | Some out => match oreplies with [o] => same_message out o | _ => false end
    end
  else if mode =? 5 then
    match http_frame svc h etext frame with
    | H500 => oerr =? 1
    | H200 body => (oerr =? 0) && same_message body oout
    end
  else true.

Fixpoint judge_frames (mode : Z) (svc : list mdesc) (h : handler) (fs : list tok) (i acc : Z) : Z :=
  match fs with
  | [] => acc
  | t :: r =>
    if judge_frame mode svc h t
    then judge_frames mode svc h r (i + 1)
                      (Z.lor acc (branch svc h (as_bytes (nth_tok 0 (as_list t)))))
    else - (i + 1)
  end.

Definition frame_pairs (fs : list tok) : list (bytes * bytes) :=
  map (fun t => let f := as_list t in (as_bytes (nth_tok 0 f), as_bytes (nth_tok 1 f))) fs.

Definition judge_case (c : tok) : Z :=
  let f := as_list c in
  let mode := as_int (nth_tok 0 f) in
  let svc := map parse_method (as_list (nth_tok 1 f)) in
  let h := script (map parse_outcome (as_list (nth_tok 2 f))) (map parse_default (as_list (nth_tok 3 f))) in
  let fs := as_list (nth_tok 4 f) in
  let stream := map as_bytes (as_list (nth_tok 5 f)) in
  let r := judge_frames mode svc h fs 0 0 in
  if r <? 0 then r else
  let n := zlen fs in
  if mode =? 2 then
    (* any schedule yields a permutation of the sections' own frames (c14_no_interleaving) *)
    let expected := flat_map (fun evs => f_sent (framed_run fs0 evs)) (sections_of svc h (frame_pairs fs)) in
    if same_multiset expected stream then r else - (n + 1)
  else if mode =? 3 then
    let s := simple_conn svc h (frame_pairs fs) in
    if same_messages (f_sent (c_out s)) stream then r else - (n + 1)
  else r.

Definition judge (cases : list tok) : list Z := map judge_case cases.
