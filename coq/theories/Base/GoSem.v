(** Go slice semantics (bounds checked, may panic). The model takes cap = len, the
    most panic-prone case: an access in bounds for cap = len is in bounds for any
    larger capacity. *)
From Coq Require Import ZArith List Lia Bool.
From FV Require Import Base.Res Base.Bytes.
Import ListNotations.
Open Scope Z_scope.

(** b[lo:hi] *)
Definition slice (b : bytes) (lo hi : Z) : res bytes :=
  if (0 <=? lo) && (lo <=? hi) && (hi <=? zlen b)
  then Ok (sub b lo hi) else Panic PSliceBounds.

(** b[lo:] *)
Definition slice_from (b : bytes) (lo : Z) : res bytes :=
  if (0 <=? lo) && (lo <=? zlen b) then Ok (drop (Z.to_nat lo) b) else Panic PSliceBounds.

(** make([]byte, n) *)
Definition make_bytes (n : Z) : res unit :=
  if n <? 0 then Panic PMakeLen else Ok tt.

(** io.ReadFull(src, buf[:n]) on a byte source: all n bytes or an EOF-class error *)
Definition read_full (src : bytes) (n : Z) : res (bytes * bytes) :=
  if (0 <=? n) && (n <=? zlen src)
  then Ok (take (Z.to_nat n) src, drop (Z.to_nat n) src)
  else Err EEOF.
