(** Byte strings as lists of Z (each element meant to be in [0,256)), big-endian
    32-bit fields, and Go's int32 view of them. *)
From Coq Require Import ZArith List Lia.
Import ListNotations.
Open Scope Z_scope.

Definition bytes := list Z.

Definition zlen {A} (l : list A) : Z := Z.of_nat (length l).

Definition be32 (n : Z) : bytes :=
  [ (n / 16777216) mod 256; (n / 65536) mod 256; (n / 256) mod 256; n mod 256 ].

Definition un_be32 (b : bytes) : Z :=
  match b with
  | [a; b; c; d] => a * 16777216 + b * 65536 + c * 256 + d
  | _ => 0
  end.

(** Go: int32(x) for x an unsigned 32-bit value *)
Definition as_int32 (u : Z) : Z := if u <? 2147483648 then u else u - 4294967296.
(** Go: uint32(x) for x an int32 / int *)
Definition as_uint32 (z : Z) : Z := z mod 4294967296.
(** wrap an arbitrary integer into int32 (two's complement) *)
Definition wrap32 (z : Z) : Z := as_int32 (z mod 4294967296).

Definition byte_ok (b : Z) : Prop := 0 <= b < 256.
Definition bytes_ok (b : bytes) : Prop := Forall byte_ok b.

Fixpoint take (n : nat) (l : bytes) : bytes :=
  match n, l with
  | O, _ => []
  | S n', x :: xs => x :: take n' xs
  | S _, [] => []
  end.
Fixpoint drop (n : nat) (l : bytes) : bytes :=
  match n, l with
  | O, _ => l
  | S n', _ :: xs => drop n' xs
  | S _, [] => []
  end.

(** sub-list [lo, hi) when 0 <= lo <= hi <= length *)
Definition sub (b : bytes) (lo hi : Z) : bytes :=
  take (Z.to_nat (hi - lo)) (drop (Z.to_nat lo) b).
