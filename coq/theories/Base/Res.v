(** Result type with Go's partiality made explicit. *)
From Coq Require Import ZArith List.
Import ListNotations.

Inductive errk := ETooLarge | ENotOpen | ETimedOut | EInvalidData | EBadVersion | EEOF | EOther.
Inductive panick := PSliceBounds | PMakeLen | PIndex | PNilMap | PClosedChan.

Inductive res (A : Type) : Type :=
| Ok (a : A)
| Err (e : errk)
| Panic (p : panick)
| OutOfFuel.
Arguments Ok {A} a.
Arguments Err {A} e.
Arguments Panic {A} p.
Arguments OutOfFuel {A}.

Definition bind {A B} (r : res A) (f : A -> res B) : res B :=
  match r with
  | Ok a => f a
  | Err e => Err e
  | Panic p => Panic p
  | OutOfFuel => OutOfFuel
  end.
Notation "'do' x <- r ; k" := (bind r (fun x => k))
  (at level 200, x pattern, r at level 100, k at level 200, right associativity).

Definition is_ok {A} (r : res A) : bool := match r with Ok _ => true | _ => false end.
Definition is_err {A} (r : res A) : bool := match r with Err _ => true | _ => false end.
(** "handled or rejected": neither a panic nor fuel exhaustion *)
Definition graceful {A} (r : res A) : Prop :=
  match r with Ok _ | Err _ => True | _ => False end.

Definition errk_code (e : errk) : Z :=
  match e with ETooLarge => 1 | ENotOpen => 2 | ETimedOut => 3 | EInvalidData => 4
             | EBadVersion => 5 | EEOF => 6 | EOther => 7 end.
Definition res_code {A} (r : res A) : Z :=
  match r with Ok _ => 0 | Err e => errk_code e | Panic _ => 100 | OutOfFuel => 101 end.
