(** Model of lib/go/protocol.go (v0 header codec) and of
    lib/python/frugal/util/headers.py, byte for byte.  Executable definitions only. *)
From Coq Require Import ZArith List Lia Bool.
From FV Require Import Base.Res Base.Bytes Base.GoSem.
Import ListNotations.
Open Scope Z_scope.

Definition hpair := (bytes * bytes)%type.

(** ** Writer: marshalHeaders, for the iteration order [l] Go's map happened to use *)
Definition pair_size (p : hpair) : Z := 8 + zlen (fst p) + zlen (snd p).
Fixpoint header_size (l : list hpair) : Z :=
  match l with [] => 0 | p :: l' => pair_size p + header_size l' end.
Definition marshal_pair (p : hpair) : bytes :=
  be32 (as_uint32 (zlen (fst p))) ++ fst p ++ be32 (as_uint32 (zlen (snd p))) ++ snd p.
Fixpoint marshal_pairs (l : list hpair) : bytes :=
  match l with [] => [] | p :: l' => marshal_pair p ++ marshal_pairs l' end.
(** valid for [header_size l < 2^31] (the size is an int32 in Go) *)
Definition marshal (l : list hpair) : bytes :=
  0 :: be32 (as_uint32 (header_size l)) ++ marshal_pairs l.

(** ** readPairs(buff, start, end) — the loop, index for index, int32 arithmetic *)
Fixpoint read_pairs (fuel : nat) (buff : bytes) (i end_ : Z) (acc : list hpair)
  : res (list hpair) :=
  if i <? end_ then
    match fuel with
    | O => OutOfFuel
    | S fuel' =>
      if wrap32 (end_ - i) <? 4 then Err EInvalidData else
      do nb <- slice buff i (wrap32 (i + 4));
      let name_size := as_int32 (un_be32 nb) in
      let i1 := wrap32 (i + 4) in
      if (name_size <? 0) || (wrap32 (end_ - i1) <? name_size) then Err EInvalidData else
      do name <- slice buff i1 (wrap32 (i1 + name_size));
      let i2 := wrap32 (i1 + name_size) in
      if wrap32 (end_ - i2) <? 4 then Err EInvalidData else
      do vb <- slice buff i2 (wrap32 (i2 + 4));
      let value_size := as_int32 (un_be32 vb) in
      let i3 := wrap32 (i2 + 4) in
      if (value_size <? 0) || (wrap32 (end_ - i3) <? value_size) then Err EInvalidData else
      do value <- slice buff i3 (wrap32 (i3 + value_size));
      read_pairs fuel' buff (wrap32 (i3 + value_size)) end_ ((name, value) :: acc)
    end
  else Ok (rev acc).

(** every iteration consumes at least 8 bytes *)
Definition pairs_fuel (b : bytes) : nat := S (length b).

(** ** unmarshalHeadersFromFrame(frame) — frame starts after the version byte *)
Definition unmarshal_headers_from_frame (frame : bytes) : res (list hpair) :=
  if zlen frame <? 4 then Err EInvalidData else
  do sb <- slice frame 0 4;
  let size := as_int32 (un_be32 sb) in
  if (size <? 0) || (wrap32 (zlen frame - 4) <? size) then Err EInvalidData else
  read_pairs (pairs_fuel frame) frame 4 (wrap32 (size + 4)) [].

(** ** getHeadersFromFrame(frame) — frame starts at the version byte *)
Definition get_headers_from_frame (frame : bytes) : res (list hpair) :=
  match frame with
  | [] => Err EInvalidData
  | v :: rest => if v =? 0 then unmarshal_headers_from_frame rest else Err EBadVersion
  end.

(** ** stream path: readHeader / unmarshalHeaders over an io.Reader *)
Definition unmarshal_headers_stream (src : bytes) : res (list hpair * bytes) :=
  do (sb, src1) <- read_full src 4;
  let size := as_int32 (un_be32 sb) in
  if size <? 0 then Err EInvalidData else
  do (buff, src2) <- read_full src1 size;     (* io.CopyN into a growing buffer *)
  do ps <- read_pairs (pairs_fuel buff) buff 0 size [];
  Ok (ps, src2).

Definition read_header (src : bytes) : res (list hpair * bytes) :=
  do (vb, src1) <- read_full src 1;
  match vb with
  | [v] => if v =? 0 then unmarshal_headers_stream src1 else Err EBadVersion
  | _ => Panic PIndex
  end.

(** ** maps: Go's map[string]string built by successive assignment (last wins) *)
Fixpoint bytes_eqb (a b : bytes) : bool :=
  match a, b with
  | [], [] => true
  | x :: a', y :: b' => (x =? y) && bytes_eqb a' b'
  | _, _ => false
  end.
Fixpoint lookup (k : bytes) (l : list hpair) : option bytes :=
  match l with
  | [] => None
  | (k', v) :: l' => match lookup k l' with
                     | Some v' => Some v'
                     | None => if bytes_eqb k k' then Some v else None
                     end
  end.
(** canonical form: first occurrence position of each key, last value *)
Fixpoint remove_key (k : bytes) (l : list hpair) : list hpair :=
  match l with
  | [] => []
  | (k', v) :: l' => if bytes_eqb k k' then remove_key k l' else (k', v) :: remove_key k l'
  end.
Fixpoint assign (l : list hpair) (k v : bytes) : list hpair :=
  match l with
  | [] => [(k, v)]
  | (k', v') :: l' => if bytes_eqb k k' then (k', v) :: l' else (k', v') :: assign l' k v
  end.
Definition to_map (l : list hpair) : list hpair :=
  fold_left (fun m p => assign m (fst p) (snd p)) l [].

(** ** addHeadersToFrame(frame, headers): frame still has its 4-byte size prefix *)
Definition add_headers_to_frame (frame : bytes) (hs : list hpair) : res bytes :=
  if zlen frame <? 5 then Err EInvalidData else
  match nth_error frame 4 with
  | None => Panic PIndex
  | Some v =>
    if negb (v =? 0) then Err EBadVersion else
    do f5 <- slice_from frame 5;
    do existing <- unmarshal_headers_from_frame f5;
    let merged := fold_left (fun m p => assign m (fst p) (snd p)) hs (to_map existing) in
    let serialized := marshal merged in
    do ob <- slice f5 0 4;
    let old_size := as_int32 (un_be32 ob) in
    let frame_size := wrap32 (header_size merged + wrap32 (zlen frame) - old_size) in
    do _ <- make_bytes frame_size;
    do payload <- slice_from frame (wrap32 (9 + old_size));
    (* copies into a buffer of frame_size bytes: sizes agree when nothing overflowed *)
    Ok (be32 (as_uint32 (frame_size - 4)) ++ serialized ++ payload)
  end.

(** ** Python: frugal.util.headers._Headers *)
Definition py_write (l : list hpair) : bytes :=
  0 :: be32 (header_size l) ++ marshal_pairs l.   (* struct.pack '!I' *)

(** Python slicing never fails: out-of-range slices are clipped; unpack_from on a
    short buffer raises struct.error (an uncaught exception class: EOther). *)
Definition py_slice (b : bytes) (lo hi : Z) : bytes :=
  let lo := Z.min (Z.max lo 0) (zlen b) in
  let hi := Z.min (Z.max hi 0) (zlen b) in
  if lo <=? hi then sub b lo hi else [].
Definition py_unpack_uint (b : bytes) : res Z :=
  if zlen b <? 4 then Err EOther else Ok (un_be32 (take 4 b)).
Fixpoint py_read_pairs (fuel : nat) (buff : bytes) (i end_ : Z) (acc : list hpair)
  : res (list hpair) :=
  if i <? end_ then
    match fuel with
    | O => OutOfFuel
    | S fuel' =>
      do name_size <- py_unpack_uint (py_slice buff i (i + 4));
      let i1 := i + 4 in
      if (end_ <? i1) || (end_ <? i1 + name_size) then Err EInvalidData else
      let nm := py_slice buff i1 (i1 + name_size) in
      if zlen nm <? name_size then Err EOther else
      let i2 := i1 + name_size in
      do val_size <- py_unpack_uint (py_slice buff i2 (i2 + 4));
      let i3 := i2 + 4 in
      if (end_ <? i3) || (end_ <? i3 + val_size) then Err EInvalidData else
      let vl := py_slice buff i3 (i3 + val_size) in
      if zlen vl <? val_size then Err EOther else
      py_read_pairs fuel' buff (i3 + val_size) end_ ((nm, vl) :: acc)
    end
  else Ok (rev acc).

(** _Headers.decode_from_frame(frame): frame starts at the version byte *)
Definition py_decode_from_frame (frame : bytes) : res (list hpair) :=
  if zlen frame <? 5 then Err EInvalidData else
  match frame with
  | v :: _ =>
    if negb (v =? 0) then Err EBadVersion else
    let hsize := un_be32 (py_slice frame 1 5) in
    py_read_pairs (pairs_fuel frame) frame 5 (hsize + 5) []
  | [] => Err EInvalidData
  end.

(** _Headers._read(buffer): buffer.read(n) returns at most n bytes *)
Definition py_read (src : bytes) : res (list hpair * bytes) :=
  let vb := py_slice src 0 1 in
  match vb with
  | [v] =>
    if negb (v =? 0) then Err EBadVersion else
    do size <- py_unpack_uint (py_slice src 1 5);
    let buff := py_slice src 5 (5 + size) in
    do ps <- py_read_pairs (pairs_fuel buff) buff 0 size [];
    Ok (ps, drop (Z.to_nat (5 + size)) src)
  | _ => Err EOther
  end.
