(** The file-system side of parser.ParseFrugal shared by the parser model (C10) and the compiler's
    validation model (C11): relative paths and filepath.Clean, an abstract file system, the tree of a
    parsed file with its resolved includes ([ftree]), the ParsedIncludes map, the name helpers of
    Frugal.validate (include / parameter part of a dotted name, enum values, annotations) and
    sort.Sort(scopesByName).  [Frugal.validate] and [parseFrugal] themselves are transcribed ONCE, in
    Model/CompilerValidate.v ([cvalidate], [cparse]); Model/ParserFiles.v derives the ok / error view
    the C10 judge replays from them.  Executable definitions only. *)
From Coq Require Import ZArith List Bool.
From FV Require Import Model.Peg Model.ParserStrings Model.ParserAst Model.ParserActions Model.Parser.
Import ListNotations.
Open Scope Z_scope.

(** ** paths as lists of components *)
Fixpoint split_on (c : Z) (s : bytes) (cur : bytes) : list bytes :=
  match s with
  | [] => [rev cur]
  | x :: t => if x =? c then rev cur :: split_on c t [] else split_on c t (x :: cur)
  end.

Definition dotdot : bytes := [46; 46].
Definition dot : bytes := [46].

(** filepath.Clean on a relative path (components already split): "" and "." vanish, ".." pops *)
Fixpoint clean_rev (comps : list bytes) (acc : list bytes) : list bytes :=
  match comps with
  | [] => acc
  | c :: t =>
    if beqb c [] || beqb c dot then clean_rev t acc
    else if beqb c dotdot then
      match acc with
      | p :: acc' => if beqb p dotdot then clean_rev t (c :: acc) else clean_rev t acc'
      | [] => clean_rev t [c]
      end
    else clean_rev t (c :: acc)
  end.
Definition clean (comps : list bytes) : list bytes := rev (clean_rev comps []).

Definition path := list bytes.   (* cleaned components *)
Fixpoint path_eqb (a b : path) : bool :=
  match a, b with
  | [], [] => true
  | x :: a', y :: b' => beqb x y && path_eqb a' b'
  | _, _ => false
  end.

Definition fsys := list (path * bytes).

(** ** helpers of validate *)
Fixpoint has_dup (l : list bytes) : bool :=
  match l with
  | [] => false
  | x :: t => existsb (beqb x) t || has_dup t
  end.
Fixpoint has_dup_z (l : list Z) : bool :=
  match l with
  | [] => false
  | x :: t => existsb (Z.eqb x) t || has_dup_z t
  end.

Definition s_bool := [98; 111; 111; 108]. Definition s_byte := [98; 121; 116; 101].
Definition s_i8 := [105; 56]. Definition s_i16 := [105; 49; 54]. Definition s_i32 := [105; 51; 50].
Definition s_i64 := [105; 54; 52]. Definition s_double := [100; 111; 117; 98; 108; 101].
Definition s_string := [115; 116; 114; 105; 110; 103]. Definition s_binary := [98; 105; 110; 97; 114; 121].
Definition s_list := [108; 105; 115; 116]. Definition s_set := [115; 101; 116]. Definition s_map := [109; 97; 112].
Definition s_vendor := [118; 101; 110; 100; 111; 114].
Definition base_types : list bytes := [s_bool; s_byte; s_i8; s_i16; s_i32; s_i64; s_double; s_string; s_binary].

(** a parsed file with its resolved includes *)
Inductive ftree := FTree (name : bytes) (f : frugal) (incs : list (bytes * ftree)).
Definition ft_frugal (t : ftree) : frugal := match t with FTree _ f _ => f end.

Fixpoint inc_get (incs : list (bytes * ftree)) (k : bytes) : option ftree :=
  match incs with
  | [] => None
  | (k', t) :: r => if beqb k' k then Some t else inc_get r k
  end.


(** split at the first '.' *)
Definition include_part (n : bytes) : bytes := if contains_byte 46 n then take_until_eq 46 n else [].
Definition param_part (n : bytes) : bytes :=
  if contains_byte 46 n then skipn (S (length (take_until_eq 46 n))) n else n.


Definition has_ann (name : bytes) (a : annotations) : bool := existsb (fun p => beqb (fst p) name) a.

Definition has_enum_value (f : frugal) (en vn : bytes) : bool :=
  existsb (fun e => beqb en (en_name e) && existsb (fun v => beqb vn (ev_name v)) (en_values e)) (fr_enums f).

(** ** sort.Sort(scopesByName): names are pairwise distinct after validate, so any sort agrees *)
Fixpoint bytes_ltb (a b : bytes) : bool :=
  match a, b with
  | [], [] => false
  | [], _ :: _ => true
  | _ :: _, [] => false
  | x :: a', y :: b' => if x <? y then true else if y <? x then false else bytes_ltb a' b'
  end.
Fixpoint insert_scope (s : scope) (l : list scope) : list scope :=
  match l with
  | [] => [s]
  | q :: l' => if bytes_ltb (sc_name q) (sc_name s) then q :: insert_scope s l' else s :: l
  end.
Definition sort_scopes (l : list scope) : list scope := fold_right insert_scope [] l.

Definition with_scopes (f : frugal) (sc : list scope) : frugal :=
  mkfrugal (fr_includes f) (fr_namespaces f) (fr_typedefs f) (fr_constants f) (fr_enums f)
           (fr_structs f) (fr_exceptions f) (fr_unions f) (fr_services f) sc.

(** ** parseFrugal: include names, the ParsedIncludes map *)
Definition dot_thrift : bytes := [46; 116; 104; 114; 105; 102; 116].
Definition dot_frugal : bytes := [46; 102; 114; 117; 103; 97; 108].

(** insertion into the ParsedIncludes map (a later include with the same key replaces the earlier) *)
Fixpoint inc_put (incs : list (bytes * ftree)) (k : bytes) (t : ftree) : list (bytes * ftree) :=
  match incs with
  | [] => [(k, t)]
  | (k', t') :: r => if beqb k' k then (k, t) :: r else (k', t') :: inc_put r k t
  end.
