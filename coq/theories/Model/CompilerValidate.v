(** C11 — the validation pass and include resolution of the compiler, inside the model.

    Transcription of compiler/parser/types.go ([Frugal.validate] and everything it calls:
    the name-conflict loops, validateNamespaces, validateIncludes, validateConstants /
    validateConstant / findIdentifier, validateTypedefs with the circular-typedef marking loop,
    validateStructLike, validateServices = validateServiceTypes + validateServiceExtends +
    Service.validate, validateScopes, and the last pass validateValues = validateValue +
    validateDefaults with underlyingScopedType (audit.go), valueKind, describeValue, findEnum,
    findStructLike) and of compiler/parser/parser.go ([parseFrugal]: name derivation,
    circular-include detection by cleaned path, the duplicate-file-name check, include resolution,
    validation after the includes) over the parse-tree types of Model/ParserAst.v (C10's [frugal]
    record).

    Every function returns the EXACT text of the Go error (byte for byte; the judge compares
    it with what the real code returned), a panic, or fuel exhaustion.  The loops that have no
    syntactic bound in Go (the marking loop [for progress], the extends walk, UnderlyingType,
    underlyingScopedType, the include recursion) take fuel; Proofs/CompilerValidateProofs.v shows
    the stated bounds are always enough.

    The type-level questions (isValidType, the marking pass, UnderlyingType) are asked of the
    REDUCED file [reduce f incs] of Model/CompilerTotal.v, so that the theorems about typedef
    resolution proved there apply to what this validation accepts.  The value pass reads enums,
    struct fields and constants, which the reduced file does not have: it works on the parse trees
    ([vscope] = a file with its ParsedIncludes) and Proofs relate its typedef walk to UnderlyingType.

    Assumed (guaranteed by the grammar, checked by the judge on every observed tree): strings
    are ASCII; Type pointers of constants, typedefs, fields and operations are not nil.  Paths of
    a program do not climb above the directory of the root file; file identity is the cleaned
    path (no symbolic links).  Executable definitions only. *)
From Coq Require Import String ZArith List Bool.
From FV Require Import Base.Res Model.ParserStrings Model.ParserAst Model.Parser Model.ParserFsys.
From FV Require Model.CompilerTotal.
Import ListNotations.
Open Scope Z_scope.


(** * Results *)
Inductive vr := ROk | RErr (msg : bytes) | RPanic | RFuel.
Definition rand (a : vr) (b : unit -> vr) : vr := match a with ROk => b tt | other => other end.
Fixpoint rall {X} (p : X -> vr) (l : list X) : vr :=
  match l with [] => ROk | x :: t => rand (p x) (fun _ => rall p t) end.
Definition vr_res (r : vr) : res unit :=
  match r with ROk => Ok tt | RErr _ => Err EInvalidData | RPanic => Panic PIndex | RFuel => OutOfFuel end.

(** * Text *)
Definition T (s : string) : bytes := bytes_of_string s.
Definition cat (l : list bytes) : bytes := concat l.

(** %d of a Go int (64 bits: at most 19 digits) *)
Fixpoint dec_digits (fuel : nat) (n : Z) (acc : bytes) : bytes :=
  match fuel with
  | O => acc
  | S f => let acc' := (48 + n mod 10) :: acc in if n <? 10 then acc' else dec_digits f (n / 10) acc'
  end.
Definition fmt_int (z : Z) : bytes := if z <? 0 then 45 :: dec_digits 20 (- z) [] else dec_digits 20 z [].

(** %s of a []string: [a b c] *)
Fixpoint join_sp (l : list bytes) : bytes :=
  match l with [] => [] | [x] => x | x :: t => x ++ 32 :: join_sp t end.
Definition fmt_strings (l : list bytes) : bytes := 91 :: join_sp l ++ [93].

Definition type_name (t : ptype) : bytes := match t with PType n _ _ _ => n end.
(** Type.String() *)
Fixpoint type_string (t : ptype) : bytes :=
  match t with
  | PType n k v _ =>
    let ks := match k with Some x => type_string x | None => T "<nil>" end in
    let vs := match v with Some x => type_string x | None => T "<nil>" end in
    if beqb n s_map then cat [T "map<"; ks; T ","; vs; T ">"]
    else if beqb n s_list then cat [T "list<"; vs; T ">"]
    else if beqb n s_set then cat [T "set<"; vs; T ">"]
    else n
  end.

Definition conflict_error (kind n1 n2 : bytes) : bytes :=
  cat [kind; T " "; n1; T " and "; n2;
       T " conflict. Some languages do not support exported lowercase classes/methods. Only one of ";
       n1; T " or "; n2; T " may be used."].

(** * The reduced file the type questions are asked of *)
Fixpoint ty_of (t : ptype) : CompilerTotal.ty :=
  match t with
  | PType n k v _ =>
    CompilerTotal.Ty n (match k with Some x => ty_of x | None => CompilerTotal.TNil end)
            (match v with Some x => ty_of x | None => CompilerTotal.TNil end)
  end.

(** every type validate checks with isValidType apart from the typedef targets and the operation
    types of the scopes (parseFrugal reorders the scopes after validation; they are covered
    separately), in the order validate meets them *)
Definition method_types (m : method) : list ptype :=
  (match m_return m with Some t => [t] | None => [] end) ++ map f_type (m_args m) ++ map f_type (m_throws m).
Definition file_uses (f : frugal) : list ptype :=
  map c_type (fr_constants f)
  ++ flat_map (fun s => map f_type (s_fields s)) (fr_structs f)
  ++ flat_map (fun s => map f_type (s_fields s)) (fr_unions f)
  ++ flat_map (fun s => map f_type (s_fields s)) (fr_exceptions f)
  ++ flat_map (fun s => flat_map method_types (sv_methods s)) (fr_services f).

Definition reduce_with (f : frugal) (rincs : list (bytes * CompilerTotal.frugal)) : CompilerTotal.frugal :=
  CompilerTotal.Frugal (map (fun td => (td_name td, ty_of (td_type td))) (fr_typedefs f))
            (map s_name (fr_structs f)) (map s_name (fr_unions f)) (map s_name (fr_exceptions f))
            (map en_name (fr_enums f)) (map ty_of (file_uses f)) rincs.
Fixpoint reduce_tree (t : ftree) : CompilerTotal.frugal :=
  match t with
  | FTree _ f incs =>
    reduce_with f ((fix go (l : list (bytes * ftree)) : list (bytes * CompilerTotal.frugal) :=
                      match l with [] => [] | (k, sub) :: r => (k, reduce_tree sub) :: go r end) incs)
  end.
Definition reduce_incs (incs : list (bytes * ftree)) : list (bytes * CompilerTotal.frugal) :=
  map (fun p => (fst p, reduce_tree (snd p))) incs.
Definition reduce (f : frugal) (incs : list (bytes * ftree)) : CompilerTotal.frugal := reduce_with f (reduce_incs incs).

(** isValidType *)
Definition valid_ty (rf : CompilerTotal.frugal) (t : ptype) : bool := CompilerTotal.is_valid_type rf (ty_of t).

(** * validate: the name-conflict loops *)
Definition lower_ascii (c : Z) : Z := if (65 <=? c) && (c <=? 90) then c + 32 else c.
(** LowercaseFirstLetter: runes[0] panics on the empty string *)
Definition lc_first (s : bytes) : option bytes :=
  match s with [] => None | c :: t => Some (lower_ascii c :: t) end.

Fixpoint assoc_b (k : bytes) (l : list (bytes * bytes)) : option bytes :=
  match l with [] => None | (k', v) :: r => if beqb k' k then Some v else assoc_b k r end.

(** one iteration of a name loop: the map from the lowercased name to the name *)
Definition name_step (dup conf : bytes) (seen : list (bytes * bytes)) (name : bytes)
  : vr + list (bytes * bytes) :=
  match lc_first name with
  | None => inl RPanic
  | Some k =>
    match assoc_b k seen with
    | Some provided =>
      inl (RErr (if beqb name provided then cat [dup; name] else conflict_error conf name provided))
    | None => inr ((k, name) :: seen)
    end
  end.
Fixpoint check_names (dup conf : bytes) (seen : list (bytes * bytes)) (l : list bytes) : vr :=
  match l with
  | [] => ROk
  | n :: t => match name_step dup conf seen n with inl r => r | inr seen' => check_names dup conf seen' t end
  end.
Fixpoint check_services (seen : list (bytes * bytes)) (l : list service) : vr :=
  match l with
  | [] => ROk
  | s :: t =>
    match name_step (T "Duplicate service name ") (T "Services") seen (sv_name s) with
    | inl r => r
    | inr seen' =>
      rand (check_names (T "Duplicate method name ") (T "Methods") [] (map m_name (sv_methods s)))
           (fun _ => check_services seen' t)
    end
  end.
Fixpoint check_scopes (seen : list (bytes * bytes)) (l : list scope) : vr :=
  match l with
  | [] => ROk
  | s :: t =>
    match name_step (T "Duplicate scope name ") (T "Scopes") seen (sc_name s) with
    | inl r => r
    | inr seen' =>
      rand (check_names (T "Duplicate operation name ") (T "Operations") [] (map o_name (sc_ops s)))
           (fun _ => check_scopes seen' t)
    end
  end.

(** validateNamespaces, validateIncludes *)
Definition check_namespaces (l : list namespace) : vr :=
  rall (fun n => if beqb (n_scope n) [42] && has_ann s_vendor (n_anns n)
                 then RErr (T """vendor"" annotation not compatible with * namespace") else ROk) l.
Fixpoint check_includes (seen : list bytes) (l : list include) : vr :=
  match l with
  | [] => ROk
  | i :: t => if existsb (beqb (i_name i)) seen then RErr (cat [T "Duplicate include: "; i_name i])
              else check_includes (i_name i :: seen) t
  end.

(** * validateConstant *)
Definition has_constant (f : frugal) (n : bytes) : bool := existsb (fun x => beqb n (c_name x)) (fr_constants f).

(** a file with its ParsedIncludes: the scope a type name is read in *)
Definition vscope : Type := frugal * list (bytes * ftree).
Definition scope_of_tree (t : ftree) : vscope := match t with FTree _ f incs => (f, incs) end.

(** findEnumValue: the first enum of that name which declares the value *)
Fixpoint find_enum_value (l : list enum) (en vn : bytes) : option (enum * enum_value) :=
  match l with
  | [] => None
  | e :: r =>
    if beqb en (en_name e) then
      match find (fun v => beqb vn (ev_name v)) (en_values e) with
      | Some v => Some (e, v)
      | None => find_enum_value r en vn
      end
    else find_enum_value r en vn
  end.
Definition find_constant (f : frugal) (n : bytes) : option constant := find (fun x => beqb n (c_name x)) (fr_constants f).

(** IdentifierContext: a constant with the file which declares it, or an enum value *)
Inductive ictx := IConst (decl : vscope) (c : constant) | IEnum (e : enum) (v : enum_value).

(** findIdentifier: what the identifier names, or the diagnostic *)
Definition find_identifier (f : frugal) (incs : list (bytes * ftree)) (name : bytes) : bytes + ictx :=
  match split_on 46 name [] with
  | [_] => match find_constant f name with
           | Some c => inr (IConst (f, incs) c)
           | None => inl (cat [T "Referenced constant "; name; T " not found"])
           end
  | [inc; pn] =>
    match find_enum_value (fr_enums f) inc pn with
    | Some (e, v) => inr (IEnum e v)
    | None =>
      match (if beqb inc [] then Some (f, incs) else option_map scope_of_tree (inc_get incs inc)) with
      | None => inl (cat [T "Include "; inc; T " not found"])
      | Some d =>
        match find_constant (fst d) pn with
        | Some c => inr (IConst d c)
        | None => inl (cat [T "Referenced constant "; pn; T " from include "; inc; T " not found"])
        end
      end
    end
  | [inc; en; vn] =>
    match option_map ft_frugal (inc_get incs inc) with
    | Some fr => match find_enum_value (fr_enums fr) en vn with
                 | Some (e, v) => inr (IEnum e v)
                 | None => inl (cat [T "Invalid constant name "; name])
                 end
    | None => inl (cat [T "Invalid constant name "; name])
    end
  | _ => inl (cat [T "Invalid constant name "; name])
  end.

Definition check_identifier (f : frugal) (incs : list (bytes * ftree)) (name : bytes) : vr :=
  match find_identifier f incs name with inl m => RErr m | inr _ => ROk end.

Definition check_constant (f : frugal) (incs : list (bytes * ftree)) (rf : CompilerTotal.frugal) (c : constant) : vr :=
  if negb (valid_ty rf (c_type c)) then RErr (cat [T "Invalid type "; type_name (c_type c)])
  else match c_value c with
       | CIdent name => check_identifier f incs name
       | _ => ROk
       end.

(** * validateTypedefs *)
(** the loop [for progress := true; progress;]: a pass that marks nothing ends it *)
Fixpoint mark_loop (fuel : nat) (rf : CompilerTotal.frugal) (resolved : list bytes) : option (list bytes) :=
  match fuel with
  | O => None
  | S n =>
    let r' := CompilerTotal.mark_round rf resolved in
    if (length r' =? length resolved)%nat then Some r' else mark_loop n rf r'
  end.

Definition check_typedefs (fuel : nat) (f : frugal) (rf : CompilerTotal.frugal) : vr :=
  rand (rall (fun td => if valid_ty rf (td_type td) then ROk
                        else RErr (cat [T "Invalid alias "; td_name td; T ", type "; type_name (td_type td);
                                        T " doesn't exist"])) (fr_typedefs f)) (fun _ =>
  match mark_loop fuel rf [] with
  | None => RFuel
  | Some resolved =>
    rall (fun td => if CompilerTotal.mem (td_name td) resolved then ROk
                    else RErr (cat [T "Circular typedef "; td_name td])) (fr_typedefs f)
  end).

(** * validateStructLike (ids, then names, field by field) *)
Fixpoint check_fields (rf : CompilerTotal.frugal) (sname : bytes) (fs : list field) (ids : list Z) (names : list bytes) : vr :=
  match fs with
  | [] => ROk
  | x :: t =>
    if negb (valid_ty rf (f_type x)) then
      RErr (cat [T "Invalid type "; type_string (f_type x); T " on struct "; sname])
    else if existsb (Z.eqb (f_id x)) ids then
      RErr (cat [T "Duplicate field id "; fmt_int (f_id x); T " in struct "; sname])
    else if existsb (beqb (f_name x)) names then
      RErr (cat [T "Duplicate field name "; f_name x; T " in struct "; sname])
    else check_fields rf sname t (f_id x :: ids) (f_name x :: names)
  end.
Definition check_struct (rf : CompilerTotal.frugal) (s : struct) : vr := check_fields rf (s_name s) (s_fields s) [] [].

(** * validateServices *)
(** isException: the underlying type names an exception of this file / of the include *)
Definition is_exception (fuel : nat) (f : frugal) (incs : list (bytes * ftree)) (rf : CompilerTotal.frugal) (t : ptype)
  : option bool :=
  match CompilerTotal.underlying fuel rf (ty_of t) with
  | CompilerTotal.COk (CompilerTotal.Ty name _ _) =>
    let inc := include_part name in
    match (if beqb inc [] then Some f else option_map ft_frugal (inc_get incs inc)) with
    | None => Some false
    | Some fr => Some (existsb (fun e => beqb (param_part name) (s_name e)) (fr_exceptions fr))
    end
  | _ => None
  end.

Definition method_where (sname mname : bytes) : bytes := cat [sname; T "."; mname].

Definition check_method_types (fuel : nat) (f : frugal) (incs : list (bytes * ftree)) (rf : CompilerTotal.frugal)
           (sname : bytes) (m : method) : vr :=
  rand (match m_return m with
        | Some t => if valid_ty rf t then ROk
                    else RErr (cat [T "Invalid return type "; type_name t; T " for "; method_where sname (m_name m)])
        | None => ROk
        end) (fun _ =>
  rand (rall (fun a => if valid_ty rf (f_type a) then ROk
                       else RErr (cat [T "Invalid argument type "; type_name (f_type a); T " for ";
                                       method_where sname (m_name m)])) (m_args m)) (fun _ =>
        rall (fun a => if negb (valid_ty rf (f_type a)) then
                         RErr (cat [T "Invalid exception type "; type_name (f_type a); T " for ";
                                    method_where sname (m_name m)])
                       else match is_exception fuel f incs rf (f_type a) with
                            | None => RFuel
                            | Some true => ROk
                            | Some false =>
                              RErr (cat [T "Invalid exception type "; type_name (f_type a); T " for ";
                                         method_where sname (m_name m); T ": not an exception"])
                            end) (m_throws m))).

(** Service.ExtendsInclude / ExtendsService: strings.Split(s.Extends, ".") of length 2 *)
Definition extends_include (e : bytes) : bytes := match split_on 46 e [] with [a; _] => a | _ => [] end.
Definition extends_service (e : bytes) : bytes := match split_on 46 e [] with [_; b] => b | _ => e end.
Fixpoint find_service (l : list service) (n : bytes) : option service :=
  match l with [] => None | s :: t => if beqb n (sv_name s) then Some s else find_service t n end.

Definition invalid_extends (cur : service) : vr :=
  RErr (cat [T "Invalid extends "; sv_extends cur; T " for service "; sv_name cur]).

(** validateServiceExtends: the walk along the services of this file *)
Fixpoint extends_walk (fuel : nat) (f : frugal) (incs : list (bytes * ftree)) (start cur : service)
         (visited : list bytes) : vr :=
  match fuel with
  | O => RFuel
  | S n =>
    if beqb (sv_extends cur) [] then ROk
    else if existsb (beqb (sv_name cur)) visited then RErr (cat [T "Circular extends "; sv_name start])
    else
      let inc := extends_include (sv_extends cur) in
      if negb (beqb inc []) then
        match inc_get incs inc with
        | None => invalid_extends cur
        | Some sub =>
          match find_service (fr_services (ft_frugal sub)) (extends_service (sv_extends cur)) with
          | None => invalid_extends cur
          | Some _ => ROk
          end
        end
      else
        match find_service (fr_services f) (extends_service (sv_extends cur)) with
        | None => invalid_extends cur
        | Some next => extends_walk n f incs start next (sv_name cur :: visited)
        end
  end.

(** Service.validate: oneway rules, then duplicate ids / names among the arguments and among
    the exceptions *)
Fixpoint check_dups (wh : bytes) (fs : list field) (ids : list Z) (names : list bytes) : vr :=
  match fs with
  | [] => ROk
  | x :: t =>
    if existsb (Z.eqb (f_id x)) ids then
      RErr (cat [T "Duplicate field id "; fmt_int (f_id x); T " in method "; wh])
    else if existsb (beqb (f_name x)) names then
      RErr (cat [T "Duplicate field name "; f_name x; T " in method "; wh])
    else check_dups wh t (f_id x :: ids) (f_name x :: names)
  end.
Definition check_method_rules (sname : bytes) (m : method) : vr :=
  let wh := method_where sname (m_name m) in
  rand (if m_oneway m then
          match m_throws m with
          | _ :: _ => RErr (cat [T "Oneway method "; wh; T " cannot throw an exception"])
          | [] => match m_return m with
                  | Some t => RErr (cat [T "Void method "; wh; T " cannot return "; type_string t])
                  | None => ROk
                  end
          end
        else ROk) (fun _ =>
  rand (check_dups wh (m_args m) [] []) (fun _ => check_dups wh (m_throws m) [] [])).

Definition check_service (fuel : nat) (f : frugal) (incs : list (bytes * ftree)) (rf : CompilerTotal.frugal) (s : service) : vr :=
  rand (rall (check_method_types fuel f incs rf (sv_name s)) (sv_methods s)) (fun _ =>
  rand (extends_walk fuel f incs s s []) (fun _ =>
        rall (check_method_rules (sv_name s)) (sv_methods s))).

(** * validateScopes *)
Fixpoint first_dup_var (seen vars : list bytes) : option bytes :=
  match vars with
  | [] => None
  | v :: t => if existsb (beqb v) seen then Some v else first_dup_var (v :: seen) t
  end.
(** validateScopeTypes: each prefix variable may be named once (it becomes a parameter of the
    generated publisher and subscriber), then the operation types *)
Definition check_scope (rf : CompilerTotal.frugal) (s : scope) : vr :=
  rand (match first_dup_var [] (p_vars (sc_prefix s)) with
        | Some v => RErr (cat [T "Duplicate prefix variable "; v; T " in scope "; sc_name s])
        | None => ROk
        end) (fun _ =>
  rall (fun o => if valid_ty rf (o_type o) then ROk
                 else RErr (cat [T "Invalid operation type "; type_name (o_type o); T " for ";
                                 method_where (sc_name s) (o_name o)])) (sc_ops s)).

(** * validateValues (constant values and default values against their declared types) *)
(** typedefIndex[name]: the last declaration of a name *)
Definition find_typedef (f : frugal) (n : bytes) : option typedef :=
  CompilerTotal.lookup_last n (map (fun td => (td_name td, td)) (fr_typedefs f)).

(** the file the name of a type is looked up in: the include it is prefixed with (None: no such
    include), else the scope itself *)
Definition declaring_file (sc : vscope) (name : bytes) : option vscope :=
  let inc := CompilerTotal.include_name name in
  if CompilerTotal.is_nil inc then Some sc else option_map scope_of_tree (inc_get (snd sc) inc).

(** underlyingScopedType (audit.go): follow typedefs, each target read in the scope of the file
    which declares the typedef; one unit of fuel per turn of the loop *)
Fixpoint uscoped (fuel : nat) (sc : vscope) (t : ptype) : option (vscope * ptype) :=
  match fuel with
  | O => None
  | S n =>
    match declaring_file sc (type_name t) with
    | None => Some (sc, t)
    | Some d =>
      match find_typedef (fst d) (CompilerTotal.param_name (type_name t)) with
      | None => Some (sc, t)
      | Some td => uscoped n d (td_type td)
      end
    end
  end.

(** findEnum, findStructLike *)
Definition find_enum (sc : vscope) (name : bytes) : option enum :=
  match declaring_file sc name with
  | Some d => find (fun e => beqb (en_name e) (CompilerTotal.param_name name)) (fr_enums (fst d))
  | None => None
  end.
Definition find_struct_like (sc : vscope) (name : bytes) : option (vscope * struct) :=
  match declaring_file sc name with
  | Some d =>
    match find (fun x => beqb (s_name x) (CompilerTotal.param_name name))
               (fr_structs (fst d) ++ fr_unions (fst d) ++ fr_exceptions (fst d)) with
    | Some x => Some (d, x)
    | None => None
    end
  | None => None
  end.

Definition k_integer : bytes := T "integer".
Definition k_string : bytes := T "string".
Definition int_names : list bytes := [s_i8; s_byte; s_i16; s_i32; s_i64].
(** valueKind *)
Definition value_kind (sc : vscope) (t : ptype) : bytes :=
  let n := type_name t in
  if existsb (beqb n) int_names then k_integer
  else if beqb n s_string || beqb n s_binary then k_string
  else if existsb (beqb n) [s_bool; s_double; s_list; s_set; s_map] then n
  else match find_enum sc n with
       | Some _ => cat [T "enum "; CompilerTotal.param_name n]
       | None => cat [T "struct "; CompilerTotal.param_name n]
       end.

(** describeValue *)
Definition describe (v : cvalue) : bytes :=
  match v with
  | CIdent s => cat [T "identifier "; s]
  | CStr _ => T "a string"
  | CBool _ => T "a bool"
  | CInt z => cat [T "integer "; fmt_int z]
  | CDouble _ => T "a double"
  | CList _ => T "a list"
  | CMap _ => T "a map"
  | COther => T "no value"
  end.

Definition in_range (bits : Z) (z : Z) : bool := (- 2 ^ (bits - 1) <=? z) && (z <? 2 ^ (bits - 1)).

Definition key_type (t : ptype) : option ptype := match t with PType _ k _ _ => k end.
Definition elem_type (t : ptype) : option ptype := match t with PType _ _ v _ => v end.
(** the loop over the fields of a struct literal's struct: the field(s) of that name; and [rall]
    with the function outside the fixpoint (so that it can be used in the nested recursion over
    values) *)
Definition fields_named (chk : field -> vr) (name : bytes) : list field -> vr :=
  fix go (fs : list field) : vr :=
    match fs with
    | [] => ROk
    | fd :: r => if beqb (f_name fd) name then rand (chk fd) (fun _ => go r) else go r
    end.
Definition ralls {X} (p : X -> vr) : list X -> vr :=
  fix go (l : list X) : vr := match l with [] => ROk | x :: t => rand (p x) (fun _ => go t) end.

(** validateValue.  [home]: the file being validated (identifiers are looked up there);
    [sc]: the scope the type is read in.  A nil element type would be dereferenced. *)
Fixpoint check_value (fuel : nat) (home : vscope) (what : bytes) (sc : vscope) (t : ptype) (v : cvalue) {struct v} : vr :=
  match uscoped fuel sc t with
  | None => RFuel
  | Some (sc', t') =>
    let n := type_name t' in
    let mismatch := RErr (cat [T "Invalid value for "; what; T ": expected "; type_string t'; T ", got "; describe v]) in
    match v with
    | CIdent name =>
      match find_identifier (fst home) (snd home) name with
      | inl m => RErr m
      | inr (IConst decl c) =>
        match uscoped fuel decl (c_type c) with
        | None => RFuel
        | Some (dsc, dt) =>
          let expected := value_kind sc' t' in
          let declared := value_kind dsc dt in
          if beqb expected declared || (beqb expected s_double && beqb declared k_integer) then ROk else mismatch
        end
      | inr (IEnum e ev) =>
        match find_enum sc' n with
        | Some e' =>
          if beqb (en_name e') (en_name e) && existsb (fun x => beqb (ev_name x) (ev_name ev)) (en_values e')
          then ROk else mismatch
        | None => mismatch
        end
      end
    | CStr _ => if beqb n s_string || beqb n s_binary then ROk else mismatch
    | CBool _ => if beqb n s_bool then ROk else mismatch
    | CDouble _ => if beqb n s_double then ROk else mismatch
    | CInt z =>
      if beqb n s_i8 || beqb n s_byte then (if in_range 8 z then ROk else mismatch)
      else if beqb n s_i16 then (if in_range 16 z then ROk else mismatch)
      else if beqb n s_i32 then (if in_range 32 z then ROk else mismatch)
      else if beqb n s_i64 || beqb n s_double then ROk
      else match find_enum sc' n with
           | Some e => if existsb (fun x => ev_value x =? z) (en_values e) then ROk else mismatch
           | None => mismatch
           end
    | CList l =>
      if beqb n s_list || beqb n s_set then
        ralls (fun x => match elem_type t' with
                       | Some et => check_value fuel home what sc' et x
                       | None => RPanic
                       end) l
      else mismatch
    | CMap l =>
      if beqb n s_map then
        ralls (fun kv => match key_type t' with
                        | None => RPanic
                        | Some kt =>
                          rand (check_value fuel home what sc' kt (fst kv)) (fun _ =>
                          match elem_type t' with
                          | Some et => check_value fuel home what sc' et (snd kv)
                          | None => RPanic
                          end)
                        end) l
      else
        match find_struct_like sc' n with
        | None => mismatch
        | Some (d, s) =>
          ralls (fun kv =>
                  let fields (name : bytes) :=
                      fields_named (fun fd => check_value fuel home what d (f_type fd) (snd kv)) name (s_fields s) in
                  match fst kv with
                  | CStr name => fields name
                  | CIdent name => fields name
                  | k => RErr (cat [T "Invalid value for "; what; T ": expected a field name of "; type_string t';
                                    T ", got "; describe k])
                  end) l
        end
    | COther => mismatch
    end
  end.

(** validateDefaults *)
Definition check_defaults (fuel : nat) (home : vscope) (wh : bytes) (fs : list field) : vr :=
  rall (fun fd => match f_default fd with
                  | None => ROk
                  | Some v => check_value fuel home (cat [T "field "; f_name fd; T " of "; wh]) home (f_type fd) v
                  end) fs.

(** validateValues *)
Definition check_values (fuel : nat) (f : frugal) (incs : list (bytes * ftree)) : vr :=
  let home : vscope := (f, incs) in
  rand (rall (fun c => check_value fuel home (cat [T "constant "; c_name c]) home (c_type c) (c_value c)) (fr_constants f)) (fun _ =>
  rand (rall (fun s => check_defaults fuel home (cat [T "struct "; s_name s]) (s_fields s))
             (fr_structs f ++ fr_unions f ++ fr_exceptions f)) (fun _ =>
        rall (fun sv => rall (fun m => let wh := cat [T "method "; method_where (sv_name sv) (m_name m)] in
                                       rand (check_defaults fuel home wh (m_args m)) (fun _ =>
                                             check_defaults fuel home wh (m_throws m))) (sv_methods sv))
             (fr_services f))).

(** * Frugal.validate *)
(** everything but the last pass: names, namespaces, includes, constants (type and top-level
    identifier), typedefs, structs, services, scopes *)
Definition cvalidate_decls (fuel : nat) (f : frugal) (incs : list (bytes * ftree)) : vr :=
  let rf := reduce f incs in
  rand (check_services [] (fr_services f)) (fun _ =>
  rand (check_scopes [] (fr_scopes f)) (fun _ =>
  rand (check_namespaces (fr_namespaces f)) (fun _ =>
  rand (check_includes [] (fr_includes f)) (fun _ =>
  rand (rall (check_constant f incs rf) (fr_constants f)) (fun _ =>
  rand (check_typedefs fuel f rf) (fun _ =>
  rand (rall (check_struct rf) (fr_structs f)) (fun _ =>
  rand (rall (check_struct rf) (fr_unions f)) (fun _ =>
  rand (rall (check_struct rf) (fr_exceptions f)) (fun _ =>
  rand (rall (check_service fuel f incs rf) (fr_services f)) (fun _ =>
        rall (check_scope rf) (fr_scopes f))))))))))).

(** the last pass, validateValues, runs once the declarations have been validated *)
Definition cvalidate (fuel : nat) (f : frugal) (incs : list (bytes * ftree)) : vr :=
  rand (cvalidate_decls fuel f incs) (fun _ => check_values fuel f incs).

(** fuel that is always enough for [cvalidate] (Proofs): the typedefs of the file and of what
    it includes, the number of files, the services of the file *)
Definition validate_fuel (f : frugal) (incs : list (bytes * ftree)) : nat :=
  S (CompilerTotal.weight (reduce f incs) + length (fr_services f)).

(** * parseFrugal over a file system of parse results *)
Inductive fentry := FParsed (f : frugal) | FSyntax (msg : bytes).
Definition pfs := list (path * fentry).
Fixpoint pfs_get (fs : pfs) (p : path) : option fentry :=
  match fs with [] => None | (q, e) :: t => if path_eqb q p then Some e else pfs_get t p end.

Inductive pres := POk (t : ftree) | PErr (msg : bytes) | PPanic | PFuel.

Fixpoint join_slash (l : list bytes) : bytes :=
  match l with [] => [] | [x] => x | x :: t => x ++ 47 :: join_slash t end.

(** the loop over the includes of a file; [rec] parses one included file *)
Fixpoint includes_loop (rec : path -> pres) (dir : path) (l : list include) (acc : list (bytes * ftree))
  : pres + list (bytes * ftree) :=
  match l with
  | [] => inr acc
  | i :: t =>
    let v := i_value i in
    if negb (has_suffix dot_thrift v || has_suffix dot_frugal v) then
      inl (PErr (cat [T "Bad include name: "; v]))
    else
      match rec (clean (dir ++ split_on 47 v [])) with
      | POk sub => includes_loop rec dir t (inc_put acc (filepath_base (firstn (length v - 7) v)) sub)
      | PErr m => inl (PErr (cat [T "Include "; v; T ": "; m]))
      | PPanic => inl PPanic
      | PFuel => inl PFuel
      end
  end.

(** getName: the base name must consist of exactly two dot-separated parts *)
Definition file_stem (p : path) : option bytes :=
  match split_on 46 (last p []) [] with [name; _] => Some name | _ => None end.

(** the files being parsed (the chain of includes which leads to the current file): name and
    cleaned path of each, outermost first (visitedIncludes, visitedPaths) *)
Definition chain := list (bytes * path).
Fixpoint dup_name (name : bytes) (c : chain) : option path :=
  match c with
  | [] => None
  | (n, q) :: r => if beqb n name then Some q else dup_name name r
  end.

Fixpoint cparse (fuel : nat) (fs : pfs) (p : path) (visited : chain) : pres :=
  match fuel with
  | O => PFuel
  | S fuel' =>
    match pfs_get fs p with
    | None => PErr (cat [T "open "; join_slash p; T ": no such file or directory"])
    | Some e =>
      match file_stem p with
      | Some name =>
        if existsb (path_eqb p) (map snd visited) then
          PErr (cat [T "Circular include: "; fmt_strings (map fst visited ++ [name])])
        else
          match dup_name name visited with
          | Some q =>
            PErr (cat [T "Duplicate file name "; name; T ": "; join_slash p; T " is included by way of "; join_slash q;
                       T " (includes and generated code are named after the file name)"])
          | None =>
            match e with
            | FSyntax msg => PErr msg
            | FParsed f =>
              match includes_loop (fun q => cparse fuel' fs q (visited ++ [(name, p)])) (removelast p) (fr_includes f) [] with
              | inl e => e
              | inr incs =>
                match cvalidate (validate_fuel f incs) f incs with
                | ROk => POk (FTree name (with_scopes f (sort_scopes (fr_scopes f))) incs)
                | RErr m => PErr m
                | RPanic => PPanic
                | RFuel => PFuel
                end
              end
            end
          end
      | None => PErr (cat [T "Invalid file: "; join_slash p])
      end
    end
  end.

Definition cparse_program (fs : pfs) (root : path) : pres := cparse (S (length fs)) fs root [].
Definition pres_res (r : pres) : res ftree :=
  match r with POk t => Ok t | PErr _ => Err EInvalidData | PPanic => Panic PIndex | PFuel => OutOfFuel end.

(** * What the generators rely on (decidable versions; Proofs relate them to [cvalidate]) *)
(** the code before the repairs of this property: no extends check, no exception check, no
    duplicate-name check (used by the [_refuted] witnesses) *)
Definition check_service_pinned (f : frugal) (incs : list (bytes * ftree)) (rf : CompilerTotal.frugal) (s : service) : vr :=
  rand (rall (fun m =>
          rand (match m_return m with
                | Some t => if valid_ty rf t then ROk else RErr (T "Invalid return type")
                | None => ROk end) (fun _ =>
          rand (rall (fun a => if valid_ty rf (f_type a) then ROk else RErr (T "Invalid argument type")) (m_args m)) (fun _ =>
                rall (fun a => if valid_ty rf (f_type a) then ROk else RErr (T "Invalid exception type")) (m_throws m))))
          (sv_methods s)) (fun _ =>
        rall (fun m =>
          rand (if m_oneway m then
                  match m_throws m, m_return m with
                  | _ :: _, _ => RErr (T "Oneway method cannot throw")
                  | [], Some _ => RErr (T "Void method cannot return")
                  | [], None => ROk
                  end
                else ROk) (fun _ =>
          if has_dup_z (map f_id (m_args m)) then RErr (T "Duplicate field id") else ROk)) (sv_methods s)).
Definition check_struct_pinned (rf : CompilerTotal.frugal) (s : struct) : vr :=
  (fix go (fs : list field) (ids : list Z) : vr :=
     match fs with
     | [] => ROk
     | x :: t => if negb (valid_ty rf (f_type x)) then RErr (T "Invalid type")
                 else if existsb (Z.eqb (f_id x)) ids then RErr (T "Duplicate field id")
                 else go t (f_id x :: ids)
     end) (s_fields s) [].
(** validateScopes before the repair of C11-K12: the operation types only, no look at the prefix *)
Definition check_scope_pinned (rf : CompilerTotal.frugal) (s : scope) : vr :=
  rall (fun o => if valid_ty rf (o_type o) then ROk
                 else RErr (cat [T "Invalid operation type "; type_name (o_type o); T " for ";
                                 method_where (sc_name s) (o_name o)])) (sc_ops s).
Definition cvalidate_pinned (fuel : nat) (f : frugal) (incs : list (bytes * ftree)) : vr :=
  let rf := reduce f incs in
  rand (check_services [] (fr_services f)) (fun _ =>
  rand (check_scopes [] (fr_scopes f)) (fun _ =>
  rand (check_namespaces (fr_namespaces f)) (fun _ =>
  rand (check_includes [] (fr_includes f)) (fun _ =>
  rand (rall (check_constant f incs rf) (fr_constants f)) (fun _ =>
  rand (check_typedefs fuel f rf) (fun _ =>
  rand (rall (check_struct_pinned rf) (fr_structs f)) (fun _ =>
  rand (rall (check_struct_pinned rf) (fr_unions f)) (fun _ =>
  rand (rall (check_struct_pinned rf) (fr_exceptions f)) (fun _ =>
  rand (rall (check_service_pinned f incs rf) (fr_services f)) (fun _ =>
        rall (check_scope rf) (fr_scopes f))))))))))).

(** parseFrugal before the repair of C11-K14: a cycle is a repeated file NAME *)
Fixpoint cparse_pinned (fuel : nat) (fs : pfs) (p : path) (visited : list bytes) : pres :=
  match fuel with
  | O => PFuel
  | S fuel' =>
    match pfs_get fs p with
    | None => PErr (cat [T "open "; join_slash p; T ": no such file or directory"])
    | Some e =>
      match file_stem p with
      | Some name =>
        if existsb (beqb name) visited then PErr (cat [T "Circular include: "; fmt_strings (visited ++ [name])])
        else
          match e with
          | FSyntax msg => PErr msg
          | FParsed f =>
            match includes_loop (fun q => cparse_pinned fuel' fs q (visited ++ [name])) (removelast p) (fr_includes f) [] with
            | inl e => e
            | inr incs =>
              match cvalidate_pinned (validate_fuel f incs) f incs with
              | ROk => POk (FTree name (with_scopes f (sort_scopes (fr_scopes f))) incs)
              | RErr m => PErr m
              | RPanic => PPanic
              | RFuel => PFuel
              end
            end
          end
      | None => PErr (cat [T "Invalid file: "; join_slash p])
      end
    end
  end.
Definition cparse_program_pinned (fs : pfs) (root : path) : pres := cparse_pinned (S (length fs)) fs root [].
