(** Receiving entry points of lib/go (C05): what each does with an arbitrary byte string.
    The Thrift message layer below the Frugal header is a section variable. *)
From Coq Require Import ZArith List Lia Bool.
From FV Require Import Base.Res Base.Bytes Base.GoSem Model.Headers.
Import ListNotations.
Open Scope Z_scope.

(** strconv.ParseUint(s, 10, 64) *)
Fixpoint parse_digits (s : bytes) (acc : Z) : option Z :=
  match s with
  | [] => Some acc
  | c :: s' => if (48 <=? c) && (c <=? 57) then parse_digits s' (acc * 10 + (c - 48)) else None
  end.
Definition parse_uint64 (s : bytes) : option Z :=
  match s with
  | [] => None
  | _ => match parse_digits s 0 with
         | Some v => if v <? 18446744073709551616 then Some v else None
         | None => None
         end
  end.

Definition opid_header : bytes := [95; 111; 112; 105; 100].   (* "_opid" *)
Definition lookup_default (k : bytes) (l : list hpair) : bytes :=
  match lookup k l with Some v => v | None => [] end.

(** fRegistryImpl.Execute(frame): frame starts at the version byte.
    [Ok op]: dispatched to op's channel if registered, otherwise dropped. *)
Definition registry_execute (frame : bytes) : res Z :=
  do hs <- get_headers_from_frame frame;
  match parse_uint64 (lookup_default opid_header hs) with
  | Some op => Ok op
  | None => Err EOther
  end.

(** fBaseTransport.ExecuteFrame(frame): frame still has its 4-byte size prefix (NATS inbox) *)
Definition execute_frame (frame : bytes) : res Z :=
  if zlen frame <? 4 then Err EInvalidData else
  do f <- slice_from frame 4;
  registry_execute f.

(** FProtocol.ReadRequestHeader on a transport holding [src]: Ok (request headers, op id, rest) *)
Definition read_request_header (src : bytes) : res (list hpair * bytes * bytes) :=
  do (hs, rest) <- read_header src;
  match lookup opid_header hs with
  | Some op => Ok (hs, op, rest)
  | None => Err EInvalidData
  end.

Inductive outcome := Handled | Rejected (e : errk).
Inductive step_result := Continue (o : outcome) | Exit | Crash.

Definition of_res {A} (r : res A) : step_result :=
  match r with
  | Ok _ => Continue Handled
  | Err e => Continue (Rejected e)
  | Panic _ | OutOfFuel => Crash
  end.

(** a receiver loop: processes messages until the body exits or crashes *)
Fixpoint run_loop (body : bytes -> step_result) (ms : list bytes) : list step_result :=
  match ms with
  | [] => []
  | m :: ms' => match body m with
                | Continue o => Continue o :: run_loop body ms'
                | Exit => [Exit]
                | Crash => [Crash]
                end
  end.

Section Receivers.
  (** ReadMessageBegin + generated struct readers + handler/callback on the bytes after the header *)
  Variable thrift_layer : bytes -> res unit.

  (** NATS client inbox callback (fNatsTransport.handler -> handleOpResponse) *)
  Definition nats_client_body (m : bytes) : step_result := of_res (execute_frame m).

  (** NATS server worker (processFrame) / simple server and HTTP after the prefix: header then Thrift *)
  Definition process_request (payload : bytes) : res unit :=
    do (_, rest) <- read_request_header payload;
    thrift_layer rest.
  Definition nats_server_body (m : bytes) : step_result :=
    if zlen m <? 4 then Continue (Rejected EInvalidData) else
    match slice_from m 4 with
    | Ok f => of_res (process_request f)
    | _ => Crash
    end.

  (** NATS scope subscriber worker and STOMP processMessages: discard short frames, continue *)
  Definition scope_body (m : bytes) : step_result :=
    if zlen m <? 4 then Continue (Rejected EInvalidData) else
    match slice_from m 4 with
    | Ok f => of_res (process_request f)
    | _ => Crash
    end.

  (** HTTP handler after base64 decoding: needs the 4-byte prefix, then header then Thrift *)
  Definition http_body (decoded : bytes) : step_result :=
    match read_full decoded 4 with
    | Ok (_, rest) => of_res (process_request rest)
    | Err e => Continue (Rejected e)
    | _ => Crash
    end.

  (** adapter transport read loop over a byte stream that then ends: frames are
      [be32 size ++ body]; returns how the connection ends *)
  Inductive conn_end := ClosedClean | ClosedWith (e : errk) | ConnCrash | ConnFuel.
  Definition max_frame : Z := 16384000.
  Fixpoint adapter_read_loop (fuel : nat) (stream : bytes) : conn_end :=
    match fuel with
    | O => ConnFuel
    | S fuel' =>
      match stream with
      | [] => ClosedClean                                    (* EOF between frames -> Close() *)
      | _ =>
        match read_full stream 4 with
        | Ok (sb, s1) =>
          let size := un_be32 sb in
          if max_frame <? size then ClosedWith EOther else
          match read_full s1 size with
          | Ok (frame, s2) =>
            match registry_execute frame with
            | Ok _ => adapter_read_loop fuel' s2
            | Err e => ClosedWith e
            | _ => ConnCrash
            end
          | Err _ => ClosedWith EEOF    (* peer EOF inside a frame: closed with the END_OF_FILE error
                                           "end of stream inside a frame" (was a clean close before
                                           "fix: adapter transport reports an END_OF_FILE that arrives
                                           inside a frame as an unclean close") *)
          | _ => ConnCrash
          end
        | Err _ => ClosedWith EEOF      (* peer EOF inside the size prefix: likewise *)
        | _ => ConnCrash
        end
      end
    end.
End Receivers.
