(** C14 — the server answers every two-way request exactly once with a well-formed reply.

    Executable model of
      lib/go/processor.go          FBaseProcessor.Process (header read, message begin, method lookup,
                                   unknown-method exception), FBaseProcessorFunction.SendReply /
                                   SendError / sendError / writeException / trapError  — as they are after
                                   the fix: commits of this property (see the report)
      compiler/generator/golang/generator.go generateMethodProcessor: the per-method Process it emits
                                   (args.Read failure -> PROTOCOL_ERROR, handler outcome mapping, reply)
      lib/go/protocol.go           ReadRequestHeader (op id into the response headers, _cid echoed)
      thrift/binary_protocol.go    ReadMessageBegin / WriteMessageBegin (strict write, non-strict read),
                                   application_exception.go Write
      lib/go/framed_transport.go   Write / Flush / Reset (output side)
      lib/go/simple_server.go accept, lib/go/nats_server.go processFrame,
      lib/go/http_transport.go NewFrugalHandlerFunc: what each server does with the frame and the output
    and of N goroutines calling Process with ONE shared output protocol (the situation writeMu is for).

    Imported, not redone: the header codec (Model/Headers.v), the TBinary readers and Skip
    (Model/ThriftBin.v), "_opid" (Model/Receivers.v), "_cid" (Model/Context.v).
    Not modelled here: size limits of the output buffer (C12, Model/SizeLimit.v: replies are taken to fit),
    texts of Go error values (parameters of the model), compact/JSON protocols, middleware.
    No proofs in this file. *)
From Coq Require Import ZArith List Bool.
From FV Require Import Base.Res Base.Bytes Model.Headers Model.ThriftBin.
From FV Require Model.Receivers Model.Context.
Import ListNotations.
Open Scope Z_scope.

Definition opid_header : bytes := Receivers.opid_header.
Definition cid_header : bytes := Context.cid_header.

(** * Thrift message envelope (TBinaryProtocol, strictWrite = true, strictRead = false) *)
Definition mt_call : Z := 1.
Definition mt_reply : Z := 2.
Definition mt_exception : Z := 3.
Definition mt_oneway : Z := 4.

Definition version_1 : Z := 2147549184.        (* 0x80010000 *)
Definition two32 : Z := 4294967296.

(** WriteMessageBegin(name, type, seqid) *)
Definition write_message_begin (name : bytes) (mt seq : Z) : bytes :=
  be_n 4 (version_1 + mt) ++ be_n 4 (zlen name) ++ name ++ be_n 4 seq.

(** ReadMessageBegin: (name, type, seqid, rest) *)
Definition read_message_begin (b : bytes) : res (bytes * Z * Z * bytes) :=
  do (size, r1) <- read_int 4 b;
  if size <? 0 then
    let u := size mod two32 in
    if negb (u - u mod 65536 =? version_1) then Err EBadVersion else
    do (name, r2) <- read_blob r1;
    do (seq, r3) <- read_int 4 r2;
    Ok (name, u mod 256, seq, r3)
  else
    (* old-style envelope: readStringBody(size), ReadByte, ReadI32 *)
    (* (compared in Z first: a size near 2^31 must not become a unary number) *)
    do (name, r2) <- (if size <=? zlen r1 then read_n (Z.to_nat size) r1 else Err EEOF);
    do (t, r3) <- read_int 1 r2;
    do (seq, r4) <- read_int 4 r3;
    Ok (name, t, seq, r4).

(** * TApplicationException *)
Definition ex_unknown_method : Z := 1.
Definition ex_internal_error : Z := 6.
Definition ex_protocol_error : Z := 7.

(** tApplicationException.Error(): the message, or the default text of the type id *)
Definition default_text (kind : Z) : bytes :=
  if kind =? 0 then [117; 110; 107; 110; 111; 119; 110; 32; 97; 112; 112; 108; 105; 99; 97; 116; 105; 111; 110; 32; 101; 120; 99; 101; 112; 116; 105; 111; 110]
  else if kind =? 1 then [117; 110; 107; 110; 111; 119; 110; 32; 109; 101; 116; 104; 111; 100]
  else if kind =? 2 then [105; 110; 118; 97; 108; 105; 100; 32; 109; 101; 115; 115; 97; 103; 101; 32; 116; 121; 112; 101]
  else if kind =? 3 then [119; 114; 111; 110; 103; 32; 109; 101; 116; 104; 111; 100; 32; 110; 97; 109; 101]
  else if kind =? 4 then [98; 97; 100; 32; 115; 101; 113; 117; 101; 110; 99; 101; 32; 73; 68]
  else if kind =? 5 then [109; 105; 115; 115; 105; 110; 103; 32; 114; 101; 115; 117; 108; 116]
  else if kind =? 6 then [117; 110; 107; 110; 111; 119; 110; 32; 105; 110; 116; 101; 114; 110; 97; 108; 32; 101; 114; 114; 111; 114]
  else if kind =? 7 then [117; 110; 107; 110; 111; 119; 110; 32; 112; 114; 111; 116; 111; 99; 111; 108; 32; 101; 114; 114; 111; 114]
  else if kind =? 8 then [73; 110; 118; 97; 108; 105; 100; 32; 116; 114; 97; 110; 115; 102; 111; 114; 109]
  else if kind =? 9 then [73; 110; 118; 97; 108; 105; 100; 32; 112; 114; 111; 116; 111; 99; 111; 108]
  else if kind =? 10 then [85; 110; 115; 117; 112; 112; 111; 114; 116; 101; 100; 32; 99; 108; 105; 101; 110; 116; 32; 116; 121; 112; 101]
  else if kind =? 11 then [118; 97; 108; 105; 100; 97; 116; 105; 111; 110; 32; 102; 97; 105; 108; 101; 100]
  else [].
Definition exc_text (kind : Z) (msg : bytes) : bytes :=
  match msg with [] => default_text kind | _ => msg end.

(** Write: field 1 "message" (STRING) only if Error() is not empty, field 2 "type" (I32), stop *)
Definition write_app_exception (kind : Z) (msg : bytes) : bytes :=
  let text := exc_text kind msg in
  (match text with
   | [] => []
   | _ => [11] ++ be_n 2 1 ++ be_n 4 (zlen text) ++ text
   end) ++ [8] ++ be_n 2 2 ++ be_n 4 kind ++ [0].

Definition unknown_function : bytes :=       (* "Unknown function " *)
  [85; 110; 107; 110; 111; 119; 110; 32; 102; 117; 110; 99; 116; 105; 111; 110; 32].
Definition internal_error_processing : bytes :=   (* "Internal error processing " *)
  [73; 110; 116; 101; 114; 110; 97; 108; 32; 101; 114; 114; 111; 114; 32; 112; 114; 111; 99; 101; 115; 115; 105; 110; 103; 32].
Definition colon_space : bytes := [58; 32].

(** * Output: what a Process call does to its output protocol's transport *)
Inductive oev :=
| OW (b : bytes)     (* bytes written *)
| OFlush             (* Flush *)
| OReset.            (* Reset of the transport's unflushed output (trapError, after the repair) *)

(** a complete message: header block (one Write, protocol.go writeHeader), envelope and body, Flush *)
Definition message_events (hdrs : list hpair) (name : bytes) (mt : Z) (body : bytes) : list oev :=
  [OW (marshal hdrs); OW (write_message_begin name mt 0 ++ body); OFlush].

(** writeException *)
Definition exception_events (hdrs : list hpair) (name : bytes) (kind : Z) (msg : bytes) : list oev :=
  message_events hdrs name mt_exception (write_app_exception kind msg).

(** * Service, handler *)
(** what the generated Process of one method needs: its wire name, whether it is oneway, and
    args.Read (for the judge: [gread] of Model/ThriftBin.v on the args struct) *)
Record mdesc := mkmd { md_name : bytes; md_oneway : bool; md_read : bytes -> res (val * bytes) }.

Fixpoint find_method (svc : list mdesc) (name : bytes) : option mdesc :=
  match svc with
  | [] => None
  | m :: r => if Headers.bytes_eqb (md_name m) name then Some m else find_method r name
  end.

(** the outcome of the user's handler as the generated Process sees it *)
Inductive hout :=
| HResult (rb : bytes) (wok : bool)
    (* a return value or a declared exception: both travel in the result struct;
       [rb] = the bytes result.Write emits, all of them iff [wok] (else it stops with an error) *)
| HAppExc (kind : Z) (msg : bytes)      (* a thrift.TApplicationException *)
| HOther (text : bytes).                (* any other error, text = err.Error() *)

(** handler: method name, request headers (without the op id), decoded arguments ->
    response headers it adds (FContext.AddResponseHeader), outcome *)
Definition handler := bytes -> list hpair -> val -> list hpair * hout.

Definition assign_all (m hs : list hpair) : list hpair :=
  fold_left (fun m p => assign m (fst p) (snd p)) hs m.

(** ReadRequestHeader: the response headers of the new context *)
Definition response_headers (hm : list hpair) (opid : bytes) : list hpair :=
  match Headers.lookup cid_header hm with
  | Some (c :: cs) => [(opid_header, opid); (cid_header, c :: cs)]
  | _ => [(opid_header, opid)]
  end.

(** * FBaseProcessor.Process on one request frame (the bytes after the 4-byte frame size).
    [can_reset]: the output transport has a Reset method (TFramedTransport, TMemoryOutputBuffer,
    thrift.TMemoryBuffer have).  [etext]: the text of the Go error involved, if any (args.Read error or
    result.Write error).  Result: (Process returned an error, output events). *)
Definition process (svc : list mdesc) (h : handler) (can_reset : bool) (etext : bytes) (frame : bytes)
  : bool * list oev :=
  match read_header frame with
  | Ok (hdrs, r1) =>
    let hm := to_map hdrs in
    match Headers.lookup opid_header hm with
    | None => (true, [])                                   (* "request missing op id" *)
    | Some opid =>
      let rh := response_headers hm opid in
      match read_message_begin r1 with
      | Ok (name, _, _, r2) =>
        match find_method svc name with
        | Some md =>
          (* the processor function's error is logged; Process returns nil *)
          (false,
           match md_read md r2 with
           | Ok (args, _) =>
             let '(extra, o) := h name (remove_key opid_header hm) args in
             let rh' := assign_all rh extra in
             match o with
             | HResult rb wok =>
               if md_oneway md then []
               else if wok then message_events rh' name mt_reply rb
               else [OW (marshal rh'); OW (write_message_begin name mt_reply 0 ++ rb)] ++
                    (if can_reset
                     then OReset :: exception_events rh' name ex_internal_error etext
                     else [])
             | HAppExc kind msg => exception_events rh' name kind (exc_text kind msg)
             | HOther text =>
               exception_events rh' name ex_internal_error
                                (internal_error_processing ++ name ++ colon_space ++ text)
             end
           | _ => exception_events rh name ex_protocol_error etext
           end)
        | None =>
          (* Skip(STRUCT) and ReadMessageEnd: their errors are logged only (after the repair) *)
          (false, exception_events rh name ex_unknown_method (unknown_function ++ name))
        end
      | _ => (true, [])
      end
    end
  | _ => (true, [])
  end.

(** * Output transports *)
(** TFramedTransport: Write buffers, Flush sends [size][buffer] and empties it, Reset empties it *)
Record fstate := mkfs { f_pending : bytes; f_sent : list bytes }.
Definition fs0 : fstate := mkfs [] [].
Definition framed_ev (s : fstate) (e : oev) : fstate :=
  match e with
  | OW b => mkfs (f_pending s ++ b) (f_sent s)
  | OFlush => mkfs [] (f_sent s ++ [f_pending s])
  | OReset => mkfs [] (f_sent s)
  end.
Definition framed_run (s : fstate) (evs : list oev) : fstate := fold_left framed_ev evs s.

(** memory buffers (TMemoryOutputBuffer of the NATS server, thrift.TMemoryBuffer of the HTTP
    handler): Flush does nothing, Reset empties; contents without the 4-byte size prefix *)
Definition mem_ev (b : bytes) (e : oev) : bytes :=
  match e with OW x => b ++ x | OFlush => b | OReset => [] end.
Definition mem_run (evs : list oev) : bytes := fold_left mem_ev evs [].

(** * Servers *)
(** nats_server.go processFrame: what is published on the reply subject *)
Definition nats_frame (svc : list mdesc) (h : handler) (etext frame : bytes) : option bytes :=
  let '(err, evs) := process svc h true etext frame in
  if err then None else
  match mem_run evs with [] => None | out => Some out end.

(** http_transport.go NewFrugalHandlerFunc (no payload limit requested): 500, or 200 and the buffer *)
Inductive http_result := H500 | H200 (body : bytes).
Definition http_frame (svc : list mdesc) (h : handler) (etext frame : bytes) : http_result :=
  let '(err, evs) := process svc h true etext frame in
  if err then H500 else H200 (mem_run evs).

(** simple_server.go accept: one connection; frames are read whole and processed in order with one
    shared framed output; an error from Process ends the loop (the connection is served no more).
    [etexts]: the error text that goes with each frame. *)
Record cstate := mkcs { c_alive : bool; c_out : fstate }.
Definition cs0 : cstate := mkcs true fs0.
Definition simple_step (svc : list mdesc) (h : handler) (s : cstate) (fe : bytes * bytes) : cstate :=
  if c_alive s then
    let '(err, evs) := process svc h true (snd fe) (fst fe) in
    mkcs (negb err) (framed_run (c_out s) evs)
  else s.
Definition simple_conn (svc : list mdesc) (h : handler) (frames : list (bytes * bytes)) : cstate :=
  fold_left (simple_step svc h) frames cs0.

(** * Concurrent writers on one shared framed output.
    A thread runs its sections one after another: acquire writeMu, perform the section's output
    events one at a time, release.  [log]: sections in the order the mutex was acquired (ghost). *)
Record thread := mkth { t_cur : option (list oev); t_todo : list (list oev) }.
Record wstate := mkws { w_holder : option nat; w_out : fstate; w_threads : list thread;
                        w_log : list (list oev) }.

Fixpoint set_nth {A} (n : nat) (x : A) (l : list A) : list A :=
  match n, l with
  | O, _ :: r => x :: r
  | S k, y :: r => y :: set_nth k x r
  | _, [] => []
  end.

(** one step of thread [i]; None = not enabled (blocked on the mutex, or finished) *)
Definition wstep (s : wstate) (i : nat) : option wstate :=
  match nth_error (w_threads s) i with
  | None => None
  | Some t =>
    match t_cur t with
    | None =>
      match t_todo t with
      | [] => None
      | sec :: rest =>
        match w_holder s with
        | Some _ => None                                              (* Lock blocks *)
        | None => Some (mkws (Some i) (w_out s) (set_nth i (mkth (Some sec) rest) (w_threads s))
                             (w_log s ++ [sec]))
        end
      end
    | Some (e :: es) =>
      Some (mkws (w_holder s) (framed_ev (w_out s) e) (set_nth i (mkth (Some es) (t_todo t)) (w_threads s))
                 (w_log s))
    | Some [] =>
      Some (mkws None (w_out s) (set_nth i (mkth None (t_todo t)) (w_threads s)) (w_log s))    (* Unlock *)
    end
  end.

Fixpoint wrun (s : wstate) (sched : list nat) : option wstate :=
  match sched with
  | [] => Some s
  | i :: r => match wstep s i with Some s' => wrun s' r | None => None end
  end.

Definition winit (todos : list (list (list oev))) : wstate :=
  mkws None fs0 (map (fun td => mkth None td) todos) [].

Definition thread_done (t : thread) : bool :=
  match t_cur t, t_todo t with None, [] => true | _, _ => false end.
Definition all_done (s : wstate) : bool := forallb thread_done (w_threads s).

(** the sections of a thread that processes [frames] (requests without output take no lock) *)
Definition sections_of (svc : list mdesc) (h : handler) (frames : list (bytes * bytes)) : list (list oev) :=
  filter (fun evs => match evs with [] => false | _ => true end)
         (map (fun fe => snd (process svc h true (snd fe) (fst fe))) frames).

(** * Reading a reply back (what a client does: protocol.go readHeader, ReadMessageBegin, and for an
    EXCEPTION message TApplicationException.Read).  Independent of the writer above. *)
Record reply := mkrep { r_headers : list hpair; r_name : bytes; r_type : Z; r_body : bytes }.

Definition parse_reply (frame : bytes) : res reply :=
  do (hdrs, r1) <- read_header frame;
  do (name, mt, _, r2) <- read_message_begin r1;
  Ok (mkrep hdrs name mt r2).

Definition reply_opid (r : reply) : option bytes := Headers.lookup opid_header (to_map (r_headers r)).

(** TApplicationException.Read on a body: (message, type), unknown fields skipped *)
Fixpoint read_app_exception (fuel : nat) (b : bytes) (msg : bytes) (kind : Z) : res (bytes * Z) :=
  match fuel with
  | O => OutOfFuel
  | S f =>
    do (wt, r1) <- read_int 1 b;
    if wt =? 0 then Ok (msg, kind) else
    do (id, r2) <- read_int 2 r1;
    if (id =? 1) && (wt =? 11) then do (m, r3) <- read_blob r2; read_app_exception f r3 m kind
    else if (id =? 2) && (wt =? 8) then do (k, r3) <- read_int 4 r2; read_app_exception f r3 msg k
    else do r3 <- skip_default f wt r2; read_app_exception f r3 msg kind
  end.

(** classification of a reply frame: Some (opid, None) = REPLY, Some (opid, Some kind) = EXCEPTION *)
Definition classify_reply (frame : bytes) : option (bytes * option Z) :=
  match parse_reply frame with
  | Ok r =>
    match reply_opid r with
    | Some opid =>
      if r_type r =? mt_reply then Some (opid, None)
      else if r_type r =? mt_exception then
        match read_app_exception (S (length (r_body r))) (r_body r) [] 0 with
        | Ok (_, k) => Some (opid, Some k)
        | _ => None
        end
      else None
    | None => None
    end
  | _ => None
  end.

(** * The table of the property: which answer a request gets *)
Inductive answer := ANone | AReply | AExc (kind : Z).

Definition expected_answer (svc : list mdesc) (h : handler) (frame : bytes) : option (bytes * answer) :=
  match read_header frame with
  | Ok (hdrs, r1) =>
    let hm := to_map hdrs in
    match Headers.lookup opid_header hm, read_message_begin r1 with
    | Some opid, Ok (name, _, _, r2) =>
      Some (opid,
            match find_method svc name with
            | None => AExc ex_unknown_method
            | Some md =>
              match md_read md r2 with
              | Ok (args, _) =>
                match snd (h name (remove_key opid_header hm) args) with
                | HResult _ wok => if md_oneway md then ANone else if wok then AReply else AExc ex_internal_error
                | HAppExc k _ => AExc k
                | HOther _ => AExc ex_internal_error
                end
              | _ => AExc ex_protocol_error
              end
            end)
    | _, _ => None
    end
  | _ => None
  end.
