(** C14 — the lock discipline of lib/go/processor.go, decided on the data the translator regenerates
    (Gen/LockSites.v).  A function's events are scanned in source order with calls of the file's own
    helpers inlined; sync.Mutex semantics: Lock while held deadlocks, a write needs the mutex held,
    delegating to a registered processor function (which takes the mutex itself) needs it free, and a
    function may end holding the mutex only if it deferred the Unlock.  No proofs in this file. *)
From Coq Require Import List Bool.
From FV Require Import Gen.LockSites.
Import ListNotations.

(** calls inlined to depth [fuel]; a call that is still there at depth 0 counts as a write *)
Fixpoint expand (fuel : nat) (sites : list lsfn) (body : list lsev) : list lsev :=
  flat_map (fun e =>
              match e with
              | LCall g =>
                match fuel with
                | O => [LWrite]
                | S k => match nth_error sites g with
                         | Some fn => expand k sites (ls_body fn)
                         | None => [LWrite]
                         end
                end
              | _ => [e]
              end) body.

(** scan: (held, deferred) -> ok *)
Fixpoint scan (held deferred : bool) (evs : list lsev) : bool :=
  match evs with
  | [] => negb held || deferred
  | LLock :: r => negb held && scan true deferred r
  | LUnlock :: r => held && scan false deferred r
  | LDeferUnlock :: r => held && scan held true r
  | LWrite :: r => held && scan held deferred r
  | LDelegate :: r => negb held && scan held deferred r
  | LCall _ :: r => false
  end.

Definition fn_guarded (sites : list lsfn) (fn : lsfn) : bool :=
  scan false false (expand (length sites) sites (ls_body fn)).

(** every exported function of processor.go keeps the discipline *)
Definition sites_guarded (sites : list lsfn) : bool :=
  forallb (fun fn => negb (ls_exported fn) || fn_guarded sites fn) sites.

(** number of output-protocol uses reachable from exported functions (non-vacuity of the check) *)
Definition count_writes (sites : list lsfn) : nat :=
  length (filter (fun e => match e with LWrite => true | _ => false end)
                 (flat_map (fun fn => if ls_exported fn then expand (length sites) sites (ls_body fn) else []) sites)).
