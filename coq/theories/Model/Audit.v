(** Model of compiler/parser/audit.go (the IDL audit, property C18), transcribed function by
    function from the Go source (after the repair "fix: audit resolves typedefs declared in an
    include in the scope of that include").  Executable definitions only.

    Representation choices (each one mirrors a Go fact):
    - identifiers, prefixes and messages are byte strings ([bytes]);
    - [*Type] is a nullable pointer to {Name, KeyType, ValueType}: [TNil] is the nil pointer;
    - every `newMap[x.Name] = x` loop is "last declaration with that key wins" ([lookup_last]);
    - ranging over a Go map visits each key once in arbitrary order: [dedup_last] fixes one
      order, the judge compares diagnostics as multisets;
    - a parsed program is the root file's declarations plus a table of files (root = index 0);
      each file has its own name, its typedefs in declaration order (typedefIndex = last wins) and
      its ParsedIncludes as (include name, file index);
    - the logger receives pieces that are joined by single spaces (the test suite's mock logger
      and the harness logger do exactly that);
    - constant / default values are opaque byte strings: the harness renders a value so that
      reflect.DeepEqual holds iff the renderings are equal.
    - typedef chains may be cyclic (the parser does not reject them): every loop that follows
      typedefs takes [fuel]; running out is reported as an [LAbort] diagnostic, which is neither
      an error nor a warning (the real code does not terminate there). *)
From Coq Require Import ZArith List Bool.
From Coq Require Ascii String.
From FV Require Import Base.Bytes.
Import ListNotations.
Open Scope Z_scope.

(** * Strings *)
Fixpoint s2b (s : String.string) : bytes :=
  match s with
  | String.EmptyString => []
  | String.String a r => Z.of_N (Ascii.N_of_ascii a) :: s2b r
  end.

Fixpoint beqb (a b : bytes) : bool :=
  match a, b with
  | [], [] => true
  | x :: a', y :: b' => (x =? y) && beqb a' b'
  | _, _ => false
  end.

Definition is_empty (b : bytes) : bool := match b with [] => true | _ => false end.
Definition is_empty_list {A} (l : list A) : bool := match l with [] => true | _ => false end.

(** strings.Split(s, ".") : always at least one piece *)
Fixpoint split_dot (s : bytes) : list bytes :=
  match s with
  | [] => [[]]
  | c :: r =>
    if c =? 46 then [] :: split_dot r
    else match split_dot r with
         | p :: ps => (c :: p) :: ps
         | [] => [[c]]
         end
  end.

(** strings.Join(l, ".") *)
Fixpoint join_dot (l : list bytes) : bytes :=
  match l with
  | [] => []
  | [p] => p
  | p :: ps => p ++ 46 :: join_dot ps
  end.

(** name[0:Index(name, ".")] and name[Index(name, ".")+1:] ; [None] when there is no dot *)
Fixpoint cut_dot (s : bytes) : option (bytes * bytes) :=
  match s with
  | [] => None
  | c :: r =>
    if c =? 46 then Some ([], r)
    else match cut_dot r with
         | Some (a, b) => Some (c :: a, b)
         | None => None
         end
  end.

(** Type.IncludeName *)
Definition include_name (n : bytes) : bytes :=
  match cut_dot n with Some (a, _) => a | None => [] end.
(** Type.ParamName *)
Definition param_name (n : bytes) : bytes :=
  match cut_dot n with Some (_, b) => b | None => n end.

(** decimal rendering of an int (%d) *)
Fixpoint dec_digits (fuel : nat) (z : Z) (acc : bytes) : bytes :=
  match fuel with
  | O => acc
  | S f => if z <? 10 then (48 + z) :: acc else dec_digits f (z / 10) ((48 + z mod 10) :: acc)
  end.
Definition dec (z : Z) : bytes :=
  if z <? 0 then 45 :: dec_digits 25 (- z) [] else dec_digits 25 z [].

(** * The parse tree (compiler/parser/types.go) *)
Inductive ty := TNil | Ty (n : bytes) (k v : ty).

Inductive modifier := Required | Optional | Default.

Record field := mkField { f_id : Z; f_name : bytes; f_mod : modifier; f_type : ty; f_default : bytes }.
Record strct := mkStruct { s_name : bytes; s_fields : list field }.
Record enumv := mkEnumV { ev_name : bytes; ev_value : Z }.
Record enum := mkEnum { e_name : bytes; e_values : list enumv }.
Record const := mkConst { c_name : bytes; c_type : ty; c_value : bytes }.
Record namespace := mkNs { ns_scope : bytes; ns_value : bytes }.
Record method := mkMethod { m_name : bytes; m_oneway : bool; m_ret : ty;
                            m_args : list field; m_excs : list field }.
Record service := mkService { sv_name : bytes; sv_extends : bytes; sv_methods : list method }.
Record operation := mkOp { o_name : bytes; o_type : ty }.
Record scope := mkScope { sc_name : bytes; sc_prefix : bytes; sc_ops : list operation }.

(** one parsed file as far as type resolution needs it *)
Record file := mkFile { fl_name : bytes;
                        fl_typedefs : list (bytes * ty);
                        fl_includes : list (bytes * nat) }.

Record program := mkProgram {
  p_files : list file;            (* index 0 is the audited (root) file *)
  p_scopes : list scope;
  p_namespaces : list namespace;
  p_constants : list const;
  p_enums : list enum;
  p_structs : list strct;
  p_exceptions : list strct;
  p_unions : list strct;
  p_services : list service }.

(** * Diagnostics *)
Inductive level := LError | LWarning | LAbort.
Record diag := mkDiag { d_level : level; d_rule : Z; d_msg : bytes }.

Definition is_error (d : diag) : bool := match d_level d with LError => true | _ => false end.
Definition is_abort (d : diag) : bool := match d_level d with LAbort => true | _ => false end.
(** ValidationLogger.ErrorsLogged after the run *)
Definition has_error (l : list diag) : bool := existsb is_error l.
(** the model run did not hit its fuel bound *)
Definition converged (l : list diag) : bool := forallb (fun d => negb (is_abort d)) l.

Definition sp (a b : bytes) : bytes := a ++ 32 :: b.
Definition err (rule : Z) (m : bytes) : diag := mkDiag LError rule m.
Definition warning (rule : Z) (m : bytes) : diag := mkDiag LWarning rule m.
Definition abort : diag := mkDiag LAbort 0 [].

Module Msg.
  Import String.StringSyntax Ascii.AsciiSyntax.
  Local Open Scope string_scope.
  Definition scope_ := s2b "scope ".
  Definition missing_scope := s2b "missing scope:".
  Definition prefix_changed := s2b "prefix changed: '".
  Definition arrow := s2b "' -> '".
  Definition quote := s2b "'".
  Definition operation_ := s2b "operation ".
  Definition operation_removed := s2b "operation removed:".
  Definition namespace_changed := s2b "namespace changed:".
  Definition namespace_removed := s2b "namespace removed:".
  Definition constant_ := s2b "constant ".
  Definition constant_changed := s2b "constant value changed:".
  Definition constant_removed := s2b "constant value removed:".
  Definition enum_ := s2b "enum ".
  Definition enum_removed := s2b "enum removed:".
  Definition variant_name_changed := s2b "enum variant name changed:".
  Definition variant_ := s2b " variant ".
  Definition removed_with_id := s2b ": removed with ID=".
  Definition struct_ := s2b "struct ".
  Definition missing_struct := s2b "missing struct:".
  Definition service_ := s2b "service ".
  Definition extends_changed := s2b ": extends changed: '".
  Definition missing_service := s2b "missing service:".
  Definition method_ := s2b "method ".
  Definition oneway_changed := s2b "one way modifier changed".
  Definition return_type := s2b " return type:".
  Definition cant_add := s2b "can't add exceptions with nil return type".
  Definition cant_remove := s2b "can't remove exceptions with nil return type".
  Definition missing_method := s2b "missing method: ".
  Definition field_ := s2b "field ".
  Definition modifier_changed := s2b "field presence modifier changed: '".
  Definition default_changed := s2b "default value changed".
  Definition name_changed := s2b "name changed".
  Definition field_removed := s2b "field removed with ID=".
  Definition added_middle := s2b "added field in the middle with ID=".
  Definition added_required := s2b "added field is required".
  Definition types_not_equal := s2b "types not equal: '".
  Definition key_type := s2b " key type:".
  Definition value_type := s2b " value type:".
  Definition nil_ := s2b "<nil>".
  Definition map_ := s2b "map".
  Definition list_ := s2b "list".
  Definition set_ := s2b "set".
  Definition required := s2b "REQUIRED".
  Definition optional := s2b "OPTIONAL".
  Definition default_ := s2b "DEFAULT".
  Definition colon := s2b ":".
  Definition base_types := map s2b ["bool"; "byte"; "i8"; "i16"; "i32"; "i64"; "double"; "string"; "binary"].
  Definition container_types := map s2b ["list"; "set"; "map"].
End Msg.

(** * Keyed collections *)
Section Keyed.
  Context {A K : Type} (keqb : K -> K -> bool) (key : A -> K).
  (** m := map[K]A{}; for x in l { m[key x] = x }; m[k] *)
  Fixpoint lookup_last (l : list A) (k : K) : option A :=
    match l with
    | [] => None
    | x :: r =>
      match lookup_last r k with
      | Some y => Some y
      | None => if keqb (key x) k then Some x else None
      end
    end.
  (** the values of that map, each once *)
  Fixpoint dedup_last (l : list A) : list A :=
    match l with
    | [] => []
    | x :: r => if existsb (fun y => keqb (key y) (key x)) r then dedup_last r else x :: dedup_last r
    end.
End Keyed.

(** * Types: scoped typedef resolution (underlyingScopedType, qualifiedTypeName) *)
Definition get_file (P : program) (i : nat) : option file := nth_error (p_files P) i.

Definition mem (n : bytes) (l : list bytes) : bool := existsb (beqb n) l.
(** Type.IsCustom *)
Definition is_custom (n : bytes) : bool := negb (mem n Msg.base_types) && negb (mem n Msg.container_types).

(** the file `declaring` of one loop iteration; None = include not found *)
Definition declaring (P : program) (sc : nat) (n : bytes) : option nat :=
  let inc := include_name n in
  if is_empty inc then Some sc
  else match get_file P sc with
       | Some f => option_map snd (lookup_last beqb fst (fl_includes f) inc)
       | None => None
       end.

(** one iteration of the loop: Some (declaring file, typedef target) or None = return (scope, t) *)
Definition typedef_step (P : program) (sc : nat) (n : bytes) : option (nat * ty) :=
  match declaring P sc n with
  | None => None
  | Some d =>
    match get_file P d with
    | Some f =>
      match lookup_last beqb fst (fl_typedefs f) (param_name n) with
      | Some td => Some (d, snd td)
      | None => None
      end
    | None => None
    end
  end.

(** underlyingScopedType; [None] = out of fuel (Go: the loop does not end) *)
Fixpoint underlying (fuel : nat) (P : program) (sc : nat) (t : ty) : option (nat * ty) :=
  match t with
  | TNil => Some (sc, TNil)
  | Ty n _ _ =>
    match typedef_step P sc n with
    | None => Some (sc, t)
    | Some (d, body) =>
      match fuel with
      | O => None
      | S f => underlying f P d body
      end
    end
  end.

(** qualifiedTypeName: root is file 0 *)
Definition qualified_name (P : program) (sc : nat) (n : bytes) : bytes :=
  match sc with
  | O => n
  | S _ =>
    if is_custom n && is_empty (include_name n)
    then match get_file P sc with
         | Some f => fl_name f ++ 46 :: n
         | None => 46 :: n
         end
    else n
  end.

(** Type.String, as printed by '%v' (a nil *Type prints as <nil>) *)
Fixpoint ty_string (t : ty) : bytes :=
  match t with
  | TNil => Msg.nil_
  | Ty n k v =>
    if beqb n Msg.map_ then Msg.map_ ++ 60 :: ty_string k ++ 44 :: ty_string v ++ [62]
    else if beqb n Msg.list_ then Msg.list_ ++ 60 :: ty_string v ++ [62]
    else if beqb n Msg.set_ then Msg.set_ ++ 60 :: ty_string v ++ [62]
    else n
  end.

Definition mismatch (warn : bool) (rule : Z) (m : bytes) : diag :=
  if warn then warning rule m else err rule m.

(** checkScopedType *)
Fixpoint check_type (fuel : nat) (po pn : program) (so : nat) (ot : ty) (sn : nat) (nt : ty)
         (warn : bool) (ctx : bytes) : list diag :=
  match ot, nt with
  | TNil, TNil => []
  | TNil, Ty _ _ _ | Ty _ _ _, TNil =>
    [mismatch warn 5 (sp ctx (Msg.types_not_equal ++ ty_string ot ++ Msg.arrow ++ ty_string nt ++ Msg.quote))]
  | Ty _ _ _, Ty _ _ _ =>
    match fuel with
    | O => [abort]
    | S f =>
      match underlying f po so ot, underlying f pn sn nt with
      | Some (so', Ty on ok ov), Some (sn', Ty nn nk nv) =>
        let oname := qualified_name po so' on in
        let nname := qualified_name pn sn' nn in
        if negb (beqb oname nname)
        then [mismatch warn 4 (sp ctx (Msg.types_not_equal ++ oname ++ Msg.arrow ++ nname ++ Msg.quote))]
        else check_type f po pn so' ok sn' nk warn (ctx ++ Msg.key_type)
             ++ check_type f po pn so' ov sn' nv warn (ctx ++ Msg.value_type)
      | _, _ => [abort]
      end
    end
  end.

(** * Scopes *)
(** normalizeScopePrefix *)
Definition is_var (p : bytes) : bool :=
  match p with
  | c :: _ => (c =? 123) && (last p 0 =? 125)
  | [] => false
  end.
Definition normalize_prefix (s : bytes) : bytes :=
  join_dot (map (fun p => if is_var p then [123; 125] else p) (split_dot s)).

Definition check_scope_prefix (o n : bytes) (ctx : bytes) : list diag :=
  let on := normalize_prefix o in
  let nn := normalize_prefix n in
  if negb (beqb on nn)
  then [err 2 (sp ctx (Msg.prefix_changed ++ on ++ Msg.arrow ++ nn ++ Msg.quote))]
  else [].

Definition check_operations (fuel : nat) (po pn : program) (olds news : list operation) (ctx : bytes)
  : list diag :=
  flat_map (fun o =>
    match lookup_last beqb o_name news (o_name o) with
    | Some n => check_type fuel po pn 0 (o_type o) 0 (o_type n) false
                           (sp ctx (Msg.operation_ ++ o_name o ++ Msg.colon))
    | None => [err 3 (sp (sp ctx Msg.operation_removed) (o_name o))]
    end) olds.

Definition check_scopes (fuel : nat) (po pn : program) : list diag :=
  flat_map (fun o =>
    match lookup_last beqb sc_name (p_scopes pn) (sc_name o) with
    | Some n =>
      let ctx := Msg.scope_ ++ sc_name o ++ Msg.colon in
      check_scope_prefix (sc_prefix o) (sc_prefix n) ctx
      ++ check_operations fuel po pn (sc_ops o) (sc_ops n) ctx
    | None => [err 1 (sp Msg.missing_scope (sc_name o))]
    end) (p_scopes po).

(** * Namespaces, constants (warnings only) *)
Definition check_namespaces (po pn : program) : list diag :=
  flat_map (fun o =>
    match lookup_last beqb ns_scope (p_namespaces pn) (ns_scope o) with
    | Some n => if negb (beqb (ns_value o) (ns_value n))
                then [warning 6 (sp Msg.namespace_changed (ns_scope o))] else []
    | None => [warning 7 (sp Msg.namespace_removed (ns_scope o))]
    end) (p_namespaces po).

Definition check_constants (fuel : nat) (po pn : program) : list diag :=
  flat_map (fun o =>
    match lookup_last beqb c_name (p_constants pn) (c_name o) with
    | Some n =>
      check_type fuel po pn 0 (c_type o) 0 (c_type n) true (Msg.constant_ ++ c_name o ++ Msg.colon)
      ++ (if negb (beqb (c_value o) (c_value n))
          then [warning 8 (sp Msg.constant_changed (c_name o))] else [])
    | None => [warning 9 (sp Msg.constant_removed (c_name o))]
    end) (p_constants po).

(** * Enums *)
Definition check_enum_values (olds news : list enumv) (ctx : bytes) : list diag :=
  flat_map (fun o =>
    match lookup_last Z.eqb ev_value news (ev_value o) with
    | Some n => if negb (beqb (ev_name o) (ev_name n))
                then [warning 11 (sp Msg.variant_name_changed (ev_name o))] else []
    | None => [err 12 (ctx ++ Msg.variant_ ++ ev_name o ++ Msg.removed_with_id ++ dec (ev_value o))]
    end) olds.

Definition check_enums (po pn : program) : list diag :=
  flat_map (fun o =>
    match lookup_last beqb e_name (p_enums pn) (e_name o) with
    | Some n => check_enum_values (e_values o) (e_values n) (Msg.enum_ ++ e_name o ++ Msg.colon)
    | None => [warning 10 (sp Msg.enum_removed (e_name o))]
    end) (p_enums po).

(** * Fields *)
Definition is_required (f : field) : bool := match f_mod f with Required => true | _ => false end.
Definition is_optional (f : field) : bool := match f_mod f with Optional => true | _ => false end.
Definition mod_string (m : modifier) : bytes :=
  match m with Required => Msg.required | Optional => Msg.optional | Default => Msg.default_ end.

Definition max_int : Z := 9223372036854775807.

(** checkFields *)
Definition check_fields (fuel : nat) (po pn : program) (olds news : list field) (ctx : bytes)
  : list diag :=
  let omap := dedup_last Z.eqb f_id olds in
  let nmap := dedup_last Z.eqb f_id news in
  let mn := fold_right (fun f a => Z.min (f_id f) a) max_int omap in
  let mx := fold_right (fun f a => Z.max (f_id f) a) 0 omap in
  flat_map (fun o =>
    let fctx := sp ctx (Msg.field_ ++ f_name o ++ Msg.colon) in
    match lookup_last Z.eqb f_id news (f_id o) with
    | Some n =>
      check_type fuel po pn 0 (f_type o) 0 (f_type n) false fctx
      ++ (if negb (Bool.eqb (is_required o) (is_required n))
          then [err 20 (sp fctx (Msg.modifier_changed ++ mod_string (f_mod o) ++ Msg.arrow
                                  ++ mod_string (f_mod n) ++ Msg.quote))] else [])
      ++ (if negb (beqb (f_default o) (f_default n)) then [warning 21 (sp fctx Msg.default_changed)] else [])
      ++ (if negb (beqb (f_name o) (f_name n)) then [warning 22 (sp fctx Msg.name_changed)] else [])
    | None =>
      if negb (is_optional o) then [err 23 (sp fctx (Msg.field_removed ++ dec (f_id o)))] else []
    end) omap
  ++
  flat_map (fun n =>
    match lookup_last Z.eqb f_id olds (f_id n) with
    | Some _ => []
    | None =>
      let fctx := sp ctx (Msg.field_ ++ f_name n ++ Msg.colon) in
      (if (mn <? f_id n) && (f_id n <? mx)
       then [warning 24 (sp fctx (Msg.added_middle ++ dec (f_id n)))] else [])
      ++ (if is_required n then [err 25 (sp fctx Msg.added_required)] else [])
    end) nmap.

(** checkStructLike *)
Definition check_struct_like (fuel : nat) (po pn : program) (olds news : list strct) : list diag :=
  flat_map (fun o =>
    match lookup_last beqb s_name news (s_name o) with
    | Some n => check_fields fuel po pn (s_fields o) (s_fields n) (Msg.struct_ ++ s_name o ++ Msg.colon)
    | None => [err 13 (sp Msg.missing_struct (s_name o))]
    end) olds.

(** * Services *)
Definition is_nil (t : ty) : bool := match t with TNil => true | _ => false end.

Definition check_method (fuel : nat) (po pn : program) (o n : method) (mctx : bytes) : list diag :=
  (if negb (Bool.eqb (m_oneway o) (m_oneway n)) then [err 16 (sp mctx Msg.oneway_changed)] else [])
  ++ check_type fuel po pn 0 (m_ret o) 0 (m_ret n) false (mctx ++ Msg.return_type)
  ++ check_fields fuel po pn (m_args o) (m_args n) mctx
  ++ check_fields fuel po pn (m_excs o) (m_excs n) mctx
  ++ (if is_nil (m_ret o) && is_empty_list (m_excs o) && negb (is_empty_list (m_excs n))
      then [err 17 (sp mctx Msg.cant_add)] else [])
  ++ (if is_nil (m_ret n) && is_empty_list (m_excs n) && negb (is_empty_list (m_excs o))
      then [err 18 (sp mctx Msg.cant_remove)] else []).

Definition check_service_methods (fuel : nat) (po pn : program) (olds news : list method) (ctx : bytes)
  : list diag :=
  flat_map (fun o =>
    match lookup_last beqb m_name news (m_name o) with
    | Some n => check_method fuel po pn o n (sp ctx (Msg.method_ ++ m_name o ++ Msg.colon))
    | None => [err 19 (sp ctx (Msg.missing_method ++ m_name o))]
    end) olds.

Definition check_services (fuel : nat) (po pn : program) : list diag :=
  flat_map (fun o =>
    match lookup_last beqb sv_name (p_services pn) (sv_name o) with
    | Some n =>
      (if negb (is_empty (sv_extends o)) && negb (beqb (sv_extends o) (sv_extends n))
       then [err 14 (Msg.service_ ++ sv_name o ++ Msg.extends_changed ++ sv_extends o ++ Msg.arrow
                      ++ sv_extends n ++ Msg.quote)] else [])
      ++ check_service_methods fuel po pn (sv_methods o) (sv_methods n)
                               (Msg.service_ ++ sv_name o ++ Msg.colon)
    | None => [err 15 (sp Msg.missing_service (sv_name o))]
    end) (p_services po).

(** * Auditor.Audit (after both files parsed) *)
Definition audit (fuel : nat) (po pn : program) : list diag :=
  check_scopes fuel po pn
  ++ check_namespaces po pn
  ++ check_constants fuel po pn
  ++ check_enums po pn
  ++ check_struct_like fuel po pn (p_structs po) (p_structs pn)
  ++ check_struct_like fuel po pn (p_exceptions po) (p_exceptions pn)
  ++ check_struct_like fuel po pn (p_unions po) (p_unions pn)
  ++ check_services fuel po pn.

(** Audit returns a non-nil error *)
Definition audit_fails (fuel : nat) (po pn : program) : bool := has_error (audit fuel po pn).
